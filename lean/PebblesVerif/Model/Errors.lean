import PebblesVerif.Basic.J
/-!
Model of `gqlerrors/errors.go`: the error values that travel from a downstream response to the
client, `FormatError`, `ExtendErrorList`, the JSON shape of `Error` (encoding AND the decoding
`encoding/json` performs when `fetch` reads a downstream answer), and the layers the errors pass
through (`queryBatch` → `AsyncMapReduce` in `MultiOpQueryer.Query` / `DepthExecutor.Execute` →
`DepthExecutorManager.Execute` → `gateway.queryHandler`). Core Lean only.

Go facts kept literal:
* `ErrorList` is `[]*Error`: an element may be a nil pointer (`"errors":[null]` decodes to one);
  it is forwarded as is and encodes as `null`. Modelled by `Option Err`.
* `Error.Extensions` has no `omitempty`: a nil map encodes as `"extensions":null`;
  `locations` / `path` are omitted when empty; `Location.line/column` are omitted when 0.
* `FormatError` switches on the dynamic type: `ErrorList` and `gqlerror.List` are flattened,
  `*Error` is kept (pointer identity), `*gqlerror.Error` is converted (path rendered by
  `ast.Path.String()` and split on "."; empty extensions replaced by `{"code":"UNDEFINED_ERROR"}`),
  anything else becomes `NewError(UNDEFINED_ERROR, err)`; `nil` gives `nil`.
-/
namespace PebblesVerif.Errors
open PebblesVerif

structure Loc where
  line : Int
  column : Int
  deriving Repr, DecidableEq

/-- `gqlerrors.Error` -/
structure Err where
  message : String
  extensions : Option (List (String × J))   -- `none` = nil map
  path : List J
  locations : List Loc
  deriving Repr, Inhabited

inductive PathElem where
  | name (s : String)
  | index (i : Nat)
  deriving Repr, DecidableEq

/-- `*gqlerror.Error` (gqlparser), the fields `FormatError` reads -/
structure ParserErr where
  message : String
  path : List PathElem
  locations : List Loc
  extensions : List (String × J)
  deriving Repr, Inhabited

/-- a Go `error` value as `FormatError`'s type switch sees it. `errorList` is allowed to nest
    arbitrarily (the Go type only allows `*Error` elements; the theorems hold for every depth). -/
inductive GoErr where
  | noError                           -- `err == nil`
  | errorList (es : List GoErr)       -- `gqlerrors.ErrorList`
  | gqlError (e : Option Err)         -- `*gqlerrors.Error` (possibly a nil pointer)
  | parserError (e : ParserErr)       -- `*gqlerror.Error`
  | parserList (es : List ParserErr)  -- `gqlerror.List`
  | other (msg : String)              -- any other error: only `Error()` is used
  deriving Repr, Inhabited

def undefinedCode : List (String × J) := [("code", .str "UNDEFINED_ERROR")]
def validationCode : List (String × J) := [("code", .str "GRAPHQL_VALIDATION_FAILED")]

/-- `NewError(code, err)` -/
def newError (code : List (String × J)) (msg : String) : Err :=
  { message := msg, extensions := some code, path := [], locations := [] }

/-- `ast.Path.String()` -/
def pathString : Nat → List PathElem → String
  | _, [] => ""
  | i, .index k :: rest => "[" ++ toString k ++ "]" ++ pathString (i + 1) rest
  | i, .name s :: rest => (if i = 0 then "" else ".") ++ s ++ pathString (i + 1) rest

/-- the `*gqlerror.Error` arm of `FormatError` -/
def convertParser (e : ParserErr) : Err :=
  let s := pathString 0 e.path
  { message := e.message
    extensions := some (if e.extensions.length = 0 then undefinedCode else e.extensions)
    path := if s = "" then [] else (s.splitOn ".").map J.str
    locations := e.locations }

mutual
  /-- `gqlerrors.FormatError` -/
  def formatError : GoErr → List (Option Err)
    | .noError => []
    | .errorList es => formatErrorL es
    | .gqlError e => [e]
    | .parserError e => [some (convertParser e)]
    | .parserList es => es.map (fun e => some (convertParser e))
    | .other msg => [some (newError undefinedCode msg)]
  def formatErrorL : List GoErr → List (Option Err)
    | [] => []
    | e :: es => formatError e ++ formatErrorL es
end

/-- `gqlerrors.ExtendErrorList` -/
def extend (errs : List (Option Err)) (e : GoErr) : List (Option Err) := errs ++ formatError e

/-- an `ErrorList` value used as an `error` -/
def asErr (l : List (Option Err)) : GoErr := .errorList (l.map .gqlError)

/-- what `AsyncMapReduce` returns as its error: the fold of `ExtendErrorList` over the errors of
    the failing map calls, in the order the reducer received them (`nil` when none failed). -/
def amrErrors (failed : List GoErr) : GoErr :=
  let errs := failed.foldl extend []
  if errs.length > 0 then asErr errs else .noError

/-- `DepthExecutorManager.Execute` on a failing depth: `ExtendErrorList(ErrorList{}, executionErr)` -/
def managerErrors (executionErr : GoErr) : GoErr := asErr (extend [] executionErr)

/-- the `errors` member of the gateway's `Result`: `gqlerrors.FormatError(err)` -/
def gatewayErrors (err : GoErr) : List (Option Err) := formatError err

/-- One failing depth, end to end: every URL group of the depth is one `executeRequests` call whose
    error is the error of `MultiOpQueryer.Query` — `queryBatch`'s own error on the direct path, or
    the `AsyncMapReduce` fold over the failing chunks on the chunked path. -/
inductive GroupErr where
  | direct (e : GoErr)
  | chunked (chunkErrs : List GoErr)

def GroupErr.err : GroupErr → GoErr
  | .direct e => e
  | .chunked cs => amrErrors cs

def clientErrors (groups : List GroupErr) : List (Option Err) :=
  gatewayErrors (managerErrors (amrErrors (groups.map GroupErr.err)))

/-! ## JSON shape -/

def encodeLoc (l : Loc) : J :=
  .obj ((if l.line = 0 then [] else [("line", J.num l.line.repr)]) ++
        (if l.column = 0 then [] else [("column", J.num l.column.repr)]))

/-- `json.Marshal(*Error)` (field order of the struct; a nil pointer is `null`) -/
def encodeErr : Option Err → J
  | none => .null
  | some e => .obj (
      [("extensions", match e.extensions with | none => J.null | some kvs => J.obj kvs),
       ("message", J.str e.message)]
      ++ (if e.locations.isEmpty then [] else [("locations", J.arr (e.locations.map encodeLoc))])
      ++ (if e.path.isEmpty then [] else [("path", J.arr e.path)]))

def encodeErrors (es : List (Option Err)) : J := .arr (es.map encodeErr)

/-- ASCII lower-casing (`encoding/json` matches object keys to struct fields case-insensitively) -/
def lower (s : String) : String := s.map Char.toLower

/-- does the object key `k` address the struct field whose JSON name is `field`?
    (`encoding/json`: exact match, else equal up to case) -/
def keyMatch (field k : String) : Bool := k == field || lower k == field

/-- the value `encoding/json` stores into the struct field named `field`: the first key that
    addresses it (objects with two keys addressing the same field are outside the model) -/
def lookupFold (field : String) : List (String × J) → Option J
  | [] => none
  | (k', v) :: rest => if keyMatch field k' then some v else lookupFold field rest

def decodeInt : Option J → Except String Int
  | none => .ok 0
  | some .null => .ok 0
  | some (.num r) => match r.toInt? with
    | some i => .ok i
    | none => .error "json: cannot unmarshal number into Go struct field of type int"
  | some _ => .error "json: cannot unmarshal into Go struct field of type int"

def decodeLoc : J → Except String Loc
  | .null => .ok ⟨0, 0⟩
  | .obj kvs => do
      let l ← decodeInt (lookupFold "line" kvs)
      let c ← decodeInt (lookupFold "column" kvs)
      pure ⟨l, c⟩
  | _ => .error "json: cannot unmarshal into Go value of type gqlerrors.Location"

def decodeLocs : Option J → Except String (List Loc)
  | none => .ok []
  | some .null => .ok []
  | some (.arr xs) => xs.mapM decodeLoc
  | some _ => .error "json: cannot unmarshal into Go struct field Error.locations"

def decodeMessage : Option J → Except String String
  | none => .ok ""
  | some .null => .ok ""
  | some (.str s) => .ok s
  | some _ => .error "json: cannot unmarshal into Go struct field Error.message of type string"

def decodeExtensions : Option J → Except String (Option (List (String × J)))
  | none => .ok none
  | some .null => .ok none
  | some (.obj kvs) => .ok (some kvs)
  | some _ => .error "json: cannot unmarshal into Go struct field Error.extensions"

def decodePath : Option J → Except String (List J)
  | none => .ok []
  | some .null => .ok []
  | some (.arr xs) => .ok xs
  | some _ => .error "json: cannot unmarshal into Go struct field Error.path"

/-- `json.Unmarshal` into a `*gqlerrors.Error` element -/
def decodeErr : J → Except String (Option Err)
  | .null => .ok none
  | .obj kvs => do
      let ext ← decodeExtensions (lookupFold "extensions" kvs)
      let msg ← decodeMessage (lookupFold "message" kvs)
      let locs ← decodeLocs (lookupFold "locations" kvs)
      let path ← decodePath (lookupFold "path" kvs)
      pure (some { message := msg, extensions := ext, path := path, locations := locs })
  | _ => .error "json: cannot unmarshal into Go value of type gqlerrors.Error"

/-- `json.Unmarshal` into a `gqlerrors.ErrorList` field -/
def decodeErrors : Option J → Except String (List (Option Err))
  | none => .ok []
  | some .null => .ok []
  | some (.arr xs) => xs.mapM decodeErr
  | some _ => .error "json: cannot unmarshal into Go struct field Response.errors of type gqlerrors.ErrorList"

end PebblesVerif.Errors
