import PebblesVerif.Model.Format
import PebblesVerif.Model.ResultOps
import PebblesVerif.Model.ScrubClean
import PebblesVerif.Spec.Eval
/-!
Model of the executor (executor/depth_executor_manager.go, depth_executor.go,
depth_executor_query.go, depth_executor_parse.go, depth_executor_next_execution_requests.go) and
of the per-request pipeline of gateway.go: plan → execute depth by depth (one batched call per
service and depth, de-duplicated) → merge → scrub → envelope.

The downstream is a parameter (DESIGN §4.6). `specDownstream` instantiates it with the reference
evaluator over each service's own schema.

Concurrency: groups of one depth run in parallel and their results are merged in arrival order;
the model merges in (group, request) order — C13 is the statement that the order cannot matter.
-/
namespace PebblesVerif.Exec
open PebblesVerif PebblesVerif.ResultOps

/-- one sub-request as sent to a service -/
structure Request where
  header : Header
  sels : List Sel
  vars : List (String × J)
  opName : Option String
  key : String            -- stands for QueryString / QueryStringHash
  deriving Inhabited

/-- one batched call -/
structure Call where
  url : String
  batch : List Request
  deriving Inhabited

/-- a downstream: URL → batch → one `data` object per request (`[]` = null/absent data) or a fault -/
abbrev Downstream := String → List Request → G (List (List (String × J)))

structure ExecReq where
  step : Step
  ip : List String
  deriving Inhabited

structure ExecCfg where
  idHint : Option (String → Option String) := none   -- GetParentTypeFromIDFunc

mutual
  def stepDepth : Step → Nat
    | .mk _ _ _ _ thn => stepsDepth thn + 1
  def stepsDepth : List Step → Nat
    | [] => 0
    | s :: rest => Nat.max (stepDepth s) (stepsDepth rest)
end

/-- `getVariables` -/
def getVariables (reqVars : Option (List (String × J))) (c : PCtx) (er : ExecReq) : G (List (String × J)) := do
  let base : List (String × J) := match reqVars with
    | none => []
    | some rv => (variablesList er.step.sels).foldl (fun acc v =>
        match J.lookup v rv with
        | some x => J.setKey v x acc
        | none => acc) []
  match er.ip.getLast? with
  | none => .ok base
  | some head => do
    let pd ← Point.extract head
    if pd.id == "" then .error (.err "could not find id in path")
    else .ok (J.setKey "id" (.str pd.id) base)

/-- `isNeedToQuery` -/
def isNeedToQuery (cfg : ExecCfg) (er : ExecReq) (vars : List (String × J)) : Bool :=
  if isRootName er.step.parentType then true else
  match cfg.idHint, J.lookup "id" vars with
  | some hint, some (.str id) =>
    match hint id with
    | some t => t == er.step.parentType
    | none => true
  | _, _ => true

/-- `setIMap`'s key: `"!"+id+hash` for de-dupable lookups, else the decimal index (the two string
    forms cannot collide: one starts with `!`, the other with a digit) -/
inductive DKey where
  | idx (i : Nat)
  | dedup (id : String) (query : String)
  deriving DecidableEq, Repr

def dedupKey (c : PCtx) (index : Nat) (er : ExecReq) (vars : List (String × J)) : DKey :=
  match vars with
  | [("id", .str id)] => if !isRootName er.step.parentType then .dedup id (queryKey c er.step) else .idx index
  | _ => .idx index

/-- `executeRequests` for one service group: the batch sent and, per request, where its answer
    comes from (`none` = skipped by the id hint: synthetic `{node: null}`) -/
def buildBatch (c : PCtx) (cfg : ExecCfg) (reqVars : Option (List (String × J))) (ers : List ExecReq) :
    G (List Request × List (Option Nat)) :=
  let rec go (l : List ExecReq) (i : Nat) (keys : List DKey) (batch : List Request) (src : List (Option Nat)) :
      G (List Request × List (Option Nat)) :=
    match l with
    | [] => .ok (batch, src)
    | er :: rest => do
      let vars ← getVariables reqVars c er
      if !isNeedToQuery cfg er vars then go rest (i + 1) keys batch (src ++ [none]) else
      let key := dedupKey c i er vars
      match keys.idxOf? key with
      | some pos => go rest (i + 1) keys batch (src ++ [some pos])
      | none =>
        let rq : Request := { header := header c er.step, sels := er.step.sels, vars := vars,
                              opName := stepOpName c er.step, key := queryKey c er.step }
        go rest (i + 1) (keys ++ [key]) (batch ++ [rq]) (src ++ [some batch.length])
  go ers 0 [] [] []

/-- `parseRespones` for one answered request: unwrap `node`, find the next requests -/
def parseOne (er : ExecReq) (resp : List (String × J)) : G (List (String × J) × List ExecReq) := do
  let queryResult ← (if isRootName er.step.parentType then (.ok resp : G _) else
    match J.lookup "node" resp with
    | none => .error (.err "missing node key when expected")
    | some .null => .ok []
    | some (.obj m) => .ok m
    | some _ => .error (.err "node is not a map"))
  let next ← er.step.thn.foldlM (fun (acc : List ExecReq) dep => do
    let ips ← findIP (dep.ip.drop er.ip.length) er.step.sels queryResult er.ip
    .ok (acc ++ ips.map (fun ip => ⟨dep, ip⟩))) []
  .ok (queryResult, next)

/-- `lo.PartitionBy` by URL: groups in order of first occurrence -/
def partitionByURL (ers : List ExecReq) : List (String × List ExecReq) :=
  ers.foldl (fun acc er =>
    match acc.find? (·.1 == er.step.url) with
    | some _ => acc.map (fun (u, l) => if u == er.step.url then (u, l ++ [er]) else (u, l))
    | none => acc ++ [(er.step.url, [er])]) []

/-- `DepthExecutorManager.merge` for one execution result -/
def mergeResult (result : List (String × J)) (ip : List String) (res : List (String × J)) : G (List (String × J)) :=
  updateAt (fun target => mergeInto target res) ip result

structure ExecState where
  result : List (String × J)
  calls : List Call

/-- one depth: every group is one `Queryer.Query` call -/
def execDepth (c : PCtx) (cfg : ExecCfg) (reqVars : Option (List (String × J))) (down : Downstream)
    (ers : List ExecReq) (st : ExecState) : G (ExecState × List ExecReq) := do
  (partitionByURL ers).foldlM (fun (acc : ExecState × List ExecReq) (url, group) => do
    let (batch, src) ← buildBatch c cfg reqVars group
    let resps ← down url batch
    if resps.length != batch.length then .error (.err "not all requests were fetched") else
    let calls := acc.1.calls ++ [⟨url, batch⟩]
    let pairs := group.zip src
    pairs.foldlM (fun (acc : ExecState × List ExecReq) (er, s) => do
      let resp : List (String × J) := match s with
        | none => [("node", .null)]
        | some i => resps[i]?.getD []
      let (qr, next) ← parseOne er resp
      let result' ← mergeResult acc.1.result er.ip qr
      .ok (⟨result', acc.1.calls⟩, acc.2 ++ next)) (⟨acc.1.result, calls⟩, acc.2)) (st, [])

/-- the depth loop (`fuel` = number of plan levels) -/
def execLoop (c : PCtx) (cfg : ExecCfg) (reqVars : Option (List (String × J))) (down : Downstream) :
    Nat → List ExecReq → ExecState → G ExecState
  | 0, _, st => .ok st
  | fuel + 1, ers, st =>
    if ers.isEmpty then .ok st else do
      let (st', next) ← execDepth c cfg reqVars down ers st
      execLoop c cfg reqVars down fuel next st'

/-- `DepthExecutorManager.Execute` -/
def execute (c : PCtx) (cfg : ExecCfg) (reqVars : Option (List (String × J))) (down : Downstream)
    (steps : List Step) (initial : List (String × J)) : G ExecState :=
  execLoop c cfg reqVars down (stepsDepth steps) (steps.map (fun s => ⟨s, s.ip⟩)) ⟨initial, []⟩

/-- outcome of the per-request pipeline of `gateway.queryHandler` after validation -/
structure GwResult where
  data : Option (List (String × J))     -- `none` = `data: null`
  errors : List String
  calls : List Call

mutual
  /-- `(*ast.Value).Value` builds a list literal by appending to a nil slice: an EMPTY list literal
      (also nested) is a nil `[]interface{}`, which `encoding/json` writes as `null` -/
  def nilEmptyLists : J → J
    | .arr [] => .null
    | .arr (x :: xs) => .arr (nilEmptyListsL (x :: xs))
    | .obj kvs => .obj (nilEmptyListsO kvs)
    | v => v
  def nilEmptyListsL : List J → List J
    | [] => []
    | x :: xs => nilEmptyLists x :: nilEmptyListsL xs
  def nilEmptyListsO : List (String × J) → List (String × J)
    | [] => []
    | (k, v) :: rest => (k, nilEmptyLists v) :: nilEmptyListsO rest
end

/-- the default as it is stored in the request's variables: as declared when the helper keeps empty
    lists (`emptyListsNotNil`, regenerated fact `Gen.Vars.emptyListDefaultsKept`), with every empty
    list turned into `null` otherwise -/
def defaultAsSent (kept : Bool) (v : J) : J := if kept then v else nilEmptyLists v

/-- `applyDeclaredDefaults(operation, request)` (gateway.go): every variable definition of the
    selected operation that declares a default, in order; a variable the client sent a value for
    (an explicit `null` is a value) stays; `vd.DefaultValue.Value(nil)` is the constant
    (`Spec.constToJ`; an error — impossible for a validated operation, whose defaults hold no
    variables — passes the definition over); the map is created when it was nil (`none`). -/
def applyDeclaredDefaults (varDefs : List VarDef) (reqVars : Option (List (String × J))) : Option (List (String × J)) :=
  varDefs.foldl (fun rv vd =>
    match vd.default with
    | none => rv
    | some d =>
      if (J.lookup vd.name (rv.getD [])).isSome then rv else
      match Spec.constToJ d with
      | none => rv
      | some v => some (J.setKey vd.name (defaultAsSent Gen.Vars.emptyListDefaultsKept v) (rv.getD []))) reqVars

/-- the request's variables as planning and execution see them: with the client's declared
    defaults when the handler fills them in (regenerated fact `Gen.Vars.declaredDefaultsApplied`),
    as sent otherwise -/
def withDeclaredDefaults (applied : Bool) (op : Op) (reqVars : Option (List (String × J))) : Option (List (String × J)) :=
  if applied then applyDeclaredDefaults op.varDefs reqVars else reqVars

/-- an operation without variable definitions: nothing to fill in, whatever the handler does -/
theorem withDeclaredDefaults_noVarDefs (applied : Bool) (op : Op) (reqVars : Option (List (String × J)))
    (h : op.varDefs = []) : withDeclaredDefaults applied op reqVars = reqVars := by
  unfold withDeclaredDefaults applyDeclaredDefaults
  cases applied <;> simp [h]

/-- plan → execute → scrub → envelope for the variables as given (introspection answers are
    modelled in Model/Introspect). `scrubOrder` stands for the Go map iteration order over the
    scrub table (identity by default). -/
def gatewayCoreWith (planner : PCtx → Op → G (List Step × Scrub)) (c : PCtx) (cfg : ExecCfg) (op : Op)
    (reqVars : Option (List (String × J))) (down : Downstream) (scrubOrder : Scrub → Scrub := id) : G GwResult :=
  match planner c op with
  | .error (.err m) => .ok ⟨none, [m], []⟩      -- planner error: GRAPHQL_VALIDATION_FAILED, data null
  | .error f => .error f
  | .ok (steps, sf) =>
    match execute c cfg reqVars down steps [] with
    | .ok st => .ok ⟨some (ScrubClean.cleanAll (scrubOrder sf) st.result), [], st.calls⟩
    | .error (.err m) => .ok ⟨none, [m], []⟩    -- execution error: data null, errors non-empty
    | .error f => .error f

/-- `gatewayCoreWith` over the planner model of the theorems (`plan`) -/
def gatewayCore (c : PCtx) (cfg : ExecCfg) (op : Op) (reqVars : Option (List (String × J))) (down : Downstream)
    (scrubOrder : Scrub → Scrub := id) : G GwResult :=
  gatewayCoreWith plan c cfg op reqVars down scrubOrder

/-- the whole pipeline over another planner model (the driver passes `planFor`, which is `plan`
    except where a fragment is expanded more than once, see Model/SanitizeShared.lean) -/
def gatewayWith (planner : PCtx → Op → G (List Step × Scrub)) (c : PCtx) (cfg : ExecCfg) (op : Op)
    (reqVars : Option (List (String × J))) (down : Downstream) (scrubOrder : Scrub → Scrub := id) : G GwResult :=
  gatewayCoreWith planner c cfg op (withDeclaredDefaults Gen.Vars.declaredDefaultsApplied op reqVars) down scrubOrder

/-- the per-request pipeline of `gateway.queryHandler` after validation and operation selection:
    declared defaults (when the handler applies them) → plan → execute → scrub → envelope -/
def gateway (c : PCtx) (cfg : ExecCfg) (op : Op) (reqVars : Option (List (String × J))) (down : Downstream)
    (scrubOrder : Scrub → Scrub := id) : G GwResult :=
  gatewayCore c cfg op (withDeclaredDefaults Gen.Vars.declaredDefaultsApplied op reqVars) down scrubOrder

/-- for an operation without variable definitions `gateway` is `gatewayCore` on the variables as sent -/
theorem gateway_noVarDefs (c : PCtx) (cfg : ExecCfg) (op : Op) (reqVars : Option (List (String × J)))
    (down : Downstream) (scrubOrder : Scrub → Scrub) (h : op.varDefs = []) :
    gateway c cfg op reqVars down scrubOrder = gatewayCore c cfg op reqVars down scrubOrder := by
  unfold gateway
  rw [withDeclaredDefaults_noVarDefs _ _ _ h]

/-- the services of a federation as the model sees them -/
structure Svc where
  url : String
  schema : Schema

/-- downstream = every service answers with the reference evaluator over its OWN schema -/
def specDownstream (svcs : List Svc) (data : Spec.Data) : Downstream := fun url batch =>
  match svcs.find? (·.url == url) with
  | none => .error (.err ("transport: no service at " ++ url))
  | some svc => .ok (batch.map (fun rq =>
      let op : Op := { kind := rq.header.kind, name := rq.header.name.getD "", varDefs := [], sels := rq.sels }
      match Spec.eval svc.schema data op rq.vars with
      | some (.obj kvs) => kvs
      | _ => []))

end PebblesVerif.Exec
