/-!
# Model of the depth loop of the executor: which `Queryer.Query` calls are made
(executor/depth_executor_manager.go:14-101, depth_executor.go:21-61)

`NewDepthExecutorManager` buckets the plan steps by depth (`walkPlanStep`); `Execute` runs
```
for depth := 0; depth <= maxDepth; depth++ {
    if len(executionRequests) == 0 { break }
    exResp := depthExecutors[depth].Execute(executionRequests)     -- one level
    executionRequests = exResp.NextExecutionRequests               -- built from step.Then only
}
```
and one level is: `lo.PartitionBy(ers, url)` (groups in order of first appearance), one
`mapFunc` per group through `AsyncMapReduce` (each item mapped exactly once: C20), and inside it
`executeRequests`, which calls `q.Query` exactly once for the group (Model/IndexMap.lean) —
however many requests the group holds.

What the next level's requests are depends on the data (one request per insertion point found in
the answers); the model takes that as an arbitrary function `next`, constrained only by what
`findNextExecutionRequests` guarantees: a new request's step is a child (`Then`) of the step of
one of the current requests.
-/
namespace PebblesVerif.Levels

inductive Step where
  | mk (url : String) (thens : List Step)

def Step.url : Step → String
  | .mk u _ => u

def Step.thens : Step → List Step
  | .mk _ t => t

/-- the plan steps at depth `d` (`walkPlanStep`) -/
def stepsAt (roots : List Step) : Nat → List Step
  | 0 => roots
  | d + 1 => (stepsAt roots d).flatMap Step.thens

/-- service `u` owns a step at depth `d` -/
def owns (roots : List Step) (u : String) (d : Nat) : Bool :=
  (stepsAt roots d).any (fun s => s.url == u)

structure Req where
  step : Step
  /-- stands for the insertion point (any data) -/
  tag : Nat

/-- `lo.PartitionBy(ers, func(x) string { return x.QueryPlanStep.URL })` -/
def insertGroup (groups : List (String × List Req)) (r : Req) : List (String × List Req) :=
  if groups.any (fun g => g.1 == r.step.url) then
    groups.map (fun g => if g.1 == r.step.url then (g.1, g.2 ++ [r]) else g)
  else groups ++ [(r.step.url, [r])]

def partitionBy (rs : List Req) : List (String × List Req) := rs.foldl insertGroup []

/-- the `Query` calls of one level: one per group, named by the service called -/
def levelCalls (rs : List Req) : List String := (partitionBy rs).map (·.1)

/-- the depth loop: `fuel` = `maxDepth + 1 - depth` iterations left -/
def run (next : Nat → List Req → List Req) : Nat → Nat → List Req → List (List String)
  | 0, _, _ => []
  | fuel + 1, d, rs =>
    if rs.isEmpty then [] else levelCalls rs :: run next fuel (d + 1) (next d rs)

/-- the root requests: one per root step -/
def rootReqs (roots : List Step) : List Req := roots.map (fun s => ⟨s, 0⟩)

end PebblesVerif.Levels
