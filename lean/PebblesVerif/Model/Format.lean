import PebblesVerif.Model.Plan
import PebblesVerif.Gen.Vars
/-!
Model of the computed values of a plan step (planner/plan.go:53-143) and of the header the
formatter synthesises (format/format.go:231-311, 383-416): operation keyword and name (root steps
only), variable declarations synthesised from ARGUMENT POSITIONS — of the fields and, since the
repair recorded in `Gen/Vars.lean`, of the DIRECTIVES of the fields —, `VariablesList`.
Whether the directives of a field are walked is a regenerated fact (`Gen.Vars.directivesWalkedInHeader`
for `format.walkArgumentList`, `Gen.Vars.directivesWalkedInVariablesList` for
`planner.getVariablesList`); the functions `…With` take it as a parameter so that both shapes of
the code can be talked about.
The body of the query string is kept as an AST (the printed text is gqlparser-parsed by the fake
services in the correspondence run, so a harmless formatting change breaks nothing); `renderSels`
is only used as the de-duplication key (`QueryStringHash`).
-/
namespace PebblesVerif

/-- `Value.Raw` as the lexer leaves it -/
def Value.raw : Value → String
  | .var n _ => n
  | .int s => s
  | .float s => s
  | .str s => s
  | .bool b => if b then "true" else "false"
  | .null => "null"
  | .enum s => s
  | .list _ => ""
  | .object _ => ""

mutual
  /-- `getArgumentListChildrenVariablesList` -/
  def childRaws : Value → List String
    | .list [] => [""]
    | .object [] => [""]
    | .list vs => childRawsL vs
    | .object fs => childRawsO fs
    | v => [v.raw]
  def childRawsL : List Value → List String
    | [] => []
    | v :: vs => childRaws v ++ childRawsL vs
  def childRawsO : List (String × Value) → List String
    | [] => []
    | (_, v) :: fs => childRaws v ++ childRawsO fs
end

/-- raw names contributed by one argument (`getVariablesList`, per argument) -/
def argRaws (a : Arg) : List String :=
  match a.value with
  | .list [] => [""]
  | .object [] => [""]
  | .list vs => childRawsL vs
  | .object fs => childRawsO fs
  | v => [v.raw]

/-- raw names contributed by one directive of a field (`getArgumentListVariablesList(d.Arguments)`) -/
def dirRaws (d : Dir) : List String := d.args.flatMap argRaws

mutual
  /-- `getVariablesList` (document order; inline fragments in place; spreads ignored); per field:
      its arguments, then — `dirs` = the function walks `f.Directives` — the arguments of its
      directives, then its selection set -/
  def varNamesWith (dirs : Bool) : List Sel → List String
    | [] => []
    | s :: rest => varNamesSelWith dirs s ++ varNamesWith dirs rest
  def varNamesSelWith (dirs : Bool) : Sel → List String
    | .field _ _ args ds _ _ sub =>
      args.flatMap argRaws ++ (if dirs then ds.flatMap dirRaws else []) ++ varNamesWith dirs sub
    | .inline _ _ _ _ sub => varNamesWith dirs sub
    | .spread .. => []
end

/-- `getVariablesList` as the code has it now -/
def varNames (ss : List Sel) : List String := varNamesWith Gen.Vars.directivesWalkedInVariablesList ss

def uniq (l : List String) : List String :=
  l.foldl (fun acc x => if acc.contains x then acc else acc ++ [x]) []

/-- `QueryPlanStep.VariablesList` -/
def variablesList (ss : List Sel) : List String := uniq (varNames ss)

/-- a GraphQL type string without its non-null marks, and the number of them -/
def stripBang (t : String) : String := String.ofList (t.toList.filter (· != '!'))
def countBang (t : String) : Nat := (t.toList.filter (· == '!')).length

/-- `setVariableType` (format.go): the type a variable is declared with in the synthesised header.
    `strict` = a variable used at several positions keeps the STRICTEST of their types (same type
    up to non-null marks, at least as many marks) whatever the visiting order; `false` = the plain
    map assignment the code had before (the last position visited wins). -/
def setVarTypeWith (strict : Bool) (k v : String) : List (String × String) → List (String × String)
  | [] => [(k, v)]
  | (k', v') :: rest =>
    if k = k' then
      (if strict && stripBang v' == stripBang v && decide (countBang v ≤ countBang v') then (k, v') :: rest else (k, v) :: rest)
    else (k', v') :: setVarTypeWith strict k v rest

/-- as the code has it now (regenerated fact `Gen.Vars.strictestTypeWins`) -/
def setStr (k v : String) (m : List (String × String)) : List (String × String) :=
  setVarTypeWith Gen.Vars.strictestTypeWins k v m

mutual
  /-- variables inside a list / input-object argument value, each with the type the validator
      expects at its position (`walkChildrenArgumentList`: list elements take `ExpectedType`, object
      fields the declared input-field type — the same thing for a valid operation) -/
  def childVarTypes : Value → List (String × String) → List (String × String)
    | .var n et, acc => setStr n et acc
    | .list vs, acc => childVarTypesL vs acc
    | .object fs, acc => childVarTypesO fs acc
    | _, acc => acc
  def childVarTypesL : List Value → List (String × String) → List (String × String)
    | [], acc => acc
    | v :: vs, acc => childVarTypesL vs (childVarTypes v acc)
  def childVarTypesO : List (String × Value) → List (String × String) → List (String × String)
    | [], acc => acc
    | (_, v) :: fs, acc => childVarTypesO fs (childVarTypes v acc)
end

/-- one argument of a field: a variable is declared with the ARGUMENT's declared type; variables
    nested in list / object literals with their expected types (only when the argument's named type
    is known to the schema) -/
def argVarTypes (schema : Schema) (argDefs : List ArgDef) (acc : List (String × String)) (a : Arg) : List (String × String) :=
  match argDefs.find? (·.name == a.name) with
  | none => acc
  | some ad =>
    match a.value with
    | .var n _ => setStr n ad.type.toString acc
    | .list (x :: xs) => if (schema.type? ad.type.name).isSome then childVarTypesL (x :: xs) acc else acc
    | .object (x :: xs) => if (schema.type? ad.type.name).isSome then childVarTypesO (x :: xs) acc else acc
    | _ => acc

/-- the arguments of one directive of a field: like the arguments of a field, with the argument
    definitions of the DIRECTIVE's definition (`dir.Definition.Arguments`; the validator resolves
    `dir.Definition` in the schema the operation was validated against; a directive without
    definition is passed over) -/
def dirVarTypes (schema : Schema) (acc : List (String × String)) (d : Dir) : List (String × String) :=
  match schema.directives.find? (·.name == d.name) with
  | none => acc
  | some dd => d.args.foldl (argVarTypes schema dd.args) acc

mutual
  /-- `Formatter.walkArgumentList`: variable name ↦ declared type of the argument position
      (later positions overwrite earlier ones); per field: its arguments, then — `dirs` = the
      function walks `field.Directives` — the arguments of its directives, then its selection set -/
  def walkArgsWith (dirs : Bool) (schema : Schema) : List Sel → List (String × String) → List (String × String)
    | [], acc => acc
    | s :: rest, acc => walkArgsWith dirs schema rest (walkArgsSelWith dirs schema s acc)
  def walkArgsSelWith (dirs : Bool) (schema : Schema) : Sel → List (String × String) → List (String × String)
    | .field _ _ args ds _ argDefs sub, acc =>
      let acc1 := args.foldl (argVarTypes schema argDefs) acc
      let acc2 := if dirs then ds.foldl (dirVarTypes schema) acc1 else acc1
      walkArgsWith dirs schema sub acc2
    | .inline _ _ _ _ sub, acc => walkArgsWith dirs schema sub acc
    | .spread .., acc => acc
end

/-- `Formatter.walkArgumentList` as the code has it now -/
def walkArgs (schema : Schema) (ss : List Sel) (acc : List (String × String)) : List (String × String) :=
  walkArgsWith Gen.Vars.directivesWalkedInHeader schema ss acc

def insertSortedStr (x : String) : List String → List String
  | [] => [x]
  | y :: ys => if x < y then x :: y :: ys else y :: insertSortedStr x ys

def sortStrs (l : List String) : List String := l.foldl (fun acc x => insertSortedStr x acc) []

/-- what precedes the selection set in the query string of a step -/
structure Header where
  kind : OpKind
  name : Option String
  varDecls : List String      -- "$name: Type", sorted
  deriving Repr, Inhabited

/-- `FormatSelectionSet`'s header for a step: operation type and name only when the insertion
    point is empty (plan.go:96-102) -/
def header (c : PCtx) (st : Step) : Header :=
  let root := st.ip.isEmpty
  { kind := if root then c.opKind else .query,
    name := if root && c.opName != "" then some c.opName else none,
    varDecls := sortStrs ((walkArgs c.schema st.sels []).map (fun (n, t) => "$" ++ n ++ ": " ++ t)) }

/-- `Step.OperationName` -/
def stepOpName (c : PCtx) (st : Step) : Option String :=
  if st.ip.isEmpty && c.opName != "" then some c.opName else none

mutual
  def renderValue : Value → String
    | .var n _ => "$" ++ n
    | .int s => s
    | .float s => s
    | .str s => "\"" ++ s ++ "\""
    | .bool b => if b then "true" else "false"
    | .null => "null"
    | .enum s => s
    | .list vs => "[" ++ renderValues vs ++ "]"
    | .object fs => "{" ++ renderFields fs ++ "}"
  def renderValues : List Value → String
    | [] => ""
    | v :: vs => renderValue v ++ "," ++ renderValues vs
  def renderFields : List (String × Value) → String
    | [] => ""
    | (k, v) :: fs => k ++ ":" ++ renderValue v ++ "," ++ renderFields fs
end

def renderArgs (as : List Arg) : String :=
  if as.isEmpty then "" else "(" ++ ",".intercalate (as.map (fun a => a.name ++ ":" ++ renderValue a.value)) ++ ")"

def renderDirs (ds : List Dir) : String := "".intercalate (ds.map (fun d => "@" ++ d.name ++ renderArgs d.args))

mutual
  /-- compact, injective-enough rendering of a selection set (stands for the query text in the
      de-duplication key) -/
  def renderSels : List Sel → String
    | [] => ""
    | s :: rest => renderSel s ++ " " ++ renderSels rest
  def renderSel : Sel → String
    | .field alias name args dirs _ _ sub =>
      (if alias != "" && alias != name then alias ++ ":" else "") ++ name ++ renderArgs args ++ renderDirs dirs ++
        (if sub.isEmpty then "" else "{" ++ renderSels sub ++ "}")
    | .inline cond _ _ dirs sub => "..." ++ (if cond != "" then "on " ++ cond else "") ++ renderDirs dirs ++ "{" ++ renderSels sub ++ "}"
    | .spread name _ _ _ dirs sub => "..." ++ name ++ renderDirs dirs ++ "{" ++ renderSels sub ++ "}"
end

def renderHeader (h : Header) : String :=
  h.kind.keyword ++ " " ++ h.name.getD "" ++ "(" ++ ",".intercalate h.varDecls ++ ")"

/-- stands for `QueryString` (hence `QueryStringHash`) of a step -/
def queryKey (c : PCtx) (st : Step) : String := renderHeader (header c st) ++ "{" ++ renderSels st.sels ++ "}"

end PebblesVerif
