import PebblesVerif.Model.AsyncMapReduce
/-!
Model of the batch handling in `gateway.queryHandler` (gateway.go:201-311): the requests of one
HTTP body are handled by `AsyncMapReduce` over their indices; the map function handles request
`i` and always returns `(result, nil)`; the reducer stores the result at its carried index:
`acc[value.index] = value`. `Results.Emit` then encodes the slice (batch mode) or element 0.
-/
namespace PebblesVerif.GatewayBatch

/-- the reducer: `acc[value.index] = value` (Go slice assignment; out of range would panic) -/
def place (acc : List (Option β)) (iv : Nat × β) : Option (List (Option β)) :=
  if iv.1 < acc.length then some (acc.set iv.1 (some iv.2)) else none

/-- results arriving in `order` (indices), `h i` = the result of handling request `i` -/
def placeAll (n : Nat) (h : Nat → β) (order : List Nat) : Option (List (Option β)) :=
  order.foldl (fun acc i => acc.bind (fun a => place a (i, h i))) (some (List.replicate n none))

/-- what the client must see: result `i` is the result of handling request `i` alone -/
def spec (n : Nat) (h : Nat → β) : List (Option β) := (List.range n).map (fun i => some (h i))

end PebblesVerif.GatewayBatch
