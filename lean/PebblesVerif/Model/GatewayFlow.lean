import PebblesVerif.Gen.GatewayFlow
/-!
Model of the order of steps inside the per-request closure of `gateway.queryHandler`
(gateway.go:206-307) as an interpreter over the statement sequence the extractor regenerates
(`Gen/GatewayFlow.lean`), applied to ABSTRACT outcomes of the external calls (DESIGN §4.6):
does the operation validate, is an operation selected, does planning succeed, is it an
introspection query. A downstream request can only be made by `execute`
(`g.executor.Execute`, the only statement that is handed the queryers).

Go facts kept literal: `gqlparser.LoadQuery` returns a nil document together with the error, so
using the document after a failed validation without returning first is a nil dereference;
likewise the plan after a failed `Plan`. These are `panic` outcomes of the interpreter, not
totalised away.
-/
namespace PebblesVerif.GatewayFlow

/-- abstract outcomes of the calls the closure makes -/
structure Outcomes where
  valid : Bool            -- gqlparser.LoadQuery(g.schema, request.Query) succeeded
  operationFound : Bool   -- operationName resolves / the document has exactly one operation
  planOk : Bool           -- g.planner.Plan succeeded
  introspection : Bool    -- parseIntrospectionQuery answered
  deriving DecidableEq, Repr

inductive Answer where
  | validationError      -- Result{Errors: FormatError(qerr), Data: nil}
  | operationError       -- "unable to extract query for operation …" / "many queries provided, but no operationName"
  | planError
  | introspectionResult
  | executed             -- Result{Errors: FormatError(err), Data: result}
  | fellThrough          -- the closure ended without `return` (not Go)
  | panic (what : String)
  deriving DecidableEq, Repr

structure St where
  loaded : Bool := false
  selected : Bool := false
  planned : Bool := false
  queryers : Bool := false
  executes : Nat := 0          -- number of `Execute` calls = the only source of downstream requests
  plans : Nat := 0
  deriving DecidableEq, Repr

/-- interpreter: returns the answer and the final state -/
def run (o : Outcomes) : List String → St → Answer × St
  | [], s => (.fellThrough, s)
  | "loadQuery" :: rest, s => run o rest { s with loaded := true }
  | "return-if-invalid" :: rest, s =>
      if !s.loaded then (.panic "qerr used before LoadQuery", s)
      else if !o.valid then (.validationError, s) else run o rest s
  | "selectOperation" :: rest, s =>
      if !s.loaded || !o.valid then (.panic "nil document dereferenced (query.Operations)", s)
      else run o rest { s with selected := true }
  | "return-if-no-operation" :: rest, s =>
      if !s.selected then (.panic "operation used before selection", s)
      else if !o.operationFound then (.operationError, s) else run o rest s
  | "applyDefaults" :: rest, s =>
      -- `applyDeclaredDefaults(operation, request)` ranges over `operation.VariableDefinitions`
      if !s.selected || !o.operationFound then (.panic "nil operation dereferenced (operation.VariableDefinitions)", s)
      else run o rest s
  | "plan" :: rest, s =>
      if !s.selected || !o.operationFound then (.panic "Plan called with a nil operation", s)
      else run o rest { s with planned := true, plans := s.plans + 1 }
  | "return-if-plan-error" :: rest, s =>
      if !s.planned then (.panic "err used before Plan", s)
      else if !o.planOk then (.planError, s) else run o rest s
  | "introspection" :: rest, s =>
      if !s.planned || !o.planOk then (.panic "nil plan dereferenced (plan.RootSteps)", s) else run o rest s
  | "return-if-introspection" :: rest, s =>
      if o.introspection then (.introspectionResult, s) else run o rest s
  | "getQueryers" :: rest, s =>
      if !s.planned || !o.planOk then (.panic "nil plan dereferenced (plan.RootSteps)", s)
      else run o rest { s with queryers := true }
  | "execute" :: rest, s =>
      if !s.planned || !o.planOk || !s.queryers then (.panic "Execute without plan/queryers", s)
      else run o rest { s with executes := s.executes + 1 }
  | "scrub" :: rest, s =>
      if !s.planned || !o.planOk then (.panic "nil plan dereferenced (plan.ScrubFields)", s) else run o rest s
  | "return" :: _, s => (.executed, s)
  | other :: _, s => (.panic ("unrecognised statement " ++ other), s)

/-- the handler on one request -/
def handle (o : Outcomes) : Answer × St := run o Gen.GatewayFlow.flow {}

end PebblesVerif.GatewayFlow
