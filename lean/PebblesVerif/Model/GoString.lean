import PebblesVerif.Basic.J
/-!
Go string renderings the introspection code relies on, as executable Lean (core only):

* `goQuote`   — `strconv.Quote` (used by gqlparser's `Value.String()` for string values);
* `goUnquote` — its inverse on `goQuote` output (the shared `Schema` type carries directive
  arguments rendered with `Value.String()`; the resolver reads `Value.Raw`);
* `jsonStr` / `jsonMarshal` — `encoding/json.Marshal` of a decoded JSON value (used by
  `parseInputField` in introspection/remote.go).

Scope: exact for ASCII. Non-ASCII runes are treated as printable (Go consults the Unicode
tables in `strconv.IsPrint`; U+2028/U+2029 are escaped by `json.Marshal` and handled here).
The harness generators stay inside this scope and say so in the evidence.
-/
namespace PebblesVerif.GoString

def hexDigit (n : Nat) : Char :=
  if n < 10 then Char.ofNat (48 + n) else Char.ofNat (87 + n)

def hex2 (n : Nat) : String := String.ofList [hexDigit (n / 16 % 16), hexDigit (n % 16)]
def hex4 (n : Nat) : String :=
  String.ofList [hexDigit (n / 4096 % 16), hexDigit (n / 256 % 16), hexDigit (n / 16 % 16), hexDigit (n % 16)]

/-- one rune of `strconv.Quote` -/
def quoteChar (c : Char) : String :=
  if c = '"' then "\\\"" else
  if c = '\\' then "\\\\" else
  if c = '\x07' then "\\a" else
  if c = '\x08' then "\\b" else
  if c = '\x0c' then "\\f" else
  if c = '\n' then "\\n" else
  if c = '\r' then "\\r" else
  if c = '\t' then "\\t" else
  if c = '\x0b' then "\\v" else
  if c.toNat < 32 ∨ c.toNat = 127 then "\\x" ++ hex2 c.toNat else
  String.singleton c

def quoteChars : List Char → String
  | [] => ""
  | c :: cs => quoteChar c ++ quoteChars cs

/-- `strconv.Quote` -/
def goQuote (s : String) : String := "\"" ++ quoteChars s.toList ++ "\""

def hexVal (c : Char) : Option Nat :=
  if '0' ≤ c ∧ c ≤ '9' then some (c.toNat - 48)
  else if 'a' ≤ c ∧ c ≤ 'f' then some (c.toNat - 87)
  else if 'A' ≤ c ∧ c ≤ 'F' then some (c.toNat - 55)
  else none

/-- body of a quoted string (after the opening quote) back to its runes; `none` when malformed -/
def unquoteChars : List Char → Option (List Char)
  | [] => none                                   -- no closing quote
  | ['"'] => some []
  | '\\' :: 'x' :: a :: b :: rest =>
    match hexVal a, hexVal b, unquoteChars rest with
    | some x, some y, some r => some (Char.ofNat (16 * x + y) :: r)
    | _, _, _ => none
  | '\\' :: 'u' :: a :: b :: c :: d :: rest =>
    match hexVal a, hexVal b, hexVal c, hexVal d, unquoteChars rest with
    | some x, some y, some z, some w, some r => some (Char.ofNat (4096 * x + 256 * y + 16 * z + w) :: r)
    | _, _, _, _, _ => none
  | '\\' :: e :: rest =>
    let one : Option Char :=
      if e = '"' then some '"' else if e = '\\' then some '\\' else if e = 'a' then some '\x07'
      else if e = 'b' then some '\x08' else if e = 'f' then some '\x0c' else if e = 'n' then some '\n'
      else if e = 'r' then some '\r' else if e = 't' then some '\t' else if e = 'v' then some '\x0b'
      else none
    match one, unquoteChars rest with
    | some c, some r => some (c :: r)
    | _, _ => none
  | c :: rest => if c = '"' then none else (unquoteChars rest).map (c :: ·)

/-- inverse of `goQuote`; `none` if the text is not a double-quoted Go string -/
def goUnquote (s : String) : Option String :=
  match s.toList with
  | '"' :: rest => (unquoteChars rest).map String.ofList
  | _ => none

/-- `Value.Raw` from `Value.String()` for the scalar kinds: a quoted string is unquoted, any
    other rendering (Int, Float, Boolean, Enum, Null) is its own raw text -/
def rawOfRendered (s : String) : String := (goUnquote s).getD s

/-- one rune of `encoding/json`'s string encoder (HTML escaping on, as `json.Marshal` does) -/
def jsonChar (c : Char) : String :=
  if c = '"' then "\\\"" else
  if c = '\\' then "\\\\" else
  if c = '\n' then "\\n" else
  if c = '\r' then "\\r" else
  if c = '\t' then "\\t" else
  if c = '\x08' then "\\b" else
  if c = '\x0c' then "\\f" else
  if c.toNat < 32 ∨ c = '<' ∨ c = '>' ∨ c = '&' ∨ c.toNat = 0x2028 ∨ c.toNat = 0x2029 then "\\u" ++ hex4 c.toNat else
  String.singleton c

def jsonChars : List Char → String
  | [] => ""
  | c :: cs => jsonChar c ++ jsonChars cs

def jsonStr (s : String) : String := "\"" ++ jsonChars s.toList ++ "\""

/-- insertion of a key/value text into a list sorted by key (`json.Marshal` sorts map keys) -/
def insertKV (k v : String) : List (String × String) → List (String × String)
  | [] => [(k, v)]
  | (k', v') :: rest => if k < k' then (k, v) :: (k', v') :: rest else (k', v') :: insertKV k v rest

def joinWith (sep : String) : List String → String
  | [] => ""
  | [x] => x
  | x :: rest => x ++ sep ++ joinWith sep rest

mutual
  /-- `json.Marshal` of a value decoded into `interface{}`. Numbers: the numeral is assumed
      canonical (what `strconv.FormatFloat(f, 'f'/'e', -1, 64)` prints for it). -/
  def jsonMarshal : J → String
    | .null => "null"
    | .bool b => if b then "true" else "false"
    | .num r => r
    | .str s => jsonStr s
    | .arr xs => "[" ++ joinWith "," (jsonMarshalL xs) ++ "]"
    | .obj kvs => "{" ++ joinWith "," ((jsonMarshalO kvs).map (fun kv => jsonStr kv.1 ++ ":" ++ kv.2)) ++ "}"
  def jsonMarshalL : List J → List String
    | [] => []
    | x :: xs => jsonMarshal x :: jsonMarshalL xs
  def jsonMarshalO : List (String × J) → List (String × String)
    | [] => []
    | (k, v) :: rest => insertKV k (jsonMarshal v) (jsonMarshalO rest)
end

/-- Go `b[1 : len(b)-1]` on a string of length ≥ 2 -/
def stripOuter (s : String) : String := String.ofList ((s.toList.drop 1).dropLast)

end PebblesVerif.GoString
