import PebblesVerif.Basic.J
/-!
Selection sets of introspection operations, as the resolver of introspection/introspection.go
sees them: a validated `ast.SelectionSet` whose fragment spreads have been inlined (the
planner's sanitiser does that before the resolver runs; `common.SelectionSetToFields(_, nil)`
silently drops a `FragmentSpread`, so a spread-free selection set is the resolver's
precondition). Inline fragments are kept: the resolver flattens them itself, ignoring the type
condition.

Argument values: a literal (already evaluated by `Value.Value(nil)`: string, boolean, number,
null, ...) or a variable reference together with the default declared by the operation
(`Value.VariableDefinition.DefaultValue`, attached by gqlparser's validator).
Core Lean only.
-/
namespace PebblesVerif

/-- `common.IsBuiltinName`: `strings.HasPrefix(s, "__")` -/
def isBuiltinNameI (s : String) : Bool :=
  match s.toList with
  | '_' :: '_' :: _ => true
  | _ => false

inductive IVal where
  | lit (j : J)
  | var (name : String) (dflt : Option J)
  deriving Inhabited

/-- `(*ast.Value).Value(vars)` -/
def IVal.eval (vars : List (String × J)) : IVal → J
  | .lit j => j
  | .var n d =>
    match J.lookup n vars with
    | some v => v
    | none => d.getD .null

inductive ISel where
  | field (alias name : String) (args : List (String × IVal)) (sub : List ISel)
  | inline (sub : List ISel)
  deriving Inhabited

namespace ISel

/-- `Arguments.ForName(n)` evaluated against the variables; `none` when the argument is absent -/
def arg? (vars : List (String × J)) (args : List (String × IVal)) (n : String) : Option J :=
  match args.find? (fun a => a.1 == n) with
  | some a => some (a.2.eval vars)
  | none => none

/-- `v, err := arg.Value.Value(vars); b, _ = v.(bool)` (absent argument: false) -/
def boolArg (vars : List (String × J)) (args : List (String × IVal)) (n : String) : Bool :=
  match arg? vars args n with
  | some (.bool b) => b
  | _ => false

/-- `s, _ = v.(string)` -/
def strArg (vars : List (String × J)) (args : List (String × IVal)) (n : String) : String :=
  match arg? vars args n with
  | some (.str s) => s
  | _ => ""

/-- `Arguments.ForName(n).Value.Raw` for a string literal or a variable reference (a missing
    argument is a nil dereference in Go; validation makes `name` mandatory) -/
def rawArg (args : List (String × IVal)) (n : String) : String :=
  match args.find? (fun a => a.1 == n) with
  | some (_, .lit (.str s)) => s
  | some (_, .var v _) => v
  | _ => ""

mutual
  /-- response keys in the order `common.SelectionSetToFields(_, nil)` lists the fields -/
  def keys1 : ISel → List String
    | .field a _ _ _ => [a]
    | .inline sub => keys sub
  def keys : List ISel → List String
    | [] => []
    | s :: rest => keys1 s ++ keys rest
end

end ISel

/-- Go map assignment `m[k] = v` on an association list, for a whole list of assignments in
    order: a later assignment to the same key replaces the value (JSON object key order is not
    observable, so the position is kept) -/
def J.assignAll : List (String × J) → List (String × J) → List (String × J)
  | acc, [] => acc
  | acc, (k, v) :: rest => J.assignAll (J.setKey k v acc) rest

end PebblesVerif
