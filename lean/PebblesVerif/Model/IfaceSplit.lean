import PebblesVerif.Gen.IfaceSplit
/-!
An interface selection whose fields live in several services is rewritten into one inline fragment
per implementation (`planner.formatSelectionSetForInterface`, the loop over
`ctx.Schema.PossibleTypes[parentType]`). An interface may be declared by several services, each with
implementations of its own; a fragment on an implementation the receiving service does not declare is
an `Unknown type` validation error there.

Go unit ↔ model:
* `merger.TypeURLMap.SetFromSchema` (the `declaredBy` part)        ↔ `declaredOf`
* `merger.TypeURLMap.IsDeclaredBy`                                  ↔ `isDeclaredBy`
* the fragment loop of `formatSelectionSetForInterface`             ↔ `fragmentTypes`

Both are parametrised by regenerated facts (`Gen/IfaceSplit.lean`): whether `SetFromSchema` records
the declaring services, and whether the loop passes over implementations known not to be declared.
What goes INTO each fragment (`selectionSetToFieldsRepresentation`) is not modelled here.
Core Lean only.
-/
namespace PebblesVerif.Model.IfaceSplit

/-- one service: its url and the object types of its schema that get an entry in the routing table
    (every type with a field other than `id`, and every type that implements `Node`) -/
structure Input where
  url : String
  types : List String
  deriving Repr, DecidableEq

/-- what the routing table knows about who declares a type; `none` = nothing recorded
    (`t[typename] == nil || t[typename].declaredBy == nil`) -/
abbrev Declared := String → Option (List String)

/-- the `declaredBy` sets `SetFromSchema` builds over all inputs -/
def declaredOf (records : Bool) (inputs : List Input) : Declared := fun t =>
  if records then
    let us := (inputs.filter (fun i => i.types.contains t)).map (·.url)
    if us.isEmpty then none else some us
  else none

/-- `IsDeclaredBy(typename, url)`: `(res, ok)` -/
def isDeclaredBy (d : Declared) (t url : String) : Bool × Bool :=
  match d t with
  | none => (false, false)
  | some us => (us.contains url, true)

/-- the implementations that get an inline fragment in the sub-request for the service at `loc` -/
def fragmentTypes (skips : Bool) (d : Declared) (defs : List String) (loc : String) : List String :=
  defs.filter (fun t => !(skips && (isDeclaredBy d t loc).2 && !(isDeclaredBy d t loc).1))

end PebblesVerif.Model.IfaceSplit
