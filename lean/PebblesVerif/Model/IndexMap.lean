/-!
# Model of the de-duplication index map and of `executeRequests`
(executor/depth_executor_query.go:15-46, 119-217)

```
for i, req := range ers {
    variables, err := de.getVariables(req)         -- error if the insertion point has an empty id
    if !de.isNeedToQuery(req, variables) { nillResps[i] = {}; continue }      -- id-hint skip
    if isNew := de.setIMap(i, req, variables, iMap); !isNew { continue }      -- duplicate
    batchRequest = append(batchRequest, input)
}
resps, err := q.Query(batchRequest)                -- ONE call, whatever len(ers)
if len(resps) != len(batchRequest) { error }
for i, resp := range resps { for _, ind := range iMap.GetSameIndexes(i) { qResps[ind] = copy(resp) } }
for ind := range nillResps { qResps[ind] = {node: nil} }
```
`setIMap`: `nextTargetIndex := len(iMap)` is read BEFORE `Set`; the map key is
`fmt.Sprintf("!%v%v", id, hash)` for a non-root step whose only variable is `id`, otherwise
`strconv.Itoa(index)`. A skipped request never enters the map.

The Go map is keyed by the rendered STRING; so is the model (`Entry.key : List Char`), and
`C12_key_injective` shows that the rendering loses nothing. `GetSameIndexes` ranges over the map
in random order and returns the first entry with the wanted `targetIndex`; the model searches in
insertion order and `C12_targets` shows the target indices are pairwise different, so the order
cannot matter.
-/
namespace PebblesVerif.IndexMap

/-! ## Rendering (`strconv.Itoa`, `%v` of a string, `%v` of a `[32]byte`) -/

def digitChar : Nat → Char
  | 0 => '0' | 1 => '1' | 2 => '2' | 3 => '3' | 4 => '4' | 5 => '5' | 6 => '6' | 7 => '7' | 8 => '8' | _ => '9'

/-- decimal digits of a natural number -/
def natDigits (n : Nat) : List Char :=
  if _h : n < 10 then [digitChar n] else natDigits (n / 10) ++ [digitChar (n % 10)]
termination_by n
decreasing_by omega

/-- `a b c` -/
def spaceSep : List (List Char) → List Char
  | [] => []
  | [a] => a
  | a :: b :: rest => a ++ ' ' :: spaceSep (b :: rest)

/-- `%v` of a byte array: `[1 2 … 32]` -/
def showHash (h : List Nat) : List Char := '[' :: (spaceSep (h.map natDigits) ++ [']'])

/-! ## Requests -/

/-- What `executeRequests` looks at in one `ExecutionRequest` (after `getVariables`). -/
structure Req where
  /-- `QueryPlanStep.ParentType` -/
  parentType : String
  /-- `variables["id"]`: the id parsed from the last insertion point (none: empty insertion point) -/
  id : Option String
  /-- number of further variables sent with the request -/
  others : Nat
  /-- `QueryPlanStep.QueryStringHash` (sha256 of the query string) -/
  hash : List Nat
  deriving DecidableEq, Repr

def isRoot (t : String) : Bool := t == "Query" || t == "Mutation" || t == "Subscription"

/-- `isNeedToQuery`; `hint` = `ctx.GetParentTypeFromIDFunc` -/
def needToQuery (hint : Option (String → Option String)) (r : Req) : Bool :=
  if isRoot r.parentType then true else
  match hint with
  | none => true
  | some f =>
    match r.id with
    | none => true
    | some i =>
      match f i with
      | none => true
      | some t => t == r.parentType

/-- the map key before rendering -/
inductive Key
  | idx (i : Nat)
  | node (id : String) (hash : List Nat)
  deriving DecidableEq, Repr

/-- `setIMap`'s choice of key -/
def keyOf (i : Nat) (r : Req) : Key :=
  if !isRoot r.parentType && (r.others + (if r.id.isSome then 1 else 0) == 1) then
    match r.id with
    | some s => .node s r.hash
    | none => .idx i
  else .idx i

/-- `strconv.Itoa(index)` / `fmt.Sprintf("!%v%v", id, hash)` -/
def Key.render : Key → List Char
  | .idx i => natDigits i
  | .node s h => '!' :: (s.toList ++ showHash h)

/-! ## The index map, generic in the key type -/

structure Entry (K : Type) where
  key : K
  target : Nat
  idxs : List Nat
  deriving Repr

variable {K : Type} [DecidableEq K]

/-- `indexMap.Set(index, targetIndex, value)`: true iff the value is new -/
def setKey (m : List (Entry K)) (index target : Nat) (k : K) : List (Entry K) × Bool :=
  if m.any (fun e => decide (e.key = k)) then
    (m.map (fun e => if e.key = k then { e with idxs := e.idxs ++ [index] } else e), false)
  else (m ++ [⟨k, target, [index]⟩], true)

/-- `indexMap.GetSameIndexes(targetIndex)` (`none` = nil) -/
def getSame (m : List (Entry K)) (t : Nat) : Option (List Nat) :=
  (m.find? (fun e => e.target == t)).map (·.idxs)

structure LoopSt (K : Type) where
  imap : List (Entry K)
  /-- indices of the requests appended to `batchRequest`, in order -/
  batch : List Nat
  /-- `nillResps` -/
  skipped : List Nat

/-- one iteration; `none` = skipped by the id hint, `some k` = map key -/
def loopStep (st : LoopSt K) (i : Nat) : Option K → LoopSt K
  | none => { st with skipped := st.skipped ++ [i] }
  | some k =>
    let nextTargetIndex := st.imap.length            -- read BEFORE Set
    let (m', isNew) := setKey st.imap i nextTargetIndex k
    if isNew then { st with imap := m', batch := st.batch ++ [i] } else { st with imap := m' }

/-- the first loop over `ks` (one `Option K` per request), starting at index `i` -/
def loop : List (Option K) → Nat → LoopSt K → LoopSt K
  | [], _, st => st
  | x :: xs, i, st => loop xs (i + 1) (loopStep st i x)

def build (ks : List (Option K)) : LoopSt K := loop ks 0 ⟨[], [], []⟩

/-! ## Fan-out -/

inductive Err
  | err (msg : String)
  | panic (what : String)
  deriving DecidableEq, Repr

/-- `qResps[ind] = …` : an index outside `qResps` would be a runtime panic -/
def setChecked {α} (acc : List (Option α)) (ind : Nat) (v : α) : Except Err (List (Option α)) :=
  if ind < acc.length then .ok (acc.set ind (some v)) else .error (.panic "index out of range")

def setAll {α} (acc : List (Option α)) (v : α) : List Nat → Except Err (List (Option α))
  | [] => .ok acc
  | ind :: rest => do
    let acc' ← setChecked acc ind v
    setAll acc' v rest

/-- the second loop: `for i, resp := range resps` from target index `t` -/
def fanout {α} (m : List (Entry K)) : Nat → List α → List (Option α) → Except Err (List (Option α))
  | _, [], acc => .ok acc
  | t, r :: rs, acc =>
    match getSame m t with
    | none => .error (.err "missing mapping for indexes")
    | some [] => .error (.err "missing mapping for indexes")
    | some idxs => do
      let acc' ← setAll acc r idxs
      fanout m (t + 1) rs acc'

/-- `executeRequests` after `getVariables`: `ks` as above, `query` = `q.Query` applied to the
    batch (given as request indices), `nullNode` = `{node: nil}`. -/
def execute {α} (ks : List (Option K)) (query : List Nat → Except String (List α)) (nullNode : α) :
    Except Err (List (Option α)) :=
  let st := build ks
  match query st.batch with
  | .error e => .error (.err e)
  | .ok resps =>
    if resps.length ≠ st.batch.length then .error (.err "not all requests were fetched") else do
      let out ← fanout st.imap 0 resps (List.replicate ks.length none)
      setAll out nullNode st.skipped

/-- the per-request keys of a concrete request list -/
def keysOf (hint : Option (String → Option String)) (reqs : List Req) : List (Option (List Char)) :=
  (List.range reqs.length).zipWith (fun i r => if needToQuery hint r then some (keyOf i r).render else none) reqs

/-- the whole of `executeRequests`; an insertion point with an empty id makes `getVariables` fail
    before anything is sent -/
def executeRequests {α} (hint : Option (String → Option String)) (reqs : List Req)
    (query : List Nat → Except String (List α)) (nullNode : α) : Except Err (List (Option α)) :=
  if reqs.isEmpty then .ok [] else
  if reqs.any (fun r => r.id == some "") then .error (.err "could not find id in path") else
  execute (keysOf hint reqs) query nullNode

end PebblesVerif.IndexMap
