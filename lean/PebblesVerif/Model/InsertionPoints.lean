import PebblesVerif.Model.QueryBatch
import PebblesVerif.Gen.FindSelection
import PebblesVerif.Gen.Nulls
/-!
Model of `executor.FindInsertionPoints` (executor/result.go:94-277) with `FindSelection`
(executor/selection_set.go) and `extractID`, on `J` values, for the way the executor calls it:
ONE starting branch (`startingPoints = [][]string{insertionPoint}`; the recursive calls keep one
branch). Its reactions to answers whose shape contradicts the schema are kept literal:

* a field the step does not select, or a key missing from the answer ⇒ no insertion points;
* `null` ⇒ none (an error for a non-null type);
* list type: a non-list answer is an error; a `null` element is passed over and keeps its place (the
  other elements keep their indices) — after the repair, regenerated fact
  `Gen.Nulls.findIPSkipsNullElements`; before it a `null` element was an error like any other non-map —
  every other element must be a map; on the last point each map element needs an `id` — an element
  whose only key is `__typename`, or whose `id` is `null`, makes the WHOLE call return no points (also
  those of earlier elements);
* non-list type: if the answer is not a map the walk continues in the SAME object; on the last point a
  LIST answer is indexed by branch number (`rootList[0]`) — without the guard of `repo_fixes/faults-4`
  an empty list is an index panic — otherwise the answer must be a map with an `id`.

The selection set is abstracted to response name, list-ness and nullability of the field type, and
sub-selection (inline fragments kept; `SelectionSetToFields(…, nil)` flattens them, fragment spreads
are ignored by it and are not represented).
-/
namespace PebblesVerif.IP
open PebblesVerif PebblesVerif.QB PebblesVerif.Errors
open PebblesVerif.Gen.QueryBatchFacts (Facts)

inductive Sel where
  | field (key : String) (isList nonNull : Bool) (sub : List Sel)
  | frag (sub : List Sel)
  deriving Repr, Inhabited

structure Found where
  isList : Bool
  nonNull : Bool
  sub : List Sel

mutual
  /-- `FindSelection` before the repair: depth-first search by response name over the whole step -/
  def findSelDF (m : String) : Sel → Option Found
    | .field k l n sub => if k = m then some ⟨l, n, sub⟩ else findSelDFL m sub
    | .frag sub => findSelDFL m sub
  def findSelDFL (m : String) : List Sel → Option Found
    | [] => none
    | s :: rest => match findSelDF m s with
      | some r => some r
      | none => findSelDFL m rest
end

mutual
  /-- first loop of `FindSelection`: the fields of this level (inline fragments flattened) -/
  def findLevelS (m : String) : Sel → Option Found
    | .field k l n sub => if k = m then some ⟨l, n, sub⟩ else none
    | .frag sub => findLevelL m sub
  def findLevelL (m : String) : List Sel → Option Found
    | [] => none
    | s :: rest => match findLevelS m s with
      | some r => some r
      | none => findLevelL m rest
end

mutual
  /-- second loop: below each field of this level, in order, again level first -/
  def findDeepS (m : String) : Sel → Option Found
    | .field _ _ _ sub => match findLevelL m sub with
      | some r => some r
      | none => findDeepL m sub
    | .frag sub => findDeepL m sub
  def findDeepL (m : String) : List Sel → Option Found
    | [] => none
    | s :: rest => match findDeepS m s with
      | some r => some r
      | none => findDeepL m rest
end

/-- `executor.FindSelection`: level first after the repair (regenerated fact
    `Gen.FindSelection.levelFirst`), depth first before it -/
def findSelL (m : String) (ss : List Sel) : Option Found :=
  if Gen.FindSelection.levelFirst then
    match findLevelL m ss with
    | some r => some r
    | none => findDeepL m ss
  else findSelDFL m ss

/-- ordered insertion of a key for Go's `%v` of a map (keys sorted) -/
def insertSorted (kv : String × String) : List (String × String) → List (String × String)
  | [] => [kv]
  | x :: xs => if kv.1 < x.1 then kv :: x :: xs else x :: insertSorted kv xs

mutual
  /-- Go `fmt.Sprintf("%v", v)` of a decoded JSON value (numbers as their numeral) -/
  def fmtV : J → String
    | .null => "<nil>"
    | .bool b => if b then "true" else "false"
    | .num r => r
    | .str s => s
    | .arr xs => "[" ++ " ".intercalate (fmtL xs) ++ "]"
    | .obj kvs => "map[" ++ " ".intercalate (((fmtO kvs).foldr insertSorted []).map (fun kv => kv.1 ++ ":" ++ kv.2)) ++ "]"
  def fmtL : List J → List String
    | [] => []
    | x :: xs => fmtV x :: fmtL xs
  def fmtO : List (String × J) → List (String × String)
    | [] => []
    | (k, v) :: rest => (k, fmtV v) :: fmtO rest
end

def ferr (cls msg : String) : Fault := .err cls (.other msg)

/-- `extractID`: `some id` (possibly `null`), `none` for the "only `__typename`" object -/
def extractID (o : Obj) : G (Option J) :=
  match J.lookup "id" o with
  | some id => .ok (some id)
  | none =>
    if (J.lookup "__typename" o).isSome ∧ o.length = 1 then .ok none
    else .error (ferr "no-id" "could not find the id for elements in target list")

/-- result of the element loop: `error none` = "return nil, nil" from inside the loop -/
abbrev R := Except (Option Fault) (List (List String))

def finish : R → G (List (List String))
  | .ok p => .ok p
  | .error none => .ok []
  | .error (some f) => .error f

/-- the recursive call on one list element with the extended branch, appended to the points so far -/
def entryGo (rec : Obj → List String → G (List (List String))) (pts : List (List String)) (o : Obj)
    (b : List String) : R :=
  match rec o b with
  | .error flt => .error (some flt)
  | .ok p => .ok (pts ++ p)

/-- one element of a list answer (`for entryI, iEntry := range rootList`); `rec` is the recursive call
    on the element with the extended branch; `skipNull` = the guard `if iEntry == nil { continue }`
    stands before the map assertion -/
def entryStep (skipNull : Bool) (point : String) (last : Bool) (branch : List String)
    (rec : Obj → List String → G (List (List String))) (acc : R) (xi : J × Nat) : R :=
  match acc with
  | .error e => .error e
  | .ok pts =>
    match xi.1 with
    | .obj o =>
      let ep := point ++ ":" ++ toString xi.2
      if last then
        match extractID o with
        | .error flt => .error (some flt)
        | .ok none => .error none
        | .ok (some .null) => .error none
        | .ok (some id) => entryGo rec pts o (branch ++ [ep ++ "#" ++ fmtV id])
      else entryGo rec pts o (branch ++ [ep])
    | .null =>
      -- `if iEntry == nil { continue }`: nothing to stitch at a null element
      if skipNull then .ok pts
      else .error (some (ferr "entry-not-map" "entry in result wasn't a map"))
    | _ => .error (some (ferr "entry-not-map" "entry in result wasn't a map"))

/-- the last point of the path has a non-list type: the insertion point is the object itself
    (or — Go's leftover — element 0 of a list answered in its place) -/
def lastNonList (f : Facts) (point : String) (branch : List String) (v : J) : G (List (List String)) :=
  match v with
  | .arr xs =>
    match (xs[0]? : Option J) with
    | none =>
      if f.rootListGuard then .error (ferr "no-entry" "root value of result chunk has no entry")
      else .error (.panic "index out of range [0] with length 0 (rootList[i])")
    | some (J.obj o) =>
      match extractID o with
      | .error flt => .error flt
      | .ok none => .ok []
      | .ok (some .null) => .ok []
      | .ok (some id) => .ok [branch ++ [point ++ ":0#" ++ fmtV id]]
    | some _ => .error (ferr "item-not-map" "item in root list isn't a map")
  | .obj o =>
    match extractID o with
    | .error flt => .error flt
    | .ok none => .ok []
    | .ok (some .null) => .ok []
    | .ok (some id) => .ok [branch ++ [point ++ "#" ++ fmtV id]]
  | _ => .error (ferr "not-an-object" "root value of result chunk was not an object")

/-- the walk from the points still to go (`rest = targetPoints[len(branch):]`) -/
def fip (f : Facts) : List String → List Sel → Obj → List String → G (List (List String))
  | [], _, _, branch => .ok [branch]
  | point :: rest, sel, chunk, branch =>
    match findSelL point sel with
    | none => .ok []
    | some fd =>
      match J.lookup point chunk with
      | none => .ok []
      | some .null =>
        if fd.nonNull then .error (ferr "null-required" ("received null for required field: " ++ point)) else .ok []
      | some v =>
        if fd.isList then
          match v with
          | .arr xs =>
            finish (xs.zipIdx.foldl (entryStep Gen.Nulls.findIPSkipsNullElements point rest.isEmpty branch (fun o b => fip f rest fd.sub o b)) (.ok []))
          | _ => .error (ferr "not-a-list" "root value of result chunk was not a list")
        else
          if rest.isEmpty then lastNonList f point branch v
          else fip f rest fd.sub (match v with | .obj o => o | _ => chunk) (branch ++ [point])

/-- `FindInsertionPoints(targetPoints, selectionSet, result, [][]string{start})` -/
def findInsertionPoints (f : Facts) (target : List String) (sel : List Sel) (result : Obj) (start : List String) :
    G (List (List String)) :=
  fip f (target.drop start.length) sel result start

/-- wire form of a selection set: `{"k":name,"l":isList,"n":nonNull,"s":[…]}` or `{"f":[…]}` -/
partial def parseSel (j : J) : Sel :=
  match j.get? "f" with
  | some (.arr sub) => .frag (sub.map parseSel)
  | _ =>
    let str := fun k => match j.get? k with | some (.str s) => s | _ => ""
    let bool := fun k => match j.get? k with | some (.bool b) => b | _ => false
    let sub := match j.get? "s" with | some (.arr s) => s.map parseSel | _ => []
    .field (str "k") (bool "l") (bool "n") sub

end PebblesVerif.IP
