import PebblesVerif.Basic.Schema
import PebblesVerif.Basic.J
import PebblesVerif.Model.ISel
import PebblesVerif.Model.GoString
import PebblesVerif.Gen.Introspect
/-!
Model of the introspection resolver, introspection/introspection.go (with the repairs of
repo_fixes/c16-introspection-resolver.patch: `__type(name:)` read through the variables, kind guards on `fields` / `interfaces` /
`possibleTypes` / `enumValues` / `inputFields`, `possibleTypes` from `schema.PossibleTypes`,
`inputFields` through `resolveInputValue`). Root types are looked up by the literal
names `Query` / `Mutation` / `Subscription`, as the code does.

Every `resolveX(…, selectionSet)` is

    result := map[string]interface{}{}
    for _, f := range common.SelectionSetToFields(selectionSet, nil) { switch f.Name { … result[f.Alias] = … } }

modelled as the list of assignments `(alias, value)` in loop order (`xP` functions; an inline
fragment contributes the assignments of its own selection set, whatever its type condition),
turned into an object by `J.assignAll []` (a later assignment to the same alias replaces the
earlier one). A field name with no `case` arm and no `default` arm contributes no assignment
(`resolveField`, `resolveInputValue`, `resolveEnumValue`, `resolveDirective`, `resolveSchema`);
`resolveType` has a `default` arm assigning `nil`.

Go map iteration (`range schema.Types`, `range schema.Directives`) takes an explicit order
oracle: `tyOrd` / `dirOrd` are the definitions in the order this run of the loop visits them.
Core Lean only.
-/
namespace PebblesVerif.Model.Introspect
open PebblesVerif

/-- field names each resolver has a `case` arm for (the literals of the `match`es below; tied to the source by `C16_gen_recognised`,
    to the `match`es by `C16_default_arm_type` / `C16_no_default_arm`) -/
def armsRoot : List String := ["__type", "__schema"]
def armsSchema : List String := ["types", "queryType", "mutationType", "subscriptionType", "directives"]
def armsTypeWrapper : List String := ["kind", "ofType"]
def armsTypeNamed : List String := ["kind", "name", "fields", "description", "interfaces", "possibleTypes", "enumValues", "inputFields"]
def armsField : List String := ["name", "description", "args", "type", "isDeprecated", "deprecationReason"]
def armsDirective : List String := ["name", "description", "locations", "args"]
def armsInputValue : List String := ["name", "description", "type", "defaultValue"]
def armsEnumValue : List String := ["name", "description", "isDeprecated", "deprecationReason"]

/-- `hasDeprecatedDirective`: `(true, &reason)` with `reason = ""` when the argument is absent,
    `(false, nil)` otherwise -/
def hasDeprecated (ds : List DirUse) : Bool × J :=
  match ds.find? (fun d => d.name == "deprecated") with
  | none => (false, .null)
  | some d =>
    match d.args.find? (fun a => a.1 == "reason") with
    | some a => (true, .str (GoString.rawOfRendered a.2))
    | none => (true, .str "")

def optStr : Option String → J
  | some s => .str s
  | none => .null

/-- what `resolveType` returns for the collected assignments: a `nil` map when the named type is
    not in `schema.Types` -/
def typeV (S : Schema) (t : TypeRef) (pairs : List (String × J)) : J :=
  match t with
  | .named n => if (S.type? n).isSome then .obj (J.assignAll [] pairs) else .null
  | _ => .obj (J.assignAll [] pairs)

def isObjectType (S : Schema) (n : String) : Bool :=
  match S.type? n with
  | some td => td.kind == .object
  | none => false

mutual
  def enumP1 (e : EnumVal) : ISel → List (String × J)
    | .inline sub => enumP e sub
    | .field a n _ _ =>
      match n with
      | "name" => [(a, .str e.name)]
      | "description" => [(a, .str e.desc)]
      | "isDeprecated" => [(a, .bool (hasDeprecated e.directives).1)]
      | "deprecationReason" => [(a, (hasDeprecated e.directives).2)]
      | _ => []
  def enumP (e : EnumVal) : List ISel → List (String × J)
    | [] => []
    | s :: rest => enumP1 e s ++ enumP e rest
end

mutual
  /-- `resolveType` -/
  def typeP1 (S : Schema) (vars : List (String × J)) (t : TypeRef) : ISel → List (String × J)
    | .inline sub => typeP S vars t sub
    | .field a n args sub =>
      match t with
      | .nonNull t' =>
        (match n with
         | "kind" => [(a, .str "NON_NULL")]
         | "ofType" => [(a, typeV S t' (typeP S vars t' sub))]
         | _ => [(a, .null)])
      | .list t' =>
        (match n with
         | "kind" => [(a, .str "LIST")]
         | "ofType" => [(a, typeV S t' (typeP S vars t' sub))]
         | _ => [(a, .null)])
      | .named tname =>
        match S.type? tname with
        | none => []
        | some td =>
          match n with
          | "kind" => [(a, .str td.kind.toString)]
          | "name" => [(a, .str td.name)]
          | "description" => [(a, .str td.desc)]
          | "fields" =>
            if td.kind != .object && td.kind != .interface then [(a, .null)] else
            let incl := ISel.boolArg vars args "includeDeprecated"
            [(a, .arr ((td.fields.filter (fun f =>
                !isBuiltinNameI f.name && (incl || !(hasDeprecated f.directives).1))).map
                  (fun f => .obj (J.assignAll [] (fieldP S vars f sub)))))]
          | "interfaces" =>
            if td.kind != .object && td.kind != .interface then [(a, .null)] else
            [(a, .arr (td.interfaces.map (fun i => typeV S (.named i) (typeP S vars (.named i) sub))))]
          | "possibleTypes" =>
            if td.kind != .interface && td.kind != .union then [(a, .null)] else
            [(a, .arr (((S.possibleOf td.name).filter (isObjectType S)).map
                (fun i => typeV S (.named i) (typeP S vars (.named i) sub))))]
          | "enumValues" =>
            if td.kind != .enum then [(a, .null)] else
            let incl := ISel.boolArg vars args "includeDeprecated"
            [(a, .arr ((td.enumValues.filter (fun e => incl || !(hasDeprecated e.directives).1)).map
                (fun e => .obj (J.assignAll [] (enumP e sub)))))]
          | "inputFields" =>
            if td.kind != .inputObject then [(a, .null)] else
            [(a, .arr (td.fields.map (fun f =>
                .obj (J.assignAll [] (inputP S vars f.name f.desc f.type f.default sub)))))]
          | _ => [(a, .null)]
  def typeP (S : Schema) (vars : List (String × J)) (t : TypeRef) : List ISel → List (String × J)
    | [] => []
    | s :: rest => typeP1 S vars t s ++ typeP S vars t rest
  /-- `resolveField` -/
  def fieldP1 (S : Schema) (vars : List (String × J)) (f : FieldDef) : ISel → List (String × J)
    | .inline sub => fieldP S vars f sub
    | .field a n _ sub =>
      match n with
      | "name" => [(a, .str f.name)]
      | "description" => [(a, .str f.desc)]
      | "args" => [(a, .arr (f.args.map (fun x =>
            .obj (J.assignAll [] (inputP S vars x.name x.desc x.type x.default sub)))))]
      | "type" => [(a, typeV S f.type (typeP S vars f.type sub))]
      | "isDeprecated" => [(a, .bool (hasDeprecated f.directives).1)]
      | "deprecationReason" => [(a, (hasDeprecated f.directives).2)]
      | _ => []
  def fieldP (S : Schema) (vars : List (String × J)) (f : FieldDef) : List ISel → List (String × J)
    | [] => []
    | s :: rest => fieldP1 S vars f s ++ fieldP S vars f rest
  /-- `resolveInputValue` (arguments, directive arguments, input fields) -/
  def inputP1 (S : Schema) (vars : List (String × J)) (name desc : String) (ty : TypeRef) (dflt : Option String) :
      ISel → List (String × J)
    | .inline sub => inputP S vars name desc ty dflt sub
    | .field a n _ sub =>
      match n with
      | "name" => [(a, .str name)]
      | "description" => [(a, .str desc)]
      | "type" => [(a, typeV S ty (typeP S vars ty sub))]
      | "defaultValue" => [(a, optStr dflt)]
      | _ => []
  def inputP (S : Schema) (vars : List (String × J)) (name desc : String) (ty : TypeRef) (dflt : Option String) :
      List ISel → List (String × J)
    | [] => []
    | s :: rest => inputP1 S vars name desc ty dflt s ++ inputP S vars name desc ty dflt rest
end

mutual
  /-- `resolveDirective` -/
  def dirP1 (S : Schema) (vars : List (String × J)) (d : DirDef) : ISel → List (String × J)
    | .inline sub => dirP S vars d sub
    | .field a n _ sub =>
      match n with
      | "name" => [(a, .str d.name)]
      | "description" => [(a, .str d.desc)]
      | "locations" => [(a, if d.locations.isEmpty then .null else .arr (d.locations.map .str))]
      | "args" => [(a, .arr (d.args.map (fun x =>
            .obj (J.assignAll [] (inputP S vars x.name x.desc x.type x.default sub)))))]
      | _ => []
  def dirP (S : Schema) (vars : List (String × J)) (d : DirDef) : List ISel → List (String × J)
    | [] => []
    | s :: rest => dirP1 S vars d s ++ dirP S vars d rest
end

/-! ### `sortPayload` -/

mutual
  /-- the field (by name) whose assignment ends up under the result key `"name"` -/
  def nameKeyField1 (acc : Option String) : ISel → Option String
    | .inline sub => nameKeyField acc sub
    | .field a n _ _ => if a == "name" then some n else acc
  def nameKeyField (acc : Option String) : List ISel → Option String
    | [] => acc
    | s :: rest => nameKeyField (nameKeyField1 acc s) rest
end

/-- `payload[i]["name"].(string)` succeeds only for values of Go type `string`: the `name` and
    `description` arms (`kind` is an `ast.DefinitionKind`, everything else a map, slice, bool,
    pointer or nil) -/
def sortable (sub : List ISel) : Bool :=
  match nameKeyField none sub with
  | some n => n == "name" || n == "description"
  | none => false

def nameOf (x : J) : String :=
  match x.get? "name" with
  | some (.str s) => s
  | _ => ""

/-- stable insertion of an element that originally preceded the others: `x` goes before the
    first element that is not strictly smaller -/
def insertBy (x : J) : List J → List J
  | [] => [x]
  | y :: ys => if nameOf y < nameOf x then y :: insertBy x ys else x :: y :: ys

/-- `sort.SliceStable` by `strings.Compare(left, right) < 0` on the `"name"` entries -/
def sortByName : List J → List J
  | [] => []
  | x :: xs => insertBy x (sortByName xs)

def sortPayload (sub : List ISel) (xs : List J) : List J :=
  if sortable sub then sortByName xs else xs

mutual
  /-- `resolveSchema` -/
  def schemaP1 (S : Schema) (tyOrd : List TypeDef) (dirOrd : List DirDef) (vars : List (String × J)) :
      ISel → List (String × J)
    | .inline sub => schemaP S tyOrd dirOrd vars sub
    | .field a n _ sub =>
      match n with
      | "types" => [(a, .arr (sortPayload sub (tyOrd.map (fun td =>
            typeV S (.named td.name) (typeP S vars (.named td.name) sub)))))]
      | "queryType" => [(a, typeV S (.named "Query") (typeP S vars (.named "Query") sub))]
      | "mutationType" => [(a, typeV S (.named "Mutation") (typeP S vars (.named "Mutation") sub))]
      | "subscriptionType" => [(a, typeV S (.named "Subscription") (typeP S vars (.named "Subscription") sub))]
      | "directives" => [(a, .arr (sortPayload sub (dirOrd.map (fun d =>
            .obj (J.assignAll [] (dirP S vars d sub))))))]
      | _ => []
  def schemaP (S : Schema) (tyOrd : List TypeDef) (dirOrd : List DirDef) (vars : List (String × J)) :
      List ISel → List (String × J)
    | [] => []
    | s :: rest => schemaP1 S tyOrd dirOrd vars s ++ schemaP S tyOrd dirOrd vars rest
end

mutual
  /-- the loop of `ResolveIntrospectionFields` -/
  def rootP1 (S : Schema) (tyOrd : List TypeDef) (dirOrd : List DirDef) (vars : List (String × J)) :
      ISel → List (String × J)
    | .inline sub => rootP S tyOrd dirOrd vars sub
    | .field a n args sub =>
      match n with
      | "__type" =>
        -- `Value.Value(ir.Variables)` (repaired) or `Value.Raw` (a variable reference yields its own name)
        let name := if Gen.Introspect.typeNameReadsVariables then ISel.strArg vars args "name" else ISel.rawArg args "name"
        [(a, typeV S (.named name) (typeP S vars (.named name) sub))]
      | "__schema" => [(a, .obj (J.assignAll [] (schemaP S tyOrd dirOrd vars sub)))]
      | _ => []
  def rootP (S : Schema) (tyOrd : List TypeDef) (dirOrd : List DirDef) (vars : List (String × J)) :
      List ISel → List (String × J)
    | [] => []
    | s :: rest => rootP1 S tyOrd dirOrd vars s ++ rootP S tyOrd dirOrd vars rest
end

mutual
  /-- `isIntrospection` -/
  def isIntro1 : ISel → Bool
    | .inline sub => isIntro sub
    | .field _ n _ _ => n == "__type" || n == "__schema"
  def isIntro : List ISel → Bool
    | [] => false
    | s :: rest => isIntro1 s || isIntro rest
end

/-- `ResolveIntrospectionFields`: `none` is the `nil` map (no introspection field selected) -/
def resolve (S : Schema) (tyOrd : List TypeDef) (dirOrd : List DirDef) (vars : List (String × J))
    (sels : List ISel) : Option J :=
  if isIntro sels then some (.obj (J.assignAll [] (rootP S tyOrd dirOrd vars sels))) else none

end PebblesVerif.Model.Introspect
