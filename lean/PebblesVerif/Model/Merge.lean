import PebblesVerif.Basic.Schema
import PebblesVerif.Gen.Merge
/-!
# Model of `merger.ExtendMergerFunc.Merge` / `merger.SanitizeNodeMergerFunc.Merge`

The LITERAL fold of `/repo/merger/extend_merger.go` over `Schema` values (C03, C04, C05).

* A Go `map[string]*ast.Definition` is the name-keyed association list `List TypeDef`
  (`Schema.types`, which arrives sorted by name; key = `TypeDef.name`, as in every schema
  gqlparser loads). `mergeTypes` ranges over the map `b`; every iteration touches only the
  entry of its own key, so the result AS A MAP does not depend on the iteration order — only
  WHICH error is reported first does. The model iterates in list (= name) order;
  `mergeTypesErrs` lists the errors every other order could report first.
* Errors are values (`Except MergeErr`). Nothing in `ExtendMergerFunc.Merge` can panic on
  loaded schemas; `SanitizeNodeMergerFunc.Merge` dereferences `res.Schema.Query`, which is a
  checked access here (`Fault.panic`).
* The model is parametrised by `Gen.Merge.Facts` (regenerated from the source on every run):
  the same definitions describe the tree as first read (`Gen.Merge.original`) and the repaired
  tree (`Gen.Merge.expected`).
* NOT in the model: `formatSchema` + `gqlparser.LoadSchema` at the end of `Merge` (printing,
  re-parsing, validation). `reloadView` records what is known to be dropped by that round trip;
  the correspondence compares after the reload, and a reload error is its own outcome class.
Core Lean only.
-/
namespace PebblesVerif.Merge
open PebblesVerif
open PebblesVerif.Gen.Merge (Facts idFieldName nodeFieldName nodeInterfaceName queryName mutationName
  subscriptionName builtinPrefix)

/-- `fmt.Errorf` sites of extend_merger.go, by kind -/
inductive MergeErr where
  | noSources
  | nameCollision (type : String)
  | unionCollision (type : String)
  | interfaceCollision (type : String)
  | nodeInterfaceCollision (type : String)
  | overlappingRoot (type field : String)
  | fieldCollision (type field : String)
  | overlappingFields (type : String)
  | notCompleteCopy (type : String)
  deriving Repr, DecidableEq, Inhabited

def MergeErr.kind : MergeErr → String
  | .noSources => "no-source-schemas"
  | .nameCollision _ => "name-collision"
  | .unionCollision _ => "union-collision"
  | .interfaceCollision _ => "interface-collision"
  | .nodeInterfaceCollision _ => "node-interface-collision"
  | .overlappingRoot _ _ => "overlapping-root-fields"
  | .fieldCollision _ _ => "field-collision"
  | .overlappingFields _ => "overlapping-fields"
  | .notCompleteCopy _ => "not-complete-copy"

structure MergeInput where
  schema : Schema
  url : String
  deriving Repr, Inhabited

/-! ## names (common/schema.go) -/

/-- `common.IsBuiltinName`: `strings.HasPrefix(s, "__")` (on character lists, so that the kernel can evaluate it) -/
def isBuiltinName (s : String) : Bool := builtinPrefix.toList.isPrefixOf s.toList
/-- `common.IsRootObjectName` -/
def isRootName (s : String) : Bool := s == queryName || s == mutationName || s == subscriptionName

/-- `isNonNullableTypeNamed(t, n)`: `t.Name() == n && t.NonNull` (innermost name, outermost flag),
    preceded on the repaired tree by `t.Elem == nil` (a list of the type is not the type) -/
def isNonNullNamed (t : TypeRef) (n : String) : Bool :=
  if Gen.Merge.namedTypeExcludesLists then t == .nonNull (.named n) else t.name == n && t.isNonNull
/-- `isNullableTypeNamed(t, n)` -/
def isNullableNamed (t : TypeRef) (n : String) : Bool :=
  if Gen.Merge.namedTypeExcludesLists then t == .named n else t.name == n && !t.isNonNull
/-- `isIDType` -/
def isIDType (t : TypeRef) : Bool := isNonNullNamed t "ID"
/-- `isIDField` -/
def isIDField (f : FieldDef) : Bool := f.name == idFieldName && f.args.isEmpty && isIDType f.type
/-- `isNodeField`: one argument `id` of ID type, nullable result named `Node`; the first test is
    `f.Name == "Node"` ⇒ false in the tree as first read, `f.Name != "node"` ⇒ false after repair -/
def isNodeField (F : Facts) (f : FieldDef) : Bool :=
  (if F.nodeFieldByName then f.name == nodeFieldName else f.name != nodeInterfaceName) &&
  match f.args with
  | [a] => a.name == idFieldName && isIDType a.type && isNullableNamed f.type nodeInterfaceName
  | _ => false
/-- `isImplementsNodeInterface` -/
def implementsNode (d : TypeDef) : Bool := d.interfaces.contains nodeInterfaceName

/-! ## helpers of samber/lo, by their list semantics -/

/-- `lo.UniqBy`: first occurrence of every key, in order -/
def uniqBy (key : α → String) : List α → List α
  | [] => []
  | x :: xs => x :: (uniqBy key xs).filter (fun y => key y != key x)

/-- `lo.Uniq` on strings -/
def uniq (l : List String) : List String := uniqBy id l

/-- `lo.Difference a b` has both results empty -/
def sameMembers (a b : List String) : Bool := a.all (b.contains ·) && b.all (a.contains ·)

/-! ## the type map -/

/-- `m[k]` -/
def lookup (ts : List TypeDef) (k : String) : Option TypeDef := ts.find? (·.name == k)

/-- `m[d.Name] = d` for a key that is present: replaces the entry `lookup` finds -/
def setType (d : TypeDef) : List TypeDef → List TypeDef
  | [] => [d]
  | t :: ts => if t.name == d.name then d :: ts else t :: setType d ts

/-- `FieldList.ForName` -/
def fieldNamed (fs : List FieldDef) (n : String) : Option FieldDef := fs.find? (·.name == n)

/-! ## pieces of `mergeCustomObjects` -/

/-- `mergeDescriptions(a, b)` -/
def mergeDescriptions (a b : TypeDef) : String :=
  if a.desc == "" then b.desc
  else if b.desc == "" then a.desc
  else if a.desc == b.desc then a.desc
  else b.desc ++ "\n\n" ++ a.desc

/-- `isSubArguments(a, b)` (repair 0001) -/
def isSubArguments (a b : List ArgDef) : Bool :=
  a.all (fun aa => match b.find? (·.name == aa.name) with
    | some ba => aa.type == ba.type && aa.default == ba.default
    | none => false)

/-- `isSameSignature(a, b)` (repair 0001); `Type.String()` equality is `TypeRef` equality -/
def isSameSignature (a b : FieldDef) : Bool :=
  a.type == b.type && a.default == b.default && isSubArguments a.args b.args && isSubArguments b.args a.args

/-- state of the loop over `mergeableFields(b)`: the growing `result` and the values stored in
    `isOverlappinggMap` (in index order) -/
structure FieldLoop where
  result : List FieldDef
  flags : List Bool
  deriving Repr

/-- one iteration of `for i, f := range mf` in `mergeCustomObjectFields` -/
def fieldStep (F : Facts) (aName : String) (st : FieldLoop) (f : FieldDef) : Except MergeErr FieldLoop :=
  let rf := fieldNamed st.result f.name
  if !F.idSkipOnlyIfPresent && isIDField f then .ok st
  else if F.fieldSignatureChecked && (match rf with | some r => !isSameSignature r f | none => false) then
    .error (.fieldCollision aName f.name)
  else if F.idSkipOnlyIfPresent && isIDField f && rf.isSome then .ok st
  else .ok { result := st.result ++ [f], flags := st.flags ++ [rf.isSome] }

/-- `mergeableFields(t)` -/
def mergeableFields (t : TypeDef) : List FieldDef := t.fields.filter (fun f => !isBuiltinName f.name)

/-- `mergeCustomObjectFields(_, _, a, b)` -/
def mergeCustomObjectFields (F : Facts) (a b : TypeDef) : Except MergeErr (List FieldDef) := do
  let result0 := a.fields.filter (fun f => !(a.name == queryName && isNodeField F f))
  let st ← (mergeableFields b).foldlM (fieldStep F a.name) { result := result0, flags := [] }
  let isSome := st.flags.any id
  let isAll := st.flags.all id
  if implementsNode a && isSome then .error (.overlappingFields a.name)
  else if isSome && !isAll then .error (.notCompleteCopy a.name)
  else if isAll then .ok result0
  else .ok st.result

/-- `mergeCustomObjects(_, _, a, b)`: the merged definition is a NEW `ast.Definition`
    (`BuiltIn` false), fields from `(a, b)`, and `(b, a)` is run for its error only -/
def mergeCustomObjects (F : Facts) (a b : TypeDef) : Except MergeErr TypeDef := do
  let mergedFields ← mergeCustomObjectFields F a b
  let _ ← mergeCustomObjectFields F b a
  pure { name := a.name, kind := a.kind, desc := mergeDescriptions a b,
         directives := uniqBy (·.name) (a.directives ++ b.directives),
         interfaces := uniq (a.interfaces ++ b.interfaces),
         fields := mergedFields,
         enumValues := uniqBy (·.name) (a.enumValues ++ b.enumValues),
         members := uniq (a.members ++ b.members) }

/-- one iteration of `for _, f := range b.Fields` in `mergeRootObjects` -/
def rootStep (F : Facts) (aName : String) (fields : List FieldDef) (f : FieldDef) : Except MergeErr (List FieldDef) :=
  if F.rootKeepsNodeField then
    if isBuiltinName f.name then .ok fields
    else match fieldNamed fields f.name with
      | some rf =>
        if isNodeField F f && isNodeField F rf && isSameSignature rf f then .ok fields
        else .error (.overlappingRoot aName f.name)
      | none => .ok (fields ++ [f])
  else
    if isBuiltinName f.name || isNodeField F f then .ok fields
    else match fieldNamed fields f.name with
      | some _ => .error (.overlappingRoot aName f.name)
      | none => .ok (fields ++ [f])

/-- `mergeRootObjects(_, _, a, b)` -/
def mergeRootObjects (F : Facts) (a b : TypeDef) : Except MergeErr TypeDef := do
  let fields ← b.fields.foldlM (rootStep F a.name) a.fields
  pure { name := a.name, kind := .object, desc := mergeDescriptions a b, directives := [],
         interfaces := uniq (a.interfaces ++ b.interfaces), fields := fields }

/-! ## `mergeTypes` -/

/-- `PossibleTypes[name]` as names -/
def possibleNames (s : Schema) (n : String) : List String := s.possibleOf n

/-- what the loop body of `mergeTypes` does with one entry `vb` of `b` whose key is found in the
    result as `va`: `none` = leave the entry as it is, `some d` = `result[k] = d` -/
def mergeDef (F : Facts) (as bs : Schema) (va vb : TypeDef) : Except MergeErr (Option TypeDef) :=
  if vb.name == nodeInterfaceName then .ok none
  else if vb.kind != va.kind then .error (.nameCollision vb.name)
  else if vb.kind == .scalar then .ok (some vb)
  else if vb.kind == .union then
    if sameMembers va.members vb.members then .ok none else .error (.unionCollision va.name)
  else if vb.kind == .interface &&
      !sameMembers (possibleNames as va.name) (possibleNames (if F.ifaceSelfCompare then as else bs) vb.name) then
    .error (.interfaceCollision va.name)
  else if implementsNode vb != implementsNode va then .error (.nodeInterfaceCollision vb.name)
  else if isRootName vb.name then
    (if F.newSideFirst then mergeRootObjects F vb va else mergeRootObjects F va vb).map some
  else
    (if F.newSideFirst then mergeCustomObjects F vb va else mergeCustomObjects F va vb).map some

/-- one iteration of `for k, vb := range b` -/
def mergeOne (F : Facts) (as bs : Schema) (res : List TypeDef) (vb : TypeDef) : Except MergeErr (List TypeDef) :=
  if isBuiltinName vb.name then .ok res
  else match lookup res vb.name with
    | none => .ok (res ++ [vb])
    | some va =>
      match mergeDef F as bs va vb with
      | .error e => .error e
      | .ok none => .ok res
      | .ok (some d) => .ok (setType d res)

/-- `mergeTypes(a, b, as, bs)`, `b` ranged over in list order -/
def mergeTypes (F : Facts) (a b : List TypeDef) (as bs : Schema) : Except MergeErr (List TypeDef) :=
  b.foldlM (mergeOne F as bs) a

/-- the errors `mergeTypes` could report first under SOME iteration order of the map `b`
    (each entry judged against `a` alone: entries of `b` have distinct keys) -/
def mergeTypesErrs (F : Facts) (a b : List TypeDef) (as bs : Schema) : List MergeErr :=
  b.filterMap (fun vb => match mergeOne F as bs a vb with | .error e => some e | .ok _ => none)

/-! ## the rest of `Merge` -/

def assocAppend (m : List (String × List String)) (k : String) (vs : List String) (dedup : Bool) :
    List (String × List String) :=
  match m with
  | [] => [(k, if dedup then uniq vs else vs)]
  | (k', l) :: rest =>
    if k' == k then (k', if dedup then uniq (l ++ vs) else l ++ vs) :: rest
    else (k', l) :: assocAppend rest k vs dedup

/-- `mergeImplements`: concatenation per type over the inputs in order -/
def mergeImplements (sources : List Schema) : List (String × List String) :=
  sources.foldl (fun acc s => s.implements.foldl (fun acc (k, vs) => assocAppend acc k vs false) acc) []

/-- `mergePossibleTypes`: only for names in the merged type map, de-duplicated by name -/
def mergePossibleTypes (sources : List Schema) (merged : List TypeDef) : List (String × List String) :=
  sources.foldl (fun acc s => s.possible.foldl (fun acc (k, vs) =>
    if (lookup merged k).isSome then assocAppend acc k vs true else acc) acc) []

def setDirective (d : DirDef) : List DirDef → List DirDef
  | [] => [d]
  | x :: xs => if x.name == d.name then d :: xs else x :: setDirective d xs

/-- `mergeDirectives`: last writer wins per name -/
def mergeDirectives (sources : List Schema) : List DirDef :=
  sources.foldl (fun acc s => s.directives.foldl (fun acc d => setDirective d acc) acc) []

def assocGet (m : List (String × List String)) (k : String) : List String :=
  match m.find? (·.1 == k) with
  | some (_, l) => l
  | none => []

/-- "sometimes union definition from remote schema is broken": refill empty unions -/
def refillUnions (possible : List (String × List String)) (types : List TypeDef) : List TypeDef :=
  types.map (fun d => if d.kind == .union && d.members.isEmpty then { d with members := assocGet possible d.name } else d)

/-- the fold `for i, input := range inputs[1:]`: accumulated type map and `schemas[i]` -/
def foldInputs (F : Facts) : List TypeDef → Schema → Schema → List MergeInput → Except MergeErr (List TypeDef)
  | acc, _, _, [] => .ok acc
  | acc, accS, prev, i :: rest => do
    -- `as` is schemas[i] (the previous input) in the code as written
    let as := if F.asIsPrevInput then prev else accS
    let acc' ← mergeTypes F acc i.schema.types as i.schema
    foldInputs F acc' { accS with types := acc' } i.schema rest

/-- the schema `Merge` hands to the formatter -/
def mergeSchema (F : Facts) (inputs : List MergeInput) : Except MergeErr Schema :=
  match inputs with
  | [] => .error .noSources
  | i0 :: rest => do
    let types ← foldInputs F i0.schema.types i0.schema i0.schema rest
    let schemas := inputs.map (·.schema)
    let possible := mergePossibleTypes schemas types
    let types := refillUnions possible types
    pure { types := types, directives := mergeDirectives schemas, possible := possible,
           implements := mergeImplements schemas,
           query := (lookup types queryName).map (·.name),
           mutation := (lookup types mutationName).map (·.name),
           subscription := (lookup types subscriptionName).map (·.name) }

/-- the step of the fold that fails, and every error some map order could report there -/
def mergeErrsAt (F : Facts) : List TypeDef → Schema → Schema → List MergeInput → List MergeErr
  | _, _, _, [] => []
  | acc, accS, prev, i :: rest =>
    let as := if F.asIsPrevInput then prev else accS
    match mergeTypes F acc i.schema.types as i.schema with
    | .error _ => mergeTypesErrs F acc i.schema.types as i.schema
    | .ok acc' => mergeErrsAt F acc' { accS with types := acc' } i.schema rest

def mergeErrs (F : Facts) : List MergeInput → List MergeErr
  | [] => [.noSources]
  | i0 :: rest => mergeErrsAt F i0.schema.types i0.schema i0.schema rest

/-! ## print + reload (NOT modelled: what is known to be lost) -/

/-- what survives `formatter.FormatSchema` + `gqlparser.LoadSchema` when validation passes, as
    far as the correspondence compares: definitions flagged `BuiltIn` are not printed (the
    prelude re-adds them), fields named `__…` are not printed (`__schema`/`__type` are re-added
    to Query), a directive's `repeatable` flag is not printed, the root operation names are
    re-inferred from the type NAMES. `possible`/`implements` are recomputed by the loader. -/
def reloadView (s : Schema) : Schema :=
  { s with
    types := (s.types.filter (fun d => !d.builtIn)).map (fun d =>
      { d with fields := d.fields.filter (fun f => !isBuiltinName f.name) }),
    directives := s.directives.map (fun d => { d with repeatable := false }),
    possible := [], implements := [] }

/-! ## `SanitizeNodeMergerFunc` -/

inductive Fault where
  | err (e : MergeErr)
  | panic (what : String)
  deriving Repr, DecidableEq

/-- removes the field NAMED `node` from `res.Schema.Query` — a nil dereference when the merged
    schema has no type named Query, unless guarded (repair 0005) -/
def sanitizeNode (F : Facts) (s : Schema) : Except Fault Schema :=
  match s.query with
  | none => if F.sanitizeGuardsNilQuery then .ok s else .error (.panic "nil pointer dereference: res.Schema.Query")
  | some q => .ok { s with types := s.types.map (fun d =>
      if d.name == q then { d with fields := d.fields.filter (fun f => f.name != nodeFieldName) } else d) }

/-- what a merger answers (when gqlparser accepts the printed schema): `sanitize` selects
    `SanitizeNodeMergerFunc`. A Go panic is the value `.panic` -/
def run (F : Facts) (sanitize : Bool) (ins : List MergeInput) : Except Fault Schema :=
  match mergeSchema F ins with
  | .error e => .error (.err e)
  | .ok s => if sanitize then sanitizeNode F (reloadView s) else .ok (reloadView s)

end PebblesVerif.Merge
