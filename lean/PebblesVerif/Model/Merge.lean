import PebblesVerif.Basic.J
/-!
Model of the executor's merge functions (executor/utils.go `mergeMaps`, `mergeSlices`,
`getLeftEntityPosition`, `mergeOrRewriteMap`; executor/depth_executor_manager.go `merge`, the
per-key loop) on `J` values. Go maps are association lists with unique keys; the functions are
written as `mutual` structural recursion over the RIGHT operand (the value being merged in).

Go facts kept literal:
* `lID == id` compares two `interface{}` values: different dynamic types are unequal, equal
  uncomparable dynamic types (`map`, `[]interface{}`) PANIC at run time — `Except.error`.
* `mergeSlices` appends to the left slice while it iterates, and `rIdx < len(lSlice)` reads the
  current length.
* a value that is not (map, map) or (slice, slice) overwrites.
-/
namespace PebblesVerif.Merge
open PebblesVerif

/-- a Go run-time panic (message) -/
abbrev P := Except String

/-- Go `==` on two `interface{}` holding decoded JSON -/
def goEq : J → J → P Bool
  | .null, .null => .ok true
  | .bool a, .bool b => .ok (a == b)
  | .num a, .num b => .ok (a == b)
  | .str a, .str b => .ok (a == b)
  | .arr _, .arr _ => .error "runtime error: comparing uncomparable type []interface {}"
  | .obj _, .obj _ => .error "runtime error: comparing uncomparable type map[string]interface {}"
  | _, _ => .ok false

/-- `getLeftEntityPosition`: index of the first map in `left` whose `id` equals `id` -/
def leftPos (id : J) : List J → Nat → P (Option Nat)
  | [], _ => .ok none
  | .obj kvs :: rest, i =>
    match J.lookup "id" kvs with
    | some lid => match goEq lid id with
      | .error e => .error e
      | .ok true => .ok (some i)
      | .ok false => leftPos id rest (i + 1)
    | none => leftPos id rest (i + 1)
  | _ :: rest, i => leftPos id rest (i + 1)

mutual
  /-- what ends up under a key / at an index when `r` is merged onto `l`: (map, map) ⇒ `mergeMaps`,
      (slice, slice) ⇒ `mergeSlices`, anything else ⇒ `r` -/
  def mergeVal (l : Option J) : J → P J
    | .obj rkvs => match l with
      | some (.obj lkvs) => match mergeObj lkvs rkvs with
        | .error e => .error e
        | .ok m => .ok (.obj m)
      | _ => .ok (.obj rkvs)
    | .arr rs => match l with
      | some (.arr ls) => match mergeArr ls 0 rs with
        | .error e => .error e
        | .ok m => .ok (.arr m)
      | _ => .ok (.arr rs)
    | v => .ok v
  /-- `mergeMaps(left, right)` -/
  def mergeObj (left : List (String × J)) : List (String × J) → P (List (String × J))
    | [] => .ok left
    | (k, rv) :: rest => match mergeVal (J.lookup k left) rv with
      | .error e => .error e
      | .ok v => mergeObj (J.setKey k v left) rest
  /-- `mergeSlices(lSlice, rSlice)`, the loop from index `rIdx` on -/
  def mergeArr (left : List J) (rIdx : Nat) : List J → P (List J)
    | [] => .ok left
    | rv :: rest =>
      if rv.isObj then
        -- position of the entity with the same id, if the right map has an id
        match (match rv.get? "id" with
               | some rid => leftPos rid left 0
               | none => .ok none) with
        | .error e => .error e
        | .ok (some pos) => match mergeVal left[pos]? rv with
          | .error e => .error e
          | .ok v => mergeArr (left.set pos v) (rIdx + 1) rest
        | .ok none =>
          if rIdx < left.length then match mergeVal left[rIdx]? rv with
            | .error e => .error e
            | .ok v => mergeArr (left.set rIdx v) (rIdx + 1) rest
          else mergeArr (left ++ [rv]) (rIdx + 1) rest
      else mergeArr (left ++ [rv]) (rIdx + 1) rest
end

/-- one key of the per-key loop of `DepthExecutorManager.merge`: (map, map) ⇒ `mergeMaps`, anything
    else overwrites (lists are NOT merged at this level) -/
def topVal (l : Option J) (v : J) : P J :=
  match v, l with
  | .obj rkvs, some (.obj lkvs) => match mergeObj lkvs rkvs with
    | .error e => .error e
    | .ok m => .ok (.obj m)
  | _, _ => .ok v

/-- the per-key loop of `DepthExecutorManager.merge` -/
def mergeTop (target : List (String × J)) : List (String × J) → P (List (String × J))
  | [] => .ok target
  | (k, v) :: rest => match topVal (J.lookup k target) v with
    | .error e => .error e
    | .ok v' => mergeTop (J.setKey k v' target) rest

/-- all step results of an execution merged at the root, in order -/
def mergeAll (target : List (String × J)) : List (List (String × J)) → P (List (String × J))
  | [] => .ok target
  | r :: rs => match mergeTop target r with
    | .error e => .error e
    | .ok t => mergeAll t rs

mutual
  /-- scalar leaves (strings, numbers, booleans) of a value -/
  def leaves : J → List J
    | .arr xs => leavesL xs
    | .obj kvs => leavesO kvs
    | .null => []
    | v => [v]
  def leavesL : List J → List J
    | [] => []
    | x :: xs => leaves x ++ leavesL xs
  def leavesO : List (String × J) → List J
    | [] => []
    | (_, v) :: rest => leaves v ++ leavesO rest
end

def leavesOpt : Option J → List J
  | none => []
  | some v => leaves v

end PebblesVerif.Merge
