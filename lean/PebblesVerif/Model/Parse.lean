import PebblesVerif.Basic.J
import PebblesVerif.Model.Upload
/-!
# Model of `requests.Parse` / `parseRequest` (C07), from DECODED values

`requests/request.go:40-142,216-227`. The byte-level codecs (`encoding/json`, `mime/multipart`,
`net/http`) are outside the model; the model starts where they hand over:

* the content-type header value and the method;
* the JSON document as a value tree `J` with its object members in DOCUMENT order (`none` when
  the bytes are not one valid JSON value), and `firstBracket` — what `IsBatchMode` sees: the first
  of `[` / `{` in the raw bytes (`some true` = `[`, `none` = neither);
* for multipart: whether `ParseMultipartForm` accepted the bytes, the `operations` field (as
  above), the decoded `map` field, and the form keys that carry a file.

What IS modelled is how `encoding/json` fills `Request` / `[]*Request` / `map[string][]string`
from such a tree — the rules the Go code silently relies on:
`null` leaves the target unchanged (zero value for a fresh one, `nil` for pointer / map / slice);
a member of the wrong JSON type is an error (the whole decode fails); member names match the
struct fields case-insensitively, with Go's simple folding (`ſ`→`S`, `K`→`K`); later duplicates
overwrite (and a second `variables` object is MERGED into the first map); unknown members are
skipped; an array element `null` leaves a nil `*Request`, which `parseRequest` then dereferences
(`.panic .nilRequest` unless the guard is there); a numeral that does not fit a float64 is an
error when it is decoded into `interface{}` (`fits`, a parameter: `strconv.ParseFloat`).
Core Lean only.
-/
namespace PebblesVerif.Parse
open PebblesVerif PebblesVerif.Upload
open PebblesVerif.Gen.Requests (Facts)

/-- `encoding/json` name folding (go ≥ 1.21 `foldName`): ASCII upper-casing plus the two
non-ASCII runes whose simple-fold orbit contains an ASCII letter -/
def foldChar (c : Char) : Char :=
  if c = 'ſ' then 'S'            -- U+017F LATIN SMALL LETTER LONG S
  else if c = 'K' then 'K'       -- U+212A KELVIN SIGN
  else c.toUpper

def foldKey (s : String) : String := String.ofList (s.toList.map foldChar)

inductive Field where
  | query | variables | operationName
  deriving DecidableEq, Repr

/-- the struct field a member name selects (exact match is subsumed by the folded match: the
three folded names are distinct) -/
def fieldOf (k : String) : Option Field :=
  let f := foldKey k
  if f = "QUERY" then some .query
  else if f = "VARIABLES" then some .variables
  else if f = "OPERATIONNAME" then some .operationName
  else none

/-! ## JSON → `interface{}` -/

def vSetKey := @Upload.setKey

mutual
/-- `d.valueInterface()`: objects become fresh maps (later duplicates overwrite), numerals must
fit a float64 -/
def toV (fits : String → Bool) : J → Option V
  | .null => some .null
  | .bool b => some (.scalar (if b then "b:true" else "b:false"))
  | .num r => if fits r then some (.scalar ("n:" ++ r)) else none
  | .str s => some (.scalar ("s:" ++ s))
  | .arr xs => match toVL fits xs with
    | some l => some (.list l)
    | none => none
  | .obj kvs => match toVKVs fits kvs [] with
    | some m => some (.obj m)
    | none => none
def toVL (fits : String → Bool) : List J → Option (List V)
  | [] => some []
  | x :: r => match toV fits x, toVL fits r with
    | some v, some l => some (v :: l)
    | _, _ => none
/-- members decoded in document order INTO `acc` (map assignment) -/
def toVKVs (fits : String → Bool) : List (String × J) → List (String × V) → Option (List (String × V))
  | [], acc => some acc
  | (k, x) :: r, acc => match toV fits x with
    | some v => toVKVs fits r (Upload.setKey k v acc)
    | none => none
end

/-! ## JSON → `Request` -/

def emptyReq : Req := { query := "", vars := none, opName := none }

/-- one member of an object decoded into `*Request` -/
def decodeMember (fits : String → Bool) (r : Req) (k : String) (v : J) : Option Req :=
  match fieldOf k with
  | none => some r                               -- unknown member: skipped without conversion
  | some .query =>
    match v with
    | .null => some r
    | .str s => some { r with query := s }
    | _ => none
  | some .operationName =>
    match v with
    | .null => some { r with opName := none }
    | .str s => some { r with opName := some s }
    | _ => none
  | some .variables =>
    match v with
    | .null => some { r with vars := none }
    | .obj kvs =>
      -- an existing map is reused: members are assigned into it
      match toVKVs fits kvs (r.vars.getD []) with
      | some m => some { r with vars := some m }
      | none => none
    | _ => none

def decodeMembers (fits : String → Bool) : List (String × J) → Req → Option Req
  | [], r => some r
  | (k, v) :: rest, r => match decodeMember fits r k v with
    | some r' => decodeMembers fits rest r'
    | none => none

/-- `json.Unmarshal(body, &singleRequest)` — `none`: Unmarshal returned an error -/
def decodeSingle (fits : String → Bool) : J → Option Req
  | .null => some emptyReq
  | .obj kvs => decodeMembers fits kvs emptyReq
  | _ => none

/-- one element of `[]*Request`: `null` ↦ nil pointer -/
def decodeElem (fits : String → Bool) : J → Option (Option Req)
  | .null => some none
  | .obj kvs => match decodeMembers fits kvs emptyReq with
    | some r => some (some r)
    | none => none
  | _ => none

def decodeElems (fits : String → Bool) : List J → Option (List (Option Req))
  | [] => some []
  | x :: r => match decodeElem fits x, decodeElems fits r with
    | some e, some l => some (e :: l)
    | _, _ => none

/-- `json.Unmarshal(body, &multipleRequests)` -/
def decodeBatch (fits : String → Bool) : J → Option (List (Option Req))
  | .null => some []
  | .arr xs => decodeElems fits xs
  | _ => none

/-- the loop `for _, r := range multipleRequests { if r.Query == "" … }` -/
def checkQueries (F : Facts) : List (Option Req) → Res (List Req)
  | [] => .ok []
  | none :: _ => if F.nilRequestGuard then .err .missingQuery else .panic .nilRequest
  | some r :: rest =>
    if r.query = "" then .err .missingQuery
    else match checkQueries F rest with
      | .ok l => .ok (r :: l)
      | .err e => .err e
      | .panic x => .panic x

/-- what `IsBatchMode(body)` returns -/
def isBatch (firstBracket : Option Bool) : Bool := firstBracket == some true

/-- `parseRequest(body)` -/
def parseRequest (F : Facts) (fits : String → Bool) (firstBracket : Option Bool) (body : Option J) :
    Res (List Req × Bool) :=
  if isBatch firstBracket then
    match body with
    | none => .err .parseBatch
    | some j => match decodeBatch fits j with
      | none => .err .parseBatch
      | some rs => match checkQueries F rs with
        | .ok l => .ok (l, true)
        | .err e => .err e
        | .panic x => .panic x
  else
    match body with
    | none => .err .parseSingle
    | some j => match decodeSingle fits j with
      | none => .err .parseSingle
      | some r => if r.query = "" then .err .missingQuery else .ok ([r], false)

/-! ## the `map` form field → `map[string][]string` -/

def decodePaths : List J → Option (List String)
  | [] => some []
  | .str s :: r => (decodePaths r).map (s :: ·)
  | .null :: r => (decodePaths r).map ("" :: ·)      -- null into a fresh string element: ""
  | _ :: _ => none

def setEntry (k : String) (v : List String) : List (String × List String) → List (String × List String)
  | [] => [(k, v)]
  | (k', v') :: rest => if k = k' then (k, v) :: rest else (k', v') :: setEntry k v rest

def decodeMapMembers : List (String × J) → List (String × List String) → Option (List (String × List String))
  | [], acc => some acc
  | (k, .null) :: r, acc => decodeMapMembers r (setEntry k [] acc)
  | (k, .arr xs) :: r, acc => match decodePaths xs with
    | some ps => decodeMapMembers r (setEntry k ps acc)
    | none => none
  | _ :: _, _ => none

/-- `json.Unmarshal([]byte(r.Form.Get("map")), &filePosMap)`; `null` leaves the nil map -/
def decodeMap : J → Option (List (String × List String))
  | .null => some []
  | .obj kvs => decodeMapMembers kvs []
  | _ => none

/-- number the entries: upload id = position in the decoded map (identity of the `*Upload`) -/
def numberEntries (i : Nat) : List (String × List String) → List (Nat × String × List String)
  | [] => []
  | (k, ps) :: r => (i, k, ps) :: numberEntries (i + 1) r

/-! ## Parse -/

/-- `strings.SplitN(header, ";", 2)[0]` -/
def mediaType (header : String) : String := String.ofList (header.toList.takeWhile (· ≠ ';'))

/-- what the codecs hand over -/
structure Payload where
  /-- first of `[`/`{` in the JSON bytes (request body, or the `operations` field) -/
  firstBracket : Option Bool
  /-- those bytes as one JSON value; `none`: not valid JSON (also: field absent / empty) -/
  body : Option J
  /-- multipart only: `r.ParseMultipartForm` returned nil -/
  formOk : Bool := true
  /-- multipart only: the `map` field as JSON; `none`: not valid JSON -/
  map : Option J := none
  /-- multipart only: form keys for which `r.FormFile` finds a file -/
  files : List String := []

def wrapOps : ErrClass → ErrClass
  | .parseBatch => .opsParseBatch
  | .parseSingle => .opsParseSingle
  | .missingQuery => .opsMissingQuery
  | e => e

/-- `requests.Parse(r)`. `order` is the Go map iteration order of `filePosMap`: it receives the
numbered entries and returns them in the order the loop visits them (any permutation). -/
def parse (F : Facts) (fits : String → Bool)
    (order : List (Nat × String × List String) → List (Nat × String × List String))
    (method header : String) (p : Payload) : Res (List Req × Bool) :=
  if method ≠ F.method then .err .onlyPost
  else
    let ct := mediaType header
    if F.jsonContentTypes.contains ct then parseRequest F fits p.firstBracket p.body
    else if ct = F.multipartContentType then
      if !p.formOk then .err .multipartForm
      else match parseRequest F fits p.firstBracket p.body with
        | .err e => .err (wrapOps e)
        | .panic x => .panic x
        | .ok (reqs, batch) =>
          match p.map with
          | none => .err .fileMapParse
          | some mj => match decodeMap mj with
            | none => .err .fileMapParse
            | some entries =>
              if entries.isEmpty then .err .fileMapEmpty
              else match injectEntries F batch p.files (order (numberEntries 0 entries)) reqs with
                | .ok reqs' => .ok (reqs', batch)
                | .err e => .err e
                | .panic x => .panic x
    else .err .unknownContentType

end PebblesVerif.Parse
