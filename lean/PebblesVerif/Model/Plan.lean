import PebblesVerif.Model.Sanitize
/-!
Model of `planner.SequentialPlanner` (planner/sequential_planner.go, context.go): routing of the
sanitised selection set to services, extraction of per-service selection sets and child steps,
the `node(id: $id) { ... on T { … } }` wrapping.

Scope (stated, enforced by `notModelled`): selections whose parent type is an INTERFACE are
rewritten by `formatSelectionSetForInterface` in the Go code; the model does not contain that
rewrite and answers `.err "not-modelled: …"` there, so the correspondence skips exactly those
operations. Everything else (objects, Node types, value types that follow their parent, unions
reached through kept fragments, `node(id:)` roots) is modelled literally, defects included.

Steps come out of Go maps (`routeSelectionSet` returns a map; `GetURLs` ranges over a map): the
model produces them in table order; comparisons sort.
-/
namespace PebblesVerif

inductive Step where
  | mk (url parentType : String) (sels : List Sel) (ip : List String) (thn : List Step)
  deriving Repr, Inhabited

namespace Step
def url : Step → String | .mk u _ _ _ _ => u
def parentType : Step → String | .mk _ p _ _ _ => p
def sels : Step → List Sel | .mk _ _ s _ _ => s
def ip : Step → List String | .mk _ _ _ i _ => i
def thn : Step → List Step | .mk _ _ _ _ t => t
end Step

def notModelled (what : String) : Fault := .err ("not-modelled: " ++ what)

/-- `PlanningContext.GetURL` -/
def getURL (c : PCtx) (typename fieldname fburl : String) : Except String String :=
  if isBuiltinName fieldname then .ok fburl else
  match c.tum.isNode? typename with
  | none => .error ("could not find location type " ++ typename)
  | some isNode =>
    if !isNode && fburl != internalService && !isRootName typename then .ok fburl else
    match c.tum.get? typename fieldname with
    | some u => .ok u
    | none => .error ("could not find location for field " ++ fieldname ++ " of type " ++ typename)

/-- `convertSelectionSetToNodeQuery` -/
def convertToNodeQuery (parentType : String) (ss : List Sel) : List Sel :=
  [.field "" "node" [⟨"id", .var "id"⟩] [] (.named "")
     [{ name := "id", type := .named "ID!", default := none }]
     [.inline parentType .object "" [] ss]]

/-- `addFieldToNodeQuery` -/
def addFieldToNodeQuery (parentType : String) (nodeQuery : List Sel) (sel : Sel) : Option (List Sel) :=
  match nodeQuery with
  | .field _ "node" _ _ _ _ (.inline _ _ _ _ fragSub :: _) :: _ =>
    some (convertToNodeQuery parentType (fragSub ++ [sel]))
  | _ => none

def fieldName : Sel → String
  | .field _ n _ _ _ _ _ => n
  | _ => ""

def fieldAlias : Sel → String
  | .field a _ _ _ _ _ _ => a
  | _ => ""

def fieldSub : Sel → List Sel
  | .field _ _ _ _ _ _ s => s
  | _ => []

/-- wrap the extracted selection set of a Node-typed parent that lacks a top-level `id` -/
def finishExtract (c : PCtx) (parentType : String) (ss : List Sel) : List Sel :=
  if !isRootName parentType && (c.tum.isNode? parentType).getD false && !hasFieldNamed ss "id"
  then convertToNodeQuery parentType ss else ss

/-- replace the first child step with the given URL and insertion point -/
def updateStep (steps : List Step) (url : String) (ip : List String) (f : Step → Step) : List Step :=
  match steps with
  | [] => []
  | s :: rest => if s.url == url && s.ip == ip then f s :: rest else s :: updateStep rest url ip f

def findStep (steps : List Step) (url : String) (ip : List String) : Option Step :=
  steps.find? (fun s => s.url == url && s.ip == ip)

/-- the prologue of `extractSelectionSet`: the parent type must exist; interface parents are
    rewritten by `formatSelectionSetForInterface`, which the model does not contain -/
def preExtract (c : PCtx) (parentType : String) : G Unit :=
  match c.schema.type? parentType with
  | none => .error (.err ("unable to find type " ++ parentType ++ " in schema"))
  | some td => if td.kind == .interface then .error (notModelled "interface parent") else .ok ()

mutual
  /-- one selection inside `extractSelectionSet`'s loop; accumulators = (selectionSetResult,
      childrenStepsResult). A recursive `extractSelectionSet` call is `preExtract`, then
      `extractLoop` on the sub-selection, then `finishExtract`. -/
  def extractSel (c : PCtx) (ip : List String) (parentType location : String) :
      Sel → List Sel × List Step → G (List Sel × List Step)
    | .field alias name args dirs type argDefs sub, (res, steps) =>
      let self : Sel := .field alias name args dirs type argDefs sub
      match getURL c parentType name location with
      | .error _ => .ok (res ++ [self], steps)   -- e.g. id fields: added straight to the selection
      | .ok loc =>
        if loc == location then
          if sub.isEmpty then .ok (res ++ [self], steps) else do
            preExtract c type.name
            let (ss, cs) ← extractLoop c (ip ++ [alias]) type.name location sub ([], [])
            .ok (res ++ [.field alias name args dirs type argDefs (finishExtract c type.name ss)], steps ++ cs)
        else
          match findStep steps loc ip with
          | some _ => do
            -- merged into the existing child step for that service and insertion point
            let (modified, cs) ← (if sub.isEmpty then (.ok (self, []) : G (Sel × List Step)) else do
              preExtract c type.name
              let (ss, cs) ← extractLoop c (ip ++ [alias]) type.name loc sub ([], [])
              .ok (.field alias name args dirs type argDefs (finishExtract c type.name ss), cs))
            .ok (res, updateStep steps loc ip (fun st =>
              match addFieldToNodeQuery parentType st.sels modified with
              | some s' => .mk st.url st.parentType s' st.ip (st.thn ++ cs)
              | none => .mk st.url st.parentType (st.sels ++ [modified]) st.ip (st.thn ++ cs)))
          | none =>
            -- createQueryPlanSteps → routeSelectionSet (non-root) → extractSelectionSet at the owner
            if isBuiltinName name then .ok (res, steps) else
            match c.tum.get? parentType name with
            | none => .error (.err ("could not find location for " ++ name))
            | some loc' => do
              preExtract c parentType
              -- at the owner the field is kept: GetURL(parentType, name, loc') = loc'
              let (kept, cs) ← (if sub.isEmpty then (.ok (self, []) : G (Sel × List Step)) else do
                preExtract c type.name
                let (ss, cs) ← extractLoop c (ip ++ [alias]) type.name loc' sub ([], [])
                .ok (.field alias name args dirs type argDefs (finishExtract c type.name ss), cs))
              .ok (res, steps ++ [.mk loc' parentType (finishExtract c parentType [kept]) ip cs])
    | .inline cond pk pn dirs sub, (res, steps) => do
      preExtract c cond
      let (ss, cs) ← extractLoop c ip cond location sub ([], [])
      .ok (res ++ [.inline cond pk pn dirs (finishExtract c cond ss)], steps ++ cs)
    | .spread .., _ => .error (.err "unexpected *ast.FragmentSpread in SelectionSet")

  def extractLoop (c : PCtx) (ip : List String) (parentType location : String) :
      List Sel → List Sel × List Step → G (List Sel × List Step)
    | [], acc => .ok acc
    | s :: rest, acc => do
      let acc' ← extractSel c ip parentType location s acc
      extractLoop c ip parentType location rest acc'
end

/-- `extractSelectionSet` -/
def extractSels (c : PCtx) (ip : List String) (parentType : String) (input : List Sel)
    (location : String) : G (List Sel × List Step) := do
  preExtract c parentType
  let (ss, steps) ← extractLoop c ip parentType location input ([], [])
  .ok (finishExtract c parentType ss, steps)

/-- one iteration of `filterSelectionSetByLoc` (`none` = GetURL failed for some field) -/
def filterStep (c : PCtx) (loc parentType : String) (acc : Option (List Sel)) (f : Sel) : Option (List Sel) :=
  match acc, getURL c parentType (fieldName f) internalService with
  | some l, .ok u => if u == loc then some (l ++ [f]) else some l
  | _, _ => none

/-- `filterSelectionSetByLoc`: root fields owned by `loc` (`none` = GetURL failed) -/
def filterByLoc (c : PCtx) (fields : List Sel) (loc parentType : String) : Option (List Sel) :=
  fields.foldl (filterStep c loc parentType) (some [])

def appendAt (m : List (String × List Sel)) (k : String) (v : List Sel) : List (String × List Sel) :=
  match m.find? (·.1 == k) with
  | some _ => m.map (fun (k', l) => if k' == k then (k', l ++ v) else (k', l))
  | none => m ++ [(k, v)]

/-- `groupSelectionSetForNodeField`: for each `node` root field and each inline fragment DIRECTLY
    under it, the fragment's fields grouped by owner -/
def groupNodeFields (c : PCtx) (nodeFields : List Sel) : G (List (String × List Sel)) :=
  nodeFields.foldlM (fun res field =>
    match field with
    | .field alias name args dirs type argDefs sub =>
      sub.foldlM (fun res sel =>
        match sel with
        | .inline cond pk pn fdirs fsub =>
          match c.tum.props? cond with
          | none => .error (.err ("could not find location for type " ++ cond))
          | some props => do
            let knownLocs := (Tum.dedup (props.fields.map (·.2)))
            -- children grouped by owner; the id field is remembered
            let (inner, idF) ← (Sel.toFields fsub).foldlM (fun (acc : List (String × List Sel) × Option Sel) ch =>
              if fieldName ch == "id" then (.ok (acc.1, some ch) : G _) else
              match getURL c cond (fieldName ch) internalService with
              | .error e => .error (.err e)
              | .ok u => .ok (appendAt acc.1 u [ch], acc.2)) ([], none)
            let inner1 : List (String × List Sel) := inner.map (fun (k, v) => (k, [Sel.inline cond pk pn fdirs v]))
            let inner2 : List (String × List Sel) :=
              if inner1.isEmpty && !knownLocs.isEmpty then
                -- only the id is queried: the first known location, sorted (GetForType sorts)
                match (knownLocs.toArray.qsort (· < ·)).toList with
                | l0 :: _ => [(l0, [Sel.inline cond pk pn fdirs fsub])]
                | [] => []
              else match idF with
                | some idf => inner1.map (fun (k, v) => (k, v ++ [idf]))
                | none => inner1
            .ok (inner2.foldl (fun res (k, v) => appendAt res k [.field alias name args dirs type argDefs v]) res)
        | _ => .ok res) res
    | _ => .ok res) []

/-- root fields owned by `loc`, decided by `GetURL(parentType, name, internal)` -/
def ownerIs (c : PCtx) (parentType loc : String) (f : Sel) : Bool :=
  match getURL c parentType (fieldName f) internalService with
  | .ok u => u == loc
  | .error _ => false

/-- one iteration of the loop over `GetURLs()` in the root branch of `routeSelectionSet` -/
def routeStep (c : PCtx) (others : List Sel) (parentType : String) (acc : List (String × List Sel)) (loc : String) :
    G (List (String × List Sel)) :=
  match filterByLoc c others loc parentType with
  | none => .error (.err "could not find location (root)")
  | some [] => .ok acc
  | some ss => .ok (acc ++ [(loc, ss)])

/-- the internal pseudo-service gets the builtin names (errors ignored) -/
def routeInternal (c : PCtx) (others : List Sel) (parentType : String) (base : List (String × List Sel)) :
    List (String × List Sel) :=
  match filterByLoc c others internalService parentType with
  | some (x :: xs) => base ++ [(internalService, x :: xs)]
  | _ => base

/-- the non-`node` part of the root branch of `routeSelectionSet`: per service (in `GetURLs()`
    order) the root fields it owns, then the internal pseudo-service for builtin names -/
def routeRoot (c : PCtx) (others : List Sel) (parentType : String) : G (List (String × List Sel)) :=
  if others.isEmpty then .ok [] else do
    let base ← c.tum.urls.foldlM (routeStep c others parentType) []
    .ok (routeInternal c others parentType base)

/-- root branch of `routeSelectionSet` + `createQueryPlanSteps` at the root -/
def planRoot (c : PCtx) (sanitised : List Sel) : G (List Step) := do
  let parentType := c.opKind.rootName
  let fields := Sel.toFields sanitised
  let nodeFields := fields.filter (fun f => fieldName f == "node")
  let others := fields.filter (fun f => fieldName f != "node")
  let perURL ← routeRoot c others parentType
  let grouped ← groupNodeFields c nodeFields
  let routed := grouped.foldl (fun acc (k, v) => appendAt acc k v) perURL
  routed.foldlM (fun steps (loc, ss) => do
    let (sel, children) ← extractSels c [] parentType ss loc
    .ok (steps ++ [.mk loc parentType sel [] children])) []

/-- `SequentialPlanner.Plan` without the computed values (see Model/Format.lean) -/
def plan (c : PCtx) (op : Op) : G (List Step × Scrub) := do
  let (ss, sf) ← sanitizeSels c [] op.sels
  let steps ← planRoot c ss
  .ok (steps, sf)

end PebblesVerif
