import PebblesVerif.Model.Sanitize
import PebblesVerif.Gen.Point
/-!
Model of the insertion-point codec (executor/point_data.go:28-76, executor/utils.go:100-105):
points have the form `<field>[:<index>][#<id>]`. Strings are handled as `List Char` so that the
round-trip theorems are plain list inductions.
-/
namespace PebblesVerif.Point

/-- `strings.Split(s, sep)` for a one-character separator (never returns the empty list) -/
def splitOn (c : Char) : List Char → List (List Char)
  | [] => [[]]
  | x :: xs =>
    if x = c then [] :: splitOn c xs
    else match splitOn c xs with
      | [] => [[x]]
      | h :: t => (x :: h) :: t

/-- `strings.SplitN(s, sep, 2)` when `sep` occurs: what precedes the FIRST separator, and all the rest -/
def splitFirst (c : Char) : List Char → List Char × List Char
  | [] => ([], [])
  | x :: xs => if x = c then ([], xs) else (x :: (splitFirst c xs).1, (splitFirst c xs).2)

structure PointData where
  field : String
  index : Option Nat     -- Go: -1 when absent
  id : String
  deriving Repr, Inhabited, DecidableEq

def allDigits (l : List Char) : Bool := !l.isEmpty && l.all Char.isDigit

def digitsToNat (l : List Char) : Nat := l.foldl (fun n ch => n * 10 + (ch.toNat - '0'.toNat)) 0

/-- `CachedPointDataExtractor.Extract` (the cache is transparent). How the id is cut off is a
    regenerated fact (`Gen.Point.idSplitFirst`, read from executor/point_data.go on every run). The index is parsed with
    `strconv.ParseInt(s, 0, 32)`; the model accepts decimal digits only (what the encoder emits). -/
def extractL (point : List Char) : G PointData :=
  let (field, id) :=
    if point.contains '#' then
      if Gen.Point.idSplitFirst then
        splitFirst '#' point   -- `strings.SplitN(point, "#", 2)`: the id may itself contain '#'
      else
        match splitOn '#' point with   -- `strings.Split(point, "#")` (before the repair)
        | [f, i] => (f, i)
        | f :: _ => (f, [])      -- more than one '#': the id is dropped (!)
        | [] => (point, [])
    else (point, [])
  if field.contains ':' then
    match splitOn ':' field with
    | f :: idx :: _ =>
      if allDigits idx then .ok ⟨String.ofList f, some (digitsToNat idx), String.ofList id⟩
      else .error (.err "strconv.ParseInt: invalid syntax")
    | _ => .error (.panic "index out of range")
  else .ok ⟨String.ofList field, none, String.ofList id⟩

def extract (point : String) : G PointData := extractL point.toList

/-- `isListElement` -/
def isListElementL (path : List Char) : Bool :=
  -- `if i := strings.Index(path, "#"); i > 0 { path = path[:i] }`
  let cut := match path.idxOf? '#' with
    | some i => if i > 0 then path.take i else path
    | none => path
  cut.contains ':'

def isListElement (path : String) : Bool := isListElementL path.toList

def digitChar (d : Nat) : Char := Char.ofNat (48 + d)

/-- decimal rendering of an index (`%v` of a Go int ≥ 0) -/
def showNat (n : Nat) : List Char :=
  if h : n < 10 then [digitChar n] else showNat (n / 10) ++ [digitChar (n % 10)]
termination_by n
decreasing_by omega

/-- encoders used by `FindInsertionPoints` (`fmt.Sprintf("%s:%v", name, i)`, `"%s#%v"`) -/
def encodeListL (field : List Char) (i : Nat) (id : Option (List Char)) : List Char :=
  field ++ ':' :: showNat i ++ (match id with | some s => '#' :: s | none => [])

def encodeList (field : String) (i : Nat) (id : Option String) : String :=
  String.ofList (encodeListL field.toList i (id.map String.toList))

def encodeObj (field : String) (id : Option String) : String :=
  field ++ (match id with | some s => "#" ++ s | none => "")

end PebblesVerif.Point
