import PebblesVerif.Model.Errors
import PebblesVerif.Gen.QueryBatchFacts
/-!
Model of what the gateway does with ONE downstream HTTP answer for a batch of `n` sub-requests,
literally after `queryer/fetch.go` (`sendRequest`, `fetch`), `MultiOpQueryer.queryBatch`
(JSON path; the multipart path of file uploads is C19's), `DepthExecutor.executeRequests`'
response-count check and `parseRespones`' node unwrapping.

The model is PARAMETRISED by the facts the extractor regenerates from the source on every run
(`Gen/QueryBatchFacts.lean`): which guards are present. With a guard absent the model does what
the Go does without it (index panic, silent acceptance), so it stays a model of the code that
exists; the property theorems carry the guards as hypotheses and are instantiated at the
regenerated facts by `decide`.

Go facts kept literal:
* `json.Unmarshal` into the pre-sized `results` slice resets its length to the length of the
  answer array; the body `null` gives length 0 and no error.
* `queryBatch` ranges over the ANSWERS and writes `results[toFetchIndexes[i]]`: an index beyond
  the request list panics (Go panics are `Fault.panic`, never totalised away).
* a `nil` data map (`data` absent or `null`, or the element `null`) is a value, not an error,
  unless the guard is present; reading `node` from it yields "missing".
* `results` is allocated with the length of the request list, so a successful `queryBatch` always
  returns exactly `n` results whatever the answer's length was.
-/
namespace PebblesVerif.QB
open PebblesVerif PebblesVerif.Errors
open PebblesVerif.Gen.QueryBatchFacts (Facts)

abbrev Obj := List (String × J)

/-- faults are values (DESIGN §4.4) -/
inductive Fault where
  | err (cls : String) (e : GoErr)   -- an `error` returned up the stack; `cls` names the site
  | panic (what : String)            -- a Go runtime panic
  deriving Repr

abbrev G := Except Fault

/-- the downstream's answer as `http.Client.Do` + `ioutil.ReadAll` deliver it -/
inductive Wire where
  | transportErr (msg : String)
  | resp (status : Nat) (body : Option J)   -- `none`: the body is not JSON
  deriving Repr

/-- `requests.Response` -/
structure Resp where
  errors : List (Option Err)
  data : Option Obj            -- `none` = nil map
  deriving Repr

def decodeData : Option J → Except String (Option Obj)
  | none => .ok none
  | some .null => .ok none
  | some (.obj kvs) => .ok (some kvs)
  | some _ => .error "json: cannot unmarshal into Go struct field Response.data of type map[string]interface {}"

/-- one element of the answer array into a `requests.Response` -/
def decodeResp : J → Except String Resp
  | .null => .ok { errors := [], data := none }
  | .obj kvs => do
      let es ← decodeErrors (lookupFold "errors" kvs)
      let d ← decodeData (lookupFold "data" kvs)
      pure { errors := es, data := d }
  | _ => .error "json: cannot unmarshal into Go value of type requests.Response"

/-- `json.Unmarshal(body, &results)` with `results : requests.Responses` -/
def decodeResponses : J → Except String (List Resp)
  | .null => .ok []
  | .arr xs => xs.mapM decodeResp
  | _ => .error "json: cannot unmarshal into Go value of type requests.Responses"

def statusMsg (s : Nat) : String := "response was not successful with status code: " ++ toString s

/-- `sendRequest` + `fetch` -/
def fetch (f : Facts) : Wire → G (List Resp)
  | .transportErr msg => .error (.err "transport" (.other msg))
  | .resp status body =>
    if f.statusCheck ∧ (status < 200 ∨ status > 299) then .error (.err "status" (.other (statusMsg status)))
    else match body with
      | none => .error (.err "notjson" (.other "invalid character looking for beginning of value"))
      | some j => match decodeResponses j with
        | .error m => .error (.err "type" (.other m))
        | .ok rs => .ok rs

def countMsg (url : String) (want got : Nat) : String :=
  "expected " ++ toString want ++ " responses from " ++ url ++ ", got " ++ toString got

def noDataMsg (url : String) : String := "response from " ++ url ++ " carries neither data nor errors"

/-- the `for i, resp := range resps` loop of `queryBatch`; `results` has the length of the request list -/
def loop (f : Facts) (url : String) (n : Nat) :
    Nat → List Resp → List (Option Err) → List (Option Obj) → G (List (Option Obj))
  | _, [], errs, results =>
      if errs.length ≠ 0 then .error (.err "errors" (asErr errs)) else .ok results
  | i, r :: rs, errs, results =>
      if f.errorsAbort ∧ r.errors.length ≠ 0 then
        if f.collectAllErrors then loop f url n (i + 1) rs (errs ++ r.errors) results
        else .error (.err "errors" (asErr r.errors))
      else if f.dataCheck ∧ r.data.isNone then
        if f.collectAllErrors then
          loop f url n (i + 1) rs (errs ++ [some (newError undefinedCode (noDataMsg url))]) results
        else .error (.err "nodata" (.other (noDataMsg url)))
      else if i < n then loop f url n (i + 1) rs errs (results.set i r.data)
      else .error (.panic "index out of range (results[toFetchIndexes[i]])")

/-- `queryBatch` on `n ≥ 1` file-less inputs -/
def queryBatch (f : Facts) (url : String) (n : Nat) (w : Wire) : G (List (Option Obj)) :=
  match fetch f w with
  | .error e => .error e
  | .ok resps =>
    if f.lengthCheck ∧ resps.length ≠ n then .error (.err "count" (.other (countMsg url n resps.length)))
    else loop f url n 0 resps [] (List.replicate n none)

/-- `executeRequests` after `q.Query` returned `k` results for `n` requests (any `Queryer`):
    the count check; without it a short answer leaves nil `*queryerResponse`s that `parseRespones`
    dereferences, a long one finds no index mapping. (De-duplication / id-hint fan-out is C12's:
    here request `i` ↔ result `i`.) -/
def countCheck (f : Facts) (n k : Nat) : G Unit :=
  if k = n then .ok ()
  else if f.executorLenCheck then .error (.err "count-executor" (.other "not all requests were fetched"))
  else if k < n then .error (.panic "nil pointer dereference (queryerResponse)")
  else .error (.err "mapping" (.other "missing mapping for indexes"))

/-- `parseRespones`: the object a step's result is read from. `child` = the step's parent type is
    not a root type, i.e. the answer is wrapped in `node`. -/
def unwrapNode (f : Facts) (child : Bool) (d : Option Obj) : G Obj :=
  if !child then .ok (d.getD [])          -- a nil map is read like an empty one
  else match J.lookup "node" (d.getD []) with
    | none => if f.nodeMissingIsError then .error (.err "node-missing" (.other "missing node key when expected")) else .ok []
    | some .null => .ok []
    | some (.obj o) => .ok o
    | some _ => if f.nodeNotMapIsError then .error (.err "node-not-map" (.other "node is not a map")) else .ok []

/-- the error of a failed unwrap / the object of a successful one -/
def errOf : G Obj → Option GoErr
  | .error (.err _ e) => some e
  | _ => none

def okOf : G Obj → Option Obj
  | .ok o => some o
  | _ => none

@[simp] theorem errOf_ok (o : Obj) : errOf (.ok o) = none := rfl
@[simp] theorem okOf_ok (o : Obj) : okOf (.ok o) = some o := rfl
@[simp] theorem errOf_err (c : String) (e : GoErr) : errOf (.error (.err c e)) = some e := rfl

/-- `parseRespones` unwraps every response (concurrently, through `AsyncMapReduce`) and returns the errors of
    ALL failing ones (here in request order; the reducer's order is a permutation, `C20_exact_once`) -/
def unwrapAll (f : Facts) (cs : List Bool) (ds : List (Option Obj)) : G (List Obj) :=
  let rs := List.zipWith (unwrapNode f) cs ds
  let errs := rs.filterMap errOf
  if errs.isEmpty then .ok (rs.filterMap okOf) else .error (.err "node" (.errorList errs))

/-- one exchange end to end: `queryBatch`, the executor's count check, node unwrapping per request -/
def decodeExchange (f : Facts) (url : String) (child : List Bool) (w : Wire) : G (List Obj) :=
  let n := child.length
  match queryBatch f url n w with
  | .error e => .error e
  | .ok results => match countCheck f n results.length with
    | .error e => .error e
    | .ok () => unwrapAll f child results

end PebblesVerif.QB
