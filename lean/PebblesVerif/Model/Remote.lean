import PebblesVerif.Basic.Schema
import PebblesVerif.Basic.J
import PebblesVerif.Model.GoString
import PebblesVerif.Gen.Remote
/-!
Model of `introspectRemoteSchema` (introspection/remote.go:56-389) from the decoded answer of
the downstream (`resp[0]`, a JSON object) to the `ast.Schema` the function builds **before** it
prints it with gqlparser's formatter and loads the text again. Printing and loading are
gqlparser (not modelled): the correspondence run applies the real formatter + `LoadSchema` to
the model's output and compares after that step; a load error is an outcome class of its own.

Three stages, as in the Go:

* `decode`  — `json.Unmarshal` into the `Introspection*` structs. The JSON member names come
  from the struct tags, regenerated from the source into `Gen/Remote.lean` on every run (so
  `json:"arg"` vs `json:"args"` on the directive arguments is a fact the theorems see).
  Rules modelled: missing member or `null` → zero value; a member of the wrong JSON type →
  error; exact member names only (Go also accepts other capitalisations: outside the model).
* `rebuild` — the two passes over `types`, the directives, the root types.
* Go panics are values: before its repair `parseTypeRef` dereferenced `OfType` without a nil
  check (`Err.panic`; the goroutine it runs in has no `recover`, so a panic is a process crash);
  the repaired tree returns an error (`Err.noOfType`). `noOfTypeErr` picks the one the source has.
Core Lean only.
-/
namespace PebblesVerif.Model.Remote
open PebblesVerif

inductive Err where
  | wrongLength        -- "wrong response length"
  | decode             -- json.Unmarshal error
  | noRootQuery        -- "could not find the root query"
  | noTypeName         -- "could not find type's name"
  | noUnionImpl        -- "could not find type definition for union implementation"
  | noIfaceImpl        -- "Could not find type definition for union implementation"
  | noDirectiveName    -- "could not find directive's name"
  | panic              -- nil pointer dereference in parseTypeRef (before repair)
  | noOfType           -- "could not find the wrapped type of a type reference" (repaired tree)
  deriving Repr, DecidableEq, Inhabited

def Err.tag : Err → String
  | .wrongLength => "wrongLength" | .decode => "decode" | .noRootQuery => "noRootQuery"
  | .noTypeName => "noTypeName" | .noUnionImpl => "noUnionImpl" | .noIfaceImpl => "noIfaceImpl"
  | .noDirectiveName => "noDirectiveName" | .panic => "panic"
  | .noOfType => "noOfType"

/-! ## decoded answer (the Go structs) -/

/-- `*IntrospectionTypeRef` -/
inductive TRef where
  | nil
  | mk (kind name : String) (ofType : TRef)
  deriving Repr, Inhabited, DecidableEq

structure InVal where
  name : String
  desc : String
  dflt : J            -- `DefaultValue interface{}`; `J.null` is the nil interface
  type : TRef         -- a struct value, never nil at top level
  deriving Inhabited

structure FieldA where
  name : String
  desc : String
  args : List InVal
  type : TRef
  deriving Inhabited

structure EnumA where
  name : String
  desc : String
  deriving Inhabited

structure TypeA where
  kind : String
  name : String
  desc : String
  inputFields : List InVal
  interfaces : List TRef
  possibleTypes : List TRef
  fields : List FieldA
  enumValues : List EnumA
  deriving Inhabited

structure DirA where
  name : String
  desc : String
  locations : List String
  args : List InVal
  deriving Inhabited

structure SchemaA where
  queryType : String                 -- `QueryType.Name` (a struct value: "" when null/missing)
  mutationType : Option String       -- pointer
  subscriptionType : Option String
  types : List TypeA
  directives : List DirA
  deriving Inhabited

/-! ## `json.Unmarshal` -/

def decStr : Option J → Except Err String
  | none | some .null => pure ""
  | some (.str s) => pure s
  | _ => throw .decode

def decBool : Option J → Except Err Bool
  | none | some .null => pure false
  | some (.bool b) => pure b
  | _ => throw .decode

def decList (f : J → Except Err α) : Option J → Except Err (List α)
  | none | some .null => pure []
  | some (.arr xs) => xs.mapM f
  | _ => throw .decode

mutual
  /-- a `*IntrospectionTypeRef` member -/
  def decTRef : J → Except Err TRef
    | .null => pure .nil
    | .obj kvs => do
      let (k, n, o) ← decTRefKvs kvs
      pure (.mk k n o)
    | _ => throw .decode
  def decTRefKvs : List (String × J) → Except Err (String × String × TRef)
    | [] => pure ("", "", .nil)
    | (key, v) :: rest => do
      let (k, n, o) ← decTRefKvs rest
      if key = Gen.Remote.keyTypeRefKind then do pure ((← decStr (some v)), n, o)
      else if key = Gen.Remote.keyTypeRefName then do pure (k, (← decStr (some v)), o)
      else if key = Gen.Remote.keyTypeRefOfType then do pure (k, n, (← decTRef v))
      else pure (k, n, o)
end

/-- an `IntrospectionTypeRef` struct value (`null` or missing leaves the zero struct) -/
def decTRefVal : Option J → Except Err TRef
  | none | some .null => pure (.mk "" "" .nil)
  | some j => decTRef j

/-- struct value: `null` leaves the zero value, a non-object is an error -/
def asStruct : J → Except Err (Option J)
  | .null => pure none
  | .obj kvs => pure (some (.obj kvs))
  | _ => throw .decode

def fld (o : Option J) (k : String) : Option J :=
  match o with
  | some j => j.get? k
  | none => none

def decInVal (j : J) : Except Err InVal := do
  let o ← asStruct j
  pure { name := ← decStr (fld o Gen.Remote.keyInputName), desc := ← decStr (fld o Gen.Remote.keyInputDescription),
         dflt := (fld o Gen.Remote.keyInputDefault).getD .null, type := ← decTRefVal (fld o Gen.Remote.keyInputType) }

def decField (j : J) : Except Err FieldA := do
  let o ← asStruct j
  let _ ← decBool (fld o Gen.Remote.keyFieldIsDeprecated)
  let _ ← decStr (fld o Gen.Remote.keyFieldDeprecationReason)
  pure { name := ← decStr (fld o Gen.Remote.keyFieldName), desc := ← decStr (fld o Gen.Remote.keyFieldDescription),
         args := ← decList decInVal (fld o Gen.Remote.keyFieldArgs), type := ← decTRefVal (fld o Gen.Remote.keyFieldType) }

def decEnum (j : J) : Except Err EnumA := do
  let o ← asStruct j
  let _ ← decBool (fld o Gen.Remote.keyEnumIsDeprecated)
  let _ ← decStr (fld o Gen.Remote.keyEnumDeprecationReason)
  pure { name := ← decStr (fld o Gen.Remote.keyEnumName), desc := ← decStr (fld o Gen.Remote.keyEnumDescription) }

def decTRefElem (j : J) : Except Err TRef := decTRefVal (some j)

def decType (j : J) : Except Err TypeA := do
  let o ← asStruct j
  pure { kind := ← decStr (fld o Gen.Remote.keyTypeKind), name := ← decStr (fld o Gen.Remote.keyTypeName),
         desc := ← decStr (fld o Gen.Remote.keyTypeDescription),
         inputFields := ← decList decInVal (fld o Gen.Remote.keyTypeInputFields),
         interfaces := ← decList decTRefElem (fld o Gen.Remote.keyTypeInterfaces),
         possibleTypes := ← decList decTRefElem (fld o Gen.Remote.keyTypePossibleTypes),
         fields := ← decList decField (fld o Gen.Remote.keyTypeFields),
         enumValues := ← decList decEnum (fld o Gen.Remote.keyTypeEnumValues) }

def decStrElem (j : J) : Except Err String := decStr (some j)

def decDir (j : J) : Except Err DirA := do
  let o ← asStruct j
  pure { name := ← decStr (fld o Gen.Remote.keyDirName), desc := ← decStr (fld o Gen.Remote.keyDirDescription),
         locations := ← decList decStrElem (fld o Gen.Remote.keyDirLocations),
         args := ← decList decInVal (fld o Gen.Remote.keyDirArgs) }

/-- `IntrospectionQueryRootType` behind a pointer: `none` = nil -/
def decRootPtr : Option J → Except Err (Option String)
  | none | some .null => pure none
  | some (.obj kvs) => do pure (some (← decStr (J.lookup Gen.Remote.keyRootName kvs)))
  | _ => throw .decode

/-- `IntrospectionQueryRootType` by value -/
def decRootVal (o : Option J) : Except Err String := do
  pure ((← decRootPtr o).getD "")

/-- the `__schema` member: `none` = nil pointer -/
def decode (resp : J) : Except Err (Option SchemaA) :=
  match resp with
  | .obj kvs =>
    match J.lookup Gen.Remote.keySchema kvs with
    | none | some .null => pure none
    | some (.obj skvs) => do
      let o := some (J.obj skvs)
      pure (some { queryType := ← decRootVal (fld o Gen.Remote.keySchemaQueryType),
                   mutationType := ← decRootPtr (fld o Gen.Remote.keySchemaMutationType),
                   subscriptionType := ← decRootPtr (fld o Gen.Remote.keySchemaSubscriptionType),
                   types := ← decList decType (fld o Gen.Remote.keySchemaTypes),
                   directives := ← decList decDir (fld o Gen.Remote.keySchemaDirectives) })
    | _ => throw .decode
  | _ => throw .decode   -- `resp[0]` is a Go map: always an object

/-! ## `parseTypeRef`, `parseInputField`, `parseArgList`, `parseType` -/

/-- what a LIST / NON_NULL reference without `ofType` ends in: `parseTypeRef` of the repaired tree
    guards `response == nil` and `response.OfType == nil` and returns an error; before the repair it
    dereferenced nil in a goroutine without `recover` (a process crash). Which of the two the source
    does is a regenerated fact. -/
def noOfTypeErr : Err := if Gen.Remote.typeRefNilChecked then .noOfType else .panic

/-- `parseTypeRef` -/
def parseTypeRef : TRef → Except Err TypeRef
  | .nil => throw noOfTypeErr
  | .mk k n o =>
    if k = "NON_NULL" then
      match o with
      | .nil => throw noOfTypeErr                  -- response.OfType == nil
      | .mk k2 n2 o2 =>
        if k2 = "LIST" then do pure (.nonNull (.list (← parseTypeRef o2)))
        else pure (.nonNull (.named n2))           -- NonNullNamedType(response.OfType.Name)
    else if k = "LIST" then do pure (.list (← parseTypeRef o))
    else pure (.named n)

inductive VKind where | int | float | bool | string
  deriving DecidableEq

def vkindOf (named : String) : VKind :=
  if named = "Int" then .int else if named = "Float" then .float else if named = "Boolean" then .bool else .string

/-- `Value.String()` of a scalar `ast.Value{Raw, Kind}` -/
def renderScalar (k : VKind) (raw : String) : String :=
  match k with
  | .string => GoString.goQuote raw
  | _ => raw

/-- `raw := json.Marshal(v); if kind == StringValue && len(raw) > 2 { raw = raw[1:len(raw)-1] }` -/
def rawOf (k : VKind) (v : J) : String :=
  let b := GoString.jsonMarshal v
  if k = .string ∧ b.utf8ByteSize > 2 then GoString.stripOuter b else b

/-- `parseInputField`'s default: `none` when the field ends up without `DefaultValue` -/
def inputDefault (t : TypeRef) (d : J) : Option String :=
  match d with
  | .null => none
  | _ =>
    let k := vkindOf t.name
    if t.isList then
      match d with
      | .arr xs => some ("[" ++ GoString.joinWith "," (xs.map (fun x => renderScalar k (rawOf k x))) ++ "]")
      | _ => none
    else some (renderScalar k (rawOf k d))

def parseInputField (v : InVal) : Except Err FieldDef := do
  let t ← parseTypeRef v.type
  pure { name := v.name, args := [], type := t, default := inputDefault t v.dflt, desc := v.desc }

/-- `parseArgList`: the default value is not read -/
def parseArg (v : InVal) : Except Err ArgDef := do
  pure { name := v.name, type := ← parseTypeRef v.type, default := none, desc := v.desc }

/-- the names `parseType` skips ("it'll be lately added by gqlparser"), regenerated from the source -/
def builtinTypeNames : List String := Gen.Remote.skipTypeNames

def kindOf? (s : String) : Option Kind :=
  match s with
  | "OBJECT" => some .object | "SCALAR" => some .scalar | "INTERFACE" => some .interface
  | "UNION" => some .union | "INPUT_OBJECT" => some .inputObject | "ENUM" => some .enum
  | _ => none

/-- `parseType`: `none` for the names gqlparser adds itself. The flag says that `kind` was none
    of the six kinds: Go leaves `Definition.Kind == ""` and goes on; the shared `Kind` type has no
    such value, so the model goes on with a placeholder kind and returns the names of these
    definitions beside the schema (`Rebuilt.unknownKind`; the correspondence run blanks their
    kind before printing, so that gqlparser's printer and loader decide as they do for Go). -/
def parseType (rt : TypeA) : Except Err (Option (TypeDef × Bool)) :=
  if builtinTypeNames.contains rt.name then pure none else do
    let fs ← rt.fields.mapM (fun f => do
      pure ({ name := f.name, type := ← parseTypeRef f.type, desc := f.desc, args := ← f.args.mapM parseArg } : FieldDef))
    let ins ← rt.inputFields.mapM parseInputField
    let (k, bad) := match kindOf? rt.kind with
      | none => (Kind.scalar, true)
      | some k => (k, false)
    pure (some ({ name := rt.name, kind := k, desc := rt.desc, fields := fs ++ ins,
                  enumValues := if k == .enum then rt.enumValues.map (fun e => { name := e.name, desc := e.desc }) else [] }, bad))

/-! ## the two passes -/

abbrev TypeMap := List (String × TypeDef)
abbrev PossMap := List (String × List String)

def tmGet (m : TypeMap) (n : String) : Option TypeDef := (m.find? (fun kv => kv.1 == n)).map (·.2)

def tmSet (n : String) (d : TypeDef) : TypeMap → TypeMap
  | [] => [(n, d)]
  | (k, v) :: rest => if k == n then (n, d) :: rest else (k, v) :: tmSet n d rest

def pmGet (m : PossMap) (n : String) : List String :=
  match m.find? (fun kv => kv.1 == n) with
  | some kv => kv.2
  | none => []

/-- `schema.AddPossibleType(name, def)` -/
def pmAdd (n : String) (d : String) : PossMap → PossMap
  | [] => [(n, [d])]
  | (k, v) :: rest => if k == n then (k, v ++ [d]) :: rest else (k, v) :: pmAdd n d rest

def TRef.name : TRef → String
  | .nil => ""
  | .mk _ n _ => n

structure Roots where
  query : Option String := none
  mutation : Option String := none
  subscription : Option String := none
  badKind : List String := []

/-- first loop over `remoteSchema.Types` -/
def pass1 (a : SchemaA) : List TypeA → TypeMap → Roots → Except Err (TypeMap × Roots)
  | [], tm, r => pure (tm, r)
  | rt :: rest, tm, r => do
    match ← parseType rt with
    | none => pass1 a rest tm r
    | some (d, bad) =>
      let r : Roots := { r with badKind := if bad then r.badKind ++ [d.name] else r.badKind }
      let r' : Roots :=
        if rt.name = a.queryType then { r with query := some d.name }
        else if a.mutationType = some d.name then { r with mutation := some d.name }
        else if a.subscriptionType = some d.name then { r with subscription := some d.name }
        else r
      pass1 a rest (tmSet d.name d tm) r'

/-- `for _, possibleType := range remoteType.PossibleTypes` -/
def possLoop (owner : String) : List TRef → TypeMap → PossMap → Except Err PossMap
  | [], _, pm => pure pm
  | p :: rest, tm, pm =>
    if p.name = "" then throw .noTypeName else
    match tmGet tm p.name with
    | none => throw .noUnionImpl
    | some _ => possLoop owner rest tm (pmAdd owner p.name pm)

/-- `for _, iface := range remoteType.Interfaces` (appends to the type's `Interfaces`) -/
def ifaceLoop (owner : String) : List TRef → TypeMap → PossMap → Except Err (TypeMap × PossMap)
  | [], tm, pm => pure (tm, pm)
  | i :: rest, tm, pm =>
    if i.name = "" then throw .noTypeName else
    match tmGet tm owner with
    | none => pure (tm, pm)        -- unreachable: the caller found the owner
    | some d =>
      let tm' := tmSet owner { d with interfaces := d.interfaces ++ [i.name] } tm
      match tmGet tm' i.name with
      | none => throw .noIfaceImpl
      | some _ => ifaceLoop owner rest tm' (pmAdd i.name owner pm)

/-- second loop over `remoteSchema.Types` -/
def pass2 : List TypeA → TypeMap → PossMap → Except Err (TypeMap × PossMap)
  | [], tm, pm => pure (tm, pm)
  | rt :: rest, tm, pm =>
    match tmGet tm rt.name with
    | none => pass2 rest tm pm
    | some _ => do
      let pm1 ← possLoop rt.name rt.possibleTypes tm pm
      let (tm2, pm2) ← ifaceLoop rt.name rt.interfaces tm pm1
      let tm3 :=
        match tmGet tm2 rt.name with
        | some d => if d.kind == .union && d.members.isEmpty then tmSet rt.name { d with members := pmGet pm2 rt.name } tm2 else tm2
        | none => tm2
      pass2 rest tm3 pm2

abbrev DirMap := List (String × DirDef)

def dmSet (n : String) (d : DirDef) : DirMap → DirMap
  | [] => [(n, d)]
  | (k, v) :: rest => if k == n then (n, d) :: rest else (k, v) :: dmSet n d rest

def dirLoop : List DirA → DirMap → Except Err DirMap
  | [], dm => pure dm
  | d :: rest, dm =>
    if d.name = "" then throw .noDirectiveName
    else if Gen.Remote.skipDirectiveNames.contains d.name then dirLoop rest dm
    else do
      let args ← d.args.mapM parseArg
      dirLoop rest (dmSet d.name { name := d.name, desc := d.desc, args := args, locations := d.locations } dm)

structure Rebuilt where
  schema : Schema
  unknownKind : List String := []   -- definitions whose `Kind` is "" in Go

/-- the schema handed to `formatSchema` (types and directives in first-insertion order; the
    formatter prints them sorted by name) -/
def rebuildA (a : SchemaA) : Except Err Rebuilt := do
  let (tm, roots) ← pass1 a a.types [] {}
  let (tm2, _) ← pass2 a.types tm []
  let dm ← dirLoop a.directives []
  pure { schema := { types := tm2.map (·.2), directives := dm.map (·.2),
                     query := roots.query, mutation := roots.mutation, subscription := roots.subscription },
         unknownKind := roots.badKind }

/-- `introspectRemoteSchema` up to (excluding) `formatSchema` / `gqlparser.LoadSchema` -/
def rebuild (resp : J) : Except Err Rebuilt := do
  match ← decode resp with
  | none => throw .noRootQuery
  | some a => if a.queryType = "" then throw .noRootQuery else rebuildA a

/-- `parseQueryerResponse` on the whole downstream answer -/
def rebuildResp (resp : List J) : Except Err Rebuilt :=
  match resp with
  | [r] => rebuild r
  | _ => throw .wrongLength

end PebblesVerif.Model.Remote
