import PebblesVerif.Basic.J
/-!
Model of the executor's merge functions (executor/utils.go `mergeMaps`, `mergeSlices`,
`getLeftEntityPosition`, `mergeOrRewriteMap`; executor/depth_executor_manager.go `merge`, the
per-key loop) on `J` values. Go maps are association lists with unique keys; the functions are
written as `mutual` structural recursion over the RIGHT operand (the value being merged in).

Go facts kept literal:
* `lID == id` (before `repo_fixes/faults-5`) compares two `interface{}` values: different dynamic types
  are unequal, equal uncomparable dynamic types (`map`, `[]interface{}`) PANIC at run time —
  `Except.error`; the parameter `safe` (regenerated fact `safeIdCompare`) selects `reflect.DeepEqual`.
* `mergeSlices` appends to the left slice while it iterates, and `rIdx < len(lSlice)` reads the
  current length.
* a value that is not (map, map) or (slice, slice) overwrites.
-/
namespace PebblesVerif.ResultMerge
open PebblesVerif

/-- a Go run-time panic (message) -/
abbrev P := Except String

mutual
  /-- `reflect.DeepEqual` on decoded JSON (maps compare as maps: order of the bindings is irrelevant) -/
  def deepEq : J → J → Bool
    | .null, .null => true
    | .bool a, .bool b => a == b
    | .num a, .num b => a == b
    | .str a, .str b => a == b
    | .arr a, .arr b => deepEqL a b
    | .obj a, .obj b => a.length == b.length && deepEqO a b
    | _, _ => false
  def deepEqL : List J → List J → Bool
    | [], [] => true
    | x :: xs, y :: ys => deepEq x y && deepEqL xs ys
    | _, _ => false
  def deepEqO : List (String × J) → List (String × J) → Bool
    | [], _ => true
    | (k, v) :: rest, b => (match J.lookup k b with
        | some v' => deepEq v v'
        | none => false) && deepEqO rest b
end

/-- the id comparison of `getLeftEntityPosition`. `safe = false`: Go `==` on two `interface{}` holding
    decoded JSON (the code before `repo_fixes/faults-5`) — PANICS on two maps or two slices;
    `safe = true`: `reflect.DeepEqual`. -/
def goEq (safe : Bool) : J → J → P Bool
  | .null, .null => .ok true
  | .bool a, .bool b => .ok (a == b)
  | .num a, .num b => .ok (a == b)
  | .str a, .str b => .ok (a == b)
  | .arr a, .arr b =>
    if safe then .ok (deepEqL a b) else .error "runtime error: comparing uncomparable type []interface {}"
  | .obj a, .obj b =>
    if safe then .ok (a.length == b.length && deepEqO a b)
    else .error "runtime error: comparing uncomparable type map[string]interface {}"
  | _, _ => .ok false

/-- `getLeftEntityPosition`: index of the first map in `left` whose `id` equals `id` -/
def leftPos (safe : Bool) (id : J) : List J → Nat → P (Option Nat)
  | [], _ => .ok none
  | .obj kvs :: rest, i =>
    match J.lookup "id" kvs with
    | some lid => match goEq safe lid id with
      | .error e => .error e
      | .ok true => .ok (some i)
      | .ok false => leftPos safe id rest (i + 1)
    | none => leftPos safe id rest (i + 1)
  | _ :: rest, i => leftPos safe id rest (i + 1)

/-- position of the left entity with the same `id`, if the right map has an `id` -/
def posOf (safe : Bool) (rv : J) (left : List J) : P (Option Nat) :=
  match rv.get? "id" with
  | some rid => leftPos safe rid left 0
  | none => .ok none

mutual
  /-- what ends up under a key / at an index when `r` is merged onto `l`: (map, map) ⇒ `mergeMaps`,
      (slice, slice) ⇒ `mergeSlices`, anything else ⇒ `r` -/
  def mergeVal (safe : Bool) (l : Option J) : J → P J
    | .obj rkvs => match l with
      | some (.obj lkvs) => match mergeObj safe lkvs rkvs with
        | .error e => .error e
        | .ok m => .ok (.obj m)
      | _ => .ok (.obj rkvs)
    | .arr rs => match l with
      | some (.arr ls) => match mergeArr safe ls 0 rs with
        | .error e => .error e
        | .ok m => .ok (.arr m)
      | _ => .ok (.arr rs)
    | v => .ok v
  /-- `mergeMaps(left, right)` -/
  def mergeObj (safe : Bool) (left : List (String × J)) : List (String × J) → P (List (String × J))
    | [] => .ok left
    | (k, rv) :: rest => match mergeVal safe (J.lookup k left) rv with
      | .error e => .error e
      | .ok v => mergeObj safe (J.setKey k v left) rest
  /-- `mergeSlices(lSlice, rSlice)`, the loop from index `rIdx` on -/
  def mergeArr (safe : Bool) (left : List J) (rIdx : Nat) : List J → P (List J)
    | [] => .ok left
    | rv :: rest =>
      if rv.isObj then
        match posOf safe rv left with
        | .error e => .error e
        | .ok (some pos) => match mergeVal safe left[pos]? rv with
          | .error e => .error e
          | .ok v => mergeArr safe (left.set pos v) (rIdx + 1) rest
        | .ok none =>
          if rIdx < left.length then match mergeVal safe left[rIdx]? rv with
            | .error e => .error e
            | .ok v => mergeArr safe (left.set rIdx v) (rIdx + 1) rest
          else mergeArr safe (left ++ [rv]) (rIdx + 1) rest
      else mergeArr safe (left ++ [rv]) (rIdx + 1) rest
end

/-- one key of the per-key loop of `DepthExecutorManager.merge`: (map, map) ⇒ `mergeMaps`, anything
    else overwrites (lists are NOT merged at this level) -/
def topVal (safe : Bool) (l : Option J) (v : J) : P J :=
  match v, l with
  | .obj rkvs, some (.obj lkvs) => match mergeObj safe lkvs rkvs with
    | .error e => .error e
    | .ok m => .ok (.obj m)
  | _, _ => .ok v

/-- the per-key loop of `DepthExecutorManager.merge` -/
def mergeTop (safe : Bool) (target : List (String × J)) : List (String × J) → P (List (String × J))
  | [] => .ok target
  | (k, v) :: rest => match topVal safe (J.lookup k target) v with
    | .error e => .error e
    | .ok v' => mergeTop safe (J.setKey k v' target) rest

/-- all step results of an execution merged at the root, in order -/
def mergeAll (safe : Bool) (target : List (String × J)) : List (List (String × J)) → P (List (String × J))
  | [] => .ok target
  | r :: rs => match mergeTop safe target r with
    | .error e => .error e
    | .ok t => mergeAll safe t rs

mutual
  /-- scalar leaves (strings, numbers, booleans) of a value -/
  def leaves : J → List J
    | .arr xs => leavesL xs
    | .obj kvs => leavesO kvs
    | .null => []
    | v => [v]
  def leavesL : List J → List J
    | [] => []
    | x :: xs => leaves x ++ leavesL xs
  def leavesO : List (String × J) → List J
    | [] => []
    | (_, v) :: rest => leaves v ++ leavesO rest
end

def leavesOpt : Option J → List J
  | none => []
  | some v => leaves v

end PebblesVerif.ResultMerge
