import PebblesVerif.Basic.J
import PebblesVerif.Basic.Ast
import PebblesVerif.Model.Point
import PebblesVerif.Gen.FindSelection
import PebblesVerif.Gen.Nulls
/-!
Model of the result-tree operations of the executor (executor/utils.go: mergeMaps, mergeSlices;
executor/result.go: ExtractValueModifyingSource, FindInsertionPoints, extractID;
executor/selection_set.go: FindSelection; executor/depth_executor_manager.go: merge).
The Go mutates `dem.result` in place; the model threads the result tree explicitly (§4.3 b).
-/
namespace PebblesVerif.ResultOps
open PebblesVerif PebblesVerif.Point

/-- Go `==` on two decoded JSON scalars (`lID == id` in getLeftEntityPosition) -/
def scalarEq : J → J → Bool
  | .str a, .str b => a == b
  | .num a, .num b => a == b
  | .bool a, .bool b => a == b
  | .null, .null => true
  | _, _ => false

def idOf (kvs : List (String × J)) : Option J := J.lookup "id" kvs

/-- `getLeftEntityPosition` -/
def leftEntityPosition (left : List J) (id : J) : Option Nat :=
  left.findIdx? (fun lv => match lv with
    | .obj kvs => match idOf kvs with
      | some lid => scalarEq lid id
      | none => false
    | _ => false)

mutual
  /-- `mergeMaps left right` (right wins on conflicts; objects and lists merge recursively) -/
  def mergeMaps (left : List (String × J)) : List (String × J) → List (String × J)
    | [] => left
    | (k, rv) :: rest =>
      let left' := match J.lookup k left with
        | some lv => J.setKey k (mergeVal lv rv) left
        | none => left ++ [(k, rv)]
      mergeMaps left' rest
  /-- the per-key rule of `mergeMaps` -/
  def mergeVal : J → J → J
    | .obj l, .obj r => .obj (mergeMaps l r)
    | .arr l, .arr r => .arr (mergeSlices l r 0)
    | _, r => r
  /-- `mergeSlices lSlice rSlice` (`rIdx` = position of the head of the remaining right slice) -/
  def mergeSlices (l : List J) : List J → Nat → List J
    | [], _ => l
    | rv :: rest, rIdx =>
      let l' := match rv with
        | .obj rkvs =>
          let byIndex : List J :=
            if rIdx < l.length then
              l.set rIdx (match l[rIdx]? with
                | some (.obj lk) => .obj (mergeMaps lk rkvs)
                | _ => rv)
            else l ++ [rv]
          match idOf rkvs with
          | some rid =>
            match leftEntityPosition l rid with
            | some pos => l.set pos (match l[pos]? with
                | some (.obj lk) => .obj (mergeMaps lk rkvs)
                | _ => rv)
            | none => byIndex
          | none => byIndex
        | _ => l ++ [rv]
      mergeSlices l' rest (rIdx + 1)
end

/-- the loop body of `DepthExecutorManager.merge`: `for k, v := range res.Result` -/
def mergeInto (target res : List (String × J)) : List (String × J) :=
  res.foldl (fun t (k, v) =>
    match v, J.lookup k t with
    | .obj v1, some (.obj v2) => J.setKey k (.obj (mergeMaps v2 v1)) t
    | _, _ => J.setKey k v t) target

/-- `ExtractValueModifyingSource` followed by an update of the focused object: navigate `path`
    from `source`, creating missing lists/objects on the way, apply `f` to the object reached. -/
def updateAt (f : List (String × J) → List (String × J)) :
    List String → List (String × J) → G (List (String × J))
  | [], recent => .ok (f recent)
  | point :: rest, recent => do
    let pd ← Point.extract point
    if Point.isListElement point then
      let fieldVal := (J.lookup pd.field recent).getD (.arr [])
      match fieldVal, pd.index with
      | .arr targetList, some idx =>
        let padded := if targetList.length ≤ idx
          then targetList ++ List.replicate (idx + 1 - targetList.length) (.obj []) else targetList
        match padded[idx]? with
        | some (.obj elem) => do
          let elem' ← updateAt f rest elem
          .ok (J.setKey pd.field (.arr (padded.set idx (.obj elem'))) recent)
        | _ => .error (.err "did not encounter a map when expected")
      | .arr _, none => .error (.panic "index out of range [-1]")
      | _, _ => .error (.err "did not encounter a list when expected")
    else
      let target := match J.lookup pd.field recent with
        | some .null | none => J.obj []
        | some v => v
      match target with
      | .obj o => do
        let o' ← updateAt f rest o
        .ok (J.setKey pd.field (.obj o') recent)
      | _ => .error (.err "did not encounter a map when expected")

def displayName : Sel → String
  | .field a n _ _ _ _ _ => if a != "" then a else n
  | _ => ""

mutual
  /-- `FindSelection` before the repair: depth-first (pre-order) search by response name over the
      whole selection set — a deeper, earlier field with the same response name wins -/
  def findSelectionDF (name : String) : List Sel → Option Sel
    | [] => none
    | s :: rest =>
      match findSelectionDFSel name s with
      | some f => some f
      | none => findSelectionDF name rest
  def findSelectionDFSel (name : String) : Sel → Option Sel
    | .field a n args dirs t ad sub =>
      if (if a != "" then a else n) == name then some (.field a n args dirs t ad sub)
      else findSelectionDF name sub
    | .inline _ _ _ _ sub => findSelectionDF name sub
    | .spread .. => none
end

mutual
  /-- first loop of `FindSelection`: the fields of THIS level (`common.SelectionSetToFields`:
      inline fragments expanded in place, spreads ignored), by response name -/
  def findLevel (name : String) : List Sel → Option Sel
    | [] => none
    | s :: rest =>
      match findLevelSel name s with
      | some f => some f
      | none => findLevel name rest
  def findLevelSel (name : String) : Sel → Option Sel
    | .field a n args dirs t ad sub =>
      if (if a != "" then a else n) == name then some (.field a n args dirs t ad sub) else none
    | .inline _ _ _ _ sub => findLevel name sub
    | .spread .. => none
end

mutual
  /-- second loop of `FindSelection`: below each field of this level, in order — again level first -/
  def findDeep (name : String) : List Sel → Option Sel
    | [] => none
    | s :: rest =>
      match findDeepSel name s with
      | some f => some f
      | none => findDeep name rest
  def findDeepSel (name : String) : Sel → Option Sel
    | .field _ _ _ _ _ _ sub =>
      match findLevel name sub with
      | some f => some f
      | none => findDeep name sub
    | .inline _ _ _ _ sub => findDeep name sub
    | .spread .. => none
end

/-- `FindSelection` after the repair: a field of this level wins over a deeper one -/
def findSelectionLF (name : String) (ss : List Sel) : Option Sel :=
  match findLevel name ss with
  | some f => some f
  | none => findDeep name ss

/-- `executor.FindSelection`; which of the two searches the code performs is a regenerated fact -/
def findSelection (name : String) (ss : List Sel) : Option Sel :=
  if Gen.FindSelection.levelFirst then findSelectionLF name ss else findSelectionDF name ss

/-- the search finds a field standing first at the current level under its own response name
    (either shape of the code) -/
theorem findSelection_head (a n : String) (args : List Arg) (dirs : List Dir) (t : TypeRef) (ad : List ArgDef)
    (sub rest : List Sel) (name : String) (h : (if a != "" then a else n) = name) :
    findSelection name (.field a n args dirs t ad sub :: rest) = some (.field a n args dirs t ad sub) := by
  subst h
  unfold findSelection
  split
  · simp [findSelectionLF, findLevel, findLevelSel]
  · simp [findSelectionDF, findSelectionDFSel]

/-- a leaf field (no sub-selection) with another response name is passed over (either shape) -/
theorem findSelection_skip_leaf (a n : String) (args : List Arg) (dirs : List Dir) (t : TypeRef) (ad : List ArgDef)
    (rest : List Sel) (name : String) (h : ((if a != "" then a else n) == name) = false) :
    findSelection name (.field a n args dirs t ad [] :: rest) = findSelection name rest := by
  unfold findSelection
  split
  · simp only [findSelectionLF, findLevel, findLevelSel, h, findDeep, findDeepSel]
    simp
  · simp only [findSelectionDF, findSelectionDFSel, h]
    simp

def selType : Sel → TypeRef
  | .field _ _ _ _ t _ _ => t
  | _ => .named ""

def selSub : Sel → List Sel
  | .field _ _ _ _ _ _ s => s
  | .inline _ _ _ _ s => s
  | .spread _ _ _ _ _ s => s

/-- `%v` of a decoded JSON id -/
def fmtID : J → String
  | .str s => s
  | .num r => r
  | .bool b => if b then "true" else "false"
  | .null => "<nil>"
  | _ => "?"

/-- `extractID`: `.ok none` = "only `__typename`" (the caller then returns NO points at all) -/
def extractID (obj : List (String × J)) : G (Option String) :=
  match J.lookup "id" obj with
  | some id => .ok (some (fmtID id))
  | none =>
    if (J.lookup "__typename" obj).isSome && obj.length == 1 then .ok none
    else .error (.err "could not find the id for elements in target list")

/-- `FindInsertionPoints` for the single starting branch every caller passes. `remaining` = the
    target points still to be realised, `chunk` = the current result chunk, `branch` = the realised
    insertion point so far. Returns every realised insertion point, in document order; `[]` =
    nothing to stitch (also when an element only carries `__typename`).

    `skipNull` = the guard `if iEntry == nil { continue }` stands in the element loop: a `null`
    element of a list on the path is passed over — the other elements keep their indices; without
    the guard (before the repair) it fails the call like any other non-map element. -/
def findIPW (skipNull : Bool) : List String → List Sel → List (String × J) → List String → G (List (List String))
  | [], _, _, branch => .ok [branch]
  | point :: rest, selRoot, chunk, branch =>
    match findSelection point selRoot with
    | none => .ok []
    | some found =>
      match J.lookup point chunk with
      | none => .ok []
      | some .null =>
        if (selType found).isNonNull then .error (.err "received null for required field") else .ok []
      | some rootValue =>
        let last := rest.isEmpty
        if (selType found).isList then
          match rootValue with
          | .arr entries =>
            -- each entry contributes; an entry with only `__typename` at the last point aborts with NO points
            let rec go (es : List J) (i : Nat) (acc : List (List String)) : G (Option (List (List String))) :=
              match es with
              | [] => .ok (some acc)
              | .obj entry :: es' => do
                let idPart ← (if last then extractID entry else .ok (some ""))
                match idPart with
                | none => .ok none
                | some id =>
                  let ep := Point.encodeList (displayName found) i (if last then some id else none)
                  let sub ← findIPW skipNull rest (selSub found) entry (branch ++ [ep])
                  go es' (i + 1) (acc ++ sub)
              | .null :: es' =>
                -- `if iEntry == nil { continue }`: the element is passed over and keeps its place — the
                -- index still advances; without the guard it fails like any non-map
                if skipNull then go es' (i + 1) acc
                else .error (.err "entry in result wasn't a map")
              | _ :: _ => .error (.err "entry in result wasn't a map")
            do
              let r ← go entries 0 []
              .ok (r.getD [])
          | _ => .error (.err "root value of result chunk was not a list")
        else
          let chunk' := match rootValue with
            | .obj o => o
            | _ => chunk
          if last then
            match rootValue with
            | .arr entries =>
              -- value is a list although the type is not: indexed by branch number (0)
              match entries with
              | .obj e :: _ => do
                match ← extractID e with
                | none => .ok []
                | some id => .ok [branch ++ [point ++ ":0#" ++ id]]
              | [] => .error (.panic "index out of range [0] with length 0")
              | _ => .error (.err "item in root list isn't a map")
            | .obj o => do
              match ← extractID o with
              | none => .ok []
              | some id => .ok [branch ++ [point ++ "#" ++ id]]
            | _ => .error (.err "root value of result chunk was not an object")
          else findIPW skipNull rest (selSub found) chunk' (branch ++ [point])

/-- `FindInsertionPoints` as the code reads now: whether the element loop passes over `null`
    elements is a regenerated fact (`Gen.Nulls.findIPSkipsNullElements`, read from
    executor/result.go on every run) -/
@[reducible] def findIP : List String → List Sel → List (String × J) → List String → G (List (List String)) :=
  findIPW Gen.Nulls.findIPSkipsNullElements

end PebblesVerif.ResultOps
