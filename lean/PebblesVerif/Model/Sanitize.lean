import PebblesVerif.Basic.Ast
import PebblesVerif.Basic.Tum
/-!
Model of `planner.sanitizeSelectionSet` (planner/sanitize_selection_set.go) and the
`ScrubFields` bookkeeping (planner/scrub_fields.go: Set / Merge).

Pure (DESIGN §4.3): the Go rewrites field nodes in place, including inside a fragment
DEFINITION while expanding a spread; the model is exact for operations in which each named
fragment is spread at most once.

Go panics are values: `addScrubFieldsToSelectionSet` indexes `pt[0]` for an abstract type —
an interface/union without members panics (inside an AsyncMapReduce goroutine: process exit).
-/
namespace PebblesVerif

inductive Fault where
  | err (msg : String)
  | panic (what : String)
  deriving Repr, Inhabited, DecidableEq

abbrev G := Except Fault

def isBuiltinName (s : String) : Bool := s.startsWith "__"
def isRootName (s : String) : Bool := s == "Query" || s == "Mutation" || s == "Subscription"
def internalService : String := "%#!"

/-- planning context: what `PlanningContext` carries and the planner reads -/
structure PCtx where
  schema : Schema
  tum : Tum
  opKind : OpKind
  opName : String

/-- `ScrubFields`: path ↦ type name ↦ field names. The Go key is `strings.Join(path, ".")`. -/
abbrev Scrub := List (List String × List (String × List String))

namespace Scrub
def uniqAppend (l : List String) (x : String) : List String := if l.contains x then l else l ++ [x]

/-- `ScrubFields.Set` -/
def set (sf : Scrub) (path : List String) (typename fieldname : String) : Scrub :=
  match sf.find? (·.1 == path) with
  | none => sf ++ [(path, [(typename, [fieldname])])]
  | some _ => sf.map (fun (p, tm) =>
      if p == path then
        (p, match tm.find? (·.1 == typename) with
          | none => tm ++ [(typename, [fieldname])]
          | some _ => tm.map (fun (t, fs) => if t == typename then (t, uniqAppend fs fieldname) else (t, fs)))
      else (p, tm))

/-- `ScrubFields.Merge` -/
def merge (sf other : Scrub) : Scrub :=
  other.foldl (fun acc (p, tm) =>
    tm.foldl (fun acc (t, fs) => fs.foldl (fun acc f => set acc p t f) acc) acc) sf
end Scrub

/-- the helper `id` field the planner synthesises (planner/sequential_planner.go:373) -/
def idField : Sel := .field "" "id" [] [] (.nonNull (.named "id")) [] []
/-- the helper `__typename` field (sequential_planner.go:387) -/
def typenameField : Sel := .field "" "__typename" [] [] (.named "String") [] []

mutual
  /-- `isContainsField`: a field with that NAME anywhere below, looking through inline fragments -/
  def containsField (name : String) : List Sel → Bool
    | [] => false
    | s :: rest => containsFieldSel name s || containsField name rest
  def containsFieldSel (name : String) : Sel → Bool
    | .field _ n _ _ _ _ _ => n == name
    | .inline _ _ _ _ sub => containsField name sub
    | .spread .. => false
end

/-- `selectionSetHasFieldNamed` (top level only, by NAME) -/
def hasFieldNamed (ss : List Sel) (name : String) : Bool :=
  ss.any (fun s => match s with | .field _ n _ _ _ _ _ => n == name | _ => false)

/-- `selectionSetHasFieldAliased` (top level only, by response key as stored in `Alias`) -/
def hasFieldAliased (ss : List Sel) (alias : String) : Bool :=
  ss.any (fun s => match s with | .field a _ _ _ _ _ _ => a == alias | _ => false)

/-- `addSelectionSetToSanitizedResult`: new fields whose alias is already present are dropped
    (the filter looks at the result BEFORE this call only) -/
def addToResult (s : List Sel) (ss : List Sel) : List Sel :=
  s ++ ss.filter (fun sel => match sel with
    | .field a _ _ _ _ _ _ => !hasFieldAliased s a
    | _ => true)

def isAbstractKind : Kind → Bool
  | .interface => true
  | .union => true
  | _ => false

/-- prepend the helper `__typename` unless a field named `__typename` occurs below -/
def withTypename (ss : List Sel) : List Sel × List String :=
  if containsField "__typename" ss then (ss, []) else (typenameField :: ss, ["__typename"])

/-- prepend the helper `id` unless a field named `id` occurs below -/
def withId (p : List Sel × List String) : List Sel × List String :=
  if containsField "id" p.1 then p else (idField :: p.1, p.2 ++ ["id"])

/-- the definition of `typename` if it is an interface or a union -/
def abstractDef? (c : PCtx) (typename : String) : Option TypeDef :=
  match c.schema.type? typename with
  | some t => if isAbstractKind t.kind then some t else none
  | none => none

/-- `addScrubFieldsToSelectionSet`: prepend the helper fields the executor will need -/
def addScrubFields (c : PCtx) (ss : List Sel) (typename : String) : G (List Sel × List String) :=
  match abstractDef? c typename with
  | some t =>
    match c.schema.possibleOf typename with
    | [] => .error (.panic "index out of range [0] with length 0 (possible types of an abstract type)")
    | pt0 :: _ =>
      if (c.tum.isNode? pt0).getD false && (t.field? "id").isSome then .ok (withId (withTypename ss))
      else .ok (withTypename ss)
  | none =>
    if (c.tum.isNode? typename).getD false then .ok (withId (ss, [])) else .ok (ss, [])

/-- `setMissingScrubFieldsForFieldSelectionSet` -/
def setMissing (c : PCtx) (ip : List String) (alias typename : String) (sf : Scrub) (added : List String) : Scrub :=
  added.foldl (fun sf f =>
    let path := ip ++ [alias]
    match c.schema.type? typename with
    | some t =>
      if isAbstractKind t.kind then (c.schema.possibleOf t.name).foldl (fun sf pt => sf.set path pt f) sf
      else sf.set path typename f
    | none => sf.set path typename f) sf

/-- `sanitizeUnionInlineFragment` -/
def sanitizeUnionFrag (child : List Sel) (cond pk_name : String) (dirs : List Dir) : List Sel :=
  let body := child.foldl (fun acc sel =>
    match sel with
    | .inline c2 _ pn2 _ sub2 => if pn2 == pk_name && c2 == cond then addToResult acc sub2 else addToResult acc [sel]
    | _ => addToResult acc [sel]) []
  if cond == pk_name then body else [.inline cond .union pk_name dirs body]

/-- `sanitizeInterfaceInlineFragment` (the fragments appended in the loop contain the selection
    set as it is at that moment, earlier appended fragments included) -/
def sanitizeInterfaceFrag (c : PCtx) (child : List Sel) (cond pk_name : String) (dirs : List Dir) : List Sel :=
  let pts := c.schema.possibleOf pk_name
  if pts.contains cond then [.inline cond .interface pk_name dirs child]
  else pts.foldl (fun sel pt => addToResult sel [.inline pt .object pt dirs sel]) child

/-- what happens to a fragment once its body has been sanitised -/
def finishFrag (c : PCtx) (ip : List String) (cond : String) (pk : Kind) (pn : String)
    (dirs : List Dir) (child : List Sel) (sf : Scrub) : G (List Sel × Scrub) :=
  match pk with
  | .interface => do
    let (child', added) ← addScrubFields c child cond
    let sf' := added.foldl (fun sf f => sf.set ip cond f) sf
    .ok (sanitizeInterfaceFrag c child' cond pn dirs, sf')
  | .union => do
    let (child', added) ← addScrubFields c child cond
    let sf' := added.foldl (fun sf f => sf.set ip cond f) sf
    .ok (sanitizeUnionFrag child' cond pn dirs, sf')
  | _ => .ok (child, sf)   -- flattened into the enclosing selection set

mutual
  /-- one selection: returns the selections to add to the result, and the scrub entries -/
  def sanitizeSel (c : PCtx) (ip : List String) : Sel → G (List Sel × Scrub)
    | .field alias name args dirs type argDefs sub =>
      if sub.isEmpty then .ok ([.field alias name args dirs type argDefs []], []) else do
        let (child, sf) ← sanitizeSelsAcc c (ip ++ [alias]) sub [] []
        let (child', added) ← addScrubFields c child type.name
        let sf' := setMissing c ip alias type.name sf added
        .ok ([.field alias name args dirs type argDefs child'], sf')
    | .spread _ cond pk pn dirs sub => do
      -- expanded as an inline fragment carrying the definition's selection set
      let (child, sf) ← sanitizeSelsAcc c ip sub [] []
      finishFrag c ip cond pk pn dirs child sf
    | .inline cond pk pn dirs sub => do
      let (child, sf) ← sanitizeSelsAcc c ip sub [] []
      finishFrag c ip cond pk pn dirs child sf

  /-- the loop of `sanitizeSelectionSet` with its accumulators (`result`, `scrubFields`) -/
  def sanitizeSelsAcc (c : PCtx) (ip : List String) : List Sel → List Sel → Scrub → G (List Sel × Scrub)
    | [], acc, sf => .ok (acc, sf)
    | s :: rest, acc, sf => do
      let (ss, sf1) ← sanitizeSel c ip s
      sanitizeSelsAcc c ip rest (addToResult acc ss) (sf.merge sf1)
end

/-- `sanitizeSelectionSet` -/
def sanitizeSels (c : PCtx) (ip : List String) (ss : List Sel) : G (List Sel × Scrub) :=
  sanitizeSelsAcc c ip ss [] []

end PebblesVerif
