import PebblesVerif.Model.Plan
import PebblesVerif.Gen.Sanitize
/-!
`planner.sanitizeSelectionSet` with the IN-PLACE rewriting the Go code performs
(planner/sanitize_selection_set.go): `s.SelectionSet = childSelectionSet` rewrites the field node
it visits, `sanitizeUnionInlineFragment` / `sanitizeInterfaceInlineFragment` rewrite the fragment
node; a fragment spread is expanded as a FRESH inline fragment over the selection set of the
fragment DEFINITION, so the nodes of a definition are shared by all the spreads of that fragment:
the second expansion starts from what the first one left behind (helper `id` / `__typename`
already present — hence not registered for scrubbing again —, fragments already flattened).

`Model/Sanitize.lean` (`sanitizeSels`, the function the sanitiser theorems are about) is the
value-level model, exact when every named fragment is expanded at most once (`multiSpread op =
false`). This file is the literal model for the rest: the same functions, threading

* a store `fragment name ↦ the definition's selection set as the visits so far left it`,
* for every visited node, the node as the visit leaves it.

The recursion enters stored selection sets, which are results of earlier visits and not sub-terms
of the operation, so it is bounded by fuel (depth of descent; `sanitizeFuel` is generous; running
out is reported as `not-modelled`, never as an answer). What is NOT captured: pointer identity
between the sanitised result and the definition (after the second expansion the Go result holds
the same field node at both places; the two values coincide whenever sanitising a sanitised
selection set changes nothing, which holds outside the interface-expansion corner).
The driver uses this model for operations with `multiSpread`, `Model/Sanitize.lean` otherwise,
and reports whether the two agree on every operation without `multiSpread`.
-/
namespace PebblesVerif

abbrev FragStore := List (String × List Sel)

namespace FragStore
def get? (st : FragStore) (n : String) : Option (List Sel) := (st.find? (·.1 == n)).map (·.2)
def put (st : FragStore) (n : String) (l : List Sel) : FragStore :=
  if st.any (·.1 == n) then st.map (fun (k, v) => if k == n then (k, l) else (k, v)) else st ++ [(n, l)]
end FragStore

mutual
  /-- names of the fragments expanded while walking a selection set (a spread carries the
      definition's selection set, so nested spreads are counted once per expansion) -/
  def spreadNames : List Sel → List String
    | [] => []
    | s :: rest => spreadNamesSel s ++ spreadNames rest
  def spreadNamesSel : Sel → List String
    | .field _ _ _ _ _ _ sub => spreadNames sub
    | .inline _ _ _ _ sub => spreadNames sub
    | .spread name _ _ _ _ sub => name :: spreadNames sub
end

def hasDup : List String → Bool
  | [] => false
  | x :: xs => xs.contains x || hasDup xs

/-- some named fragment is expanded more than once -/
def multiSpread (op : Op) : Bool := hasDup (spreadNames op.sels)

mutual
  def selsSize : List Sel → Nat
    | [] => 0
    | s :: rest => selSize s + selsSize rest
  def selSize : Sel → Nat
    | .field _ _ _ _ _ _ sub => 1 + selsSize sub
    | .inline _ _ _ _ sub => 1 + selsSize sub
    | .spread _ _ _ _ _ sub => 1 + selsSize sub
end

/-- depth budget of the shared sanitiser: every descent enters a field, a fragment or a
    definition; interface expansion adds at most a level per level -/
def sanitizeFuel (op : Op) : Nat := 4 * selsSize op.sels + 16

/-- result of visiting one node -/
structure SanNode where
  out : List Sel          -- what is added to the enclosing result
  sf : Scrub
  node : Sel              -- the node as the visit leaves it
  store : FragStore

/-- result of the loop over a selection set -/
structure SanList where
  out : List Sel
  sf : Scrub
  nodes : List Sel        -- the visited nodes as the visits leave them (same length, same order)
  store : FragStore

/-- what happens to a fragment once its body has been sanitised: the selections for the result,
    the scrub table, and the selection set the fragment NODE is left with (`none` = untouched,
    i.e. its own nodes as rewritten by their visits) -/
def finishFragShared (c : PCtx) (ip : List String) (cond : String) (pk : Kind) (pn : String)
    (dirs : List Dir) (child : List Sel) (sf : Scrub) : G (List Sel × Scrub × Option (List Sel)) :=
  match pk with
  | .interface => do
    let (child', added) ← addScrubFields c child cond
    let sf' := added.foldl (fun sf f => sf.set ip cond f) sf
    -- `selection.SelectionSet = selectionSet` only when the condition is a possible type
    let left := if (c.schema.possibleOf pn).contains cond then some child' else none
    .ok (sanitizeInterfaceFrag c child' cond pn dirs, sf', left)
  | .union => do
    let (child', added) ← addScrubFields c child cond
    let sf' := added.foldl (fun sf f => sf.set ip cond f) sf
    -- `selection.SelectionSet` is rebuilt from the sanitised body
    let body := child'.foldl (fun acc sel =>
      match sel with
      | .inline c2 _ pn2 _ sub2 => if pn2 == pn && c2 == cond then addToResult acc sub2 else addToResult acc [sel]
      | _ => addToResult acc [sel]) []
    .ok (sanitizeUnionFrag child' cond pn dirs, sf', some body)
  | _ => .ok (child, sf, none)

mutual
  /-- one selection -/
  def sanitizeSelShared (c : PCtx) (ip : List String) (fuel : Nat) (s : Sel) (store : FragStore) : G SanNode :=
    match fuel with
    | 0 => .error (.err "not-modelled: sanitiser depth budget exhausted")
    | fuel + 1 =>
      match s with
      | .field alias name args dirs type argDefs sub =>
        if sub.isEmpty then .ok ⟨[.field alias name args dirs type argDefs []], [], s, store⟩ else do
          let r ← sanitizeListShared c (ip ++ [alias]) fuel sub [] [] store
          let (child', added) ← addScrubFields c r.out type.name
          let sf' := setMissing c ip alias type.name r.sf added
          -- `s.SelectionSet = childSelectionSet`
          let node : Sel := .field alias name args dirs type argDefs child'
          .ok ⟨[node], sf', node, r.store⟩
      | .spread name cond pk pn dirs sub => do
        -- a fresh inline fragment over the DEFINITION's selection set, as the visits so far left it
        let defSels := (store.get? name).getD sub
        let r ← sanitizeListShared c ip fuel defSels [] [] store
        let (out, sf, _) ← finishFragShared c ip cond pk pn dirs r.out r.sf
        .ok ⟨out, sf, s, r.store.put name r.nodes⟩
      | .inline cond pk pn dirs sub => do
        let r ← sanitizeListShared c ip fuel sub [] [] store
        let (out, sf, left) ← finishFragShared c ip cond pk pn dirs r.out r.sf
        .ok ⟨out, sf, .inline cond pk pn dirs (left.getD r.nodes), r.store⟩
  termination_by (fuel, 0)

  /-- the loop of `sanitizeSelectionSet` with its accumulators (`result`, `scrubFields`) -/
  def sanitizeListShared (c : PCtx) (ip : List String) (fuel : Nat) (l : List Sel) (acc : List Sel) (sf : Scrub)
      (store : FragStore) : G SanList :=
    match l with
    | [] => .ok ⟨acc, sf, [], store⟩
    | s :: rest => do
      let r ← sanitizeSelShared c ip fuel s store
      let r' ← sanitizeListShared c ip fuel rest (addToResult acc r.out) (sf.merge r.sf) r.store
      .ok ⟨r'.out, r'.sf, r.node :: r'.nodes, r'.store⟩
  termination_by (fuel, l.length + 1)
end

/-- `sanitizeSelectionSet` on the operation's selection set, with the in-place rewriting -/
def sanitizeSelsShared (c : PCtx) (fuel : Nat) (ss : List Sel) : G (List Sel × Scrub) := do
  let r ← sanitizeListShared c [] fuel ss [] [] []
  .ok (r.out, r.sf)

/-- `SequentialPlanner.Plan` over the sharing sanitiser -/
def planShared (c : PCtx) (op : Op) : G (List Step × Scrub) := do
  let (ss, sf) ← sanitizeSelsShared c (sanitizeFuel op) op.sels
  let steps ← planRoot c ss
  .ok (steps, sf)

/-- the planner model the correspondence runs. While the sanitiser wrote into the document's nodes
    (regenerated fact `Gen.Sanitize.copiesNodes = false`) an operation that expands one fragment more
    than once needed the literal sharing model; since the repair the sanitiser works on copies and
    the value-level model of the theorems (`plan`) is the model of every operation. -/
def planFor (c : PCtx) (op : Op) : G (List Step × Scrub) :=
  if multiSpread op && !Gen.Sanitize.copiesNodes then planShared c op else plan c op

end PebblesVerif
