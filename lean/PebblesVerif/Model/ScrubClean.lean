import PebblesVerif.Model.Sanitize
/-!
Model of `ScrubFields.Clean` / `clean` (planner/scrub_fields.go:72-131). Go ranges over maps:
the order of paths and — at the end of a path — the order of type names is arbitrary; the model
takes them in list order (C13 states when the order cannot matter).
-/
namespace PebblesVerif.ScrubClean
open PebblesVerif

/-- `sf.unhash(sf.hash(path))`: the empty path becomes `[""]` (strings.Split("", ".")) -/
def unhash (path : List String) : List String := if path.isEmpty then [""] else path

/-- end of path: the first type (in map order) that matches the payload's `__typename` — or any
    type when the payload has none — decides which fields are deleted -/
def cleanHere (payload : List (String × J)) (fields : List (String × List String)) : List (String × J) :=
  let tn := J.lookup "__typename" payload
  match fields.find? (fun (typename, _) => match tn with
      | some v => (match v with | .str s => s == typename | _ => false)
      | none => true) with
  | some (_, fs) => fs.foldl (fun p f => J.eraseKey f p) payload
  | none => payload

mutual
  /-- `clean(payload, path, fields)`: returns the new payload and "payload is now empty" -/
  def clean (fields : List (String × List String)) : List String → List (String × J) → List (String × J) × Bool
    | [], payload =>
      let p := cleanHere payload fields
      (p, p.isEmpty)
    | p :: rest, payload =>
      match J.lookup p payload with
      | none => (payload, false)
      | some obj =>
        let (obj', removeParent) : J × Bool :=
          match obj with
          | .obj v => let (v', e) := clean fields rest v; (.obj v', e)
          | .arr xs =>
            let (xs', allEmpty) := cleanList fields rest xs
            (.arr xs', if xs.isEmpty then false else allEmpty)
          | other => (other, false)
        let payload' := if removeParent then J.eraseKey p payload else J.setKey p obj' payload
        (payload', payload'.isEmpty)
  /-- the elements of a list: maps are cleaned, everything else is skipped; the flag is the
      conjunction over the map elements (true when there is none) -/
  def cleanList (fields : List (String × List String)) (rest : List String) : List J → List J × Bool
    | [] => ([], true)
    | .obj v :: xs =>
      let (v', e) := clean fields rest v
      let (xs', es) := cleanList fields rest xs
      (.obj v' :: xs', e && es)
    | x :: xs =>
      let (xs', es) := cleanList fields rest xs
      (x :: xs', es)
end

/-- `ScrubFields.Clean` -/
def cleanAll (sf : Scrub) (payload : List (String × J)) : List (String × J) :=
  sf.foldl (fun p (path, fields) => (clean fields (unhash path) p).1) payload

end PebblesVerif.ScrubClean
