import PebblesVerif.Model.Sanitize
import PebblesVerif.Gen.Nulls
/-!
Model of `ScrubFields.Clean` / `clean` (planner/scrub_fields.go:72-131). Go ranges over maps:
the order of paths and — at the end of a path — the order of type names is arbitrary; the model
takes them in list order (C13 states when the order cannot matter).
-/
namespace PebblesVerif.ScrubClean
open PebblesVerif

/-- `sf.unhash(sf.hash(path))`: the empty path becomes `[""]` (strings.Split("", ".")) -/
def unhash (path : List String) : List String := if path.isEmpty then [""] else path

/-- end of path: the first type (in map order) that matches the payload's `__typename` — or any
    type when the payload has none — decides which fields are deleted -/
def cleanHere (payload : List (String × J)) (fields : List (String × List String)) : List (String × J) :=
  let tn := J.lookup "__typename" payload
  match fields.find? (fun (typename, _) => match tn with
      | some v => (match v with | .str s => s == typename | _ => false)
      | none => true) with
  | some (_, fs) => fs.foldl (fun p f => J.eraseKey f p) payload
  | none => payload

mutual
  /-- `clean(payload, path, fields)`: returns the new payload and "payload is now empty".
      `keepNonMap` = the `[]interface{}` case has the arm `else { removeParent = false }`. -/
  def cleanW (keepNonMap : Bool) (fields : List (String × List String)) :
      List String → List (String × J) → List (String × J) × Bool
    | [], payload =>
      let p := cleanHere payload fields
      (p, p.isEmpty)
    | p :: rest, payload =>
      match J.lookup p payload with
      | none => (payload, false)
      | some obj =>
        let (obj', removeParent) : J × Bool :=
          match obj with
          | .obj v => let (v', e) := cleanW keepNonMap fields rest v; (.obj v', e)
          | .arr xs =>
            let (xs', allEmpty) := cleanListW keepNonMap fields rest xs
            (.arr xs', if xs.isEmpty then false else allEmpty)
          | other => (other, false)
        let payload' := if removeParent then J.eraseKey p payload else J.setKey p obj' payload
        (payload', payload'.isEmpty)
  /-- the elements of a list: maps are cleaned, everything else is left alone; the flag is the
      conjunction over the map elements — and, with the arm `else { removeParent = false }` (after
      the repair), false as soon as there is a non-map element (null, scalar); without it such
      elements do not count (true when the list has no map element at all: a list of nulls was
      deleted from the response) -/
  def cleanListW (keepNonMap : Bool) (fields : List (String × List String)) (rest : List String) :
      List J → List J × Bool
    | [] => ([], true)
    | .obj v :: xs =>
      let (v', e) := cleanW keepNonMap fields rest v
      let (xs', es) := cleanListW keepNonMap fields rest xs
      (.obj v' :: xs', e && es)
    | x :: xs =>
      let (xs', es) := cleanListW keepNonMap fields rest xs
      (x :: xs', if keepNonMap then false else es)
end

/-- `ScrubFields.clean` as the code reads now: whether a non-map element keeps the list is a
    regenerated fact (`Gen.Nulls.cleanKeepsListWithNonMapElement`, read from planner/scrub_fields.go
    on every run) -/
@[reducible] def clean : List (String × List String) → List String → List (String × J) → List (String × J) × Bool :=
  cleanW Gen.Nulls.cleanKeepsListWithNonMapElement

@[reducible] def cleanList : List (String × List String) → List String → List J → List J × Bool :=
  cleanListW Gen.Nulls.cleanKeepsListWithNonMapElement

/-! the defining equations, in terms of `clean` / `cleanList` themselves -/

theorem clean_nil (fields : List (String × List String)) (payload : List (String × J)) :
    clean fields [] payload = (cleanHere payload fields, (cleanHere payload fields).isEmpty) := by
  rw [clean, cleanW]

theorem clean_cons (fields : List (String × List String)) (p : String) (rest : List String) (payload : List (String × J)) :
    clean fields (p :: rest) payload =
      match J.lookup p payload with
      | none => (payload, false)
      | some obj =>
        let (obj', removeParent) : J × Bool :=
          match obj with
          | .obj v => let (v', e) := clean fields rest v; (.obj v', e)
          | .arr xs =>
            let (xs', allEmpty) := cleanList fields rest xs
            (.arr xs', if xs.isEmpty then false else allEmpty)
          | other => (other, false)
        let payload' := if removeParent then J.eraseKey p payload else J.setKey p obj' payload
        (payload', payload'.isEmpty) := by
  rw [clean, cleanW]

theorem cleanList_nil (fields : List (String × List String)) (rest : List String) :
    cleanList fields rest [] = ([], true) := by
  rw [cleanList, cleanListW]

theorem cleanList_obj (fields : List (String × List String)) (rest : List String) (v : List (String × J)) (xs : List J) :
    cleanList fields rest (.obj v :: xs) =
      ((.obj (clean fields rest v).1 :: (cleanList fields rest xs).1),
       ((clean fields rest v).2 && (cleanList fields rest xs).2)) := by
  rw [cleanList, cleanListW]

/-- a non-map element stays where it is; whether it keeps the list from being deleted is the fact -/
theorem cleanList_nonMap (fields : List (String × List String)) (rest : List String) (x : J) (xs : List J)
    (hx : ∀ v, x ≠ .obj v) :
    cleanList fields rest (x :: xs) =
      (x :: (cleanList fields rest xs).1,
       if Gen.Nulls.cleanKeepsListWithNonMapElement then false else (cleanList fields rest xs).2) := by
  rw [cleanList, cleanListW]
  intro v h; exact hx v h

/-- `ScrubFields.Clean` -/
def cleanAll (sf : Scrub) (payload : List (String × J)) : List (String × J) :=
  sf.foldl (fun p (path, fields) => (clean fields (unhash path) p).1) payload

end PebblesVerif.ScrubClean
