import PebblesVerif.Basic.J
/-
Model of the per-event pipeline of one subscription entry (subscription_entry.go
`prepareResponse` / `Listen`, queryer/subscribe.go reader loop).

  upstream reader (`Rq`): read a message · classify it · `resCh <- response` (unbuffered: a
      rendez-vous with `Listen`) · …; ends at complete / connection_error /
      connection_terminate / an `error` message whose payload is not a list / an undecodable
      message
  `Listen` (`L`): receive · `prepareResponse` · ONE write of a `data` frame carrying the
      entry's id · …

`prepareResponse`: a response with errors, without data, or of an entry without child steps is
forwarded as it is (helper fields scrubbed); otherwise `executorFn` = FindInsertionPoints from
the root step's selection + child steps as new roots + Execute with the event as InitialResult
+ scrub — the C01 pipeline, a PARAMETER here (`Pipeline.stitch`).
-/
namespace PebblesVerif.SubEntry

/-- `requests.Response` -/
structure Resp where
  data : Option J
  errors : List J
  deriving Repr, Inhabited, BEq

/-- the parts of the C01 pipeline `prepareResponse` uses -/
structure Pipeline where
  hasChildren : Bool                       -- `executorFn ≠ nil`
  stitch : J → Option J × List J           -- executorFn (result data, formatted execution errors)
  scrub : J → J                            -- originalPlan.ScrubFields.Clean

def prepare (p : Pipeline) (r : Resp) : Resp :=
  match r.errors, r.data with
  | [], some d =>
      if p.hasChildren then ⟨(p.stitch d).1, (p.stitch d).2⟩ else ⟨some (p.scrub d), []⟩
  | _, _ => ⟨r.data.map p.scrub, r.errors⟩

/-- an upstream message as the reader classifies it -/
inductive UpMsg
  | data (r : Resp)            -- type `data`
  | errorList (es : List J)    -- decodes only as ServerSubErorrMsg (payload is a LIST of errors): forwarded, the loop goes on
  | errorObj                   -- type `error` / `connection_error` with any other payload: the reader returns, nothing is forwarded
  | complete                   -- `complete` / `connection_terminate`: the reader returns
  | other                      -- any other type (`ka`, `connection_ack`): ignored
  | garbage                    -- not decodable: the reader returns
  deriving Repr, Inhabited

/-- what the reader hands to `Listen`, in order -/
def forwarded : List UpMsg → List Resp
  | [] => []
  | .data r :: ms => r :: forwarded ms
  | .errorList es :: ms => ⟨none, es⟩ :: forwarded ms
  | .other :: ms => forwarded ms
  | .errorObj :: _ => []
  | .complete :: _ => []
  | .garbage :: _ => []

structure Frame where
  id : String
  payload : Resp
  deriving Repr, Inhabited, BEq

def frameOf (id : String) (p : Pipeline) (r : Resp) : Frame := ⟨id, prepare p r⟩

/-- the frames an uninterrupted entry writes for a list of upstream messages -/
def framesOf (id : String) (p : Pipeline) (ms : List UpMsg) : List Frame :=
  (forwarded ms).map (frameOf id p)

/-! ### the loop as a transition system (reader and Listen, one unbuffered channel) -/

structure St where
  msgs : List UpMsg          -- not yet read
  rq : Option Resp           -- the reader holds a response (it is at `resCh <- response`)
  rqDone : Bool
  l : Option Resp            -- Listen holds a response (between receive and write)
  lDone : Bool               -- Listen has left its loop (stop, write error, …)
  out : List Frame           -- frames written so far
  deriving Repr, Inhabited

inductive Ev | read | hand | write | stop
  deriving DecidableEq, Repr

def init (ms : List UpMsg) : St := ⟨ms, none, false, none, false, []⟩

def step? (id : String) (p : Pipeline) (s : St) : Ev → Option St
  | .read =>
      if s.rq.isNone ∧ ¬ s.rqDone then
        match s.msgs with
        | [] => none                                       -- blocked in the read
        | .data r :: ms => some { s with msgs := ms, rq := some r }
        | .errorList es :: ms => some { s with msgs := ms, rq := some ⟨none, es⟩ }
        | .other :: ms => some { s with msgs := ms }
        | .errorObj :: ms => some { s with msgs := ms, rqDone := true }
        | .complete :: ms => some { s with msgs := ms, rqDone := true }
        | .garbage :: ms => some { s with msgs := ms, rqDone := true }
      else none
  | .hand =>
      match s.rq with
      | some r => if s.l.isNone ∧ ¬ s.lDone then some { s with rq := none, l := some r } else none
      | none => none
  | .write =>
      match s.l with
      | some r => some { s with l := none, out := s.out ++ [frameOf id p r] }
      | none => none
  | .stop =>
      if s.l.isNone ∧ ¬ s.lDone then some { s with lDone := true } else none

inductive Reach (id : String) (p : Pipeline) (ms : List UpMsg) : St → Prop
  | init : Reach id p ms (init ms)
  | step {s e s'} : Reach id p ms s → step? id p s e = some s' → Reach id p ms s'

/-- responses that are in flight or still to come, in order -/
def pending (s : St) : List Resp :=
  s.l.toList ++ s.rq.toList ++ (if s.rqDone then [] else forwarded s.msgs)

end PebblesVerif.SubEntry
