import PebblesVerif.Model.SubProto
/-
Model of the ESTABLISHMENT phase of `MultiOpQueryer.Subscribe` (queryer/subscribe.go), from the
moment the websocket handshake with the upstream has succeeded (`dialer.Dial` returned a
connection: a failing middleware / URL / dial returns before any goroutine is started) to the
moment `Subscribe` has returned and — if it returned an error — everything it started is gone.

Actors
  `S`   the caller of `Subscribe` (it is `newSubscriptionEntry`, called synchronously by the
        connection handler): `err := <-errCh` · (deferred) `close(errCh)` · return err.
        `errCh` is unbuffered: the receive is a JOINT step with the reader's send.
        While `Subscribe` runs the entry is a local variable of `newSubscriptionEntry`: nobody
        can close `closeCh` (= the entry's `queryerCloseCh`) or receive from `resCh` (= `respCh`);
        when `Subscribe` returns an error the entry is dropped (`return nil, err`): nobody ever
        will. So the model has NO step that closes `closeCh` and NO receiver on `resCh`.
  `Rq`  the reader goroutine: marshal+write `connection_init` (`wInit`), marshal+write `start`
        (`wStart`) — each may fail (the upstream resets the connection; a marshal error takes the
        same branch) —
          on failure   `fail(err)` = `close(failedCh)` (`closeF`) · `errCh <- err` (`sendErr`) · return
          on success   `errCh <- nil` (`sendOk`) · read loop (`est`: handed over to the established
                       protocol, Model/SubProtoFixed.lean, whose initial state has `rq = upRead`)
        deferred block (runs on return): `conn.Close()` (`dUpClose`) ·
          `select { case <-failedCh: return; default: }` (`dSel`) · `send(nil)` (`sendNil`) where
          `send(x)` = `select { case resCh <- x: | case <-closeCh: }`.
  `Cq`  the closer goroutine: `select { case <-closeCh: | case <-failedCh: }` (`recvQ`) ·
        `conn.Close()` (`upClose`) · done.

`Variant.preRepair` is the code before /repo commit ca221e5: no `failedCh` — on failure the reader
goes straight to `errCh <- err`, its deferred block always reaches `send(nil)`, the closer waits for
`closeCh` only. Which variant the tree has is a regenerated fact
(`Gen.SubProto.facts.initFailureReleasesGoroutines`, see Spec/SubProtoFacts.lean).

Go semantics encoded: a send on a closed channel panics (also when the channel is closed under a
parked sender); `close` of a closed channel panics; the reader's `recover` sits in a NESTED
deferred function, so a panic in its body (`fail` is called from the body) ends the process;
`conn.Close()` twice is harmless (the second returns an error that is ignored); a write on a
connection that this side has closed fails; a write to a peer that reset the connection may fail.

Ghost fields (written, never read by a guard): `fault` = which write failed, `wrote` = number of
messages written; `result` = what the caller's `<-errCh` received.
-/
namespace PebblesVerif.SubInit
open PebblesVerif.SubProto (CqPc)

inductive Variant | repaired | preRepair
  deriving DecidableEq, Repr, Inhabited, BEq, Hashable

/-- does a failed establishment release the goroutines (is there a `failedCh`)? -/
def Variant.rel : Variant → Bool
  | .repaired => true
  | .preRepair => false

/-- which of the two writes failed (= the error `Subscribe` must return) -/
inductive Which | init | start
  deriving DecidableEq, Repr, Inhabited, BEq, Hashable

/-- the caller of `Subscribe` -/
inductive SPc | wait | closeErr | done
  deriving DecidableEq, Repr, Inhabited, BEq, Hashable

/-- the reader goroutine -/
inductive RPc
  | wInit | wStart | closeF (w : Which) | sendErr (w : Which) | sendOk
  | est
  | dUpClose | dSel | sendNil | done
  deriving DecidableEq, Repr, Inhabited, BEq, Hashable

structure St where
  s : SPc
  r : RPc
  c : CqPc
  result : Option (Option Which)   -- what `<-errCh` received (`some none` = nil)
  fault : Option Which             -- ghost: the write that failed
  wrote : Nat                      -- ghost: messages written to the upstream
  failed : Bool                    -- failedCh closed
  errClosed : Bool                 -- errCh closed
  chQ : Bool                       -- closeCh closed (no step sets it: see above)
  upClosed : Bool                  -- conn.Close() has been called on the upstream connection
  fatal : Option String
  deriving DecidableEq, Repr, Inhabited, BEq, Hashable

inductive Ev
  | rqWrite (ok : Bool)   -- the reader's next write returns (nil / an error)
  | rqCloseF              -- close(failedCh)
  | rqSend                -- errCh <- x, received by the caller's <-errCh (joint step)
  | sCloseErr             -- the caller's deferred close(errCh); Subscribe returns
  | cqRecv | cqUpClose
  | rqUpClose | rqSel | rqNilAbort
  deriving DecidableEq, Repr, Inhabited, BEq, Hashable

def init : St :=
  { s := .wait, r := .wInit, c := .recvQ, result := none, fault := none, wrote := 0,
    failed := false, errClosed := false, chQ := false, upClosed := false, fatal := none }

/-- where the reader goes when a step of the establishment fails -/
def failNext (v : Variant) (w : Which) : RPc :=
  match v with
  | .repaired => .closeF w      -- fail(err): close(failedCh) first
  | .preRepair => .sendErr w    -- errCh <- err

/-- `errCh <- x` by the reader, continuing at `next` -/
def sendOn (s : St) (x : Option Which) (next : RPc) : Option St :=
  if s.errClosed then some { s with fatal := some "panic: send on closed channel (errCh)" }
  else if s.s = .wait then some { s with r := next, s := .closeErr, result := some x }
  else none

/-- the reader's deferred block after conn.Close() -/
def afterUpClose (v : Variant) : RPc :=
  match v with
  | .repaired => .dSel
  | .preRepair => .sendNil

def step? (v : Variant) (s : St) (e : Ev) : Option St :=
  if s.fatal.isSome then none else
  match e with
  | .rqWrite ok =>
      match s.r with
      | .wInit =>
          if ok then (if s.upClosed then none else some { s with r := .wStart, wrote := s.wrote + 1 })
          else some { s with r := failNext v .init, fault := some .init }
      | .wStart =>
          if ok then (if s.upClosed then none else some { s with r := .sendOk, wrote := s.wrote + 1 })
          else some { s with r := failNext v .start, fault := some .start }
      | _ => none
  | .rqCloseF =>
      match s.r with
      | .closeF w =>
          if s.failed then some { s with fatal := some "panic: close of closed channel (failedCh)" }
          else some { s with r := .sendErr w, failed := true }
      | _ => none
  | .rqSend =>
      match s.r with
      | .sendErr w => sendOn s (some w) .dUpClose
      | .sendOk => sendOn s none .est
      | _ => none
  | .sCloseErr =>
      if s.s = .closeErr then
        if s.errClosed then some { s with fatal := some "panic: close of closed channel (errCh)" }
        else some { s with s := .done, errClosed := true }
      else none
  | .cqRecv =>
      if s.c = .recvQ ∧ (s.chQ ∨ (v.rel ∧ s.failed)) then some { s with c := .upClose } else none
  | .cqUpClose =>
      if s.c = .upClose then some { s with c := .done, upClosed := true } else none
  | .rqUpClose =>
      if s.r = .dUpClose then some { s with r := afterUpClose v, upClosed := true } else none
  | .rqSel =>
      if s.r = .dSel then some { s with r := (if s.failed then RPc.done else RPc.sendNil) } else none
  | .rqNilAbort =>
      if s.r = .sendNil ∧ s.chQ then some { s with r := .done } else none

def Step (v : Variant) (s : St) (e : Ev) (s' : St) : Prop := step? v s e = some s'

inductive Reach (v : Variant) : St → Prop
  | init : Reach v init
  | step {s e s'} : Reach v s → Step v s e s' → Reach v s'

def runEvents (v : Variant) : St → List Ev → Option St
  | s, [] => some s
  | s, e :: es => match step? v s e with
    | some s' => runEvents v s' es
    | none => none

theorem reach_of_run {v : Variant} {s s' : St} {es : List Ev} (h : Reach v s)
    (hr : runEvents v s es = some s') : Reach v s' := by
  induction es generalizing s with
  | nil => simp [runEvents] at hr; subst hr; exact h
  | cons e es ih =>
    simp only [runEvents] at hr
    cases hs : step? v s e with
    | none => simp [hs] at hr
    | some s1 => rw [hs] at hr; exact ih (.step h hs) hr

def candidates : List Ev :=
  [.rqWrite true, .rqWrite false, .rqCloseF, .rqSend, .sCloseErr, .cqRecv, .cqUpClose,
   .rqUpClose, .rqSel, .rqNilAbort]

def enabled (v : Variant) (s : St) : List Ev :=
  candidates.filter (fun e => (step? v s e).isSome)

def fatal (s : St) : Bool := s.fatal.isSome

def terminal (v : Variant) (s : St) : Bool := (enabled v s).isEmpty

/-- success: `Subscribe` has returned, the reader is in its read loop and the closer waits for
    `closeCh`: the initial state of the established protocol (Model/SubProtoFixed.lean) -/
def handedOver (s : St) : Bool :=
  decide (s.s = .done) && decide (s.r = .est) && decide (s.c = .recvQ) && !s.upClosed && !s.failed

/-- failure: `Subscribe` has returned, both goroutines have exited, the upstream connection is closed -/
def ended (s : St) : Bool :=
  decide (s.s = .done) && decide (s.r = .done) && decide (s.c = .done) && s.upClosed

def final (s : St) : Bool := handedOver s || ended s

/-- nothing can move, and some goroutine has not exited although the establishment failed -/
def leak (v : Variant) (s : St) : Bool :=
  terminal v s && !fatal s && !final s

/-! termination measure -/

def sW : SPc → Nat
  | .wait => 2 | .closeErr => 1 | .done => 0

def rW : RPc → Nat
  | .wInit => 9 | .wStart => 8 | .closeF _ => 7 | .sendOk => 7 | .sendErr _ => 6
  | .dUpClose => 4 | .dSel => 3 | .sendNil => 2 | .est => 0 | .done => 0

def cW : CqPc → Nat
  | .recvQ => 2 | .upClose => 1 | .done => 0

def measure (s : St) : Nat := sW s.s + rW s.r + cW s.c

end PebblesVerif.SubInit
