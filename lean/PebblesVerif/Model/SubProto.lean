/-
Model of the teardown handshake of ONE subscription entry, for the protocol of the UNCHANGED
tree (subscription_entry.go `Close`/`Listen`, subscription.go handler exit, queryer/subscribe.go
closer and reader goroutines) — DESIGN Appendix E.

Processes
  `K i`  a `go subEntry.Close()` goroutine: TryLock (result ignored) · read isClosed · Unlock ·
         if ¬closed: `closeCh <- struct{}{}`
  `L`    `Listen`: select { respCh | closeCh } · write · …; deferred exit block:
         `queryerCloseCh <- {}` · Lock · close(queryerCloseCh) · close(closeCh) · close(respCh) ·
         isClosed = true · Unlock
  `Cq`   upstream closer: `<-closeCh` · conn.Close()        (direct `defer recover()`)
  `Rq`   upstream reader: loop { read · `resCh <- event` }; deferred: conn.Close() · `resCh <- nil`
         (its `recover` sits in a NESTED deferred function: it covers a panic raised inside the
         deferred block, NOT one raised in the goroutine body)
  `H`    the connection handler, only as far as it matters for one entry: serving · exit block
         (close frame — failure ⇒ early return — · conn.Close() · CleanAll)
  environment: upstream (`upEvent`, `upEnd` = complete / error / disconnect), client (`clStop`,
         `clTerminate`, `clBad` = malformed/unknown message, `clGone` = abrupt disconnect),
         `spawnK` (further Close goroutines, for generality).

Channels are unbuffered: a send is a JOINT step of one sender and one receiver. A process at a
send pc whose channel is (or gets) closed panics at its own next step: `panic: send on closed
channel`. A panic in a goroutine without an effective `recover` ends the PROCESS: `fatal`.
Go's `sync.Mutex` has no owner: `Unlock` by anybody succeeds iff the mutex is locked, otherwise
`fatal error: sync: unlock of unlocked mutex` (not recoverable).
-/
namespace PebblesVerif.SubProto

inductive KPc | tryLock | readClosed | unlock (sawClosed : Bool) | sendC | done
  deriving DecidableEq, Repr, Inhabited, BEq, Hashable

inductive LPc | sel | write | sendQ | lock | closeQ | closeC | closeR | setClosed | unlock | done
  deriving DecidableEq, Repr, Inhabited, BEq, Hashable

inductive CqPc | recvQ | upClose | done
  deriving DecidableEq, Repr, Inhabited, BEq, Hashable

inductive RqPc | upRead | sendR | upClose | sendNil | done
  deriving DecidableEq, Repr, Inhabited, BEq, Hashable

inductive HPc | serving | closeFrame | connClose | cleanAll | done
  deriving DecidableEq, Repr, Inhabited, BEq, Hashable

/-- the client connection: `broken` = the peer is gone (writes may or may not fail yet),
    `closed` = closed locally by the handler (writes fail) -/
inductive Conn | «open» | broken | closed
  deriving DecidableEq, Repr, Inhabited, BEq, Hashable

/-- what the environment may do (the history is finite) -/
structure Cfg where
  evs : Nat            -- number of events the upstream will emit
  fin : Bool           -- the upstream may end the subscription by itself (complete/error/disconnect)
  extraK : Nat         -- Close goroutines started besides the handler's own
  stop : Bool          -- the client may send `stop`
  terminate : Bool     -- … `connection_terminate`
  bad : Bool           -- … a malformed / unknown / incomplete message
  gone : Bool          -- … disconnect abruptly
  deriving DecidableEq, Repr, Inhabited

structure St where
  ks : List KPc
  l : LPc
  cq : CqPc
  rq : RqPc
  h : HPc
  dict : Bool          -- the entry is in the handler's dictionary
  locked : Bool        -- the entry's mutex
  isClosed : Bool
  chC : Bool           -- closeCh closed
  chQ : Bool           -- queryerCloseCh closed
  chR : Bool           -- respCh closed
  upClosed : Bool      -- the upstream connection has been closed by the gateway
  conn : Conn
  evs : Nat
  spawn : Nat
  fatal : Option String
  deriving DecidableEq, Repr, Inhabited, BEq, Hashable

inductive Ev
  | upEvent | upEnd
  | clStop | clTerminate | clBad | clGone | spawnK
  | kTryLock (i : Nat) | kReadClosed (i : Nat) | kUnlock (i : Nat) | kSendC (i : Nat)
  | lRecv | lRecvNil | lWrite (ok : Bool) | lSendQ | lLock | lCloseQ | lCloseC | lCloseR
  | lSetClosed | lUnlock
  | cqRecv | cqUpClose
  | rqReadErr | rqSendPanic | rqUpClose | rqNilPanic
  | hCloseFrame (ok : Bool) | hConnClose | hCleanAll
  deriving DecidableEq, Repr, Inhabited, BEq, Hashable

def init (c : Cfg) : St :=
  { ks := [], l := .sel, cq := .recvQ, rq := .upRead, h := .serving, dict := true,
    locked := false, isClosed := false, chC := false, chQ := false, chR := false,
    upClosed := false, conn := .open, evs := c.evs, spawn := c.extraK, fatal := none }

def spawnIf (b : Bool) (ks : List KPc) : List KPc := if b then ks ++ [.tryLock] else ks

/-- Executable transition function (`none` = not enabled). A crashed process takes no step. -/
def step? (c : Cfg) (s : St) (e : Ev) : Option St :=
  if s.fatal.isSome then none else
  match e with
  -- upstream
  | .upEvent =>
      if s.rq = .upRead ∧ s.evs > 0 ∧ ¬ s.upClosed then some { s with rq := .sendR, evs := s.evs - 1 } else none
  | .upEnd =>
      if s.rq = .upRead ∧ c.fin ∧ ¬ s.upClosed then some { s with rq := .upClose, evs := 0 } else none
  -- client / handler
  | .clStop =>
      if s.h = .serving ∧ c.stop ∧ s.dict then some { s with ks := s.ks ++ [.tryLock], dict := false } else none
  | .clTerminate =>
      if s.h = .serving ∧ c.terminate then
        some { s with ks := spawnIf s.dict s.ks, dict := false, h := .closeFrame } else none
  | .clBad =>
      if s.h = .serving ∧ c.bad then some { s with h := .closeFrame } else none
  | .clGone =>
      if s.h = .serving ∧ c.gone ∧ s.conn = .open then some { s with h := .closeFrame, conn := .broken } else none
  | .spawnK =>
      if s.spawn > 0 then some { s with ks := s.ks ++ [.tryLock], spawn := s.spawn - 1 } else none
  | .hCloseFrame ok =>
      if s.h = .closeFrame then
        if ok then (if s.conn ≠ .closed then some { s with h := .connClose } else none)
        else (if s.conn = .broken then some { s with h := .done } else none)   -- early return: skips the rest
      else none
  | .hConnClose =>
      if s.h = .connClose then some { s with h := .cleanAll, conn := .closed } else none
  | .hCleanAll =>
      if s.h = .cleanAll then some { s with ks := spawnIf s.dict s.ks, dict := false, h := .done } else none
  -- Close goroutines
  | .kTryLock i =>
      if s.ks[i]? = some .tryLock then
        some { s with ks := s.ks.set i .readClosed, locked := true }   -- fails silently when already locked
      else none
  | .kReadClosed i =>
      if s.ks[i]? = some .readClosed then some { s with ks := s.ks.set i (.unlock s.isClosed) } else none
  | .kUnlock i =>
      match s.ks[i]? with
      | some (.unlock v) =>
          if s.locked then some { s with ks := s.ks.set i (if v then .done else .sendC), locked := false }
          else some { s with fatal := some "fatal error: sync: unlock of unlocked mutex" }
      | _ => none
  | .kSendC i =>
      if s.ks[i]? = some .sendC then
        if s.chC then some { s with fatal := some "panic: send on closed channel (Close)" }
        else if s.l = .sel then some { s with ks := s.ks.set i .done, l := .sendQ }   -- rendez-vous with Listen's select
        else none
      else none
  -- Listen
  | .lRecv =>
      if s.l = .sel ∧ s.rq = .sendR ∧ ¬ s.chR then some { s with l := .write, rq := .upRead } else none
  | .lRecvNil =>
      if s.l = .sel ∧ s.rq = .sendNil ∧ ¬ s.chR then some { s with l := .sendQ, rq := .done } else none
  | .lWrite ok =>
      if s.l = .write then
        if ok then (if s.conn ≠ .closed then some { s with l := .sel } else none)
        else (if s.conn ≠ .open then some { s with l := .sendQ } else none)
      else none
  | .lSendQ =>
      if s.l = .sendQ then
        if s.chQ then some { s with fatal := some "panic: send on closed channel (Listen)" }
        else if s.cq = .recvQ then some { s with l := .lock, cq := .upClose }   -- rendez-vous with the closer
        else none
      else none
  | .lLock =>
      if s.l = .lock ∧ ¬ s.locked then some { s with l := .closeQ, locked := true } else none
  | .lCloseQ =>
      if s.l = .closeQ then
        if s.chQ then some { s with fatal := some "panic: close of closed channel" }
        else some { s with l := .closeC, chQ := true }
      else none
  | .lCloseC =>
      if s.l = .closeC then
        if s.chC then some { s with fatal := some "panic: close of closed channel" }
        else some { s with l := .closeR, chC := true }
      else none
  | .lCloseR =>
      if s.l = .closeR then
        if s.chR then some { s with fatal := some "panic: close of closed channel" }
        else some { s with l := .setClosed, chR := true }
      else none
  | .lSetClosed =>
      if s.l = .setClosed then some { s with l := .unlock, isClosed := true } else none
  | .lUnlock =>
      if s.l = .unlock then
        if s.locked then some { s with l := .done, locked := false }
        else some { s with fatal := some "fatal error: sync: unlock of unlocked mutex" }
      else none
  -- upstream closer
  | .cqRecv =>
      if s.cq = .recvQ ∧ s.chQ then some { s with cq := .upClose } else none
  | .cqUpClose =>
      if s.cq = .upClose then some { s with cq := .done, upClosed := true } else none
  -- upstream reader
  | .rqReadErr =>
      if s.rq = .upRead ∧ s.upClosed then some { s with rq := .upClose } else none
  | .rqSendPanic =>
      -- `resCh <- event` on a closed channel: panic in the goroutine BODY, not recovered
      if s.rq = .sendR ∧ s.chR then some { s with fatal := some "panic: send on closed channel (upstream reader)" } else none
  | .rqUpClose =>
      if s.rq = .upClose then some { s with rq := .sendNil, upClosed := true } else none
  | .rqNilPanic =>
      -- `resCh <- nil` on a closed channel inside the deferred block: recovered by the nested recover
      if s.rq = .sendNil ∧ s.chR then some { s with rq := .done } else none

def Step (c : Cfg) (s : St) (e : Ev) (s' : St) : Prop := step? c s e = some s'

inductive Reach (c : Cfg) : St → Prop
  | init : Reach c (init c)
  | step {s e s'} : Reach c s → Step c s e s' → Reach c s'

def runEvents (c : Cfg) : St → List Ev → Option St
  | s, [] => some s
  | s, e :: es => match step? c s e with
    | some s' => runEvents c s' es
    | none => none

theorem reach_of_run {c : Cfg} {s s' : St} {es : List Ev} (h : Reach c s)
    (hr : runEvents c s es = some s') : Reach c s' := by
  induction es generalizing s with
  | nil => simp [runEvents] at hr; subst hr; exact h
  | cons e es ih =>
    simp only [runEvents] at hr
    cases hs : step? c s e with
    | none => simp [hs] at hr
    | some s1 => rw [hs] at hr; exact ih (.step h hs) hr

/-- finite candidate list of events -/
def candidates (s : St) : List Ev :=
  [.upEvent, .upEnd, .clStop, .clTerminate, .clBad, .clGone, .spawnK,
   .hCloseFrame true, .hCloseFrame false, .hConnClose, .hCleanAll]
  ++ (List.range s.ks.length).flatMap (fun i => [.kTryLock i, .kReadClosed i, .kUnlock i, .kSendC i])
  ++ [.lRecv, .lRecvNil, .lWrite true, .lWrite false, .lSendQ, .lLock, .lCloseQ, .lCloseC, .lCloseR,
      .lSetClosed, .lUnlock, .cqRecv, .cqUpClose, .rqReadErr, .rqSendPanic, .rqUpClose, .rqNilPanic]

def enabled (c : Cfg) (s : St) : List Ev := (candidates s).filter (fun e => (step? c s e).isSome)

/-! predicates used by `explore` and by the theorems -/

def fatal (s : St) : Bool := s.fatal.isSome

def allKDone (s : St) : Bool := s.ks.all (· == .done)

/-- every goroutine of the subscription has exited and its upstream connection is closed -/
def final (s : St) : Bool :=
  allKDone s && s.l == .done && s.cq == .done && s.rq == .done && s.upClosed
    && (s.h == .done || s.h == .serving)

/-- the subscription is running and nothing has asked it to end: waiting for the world is fine -/
def live (s : St) : Bool :=
  (s.l == .sel || s.l == .write) && (s.rq == .upRead || s.rq == .sendR) && s.cq == .recvQ
    && !s.isClosed && s.h == .serving && s.ks.isEmpty

def terminal (c : Cfg) (s : St) : Bool := (enabled c s).isEmpty

/-- nothing can move, nobody crashed, and some goroutine sits inside a gateway-internal
    synchronisation operation (not merely waiting for the outside world) -/
def stuck (c : Cfg) (s : St) : Bool :=
  terminal c s && !fatal s &&
    (!allKDone s || !(s.l == .sel || s.l == .done) || s.rq == .sendR || s.rq == .sendNil
      || s.cq == .upClose || !(s.h == .serving || s.h == .done))

/-- the subscription or its connection has ended, nothing can move any more, and a goroutine
    is left behind or the upstream connection is still open -/
def leak (c : Cfg) (s : St) : Bool := terminal c s && !fatal s && !live s && !final s

end PebblesVerif.SubProto
