import PebblesVerif.Model.SubProto
/-
Model of the REPAIRED teardown protocol of one subscription entry (repo_fixes/subs-teardown):

  `Close()` (any goroutine, any number of times — and `Listen`'s exit calls it too):
        Lock · if ¬isClosed { isClosed = true · close(closeCh) } · Unlock
  `Listen`: select { respCh | closeCh } · write · … ; exit: `Close()` · close(queryerCloseCh)
  `closeCh` / `queryerCloseCh` are CLOSED, never sent on; `respCh` is never closed and every
  send on it is `select { respCh <- x | <-queryerCloseCh }`;
  handler exit: close frame (best effort) · conn.Close() · CleanAll — always.

Every execution of `Close()` is an entry of `ks` (a "closer"): the goroutines started by the
handler (`go subEntry.Close()`) and the synchronous call made by `Listen`'s exit block, which
`Listen` joins (`lJoin`) before closing `queryerCloseCh`.

`Knobs` are the structural facts of the source the safety of the protocol depends on; they are
regenerated from the source (`Gen/SubProto.lean`). The theorems are proved for `good`; with a
knob off `explore` searches this same model for the witness schedule.
-/
namespace PebblesVerif.SubProtoFixed
open PebblesVerif.SubProto (Cfg Conn CqPc RqPc HPc)

structure Knobs where
  guardSends : Bool    -- every send on respCh also selects on queryerCloseCh
  setInLock : Bool     -- `isClosed = true` happens inside the critical section, before close(closeCh)
  exitAlways : Bool    -- the handler's exit reaches conn.Close() and CleanAll even if the close frame fails
  deriving DecidableEq, Repr, Inhabited

def good : Knobs := ⟨true, true, true⟩

/-- program counter of one execution of `Close()` -/
inductive KPc | lock | check | set | closeC | unlock (late : Bool) | setLate | done
  deriving DecidableEq, Repr, Inhabited, BEq, Hashable

def KPc.crit : KPc → Bool
  | .check | .set | .closeC | .unlock _ => true
  | _ => false

inductive LPc | sel | write | xclose (i : Nat) | closeQ | done
  deriving DecidableEq, Repr, Inhabited, BEq, Hashable

structure St where
  ks : List KPc
  l : LPc
  cq : CqPc
  rq : RqPc
  h : HPc
  dict : Bool
  mutex : Option Nat   -- index of the closer that acquired it
  isClosed : Bool
  chC : Bool           -- closeCh closed
  chQ : Bool           -- queryerCloseCh closed
  upClosed : Bool
  conn : Conn
  evs : Nat
  spawn : Nat
  fatal : Option String
  deriving DecidableEq, Repr, Inhabited, BEq, Hashable

inductive Ev
  | upEvent | upEnd
  | clStop | clTerminate | clBad | clGone | spawnK
  | hCloseFrame (ok : Bool) | hConnClose | hCleanAll
  | k (i : Nat)                       -- closer i executes its next statement
  | lRecv | lRecvNil | lRecvClose | lWrite (ok : Bool) | lJoin | lCloseQ
  | cqRecv | cqUpClose
  | rqReadErr | rqAbort | rqUpClose | rqNilAbort
  deriving DecidableEq, Repr, Inhabited, BEq, Hashable

def init (c : Cfg) : St :=
  { ks := [], l := .sel, cq := .recvQ, rq := .upRead, h := .serving, dict := true,
    mutex := none, isClosed := false, chC := false, chQ := false,
    upClosed := false, conn := .open, evs := c.evs, spawn := c.extraK, fatal := none }

def spawnIf (b : Bool) (ks : List KPc) : List KPc := if b then ks ++ [.lock] else ks

/-- after reading `isClosed` under the lock -/
def checkNext (kn : Knobs) (closed : Bool) : KPc :=
  if closed then .unlock false else if kn.setInLock then .set else .closeC

/-- one statement of `Close()` executed by closer `i` at `pc` -/
def closeStep (kn : Knobs) (i : Nat) (s : St) : KPc → Option St
  | .lock => if s.mutex = none then some { s with ks := s.ks.set i .check, mutex := some i } else none
  | .check => some { s with ks := s.ks.set i (checkNext kn s.isClosed) }
  | .set => some { s with ks := s.ks.set i .closeC, isClosed := true }
  | .closeC =>
      if s.chC then some { s with fatal := some "panic: close of closed channel" }
      else some { s with ks := s.ks.set i (KPc.unlock (!kn.setInLock)), chC := true }
  | .unlock late =>
      if s.mutex = none then some { s with fatal := some "fatal error: sync: unlock of unlocked mutex" }
      else
        let pc' : KPc := if late then .setLate else .done
        some { s with ks := s.ks.set i pc', mutex := none }
  | .setLate => some { s with ks := s.ks.set i .done, isClosed := true }
  | .done => none

/-- `Listen` leaves its loop: it calls `Close()` (a new closer, joined later) -/
def lExit (s : St) : St := { s with l := .xclose s.ks.length, ks := s.ks ++ [.lock] }

def step? (kn : Knobs) (c : Cfg) (s : St) (e : Ev) : Option St :=
  if s.fatal.isSome then none else
  match e with
  | .upEvent =>
      if s.rq = .upRead ∧ s.evs > 0 ∧ ¬ s.upClosed then some { s with rq := .sendR, evs := s.evs - 1 } else none
  | .upEnd =>
      if s.rq = .upRead ∧ c.fin ∧ ¬ s.upClosed then some { s with rq := .upClose, evs := 0 } else none
  | .clStop =>
      if s.h = .serving ∧ c.stop ∧ s.dict then some { s with ks := s.ks ++ [.lock], dict := false } else none
  | .clTerminate =>
      if s.h = .serving ∧ c.terminate then
        some { s with ks := spawnIf s.dict s.ks, dict := false, h := .closeFrame } else none
  | .clBad =>
      if s.h = .serving ∧ c.bad then some { s with h := .closeFrame } else none
  | .clGone =>
      if s.h = .serving ∧ c.gone ∧ s.conn = .open then some { s with h := .closeFrame, conn := .broken } else none
  | .spawnK =>
      if s.spawn > 0 then some { s with ks := s.ks ++ [.lock], spawn := s.spawn - 1 } else none
  | .hCloseFrame ok =>
      if s.h = .closeFrame then
        if ok then (if s.conn ≠ .closed then some { s with h := .connClose } else none)
        else (if s.conn = .broken then some { s with h := (if kn.exitAlways then HPc.connClose else HPc.done) } else none)
      else none
  | .hConnClose =>
      if s.h = .connClose then some { s with h := .cleanAll, conn := .closed } else none
  | .hCleanAll =>
      if s.h = .cleanAll then some { s with ks := spawnIf s.dict s.ks, dict := false, h := .done } else none
  | .k i =>
      match s.ks[i]? with
      | some pc => closeStep kn i s pc
      | none => none
  | .lRecv =>
      if s.l = .sel ∧ s.rq = .sendR then some { s with l := .write, rq := .upRead } else none
  | .lRecvNil =>
      if s.l = .sel ∧ s.rq = .sendNil then some { lExit s with rq := .done } else none
  | .lRecvClose =>
      if s.l = .sel ∧ s.chC then some (lExit s) else none
  | .lWrite ok =>
      if s.l = .write then
        if ok then (if s.conn ≠ .closed then some { s with l := .sel } else none)
        else (if s.conn ≠ .open then some (lExit s) else none)
      else none
  | .lJoin =>
      match s.l with
      | .xclose i => if s.ks[i]? = some .done then some { s with l := .closeQ } else none
      | _ => none
  | .lCloseQ =>
      if s.l = .closeQ then
        if s.chQ then some { s with fatal := some "panic: close of closed channel" }
        else some { s with l := .done, chQ := true }
      else none
  | .cqRecv =>
      if s.cq = .recvQ ∧ s.chQ then some { s with cq := .upClose } else none
  | .cqUpClose =>
      if s.cq = .upClose then some { s with cq := .done, upClosed := true } else none
  | .rqReadErr =>
      if s.rq = .upRead ∧ s.upClosed then some { s with rq := .upClose } else none
  | .rqAbort =>
      if s.rq = .sendR ∧ kn.guardSends ∧ s.chQ then some { s with rq := .upClose } else none
  | .rqUpClose =>
      if s.rq = .upClose then some { s with rq := .sendNil, upClosed := true } else none
  | .rqNilAbort =>
      if s.rq = .sendNil ∧ kn.guardSends ∧ s.chQ then some { s with rq := .done } else none

def Step (kn : Knobs) (c : Cfg) (s : St) (e : Ev) (s' : St) : Prop := step? kn c s e = some s'

inductive Reach (kn : Knobs) (c : Cfg) : St → Prop
  | init : Reach kn c (init c)
  | step {s e s'} : Reach kn c s → Step kn c s e s' → Reach kn c s'

def runEvents (kn : Knobs) (c : Cfg) : St → List Ev → Option St
  | s, [] => some s
  | s, e :: es => match step? kn c s e with
    | some s' => runEvents kn c s' es
    | none => none

theorem reach_of_run {kn : Knobs} {c : Cfg} {s s' : St} {es : List Ev} (h : Reach kn c s)
    (hr : runEvents kn c s es = some s') : Reach kn c s' := by
  induction es generalizing s with
  | nil => simp [runEvents] at hr; subst hr; exact h
  | cons e es ih =>
    simp only [runEvents] at hr
    cases hs : step? kn c s e with
    | none => simp [hs] at hr
    | some s1 => rw [hs] at hr; exact ih (.step h hs) hr

def candidates (s : St) : List Ev :=
  [.upEvent, .upEnd, .clStop, .clTerminate, .clBad, .clGone, .spawnK,
   .hCloseFrame true, .hCloseFrame false, .hConnClose, .hCleanAll]
  ++ (List.range s.ks.length).map .k
  ++ [.lRecv, .lRecvNil, .lRecvClose, .lWrite true, .lWrite false, .lJoin, .lCloseQ,
      .cqRecv, .cqUpClose, .rqReadErr, .rqAbort, .rqUpClose, .rqNilAbort]

def enabled (kn : Knobs) (c : Cfg) (s : St) : List Ev :=
  (candidates s).filter (fun e => (step? kn c s e).isSome)

def fatal (s : St) : Bool := s.fatal.isSome

def allKDone (s : St) : Bool := s.ks.all (fun pc => decide (pc = KPc.done))

/-- every goroutine of the subscription has exited and its upstream connection is closed -/
def final (s : St) : Bool :=
  allKDone s && decide (s.l = .done) && decide (s.cq = .done) && decide (s.rq = .done) && s.upClosed
    && decide (s.h = .done ∨ s.h = .serving)

/-- the subscription is running and nothing has asked it to end -/
def live (s : St) : Bool :=
  decide (s.l = .sel ∨ s.l = .write) && decide (s.rq = .upRead ∨ s.rq = .sendR) && decide (s.cq = .recvQ)
    && !s.isClosed && decide (s.h = .serving) && decide (s.ks = [])

def terminal (kn : Knobs) (c : Cfg) (s : St) : Bool := (enabled kn c s).isEmpty

def stuck (kn : Knobs) (c : Cfg) (s : St) : Bool :=
  terminal kn c s && !fatal s &&
    (!allKDone s || !(s.l == .sel || s.l == .done) || s.rq == .sendR || s.rq == .sendNil
      || s.cq == .upClose || !(s.h == .serving || s.h == .done))

def leak (kn : Knobs) (c : Cfg) (s : St) : Bool := terminal kn c s && !fatal s && !live s && !final s

/-! termination measure -/

def kW : KPc → Nat
  | .lock => 6 | .check => 5 | .set => 4 | .closeC => 3 | .unlock _ => 2 | .setLate => 1 | .done => 0

def lW : LPc → Nat
  | .sel => 10 | .write => 11 | .xclose _ => 2 | .closeQ => 1 | .done => 0

def cqW : CqPc → Nat
  | .recvQ => 2 | .upClose => 1 | .done => 0

def rqW : RqPc → Nat
  | .upRead => 3 | .sendR => 6 | .upClose => 2 | .sendNil => 1 | .done => 0

def hW : HPc → Nat
  | .serving => 5 | .closeFrame => 4 | .connClose => 3 | .cleanAll => 2 | .done => 0

def measure (s : St) : Nat :=
  (s.ks.map kW).sum + lW s.l + cqW s.cq + rqW s.rq + hW s.h
    + (if s.dict then 7 else 0) + 7 * s.spawn + 4 * s.evs

end PebblesVerif.SubProtoFixed
