import PebblesVerif.Model.Merge
/-!
# Model of `merger.TypeURLMap` (type_url_map.go) and `PlanningContext.GetURL` (planner/context.go)

`map[typename]*TypeProps{Fields map[fieldname]url, IsImplementsNode}` as association lists
(first binding of a key is the binding; `set` replaces it in place). `SetFromSchema` ranges over
a Go map of definitions: entries of different keys touch different rows, so the table does not
depend on the iteration order; the model iterates in list order. `GetURLs` and `GetForType`
come out of Go maps: `getURLs` is a duplicate-free list to be read as a SET, `getForType` is
sorted as in the code. Core Lean only.
-/
namespace PebblesVerif.TUM
open PebblesVerif PebblesVerif.Merge
open PebblesVerif.Gen.Merge (Facts idFieldName nodeInterfaceName)

structure TypeProps where
  fields : List (String × String) := []     -- fieldname ↦ url
  implementsNode : Bool := false
  deriving Repr, Inhabited, DecidableEq

abbrev Table := List (String × TypeProps)

def row? (t : Table) (T : String) : Option TypeProps := (t.find? (·.1 == T)).map (·.2)

/-- update the row of `T` (created empty when absent: `t[typename] == nil`) -/
def updRow (T : String) (g : TypeProps → TypeProps) : Table → Table
  | [] => [(T, g {})]
  | (k, p) :: rest => if k == T then (k, g p) :: rest else (k, p) :: updRow T g rest

def setField (f u : String) : List (String × String) → List (String × String)
  | [] => [(f, u)]
  | (k, v) :: rest => if k == f then (k, u) :: rest else (k, v) :: setField f u rest

/-- `Set(typename, fieldname, url)`: `id` (by NAME) is never stored -/
def set (t : Table) (T f u : String) : Table :=
  if f == idFieldName then t else updRow T (fun p => { p with fields := setField f u p.fields }) t

/-- `SetTypeIsImplementsNode` -/
def setNode (t : Table) (T : String) : Table := updRow T (fun p => { p with implementsNode := true }) t

/-- `Get` -/
def get (t : Table) (T f : String) : Option String :=
  match row? t T with
  | none => none
  | some p => (p.fields.find? (·.1 == f)).map (·.2)

/-- `GetTypeIsImplementsNode`: `none` = `ok == false` -/
def isNode? (t : Table) (T : String) : Option Bool := (row? t T).map (·.implementsNode)

def dedup : List String → List String
  | [] => []
  | x :: xs => x :: (dedup xs).filter (· != x)

/-- `GetURLs`: every url stored for some field, once; ORDER is Go map order (a set) -/
def getURLs (t : Table) : List String := dedup (t.flatMap (fun r => r.2.fields.map (·.2)))

def insertSorted (x : String) : List String → List String
  | [] => [x]
  | y :: ys => if x < y then x :: y :: ys else y :: insertSorted x ys

def sortStrings (l : List String) : List String := l.foldr insertSorted []

/-- `GetForType`: urls of the row, once, `sort.Strings`-ed; `none` = `ok == false` -/
def getForType (t : Table) (T : String) : Option (List String) :=
  (row? t T).map (fun p => sortStrings (dedup (p.fields.map (·.2))))

/-- which fields `SetFromSchema` leaves out besides `id` -/
def skipsField (F : Facts) (T : String) (f : FieldDef) : Bool :=
  isBuiltinName f.name || (if F.tumNodeFieldRootOnly then isRootName T && isNodeField F f else isNodeField F f)

/-- one definition of the ranged-over map -/
def setFromDef (F : Facts) (url : String) (t : Table) (v : TypeDef) : Table :=
  if v.kind != .object || isBuiltinName v.name then t
  else
    let t := if implementsNode v then setNode t v.name else t
    v.fields.foldl (fun t f => if skipsField F v.name f then t else set t v.name f.name url) t

/-- `SetFromSchema(schema, url)` -/
def setFromSchema (F : Facts) (t : Table) (types : List TypeDef) (url : String) : Table :=
  types.foldl (setFromDef F url) t

/-- the table `Merge` builds: `SetFromSchema` per input, in input order (last writer wins) -/
def build (F : Facts) (inputs : List MergeInput) : Table :=
  inputs.foldl (fun t i => setFromSchema F t i.schema.types i.url) []

/-- `PlanningContext.GetURL(typename, fieldname, fburl)`; `internal` is `common.InternalServiceName` -/
def getURL (t : Table) (internal : String) (T f fburl : String) : Except String String :=
  if isBuiltinName f then .ok fburl
  else match isNode? t T with
    | none => .error "could not find location type"
    | some isNode =>
      if !isNode && fburl != internal && !isRootName T then .ok fburl
      else match get t T f with
        | none => .error "could not find location for field"
        | some u => .ok u

end PebblesVerif.TUM
