import PebblesVerif.Model.Merge
import PebblesVerif.Basic.Tum
/-!
# Model of `merger.TypeURLMap` (type_url_map.go) and `PlanningContext.GetURL` (planner/context.go)

BUILDS values of the shared table type `PebblesVerif.Tum` (Basic/Tum.lean:
`map[typename]*TypeProps{Fields map[fieldname]url, IsImplementsNode}` as association lists, first
binding of a key is the binding; lookups `Tum.get?`, `Tum.isNode?`, `Tum.props?`, `Tum.urls` live
there); `set` replaces a binding in place. `SetFromSchema` ranges over
a Go map of definitions: entries of different keys touch different rows, so the table does not
depend on the iteration order; the model iterates in list order. `GetURLs` and `GetForType`
come out of Go maps: `getURLs` is a duplicate-free list to be read as a SET, `getForType` is
sorted as in the code. Core Lean only.
-/
namespace PebblesVerif.TUM
open PebblesVerif PebblesVerif.Merge
open PebblesVerif.Gen.Merge (Facts idFieldName nodeInterfaceName)

abbrev Table := Tum

/-- `&TypeProps{Fields: make(map[string]string)}` -/
def emptyProps : TypeProps := { fields := [], isNode := false }

/-- update the row of `T` (created empty when absent: `t[typename] == nil`) -/
def updRow (T : String) (g : TypeProps → TypeProps) : Table → Table
  | [] => [(T, g emptyProps)]
  | (k, p) :: rest => if k == T then (k, g p) :: rest else (k, p) :: updRow T g rest

def setField (f u : String) : List (String × String) → List (String × String)
  | [] => [(f, u)]
  | (k, v) :: rest => if k == f then (k, u) :: rest else (k, v) :: setField f u rest

/-- `Set(typename, fieldname, url)`: `id` (by NAME) is never stored -/
def set (t : Table) (T f u : String) : Table :=
  if f == idFieldName then t else updRow T (fun p => { p with fields := setField f u p.fields }) t

/-- `SetTypeIsImplementsNode` -/
def setNode (t : Table) (T : String) : Table := updRow T (fun p => { p with isNode := true }) t

/-- `Get` is `Tum.get?`, `GetTypeIsImplementsNode` is `Tum.isNode?`, `GetURLs` is `Tum.urls`
    (every url stored for some field, once; ORDER is Go map order: a set) -/
abbrev get (t : Table) (T f : String) : Option String := Tum.get? t T f
abbrev isNode? (t : Table) (T : String) : Option Bool := Tum.isNode? t T
abbrev getURLs (t : Table) : List String := Tum.urls t

def insertSorted (x : String) : List String → List String
  | [] => [x]
  | y :: ys => if x < y then x :: y :: ys else y :: insertSorted x ys

def sortStrings (l : List String) : List String := l.foldr insertSorted []

/-- `GetForType`: urls of the row, once, `sort.Strings`-ed; `none` = `ok == false` -/
def getForType (t : Table) (T : String) : Option (List String) :=
  (Tum.props? t T).map (fun p => sortStrings (Tum.dedup (p.fields.map (·.2))))

/-- which fields `SetFromSchema` leaves out besides `id` -/
def skipsField (F : Facts) (T : String) (f : FieldDef) : Bool :=
  isBuiltinName f.name || (if F.tumNodeFieldRootOnly then isRootName T && isNodeField F f else isNodeField F f)

/-- one definition of the ranged-over map -/
def setFromDef (F : Facts) (url : String) (t : Table) (v : TypeDef) : Table :=
  if v.kind != .object || isBuiltinName v.name then t
  else
    let t := if implementsNode v then setNode t v.name else t
    v.fields.foldl (fun t f => if skipsField F v.name f then t else set t v.name f.name url) t

/-- `SetFromSchema(schema, url)` -/
def setFromSchema (F : Facts) (t : Table) (types : List TypeDef) (url : String) : Table :=
  types.foldl (setFromDef F url) t

/-- the table `Merge` builds: `SetFromSchema` per input, in input order (last writer wins) -/
def build (F : Facts) (inputs : List MergeInput) : Table :=
  inputs.foldl (fun t i => setFromSchema F t i.schema.types i.url) []

/-- `PlanningContext.GetURL(typename, fieldname, fburl)`; `internal` is `common.InternalServiceName` -/
def getURL (t : Table) (internal : String) (T f fburl : String) : Except String String :=
  if isBuiltinName f then .ok fburl
  else match isNode? t T with
    | none => .error "could not find location type"
    | some isNode =>
      if !isNode && fburl != internal && !isRootName T then .ok fburl
      else match get t T f with
        | none => .error "could not find location for field"
        | some u => .ok u

end PebblesVerif.TUM
