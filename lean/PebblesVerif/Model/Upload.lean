import PebblesVerif.Gen.Requests
/-!
# Model of the upload path (C19, shared with C07)

* `requests.(*ParseRequestResponse).injectFile` (`requests/request.go:145-214`) — `walk`,
  `injectPath`, `injectFile`, `injectEntries`;
* `queryer.extractFiles` / `(*UploadMap).extract` (`queryer/files.go:43-81`) — `nullKVs`
  (what is left in the variables) and `upsKVs` (one item per occurrence of an upload);
* `queryer.prepareMultipart` / `fetchFile` / `queryBatch` (`files.go:83-127`, `fetch.go:107-135`,
  `multiop_queryer.go:119-163`) — `emitParts`, `sendStep`: one multipart call per request that
  carries uploads, one JSON call for all the others; every upload is ONE reader, so the second
  part encoded from it is empty (`emitParts` threads the set of consumed readers).

Variable trees are `V`: decoded JSON (`null`, scalars, objects, lists) with `upload k` leaves
where Go stores the `*requests.Upload` created for the `k`-th entry of the file map.
Go panics are explicit results (`Res.panic`), driven by the regenerated guard facts
(`Gen.Requests.Facts`): the model describes the tree that is there.
Core Lean only.
-/
namespace PebblesVerif.Upload
open PebblesVerif.Gen.Requests (Facts)

/-- variable trees: what `map[string]interface{}` holds after `encoding/json` and `injectFile` -/
inductive V where
  | null
  | scalar (s : String)          -- "b:true" | "n:<numeral>" | "s:<text>"
  | upload (k : Nat)             -- the *Upload made for file-map entry k (one shared reader)
  | obj (kvs : List (String × V))
  | list (xs : List V)
  deriving Repr, Inhabited

mutual
/-- decidable equality (the `deriving` handler does not cover nested inductives) -/
def V.decEq : (a b : V) → Decidable (a = b)
  | .null, .null => isTrue rfl
  | .scalar s, .scalar t =>
    if h : s = t then isTrue (by rw [h]) else isFalse (fun e => by cases e; exact h rfl)
  | .upload k, .upload l =>
    if h : k = l then isTrue (by rw [h]) else isFalse (fun e => by cases e; exact h rfl)
  | .obj a, .obj b =>
    match V.decEqKVs a b with
    | isTrue h => isTrue (by rw [h])
    | isFalse h => isFalse (fun e => by cases e; exact h rfl)
  | .list a, .list b =>
    match V.decEqL a b with
    | isTrue h => isTrue (by rw [h])
    | isFalse h => isFalse (fun e => by cases e; exact h rfl)
  | .null, .scalar _ => isFalse nofun
  | .null, .upload _ => isFalse nofun
  | .null, .obj _ => isFalse nofun
  | .null, .list _ => isFalse nofun
  | .scalar _, .null => isFalse nofun
  | .scalar _, .upload _ => isFalse nofun
  | .scalar _, .obj _ => isFalse nofun
  | .scalar _, .list _ => isFalse nofun
  | .upload _, .null => isFalse nofun
  | .upload _, .scalar _ => isFalse nofun
  | .upload _, .obj _ => isFalse nofun
  | .upload _, .list _ => isFalse nofun
  | .obj _, .null => isFalse nofun
  | .obj _, .scalar _ => isFalse nofun
  | .obj _, .upload _ => isFalse nofun
  | .obj _, .list _ => isFalse nofun
  | .list _, .null => isFalse nofun
  | .list _, .scalar _ => isFalse nofun
  | .list _, .upload _ => isFalse nofun
  | .list _, .obj _ => isFalse nofun
def V.decEqKVs : (a b : List (String × V)) → Decidable (a = b)
  | [], [] => isTrue rfl
  | [], _ :: _ => isFalse nofun
  | _ :: _, [] => isFalse nofun
  | (k, v) :: r, (k', v') :: r' =>
    if hk : k = k' then
      match V.decEq v v', V.decEqKVs r r' with
      | isTrue hv, isTrue hr => isTrue (by rw [hk, hv, hr])
      | isFalse hv, _ => isFalse (fun e => by cases e; exact hv rfl)
      | _, isFalse hr => isFalse (fun e => by cases e; exact hr rfl)
    else isFalse (fun e => by cases e; exact hk rfl)
def V.decEqL : (a b : List V) → Decidable (a = b)
  | [], [] => isTrue rfl
  | [], _ :: _ => isFalse nofun
  | _ :: _, [] => isFalse nofun
  | v :: r, v' :: r' =>
    match V.decEq v v', V.decEqL r r' with
    | isTrue hv, isTrue hr => isTrue (by rw [hv, hr])
    | isFalse hv, _ => isFalse (fun e => by cases e; exact hv rfl)
    | _, isFalse hr => isFalse (fun e => by cases e; exact hr rfl)
end

instance : DecidableEq V := V.decEq

/-- classes of error messages (prefix of the Go message) -/
inductive ErrClass where
  | onlyPost | unknownContentType | multipartForm
  | parseBatch | parseSingle | missingQuery
  | opsParseBatch | opsParseSingle | opsMissingQuery      -- "unable to parse request: …" (multipart branch)
  | fileMapParse | fileMapEmpty | fileNotFound
  | batchIndexSyntax          -- strconv.Atoi error on the batch prefix, returned raw
  | missingVariablesKeyword | invalidParts | requestIndexOutOfBound
  | keyNotFound | expectedNumericIndex | indexOutOfBound | expectedNil
  deriving DecidableEq, Repr, Inhabited

def ErrClass.name : ErrClass → String
  | .onlyPost => "onlyPost"
  | .unknownContentType => "unknownContentType"
  | .multipartForm => "multipartForm"
  | .parseBatch => "parseBatch"
  | .parseSingle => "parseSingle"
  | .missingQuery => "missingQuery"
  | .opsParseBatch => "opsParseBatch"
  | .opsParseSingle => "opsParseSingle"
  | .opsMissingQuery => "opsMissingQuery"
  | .fileMapParse => "fileMapParse"
  | .fileMapEmpty => "fileMapEmpty"
  | .fileNotFound => "fileNotFound"
  | .batchIndexSyntax => "batchIndexSyntax"
  | .missingVariablesKeyword => "missingVariablesKeyword"
  | .invalidParts => "invalidParts"
  | .requestIndexOutOfBound => "requestIndexOutOfBound"
  | .keyNotFound => "keyNotFound"
  | .expectedNumericIndex => "expectedNumericIndex"
  | .indexOutOfBound => "indexOutOfBound"
  | .expectedNil => "expectedNil"

/-- the Go operation that panicked -/
inductive PanicClass where
  | nilRequest        -- r.Query / req.Original on a nil *Request
  | partsEmpty        -- parts[0] with len(parts) == 0
  | requestIndex      -- r.Requests[idx] out of range (also negative)
  | listIndex         -- v[index] with a negative index
  | emitIndex         -- rs[0] on an empty Results (unreachable: see C07_single_has_one)
  deriving DecidableEq, Repr, Inhabited

def PanicClass.name : PanicClass → String
  | .nilRequest => "nilRequest"
  | .partsEmpty => "partsEmpty"
  | .requestIndex => "requestIndex"
  | .listIndex => "listIndex"
  | .emitIndex => "emitIndex"

inductive Res (α : Type) where
  | ok (a : α)
  | err (e : ErrClass)
  | panic (p : PanicClass)
  deriving Repr, Inhabited, DecidableEq

def Res.isPanic {α} : Res α → Bool
  | .panic _ => true
  | _ => false

def Res.isOk {α} : Res α → Bool
  | .ok _ => true
  | _ => false

def Res.isErr {α} : Res α → Bool
  | .err _ => true
  | _ => false

/-! ## Go maps as association lists (first binding is the binding) -/

def lookup (k : String) : List (String × V) → Option V
  | [] => none
  | (k', v) :: rest => if k = k' then some v else lookup k rest

/-- map assignment: replaces the first binding or appends -/
def setKey (k : String) (v : V) : List (String × V) → List (String × V)
  | [] => [(k, v)]
  | (k', v') :: rest => if k = k' then (k, v) :: rest else (k', v') :: setKey k v rest

/-! ## strconv.Atoi and strings.Split -/

/-- `strconv.Atoi` on a 64-bit platform: optional sign, one or more ASCII digits, int64 range -/
def atoi (s : String) : Option Int :=
  let cs := s.toList
  let neg := cs.head? == some '-'
  let ds := if cs.head? == some '-' || cs.head? == some '+' then cs.tail else cs
  if ds.isEmpty || !ds.all Char.isDigit then none
  else
    let n := Nat.ofDigitChars 10 ds 0
    if neg then (if n ≤ 2 ^ 63 then some (- (n : Int)) else none)
    else (if n < 2 ^ 63 then some (n : Int) else none)

/-- `strings.Split(s, sep)` for a one-character separator, on characters; never empty -/
def splitChars (sep : Char) : List Char → List (List Char)
  | [] => [[]]
  | c :: cs =>
    if c = sep then [] :: splitChars sep cs
    else match splitChars sep cs with
      | [] => [[c]]
      | h :: t => (c :: h) :: t

def splitDot (s : String) : List String := (splitChars '.' s.toList).map String.ofList

def joinChars (sep : Char) : List (List Char) → List Char
  | [] => []
  | [p] => p
  | p :: q :: r => p ++ sep :: joinChars sep (q :: r)

def joinDot (parts : List String) : String := String.ofList (joinChars '.' (parts.map String.toList))

/-! ## injectFile -/

/-- The loop `for i := 1; i < len(parts); i++` of `injectFile`, from the current part on, inside
the current map `m` (`variables` in the Go). Quirks kept: a `nil` leaf is replaced and the loop
goes on with the next part in the SAME map; an object at the end of the path is accepted
silently; a list needs a following index part, checked against the upper bound only (a negative
index panics unless the `index < 0` guard is there); after a list the loop goes on in the map
that holds the list. -/
def walk (F : Facts) (u : Nat) : List String → List (String × V) → Res (List (String × V))
  | [], m => .ok m
  | p :: rest, m =>
    match lookup p m with
    | none => .err .keyNotFound
    | some (.obj sub) =>
      match walk F u rest sub with
      | .ok sub' => .ok (setKey p (.obj sub') m)
      | .err e => .err e
      | .panic x => .panic x
    | some .null => walk F u rest (setKey p (.upload u) m)
    | some (.list xs) =>
      match rest with
      | [] => .err .invalidParts
      | q :: rest' =>
        match atoi q with
        | none => .err .expectedNumericIndex
        | some idx =>
          if idx < 0 then (if F.negIndexGuard then .err .indexOutOfBound else .panic .listIndex)
          else
            match xs[idx.toNat]? with
            | none => .err .indexOutOfBound
            | some .null => walk F u rest' (setKey p (.list (xs.set idx.toNat (.upload u))) m)
            | some _ => .err .expectedNil
    | some _ => .err .expectedNil

/-- one request as `requests.Request` holds it (`vars = none`: nil map) -/
structure Req where
  query : String
  vars : Option (List (String × V))
  opName : Option String
  deriving Repr, Inhabited, DecidableEq

/-- `r.Requests[idx]` -/
def reqAt (F : Facts) (reqs : List Req) (idx : Int) : Res (Nat × Req) :=
  if idx < 0 then (if F.requestIndexGuard then .err .requestIndexOutOfBound else .panic .requestIndex)
  else match reqs[idx.toNat]? with
    | some r => .ok (idx.toNat, r)
    | none => if F.requestIndexGuard then .err .requestIndexOutOfBound else .panic .requestIndex

/-- the body of `for _, path := range paths` once the request index is known: keyword and length
checks, `r.Requests[idx].Variables`, the walk -/
def injectAt (F : Facts) (u : Nat) (idx : Int) (parts : List String) (reqs : List Req) : Res (List Req) :=
  match parts with
  | [] => if F.partsEmptyGuard then .err .missingVariablesKeyword else .panic .partsEmpty
  | p0 :: rest =>
    if p0 ≠ F.variablesKeyword then .err .missingVariablesKeyword
    else if rest.isEmpty then .err .invalidParts
    else match reqAt F reqs idx with
      | .err e => .err e
      | .panic x => .panic x
      | .ok (i, r) =>
        match r.vars with
        | none => .err .keyNotFound       -- reading a nil map: not found
        | some m =>
          match walk F u rest m with
          | .ok m' => .ok (reqs.set i { r with vars := some m' })
          | .err e => .err e
          | .panic x => .panic x

/-- body of `for _, path := range paths` for one path, after the split: in batch mode the
request index hides in the first part -/
def injectParts (F : Facts) (batch : Bool) (u : Nat) (parts0 : List String) (reqs : List Req) : Res (List Req) :=
  if batch then
    match parts0 with
    | [] => .panic .partsEmpty          -- strings.Split never returns an empty slice
    | p0 :: ps => match atoi p0 with
      | none => .err .batchIndexSyntax
      | some i => injectAt F u i ps reqs
  else injectAt F u 0 parts0 reqs

def injectPath (F : Facts) (batch : Bool) (u : Nat) (path : String) (reqs : List Req) : Res (List Req) :=
  injectParts F batch u (splitDot path) reqs

/-- `injectFile(upload, paths)`: stops at the first path that fails -/
def injectFile (F : Facts) (batch : Bool) (u : Nat) : List String → List Req → Res (List Req)
  | [], reqs => .ok reqs
  | path :: more, reqs =>
    match injectPath F batch u path reqs with
    | .ok reqs' => injectFile F batch u more reqs'
    | .err e => .err e
    | .panic x => .panic x

/-- the loop `for filePos, paths := range filePosMap` in the order `entries` are given (Go map
order: the caller supplies the order; upload ids are fixed by the caller). `files` are the form
keys that carry a file. -/
def injectEntries (F : Facts) (batch : Bool) (files : List String) :
    List (Nat × String × List String) → List Req → Res (List Req)
  | [], reqs => .ok reqs
  | (u, key, paths) :: more, reqs =>
    if !files.contains key then .err .fileNotFound
    else match injectFile F batch u paths reqs with
      | .ok reqs' => injectEntries F batch files more reqs'
      | .err e => .err e
      | .panic x => .panic x

/-! ## extractFiles -/

mutual
/-- the tree after extraction: every upload occurrence set to `nil` -/
def nullV : V → V
  | .upload _ => .null
  | .obj kvs => .obj (nullKVs kvs)
  | .list xs => .list (nullL xs)
  | .null => .null
  | .scalar s => .scalar s
def nullKVs : List (String × V) → List (String × V)
  | [] => []
  | (k, v) :: r => (k, nullV v) :: nullKVs r
def nullL : List V → List V
  | [] => []
  | v :: r => nullV v :: nullL r
end

def consAll (k : String) (l : List (Nat × List String)) : List (Nat × List String) :=
  l.map (fun x => (x.1, k :: x.2))

mutual
/-- upload occurrences with their position relative to the value (Go builds the same strings
top-down with `fmt.Sprintf("%s.%s")` / `"%s.%d"`), in traversal order of the association lists -/
def upsV : V → List (Nat × List String)
  | .upload k => [(k, [])]
  | .obj kvs => upsKVs kvs
  | .list xs => upsL 0 xs
  | .null => []
  | .scalar _ => []
def upsKVs : List (String × V) → List (Nat × List String)
  | [] => []
  | (k, v) :: r => consAll k (upsV v) ++ upsKVs r
def upsL (i : Nat) : List V → List (Nat × List String)
  | [] => []
  | v :: r => consAll (toString i) (upsV v) ++ upsL (i + 1) r
end

/-- `extractFiles(input)`: what stays in `input.Variables`, and the upload map items
(`variables.<path>`), one per occurrence -/
def extractFiles (F : Facts) (vars : Option (List (String × V))) :
    Option (List (String × V)) × List (Nat × List String) :=
  match vars with
  | none => (none, [])
  | some m => (some (nullKVs m), consAll F.positionPrefix (upsKVs m))

/-- What the CLIENT's tree looks like after a step extracted from its per-step copy
(`executor.getVariables` copies the top-level map only): top-level uploads were nulled in the
copy — the client still has them; nested ones were nulled in place in the shared subtree. -/
def afterStepV : V → V
  | .upload k => .upload k
  | v => nullV v

def afterStep : List (String × V) → List (String × V)
  | [] => []
  | (k, v) :: r => (k, afterStepV v) :: afterStep r

/-! ## prepareMultipart over read-once files -/

structure Part where
  file : Nat
  path : List String
  /-- the reader had not been drained before: the part carries the file's bytes; otherwise it is empty -/
  fresh : Bool
  deriving DecidableEq, Repr

/-- `io.Copy(fw, upload.File)` for each item in order; `consumed` = readers already drained -/
def emitParts : List (Nat × List String) → List Nat → List Part × List Nat
  | [], consumed => ([], consumed)
  | (k, p) :: r, consumed =>
    let (ps, c') := emitParts r (k :: consumed)
    (⟨k, p, !consumed.contains k⟩ :: ps, c')

/-- one downstream HTTP call of `queryBatch` -/
inductive Call where
  | multipart (req : Nat) (vars : Option (List (String × V))) (parts : List Part)
  | json (reqs : List (Nat × Option (List (String × V))))
  deriving Repr, DecidableEq

/-- the loop of `queryBatch`: multipart calls (made inside the loop, in input order), the inputs
left for the JSON call, and the drained readers -/
def stepCalls (F : Facts) : Nat → List (Option (List (String × V))) → List Nat →
    List Call × List (Nat × Option (List (String × V))) × List Nat
  | _, [], c => ([], [], c)
  | i, vars :: more, c =>
    let ex := extractFiles F vars
    if ex.2.isEmpty then
      let r := stepCalls F (i + 1) more c
      (r.1, (i, ex.1) :: r.2.1, r.2.2)
    else
      let pc := emitParts ex.2 c
      let r := stepCalls F (i + 1) more pc.2
      (Call.multipart i ex.1 pc.1 :: r.1, r.2.1, r.2.2)

/-- `queryBatch`: one multipart call per input with uploads, then one JSON call for the rest
(none if there is no rest). Returns the calls and the drained readers. -/
def sendStep (F : Facts) (inputs : List (Option (List (String × V)))) (consumed : List Nat) : List Call × List Nat :=
  let r := stepCalls F 0 inputs consumed
  (r.1 ++ (if r.2.1.isEmpty then [] else [Call.json r.2.1]), r.2.2)

end PebblesVerif.Upload
