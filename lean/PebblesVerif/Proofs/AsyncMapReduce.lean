import PebblesVerif.Model.AsyncMapReduce

/-! Inductive invariant of the `AsyncMapReduce` transition system, for every `n`, every
success/error pattern and every schedule. -/
namespace PebblesVerif.AMR

structure Inv (c : Cfg) (s : St) : Prop where
  len : s.ws.length = c.n
  cnt : s.ws.count .done = s.acc.length + s.errs.length + rWeight s.red
  wg : s.wg + s.acc.length + s.errs.length = c.n
  nofault : s.fault = false
  mainRed : s.red = .exited ↔ (s.main = .sent ∨ s.main = .returned)
  passed : s.main ≠ .waiting → s.wg = 0
  doneIff : ∀ i, s.ws[i]? = some .done ↔ (i ∈ s.acc ∨ i ∈ s.errs ∨ s.red = .reducing i)
  accOk : ∀ i ∈ s.acc, c.ok[i]? = some true
  errOk : ∀ i ∈ s.errs, c.ok[i]? = some false
  redOk : ∀ i, s.red = .reducing i → c.ok[i]? = some true
  redNotIn : ∀ i, s.red = .reducing i → i ∉ s.acc
  accNodup : s.acc.Nodup
  errNodup : s.errs.Nodup
  mappedIff : ∀ i, i ∈ s.mapped ↔ ∃ w, s.ws[i]? = some w ∧ w ≠ .idle
  mappedNodup : s.mapped.Nodup

theorem getElem?_replicate_idle {n i : Nat} {w : W} (h : (List.replicate n W.idle)[i]? = some w) :
    w = .idle := by
  rw [List.getElem?_replicate] at h
  split at h <;> simp_all

theorem inv_init (c : Cfg) : Inv c (init c) := by
  refine ⟨by simp [init], ?_, by simp [init], rfl, by simp [init], by simp [init], ?_, by simp [init],
    by simp [init], by simp [init], by simp [init], by simp [init], by simp [init], ?_, by simp [init]⟩
  · simp [init, rWeight, List.count_replicate]
  · intro i
    simp only [init, List.not_mem_nil, reduceCtorEq, or_self, iff_false]
    intro h
    have := getElem?_replicate_idle h
    cases this
  · intro i
    simp only [init, List.not_mem_nil, false_iff, not_exists, not_and, Decidable.not_not]
    intro w h
    exact getElem?_replicate_idle h

/-- when the counter is zero every worker is done and no reduce is in progress -/
theorem Inv.allDone {c s} (h : Inv c s) (h0 : s.wg = 0) :
    (∀ w ∈ s.ws, w = .done) ∧ rWeight s.red = 0 := by
  have h1 := h.wg
  have h2 := h.cnt
  have h3 := h.len
  have h4 : s.ws.count .done ≤ s.ws.length := List.count_le_length
  have h5 : s.ws.count .done = s.ws.length := by omega
  refine ⟨?_, by omega⟩
  intro w hw
  exact ((List.count_eq_length.mp h5) w hw).symm

theorem lt_of_getElem?_eq_some {α} {l : List α} {i : Nat} {a : α} (h : l[i]? = some a) :
    i < l.length := by
  rcases Nat.lt_or_ge i l.length with h' | h'
  · exact h'
  · rw [List.getElem?_eq_none h'] at h; cases h

theorem count_done_set {l : List W} {i : Nat} {a b : W} (h : l[i]? = some a) :
    (l.set i b).count .done + (if a = .done then 1 else 0)
      = l.count .done + (if b = .done then 1 else 0) := by
  have hi := lt_of_getElem?_eq_some h
  rw [List.count_set hi]
  have hget : l[i] = a := by
    rw [List.getElem?_eq_getElem hi] at h; exact Option.some.inj h
  have hle : (if a = W.done then 1 else 0) ≤ l.count .done := by
    split
    · rename_i ha
      subst ha
      have : l[i] ∈ l := List.getElem_mem hi
      rw [hget] at this
      exact List.count_pos_iff.mpr this
    · omega
  simp only [hget, beq_iff_eq]
  omega

theorem getElem?_set' {l : List W} {i j : Nat} {a b : W} (h : l[i]? = some a) :
    (l.set i b)[j]? = if i = j then some b else l[j]? := by
  rw [List.getElem?_set]
  have := lt_of_getElem?_eq_some h
  split <;> simp_all

theorem inv_mapBegin {c s i} (h : Inv c s) (hc : s.ws[i]? = some .idle) :
    Inv c { s with ws := s.ws.set i .mapping, mapped := s.mapped ++ [i] } := by
  have hcnt := count_done_set (b := .mapping) hc
  have hget := fun j => getElem?_set' (b := .mapping) (j := j) hc
  refine ⟨by simpa using h.len, ?_, h.wg, h.nofault, h.mainRed, h.passed, ?_, h.accOk, h.errOk, h.redOk,
    h.redNotIn, h.accNodup, h.errNodup, ?_, ?_⟩
  · have := h.cnt; simp at hcnt; simp only; omega
  · intro j
    simp only [hget]
    split
    · rename_i hij; subst hij
      have := (h.doneIff i).symm
      simp [hc] at this
      simp [this]
    · exact h.doneIff j
  · intro j
    simp only [hget, List.mem_append, List.mem_singleton]
    split
    · rename_i hij; subst hij; simp
    · rename_i hij
      have : ¬ j = i := fun h => hij h.symm
      simp [this, h.mappedIff j]
  · simp only
    rw [List.nodup_append]
    refine ⟨h.mappedNodup, by simp, ?_⟩
    intro a ha b hb
    simp at hb; subst hb
    intro hab; subst hab
    have := (h.mappedIff a).mp ha
    simp [hc] at this

theorem inv_mapEnd {c s i} (h : Inv c s) (hc : s.ws[i]? = some .mapping) :
    Inv c { s with ws := s.ws.set i .ready } := by
  have hcnt := count_done_set (b := .ready) hc
  have hget := fun j => getElem?_set' (b := .ready) (j := j) hc
  refine ⟨by simpa using h.len, ?_, h.wg, h.nofault, h.mainRed, h.passed, ?_, h.accOk, h.errOk, h.redOk,
    h.redNotIn, h.accNodup, h.errNodup, ?_, h.mappedNodup⟩
  · have := h.cnt; simp at hcnt; simp only; omega
  · intro j
    simp only [hget]
    split
    · rename_i hij; subst hij
      have := (h.doneIff i).symm
      simp [hc] at this
      simp [this]
    · exact h.doneIff j
  · intro j
    simp only [hget]
    split
    · rename_i hij; subst hij
      have := h.mappedIff i
      simp [hc] at this
      simp [this]
    · exact h.mappedIff j

theorem inv_reduceBegin {c s i} (h : Inv c s) (hc : s.ws[i]? = some .ready)
    (hok : c.ok[i]? = some true) (hr : s.red = .sel) :
    Inv c { s with ws := s.ws.set i .done, red := .reducing i } := by
  have hcnt := count_done_set (b := .done) hc
  have hget := fun j => getElem?_set' (b := .done) (j := j) hc
  have hnd := (h.doneIff i)
  simp [hc, hr] at hnd
  refine ⟨by simpa using h.len, ?_, h.wg, h.nofault, ?_, h.passed, ?_, h.accOk, h.errOk, ?_, ?_,
    h.accNodup, h.errNodup, ?_, h.mappedNodup⟩
  · have := h.cnt; simp at hcnt; simp only [rWeight, hr] at this ⊢; omega
  · have := h.mainRed; simp [hr] at this; simp [this]
  · intro j
    simp only [hget]
    split
    · rename_i hij; subst hij; simp
    · rename_i hij
      have := h.doneIff j
      simp only [hr, reduceCtorEq, or_false] at this
      simp only [this, R.reducing.injEq]
      have : ¬ i = j := hij
      simp [this]
  · intro j hj
    simp at hj; subst hj; exact hok
  · intro j hj
    simp at hj; subst hj; exact hnd.1
  · intro j
    simp only [hget]
    split
    · rename_i hij; subst hij
      have := h.mappedIff i
      simp [hc] at this
      simp [this]
    · exact h.mappedIff j

theorem inv_reduceEnd {c s i} (h : Inv c s) (hr : s.red = .reducing i) :
    Inv c { s with red := .sel, acc := s.acc ++ [i], wg := s.wg - 1,
                   fault := s.fault || (s.wg == 0) } := by
  have hcnt := h.cnt
  have hle : s.ws.count .done ≤ s.ws.length := List.count_le_length
  have hlen := h.len
  have hwg := h.wg
  simp only [hr, rWeight] at hcnt
  have hpos : 0 < s.wg := by omega
  have hw : s.main = .waiting := by
    rcases hm : s.main with _ | _ | _ | _
    · rfl
    all_goals (have := h.passed (by simp [hm]); omega)
  refine ⟨hlen, ?_, ?_, ?_, ?_, ?_, ?_, ?_, h.errOk, ?_, ?_, ?_, h.errNodup, h.mappedIff, h.mappedNodup⟩
  · simp [rWeight]; omega
  · simp; omega
  · simp [h.nofault]; omega
  · simp [hw]
  · simp [hw]
  · intro j
    have := h.doneIff j
    simp only [hr, R.reducing.injEq] at this
    simp only [this, List.mem_append, List.mem_singleton, reduceCtorEq, or_false]
    constructor
    · rintro (h1 | h1 | h1)
      · exact Or.inl (Or.inl h1)
      · exact Or.inr h1
      · exact Or.inl (Or.inr h1.symm)
    · rintro ((h1 | h1) | h1)
      · exact Or.inl h1
      · exact Or.inr (Or.inr h1.symm)
      · exact Or.inr (Or.inl h1)
  · intro j hj
    simp only [List.mem_append, List.mem_singleton] at hj
    rcases hj with hj | hj
    · exact h.accOk j hj
    · subst hj; exact h.redOk _ hr
  · intro j hj; simp at hj
  · intro j hj; simp at hj
  · simp only
    rw [List.nodup_append]
    refine ⟨h.accNodup, by simp, ?_⟩
    intro a ha b hb
    simp at hb; subst hb
    intro hab; subst hab
    exact h.redNotIn _ hr ha

theorem inv_errRecv {c s i} (h : Inv c s) (hc : s.ws[i]? = some .ready)
    (hok : c.ok[i]? = some false) (hr : s.red = .sel) :
    Inv c { s with ws := s.ws.set i .done, errs := s.errs ++ [i], wg := s.wg - 1,
                   fault := s.fault || (s.wg == 0) } := by
  have hcnt := count_done_set (b := .done) hc
  have hget := fun j => getElem?_set' (b := .done) (j := j) hc
  have hnd := (h.doneIff i)
  simp [hc, hr] at hnd
  have hle : (s.ws.set i .done).count .done ≤ (s.ws.set i .done).length := List.count_le_length
  have hlen := h.len
  have hwg := h.wg
  have hcnt0 := h.cnt
  simp only [hr, rWeight] at hcnt0
  simp at hcnt hle
  have hpos : 0 < s.wg := by omega
  have hw : s.main = .waiting := by
    rcases hm : s.main with _ | _ | _ | _
    · rfl
    all_goals (have := h.passed (by simp [hm]); omega)
  refine ⟨by simpa using h.len, ?_, ?_, ?_, ?_, ?_, ?_, h.accOk, ?_, ?_, ?_, h.accNodup, ?_, ?_,
    h.mappedNodup⟩
  · simp [rWeight, hr]; omega
  · simp; omega
  · simp [h.nofault]; omega
  · have := h.mainRed; simp [hr] at this; simp [hr, hw]
  · simp [hw]
  · intro j
    simp only [hget]
    split
    · rename_i hij; subst hij; simp
    · rename_i hij
      have := h.doneIff j
      simp only [hr, reduceCtorEq, or_false] at this
      have hne : ¬ j = i := fun h => hij h.symm
      simp [this, hr, hne]
  · intro j hj
    simp only [List.mem_append, List.mem_singleton] at hj
    rcases hj with hj | hj
    · exact h.errOk j hj
    · subst hj; exact hok
  · intro j hj; simp [hr] at hj
  · intro j hj; simp [hr] at hj
  · simp only
    rw [List.nodup_append]
    refine ⟨h.errNodup, by simp, ?_⟩
    intro a ha b hb
    simp at hb; subst hb
    intro hab; subst hab
    exact hnd.2 ha
  · intro j
    simp only [hget]
    split
    · rename_i hij; subst hij
      have := h.mappedIff i
      simp [hc] at this
      simp [this]
    · exact h.mappedIff j

theorem inv_waitPass {c s} (h : Inv c s) (hm : s.main = .waiting) (h0 : s.wg = 0) :
    Inv c { s with main := .passed } := by
  refine ⟨h.len, h.cnt, h.wg, h.nofault, ?_, fun _ => h0, h.doneIff, h.accOk, h.errOk, h.redOk,
    h.redNotIn, h.accNodup, h.errNodup, h.mappedIff, h.mappedNodup⟩
  have := h.mainRed; simp [hm] at this; simp [this]

theorem inv_doneSend {c s} (h : Inv c s) (hm : s.main = .passed) (hr : s.red = .sel) :
    Inv c { s with main := .sent, red := .exited } := by
  have h0 := h.passed (by simp [hm])
  refine ⟨h.len, ?_, h.wg, h.nofault, by simp, fun _ => h0, ?_, h.accOk, h.errOk, ?_, ?_,
    h.accNodup, h.errNodup, h.mappedIff, h.mappedNodup⟩
  · have := h.cnt; simp only [hr, rWeight] at this ⊢; exact this
  · intro j; have := h.doneIff j; simp only [hr, reduceCtorEq, or_false] at this; simp [this]
  · intro j hj; simp at hj
  · intro j hj; simp at hj

theorem inv_ret {c s} (h : Inv c s) (hm : s.main = .sent) :
    Inv c { s with main := .returned, fault := s.fault || s.ws.any (· ≠ .done) } := by
  have h0 := h.passed (by simp [hm])
  have hall := (h.allDone h0).1
  refine ⟨h.len, h.cnt, h.wg, ?_, ?_, fun _ => h0, h.doneIff, h.accOk, h.errOk, h.redOk,
    h.redNotIn, h.accNodup, h.errNodup, h.mappedIff, h.mappedNodup⟩
  · simp only [h.nofault, Bool.false_or, List.any_eq_false]
    intro w hw; simp [hall w hw]
  · have := h.mainRed; simp [hm] at this; simp [this]

theorem inv_step {c s e s'} (h : Inv c s) (hs : Step c s e s') : Inv c s' := by
  unfold Step step? at hs
  cases e with
  | mapBegin i =>
    simp only at hs; split at hs
    · rename_i hc; cases hs; exact inv_mapBegin h hc
    · cases hs
  | mapEnd i =>
    simp only at hs; split at hs
    · rename_i hc; cases hs; exact inv_mapEnd h hc
    · cases hs
  | reduceBegin i =>
    simp only at hs; split at hs
    · rename_i hc; cases hs; exact inv_reduceBegin h hc.1 hc.2.1 hc.2.2
    · cases hs
  | reduceEnd i =>
    simp only at hs; split at hs
    · rename_i hc; cases hs; exact inv_reduceEnd h hc
    · cases hs
  | errRecv i =>
    simp only at hs; split at hs
    · rename_i hc; cases hs; exact inv_errRecv h hc.1 hc.2.1 hc.2.2
    · cases hs
  | waitPass =>
    simp only at hs; split at hs
    · rename_i hc; cases hs; exact inv_waitPass h hc.1 hc.2
    · cases hs
  | doneSend =>
    simp only at hs; split at hs
    · rename_i hc; cases hs; exact inv_doneSend h hc.1 hc.2
    · cases hs
  | ret =>
    simp only at hs; split at hs
    · rename_i hc; cases hs; exact inv_ret h hc
    · cases hs

theorem reach_inv {c s} (h : Reach c s) : Inv c s := by
  induction h with
  | init => exact inv_init c
  | step _ hs ih => exact inv_step ih hs

end PebblesVerif.AMR
