import PebblesVerif.Model.Exec
/-!
C02, a general fact about the executor model: **every request of every call `execute` makes is the
formatted form of a step of the plan, sent to that step's service** — for every plan, every
downstream (faulty ones included), every outcome. Nothing else is ever sent.

Stated with a predicate `P` on steps closed under "child step of" (`thn`): if the plan's root steps
satisfy `P`, every request comes from a step satisfying `P`.
-/
namespace PebblesVerif.Exec
open PebblesVerif PebblesVerif.ResultOps

/-- the request `buildBatch` forms for the step `s` with the variables `vars` -/
def requestOf (c : PCtx) (s : Step) (vars : List (String × J)) : Request :=
  { header := header c s, sels := s.sels, vars := vars, opName := stepOpName c s, key := queryKey c s }

/-- `rq`, sent to `url`, is the formatted form of the step of an execution request satisfying `R`,
    sent to that step's service, with the variables `getVariables` computes for that request -/
def FromReq (c : PCtx) (rv : Option (List (String × J))) (R : ExecReq → Prop) (url : String) (rq : Request) : Prop :=
  ∃ er vars, R er ∧ er.step.url = url ∧ getVariables rv c er = .ok vars ∧ rq = requestOf c er.step vars

theorem foldlM_inv {α β ε : Type} (f : β → α → Except ε β) (I : β → Prop) :
    ∀ (l : List α), (∀ b a, a ∈ l → I b → ∀ b', f b a = .ok b' → I b') →
    ∀ b, I b → ∀ b', l.foldlM f b = .ok b' → I b'
  | [], _, b, hb, b', h => by
    simp only [List.foldlM_nil, pure, Except.pure, Except.ok.injEq] at h
    subst h; exact hb
  | a :: l, hstep, b, hb, b', h => by
    simp only [List.foldlM_cons, bind, Except.bind] at h
    cases hfa : f b a with
    | error e => simp [hfa] at h
    | ok b1 =>
      simp only [hfa] at h
      exact foldlM_inv f I l (fun b a ha => hstep b a (by simp [ha])) b1 (hstep b a (by simp) hb b1 hfa) b' h

/-! ### the batch of one group -/

theorem buildBatch_go_inv (c : PCtx) (cfg : ExecCfg) (rv : Option (List (String × J))) (Q : Request → Prop) :
    ∀ (l : List ExecReq) (i : Nat) (keys : List DKey) (batch : List Request) (src : List (Option Nat))
      (out : List Request × List (Option Nat)),
    (∀ rq ∈ batch, Q rq) →
    (∀ er ∈ l, ∀ vars, getVariables rv c er = .ok vars → Q (requestOf c er.step vars)) →
    buildBatch.go c cfg rv l i keys batch src = .ok out → ∀ rq ∈ out.1, Q rq
  | [], i, keys, batch, src, out, hb, _, h => by
    rw [buildBatch.go] at h
    simp only [Except.ok.injEq] at h
    subst h; exact hb
  | er :: rest, i, keys, batch, src, out, hb, hl, h => by
    have hrest : ∀ e ∈ rest, ∀ vars, getVariables rv c e = .ok vars → Q (requestOf c e.step vars) :=
      fun e he => hl e (by simp [he])
    rw [buildBatch.go] at h
    simp only [bind, Except.bind] at h
    cases hv : getVariables rv c er with
    | error e => simp [hv] at h
    | ok vars =>
      simp only [hv] at h
      split at h
      · exact buildBatch_go_inv c cfg rv Q rest _ _ _ _ out hb hrest h
      · split at h
        · exact buildBatch_go_inv c cfg rv Q rest _ _ _ _ out hb hrest h
        · refine buildBatch_go_inv c cfg rv Q rest _ _ _ _ out ?_ hrest h
          intro rq hrq
          simp only [List.mem_append, List.mem_singleton] at hrq
          rcases hrq with hrq | rfl
          · exact hb rq hrq
          · exact hl er (by simp) vars hv

theorem buildBatch_inv (c : PCtx) (cfg : ExecCfg) (rv : Option (List (String × J))) (Q : Request → Prop)
    (ers : List ExecReq) (out : List Request × List (Option Nat))
    (hl : ∀ er ∈ ers, ∀ vars, getVariables rv c er = .ok vars → Q (requestOf c er.step vars))
    (h : buildBatch c cfg rv ers = .ok out) : ∀ rq ∈ out.1, Q rq :=
  buildBatch_go_inv c cfg rv Q ers 0 [] [] [] out (by simp) hl h

/-! ### the follow-up requests of one answered request -/

/-- every follow-up request is for a child step of the answered request's step, at an insertion
    point `FindInsertionPoints` realised for that child step in the answer -/
theorem parseOne_next' (er : ExecReq) (resp : List (String × J)) (qr : List (String × J)) (next : List ExecReq)
    (h : parseOne er resp = .ok (qr, next)) :
    ∀ e ∈ next, e.step ∈ er.step.thn ∧
      ∃ ips, findIP (e.step.ip.drop er.ip.length) er.step.sels qr er.ip = .ok ips ∧ e.ip ∈ ips := by
  unfold parseOne at h
  simp only [bind, Except.bind] at h
  split at h
  · cases h
  · rename_i queryResult _
    split at h
    · cases h
    · rename_i nx hnx
      simp only [Except.ok.injEq, Prod.mk.injEq] at h
      obtain ⟨rfl, rfl⟩ := h
      refine foldlM_inv _ (fun acc => ∀ e ∈ acc, e.step ∈ er.step.thn ∧
        ∃ ips, findIP (e.step.ip.drop er.ip.length) er.step.sels queryResult er.ip = .ok ips ∧ e.ip ∈ ips)
        er.step.thn ?_ [] (by simp) nx hnx
      intro acc dep hdep hacc acc' hstep
      split at hstep
      · cases hstep
      · rename_i ips hips
        simp only [Except.ok.injEq] at hstep
        subst hstep
        intro e he
        simp only [List.mem_append, List.mem_map] at he
        rcases he with he | ⟨ip, hip, rfl⟩
        · exact hacc e he
        · exact ⟨hdep, ips, hips, hip⟩

theorem parseOne_next (er : ExecReq) (resp : List (String × J)) (qr : List (String × J)) (next : List ExecReq)
    (h : parseOne er resp = .ok (qr, next)) : ∀ e ∈ next, e.step ∈ er.step.thn :=
  fun e he => (parseOne_next' er resp qr next h e he).1

/-! ### grouping by service -/

/-- the loop body of `partitionByURL` -/
def partStep' (acc : List (String × List ExecReq)) (er : ExecReq) : List (String × List ExecReq) :=
  match acc.find? (·.1 == er.step.url) with
  | some _ => acc.map (fun (u, l) => if u == er.step.url then (u, l ++ [er]) else (u, l))
  | none => acc ++ [(er.step.url, [er])]

theorem partitionByURL_eq' (ers : List ExecReq) : partitionByURL ers = ers.foldl partStep' [] := rfl

theorem partition_fold_inv (R : ExecReq → Prop) : ∀ (ers : List ExecReq) (acc : List (String × List ExecReq)),
    (∀ er ∈ ers, R er) → (∀ p ∈ acc, ∀ er ∈ p.2, R er ∧ er.step.url = p.1) →
    ∀ p ∈ ers.foldl partStep' acc, ∀ er ∈ p.2, R er ∧ er.step.url = p.1
  | [], acc, _, hacc => by simpa using hacc
  | e :: ers, acc, hers, hacc => by
    rw [List.foldl_cons]
    apply partition_fold_inv R ers _ (fun x hx => hers x (by simp [hx]))
    intro p hp er her
    unfold partStep' at hp
    split at hp
    · obtain ⟨⟨u, l⟩, hul, rfl⟩ := List.mem_map.mp hp
      by_cases hu : (u == e.step.url) = true
      · simp only [hu, ↓reduceIte, List.mem_append, List.mem_singleton] at her ⊢
        rcases her with her | rfl
        · exact hacc (u, l) hul er her
        · exact ⟨hers _ (by simp), (by simpa using hu : u = er.step.url).symm⟩
      · simp only [hu, Bool.false_eq_true, ↓reduceIte] at her ⊢
        exact hacc (u, l) hul er her
    · simp only [List.mem_append, List.mem_singleton] at hp
      rcases hp with hp | rfl
      · exact hacc p hp er her
      · simp only [List.mem_singleton] at her
        subst her
        exact ⟨hers _ (by simp), rfl⟩

theorem partitionByURL_inv (R : ExecReq → Prop) (ers : List ExecReq) (hers : ∀ er ∈ ers, R er) :
    ∀ p ∈ partitionByURL ers, ∀ er ∈ p.2, R er ∧ er.step.url = p.1 := by
  rw [partitionByURL_eq']
  exact partition_fold_inv R ers [] hers (by simp)

/-! ### one depth, the loop, `execute` -/

section
variable (c : PCtx) (cfg : ExecCfg) (rv : Option (List (String × J))) (down : Downstream)
variable (R : ExecReq → Prop)
variable (hR : ∀ er, R er → ∀ resp qr next, parseOne er resp = .ok (qr, next) → ∀ e ∈ next, R e)

/-- every request of every call so far comes from an execution request satisfying `R` -/
def CallsFrom (calls : List Call) : Prop := ∀ cl ∈ calls, ∀ rq ∈ cl.batch, FromReq c rv R cl.url rq

include hR in
/-- one depth preserves: every call recorded satisfies `K` (any property that holds of a call whose
    requests all come from execution requests satisfying `R`), every pending request satisfies `R` -/
theorem execDepth_inv' (K : Call → Prop)
    (hK : ∀ url batch, (∀ rq ∈ batch, FromReq c rv R url rq) → K ⟨url, batch⟩)
    (ers : List ExecReq) (st : ExecState) (st' : ExecState) (next : List ExecReq)
    (hers : ∀ er ∈ ers, R er) (hst : ∀ cl ∈ st.calls, K cl)
    (h : execDepth c cfg rv down ers st = .ok (st', next)) :
    (∀ cl ∈ st'.calls, K cl) ∧ ∀ er ∈ next, R er := by
  unfold execDepth at h
  have hgroups := partitionByURL_inv R ers hers
  have := foldlM_inv _ (fun (acc : ExecState × List ExecReq) => (∀ cl ∈ acc.1.calls, K cl) ∧ ∀ er ∈ acc.2, R er)
    (partitionByURL ers) ?_ (st, []) ⟨hst, by simp⟩ (st', next) h
  · exact this
  intro acc g hg hacc acc' hstep
  obtain ⟨url, group⟩ := g
  have hgroup := hgroups (url, group) hg
  simp only [bind, Except.bind] at hstep
  split at hstep
  · cases hstep
  · rename_i bb hbb
    obtain ⟨batch, src⟩ := bb
    simp only at hstep
    split at hstep
    · cases hstep
    · rename_i resps _
      split at hstep
      · cases hstep
      · -- the new call
        have hbatch : ∀ rq ∈ batch, FromReq c rv R url rq := by
          apply buildBatch_inv c cfg rv (FromReq c rv R url) group (batch, src) ?_ hbb
          intro er her vars hv
          obtain ⟨hRer, hurl⟩ := hgroup er her
          exact ⟨er, vars, hRer, hurl, hv, rfl⟩
        have hcalls : ∀ cl ∈ acc.1.calls ++ [⟨url, batch⟩], K cl := by
          intro cl hcl
          simp only [List.mem_append, List.mem_singleton] at hcl
          rcases hcl with hcl | rfl
          · exact hacc.1 cl hcl
          · exact hK url batch hbatch
        -- the answers are stitched in; follow-ups are collected
        refine foldlM_inv _ (fun (a : ExecState × List ExecReq) => (∀ cl ∈ a.1.calls, K cl) ∧ ∀ er ∈ a.2, R er)
          (group.zip src) ?_ (⟨acc.1.result, acc.1.calls ++ [⟨url, batch⟩]⟩, acc.2) ⟨hcalls, hacc.2⟩ acc' hstep
        intro a p hp ha a' hpstep
        obtain ⟨er, s⟩ := p
        have her : er ∈ group := (List.of_mem_zip hp).1
        split at hpstep
        · cases hpstep
        · rename_i po hpo
          obtain ⟨qr, nx⟩ := po
          simp only at hpstep
          split at hpstep
          · cases hpstep
          · simp only [Except.ok.injEq] at hpstep
            subst hpstep
            refine ⟨ha.1, ?_⟩
            intro e he
            simp only [List.mem_append] at he
            rcases he with he | he
            · exact ha.2 e he
            · exact hR er (hgroup er her).1 _ qr nx hpo e he

include hR in
theorem execDepth_inv (ers : List ExecReq) (st : ExecState) (st' : ExecState) (next : List ExecReq)
    (hers : ∀ er ∈ ers, R er) (hst : CallsFrom c rv R st.calls)
    (h : execDepth c cfg rv down ers st = .ok (st', next)) :
    CallsFrom c rv R st'.calls ∧ ∀ er ∈ next, R er :=
  execDepth_inv' c cfg rv down R hR (fun cl => ∀ rq ∈ cl.batch, FromReq c rv R cl.url rq)
    (fun _ _ hb => hb) ers st st' next hers hst h

include hR in
theorem execLoop_inv : ∀ (fuel : Nat) (ers : List ExecReq) (st st' : ExecState),
    (∀ er ∈ ers, R er) → CallsFrom c rv R st.calls →
    execLoop c cfg rv down fuel ers st = .ok st' → CallsFrom c rv R st'.calls
  | 0, _, st, st', _, hst, h => by
    rw [execLoop] at h
    simp only [Except.ok.injEq] at h
    subst h; exact hst
  | fuel + 1, ers, st, st', hers, hst, h => by
    rw [execLoop] at h
    split at h
    · simp only [Except.ok.injEq] at h
      subst h; exact hst
    · simp only [bind, Except.bind] at h
      split at h
      · cases h
      · rename_i r hr
        obtain ⟨st1, next⟩ := r
        obtain ⟨h1, h2⟩ := execDepth_inv c cfg rv down R hR ers st st1 next hers hst hr
        exact execLoop_inv fuel next st1 st' h2 h1 h

include hR in
/-- **Every request of every call `execute` makes is the formatted form of the step of an execution
    request reachable from the plan's root steps, sent to that step's service** — whatever the
    downstream answers. (`R`: any predicate on execution requests that holds of the root requests
    and is preserved by "follow-up request of".) -/
theorem execute_calls_from_reqs (steps : List Step) (initial : List (String × J)) (st : ExecState)
    (hsteps : ∀ s ∈ steps, R ⟨s, s.ip⟩) (h : execute c cfg rv down steps initial = .ok st) :
    ∀ cl ∈ st.calls, ∀ rq ∈ cl.batch, FromReq c rv R cl.url rq := by
  unfold execute at h
  refine execLoop_inv c cfg rv down R hR _ _ _ st ?_ (by intro cl hcl; cases hcl) h
  intro er her
  obtain ⟨s, hs, rfl⟩ := List.mem_map.mp her
  exact hsteps s hs

include hR in
/-- the same for the whole pipeline (`gatewayCore`: plan → execute → scrub → envelope) -/
theorem gatewayCore_calls_from_reqs (op : Op) (so : Scrub → Scrub) (steps : List Step) (sf : Scrub)
    (hplan : plan c op = .ok (steps, sf)) (hsteps : ∀ s ∈ steps, R ⟨s, s.ip⟩) (res : GwResult)
    (h : gatewayCore c cfg op rv down so = .ok res) :
    ∀ cl ∈ res.calls, ∀ rq ∈ cl.batch, FromReq c rv R cl.url rq := by
  unfold gatewayCore gatewayCoreWith at h
  simp only [hplan] at h
  split at h
  · rename_i st hst
    simp only [Except.ok.injEq] at h
    subst h
    exact execute_calls_from_reqs c cfg rv down R hR steps [] st hsteps hst
  · simp only [Except.ok.injEq] at h
    subst h
    intro cl hcl; cases hcl
  · cases h

end

section
variable (c : PCtx) (cfg : ExecCfg) (rv : Option (List (String × J))) (down : Downstream)

/-- step-level version: `P` a predicate on steps closed under "child step of" -/
theorem execute_calls_from_steps (P : Step → Prop) (hP : ∀ s, P s → ∀ t ∈ s.thn, P t)
    (steps : List Step) (initial : List (String × J)) (st : ExecState)
    (hsteps : ∀ s ∈ steps, P s) (h : execute c cfg rv down steps initial = .ok st) :
    ∀ cl ∈ st.calls, ∀ rq ∈ cl.batch, FromReq c rv (fun er => P er.step) cl.url rq :=
  execute_calls_from_reqs c cfg rv down (fun er => P er.step)
    (fun er her resp qr next hpo e he => hP er.step her e.step (parseOne_next er resp qr next hpo e he))
    steps initial st hsteps h

/-! ### the downstream is consulted on requests of the plan only -/

theorem foldlM_congr_mem {α β ε : Type} (f g : β → α → Except ε β) :
    ∀ (l : List α), (∀ a ∈ l, ∀ b, f b a = g b a) → ∀ b, l.foldlM f b = l.foldlM g b
  | [], _, b => rfl
  | a :: l, h, b => by
    simp only [List.foldlM_cons, bind, Except.bind]
    rw [h a (by simp) b]
    cases g b a with
    | error e => rfl
    | ok b1 => exact foldlM_congr_mem f g l (fun x hx => h x (by simp [hx])) b1

section
variable (R : ExecReq → Prop)
variable (hR : ∀ er, R er → ∀ resp qr next, parseOne er resp = .ok (qr, next) → ∀ e ∈ next, R e)
variable (down' : Downstream)
variable (hagree : ∀ url batch, (∀ rq ∈ batch, FromReq c rv R url rq) → down url batch = down' url batch)

include hagree in
theorem execDepth_congr (ers : List ExecReq) (st : ExecState) (hers : ∀ er ∈ ers, R er) :
    execDepth c cfg rv down ers st = execDepth c cfg rv down' ers st := by
  unfold execDepth
  have hgroups := partitionByURL_inv R ers hers
  apply foldlM_congr_mem
  intro g hg acc
  obtain ⟨url, group⟩ := g
  have hgroup := hgroups (url, group) hg
  simp only [bind, Except.bind]
  cases hbb : buildBatch c cfg rv group with
  | error e => rfl
  | ok bb =>
    obtain ⟨batch, src⟩ := bb
    have hbatch : ∀ rq ∈ batch, FromReq c rv R url rq := by
      apply buildBatch_inv c cfg rv (FromReq c rv R url) group (batch, src) ?_ hbb
      intro er her vars hv
      obtain ⟨hRer, hurl⟩ := hgroup er her
      exact ⟨er, vars, hRer, hurl, hv, rfl⟩
    simp only [hagree url batch hbatch]

include hR hagree in
theorem execLoop_congr : ∀ (fuel : Nat) (ers : List ExecReq) (st : ExecState), (∀ er ∈ ers, R er) →
    execLoop c cfg rv down fuel ers st = execLoop c cfg rv down' fuel ers st
  | 0, _, _, _ => by rw [execLoop, execLoop]
  | fuel + 1, ers, st, hers => by
    rw [execLoop, execLoop]
    split
    · rfl
    · simp only [bind, Except.bind]
      rw [← execDepth_congr c cfg rv down R down' hagree ers st hers]
      cases hd : execDepth c cfg rv down ers st with
      | error e => rfl
      | ok r =>
        obtain ⟨st1, next⟩ := r
        -- the follow-up requests are reachable again
        have hnext : ∀ er ∈ next, R er :=
          (execDepth_inv' c cfg rv down R hR (fun _ => True) (fun _ _ _ => trivial) ers st st1 next hers
            (fun _ _ => trivial) hd).2
        exact execLoop_congr fuel next st1 hnext

include hR hagree in
/-- **Two downstreams that agree on the batches made of requests of the plan give the same
    execution** — the executor consults the downstream on nothing else, also in runs that end in an
    error. -/
theorem execute_congr (steps : List Step) (initial : List (String × J)) (hsteps : ∀ s ∈ steps, R ⟨s, s.ip⟩) :
    execute c cfg rv down steps initial = execute c cfg rv down' steps initial := by
  unfold execute
  apply execLoop_congr c cfg rv down R hR down' hagree
  intro er her
  obtain ⟨s, hs, rfl⟩ := List.mem_map.mp her
  exact hsteps s hs

include hR hagree in
theorem gatewayCore_congr (op : Op) (so : Scrub → Scrub) (steps : List Step) (sf : Scrub)
    (hplan : plan c op = .ok (steps, sf)) (hsteps : ∀ s ∈ steps, R ⟨s, s.ip⟩) :
    gatewayCore c cfg op rv down so = gatewayCore c cfg op rv down' so := by
  unfold gatewayCore gatewayCoreWith
  simp only [hplan]
  rw [execute_congr c cfg rv down R hR down' hagree steps [] hsteps]

end

/-- the steps of a plan: its root steps and, recursively, their child steps -/
inductive InPlan (steps : List Step) : Step → Prop
  | root {s : Step} : s ∈ steps → InPlan steps s
  | child {s t : Step} : InPlan steps s → t ∈ s.thn → InPlan steps t

/-- **Every request of every call the pipeline makes is the formatted form of a step of the plan**
    (header, selection set, operation name and query key of that step; variables as `getVariables`
    computes them at some insertion point), **sent to that step's service** — for every operation,
    every plan, every downstream. -/
theorem gateway_requests_are_plan_steps (op : Op) (so : Scrub → Scrub) (steps : List Step) (sf : Scrub)
    (hplan : plan c op = .ok (steps, sf)) (res : GwResult)
    (h : gateway c cfg op rv down so = .ok res) :
    ∀ cl ∈ res.calls, ∀ rq ∈ cl.batch, ∃ s ip vars, InPlan steps s ∧ s.url = cl.url ∧
      getVariables (withDeclaredDefaults Gen.Vars.declaredDefaultsApplied op rv) c ⟨s, ip⟩ = .ok vars ∧
      rq = requestOf c s vars := by
  intro cl hcl rq hrq
  obtain ⟨er, vars, hin, hurl, hv, hrq'⟩ := gatewayCore_calls_from_reqs c cfg _ down (fun er => InPlan steps er.step)
    (fun er her resp qr next hpo e he => InPlan.child her (parseOne_next er resp qr next hpo e he))
    op so steps sf hplan (fun s hs => InPlan.root hs) res h cl hcl rq hrq
  exact ⟨er.step, er.ip, vars, hin, hurl, hv, hrq'⟩

/-- **The downstream is consulted on batches of requests of plan steps only**: two downstreams
    that agree on every batch all of whose requests are formatted forms of steps of the plan (sent
    to those steps' service) give the same outcome — data, errors, calls, faults. -/
theorem gateway_congr_on_plan (down' : Downstream) (op : Op) (so : Scrub → Scrub) (steps : List Step) (sf : Scrub)
    (hplan : plan c op = .ok (steps, sf))
    (hagree : ∀ url batch,
      (∀ rq ∈ batch, ∃ s ip vars, InPlan steps s ∧ s.url = url ∧
        getVariables (withDeclaredDefaults Gen.Vars.declaredDefaultsApplied op rv) c ⟨s, ip⟩ = .ok vars ∧
        rq = requestOf c s vars) →
      down url batch = down' url batch) :
    gateway c cfg op rv down so = gateway c cfg op rv down' so := by
  unfold gateway
  refine gatewayCore_congr c cfg _ down (fun er => InPlan steps er.step)
    (fun er her resp qr next hpo e he => InPlan.child her (parseOne_next er resp qr next hpo e he))
    down' ?_ op so steps sf hplan (fun s hs => InPlan.root hs)
  intro url batch hb
  apply hagree url batch
  intro rq hrq
  obtain ⟨er, vars, hin, hurl, hv, hrq'⟩ := hb rq hrq
  exact ⟨er.step, er.ip, vars, hin, hurl, hv, hrq'⟩

end

end PebblesVerif.Exec
