import PebblesVerif.Model.Exec
/-!
C02 end to end, part 1: the SPEC-side definitions.

`ValidFor S rq` — what a service-side GraphQL validator checks of a sub-request `rq` against the
service's OWN schema `S`, restricted to what the model represents (the request is an AST: header +
selection set + variable values). `occOn S T n rq` — how often the field `n` of type `T` is
selected by `rq`, the types being read off `S` (not off the annotations the gateway's planner left
in the AST: planner-made `node` fields carry blank annotations).

Nothing here looks at the type annotations stored in `Sel.field` (`type`, `argDefs`) or
`Sel.inline` (`parentKind`, `parentName`): those are the GATEWAY's view (the merged schema); a
service validates against its own schema.
-/
namespace PebblesVerif.C02
open PebblesVerif PebblesVerif.Exec

/-- object, interface or union: a type whose values carry a selection set -/
def isComposite (k : Kind) : Bool :=
  match k with
  | .object | .interface | .union => true
  | _ => false

/-- the scalars every GraphQL schema has without declaring them -/
def isBuiltinScalar (n : String) : Bool :=
  n == "Int" || n == "Float" || n == "String" || n == "Boolean" || n == "ID"

/-- the name of the root type of an operation kind in `S` (`schema { query: … }`) -/
def rootOf (S : Schema) : OpKind → Option String
  | .query => S.query
  | .mutation => S.mutation
  | .subscription => S.subscription

/-- the header declares `$n: ty` (the formatter prints a declaration as that one string) -/
def declaresVar (h : Header) (n ty : String) : Bool := h.varDecls.contains ("$" ++ n ++ ": " ++ ty)

/-- the header declares `$n` with some type -/
def declaresSome (h : Header) (n : String) : Bool :=
  h.varDecls.any (fun d => ("$" ++ n ++ ": ").toList.isPrefixOf d.toList)

mutual
  /-- every variable inside a (list / input-object) literal is declared (with some type) -/
  def nestedVarsOK (h : Header) : Value → Bool
    | .var n _ => declaresSome h n
    | .list vs => nestedVarsOKL h vs
    | .object fs => nestedVarsOKO h fs
    | _ => true
  def nestedVarsOKL (h : Header) : List Value → Bool
    | [] => true
    | v :: vs => nestedVarsOK h v && nestedVarsOKL h vs
  def nestedVarsOKO (h : Header) : List (String × Value) → Bool
    | [] => true
    | (_, v) :: fs => nestedVarsOK h v && nestedVarsOKO h fs
end

/-- one argument of a field or directive: the argument is DECLARED at that position in `S`; a
    variable used as its value is declared in the header WITH THE TYPE OF THE ARGUMENT POSITION
    (as `S` prints it); variables nested in a literal are declared -/
def argOK (h : Header) (defs : List ArgDef) (a : Arg) : Bool :=
  match defs.find? (·.name == a.name) with
  | none => false
  | some ad =>
    match a.value with
    | .var n _ => declaresVar h n ad.type.toString
    | v => nestedVarsOK h v

/-- every required argument (non-null type, no default) is given -/
def requiredGiven (defs : List ArgDef) (args : List Arg) : Bool :=
  defs.all (fun ad => !(ad.type.isNonNull && ad.default.isNone) || args.any (fun a => a.name == ad.name))

def argsOK (h : Header) (defs : List ArgDef) (args : List Arg) : Bool :=
  args.all (argOK h defs) && requiredGiven defs args

/-- a directive application: `@skip` / `@include` (`if: Boolean!`) or a directive `S` declares,
    arguments as for a field -/
def dirOK (S : Schema) (h : Header) (d : Dir) : Bool :=
  if d.name == "skip" || d.name == "include" then
    argsOK h [{ name := "if", type := .nonNull (.named "Boolean"), default := none }] d.args
  else
    match S.directives.find? (·.name == d.name) with
    | none => false
    | some dd => argsOK h dd.args d.args

/-- may a fragment with type condition `cond` be spread where the enclosing type is `parent`?
    (same type; an object/interface implementing the other; a member of the other's possible
    types) -/
def fragmentApplies (S : Schema) (parent cond : TypeDef) : Bool :=
  parent.name == cond.name ||
  cond.interfaces.contains parent.name || parent.interfaces.contains cond.name ||
  (S.possibleOf parent.name).contains cond.name || (S.possibleOf cond.name).contains parent.name ||
  parent.members.contains cond.name || cond.members.contains parent.name

/-- leaf/composite shape of a field whose named type is `n`: a composite type (declared in `S`)
    needs a non-empty selection set (checked by `k`), a leaf type — a declared scalar or enum, or a
    builtin scalar — must not have one; an unknown type name is an error -/
def shapeOK (S : Schema) (n : String) (subEmpty : Bool) (k : TypeDef → Bool) : Bool :=
  match S.type? n with
  | some td => if isComposite td.kind then !subEmpty && k td else subEmpty
  | none => isBuiltinScalar n && subEmpty

mutual
  /-- one selection, selected on a value of type `parent` (a type definition OF `S`) -/
  def validSel (S : Schema) (h : Header) (parent : TypeDef) : Sel → Bool
    | .field _ name args dirs _ _ sub =>
      if name == "__typename" then args.isEmpty && sub.isEmpty && dirs.all (dirOK S h)
      else
        match parent.field? name with
        | none => false            -- the type does not declare the field
        | some fd =>
          argsOK h fd.args args && dirs.all (dirOK S h) &&
          shapeOK S fd.type.name sub.isEmpty (fun td => validSels S h td sub)
    | .inline cond _ _ dirs sub =>
      dirs.all (dirOK S h) && !sub.isEmpty &&
      (if cond == "" then validSels S h parent sub
       else match S.type? cond with
         | none => false
         | some td => isComposite td.kind && fragmentApplies S parent td && validSels S h td sub)
    | .spread .. => false          -- sub-requests carry no fragment definitions
  def validSels (S : Schema) (h : Header) (parent : TypeDef) : List Sel → Bool
    | [] => true
    | s :: rest => validSel S h parent s && validSels S h parent rest
end

/-- **`rq` is a valid operation against the schema `S`** — as far as the model represents
    requests. Checked: the operation kind has a root type in `S`, an object type; the selection set
    is not empty; recursively, through inline fragments (whose type condition must exist in `S`,
    be composite and applicable to the enclosing type): every selected field is declared by the
    type it is selected on (`__typename` aside), every argument given is declared for that field
    (directive), every required argument is given, a field of composite type has a non-empty
    selection set and a leaf field has none, every directive is `@skip`/`@include` or declared in
    `S`, every variable used as an argument value is declared in the request's header with exactly
    the type of that argument position, every variable nested in a literal is declared; no
    fragment spreads.

    A real validator checks in addition (not represented here): that literal argument values and
    variable VALUES have the declared input types and that variables used in nested positions have
    compatible types; that every declared variable is used and declared once; that fields with the
    same response key can be merged; directive locations and repeatability; fragment applicability
    between two abstract types with a common member. Whether the values of the variables are sent
    is the subject of `C02_variables_forwarded` / `C02_value_forwarded` and, for the follow-up
    lookups of the families below, of the explicit `vars` in the theorems. -/
def ValidFor (S : Schema) (rq : Request) : Bool :=
  match rootOf S rq.header.kind with
  | none => false
  | some rn =>
    match S.type? rn with
    | none => false
    | some td => td.kind == .object && !rq.sels.isEmpty && validSels S rq.header td rq.sels

/-- the named type of field `name` of type `parent` in `S` (`""` if undeclared) -/
def fieldTypeName (S : Schema) (parent name : String) : String :=
  match S.type? parent with
  | none => ""
  | some td => match td.field? name with
    | none => ""
    | some fd => fd.type.name

mutual
  /-- how often the field `n` OF TYPE `T` is selected below a selection on type `parent` (types
      followed through `S`) -/
  def occSel (S : Schema) (T n parent : String) : Sel → Nat
    | .field _ name _ _ _ _ sub =>
      (if parent == T && name == n then 1 else 0) + occSels S T n (fieldTypeName S parent name) sub
    | .inline cond _ _ _ sub => occSels S T n (if cond == "" then parent else cond) sub
    | .spread .. => 0
  def occSels (S : Schema) (T n parent : String) : List Sel → Nat
    | [] => 0
    | s :: rest => occSel S T n parent s + occSels S T n parent rest
end

/-- how often the request selects the field `T.n`, read against the schema `S` it is sent to -/
def occOn (S : Schema) (T n : String) (rq : Request) : Nat :=
  match rootOf S rq.header.kind with
  | none => 0
  | some rn => occSels S T n rn rq.sels

/-! ### reading a service schema -/

/-- the kind of the type named `n` in `S` -/
def kindOf (S : Schema) (n : String) : Option Kind := (S.type? n).map (·.kind)

/-- the definition of the field `T.n` in `S` -/
def fieldOf (S : Schema) (T n : String) : Option FieldDef := (S.type? T).bind (·.field? n)

/-- the type `T` of `S` declares the field `n` -/
def declares (S : Schema) (T n : String) : Bool := (fieldOf S T n).isSome

/-- a leaf type in `S`: a declared scalar / enum (anything not composite), or a builtin scalar -/
def leafIn (S : Schema) (n : String) : Bool :=
  match S.type? n with
  | some td => !isComposite td.kind
  | none => isBuiltinScalar n

/-- `S` declares `T.n`, a leaf field that may be selected without arguments -/
def LeafField (S : Schema) (T n : String) : Prop :=
  ∃ fd, fieldOf S T n = some fd ∧ requiredGiven fd.args [] = true ∧ leafIn S fd.type.name = true

/-- the schema of the service at `url` (an empty schema if there is none: nothing is valid for it) -/
def schemaAt (svcs : List Svc) (url : String) : Schema :=
  match svcs.find? (·.url == url) with
  | some s => s.schema
  | none => { types := [] }

/-- every (service URL, request) pair among `calls` whose request selects the field `T.n` (read
    against the schema of the service called), with multiplicity -/
def selecting (svcs : List Svc) (T n : String) (calls : List Call) : List (String × Request) :=
  calls.flatMap (fun cl =>
    (cl.batch.filter (fun rq => occOn (schemaAt svcs cl.url) T n rq != 0)).map (fun rq => (cl.url, rq)))

/-- `down` behind a validating front: a batch with a request that is not `ValidFor` the schema of
    the service called is refused (as a fault) instead of being handed to `down` -/
def guardValid (svcs : List Svc) (down : Downstream) : Downstream := fun url batch =>
  if batch.all (fun rq => ValidFor (schemaAt svcs url) rq) then down url batch
  else .error (.panic "invalid sub-request")

/-- a follow-up lookup has exactly the form `query($id: ID!) { node(id: $id) { ... on T { sub } } }` -/
def IsNodeLookup (T : String) (sub : List Sel) (rq : Request) : Prop :=
  rq.header.kind = .query ∧ rq.header.name = none ∧ rq.header.varDecls = ["$id: ID!"] ∧
  ∃ (al : String) (ty : TypeRef) (ads : List ArgDef) (pk : Kind) (pn : String),
    rq.sels = [.field al "node" [⟨"id", .var "id"⟩] [] ty ads [.inline T pk pn [] sub]]

end PebblesVerif.C02
