import PebblesVerif.Proofs.C02Flat1
import PebblesVerif.Proofs.Flat5
/-!
C02 end to end, part 2: what the SERVICE schemas must say (`Flat.SvcFam`) and the validity of the
two kinds of request the flat families send — the root request `{ q { id f… } }` at `A` and the
follow-up lookup `query($id: ID!) { node(id: $id) { ... on T { f… } } }` at `B` — for every member
of the family.
-/
namespace PebblesVerif.Flat
open PebblesVerif PebblesVerif.Exec PebblesVerif.C02

/-- what the schema `SA` of the service that owns the object says about the Node type `T`: an
    object type with `id` and EXACTLY the selected fields the table routes to `A` (`fsA` / `onlyA`),
    each a leaf field selectable without arguments -/
structure SvcTA (T : String) (fs : List FieldSpec) (SA : Schema) : Prop where
  kTA : kindOf SA T = some .object
  idA : LeafField SA T "id"
  fsA : ∀ f ∈ fs, f.2.2 = false → LeafField SA T f.1
  onlyA : ∀ f ∈ fs, f.2.2 = true → fieldOf SA T f.1 = none

/-- what the schema `SB` of the service that is asked the follow-up lookups says: a query root
    `Query` with `node(id: ID!): Node`, the interface `Node`, the object type `T` implementing
    `Node`, with `id` and EXACTLY the selected fields the table routes to `B`, each a leaf -/
structure SvcB (T : String) (fs : List FieldSpec) (SB : Schema) : Prop where
  hTne : T ≠ ""
  rootB : SB.query = some "Query"
  kQB : kindOf SB "Query" = some .object
  nodeB : ∃ fd ad, fieldOf SB "Query" "node" = some fd ∧ fd.type.name = "Node" ∧
    fd.args = [ad] ∧ ad.name = "id" ∧ ad.type = .nonNull (.named "ID")
  kNodeB : kindOf SB "Node" = some .interface
  kTB : kindOf SB T = some .object
  implB : ∃ td, SB.type? T = some td ∧ td.interfaces.contains "Node" = true
  idB : LeafField SB T "id"
  fsB : ∀ f ∈ fs, f.2.2 = true → LeafField SB T f.1
  onlyB : ∀ f ∈ fs, f.2.2 = false → fieldOf SB T f.1 = none

/-- **The hypotheses tying the SERVICE schemas to the routing table** (`Flat.Fam` speaks of the
    merged schema and the type-URL map only). `SA`, the schema of the service at `A`: a query root
    `Query` with the field `q` whose named type is `T` (`q : T` for the one-object family,
    `q : [T]` for the list family), selectable without arguments; the object type `T` with `id`
    and EXACTLY the selected fields the table routes to `A` (`Flat.SvcTA`: `fsA` / `onlyA`), each a
    leaf. `SB`, the schema of the service at `B` (`Flat.SvcB`): a query root `Query` with
    `node(id: ID!): Node`, the interface `Node`, the object type `T` implementing `Node`, with `id`
    and EXACTLY the selected fields the table routes to `B`, each a leaf.

    Remark. For a federation merged by the gateway these are consequences of the merge: the table
    routes a field only to a service that declares it (`C04_declares`), a Node type's non-`id`
    field has one owner (`C04_node_field_owner`), and every service that contributes to a Node type
    must offer the `node` lookup. The connection is not made formally here. -/
structure SvcFam (c : PCtx) (A B T q : String) (fs : List FieldSpec) (SA SB : Schema) : Prop
    extends SvcTA T fs SA, SvcB T fs SB where
  rootA : SA.query = some "Query"
  kQA : kindOf SA "Query" = some .object
  qA : ∃ fd, fieldOf SA "Query" q = some fd ∧ fd.type.name = T ∧ requiredGiven fd.args [] = true

end PebblesVerif.Flat

namespace PebblesVerif.C02
open PebblesVerif PebblesVerif.Exec PebblesVerif.Flat

/-! ### small facts -/

theorem type?_name {S : Schema} {n : String} {td : TypeDef} (h : S.type? n = some td) : td.name = n := by
  have := List.find?_some h
  simpa using this

theorem kindOf_some {S : Schema} {n : String} {k : Kind} (h : kindOf S n = some k) :
    ∃ td, S.type? n = some td ∧ td.kind = k := by
  unfold kindOf at h
  cases ht : S.type? n with
  | none => simp [ht] at h
  | some td => simp [ht] at h; exact ⟨td, rfl, h⟩

theorem fieldOf_some {S : Schema} {T n : String} {td : TypeDef} {fd : FieldDef} (ht : S.type? T = some td)
    (h : fieldOf S T n = some fd) : td.field? n = some fd := by
  simpa [fieldOf, ht] using h

theorem shapeOK_leaf (S : Schema) (n : String) (k : TypeDef → Bool) (h : leafIn S n = true) :
    shapeOK S n true k = true := by
  unfold leafIn at h
  unfold shapeOK
  cases ht : S.type? n with
  | none => simpa [ht] using h
  | some td =>
    simp only [ht, Bool.not_eq_eq_eq_not, Bool.not_true] at h
    simp [h]

theorem shapeOK_composite (S : Schema) (n : String) (k : TypeDef → Bool) (td : TypeDef) (ht : S.type? n = some td)
    (hk : isComposite td.kind = true) : shapeOK S n false k = k td := by
  simp [shapeOK, ht, hk]

theorem ne_typename_of_not_builtin {n : String} (h : isBuiltinName n = false) : (n == "__typename") = false := by
  simp only [beq_eq_false_iff_ne, ne_eq]
  intro e; subst e; simp [isBuiltinName] at h

/-- a leaf field `T.n` of `S`, selected plainly (no alias, arguments, directives, selection set) -/
theorem validSel_leaf (S : Schema) (hdr : Header) (T : String) (td : TypeDef) (n : String) (t : TypeRef)
    (al : String) (ht : S.type? T = some td) (hn : (n == "__typename") = false) (hl : LeafField S T n) :
    validSel S hdr td (.field al n [] [] t [] []) = true := by
  obtain ⟨fd, hfd, hreq, hleaf⟩ := hl
  have hf := fieldOf_some ht hfd
  rw [validSel]
  simp only [hn, Bool.false_eq_true, ↓reduceIte, hf, argsOK, List.all_nil, hreq, Bool.and_self, List.isEmpty_nil,
    shapeOK_leaf S _ _ hleaf]

/-- a list of plainly selected leaf fields of `T`, all declared by `S` -/
theorem validSels_leaves (S : Schema) (hdr : Header) (T : String) (td : TypeDef) (ht : S.type? T = some td) :
    ∀ (xs : List FieldSpec), (∀ f ∈ xs, isBuiltinName f.1 = false ∧ LeafField S T f.1) →
    validSels S hdr td (leaves xs) = true
  | [], _ => by simp [leaves_nil, validSels]
  | f :: xs, h => by
    have hf := h f (by simp)
    rw [leaves_cons, validSels, leaf, validSel_leaf S hdr T td f.1 f.2.1 f.1 ht (ne_typename_of_not_builtin hf.1) hf.2,
      validSels_leaves S hdr T td ht xs (fun g hg => h g (by simp [hg]))]
    rfl

/-! ### headers -/

theorem walkArgs_leaves (d : Bool) (S : Schema) : ∀ (xs : List FieldSpec) (acc : List (String × String)),
    walkArgsWith d S (leaves xs) acc = acc
  | [], acc => by simp [leaves_nil, walkArgsWith]
  | f :: xs, acc => by
    rw [leaves_cons, walkArgsWith, leaf, walkArgsSelWith]
    simp only [List.foldl_nil, ite_self, walkArgsWith]
    exact walkArgs_leaves d S xs acc

/-- the request the root step of the flat families sends: `{ q { id <A's fields> } }`, whatever the
    declared type `ty` of `q` and the child steps -/
def rootSel (q : String) (ty : TypeRef) (xs : List FieldSpec) : Sel := .field q q [] [] ty [] (idField :: leaves xs)

theorem header_root (c : PCtx) (A q : String) (ty : TypeRef) (xs : List FieldSpec) (thn : List Step) :
    header c (.mk A "Query" [rootSel q ty xs] [] thn)
      = ⟨c.opKind, if c.opName != "" then some c.opName else none, []⟩ := by
  unfold header walkArgs
  simp only [Step.ip, List.isEmpty_nil, ↓reduceIte, Bool.true_and, Step.sels, rootSel, walkArgsWith, walkArgsSelWith,
    List.foldl_nil, ite_self, idField, walkArgs_leaves, List.map_nil, sortStrs]

theorem header_lookup (c : PCtx) (B T q : String) (bs : List FieldSpec) :
    header c (stepB B T q bs) = ⟨.query, none, ["$id: ID!"]⟩ := by
  unfold header walkArgs
  simp only [stepB, Step.ip, List.isEmpty_cons, Bool.false_eq_true, ↓reduceIte, Bool.false_and, Step.sels,
    convertToNodeQuery, walkArgsWith, walkArgsSelWith, List.foldl_cons, List.foldl_nil, argVarTypes, List.find?_cons,
    beq_self_eq_true, ite_self, walkArgs_leaves, setStr, List.map_cons, List.map_nil, sortStrs, insertSortedStr,
    TypeRef.toString]
  rfl

/-! ### the root request at `A` -/

/-- `q { id <A's fields> }` selected on a type `parent` of `S` that declares `q` with named type `T` -/
theorem validSel_rootSel {c : PCtx} {A B T q : String} {fs : List FieldSpec} (S : Schema) (hdr : Header)
    (h : FamT c A B T q fs) (hq : isBuiltinName q = false) (hta : SvcTA T fs S) (parent : TypeDef) (ty : TypeRef)
    (hfq : ∃ fd, parent.field? q = some fd ∧ fd.type.name = T ∧ requiredGiven fd.args [] = true) :
    validSel S hdr parent (rootSel q ty (Flat.fsA fs)) = true := by
  obtain ⟨TA, hTA, hkT⟩ := kindOf_some hta.kTA
  obtain ⟨fdq, hfq, hqT, hreq⟩ := hfq
  have hleaves : validSels S hdr TA (leaves (Flat.fsA fs)) = true := by
    apply validSels_leaves S _ T TA hTA
    intro f hf
    simp only [Flat.fsA, List.mem_filter, Bool.not_eq_eq_eq_not, Bool.not_true] at hf
    exact ⟨h.hfb f.1 (mem_names hf.1), hta.fsA f hf.1 hf.2⟩
  have hid : validSel S hdr TA idField = true := validSel_leaf S _ T TA "id" _ "" hTA (by decide) hta.idA
  rw [rootSel, validSel]
  simp only [ne_typename_of_not_builtin hq, Bool.false_eq_true, ↓reduceIte, hfq, argsOK, List.all_nil, hreq,
    Bool.and_self, List.isEmpty_cons, Bool.true_and]
  rw [hqT, shapeOK_composite S T _ TA hTA (by rw [hkT]; rfl)]
  simp only [validSels, hid, hleaves, Bool.and_self]

theorem validFor_root {c : PCtx} {A B T q : String} {fs : List FieldSpec} {SA SB : Schema}
    (h : Fam c A B T q fs) (hs : SvcFam c A B T q fs SA SB) (ty : TypeRef) (thn : List Step) (vars : List (String × J)) :
    ValidFor SA (rqOf c (.mk A "Query" [rootSel q ty (Flat.fsA fs)] [] thn) vars) = true := by
  obtain ⟨QA, hQA, hkQ⟩ := kindOf_some hs.kQA
  obtain ⟨fdq, hfdq, hqT, hreq⟩ := hs.qA
  have hfq := fieldOf_some hQA hfdq
  unfold ValidFor
  simp only [rqOf, header_root, h.hkind, rootOf, hs.rootA, hQA, hkQ, Step.sels, beq_self_eq_true, List.isEmpty_cons,
    Bool.not_false, Bool.true_and]
  rw [validSels, validSel_rootSel SA _ h.toFamT h.hqb hs.toSvcTA QA ty ⟨fdq, hfq, hqT, hreq⟩]
  rfl

end PebblesVerif.C02
