import PebblesVerif.Proofs.C02Flat2
/-!
C02 end to end, part 3: the follow-up lookup at `B` is valid and has the `node` form; which request
selects which client field (`occOn`).
-/
namespace PebblesVerif.C02
open PebblesVerif PebblesVerif.Exec PebblesVerif.Flat

variable {c : PCtx} {A B T q : String} {fs : List FieldSpec} {SA SB : Schema}

/-! ### the follow-up lookup at `B` -/

theorem fsB_ne_leaves {bs : List FieldSpec} (h : bs ≠ []) : (leaves bs).isEmpty = false := by
  cases bs with
  | nil => exact absurd rfl h
  | cons _ _ => rfl

/-- `query($id: ID!) { node(id: $id) { ... on T { <B's fields> } } }` is valid for `B`'s schema -/
theorem validFor_lookup (h : FamT c A B T q fs) (hs : SvcB T fs SB) (hB : Flat.fsB fs ≠ [])
    (vars : List (String × J)) :
    ValidFor SB (rqOf c (stepB B T q (Flat.fsB fs)) vars) = true := by
  obtain ⟨QB, hQB, hkQ⟩ := kindOf_some hs.kQB
  obtain ⟨ND, hND, hkN⟩ := kindOf_some hs.kNodeB
  obtain ⟨TB, hTB, hkT⟩ := kindOf_some hs.kTB
  obtain ⟨TB', hTB', himpl⟩ := hs.implB
  obtain ⟨fd, ad, hfd, hfdT, hargs, hadn, hadt⟩ := hs.nodeB
  have hTT : TB' = TB := by rw [hTB] at hTB'; exact (Option.some.inj hTB').symm
  subst hTT
  have hfn := fieldOf_some hQB hfd
  have hTc : (T == "") = false := by simpa using hs.hTne
  have hleaves : validSels SB ⟨.query, none, ["$id: ID!"]⟩ TB' (leaves (Flat.fsB fs)) = true := by
    apply validSels_leaves SB _ T TB' hTB
    intro f hf
    simp only [Flat.fsB, List.mem_filter] at hf
    exact ⟨h.hfb f.1 (mem_names hf.1), hs.fsB f hf.1 hf.2⟩
  have hadn' : (ad.name == "id") = true := by simp [hadn]
  have hadn'' : ("id" == ad.name) = true := by simp [hadn]
  have hdecl : declaresVar ⟨.query, none, ["$id: ID!"]⟩ "id" ad.type.toString = true := by
    rw [hadt]; decide
  have happ : fragmentApplies SB ND TB' = true := by
    have : ND.name = "Node" := type?_name hND
    have hm : "Node" ∈ TB'.interfaces := by simpa using himpl
    simp [fragmentApplies, this, hm]
  unfold ValidFor
  simp only [rqOf, header_lookup, rootOf, hs.rootB, hQB, hkQ, beq_self_eq_true, Bool.true_and]
  simp only [stepB, Step.sels, convertToNodeQuery, List.isEmpty_cons, Bool.not_false, Bool.true_and]
  rw [validSels, validSel]
  have hnode : ("node" == "__typename") = false := by decide
  simp only [hnode, Bool.false_eq_true, ↓reduceIte, hfn, argsOK, hargs, List.all_cons, List.all_nil, argOK,
    List.find?_cons, hadn', hadn'', hdecl, requiredGiven, List.any_cons, List.any_nil, Bool.or_false, Bool.or_true,
    Bool.and_self, Bool.and_true, Bool.true_and, validSels, List.isEmpty_cons]
  rw [hfdT, shapeOK_composite SB "Node" _ ND hND (by rw [hkN]; rfl)]
  simp only [validSel, List.all_nil, fsB_ne_leaves hB, Bool.not_false, hTc, Bool.false_eq_true, ↓reduceIte, hTB,
    hkT, isComposite, happ, hleaves, Bool.and_self]

/-- the follow-up lookup has exactly the `node` form -/
theorem isNodeLookup_rqB (c : PCtx) (B T q : String) (bs : List FieldSpec) (vars : List (String × J)) :
    IsNodeLookup T (leaves bs) (rqOf c (stepB B T q bs) vars) := by
  refine ⟨?_, ?_, ?_, "", .named "", _, .object, "", rfl⟩ <;> simp [rqOf, header_lookup]

/-! ### which request selects which client field -/

theorem count_names_filter (fs : List FieldSpec) (hnd : (namesOf fs).Nodup) (p : FieldSpec → Bool) (f : FieldSpec)
    (hf : f ∈ fs) : (namesOf (fs.filter p)).count f.1 = if p f then 1 else 0 := by
  have hsub : (namesOf (fs.filter p)).Sublist (namesOf fs) := List.Sublist.map _ List.filter_sublist
  have hnd' := hnd.sublist hsub
  cases hp : p f
  · simp only [Bool.false_eq_true, ↓reduceIte, List.count_eq_zero]
    intro hmem
    simp only [namesOf, List.mem_map, List.mem_filter] at hmem
    obtain ⟨g, ⟨hg, hpg⟩, hgn⟩ := hmem
    have := fst_inj_of_nodup fs hnd g hg f hf hgn
    subst this
    rw [hp] at hpg; cases hpg
  · simp only [↓reduceIte]
    have hmem : f.1 ∈ namesOf (fs.filter p) := List.mem_map.mpr ⟨f, List.mem_filter.mpr ⟨hf, hp⟩, rfl⟩
    rw [List.Nodup.count hnd']
    simp [hmem]

/-- below a selection on `T`, plainly selected leaf fields: `T.n` occurs as often as its name -/
theorem occSels_leaves (S : Schema) (T n : String) : ∀ (xs : List FieldSpec),
    occSels S T n T (leaves xs) = (namesOf xs).count n
  | [] => by simp [leaves_nil, occSels, namesOf]
  | f :: xs => by
    rw [leaves_cons, occSels, leaf, occSel, occSels_leaves S T n xs]
    simp only [beq_self_eq_true, Bool.true_and, occSels, Nat.add_zero, namesOf, List.map_cons, List.count_cons]
    omega

theorem T_ne_Query (h : FamT c A B T q fs) : ("Query" == T) = false := by
  have := h.hTroot
  simp only [beq_eq_false_iff_ne, ne_eq]
  intro e; subst e; simp [isRootName] at this

/-- the root request at `A` selects exactly `A`'s share of the client's fields, each once -/
theorem occOn_root (h : Fam c A B T q fs) (hs : SvcFam c A B T q fs SA SB) (ty : TypeRef) (thn : List Step)
    (vars : List (String × J)) (f : FieldSpec) (hf : f ∈ fs) :
    occOn SA T f.1 (rqOf c (.mk A "Query" [rootSel q ty (Flat.fsA fs)] [] thn) vars) = if f.2.2 then 0 else 1 := by
  obtain ⟨QA, hQA, -⟩ := kindOf_some hs.kQA
  obtain ⟨fdq, hfdq, hqT, -⟩ := hs.qA
  have hfq := fieldOf_some hQA hfdq
  have hid : ("id" == f.1) = false := by
    simp only [beq_eq_false_iff_ne, ne_eq]
    exact fun e => h.hfid f.1 (mem_names hf) e.symm
  have hftn : fieldTypeName SA "Query" q = T := by simp [fieldTypeName, hQA, hfq, hqT]
  unfold occOn
  simp only [rqOf, header_root, h.hkind, rootOf, hs.rootA, Step.sels]
  simp only [occSels, rootSel, occSel, hftn, idField, occSels_leaves, T_ne_Query h.toFamT, Bool.false_and, Bool.false_eq_true, ↓reduceIte, hid, Bool.and_false, occSels, Nat.zero_add,
    Nat.add_zero]
  rw [Flat.fsA, count_names_filter fs h.hnd _ f hf]
  cases f.2.2 <;> rfl

/-- the follow-up lookup at `B` selects exactly `B`'s share of the client's fields, each once -/
theorem occOn_lookup (h : FamT c A B T q fs) (hs : SvcB T fs SB) (vars : List (String × J))
    (f : FieldSpec) (hf : f ∈ fs) :
    occOn SB T f.1 (rqOf c (stepB B T q (Flat.fsB fs)) vars) = if f.2.2 then 1 else 0 := by
  obtain ⟨QB, hQB, -⟩ := kindOf_some hs.kQB
  have hTc : (T == "") = false := by simpa using hs.hTne
  unfold occOn
  simp only [rqOf, header_lookup, rootOf, hs.rootB]
  simp only [stepB, Step.sels, convertToNodeQuery, occSels, occSel, T_ne_Query h, Bool.false_and, Bool.false_eq_true, ↓reduceIte, hTc, Nat.zero_add,
    Nat.add_zero, occSels_leaves]
  rw [Flat.fsB, count_names_filter fs h.hnd _ f hf]

end PebblesVerif.C02
