import PebblesVerif.Proofs.C02Flat3
import PebblesVerif.Proofs.FlatList5
/-!
C02 end to end, part 4: the explicit call lists of the two query families (`Flat.callsOf`: one
object; `FlatList.callsOf`: a list of objects) satisfy `SubrequestsOK`.
-/
namespace PebblesVerif.C02
open PebblesVerif PebblesVerif.Exec PebblesVerif.Flat

/-- **What C02 says of the calls of one client request of the flat query families.**
    `calls` — everything the gateway sent — is one request `rqA` to `A` followed by at most one
    call to `B` carrying the batch `batch` of follow-up lookups, one per id of `lookups`. -/
structure SubrequestsOK (svcs : List Svc) (A B T : String) (fs : List FieldSpec) (lookups : List String)
    (rqA : Request) (batch : List Request) (calls : List Call) : Prop where
  /-- the calls: `rqA` to `A`, then — unless there is nothing to look up — ONE call to `B` -/
  shape : calls = ⟨A, [rqA]⟩ :: (if batch.isEmpty then [] else [⟨B, batch⟩])
  /-- EVERY request of EVERY call is a valid operation against the schema of the service called -/
  valid : ∀ cl ∈ calls, ∀ rq ∈ cl.batch, ValidFor (schemaAt svcs cl.url) rq = true
  /-- the root request is a `query` without variables -/
  root : rqA.header.kind = .query ∧ rqA.header.varDecls = [] ∧ rqA.vars = []
  /-- every follow-up is `query($id: ID!) { node(id: $id) { ... on T { <B's fields> } } }` -/
  lookup : ∀ rq ∈ batch, IsNodeLookup T (leaves (Flat.fsB fs)) rq
  /-- … with `$id` bound to the id of the entity it is for: one lookup per id of `lookups`, in order -/
  ids : batch.map (·.vars) = lookups.map (fun i => [("id", J.str i)])
  /-- each client-selected field `T.f` is selected by the requests sent to its owner and by no
      other request: by `rqA` alone when the table routes it to `A`, by the lookups (one per
      entity) when it routes it to `B` -/
  owner : ∀ f ∈ fs, selecting svcs T f.1 calls = if f.2.2 then batch.map (fun rq => (B, rq)) else [(A, rqA)]
  /-- … exactly once in each of them -/
  once : ∀ f ∈ fs, ∀ p ∈ selecting svcs T f.1 calls, occOn (schemaAt svcs p.1) T f.1 p.2 = 1
  /-- the owner declares the field, the other service does not -/
  declared : ∀ f ∈ fs, declares (schemaAt svcs (if f.2.2 then B else A)) T f.1 = true ∧
    declares (schemaAt svcs (if f.2.2 then A else B)) T f.1 = false

variable {c : PCtx} {A B T q : String} {fs : List FieldSpec} {SA SB : Schema}

theorem schemaAt_of_find {svcs : List Svc} {u : String} {S : Schema} (h : svcs.find? (·.url == u) = some ⟨u, S⟩) :
    schemaAt svcs u = S := by simp [schemaAt, h]

theorem declares_of_leafField {S : Schema} {T n : String} (h : LeafField S T n) : declares S T n = true := by
  obtain ⟨fd, hfd, -⟩ := h
  simp [declares, hfd]

theorem selecting_cons_one (svcs : List Svc) (T n u : String) (rq : Request) (rest : List Call) :
    selecting svcs T n (⟨u, [rq]⟩ :: rest)
      = (if occOn (schemaAt svcs u) T n rq != 0 then [(u, rq)] else []) ++ selecting svcs T n rest := by
  simp only [selecting, List.flatMap_cons, List.filter_cons, List.filter_nil]
  split <;> simp

theorem selecting_batch (svcs : List Svc) (T n u : String) (batch : List Request) (k : Nat)
    (hk : ∀ rq ∈ batch, occOn (schemaAt svcs u) T n rq = k) :
    selecting svcs T n [⟨u, batch⟩] = if k != 0 then batch.map (fun rq => (u, rq)) else [] := by
  simp only [selecting, List.flatMap_cons, List.flatMap_nil, List.append_nil]
  by_cases h0 : k = 0
  · subst h0
    have : batch.filter (fun rq => occOn (schemaAt svcs u) T n rq != 0) = [] := by
      rw [List.filter_eq_nil_iff]; intro rq hrq; simp [hk rq hrq]
    simp [this]
  · have : batch.filter (fun rq => occOn (schemaAt svcs u) T n rq != 0) = batch := by
      rw [List.filter_eq_self]; intro rq hrq; simp [hk rq hrq, h0]
    simp [this, h0]

/-- the root request of the flat families, whatever the declared type `ty` of `q` -/
def rootRq (c : PCtx) (A q : String) (ty : TypeRef) (fs : List FieldSpec) (thn : List Step) : Request :=
  rqOf c (.mk A "Query" [rootSel q ty (Flat.fsA fs)] [] thn) []

/-- the follow-up lookups for the ids `lookups` -/
def lookupRqs (c : PCtx) (B T q : String) (fs : List FieldSpec) (lookups : List String) : List Request :=
  lookups.map (fun i => rqOf c (stepB B T q (Flat.fsB fs)) [("id", .str i)])

/-- the calls: the root request, then (unless there is nothing to look up) one batch of lookups -/
def callsExplicit (c : PCtx) (A B T q : String) (ty : TypeRef) (fs : List FieldSpec) (thn : List Step)
    (lookups : List String) : List Call :=
  ⟨A, [rootRq c A q ty fs thn]⟩ ::
    (if (lookupRqs c B T q fs lookups).isEmpty then [] else [⟨B, lookupRqs c B T q fs lookups⟩])

theorem mem_lookupRqs {c : PCtx} {B T q : String} {fs : List FieldSpec} {lookups : List String} {rq : Request}
    (h : rq ∈ lookupRqs c B T q fs lookups) :
    ∃ i ∈ lookups, rq = rqOf c (stepB B T q (Flat.fsB fs)) [("id", .str i)] := by
  obtain ⟨i, hi, rfl⟩ := List.mem_map.mp h
  exact ⟨i, hi, rfl⟩

/-- the root request and a batch of lookups (one per id of `lookups`; none if `B` owns no selected
    field) -/
theorem subrequestsOK_of (h : Fam c A B T q fs) (hs : SvcFam c A B T q fs SA SB) (svcs : List Svc)
    (hsA : svcs.find? (·.url == A) = some ⟨A, SA⟩) (hsB : svcs.find? (·.url == B) = some ⟨B, SB⟩)
    (ty : TypeRef) (thn : List Step) (lookups : List String) (hl : Flat.fsB fs = [] → lookups = []) :
    SubrequestsOK svcs A B T fs lookups (rootRq c A q ty fs thn) (lookupRqs c B T q fs lookups)
      (callsExplicit c A B T q ty fs thn lookups) := by
  have hA := schemaAt_of_find hsA
  have hB := schemaAt_of_find hsB
  have hBne : lookups ≠ [] → Flat.fsB fs ≠ [] := fun hne hnil => hne (hl hnil)
  -- occurrences in the batch
  have hocc : ∀ f ∈ fs, ∀ rq ∈ lookupRqs c B T q fs lookups,
      occOn (schemaAt svcs B) T f.1 rq = if f.2.2 then 1 else 0 := by
    intro f hf rq hrq
    obtain ⟨i, -, rfl⟩ := mem_lookupRqs hrq
    rw [hB]; exact occOn_lookup h.toFamT hs.toSvcB _ f hf
  have hsel : ∀ f ∈ fs, selecting svcs T f.1 (callsExplicit c A B T q ty fs thn lookups)
      = if f.2.2 then (lookupRqs c B T q fs lookups).map (fun rq => (B, rq)) else [(A, rootRq c A q ty fs thn)] := by
    intro f hf
    have hrest : selecting svcs T f.1
          (if (lookupRqs c B T q fs lookups).isEmpty then [] else [⟨B, lookupRqs c B T q fs lookups⟩])
        = if f.2.2 then (lookupRqs c B T q fs lookups).map (fun rq => (B, rq)) else [] := by
      cases hlk : lookupRqs c B T q fs lookups with
      | nil => simp [selecting]
      | cons r0 rs =>
        simp only [List.isEmpty_cons, Bool.false_eq_true, ↓reduceIte]
        rw [← hlk, selecting_batch svcs T f.1 B _ _ (hocc f hf)]
        cases f.2.2 <;> simp
    unfold callsExplicit
    rw [selecting_cons_one, hA, rootRq, occOn_root h hs ty thn [] f hf, hrest]
    cases f.2.2 <;> simp
  refine ⟨rfl, ?_, ?_, ?_, ?_, hsel, ?_, ?_⟩
  · -- valid
    intro cl hcl rq hrq
    simp only [callsExplicit, List.mem_cons] at hcl
    rcases hcl with rfl | hcl
    · simp only [List.mem_singleton] at hrq
      subst hrq
      rw [hA]; exact validFor_root h hs ty thn []
    · split at hcl
      · cases hcl
      · simp only [List.mem_singleton] at hcl
        subst hcl
        obtain ⟨i, hi, rfl⟩ := mem_lookupRqs hrq
        rw [hB]
        exact validFor_lookup h.toFamT hs.toSvcB (hBne (List.ne_nil_of_mem hi)) _
  · simp [rootRq, rqOf, header_root, h.hkind]
  · intro rq hrq
    obtain ⟨i, -, rfl⟩ := mem_lookupRqs hrq
    exact isNodeLookup_rqB c B T q _ _
  · simp [lookupRqs, rqOf, List.map_map, Function.comp]
  · -- once
    intro f hf p hp
    rw [hsel f hf] at hp
    cases hb : f.2.2
    · simp only [hb, Bool.false_eq_true, ↓reduceIte, List.mem_singleton] at hp
      subst hp
      simp only [hA]
      rw [rootRq, occOn_root h hs ty thn [] f hf, hb]; rfl
    · simp only [hb, ↓reduceIte] at hp
      obtain ⟨rq, hrq, rfl⟩ := List.mem_map.mp hp
      have := hocc f hf rq hrq
      simpa [hb] using this
  · -- declared
    intro f hf
    cases hb : f.2.2
    · simp only [Bool.false_eq_true, ↓reduceIte, hA, hB]
      exact ⟨declares_of_leafField (hs.fsA f hf hb), by simp [declares, hs.onlyB f hf hb]⟩
    · simp only [↓reduceIte, hA, hB]
      exact ⟨declares_of_leafField (hs.fsB f hf hb), by simp [declares, hs.onlyA f hf hb]⟩

/-- the calls of the one-object family are `callsExplicit` with one lookup (none if `B` owns nothing) -/
theorem flat_callsOf_eq (c : PCtx) (A B T q : String) (fs : List FieldSpec) (i : String) :
    Flat.callsOf c A B T q fs i
      = callsExplicit c A B T q (.named T) fs (stepsB B T q (Flat.fsB fs)) (if (Flat.fsB fs).isEmpty then [] else [i]) := by
  unfold Flat.callsOf callsExplicit lookupRqs
  cases hfb : Flat.fsB fs with
  | nil => rfl
  | cons b0 bs => rfl

/-- the calls of the list family are `callsExplicit` with one lookup per DISTINCT id -/
theorem flat_list_callsOf_eq (c : PCtx) (A B T q : String) (fs : List FieldSpec) (ids : List String) :
    FlatList.callsOf c A B T q fs ids
      = callsExplicit c A B T q (.list (.named T)) fs (stepsB B T q (Flat.fsB fs))
          (if (Flat.fsB fs).isEmpty then [] else FlatList.dedupIds ids) := by
  unfold FlatList.callsOf callsExplicit lookupRqs
  cases hfb : Flat.fsB fs with
  | nil => cases ids <;> rfl
  | cons b0 bs =>
    cases ids with
    | nil => rfl
    | cons i0 is =>
      have hne : FlatList.dedupIds (i0 :: is) ≠ [] := by
        intro hnil
        have := (FlatList.mem_dedupIds (i0 :: is) i0).mpr (by simp)
        rw [hnil] at this; cases this
      cases hd : FlatList.dedupIds (i0 :: is) with
      | nil => exact absurd hd hne
      | cons d0 ds =>
        simp only [List.isEmpty_cons, Bool.false_eq_true, ↓reduceIte, List.map_cons, FlatList.batchB, hd,
          FlatList.rqB]
        rfl

/-- the calls of the one-object family (`Flat.callsOf`) -/
theorem flat_calls_ok (h : Fam c A B T q fs) (hs : SvcFam c A B T q fs SA SB) (svcs : List Svc)
    (hsA : svcs.find? (·.url == A) = some ⟨A, SA⟩) (hsB : svcs.find? (·.url == B) = some ⟨B, SB⟩) (i : String) :
    ∃ rqA batch, SubrequestsOK svcs A B T fs (if (Flat.fsB fs).isEmpty then [] else [i]) rqA batch
      (Flat.callsOf c A B T q fs i) := by
  rw [flat_callsOf_eq]
  exact ⟨_, _, subrequestsOK_of h hs svcs hsA hsB _ _ _ (by intro hn; simp [hn])⟩

/-- the calls of the list family (`FlatList.callsOf`) -/
theorem flat_list_calls_ok (h : Fam c A B T q fs) (hs : SvcFam c A B T q fs SA SB) (svcs : List Svc)
    (hsA : svcs.find? (·.url == A) = some ⟨A, SA⟩) (hsB : svcs.find? (·.url == B) = some ⟨B, SB⟩)
    (ids : List String) :
    ∃ rqA batch, SubrequestsOK svcs A B T fs (if (Flat.fsB fs).isEmpty then [] else FlatList.dedupIds ids) rqA batch
      (FlatList.callsOf c A B T q fs ids) := by
  rw [flat_list_callsOf_eq]
  exact ⟨_, _, subrequestsOK_of h hs svcs hsA hsB _ _ _ (by intro hn; simp [hn])⟩

/-- one object: every client-selected field is selected by EXACTLY ONE request of all the calls, a
    request to its owner -/
theorem SubrequestsOK.exactly_one {svcs : List Svc} {i : String} {rqA : Request} {batch : List Request}
    {calls : List Call}
    (hok : SubrequestsOK svcs A B T fs (if (Flat.fsB fs).isEmpty then [] else [i]) rqA batch calls) :
    ∀ f ∈ fs, ∃ rq, selecting svcs T f.1 calls = [(if f.2.2 then B else A, rq)] := by
  intro f hf
  rw [hok.owner f hf]
  cases hb : f.2.2
  · exact ⟨rqA, by simp⟩
  · have hmem : f ∈ Flat.fsB fs := List.mem_filter.mpr ⟨hf, hb⟩
    have hne : (Flat.fsB fs).isEmpty = false := by
      cases hfb : Flat.fsB fs with
      | nil => rw [hfb] at hmem; cases hmem
      | cons _ _ => rfl
    have hids := hok.ids
    simp only [hne, Bool.false_eq_true, ↓reduceIte, List.map_cons, List.map_nil] at hids
    cases batch with
    | nil => simp at hids
    | cons r0 rs =>
      cases rs with
      | nil => exact ⟨r0, by simp⟩
      | cons _ _ => simp at hids

end PebblesVerif.C02
