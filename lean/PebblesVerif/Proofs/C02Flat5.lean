import PebblesVerif.Proofs.C02Flat4
import PebblesVerif.Proofs.Mut4
/-!
C02 end to end, part 5: the flat MUTATION family (`Mut.Fam`: `mutation { m₁ … mₙ }`, leaf root
fields, any number of services): every request of the explicit call list `Mut.callsOf` is valid
for the service it is sent to.
-/
namespace PebblesVerif.Mut
open PebblesVerif PebblesVerif.Exec PebblesVerif.C02

/-- **The hypotheses tying the SERVICE schemas to the routing table, mutation family.** Every
    service `u` that owns a selected root field (`Mut.activeUrls`) is in `svcs`, its schema has the
    mutation root `Mutation`, an object type, which declares every selected field the table routes
    to `u` as a leaf field selectable without arguments — and (`only`) no selected field the table
    routes elsewhere. (For a merged federation: `C04_declares`, `C06_unique_owner`.) -/
structure SvcFam (c : PCtx) (ms : List MSpec) (svcs : List Svc) : Prop where
  rootM : ∀ u ∈ activeUrls c ms, (schemaAt svcs u).mutation = some "Mutation"
  kM : ∀ u ∈ activeUrls c ms, kindOf (schemaAt svcs u) "Mutation" = some .object
  own : ∀ f ∈ ms, LeafField (schemaAt svcs f.2.2) "Mutation" f.1
  only : ∀ f ∈ ms, ∀ u ∈ activeUrls c ms, u ≠ f.2.2 → declares (schemaAt svcs u) "Mutation" f.1 = false

end PebblesVerif.Mut

namespace PebblesVerif.C02
open PebblesVerif PebblesVerif.Exec PebblesVerif.Flat

/-- mutation root fields are plain leaves: the lemmas about `leaves` apply -/
theorem mleaves_eq (ms : List Mut.MSpec) :
    Mut.mleaves ms = leaves (ms.map (fun m => ((m.1, m.2.1, false) : FieldSpec))) := by
  simp [Mut.mleaves, leaves, List.map_map, Function.comp_def]

theorem header_mut (c : PCtx) (ms : List Mut.MSpec) (u : String) :
    header c (Mut.stepOf ms u) = ⟨c.opKind, if c.opName != "" then some c.opName else none, []⟩ := by
  unfold header walkArgs
  simp only [Mut.stepOf, Step.ip, List.isEmpty_nil, ↓reduceIte, Bool.true_and, Step.sels, mleaves_eq, walkArgs_leaves,
    List.map_nil, sortStrs, List.foldl_nil]

theorem validFor_mut {c : PCtx} {ms : List Mut.MSpec} {svcs : List Svc} (h : Mut.Fam c ms) (hs : Mut.SvcFam c ms svcs)
    (u : String) (hu : u ∈ Mut.activeUrls c ms) :
    ValidFor (schemaAt svcs u) (Mut.reqOf c ms u) = true := by
  obtain ⟨MT, hMT, hkM⟩ := kindOf_some (hs.kM u hu)
  have hne : (Mut.mleaves (Mut.owned ms u)).isEmpty = false := by
    have := (List.mem_filter.mp hu).2
    rw [List.any_eq_true] at this
    obtain ⟨f, hf, hfu⟩ := this
    have : f ∈ Mut.owned ms u := List.mem_filter.mpr ⟨hf, hfu⟩
    cases ho : Mut.owned ms u with
    | nil => rw [ho] at this; cases this
    | cons _ _ => rfl
  have hleaves : validSels (schemaAt svcs u) ⟨.mutation, if c.opName != "" then some c.opName else none, []⟩ MT
      (Mut.mleaves (Mut.owned ms u)) = true := by
    rw [mleaves_eq]
    apply validSels_leaves _ _ "Mutation" MT hMT
    intro g hg
    obtain ⟨f, hfo, rfl⟩ := List.mem_map.mp hg
    obtain ⟨hfm, hfu⟩ := Mut.owned_sub ms u f hfo
    refine ⟨h.hfb f.1 (Mut.mem_mnames hfm), ?_⟩
    have := hs.own f hfm
    rw [hfu] at this
    exact this
  unfold ValidFor
  simp only [Mut.reqOf, rqOf, header_mut, h.hkind, rootOf, hs.rootM u hu, hMT, hkM, beq_self_eq_true, Bool.true_and]
  simp only [Mut.stepOf, Step.sels, hne, Bool.not_false, Bool.true_and, hleaves]

/-- every request of the explicit call list of the mutation family: valid for the service called,
    a `mutation` without variables -/
theorem mut_calls_ok {c : PCtx} {ms : List Mut.MSpec} {svcs : List Svc} (h : Mut.Fam c ms) (hs : Mut.SvcFam c ms svcs) :
    ∀ cl ∈ Mut.callsOf c ms, ∀ rq ∈ cl.batch,
      ValidFor (schemaAt svcs cl.url) rq = true ∧ rq.header.kind = .mutation ∧ rq.header.varDecls = [] ∧ rq.vars = [] := by
  intro cl hcl rq hrq
  obtain ⟨u, hu, rfl⟩ := List.mem_map.mp hcl
  simp only [List.mem_singleton] at hrq
  subst hrq
  refine ⟨validFor_mut h hs u hu, Mut.reqOf_kind h u, ?_, rfl⟩
  simp [Mut.reqOf, rqOf, header_mut]

end PebblesVerif.C02
