import PebblesVerif.Proofs.C02Flat5
import PebblesVerif.Proofs.C02Calls
/-!
C02 end to end, part 6: EVERY downstream. Whatever the services answer (wrong shapes, wrong number
of objects, faults), every request of every call the gateway model makes for an operation of the
flat families is one of the two requests of the plan — the root request at `A`, a `node` lookup at
`B` — hence valid for the service it is sent to.
-/
namespace PebblesVerif.C02
open PebblesVerif PebblesVerif.Exec PebblesVerif.Flat PebblesVerif.ResultOps

/-! ### insertion points for a one-point path extend the branch by one point -/

theorem findIP_go_single (sk : Bool) (branch : List String) (found : Sel) (last : Bool) :
    ∀ (es : List J) (i : Nat) (acc : List (List String)) (r : Option (List (List String))),
    (∀ ip ∈ acc, ∃ x, ip = branch ++ [x]) →
    findIPW.go sk [] branch found last es i acc = .ok r → ∀ ip ∈ r.getD [], ∃ x, ip = branch ++ [x]
  | [], i, acc, r, hacc, h => by
    rw [findIPW.go] at h
    simp only [Except.ok.injEq] at h
    subst h; simpa using hacc
  | .obj entry :: es, i, acc, r, hacc, h => by
    rw [findIPW.go] at h
    simp only [bind, Except.bind] at h
    split at h
    · cases h
    · rename_i idPart _
      cases idPart with
      | none =>
        simp only [Except.ok.injEq] at h
        subst h; simp
      | some id =>
        simp only [findIPW] at h
        refine findIP_go_single sk branch found last es (i + 1) _ r ?_ h
        intro ip hip
        simp only [List.mem_append, List.mem_singleton] at hip
        rcases hip with hip | rfl
        · exact hacc ip hip
        · exact ⟨_, rfl⟩
  | .null :: es, i, acc, r, hacc, h => by
    -- a null element: passed over (after the repair) or an error (before it)
    rw [findIPW.go] at h
    split at h
    · exact findIP_go_single sk branch found last es (i + 1) acc r hacc h
    · cases h
  | .bool _ :: es, i, acc, r, _, h => by
    rw [findIPW.go] at h <;> first | cases h | (intro _ hh; cases hh) | (intro hh; cases hh)
  | .num _ :: es, i, acc, r, _, h => by
    rw [findIPW.go] at h <;> first | cases h | (intro _ hh; cases hh) | (intro hh; cases hh)
  | .str _ :: es, i, acc, r, _, h => by
    rw [findIPW.go] at h <;> first | cases h | (intro _ hh; cases hh) | (intro hh; cases hh)
  | .arr _ :: es, i, acc, r, _, h => by
    rw [findIPW.go] at h <;> first | cases h | (intro _ hh; cases hh) | (intro hh; cases hh)

/-- for a path of ONE point every realised insertion point is the branch plus one point -/
theorem findIP_single (p : String) (sels : List Sel) (chunk : List (String × J)) (branch : List String)
    (res : List (List String)) (h : findIP [p] sels chunk branch = .ok res) :
    ∀ ip ∈ res, ∃ x, ip = branch ++ [x] := by
  rw [findIP, findIPW] at h
  split at h
  · simp only [Except.ok.injEq] at h; subst h; simp
  · rename_i found _
    split at h
    · simp only [Except.ok.injEq] at h; subst h; simp
    · split at h
      · cases h
      · simp only [Except.ok.injEq] at h; subst h; simp
    · rename_i rootValue _ _
      simp only [List.isEmpty_nil, ↓reduceIte] at h
      split at h
      · split at h
        · simp only [bind, Except.bind] at h
          split at h
          · cases h
          · rename_i r hr
            simp only [Except.ok.injEq] at h
            subst h
            exact findIP_go_single _ branch found true _ 0 [] r (by simp) hr
        · cases h
      · split at h
        · split at h
          · simp only [bind, Except.bind] at h
            split at h
            · cases h
            · rename_i idp _
              cases idp with
              | none => simp only [Except.ok.injEq] at h; subst h; simp
              | some id =>
                simp only [Except.ok.injEq] at h; subst h
                intro ip hip
                simp only [List.mem_singleton] at hip
                exact ⟨_, hip⟩
          · cases h
          · cases h
        · simp only [bind, Except.bind] at h
          split at h
          · cases h
          · rename_i idp _
            cases idp with
            | none => simp only [Except.ok.injEq] at h; subst h; simp
            | some id =>
              simp only [Except.ok.injEq] at h; subst h
              intro ip hip
              simp only [List.mem_singleton] at hip
              exact ⟨_, hip⟩
        · cases h

/-! ### the variables of a request (no client variables) -/

theorem getVariables_root (c : PCtx) (s : Step) (vars : List (String × J))
    (h : getVariables none c ⟨s, []⟩ = .ok vars) : vars = [] := by
  simp only [getVariables, List.getLast?_nil] at h
  cases h; rfl

theorem getVariables_point (c : PCtx) (s : Step) (x : String) (vars : List (String × J))
    (h : getVariables none c ⟨s, [x]⟩ = .ok vars) : ∃ i, i ≠ "" ∧ vars = [("id", .str i)] := by
  simp only [getVariables, List.getLast?_singleton, bind, Except.bind] at h
  split at h
  · cases h
  · rename_i pd _
    split at h
    · cases h
    · rename_i hne
      simp only [Except.ok.injEq] at h
      subst h
      exact ⟨pd.id, by simpa using hne, rfl⟩

/-! ### the two query families -/

variable {c : PCtx} {A B T q : String} {fs : List FieldSpec} {SA SB : Schema}

/-- the execution requests reachable from the plan of the flat query families -/
def FlatReq (A B T q : String) (ty : TypeRef) (fs : List FieldSpec) (er : ExecReq) : Prop :=
  er = ⟨.mk A "Query" [rootSel q ty (Flat.fsA fs)] [] (stepsB B T q (Flat.fsB fs)), []⟩ ∨
  (Flat.fsB fs ≠ [] ∧ er.step = stepB B T q (Flat.fsB fs) ∧ ∃ x, er.ip = [x])

theorem flatReq_closed (A B T q : String) (ty : TypeRef) (fs : List FieldSpec) :
    ∀ er, FlatReq A B T q ty fs er → ∀ resp qr next, parseOne er resp = .ok (qr, next) →
      ∀ e ∈ next, FlatReq A B T q ty fs e := by
  intro er her resp qr next hpo e he
  obtain ⟨hthn, ips, hips, hip⟩ := parseOne_next' er resp qr next hpo e he
  rcases her with rfl | ⟨-, hstep, -⟩
  · right
    simp only [Step.thn] at hthn
    cases hfb : Flat.fsB fs with
    | nil => rw [hfb] at hthn; simp [stepsB] at hthn
    | cons b0 bs =>
      rw [hfb] at hthn
      simp only [stepsB, List.mem_singleton] at hthn
      refine ⟨by simp, hthn, ?_⟩
      rw [hthn] at hips
      simp only [Step.ip, List.length_nil, List.drop_zero] at hips
      obtain ⟨x, hx⟩ := findIP_single q _ _ _ ips hips e.ip hip
      exact ⟨x, by simpa using hx⟩
  · rw [hstep] at hthn
    simp [stepB, Step.thn] at hthn

/-- what every request of every call is, for the flat query families: the root request at `A`, or a
    `node` lookup for some non-empty id at `B` -/
theorem flat_request_cases (ty : TypeRef) (url : String) (rq : Request)
    (hrq : FromReq c none (FlatReq A B T q ty fs) url rq) :
    (url = A ∧ rq = rootRq c A q ty fs (stepsB B T q (Flat.fsB fs))) ∨
    (url = B ∧ Flat.fsB fs ≠ [] ∧ ∃ i, i ≠ "" ∧ rq = rqOf c (stepB B T q (Flat.fsB fs)) [("id", .str i)]) := by
  obtain ⟨er, vars, hR, hurl, hv, rfl⟩ := hrq
  rcases hR with rfl | ⟨hB, hstep, x, hx⟩
  · left
    have := getVariables_root c _ vars hv
    subst this
    exact ⟨hurl.symm, rfl⟩
  · right
    obtain ⟨st, ip⟩ := er
    simp only at hstep hx
    subst hstep hx
    obtain ⟨i, hi, rfl⟩ := getVariables_point c _ x vars hv
    exact ⟨hurl.symm, hB, i, hi, rfl⟩

/-- what C02 says of ONE request `rq` sent to `url`: valid for the service called; the root request
    (a `query` without variables) if `url = A`, a `node` lookup with `$id` bound to a non-empty
    string if `url = B`; it selects each client field iff `url` is the field's owner, then once -/
structure RequestOK (svcs : List Svc) (A B T : String) (fs : List FieldSpec) (url : String) (rq : Request) : Prop where
  valid : ValidFor (schemaAt svcs url) rq = true
  form : (url = A ∧ rq.header.kind = .query ∧ rq.header.varDecls = [] ∧ rq.vars = []) ∨
         (url = B ∧ IsNodeLookup T (leaves (Flat.fsB fs)) rq ∧ ∃ i, i ≠ "" ∧ rq.vars = [("id", J.str i)])
  owner : ∀ f ∈ fs, occOn (schemaAt svcs url) T f.1 rq = if url = (if f.2.2 then B else A) then 1 else 0

theorem requestOK_of_cases (h : Fam c A B T q fs) (hs : SvcFam c A B T q fs SA SB) (svcs : List Svc)
    (hsA : svcs.find? (·.url == A) = some ⟨A, SA⟩) (hsB : svcs.find? (·.url == B) = some ⟨B, SB⟩)
    (ty : TypeRef) (url : String) (rq : Request)
    (hc : (url = A ∧ rq = rootRq c A q ty fs (stepsB B T q (Flat.fsB fs))) ∨
      (url = B ∧ Flat.fsB fs ≠ [] ∧ ∃ i, i ≠ "" ∧ rq = rqOf c (stepB B T q (Flat.fsB fs)) [("id", .str i)])) :
    RequestOK svcs A B T fs url rq := by
  have hA := schemaAt_of_find hsA
  have hB := schemaAt_of_find hsB
  have hBA : ¬ B = A := fun e => h.hAB e.symm
  rcases hc with ⟨rfl, rfl⟩ | ⟨rfl, hne, i, hi, rfl⟩
  · refine ⟨by rw [hA]; exact validFor_root h hs ty _ [], Or.inl ⟨rfl, ?_⟩, ?_⟩
    · simp [rootRq, rqOf, header_root, h.hkind]
    · intro f hf
      rw [hA, rootRq, occOn_root h hs ty _ [] f hf]
      cases f.2.2 <;> simp [h.hAB]
  · refine ⟨by rw [hB]; exact validFor_lookup h.toFamT hs.toSvcB hne _, Or.inr ⟨rfl, isNodeLookup_rqB c _ T q _ _, i, hi, rfl⟩, ?_⟩
    intro f hf
    rw [hB, occOn_lookup h.toFamT hs.toSvcB _ f hf]
    cases f.2.2 <;> simp [hBA]

/-- **one object, EVERY downstream** -/
theorem flat_every_downstream (h : Fam c A B T q fs) (hs : SvcFam c A B T q fs SA SB) (svcs : List Svc)
    (hsA : svcs.find? (·.url == A) = some ⟨A, SA⟩) (hsB : svcs.find? (·.url == B) = some ⟨B, SB⟩)
    (down : Downstream) (res : GwResult)
    (hg : gateway c {} ⟨.query, "", [], [Q T q fs]⟩ none down = .ok res) :
    ∀ cl ∈ res.calls, ∀ rq ∈ cl.batch, RequestOK svcs A B T fs cl.url rq := by
  rw [gateway_noVarDefs _ _ _ _ _ _ rfl] at hg
  have hplan : plan c ⟨.query, "", [], [Q T q fs]⟩
      = .ok ([.mk A "Query" [rootSel q (.named T) (Flat.fsA fs)] [] (stepsB B T q (Flat.fsB fs))], [([q], [(T, ["id"])])]) := by
    unfold plan
    simp only [stage_sanitize h, bind, Except.bind, stage_plan h]
    rfl
  intro cl hcl rq hrq
  have := gatewayCore_calls_from_reqs c {} none down (FlatReq A B T q (.named T) fs) (flatReq_closed A B T q _ fs)
    _ id _ _ hplan (by intro s hs; simp only [List.mem_singleton] at hs; subst hs; exact Or.inl rfl) res hg cl hcl rq hrq
  exact requestOK_of_cases h hs svcs hsA hsB _ _ _ (flat_request_cases _ _ _ this)

/-- **a list of objects, EVERY downstream** -/
theorem flat_list_every_downstream (h : Fam c A B T q fs) (hs : SvcFam c A B T q fs SA SB) (svcs : List Svc)
    (hsA : svcs.find? (·.url == A) = some ⟨A, SA⟩) (hsB : svcs.find? (·.url == B) = some ⟨B, SB⟩)
    (down : Downstream) (res : GwResult)
    (hg : gateway c {} ⟨.query, "", [], [FlatList.QL T q fs]⟩ none down = .ok res) :
    ∀ cl ∈ res.calls, ∀ rq ∈ cl.batch, RequestOK svcs A B T fs cl.url rq := by
  rw [gateway_noVarDefs _ _ _ _ _ _ rfl] at hg
  have hplan : plan c ⟨.query, "", [], [FlatList.QL T q fs]⟩
      = .ok ([.mk A "Query" [rootSel q (.list (.named T)) (Flat.fsA fs)] [] (stepsB B T q (Flat.fsB fs))],
             [([q], [(T, ["id"])])]) := by
    unfold plan
    simp only [FlatList.stage_sanitize h, bind, Except.bind, FlatList.stage_plan h]
    rfl
  intro cl hcl rq hrq
  have := gatewayCore_calls_from_reqs c {} none down (FlatReq A B T q (.list (.named T)) fs)
    (flatReq_closed A B T q _ fs) _ id _ _ hplan
    (by intro s hs; simp only [List.mem_singleton] at hs; subst hs; exact Or.inl rfl) res hg cl hcl rq hrq
  exact requestOK_of_cases h hs svcs hsA hsB _ _ _ (flat_request_cases _ _ _ this)

/-- a batch all of whose requests are valid passes the validating front -/
theorem guardValid_of_valid (svcs : List Svc) (down : Downstream) (url : String) (batch : List Request)
    (h : ∀ rq ∈ batch, ValidFor (schemaAt svcs url) rq = true) : guardValid svcs down url batch = down url batch := by
  have : batch.all (fun rq => ValidFor (schemaAt svcs url) rq) = true := List.all_eq_true.mpr h
  simp [guardValid, this]

/-- **one object: no invalid request is ever handed to a service** — putting a validating front
    before the downstream changes nothing, whatever the downstream does and however the run ends -/
theorem flat_guarded (h : Fam c A B T q fs) (hs : SvcFam c A B T q fs SA SB) (svcs : List Svc)
    (hsA : svcs.find? (·.url == A) = some ⟨A, SA⟩) (hsB : svcs.find? (·.url == B) = some ⟨B, SB⟩)
    (down : Downstream) :
    gateway c {} ⟨.query, "", [], [Q T q fs]⟩ none (guardValid svcs down)
      = gateway c {} ⟨.query, "", [], [Q T q fs]⟩ none down := by
  rw [gateway_noVarDefs _ _ _ _ _ _ rfl, gateway_noVarDefs _ _ _ _ _ _ rfl]
  have hplan : plan c ⟨.query, "", [], [Q T q fs]⟩
      = .ok ([.mk A "Query" [rootSel q (.named T) (Flat.fsA fs)] [] (stepsB B T q (Flat.fsB fs))], [([q], [(T, ["id"])])]) := by
    unfold plan
    simp only [stage_sanitize h, bind, Except.bind, stage_plan h]
    rfl
  refine gatewayCore_congr c {} none _ (FlatReq A B T q (.named T) fs) (flatReq_closed A B T q _ fs) down ?_ _ id _ _ hplan
    (by intro s hs; simp only [List.mem_singleton] at hs; subst hs; exact Or.inl rfl)
  intro url batch hb
  exact guardValid_of_valid svcs down url batch
    (fun rq hrq => (requestOK_of_cases h hs svcs hsA hsB _ _ _ (flat_request_cases _ _ _ (hb rq hrq))).valid)

/-- **a list of objects: no invalid request is ever handed to a service** -/
theorem flat_list_guarded (h : Fam c A B T q fs) (hs : SvcFam c A B T q fs SA SB) (svcs : List Svc)
    (hsA : svcs.find? (·.url == A) = some ⟨A, SA⟩) (hsB : svcs.find? (·.url == B) = some ⟨B, SB⟩)
    (down : Downstream) :
    gateway c {} ⟨.query, "", [], [FlatList.QL T q fs]⟩ none (guardValid svcs down)
      = gateway c {} ⟨.query, "", [], [FlatList.QL T q fs]⟩ none down := by
  rw [gateway_noVarDefs _ _ _ _ _ _ rfl, gateway_noVarDefs _ _ _ _ _ _ rfl]
  have hplan : plan c ⟨.query, "", [], [FlatList.QL T q fs]⟩
      = .ok ([.mk A "Query" [rootSel q (.list (.named T)) (Flat.fsA fs)] [] (stepsB B T q (Flat.fsB fs))],
             [([q], [(T, ["id"])])]) := by
    unfold plan
    simp only [FlatList.stage_sanitize h, bind, Except.bind, FlatList.stage_plan h]
    rfl
  refine gatewayCore_congr c {} none _ (FlatReq A B T q (.list (.named T)) fs) (flatReq_closed A B T q _ fs) down ?_ _ id
    _ _ hplan (by intro s hs; simp only [List.mem_singleton] at hs; subst hs; exact Or.inl rfl)
  intro url batch hb
  exact guardValid_of_valid svcs down url batch
    (fun rq hrq => (requestOK_of_cases h hs svcs hsA hsB _ _ _ (flat_request_cases _ _ _ (hb rq hrq))).valid)

/-! ### mutations -/

/-- the execution requests of the plan of a flat mutation: the root steps -/
def MutReq (c : PCtx) (ms : List Mut.MSpec) (er : ExecReq) : Prop :=
  ∃ u ∈ Mut.activeUrls c ms, er = ⟨Mut.stepOf ms u, []⟩

theorem mutReq_closed (c : PCtx) (ms : List Mut.MSpec) :
    ∀ er, MutReq c ms er → ∀ resp qr next, parseOne er resp = .ok (qr, next) → ∀ e ∈ next, MutReq c ms e := by
  intro er ⟨u, _, hu⟩ resp qr next hpo e he
  have := parseOne_next er resp qr next hpo e he
  rw [hu] at this
  simp [Mut.stepOf, Step.thn] at this

theorem mut_fromReq_ok {c : PCtx} {ms : List Mut.MSpec} {svcs : List Svc} (h : Mut.Fam c ms)
    (hs : Mut.SvcFam c ms svcs) (url : String) (rq : Request) (hrq : FromReq c none (MutReq c ms) url rq) :
    ValidFor (schemaAt svcs url) rq = true ∧ rq.header.kind = .mutation ∧ rq.header.varDecls = [] ∧ rq.vars = [] := by
  obtain ⟨er, vars, ⟨u, hu, rfl⟩, hurl, hv, rfl⟩ := hrq
  have hvars := getVariables_root c _ vars hv
  subst hvars
  have hurl' : url = u := hurl.symm
  have hmem : (⟨u, [Mut.reqOf c ms u]⟩ : Call) ∈ Mut.callsOf c ms := List.mem_map.mpr ⟨u, hu, rfl⟩
  have := mut_calls_ok h hs _ hmem (Mut.reqOf c ms u) (by simp)
  rw [hurl']
  exact this

/-- **flat mutations, EVERY downstream** (also one that faults or answers with the wrong number of
    objects: then the model reports the error and records no calls) -/
theorem mut_every_downstream {c : PCtx} {ms : List Mut.MSpec} {svcs : List Svc} (h : Mut.Fam c ms)
    (hs : Mut.SvcFam c ms svcs) (down : Downstream) (res : GwResult)
    (hg : gateway c {} (Mut.op c ms) none down = .ok res) :
    ∀ cl ∈ res.calls, ∀ rq ∈ cl.batch,
      ValidFor (schemaAt svcs cl.url) rq = true ∧ rq.header.kind = .mutation ∧ rq.header.varDecls = [] ∧ rq.vars = [] := by
  rw [gateway_noVarDefs _ _ _ _ _ _ rfl] at hg
  intro cl hcl rq hrq
  exact mut_fromReq_ok h hs _ _ (gatewayCore_calls_from_reqs c {} none down (MutReq c ms) (mutReq_closed c ms)
    _ id _ _ (Mut.stage_plan' h)
    (by
      intro s hs
      obtain ⟨u, hu, rfl⟩ := List.mem_map.mp hs
      exact ⟨u, hu, rfl⟩)
    res hg cl hcl rq hrq)

/-- **flat mutations: no invalid request is ever handed to a service** -/
theorem mut_guarded {c : PCtx} {ms : List Mut.MSpec} {svcs : List Svc} (h : Mut.Fam c ms)
    (hs : Mut.SvcFam c ms svcs) (down : Downstream) :
    gateway c {} (Mut.op c ms) none (guardValid svcs down) = gateway c {} (Mut.op c ms) none down := by
  rw [gateway_noVarDefs _ _ _ _ _ _ rfl, gateway_noVarDefs _ _ _ _ _ _ rfl]
  refine gatewayCore_congr c {} none _ (MutReq c ms) (mutReq_closed c ms) down ?_ _ id _ _ (Mut.stage_plan' h)
    (by
      intro s hs
      obtain ⟨u, hu, rfl⟩ := List.mem_map.mp hs
      exact ⟨u, hu, rfl⟩)
  intro url batch hb
  exact guardValid_of_valid svcs down url batch (fun rq hrq => (mut_fromReq_ok h hs url rq (hb rq hrq)).1)

end PebblesVerif.C02
