import PebblesVerif.Proofs.C02Flat6
import PebblesVerif.Proofs.MutO4
/-!
C02 end to end, part 7: the mutation family with ONE object-valued root field (`MutO.Fam`:
`mutation { m₁ … mₙ o { f₁ … fₖ } }`, the follow-up lookup for `B`'s fields of the object is issued
as a `query`, `C06_flat_followup_is_query`) — EVERY downstream.
-/
namespace PebblesVerif.MutO
open PebblesVerif PebblesVerif.Exec PebblesVerif.C02

/-- **The hypotheses tying the SERVICE schemas to the routing table, mutation family with an
    object-valued root field.** Every service that owns a root field has the mutation root
    `Mutation`, an object type declaring every selected leaf root field routed to it (`own`);
    `A`'s also declares `o` with named type `T`, selectable without arguments, and `T` as
    `Flat.SvcTA` says (`id` and exactly `A`'s share of the selected fields); if `B` owns a selected
    field of `T`, its schema is as `Flat.SvcB` says (`Query.node(id: ID!): Node`, `T implements
    Node` with `id` and exactly `B`'s share). -/
structure SvcFam (c : PCtx) (ms : List Mut.MSpec) (A B T o : String) (fs : List Flat.FieldSpec) (svcs : List Svc) :
    Prop where
  rootM : ∀ u ∈ urlsOf c ms A T o fs, (schemaAt svcs u).mutation = some "Mutation"
  kM : ∀ u ∈ urlsOf c ms A T o fs, kindOf (schemaAt svcs u) "Mutation" = some .object
  own : ∀ f ∈ ms, LeafField (schemaAt svcs f.2.2) "Mutation" f.1
  oA : ∃ fd, fieldOf (schemaAt svcs A) "Mutation" o = some fd ∧ fd.type.name = T ∧ requiredGiven fd.args [] = true
  tA : Flat.SvcTA T fs (schemaAt svcs A)
  tB : Flat.fsB fs ≠ [] → Flat.SvcB T fs (schemaAt svcs B)

end PebblesVerif.MutO

namespace PebblesVerif.C02
open PebblesVerif PebblesVerif.Exec PebblesVerif.Flat

/-! ### lists of selections, appended -/

theorem walkArgs_append (d : Bool) (S : Schema) : ∀ (l1 l2 : List Sel) (acc : List (String × String)),
    walkArgsWith d S (l1 ++ l2) acc = walkArgsWith d S l2 (walkArgsWith d S l1 acc)
  | [], l2, acc => by simp [walkArgsWith]
  | s :: l1, l2, acc => by
    rw [List.cons_append, walkArgsWith, walkArgsWith, walkArgs_append d S l1 l2]

theorem walkArgs_rootSel (d : Bool) (S : Schema) (q : String) (ty : TypeRef) (xs : List FieldSpec)
    (acc : List (String × String)) : walkArgsSelWith d S (rootSel q ty xs) acc = acc := by
  simp only [rootSel, walkArgsSelWith, List.foldl_nil, ite_self, walkArgsWith, idField, walkArgs_leaves]

theorem validSels_append (S : Schema) (hdr : Header) (td : TypeDef) : ∀ (l1 l2 : List Sel),
    validSels S hdr td (l1 ++ l2) = (validSels S hdr td l1 && validSels S hdr td l2)
  | [], l2 => by simp [validSels]
  | s :: l1, l2 => by
    rw [List.cons_append, validSels, validSels, validSels_append S hdr td l1 l2, Bool.and_assoc]

theorem occSels_append (S : Schema) (T n parent : String) : ∀ (l1 l2 : List Sel),
    occSels S T n parent (l1 ++ l2) = occSels S T n parent l1 + occSels S T n parent l2
  | [], l2 => by simp [occSels]
  | s :: l1, l2 => by
    rw [List.cons_append, occSels, occSels, occSels_append S T n parent l1 l2, Nat.add_assoc]

/-- plainly selected leaf fields on a type other than `T` select no field of `T` -/
theorem occSels_leaves_other (S : Schema) (T n parent : String) (hp : (parent == T) = false) :
    ∀ (xs : List FieldSpec), occSels S T n parent (leaves xs) = 0
  | [] => by simp [leaves_nil, occSels]
  | f :: xs => by
    rw [leaves_cons, occSels, leaf, occSel, occSels_leaves_other S T n parent hp xs]
    simp [hp, occSels]

/-! ### the root requests -/

variable {c : PCtx} {ms : List Mut.MSpec} {A B T o : String} {fs : List FieldSpec} {svcs : List Svc}

theorem rootSels_eq (ms : List Mut.MSpec) (A T o : String) (fs : List FieldSpec) (u : String) :
    MutO.rootSels ms A T o fs u
      = leaves ((Mut.owned ms u).map (fun m => ((m.1, m.2.1, false) : FieldSpec)))
        ++ (if A == u then [rootSel o (.named T) (Flat.fsA fs)] else []) := by
  rw [MutO.rootSels, mleaves_eq]
  rfl

theorem header_mutO (c : PCtx) (ms : List Mut.MSpec) (A B T o : String) (fs : List FieldSpec) (u : String) :
    header c (MutO.stepOf ms A B T o fs u) = ⟨c.opKind, if c.opName != "" then some c.opName else none, []⟩ := by
  unfold header walkArgs
  simp only [MutO.stepOf, Step.ip, List.isEmpty_nil, ↓reduceIte, Bool.true_and, Step.sels, rootSels_eq, walkArgs_append,
    walkArgs_leaves]
  cases (A == u) <;> simp [walkArgsWith, walkArgs_rootSel, sortStrs]

theorem T_ne_Mutation (h : FamT c A B T o fs) : ("Mutation" == T) = false := by
  have := h.hTroot
  simp only [beq_eq_false_iff_ne, ne_eq]
  intro e; subst e; simp [isRootName] at this

theorem rootSels_ne (u : String) (hu : u ∈ MutO.urlsOf c ms A T o fs) : (MutO.rootSels ms A T o fs u).isEmpty = false := by
  have := (List.mem_filter.mp hu).2
  simp only [MutO.active, MutO.ownedBy_itemsOf, Bool.not_eq_eq_eq_not, Bool.not_true] at this
  simp only [MutO.rootSels]
  cases hb : (A == u)
  · simpa [hb] using this
  · simp

theorem validFor_mutO_root (h : MutO.Fam c ms A B T o fs) (hs : MutO.SvcFam c ms A B T o fs svcs) (u : String)
    (hu : u ∈ MutO.urlsOf c ms A T o fs) (vars : List (String × J)) :
    ValidFor (schemaAt svcs u) (rqOf c (MutO.stepOf ms A B T o fs u) vars) = true := by
  obtain ⟨MT, hMT, hkM⟩ := kindOf_some (hs.kM u hu)
  have hob : isBuiltinName o = false := h.hrfb o (by simp)
  have hleaves : validSels (schemaAt svcs u) ⟨.mutation, if c.opName != "" then some c.opName else none, []⟩ MT
      (leaves ((Mut.owned ms u).map (fun m => ((m.1, m.2.1, false) : FieldSpec)))) = true := by
    apply validSels_leaves _ _ "Mutation" MT hMT
    intro g hg
    obtain ⟨f, hfo, rfl⟩ := List.mem_map.mp hg
    obtain ⟨hfm, hfu⟩ := Mut.owned_sub ms u f hfo
    refine ⟨h.hrfb f.1 (MutO.mem_root_names f hfm), ?_⟩
    have := hs.own f hfm
    rw [hfu] at this
    exact this
  unfold ValidFor
  simp only [rqOf, header_mutO, h.hkind, rootOf, hs.rootM u hu, hMT, hkM, beq_self_eq_true, Bool.true_and]
  simp only [MutO.stepOf, Step.sels, rootSels_ne u hu, Bool.not_false, Bool.true_and]
  rw [rootSels_eq, validSels_append, hleaves]
  cases hb : (A == u)
  · simp [validSels]
  · have hAu : A = u := by simpa using hb
    subst hAu
    obtain ⟨fd, hfd, hfT, hreq⟩ := hs.oA
    simp only [↓reduceIte, Bool.true_and, validSels, Bool.and_true]
    exact validSel_rootSel _ _ h.toFamT hob hs.tA MT _ ⟨fd, fieldOf_some hMT hfd, hfT, hreq⟩

/-- a root request selects a field of `T` only at `A` (below `o`), then `A`'s share, each once -/
theorem occOn_mutO_root (h : MutO.Fam c ms A B T o fs) (hs : MutO.SvcFam c ms A B T o fs svcs) (u : String)
    (hu : u ∈ MutO.urlsOf c ms A T o fs) (vars : List (String × J)) (f : FieldSpec) (hf : f ∈ fs) :
    occOn (schemaAt svcs u) T f.1 (rqOf c (MutO.stepOf ms A B T o fs u) vars)
      = if u = A ∧ f.2.2 = false then 1 else 0 := by
  have hTM := T_ne_Mutation h.toFamT
  unfold occOn
  simp only [rqOf, header_mutO, h.hkind, rootOf, hs.rootM u hu]
  simp only [MutO.stepOf, Step.sels]
  rw [rootSels_eq, occSels_append, occSels_leaves_other _ T f.1 "Mutation" hTM, Nat.zero_add]
  cases hb : (A == u)
  · have hne : ¬ u = A := by
      intro e; subst e; simp at hb
    simp [occSels, hne]
  · have hAu : A = u := by simpa using hb
    subst hAu
    obtain ⟨MT, hMT, -⟩ := kindOf_some (hs.kM A hu)
    obtain ⟨fd, hfd, hfT, -⟩ := hs.oA
    have hfo := fieldOf_some hMT hfd
    have hid : ("id" == f.1) = false := by
      simp only [beq_eq_false_iff_ne, ne_eq]
      exact fun e => h.hfid f.1 (mem_names hf) e.symm
    have hftn : fieldTypeName (schemaAt svcs A) "Mutation" o = T := by simp [fieldTypeName, hMT, hfo, hfT]
    simp only [↓reduceIte, occSels, rootSel, occSel, hftn, idField, occSels_leaves, hTM, Bool.false_and,
      Bool.false_eq_true, hid, Bool.and_false, Nat.zero_add, Nat.add_zero, true_and]
    rw [Flat.fsA, count_names_filter fs h.hnd _ f hf]
    cases f.2.2 <;> rfl

/-! ### every downstream -/

/-- the execution requests reachable from the plan -/
def MutOReq (c : PCtx) (ms : List Mut.MSpec) (A B T o : String) (fs : List FieldSpec) (er : ExecReq) : Prop :=
  (∃ u ∈ MutO.urlsOf c ms A T o fs, er = ⟨MutO.stepOf ms A B T o fs u, []⟩) ∨
  (Flat.fsB fs ≠ [] ∧ er.step = stepB B T o (Flat.fsB fs) ∧ ∃ x, er.ip = [x])

theorem mutOReq_closed (c : PCtx) (ms : List Mut.MSpec) (A B T o : String) (fs : List FieldSpec) :
    ∀ er, MutOReq c ms A B T o fs er → ∀ resp qr next, parseOne er resp = .ok (qr, next) →
      ∀ e ∈ next, MutOReq c ms A B T o fs e := by
  intro er her resp qr next hpo e he
  obtain ⟨hthn, ips, hips, hip⟩ := parseOne_next' er resp qr next hpo e he
  rcases her with ⟨u, -, rfl⟩ | ⟨-, hstep, -⟩
  · right
    simp only [MutO.stepOf, Step.thn, MutO.children] at hthn
    cases hb : (A == u)
    · simp [hb] at hthn
    · simp only [hb, ↓reduceIte] at hthn
      cases hfb : Flat.fsB fs with
      | nil => rw [hfb] at hthn; simp [stepsB] at hthn
      | cons b0 bs =>
        rw [hfb] at hthn
        simp only [stepsB, List.mem_singleton] at hthn
        refine ⟨by simp, hthn, ?_⟩
        rw [hthn] at hips
        simp only [Step.ip, List.length_nil, List.drop_zero] at hips
        obtain ⟨x, hx⟩ := findIP_single o _ _ _ ips hips e.ip hip
        exact ⟨x, by simpa using hx⟩
  · rw [hstep] at hthn
    simp [stepB, Step.thn] at hthn

/-- what C02 says of ONE request `rq` sent to `url`, mutation family with an object-valued root
    field: valid for the service called, and either a root request — a `mutation` without variables,
    selecting a field of `T` iff it goes to `A` and the field is `A`'s, then once — or, at `B`, a
    follow-up lookup — the QUERY `query($id: ID!) { node(id: $id) { ... on T { <B's fields> } } }`
    with `$id` bound to a non-empty string, selecting exactly `B`'s share of the fields of `T`. -/
structure MutORequestOK (svcs : List Svc) (A B T : String) (fs : List FieldSpec) (url : String) (rq : Request) :
    Prop where
  valid : ValidFor (schemaAt svcs url) rq = true
  form :
    (rq.header.kind = .mutation ∧ rq.header.varDecls = [] ∧ rq.vars = [] ∧
      ∀ f ∈ fs, occOn (schemaAt svcs url) T f.1 rq = if url = A ∧ f.2.2 = false then 1 else 0) ∨
    (url = B ∧ IsNodeLookup T (leaves (Flat.fsB fs)) rq ∧ (∃ i, i ≠ "" ∧ rq.vars = [("id", J.str i)]) ∧
      ∀ f ∈ fs, occOn (schemaAt svcs url) T f.1 rq = if f.2.2 then 1 else 0)

theorem mutO_fromReq_ok (h : MutO.Fam c ms A B T o fs) (hs : MutO.SvcFam c ms A B T o fs svcs)
    (url : String) (rq : Request) (hrq : FromReq c none (MutOReq c ms A B T o fs) url rq) :
    MutORequestOK svcs A B T fs url rq := by
  obtain ⟨er, vars, hR, hurl, hv, rfl⟩ := hrq
  rcases hR with ⟨u, hu, rfl⟩ | ⟨hB, hstep, x, hx⟩
  · have hvars := getVariables_root c _ vars hv
    subst hvars
    have hurl' : url = u := hurl.symm
    rw [hurl']
    refine ⟨validFor_mutO_root h hs u hu [], Or.inl ⟨?_, ?_, rfl, ?_⟩⟩
    · simp [requestOf, header_mutO, h.hkind]
    · simp [requestOf, header_mutO]
    · intro f hf
      exact occOn_mutO_root h hs u hu [] f hf
  · obtain ⟨st, ip⟩ := er
    simp only at hstep hx
    subst hstep hx
    obtain ⟨i, hi, rfl⟩ := getVariables_point c _ x vars hv
    have hurl' : url = B := hurl.symm
    rw [hurl']
    have hb := hs.tB hB
    refine ⟨validFor_lookup h.toFamT hb hB _, Or.inr ⟨rfl, isNodeLookup_rqB c B T o _ _, ⟨i, hi, rfl⟩, ?_⟩⟩
    intro f hf
    exact occOn_lookup h.toFamT hb _ f hf

theorem mutO_roots (c : PCtx) (ms : List Mut.MSpec) (A B T o : String) (fs : List FieldSpec) :
    ∀ s ∈ MutO.planOf c ms A B T o fs, MutOReq c ms A B T o fs ⟨s, s.ip⟩ := by
  intro s hs'
  obtain ⟨u, hu, rfl⟩ := List.mem_map.mp hs'
  exact Or.inl ⟨u, hu, rfl⟩

/-- **mutation with an object-valued root field, EVERY downstream** -/
theorem mutO_every_downstream (h : MutO.Fam c ms A B T o fs) (hs : MutO.SvcFam c ms A B T o fs svcs)
    (down : Downstream) (res : GwResult)
    (hg : gateway c {} (MutO.op c ms T o fs) none down = .ok res) :
    ∀ cl ∈ res.calls, ∀ rq ∈ cl.batch, MutORequestOK svcs A B T fs cl.url rq := by
  rw [gateway_noVarDefs _ _ _ _ _ _ rfl] at hg
  intro cl hcl rq hrq
  exact mutO_fromReq_ok h hs _ _ (gatewayCore_calls_from_reqs c {} none down (MutOReq c ms A B T o fs)
    (mutOReq_closed c ms A B T o fs) _ id _ _ (MutO.stage_plan h) (mutO_roots c ms A B T o fs) res hg cl hcl rq hrq)

/-- **mutation with an object-valued root field: no invalid request is ever handed to a service** -/
theorem mutO_guarded (h : MutO.Fam c ms A B T o fs) (hs : MutO.SvcFam c ms A B T o fs svcs) (down : Downstream) :
    gateway c {} (MutO.op c ms T o fs) none (guardValid svcs down) = gateway c {} (MutO.op c ms T o fs) none down := by
  rw [gateway_noVarDefs _ _ _ _ _ _ rfl, gateway_noVarDefs _ _ _ _ _ _ rfl]
  refine gatewayCore_congr c {} none _ (MutOReq c ms A B T o fs) (mutOReq_closed c ms A B T o fs) down ?_ _ id _ _
    (MutO.stage_plan h) (mutO_roots c ms A B T o fs)
  intro url batch hb
  exact guardValid_of_valid svcs down url batch (fun rq hrq => (mutO_fromReq_ok h hs url rq (hb rq hrq)).valid)

end PebblesVerif.C02
