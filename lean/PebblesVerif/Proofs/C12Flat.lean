import PebblesVerif.Proofs.FlatList6
import PebblesVerif.Proofs.FlatNested7
/-!
Helper lemmas for `Props/C12Flat.lean` (C12 end to end, as corollaries of the end-to-end theorems of
the list family and of the two-level family): how many ids survive the de-duplication
(`FlatList.dedupIds`), how often an id occurs among the lookups of the batch, and evaluator checks
(`#guard`) of the statements on concrete instances — run BEFORE the proofs were written, kept as
tests (they are not obligations).
-/
namespace PebblesVerif.FlatList
open PebblesVerif PebblesVerif.Exec PebblesVerif.Flat

/-- de-duplication never lengthens -/
theorem length_dedupInto_le : ∀ (ids seen : List String), (dedupInto seen ids).length ≤ seen.length + ids.length
  | [], seen => by simp [dedupInto]
  | i :: is, seen => by
    unfold dedupInto
    split
    · have := length_dedupInto_le is seen
      simp only [List.length_cons]; omega
    · have := length_dedupInto_le is (seen ++ [i])
      simp only [List.length_append, List.length_cons, List.length_nil] at this ⊢; omega

/-- … and keeps the length only if there was nothing to drop -/
theorem nodup_of_length_dedupInto : ∀ (ids seen : List String), seen.Nodup →
    (dedupInto seen ids).length = seen.length + ids.length → (seen ++ ids).Nodup
  | [], seen, hs, _ => by simpa using hs
  | i :: is, seen, hs, hlen => by
    unfold dedupInto at hlen
    split at hlen
    · have := length_dedupInto_le is seen
      simp only [List.length_cons] at hlen; omega
    · rename_i hni
      have hs' : (seen ++ [i]).Nodup := by
        rw [List.nodup_append]
        refine ⟨hs, by simp, ?_⟩
        intro a ha b hb
        simp only [List.mem_singleton] at hb
        subst hb
        intro e; subst e; exact hni ha
      have := nodup_of_length_dedupInto is (seen ++ [i]) hs'
        (by simp only [List.length_append, List.length_cons, List.length_nil] at hlen ⊢; omega)
      simpa [List.append_assoc] using this

/-- the number of DISTINCT ids is at most the number of ids -/
theorem length_dedupIds_le (ids : List String) : (dedupIds ids).length ≤ ids.length := by
  have := length_dedupInto_le ids []
  simpa [dedupIds] using this

/-- … with equality exactly when no id is repeated -/
theorem length_dedupIds_eq_iff (ids : List String) : (dedupIds ids).length = ids.length ↔ ids.Nodup := by
  constructor
  · intro h
    have := nodup_of_length_dedupInto ids [] (by simp) (by simpa [dedupIds] using h)
    simpa using this
  · intro h; rw [dedupIds_of_nodup ids h]

theorem count_eq_one_of_nodup {α} [DecidableEq α] {l : List α} (hnd : l.Nodup) {a : α} (ha : a ∈ l) :
    l.count a = 1 := by
  induction l with
  | nil => cases ha
  | cons x xs ih =>
    simp only [List.nodup_cons] at hnd
    simp only [List.mem_cons] at ha
    by_cases hx : x = a
    · subst hx
      have : xs.count x = 0 := List.count_eq_zero.mpr hnd.1
      simp [this]
    · have ha' : a ∈ xs := by
        rcases ha with rfl | ha
        · exact absurd rfl hx
        · exact ha
      have hbeq : (x == a) = false := by simpa using hx
      simp [List.count_cons, hbeq, ih hnd.2 ha']

/-- the variables of a lookup determine its id -/
theorem idVars_injective : Function.Injective (fun i : String => [("id", J.str i)]) := by
  intro a b h
  simpa using h

/-- **every id of the list — however often it occurs there — occurs exactly ONCE among the ids
    looked up** (the batch carries one lookup `{id: i}` per element of `dedupIds ids`, in order:
    `batchB_vars`) -/
theorem count_dedupIds (ids : List String) (i : String) (hi : i ∈ ids) : (dedupIds ids).count i = 1 :=
  count_eq_one_of_nodup (dedupIds_nodup ids) ((mem_dedupIds ids i).mpr hi)

/-! ### the statements of `Props/C12Flat.lean`, by evaluation on concrete instances (tests) -/

namespace Example

/-- number of calls, and per call the URL and the number of requests of its batch -/
def callShape (es : List Spec.Entity) : Option (Nat × List (String × Nat)) :=
  match gateway ctx {} op none (specDownstream svcs (dataOf es)) with
  | .ok g => some (g.calls.length, g.calls.map (fun cl => (cl.url, cl.batch.length)))
  | .error _ => none

-- the number of calls does not grow with the list: 2 for k = 1, 3, 6, 12; the batch to `B` carries
-- one lookup per DISTINCT id
#guard callShape [e1] == some (2, [("A", 1), ("B", 1)])
#guard callShape [e1, e2, e3] == some (2, [("A", 1), ("B", 3)])
#guard callShape [e1, e2, e1, e1, e2, e1] == some (2, [("A", 1), ("B", 2)])
#guard callShape [e1, e2, e3, e1, e2, e3, e3, e2, e1, e1, e1, e1] == some (2, [("A", 1), ("B", 3)])
#guard callShape [] == some (1, [("A", 1)])
#guard (dedupIds ([e1, e2, e1, e1, e2, e1].map (·.id))).length == 2

/-- how often `{id: i}` occurs among the variables of the batch sent to `B` -/
def lookupCount (es : List Spec.Entity) (i : String) : Option Nat :=
  match gateway ctx {} op none (specDownstream svcs (dataOf es)) with
  | .ok g => some (((g.calls.filter (·.url == "B")).flatMap (fun cl => cl.batch.map (·.vars))).filter (· == [("id", .str i)])).length
  | .error _ => none

#guard lookupCount [e1, e2, e1, e1] e1.id == some 1
#guard lookupCount [e1, e2, e1, e1] e2.id == some 1
#guard lookupCount [e1, e2, e1, e1] e3.id == some 0

end Example

end PebblesVerif.FlatList

namespace PebblesVerif.FlatNested.Example
open PebblesVerif PebblesVerif.Exec PebblesVerif.Flat

/-- per call the URL and the number of requests of its batch -/
def callShape (fs1 fs2 hs : List FieldSpec) : Option (List (String × Nat)) :=
  match gateway ctx {} ⟨.query, "", [], [FlatNested.QN "Animal" "Person" "animal" "owner" fs1 fs2 hs]⟩ none
      (specDownstream svcs data) with
  | .ok g => some (g.calls.map (fun cl => (cl.url, cl.batch.length)))
  | .error _ => none

-- two plan steps address `B` (insertion points `[animal]` and `[animal, owner]`), ONE call to `B`
#guard callShape FlatNested.Example.fs [] hs == some [("A", 1), ("B", 2)]
#guard callShape [] FlatNested.Example.fs hs == some [("A", 1), ("B", 2)]
#guard callShape fsM1 fsM2 hs == some [("A", 1), ("B", 2)]

end PebblesVerif.FlatNested.Example
