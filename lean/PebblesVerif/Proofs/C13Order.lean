import PebblesVerif.Props.C13
import PebblesVerif.Props.C06Flat
import PebblesVerif.Props.C01Flat
import PebblesVerif.Proofs.FlatList6
/-!
Helper definitions and lemmas for `Props/C13Order.lean`: order-independence of the recursive
scrubber (`ScrubClean.clean`, `cleanAll`) in the order of the per-path type table, of the flat
mutation family's downstream calls in the order of `GetURLs()`, and of the flat query families'
answers in the order of the scrub table.
-/
namespace PebblesVerif.C13Order
open PebblesVerif PebblesVerif.ScrubClean

/-- **Every object the scrubber reaches at the end of `path` carries a string `__typename`.**
    Follows the walk of `ScrubClean.clean` / `cleanList` step by step: at the end of the path the
    object itself is inspected; on the way a missing key, a scalar or `null` reaches nothing
    (`true`); an object is descended into; of a list every OBJECT element is descended into, every
    other element is skipped. -/
def TypedAt : List String → List (String × J) → Bool
  | [], payload =>
    match J.lookup "__typename" payload with
    | some (.str _) => true
    | _ => false
  | p :: rest, payload =>
    match J.lookup p payload with
    | some (.obj v) => TypedAt rest v
    | some (.arr xs) => xs.all (fun x => match x with | .obj v => TypedAt rest v | _ => true)
    | _ => true

/-- distinct type names (they are Go map keys) -/
def DistinctTypes (fields : List (String × List String)) : Prop :=
  ∀ a ∈ fields, ∀ b ∈ fields, a.1 = b.1 → a = b

instance (fields : List (String × List String)) : Decidable (DistinctTypes fields) := by
  unfold DistinctTypes; infer_instance

theorem typedAt_nil {payload : List (String × J)} (h : TypedAt [] payload = true) :
    ∃ tn, J.lookup "__typename" payload = some (.str tn) := by
  unfold TypedAt at h
  split at h
  · rename_i s hs; exact ⟨s, hs⟩
  · exact absurd h (by simp)

section clean
variable {fields fields' : List (String × List String)}

theorem cleanList_congr (rest : List String)
    (ih : ∀ v, TypedAt rest v = true → clean fields rest v = clean fields' rest v) :
    ∀ xs : List J, (xs.all (fun x => match x with | .obj v => TypedAt rest v | _ => true)) = true →
      cleanList fields rest xs = cleanList fields' rest xs := by
  intro xs
  induction xs with
  | nil => intro _; simp [cleanList_nil]
  | cons x xs ihx =>
    intro h
    simp only [List.all_cons, Bool.and_eq_true] at h
    cases x with
    | obj v =>
      have h1 : TypedAt rest v = true := h.1
      simp only [cleanList_obj, ih v h1, ihx h.2]
    | null => rw [cleanList_nonMap _ _ _ _ (fun _ => J.noConfusion), cleanList_nonMap _ _ _ _ (fun _ => J.noConfusion), ihx h.2]
    | bool _ => rw [cleanList_nonMap _ _ _ _ (fun _ => J.noConfusion), cleanList_nonMap _ _ _ _ (fun _ => J.noConfusion), ihx h.2]
    | num _ => rw [cleanList_nonMap _ _ _ _ (fun _ => J.noConfusion), cleanList_nonMap _ _ _ _ (fun _ => J.noConfusion), ihx h.2]
    | str _ => rw [cleanList_nonMap _ _ _ _ (fun _ => J.noConfusion), cleanList_nonMap _ _ _ _ (fun _ => J.noConfusion), ihx h.2]
    | arr _ => rw [cleanList_nonMap _ _ _ _ (fun _ => J.noConfusion), cleanList_nonMap _ _ _ _ (fun _ => J.noConfusion), ihx h.2]

theorem clean_congr (hperm : fields.Perm fields') (hkeys : DistinctTypes fields) :
    ∀ (path : List String) (payload : List (String × J)), TypedAt path payload = true →
      clean fields path payload = clean fields' path payload := by
  intro path
  induction path with
  | nil =>
    intro payload h
    obtain ⟨tn, htn⟩ := typedAt_nil h
    rw [clean_nil, clean_nil, C13_scrub_type_order_irrelevant payload tn htn hperm hkeys]
  | cons p rest ih =>
    intro payload h
    rw [clean_cons, clean_cons]
    unfold TypedAt at h
    cases hl : J.lookup p payload with
    | none => rfl
    | some obj =>
      rw [hl] at h
      cases obj with
      | obj v =>
        simp only at h
        simp only [ih v h]
      | arr xs =>
        simp only at h
        simp only [cleanList_congr rest ih xs h]
      | null => rfl
      | bool _ => rfl
      | num _ => rfl
      | str _ => rfl

end clean

/-! ## `cleanAll`: typedness at ANOTHER path survives a `clean` -/

theorem lookup_eraseKey_ne {k q : String} (h : k ≠ q) : ∀ l : List (String × J),
    J.lookup q (J.eraseKey k l) = J.lookup q l := by
  intro l
  induction l with
  | nil => rfl
  | cons x xs ih =>
    obtain ⟨k', v⟩ := x
    simp only [J.eraseKey]
    by_cases hk : k = k'
    · subst hk
      have : ¬ q = k := fun e => h e.symm
      simp only [↓reduceIte, ih, J.lookup, this]
    · simp only [hk, ↓reduceIte, J.lookup, ih]

theorem lookup_eraseKey_self (k : String) : ∀ l : List (String × J), J.lookup k (J.eraseKey k l) = none := by
  intro l
  induction l with
  | nil => rfl
  | cons x xs ih =>
    obtain ⟨k', v⟩ := x
    simp only [J.eraseKey]
    by_cases hk : k = k'
    · simp only [hk, ↓reduceIte]; rw [← hk]; exact ih
    · simp only [hk, ↓reduceIte, J.lookup, ih]

theorem lookup_setKey_self (k : String) (v : J) : ∀ l : List (String × J), J.lookup k (J.setKey k v l) = some v := by
  intro l
  induction l with
  | nil => simp [J.setKey, J.lookup]
  | cons x xs ih =>
    obtain ⟨k', v'⟩ := x
    simp only [J.setKey]
    by_cases hk : k = k'
    · simp only [hk, ↓reduceIte, J.lookup]
    · simp only [hk, ↓reduceIte, J.lookup, ih]

theorem lookup_setKey_ne {k q : String} (v : J) (h : k ≠ q) : ∀ l : List (String × J),
    J.lookup q (J.setKey k v l) = J.lookup q l := by
  intro l
  have hq : ¬ q = k := fun e => h e.symm
  induction l with
  | nil => simp [J.setKey, J.lookup, hq]
  | cons x xs ih =>
    obtain ⟨k', v'⟩ := x
    simp only [J.setKey]
    by_cases hk : k = k'
    · subst hk; simp only [↓reduceIte, J.lookup, hq]
    · simp only [hk, ↓reduceIte, J.lookup, ih]

/-- deleting keys can only make a lookup fail, never change its value -/
theorem lookup_foldl_erase (q : String) : ∀ (fs : List String) (l : List (String × J)),
    J.lookup q (fs.foldl (fun p f => J.eraseKey f p) l) = none ∨
    J.lookup q (fs.foldl (fun p f => J.eraseKey f p) l) = J.lookup q l := by
  intro fs
  induction fs with
  | nil => intro l; exact .inr rfl
  | cons f fs ih =>
    intro l
    simp only [List.foldl_cons]
    rcases ih (J.eraseKey f l) with h | h
    · exact .inl h
    · by_cases hf : f = q
      · subst hf; rw [lookup_eraseKey_self] at h; exact .inl h
      · rw [lookup_eraseKey_ne hf] at h; exact .inr h

theorem lookup_cleanHere (q : String) (payload : List (String × J)) (fields : List (String × List String)) :
    J.lookup q (cleanHere payload fields) = none ∨ J.lookup q (cleanHere payload fields) = J.lookup q payload := by
  unfold cleanHere
  simp only
  split
  · exact lookup_foldl_erase q _ payload
  · exact .inr rfl

/-- `TypedAt (q :: rest)` looks at the payload through `lookup q` only -/
theorem typedAt_cons_congr {q : String} {rest : List String} {a b : List (String × J)}
    (h : J.lookup q a = J.lookup q b) : TypedAt (q :: rest) a = TypedAt (q :: rest) b := by
  simp only [TypedAt, h]

theorem typedAt_cons_none {q : String} {rest : List String} {a : List (String × J)}
    (h : J.lookup q a = none) : TypedAt (q :: rest) a = true := by
  simp only [TypedAt, h]

/-- the step of `clean` below an object: the key is deleted or rewritten with the cleaned object -/
theorem clean_cons_obj {fields : List (String × List String)} {p : String} {rest : List String}
    {payload v : List (String × J)} (hl : J.lookup p payload = some (.obj v)) :
    (clean fields (p :: rest) payload).1 = J.eraseKey p payload ∨
    (clean fields (p :: rest) payload).1 = J.setKey p (.obj (clean fields rest v).1) payload := by
  rw [clean_cons, hl]
  simp only
  split
  · exact .inl rfl
  · exact .inr rfl

/-- the step of `clean` below a list: the key is deleted or rewritten with the cleaned list -/
theorem clean_cons_arr {fields : List (String × List String)} {p : String} {rest : List String}
    {payload : List (String × J)} {xs : List J} (hl : J.lookup p payload = some (.arr xs)) :
    (clean fields (p :: rest) payload).1 = J.eraseKey p payload ∨
    (clean fields (p :: rest) payload).1 = J.setKey p (.arr (cleanList fields rest xs).1) payload := by
  rw [clean_cons, hl]
  simp only
  generalize (if xs.isEmpty = true then false else (cleanList fields rest xs).2) = b
  cases b
  · exact .inr (by simp)
  · exact .inl (by simp)

/-- the step of `clean` at anything else: the value is written back unchanged -/
theorem clean_cons_other {fields : List (String × List String)} {p : String} {rest : List String}
    {payload : List (String × J)} {o : J} (hl : J.lookup p payload = some o)
    (ho : ∀ v, o ≠ .obj v) (ha : ∀ xs, o ≠ .arr xs) :
    (clean fields (p :: rest) payload).1 = J.setKey p o payload := by
  rw [clean_cons, hl]
  cases o with
  | obj v => exact absurd rfl (ho v)
  | arr xs => exact absurd rfl (ha xs)
  | null => rfl
  | bool _ => rfl
  | num _ => rfl
  | str _ => rfl

theorem clean_cons_none {fields : List (String × List String)} {p : String} {rest : List String}
    {payload : List (String × J)} (hl : J.lookup p payload = none) :
    (clean fields (p :: rest) payload).1 = payload := by
  rw [clean_cons, hl]

theorem cleanList_typed (fields : List (String × List String)) (rest1 rest2 : List String)
    (ih : ∀ v, TypedAt rest2 v = true → TypedAt rest2 (clean fields rest1 v).1 = true) :
    ∀ xs : List J, (xs.all (fun x => match x with | .obj v => TypedAt rest2 v | _ => true)) = true →
      ((cleanList fields rest1 xs).1.all (fun x => match x with | .obj v => TypedAt rest2 v | _ => true)) = true := by
  intro xs
  induction xs with
  | nil => intro _; simp [cleanList_nil]
  | cons x xs ihx =>
    intro h
    simp only [List.all_cons, Bool.and_eq_true] at h
    cases x with
    | obj v =>
      have h1 : TypedAt rest2 v = true := h.1
      simp only [cleanList_obj, List.all_cons, Bool.and_eq_true]
      exact ⟨ih v h1, ihx h.2⟩
    | null => rw [cleanList_nonMap _ _ _ _ (fun _ => J.noConfusion)]; simp only [List.all_cons, Bool.and_eq_true]; exact ⟨trivial, ihx h.2⟩
    | bool _ => rw [cleanList_nonMap _ _ _ _ (fun _ => J.noConfusion)]; simp only [List.all_cons, Bool.and_eq_true]; exact ⟨trivial, ihx h.2⟩
    | num _ => rw [cleanList_nonMap _ _ _ _ (fun _ => J.noConfusion)]; simp only [List.all_cons, Bool.and_eq_true]; exact ⟨trivial, ihx h.2⟩
    | str _ => rw [cleanList_nonMap _ _ _ _ (fun _ => J.noConfusion)]; simp only [List.all_cons, Bool.and_eq_true]; exact ⟨trivial, ihx h.2⟩
    | arr _ => rw [cleanList_nonMap _ _ _ _ (fun _ => J.noConfusion)]; simp only [List.all_cons, Bool.and_eq_true]; exact ⟨trivial, ihx h.2⟩

/-- **Cleaning one path keeps every OTHER path typed**: `clean` deletes helper fields at the end of
    its own path and may remove emptied parents — both only shrink what another path reaches; an
    object on the way is rewritten under a key that is not `__typename` (or, if it is, with the
    same string). -/
theorem typedAt_clean (fields : List (String × List String)) :
    ∀ (path1 path2 : List String) (payload : List (String × J)), path1 ≠ path2 →
      TypedAt path2 payload = true → TypedAt path2 (clean fields path1 payload).1 = true := by
  intro path1
  induction path1 with
  | nil =>
    intro path2 payload hne h
    cases path2 with
    | nil => exact absurd rfl hne
    | cons q rest2 =>
      rw [clean_nil]
      rcases lookup_cleanHere q payload fields with h' | h'
      · exact typedAt_cons_none h'
      · rw [typedAt_cons_congr h']; exact h
  | cons p rest1 ih =>
    intro path2 payload hne h
    cases hl : J.lookup p payload with
    | none => rw [clean_cons_none hl]; exact h
    | some o =>
      cases path2 with
      | nil =>
        obtain ⟨tn, htn⟩ := typedAt_nil h
        have key : J.lookup "__typename" (clean fields (p :: rest1) payload).1 = some (.str tn) := by
          by_cases hp : p = "__typename"
          · subst hp
            rw [htn] at hl
            have ho : o = .str tn := (Option.some.inj hl).symm
            subst ho
            rw [clean_cons_other htn (fun _ => J.noConfusion) (fun _ => J.noConfusion), lookup_setKey_self]
          · cases o with
            | obj v =>
              rcases clean_cons_obj (fields := fields) (rest := rest1) hl with e | e <;> rw [e]
              · rw [lookup_eraseKey_ne hp]; exact htn
              · rw [lookup_setKey_ne _ hp]; exact htn
            | arr xs =>
              rcases clean_cons_arr (fields := fields) (rest := rest1) hl with e | e <;> rw [e]
              · rw [lookup_eraseKey_ne hp]; exact htn
              · rw [lookup_setKey_ne _ hp]; exact htn
            | null => rw [clean_cons_other hl (fun _ => J.noConfusion) (fun _ => J.noConfusion), lookup_setKey_ne _ hp]; exact htn
            | bool _ => rw [clean_cons_other hl (fun _ => J.noConfusion) (fun _ => J.noConfusion), lookup_setKey_ne _ hp]; exact htn
            | num _ => rw [clean_cons_other hl (fun _ => J.noConfusion) (fun _ => J.noConfusion), lookup_setKey_ne _ hp]; exact htn
            | str _ => rw [clean_cons_other hl (fun _ => J.noConfusion) (fun _ => J.noConfusion), lookup_setKey_ne _ hp]; exact htn
        simp only [TypedAt, key]
      | cons q rest2 =>
        by_cases hpq : p = q
        · subst hpq
          have hrest : rest1 ≠ rest2 := fun e => hne (by rw [e])
          cases o with
          | obj v =>
            have hv : TypedAt rest2 v = true := by simpa only [TypedAt, hl] using h
            rcases clean_cons_obj (fields := fields) (rest := rest1) hl with e | e <;> rw [e]
            · exact typedAt_cons_none (lookup_eraseKey_self p payload)
            · simp only [TypedAt, lookup_setKey_self]
              exact ih rest2 v hrest hv
          | arr xs =>
            have hv : (xs.all (fun x => match x with | .obj v => TypedAt rest2 v | _ => true)) = true := by
              simpa only [TypedAt, hl] using h
            rcases clean_cons_arr (fields := fields) (rest := rest1) hl with e | e <;> rw [e]
            · exact typedAt_cons_none (lookup_eraseKey_self p payload)
            · simp only [TypedAt, lookup_setKey_self]
              exact cleanList_typed fields rest1 rest2 (fun v hv => ih rest2 v hrest hv) xs hv
          | null => rw [clean_cons_other hl (fun _ => J.noConfusion) (fun _ => J.noConfusion)]; simp only [TypedAt, lookup_setKey_self]
          | bool _ => rw [clean_cons_other hl (fun _ => J.noConfusion) (fun _ => J.noConfusion)]; simp only [TypedAt, lookup_setKey_self]
          | num _ => rw [clean_cons_other hl (fun _ => J.noConfusion) (fun _ => J.noConfusion)]; simp only [TypedAt, lookup_setKey_self]
          | str _ => rw [clean_cons_other hl (fun _ => J.noConfusion) (fun _ => J.noConfusion)]; simp only [TypedAt, lookup_setKey_self]
        · have hlk : J.lookup q (clean fields (p :: rest1) payload).1 = J.lookup q payload := by
            cases o with
            | obj v =>
              rcases clean_cons_obj (fields := fields) (rest := rest1) hl with e | e <;> rw [e]
              · exact lookup_eraseKey_ne hpq _
              · exact lookup_setKey_ne _ hpq _
            | arr xs =>
              rcases clean_cons_arr (fields := fields) (rest := rest1) hl with e | e <;> rw [e]
              · exact lookup_eraseKey_ne hpq _
              · exact lookup_setKey_ne _ hpq _
            | null => rw [clean_cons_other hl (fun _ => J.noConfusion) (fun _ => J.noConfusion)]; exact lookup_setKey_ne _ hpq _
            | bool _ => rw [clean_cons_other hl (fun _ => J.noConfusion) (fun _ => J.noConfusion)]; exact lookup_setKey_ne _ hpq _
            | num _ => rw [clean_cons_other hl (fun _ => J.noConfusion) (fun _ => J.noConfusion)]; exact lookup_setKey_ne _ hpq _
            | str _ => rw [clean_cons_other hl (fun _ => J.noConfusion) (fun _ => J.noConfusion)]; exact lookup_setKey_ne _ hpq _
          rw [typedAt_cons_congr hlk]; exact h

/-- two scrub tables with the same paths in the same order whose per-path type tables are
    permutations of each other (two iteration orders of the inner Go maps) -/
inductive SameUpToTypeOrder : Scrub → Scrub → Prop
  | nil : SameUpToTypeOrder [] []
  | cons {path : List String} {fields fields' : List (String × List String)} {sf sf' : Scrub} :
      fields.Perm fields' → SameUpToTypeOrder sf sf' →
      SameUpToTypeOrder ((path, fields) :: sf) ((path, fields') :: sf')

theorem cleanAll_cons (path : List String) (fields : List (String × List String)) (sf : Scrub)
    (payload : List (String × J)) :
    cleanAll ((path, fields) :: sf) payload = cleanAll sf (clean fields (unhash path) payload).1 := rfl

theorem cleanAll_congr {sf sf' : Scrub} (hrel : SameUpToTypeOrder sf sf') :
    ∀ (payload : List (String × J)),
      (∀ e ∈ sf, DistinctTypes e.2) → (sf.map (fun e => unhash e.1)).Nodup →
      (∀ e ∈ sf, TypedAt (unhash e.1) payload = true) → cleanAll sf payload = cleanAll sf' payload := by
  induction hrel with
  | nil => intro _ _ _ _; rfl
  | @cons path fields fields' sf sf' hperm _ ih =>
    intro payload hkeys hnd htyped
    rw [cleanAll_cons, cleanAll_cons,
      ← clean_congr hperm (hkeys _ (List.mem_cons_self ..)) (unhash path) payload (htyped _ (List.mem_cons_self ..))]
    simp only [List.map_cons, List.nodup_cons] at hnd
    apply ih _ (fun e he => hkeys e (List.mem_cons_of_mem _ he)) hnd.2
    intro e he
    apply typedAt_clean fields (unhash path) (unhash e.1) payload
    · intro heq
      exact hnd.1 (heq ▸ List.mem_map_of_mem (f := fun e => unhash e.1) he)
    · exact htyped e (List.mem_cons_of_mem _ he)

/-! ## Flat mutation family: the calls depend on the order of `GetURLs()` up to permutation -/

/-- the one request a service receives is built from the schema, the operation kind and the
    operation name only — not from the routing table -/
theorem reqOf_congr {c c' : PCtx} (hs : c'.schema = c.schema) (hk : c'.opKind = c.opKind)
    (hn : c'.opName = c.opName) (ms : List Mut.MSpec) (u : String) : Mut.reqOf c' ms u = Mut.reqOf c ms u := by
  simp only [Mut.reqOf, Flat.rqOf, header, stepOpName, queryKey, hs, hk, hn]

theorem callsOf_perm {c c' : PCtx} (hs : c'.schema = c.schema) (hk : c'.opKind = c.opKind)
    (hn : c'.opName = c.opName) (hurls : c'.tum.urls.Perm c.tum.urls) (ms : List Mut.MSpec) :
    (Mut.callsOf c' ms).Perm (Mut.callsOf c ms) := by
  unfold Mut.callsOf Mut.activeUrls
  have hf : (fun u => (⟨u, [Mut.reqOf c' ms u]⟩ : Exec.Call)) = (fun u => ⟨u, [Mut.reqOf c ms u]⟩) := by
    funext u; rw [reqOf_congr hs hk hn]
  rw [hf]
  exact (hurls.filter _).map _

/-- the family's hypotheses look at the planning context through the schema, the operation kind
    and `TypeURLMap.Get("Mutation", ·)` only -/
theorem fam_transfer {c c' : PCtx} {ms : List Mut.MSpec} (h : Mut.Fam c ms) (hs : c'.schema = c.schema)
    (hk : c'.opKind = c.opKind) (hget : ∀ t f, c'.tum.get? t f = c.tum.get? t f) : Mut.Fam c' ms where
  hne := h.hne
  hnd := h.hnd
  hfb := h.hfb
  hnode := h.hnode
  hschemaM := by rw [hs]; exact h.hschemaM
  tumMf := fun f hf => by rw [hget]; exact h.tumMf f hf
  hint := h.hint
  hkind := by rw [hk]; exact h.hkind

theorem filter_length_le_one {α : Type} (f : α → String) (u : String) : ∀ (l : List α), (l.map f).Nodup →
    (l.filter (fun x => f x == u)).length ≤ 1 := by
  intro l
  induction l with
  | nil => intro _; simp
  | cons x xs ih =>
    intro hnd
    simp only [List.map_cons, List.nodup_cons] at hnd
    simp only [List.filter_cons]
    by_cases hx : f x = u
    · have hnone : xs.filter (fun y => f y == u) = [] := by
        rw [List.filter_eq_nil_iff]
        intro y hy hyu
        simp only [beq_iff_eq] at hyu
        exact hnd.1 (by rw [hx, ← hyu]; exact List.mem_map_of_mem hy)
      simp [hx, hnone]
    · have : (f x == u) = false := by simpa using hx
      simp only [this, Bool.false_eq_true, ↓reduceIte]
      exact ih hnd.2

theorem perm_le_one_eq {α : Type} {l l' : List α} (hp : l'.Perm l) (hlen : l.length ≤ 1) : l' = l := by
  match l, hlen with
  | [], _ => exact List.Perm.eq_nil hp
  | [a], _ => exact List.perm_singleton.mp hp

/-- with pairwise different URLs, "the same calls up to order" means: every service gets exactly
    the same list of calls -/
theorem per_service_eq {l l' : List Exec.Call} (hp : l'.Perm l) (hnd : (l.map (·.url)).Nodup) (u : String) :
    l'.filter (fun cl => cl.url == u) = l.filter (fun cl => cl.url == u) :=
  perm_le_one_eq (hp.filter _) (filter_length_le_one (·.url) u l hnd)

/-! ## The same type-URL map in another iteration order -/

/-- two gateway instances built from the same service schemas: same merged schema, same
    operation, the same type-URL map as a MAP (`Get`, `GetTypeIsImplementsNode` agree) — only the
    iteration order of `GetURLs()` may differ -/
structure SameTables (c c' : PCtx) : Prop where
  schema : c'.schema = c.schema
  opKind : c'.opKind = c.opKind
  opName : c'.opName = c.opName
  get : ∀ t f, c'.tum.get? t f = c.tum.get? t f
  isNode : ∀ t, c'.tum.isNode? t = c.tum.isNode? t
  urls : c'.tum.urls.Perm c.tum.urls

/-- association list with distinct keys (a Go map) -/
def DistinctKeys {β : Type} (l : List (String × β)) : Prop := ∀ a ∈ l, ∀ b ∈ l, a.1 = b.1 → a = b

instance {β : Type} [DecidableEq β] (l : List (String × β)) : Decidable (DistinctKeys l) := by
  unfold DistinctKeys; infer_instance

/-- same rows in the same order, each row's field list in another order -/
inductive RowsRel : Tum → Tum → Prop
  | nil : RowsRel [] []
  | cons {T : String} {p p' : TypeProps} {t t' : Tum} :
      p.isNode = p'.isNode → p.fields.Perm p'.fields → RowsRel t t' → RowsRel ((T, p) :: t) ((T, p') :: t')

/-- `t'` is the Go map `t` ranged over in another order: the rows (types) permuted and each row's
    field table permuted; type names and, per type, field names are map keys -/
structure TumReorder (t t' : Tum) : Prop where
  mid : ∃ t₁, t₁.Perm t ∧ RowsRel t₁ t'
  types : DistinctKeys t
  fields : ∀ r ∈ t, DistinctKeys r.2.fields

theorem find_key_perm {β : Type} {l l' : List (String × β)} (hp : l.Perm l') (hd : DistinctKeys l) (k : String) :
    l.find? (·.1 == k) = l'.find? (·.1 == k) := by
  apply find_unique_perm _ hp
  intro a ha b hb pa pb
  simp only [beq_iff_eq] at pa pb
  exact hd a ha b hb (by rw [pa, pb])

theorem mem_urls (t : Tum) (u : String) : u ∈ t.urls ↔ ∃ r ∈ t, ∃ e ∈ r.2.fields, e.2 = u := by
  unfold Tum.urls Tum.dedup
  rw [Mut.dedup_fold_mem]
  simp only [List.not_mem_nil, false_or, List.mem_flatMap, List.mem_map]

theorem rowsRel_props {t t' : Tum} (h : RowsRel t t') (T : String) :
    (Tum.props? t T = none ∧ Tum.props? t' T = none) ∨
    ∃ p p', (T, p) ∈ t ∧ Tum.props? t T = some p ∧ Tum.props? t' T = some p' ∧ p.isNode = p'.isNode ∧
      p.fields.Perm p'.fields := by
  induction h with
  | nil => exact .inl ⟨rfl, rfl⟩
  | @cons T0 p p' t t' hn hf _ ih =>
    by_cases hT : T0 = T
    · subst hT
      refine .inr ⟨p, p', by simp, ?_, ?_, hn, hf⟩ <;> simp [Tum.props?]
    · have hb : (T0 == T) = false := by simpa using hT
      have e1 : Tum.props? ((T0, p) :: t) T = Tum.props? t T := by simp [Tum.props?, hb]
      have e2 : Tum.props? ((T0, p') :: t') T = Tum.props? t' T := by simp [Tum.props?, hb]
      rw [e1, e2]
      rcases ih with h | ⟨q, q', hm, h1, h2, h3, h4⟩
      · exact .inl h
      · exact .inr ⟨q, q', List.mem_cons_of_mem _ hm, h1, h2, h3, h4⟩

theorem rowsRel_mem_urls {t t' : Tum} (h : RowsRel t t') (u : String) :
    (∃ r ∈ t, ∃ e ∈ r.2.fields, e.2 = u) ↔ (∃ r ∈ t', ∃ e ∈ r.2.fields, e.2 = u) := by
  induction h with
  | nil => simp
  | @cons T0 p p' t t' _ hf _ ih =>
    constructor
    · rintro ⟨r, hr, e, he, hu⟩
      rcases List.mem_cons.mp hr with rfl | hr
      · exact ⟨(T0, p'), List.mem_cons_self .., e, hf.mem_iff.mp he, hu⟩
      · obtain ⟨r', hr', x⟩ := ih.mp ⟨r, hr, e, he, hu⟩
        exact ⟨r', List.mem_cons_of_mem _ hr', x⟩
    · rintro ⟨r, hr, e, he, hu⟩
      rcases List.mem_cons.mp hr with rfl | hr
      · exact ⟨(T0, p), List.mem_cons_self .., e, hf.mem_iff.mpr he, hu⟩
      · obtain ⟨r', hr', x⟩ := ih.mpr ⟨r, hr, e, he, hu⟩
        exact ⟨r', List.mem_cons_of_mem _ hr', x⟩

/-- the routing table of the same map in another iteration order answers every `Get` and
    `GetTypeIsImplementsNode` alike and lists the same URLs, in another order -/
theorem sameTables_of_reorder {c c' : PCtx} (hs : c'.schema = c.schema) (hk : c'.opKind = c.opKind)
    (hn : c'.opName = c.opName) (h : TumReorder c.tum c'.tum) : SameTables c c' := by
  obtain ⟨t₁, hp, hrel⟩ := h.mid
  have hprops : ∀ T, Tum.props? t₁ T = Tum.props? c.tum T := by
    intro T
    have hd1 : DistinctKeys t₁ := fun a ha b hb => h.types a (hp.mem_iff.mp ha) b (hp.mem_iff.mp hb)
    simp only [Tum.props?, find_key_perm hp hd1 T]
  refine ⟨hs, hk, hn, ?_, ?_, ?_⟩
  · intro T f
    unfold Tum.get?
    rcases rowsRel_props hrel T with ⟨h1, h2⟩ | ⟨p, p', hm, h1, h2, _, hf⟩
    · rw [h2, ← hprops, h1]
    · rw [h2, ← hprops, h1]
      simp only [find_key_perm hf (h.fields _ (hp.mem_iff.mp hm)) f]
  · intro T
    unfold Tum.isNode?
    rcases rowsRel_props hrel T with ⟨h1, h2⟩ | ⟨p, p', _, h1, h2, hnode, _⟩
    · rw [h2, ← hprops, h1]
    · rw [h2, ← hprops, h1]
      simp only [Option.map_some, hnode]
  · rw [List.perm_ext_iff_of_nodup (Mut.urls_nodup _) (Mut.urls_nodup _)]
    intro u
    rw [mem_urls, mem_urls, ← rowsRel_mem_urls hrel u]
    constructor
    · rintro ⟨r, hr, e⟩; exact ⟨r, hp.mem_iff.mp hr, e⟩
    · rintro ⟨r, hr, e⟩; exact ⟨r, hp.mem_iff.mpr hr, e⟩

/-! ## Scrub-table order and the flat query families -/

theorem SameUpToTypeOrder.refl : ∀ sf : Scrub, SameUpToTypeOrder sf sf
  | [] => .nil
  | (_, _) :: sf => .cons (List.Perm.refl _) (SameUpToTypeOrder.refl sf)

/-- `σ` re-orders a scrub table the way two iterations over Go maps can differ: the entries
    (paths) are permuted AND each entry's type table is permuted -/
def ScrubReorder (σ : Scrub → Scrub) : Prop := ∀ sf, ∃ sf₁, sf₁.Perm sf ∧ SameUpToTypeOrder sf₁ (σ sf)

theorem ScrubReorder.of_perm {σ : Scrub → Scrub} (h : ∀ sf, (σ sf).Perm sf) : ScrubReorder σ :=
  fun sf => ⟨σ sf, h sf, SameUpToTypeOrder.refl _⟩

theorem sameUpToTypeOrder_single {path : List String} {T : String} {fs : List String} {y : Scrub}
    (hrel : SameUpToTypeOrder [(path, [(T, fs)])] y) : y = [(path, [(T, fs)])] := by
  cases hrel with
  | cons hperm htail =>
    cases htail
    rw [List.perm_singleton.mp hperm.symm]

/-- a table with one path and one type has only one order -/
theorem reorder_single {σ : Scrub → Scrub} (h : ScrubReorder σ) (path : List String) (T : String) (fs : List String) :
    σ [(path, [(T, fs)])] = [(path, [(T, fs)])] := by
  obtain ⟨sf₁, hp, hrel⟩ := h [(path, [(T, fs)])]
  rw [List.perm_singleton.mp hp] at hrel
  exact sameUpToTypeOrder_single hrel

/-- whenever the planner's scrub table has one path and one type, the gateway's outcome is the
    same for every re-ordering of the table — for every downstream -/
theorem gateway_scrubOrder_single {c : PCtx} {cfg : Exec.ExecCfg} {op : Op} {rv : Option (List (String × J))}
    {steps : List Step} {path : List String} {T : String} {fs : List String}
    (hplan : plan c op = .ok (steps, [(path, [(T, fs)])])) (down : Exec.Downstream)
    (σ : Scrub → Scrub) (hσ : ScrubReorder σ) :
    Exec.gateway c cfg op rv down σ = Exec.gateway c cfg op rv down id := by
  unfold Exec.gateway Exec.gatewayCore Exec.gatewayCoreWith
  rw [hplan]
  simp only [reorder_single hσ, id]

theorem flat_plan {c : PCtx} {A B T q : String} {fs : List Flat.FieldSpec} (h : Flat.Fam c A B T q fs) :
    plan c ⟨.query, "", [], [Flat.Q T q fs]⟩
      = .ok ([.mk A "Query" [Flat.Qown T q fs] [] (Flat.stepsB B T q (Flat.fsB fs))], [([q], [(T, ["id"])])]) := by
  unfold plan
  simp only [Flat.stage_sanitize h, bind, Except.bind, Flat.stage_plan h]

theorem flatList_plan {c : PCtx} {A B T q : String} {fs : List Flat.FieldSpec} (h : Flat.Fam c A B T q fs) :
    plan c ⟨.query, "", [], [FlatList.QL T q fs]⟩
      = .ok ([FlatList.rootStep A B T q fs], [([q], [(T, ["id"])])]) := by
  unfold plan
  simp only [FlatList.stage_sanitize h, bind, Except.bind, FlatList.stage_plan h]

end PebblesVerif.C13Order
