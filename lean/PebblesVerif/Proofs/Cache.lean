import PebblesVerif.Model.Cache
/-! Refinement proof for the sequential cache model: the inductive invariant
"every entry under key κ is `plain` of some operation with key κ". -/
namespace PebblesVerif.Cache

variable {Op Plan Key E : Type} [DecidableEq Key]

/-- every cached entry is the plain plan of some operation with that key -/
def Inv (S : Sys Op Plan Key E) (st : St Key Plan) : Prop :=
  ∀ e ∈ st, ∃ op, S.key op = e.key ∧ S.plain op = .ok e.plan

omit [DecidableEq Key] in
theorem inv_nil (S : Sys Op Plan Key E) : Inv S ([] : St Key Plan) := by
  intro e he; cases he

omit [DecidableEq Key] in
theorem inv_of_subset {S : Sys Op Plan Key E} {st st' : St Key Plan}
    (h : Inv S st) (hs : ∀ e ∈ st', e ∈ st) : Inv S st' :=
  fun e he => h e (hs e he)

omit [DecidableEq Key] in
theorem inv_clean {S : Sys Op Plan Key E} {st : St Key Plan} (now : Nat) (h : Inv S st) :
    Inv S (clean now st) :=
  inv_of_subset h (fun _ he => (List.mem_filter.mp he).1)

theorem inv_insert {S : Sys Op Plan Key E} {st : St Key Plan} {op : Op} {p : Plan} (x : Nat)
    (h : Inv S st) (hp : S.plain op = .ok p) : Inv S (insert (S.key op) p x st) := by
  intro e he
  simp only [insert, List.mem_cons] at he
  rcases he with rfl | he
  · exact ⟨op, rfl, hp⟩
  · exact h e (List.mem_filter.mp he).1

theorem touch_id {k : Key} {f : Plan → Plan} (hf : ∀ p, f p = p) (st : St Key Plan) :
    touch k f st = st := by
  unfold touch
  conv => rhs; rw [← List.map_id st]
  apply List.map_congr_left
  intro e _
  split
  · simp [hf]
  · rfl

theorem lookup_some {k : Key} {st : St Key Plan} {p : Plan} (h : lookup k st = some p) :
    ∃ e ∈ st, e.key = k ∧ e.plan = p := by
  unfold lookup at h
  cases hf : st.find? (fun e => decide (e.key = k)) with
  | none => simp [hf] at h
  | some e =>
    simp [hf] at h
    have hk := List.find?_some hf
    exact ⟨e, List.mem_of_find?_eq_some hf, by simpa using hk, h⟩

/-- One request: the answer is the plain planner's and the invariant is kept. -/
theorem request_spec {S : Sys Op Plan Key E} (hkey : ∀ a b, S.key a = S.key b → S.plain a = S.plain b)
    (ttl : Nat) (r : Req Op Plan) (hw : ∀ p, r.write p = p) {st : St Key Plan} (hinv : Inv S st) :
    (request S ttl r st).1.res = S.plain r.op ∧ Inv S (request S ttl r st).2 := by
  have hc := inv_clean r.t1 hinv
  unfold request
  simp only
  split
  · rename_i p hl
    obtain ⟨e, he, hek, hep⟩ := lookup_some hl
    obtain ⟨op, hk, hp⟩ := hc e he
    refine ⟨?_, by rw [touch_id hw]; exact hc⟩
    rw [← hkey op r.op (by rw [hk, hek]), hp, hep]
  · split
    · rename_i e he
      exact ⟨he.symm, hc⟩
    · rename_i p hp
      exact ⟨hp.symm, by rw [touch_id hw]; exact inv_insert _ hc hp⟩

theorem runFrom_spec {S : Sys Op Plan Key E} (hkey : ∀ a b, S.key a = S.key b → S.plain a = S.plain b)
    (ttl : Nat) (hist : List (Req Op Plan)) (hw : ∀ r ∈ hist, ∀ p, r.write p = p)
    {st : St Key Plan} (hinv : Inv S st) :
    (runFrom S ttl hist st).map (·.res) = specRun S hist := by
  induction hist generalizing st with
  | nil => rfl
  | cons r rs ih =>
    have h1 := request_spec hkey ttl r (hw r (List.mem_cons_self ..)) hinv
    simp only [runFrom, specRun, List.map_cons]
    rw [h1.1]
    congr 1
    exact ih (fun r' hr' => hw r' (List.mem_cons_of_mem _ hr')) h1.2

end PebblesVerif.Cache
