import PebblesVerif.Proofs.Cache
import PebblesVerif.Model.CacheConc
/-! Inductive invariant of the lock-level cache system, for every number of concurrent
requests, every operation list, every TTL, every clock and every interleaving. -/
namespace PebblesVerif.Cache.Conc
open PebblesVerif.Cache

variable {Op Plan Key E : Type} [DecidableEq Key]

theorem lt_of_getElem?_eq_some {α} {l : List α} {i : Nat} {a : α} (h : l[i]? = some a) :
    i < l.length := by
  rcases Nat.lt_or_ge i l.length with h' | h'
  · exact h'
  · rw [List.getElem?_eq_none h'] at h; cases h

theorem sum_map_set {α} (f : α → Nat) {l : List α} {i : Nat} {a b : α} (h : l[i]? = some a) :
    ((l.set i b).map f).sum + f a = (l.map f).sum + f b := by
  induction l generalizing i with
  | nil => simp at h
  | cons x xs ih =>
    cases i with
    | zero => simp at h; subst h; simp; omega
    | succ i =>
      simp only [List.getElem?_cons_succ] at h
      have := ih h
      simp only [List.set_cons_succ, List.map_cons, List.sum_cons]; omega

theorem getElem?_set' {α} {l : List α} {i j : Nat} {a b : α} (h : l[i]? = some a) :
    (l.set i b)[j]? = if i = j then some b else l[j]? := by
  rw [List.getElem?_set]
  have := lt_of_getElem?_eq_some h
  split <;> simp_all

theorem le_sum_of_getElem? {α} (f : α → Nat) {l : List α} {i : Nat} {a : α} (h : l[i]? = some a) :
    f a ≤ (l.map f).sum := by
  induction l generalizing i with
  | nil => simp at h
  | cons x xs ih =>
    cases i with
    | zero => simp at h; subst h; simp
    | succ i =>
      simp only [List.getElem?_cons_succ] at h
      have := ih h
      simp only [List.map_cons, List.sum_cons]; omega

theorem two_le_sum {α} (f : α → Nat) {l : List α} {i j : Nat} {a b : α} (hij : i ≠ j)
    (hi : l[i]? = some a) (hj : l[j]? = some b) : f a + f b ≤ (l.map f).sum := by
  induction l generalizing i j with
  | nil => simp at hi
  | cons x xs ih =>
    cases i with
    | zero =>
      cases j with
      | zero => exact absurd rfl hij
      | succ j =>
        simp at hi; subst hi
        simp only [List.getElem?_cons_succ] at hj
        have := le_sum_of_getElem? f hj
        simp only [List.map_cons, List.sum_cons]; omega
    | succ i =>
      cases j with
      | zero =>
        simp at hj; subst hj
        simp only [List.getElem?_cons_succ] at hi
        have := le_sum_of_getElem? f hi
        simp only [List.map_cons, List.sum_cons]; omega
      | succ j =>
        simp only [List.getElem?_cons_succ] at hi hj
        have := ih (fun h => hij (by rw [h])) hi hj
        simp only [List.map_cons, List.sum_cons]; omega

theorem exists_pos_of_sum_pos {α} (f : α → Nat) {l : List α} (h : 0 < (l.map f).sum) :
    ∃ (i : Nat) (a : α), l[i]? = some a ∧ 0 < f a := by
  induction l with
  | nil => simp at h
  | cons x xs ih =>
    simp only [List.map_cons, List.sum_cons] at h
    by_cases hx : 0 < f x
    · exact ⟨0, x, by simp, hx⟩
    · obtain ⟨i, a, hi, ha⟩ := ih (by omega)
      exact ⟨i + 1, a, by simpa using hi, ha⟩

structure CInv (c : Cfg Op Plan Key E) (s : St Plan Key E) : Prop where
  len : s.pcs.length = c.ops.length
  cacheOk : Cache.Inv c.sys s.cache
  rdCnt : (s.pcs.map rd).sum = s.readers
  wrCnt : (s.pcs.map wr).sum = (if s.writer then 1 else 0)
  excl : s.writer = true → s.readers = 0
  planOk : ∀ (i : Nat) (p : Plan) (op : Op), c.ops[i]? = some op →
    (s.pcs[i]? = some (PC.planned p) ∨ s.pcs[i]? = some (PC.inserting p)) → c.sys.plain op = .ok p
  doneOk : ∀ (i : Nat) (r : Except E Plan) (hit : Bool) (op : Op), c.ops[i]? = some op → s.pcs[i]? = some (PC.done r hit) → r = c.sys.plain op

omit [DecidableEq Key] in
theorem inv_init (c : Cfg Op Plan Key E) {cache₀ : Cache.St Key Plan} (h0 : Cache.Inv c.sys cache₀) :
    CInv c (init c cache₀) := by
  have hz : ∀ (f : PC Plan Key E → Nat), f .start = 0 →
      ((c.ops.map (fun _ => (PC.start : PC Plan Key E))).map f).sum = 0 := by
    intro f hf
    induction c.ops with
    | nil => rfl
    | cons _ _ ih => simp [hf]; simpa using ih
  refine ⟨by simp [init], h0, by simpa [init] using hz rd rfl, by simpa [init] using hz wr rfl,
    by simp [init], ?_, ?_⟩
  · intro i p op _ h
    simp only [init, List.getElem?_map] at h
    rcases h with h | h <;> cases hh : c.ops[i]? <;> simp [hh] at h
  · intro i r hit op _ h
    simp only [init, List.getElem?_map] at h
    cases hh : c.ops[i]? <;> simp [hh] at h

omit [DecidableEq Key] in
/-- one process moves from `a` to `b`; shared state changes as given -/
theorem inv_update {c : Cfg Op Plan Key E} {s : St Plan Key E} {i : Nat} {a b : PC Plan Key E}
    {cache' : Cache.St Key Plan} {r' : Nat} {w' : Bool}
    (h : CInv c s) (hi : s.pcs[i]? = some a)
    (hcache : Cache.Inv c.sys cache')
    (hr : r' + rd a = s.readers + rd b)
    (hw : (if w' then 1 else 0) + wr a = (if s.writer then 1 else 0) + wr b)
    (hex : w' = true → r' = 0)
    (hplan : ∀ p op, c.ops[i]? = some op → (b = .planned p ∨ b = .inserting p) → c.sys.plain op = .ok p)
    (hdone : ∀ r hit op, c.ops[i]? = some op → b = .done r hit → r = c.sys.plain op) :
    CInv c { pcs := s.pcs.set i b, cache := cache', readers := r', writer := w' } := by
  have hget := fun j => getElem?_set' (b := b) (j := j) hi
  refine ⟨by simpa using h.len, hcache, ?_, ?_, hex, ?_, ?_⟩
  · have := sum_map_set rd (b := b) hi; have := h.rdCnt; simp only; omega
  · have := sum_map_set wr (b := b) hi; have := h.wrCnt; simp only; omega
  · intro j p op hop hj
    simp only [hget] at hj
    split at hj
    · rename_i hij; subst hij
      rcases hj with hj | hj
      · exact hplan p op hop (Or.inl (Option.some.inj hj))
      · exact hplan p op hop (Or.inr (Option.some.inj hj))
    · exact h.planOk j p op hop hj
  · intro j r hit op hop hj
    simp only [hget] at hj
    split at hj
    · rename_i hij; subst hij
      exact hdone r hit op hop (Option.some.inj hj)
    · exact h.doneOk j r hit op hop hj

theorem inv_deleteKeys {S : Sys Op Plan Key E} {cache : Cache.St Key Plan} (del : List Key)
    (h : Cache.Inv S cache) : Cache.Inv S (deleteKeys del cache) :=
  inv_of_subset h (fun _ he => (List.mem_filter.mp he).1)

theorem inv_step {c : Cfg Op Plan Key E}
    (hkey : ∀ a b, c.sys.key a = c.sys.key b → c.sys.plain a = c.sys.plain b)
    {s e s'} (h : CInv c s) (hs : Step c s e s') : CInv c s' := by
  unfold Step step? at hs
  cases e with
  | hash i =>
    simp only at hs; split at hs <;> try cases hs
    rename_i hi
    exact inv_update h hi h.cacheOk (by simp [rd]) (by simp [wr]) h.excl (by simp) (by simp)
  | rlockScan i now =>
    simp only at hs; split at hs <;> try cases hs
    rename_i hi
    split at hs <;> cases hs
    rename_i hw
    exact inv_update h hi h.cacheOk (by simp [rd]) (by simp [wr]) (by simp [hw]) (by simp) (by simp)
  | scanDone i =>
    simp only at hs; split at hs <;> try cases hs
    rename_i now hi
    have hpos : 1 ≤ s.readers := by
      have := le_sum_of_getElem? rd hi; rw [h.rdCnt] at this; simpa [rd] using this
    by_cases hd : (expired now s.cache).isEmpty = true
    · rw [if_pos hd]
      exact inv_update h hi h.cacheOk (by simp [rd]; omega) (by simp [wr])
        (by intro hw; have := h.excl hw; omega) (by simp) (by simp)
    · rw [if_neg hd]
      exact inv_update h hi h.cacheOk (by simp [rd]; omega) (by simp [wr])
        (by intro hw; have := h.excl hw; omega) (by simp) (by simp)
  | lockDelete i =>
    simp only at hs; split at hs <;> try cases hs
    rename_i del hi
    split at hs <;> cases hs
    rename_i hc
    exact inv_update h hi h.cacheOk (by simp [rd]) (by simp [wr, hc.1]) (fun _ => hc.2) (by simp) (by simp)
  | deleteDone i =>
    simp only at hs; split at hs <;> try cases hs
    rename_i del hi
    have hw : s.writer = true := by
      have := le_sum_of_getElem? wr hi; rw [h.wrCnt] at this
      cases hh : s.writer <;> simp [hh, wr] at this ⊢
    exact inv_update h hi (inv_deleteKeys del h.cacheOk) (by simp [rd]) (by simp [wr, hw]) (by simp)
      (by simp) (by simp)
  | rlockLookup i =>
    simp only at hs; split at hs <;> try cases hs
    rename_i hi
    split at hs <;> cases hs
    rename_i hw
    exact inv_update h hi h.cacheOk (by simp [rd]) (by simp [wr]) (by simp [hw]) (by simp) (by simp)
  | lookupDone i =>
    simp only at hs; split at hs <;> try cases hs
    rename_i op hi hop
    have hpos : 1 ≤ s.readers := by
      have := le_sum_of_getElem? rd hi; rw [h.rdCnt] at this; simpa [rd] using this
    split at hs <;> cases hs
    · rename_i p hl
      refine inv_update h hi h.cacheOk (by simp [rd]; omega) (by simp [wr])
        (by intro hw; have := h.excl hw; omega) (by simp) ?_
      intro r hit op' hop' hb
      rw [hop] at hop'; cases hop'
      cases hb
      obtain ⟨e, he, hek, hep⟩ := lookup_some hl
      obtain ⟨op₀, hk, hp⟩ := h.cacheOk e he
      rw [← hkey op₀ op (by rw [hk, hek]), hp, hep]
    · exact inv_update h hi h.cacheOk (by simp [rd]; omega) (by simp [wr])
        (by intro hw; have := h.excl hw; omega) (by simp) (by simp)
  | plan i =>
    simp only at hs; split at hs <;> try cases hs
    rename_i op hi hop
    split at hs <;> cases hs
    · rename_i p hp
      refine inv_update h hi h.cacheOk (by simp [rd]) (by simp [wr]) h.excl ?_ (by simp)
      intro p' op' hop' hb
      rw [hop] at hop'; cases hop'
      rcases hb with hb | hb <;> cases hb
      exact hp
    · rename_i e he
      refine inv_update h hi h.cacheOk (by simp [rd]) (by simp [wr]) h.excl (by simp) ?_
      intro r hit op' hop' hb
      rw [hop] at hop'; cases hop'
      cases hb; exact he.symm
  | lockInsert i =>
    simp only at hs; split at hs <;> try cases hs
    rename_i p hi
    split at hs <;> cases hs
    rename_i hc
    refine inv_update h hi h.cacheOk (by simp [rd]) (by simp [wr, hc.1]) (fun _ => hc.2) ?_ (by simp)
    intro p' op hop hb
    rcases hb with hb | hb <;> cases hb
    exact h.planOk i p op hop (Or.inl hi)
  | insertDone i now =>
    simp only at hs; split at hs <;> try cases hs
    rename_i p op hi hop
    have hw : s.writer = true := by
      have := le_sum_of_getElem? wr hi; rw [h.wrCnt] at this
      cases hh : s.writer <;> simp [hh, wr] at this ⊢
    have hp := h.planOk i p op hop (Or.inr hi)
    refine inv_update h hi (inv_insert _ h.cacheOk hp) (by simp [rd]) (by simp [wr, hw]) (by simp)
      (by simp) ?_
    intro r hit op' hop' hb
    rw [hop] at hop'; cases hop'
    cases hb; exact hp.symm

theorem reach_inv {c : Cfg Op Plan Key E}
    (hkey : ∀ a b, c.sys.key a = c.sys.key b → c.sys.plain a = c.sys.plain b)
    {cache₀ : Cache.St Key Plan} (h0 : Cache.Inv c.sys cache₀) {s} (h : Reach c cache₀ s) : CInv c s := by
  induction h with
  | init => exact inv_init c h0
  | step _ hs ih => exact inv_step hkey ih hs

end PebblesVerif.Cache.Conc

namespace PebblesVerif.Cache.Conc
open PebblesVerif.Cache

variable {Op Plan Key E : Type} [DecidableEq Key]

theorem step_of_isSome {c : Cfg Op Plan Key E} {s : St Plan Key E} {e : Ev}
    (h : (step? c s e).isSome) : ∃ s', Step c s e s' := by
  cases hx : step? c s e with
  | none => simp [hx] at h
  | some s' => exact ⟨s', hx⟩

omit [DecidableEq Key] in
theorem ops_of_pcs {c : Cfg Op Plan Key E} {s : St Plan Key E} (h : CInv c s) {i : Nat}
    {pc : PC Plan Key E} (hi : s.pcs[i]? = some pc) : ∃ op, c.ops[i]? = some op := by
  have hlt : i < c.ops.length := by rw [← h.len]; exact lt_of_getElem?_eq_some hi
  exact ⟨c.ops[i], List.getElem?_eq_getElem hlt⟩

/-- a process inside a read section can always leave it -/
theorem reader_can_step {c : Cfg Op Plan Key E} {s : St Plan Key E} (h : CInv c s)
    (hr : 0 < s.readers) : ∃ e s', Step c s e s' := by
  rw [← h.rdCnt] at hr
  obtain ⟨j, a, hj, ha⟩ := exists_pos_of_sum_pos rd hr
  obtain ⟨op, hop⟩ := ops_of_pcs h hj
  cases a <;> simp [rd] at ha
  · exact ⟨.scanDone j, step_of_isSome (by simp [step?, hj])⟩
  · cases hl : lookup (c.sys.key op) s.cache with
    | none => exact ⟨.lookupDone j, step_of_isSome (by simp [step?, hj, hop, hl])⟩
    | some p => exact ⟨.lookupDone j, step_of_isSome (by simp [step?, hj, hop, hl])⟩

theorem progress {c : Cfg Op Plan Key E} {s : St Plan Key E} (h : CInv c s) (hf : ¬ Final s) :
    ∃ e s', Step c s e s' := by
  have hex : ∃ pc ∈ s.pcs, isDone pc = false := by
    apply Classical.byContradiction
    intro hne
    apply hf
    intro pc hpc
    cases hd : isDone pc with
    | true => rfl
    | false => exact absurd ⟨pc, hpc, hd⟩ hne
  obtain ⟨pc, hpc, hnd⟩ := hex
  obtain ⟨i, hi⟩ := List.mem_iff_getElem?.mp hpc
  obtain ⟨op, hop⟩ := ops_of_pcs h hi
  by_cases hw : s.writer = true
  · have hpos : 0 < (s.pcs.map wr).sum := by rw [h.wrCnt, hw]; simp
    obtain ⟨j, a, hj, ha⟩ := exists_pos_of_sum_pos wr hpos
    obtain ⟨opj, hopj⟩ := ops_of_pcs h hj
    cases a <;> simp [wr] at ha
    · exact ⟨.deleteDone j, step_of_isSome (by simp [step?, hj])⟩
    · exact ⟨.insertDone j 0, step_of_isSome (by simp [step?, hj, hopj])⟩
  · have hw' : s.writer = false := by cases hh : s.writer <;> simp_all
    cases pc with
    | start => exact ⟨.hash i, step_of_isSome (by simp [step?, hi])⟩
    | hashed => exact ⟨.rlockScan i 0, step_of_isSome (by simp [step?, hi, hw'])⟩
    | scanning now => exact ⟨.scanDone i, step_of_isSome (by simp [step?, hi])⟩
    | scanned del =>
      by_cases hr : s.readers = 0
      · exact ⟨.lockDelete i, step_of_isSome (by simp [step?, hi, hw', hr])⟩
      · exact reader_can_step h (by omega)
    | deleting del => exact ⟨.deleteDone i, step_of_isSome (by simp [step?, hi])⟩
    | cleaned => exact ⟨.rlockLookup i, step_of_isSome (by simp [step?, hi, hw'])⟩
    | looking =>
      cases hl : lookup (c.sys.key op) s.cache with
      | none => exact ⟨.lookupDone i, step_of_isSome (by simp [step?, hi, hop, hl])⟩
      | some p => exact ⟨.lookupDone i, step_of_isSome (by simp [step?, hi, hop, hl])⟩
    | missed =>
      cases hp : c.sys.plain op with
      | error e => exact ⟨.plan i, step_of_isSome (by simp [step?, hi, hop, hp])⟩
      | ok p => exact ⟨.plan i, step_of_isSome (by simp [step?, hi, hop, hp])⟩
    | planned p =>
      by_cases hr : s.readers = 0
      · exact ⟨.lockInsert i, step_of_isSome (by simp [step?, hi, hw', hr])⟩
      · exact reader_can_step h (by omega)
    | inserting p => exact ⟨.insertDone i 0, step_of_isSome (by simp [step?, hi, hop])⟩
    | done r hit => simp [isDone] at hnd

theorem measure_step {c : Cfg Op Plan Key E} {s s' : St Plan Key E} {e : Ev}
    (hs : Step c s e s') : measure s' < measure s := by
  have key : ∀ {i : Nat} {a b : PC Plan Key E}, s.pcs[i]? = some a → weight b < weight a →
      ((s.pcs.set i b).map weight).sum < (s.pcs.map weight).sum := by
    intro i a b hi hlt
    have := sum_map_set weight (b := b) hi; omega
  unfold Step step? at hs
  cases e with
  | hash i =>
    simp only at hs; split at hs <;> try cases hs
    rename_i hi; exact key hi (by simp [weight])
  | rlockScan i now =>
    simp only at hs; split at hs <;> try cases hs
    rename_i hi; split at hs <;> cases hs
    exact key hi (by simp [weight])
  | scanDone i =>
    simp only at hs; split at hs <;> try cases hs
    rename_i now hi
    by_cases hd : (expired now s.cache).isEmpty = true
    · rw [if_pos hd]; exact key hi (by simp [weight])
    · rw [if_neg hd]; exact key hi (by simp [weight])
  | lockDelete i =>
    simp only at hs; split at hs <;> try cases hs
    rename_i del hi; split at hs <;> cases hs
    exact key hi (by simp [weight])
  | deleteDone i =>
    simp only at hs; split at hs <;> try cases hs
    rename_i del hi; exact key hi (by simp [weight])
  | rlockLookup i =>
    simp only at hs; split at hs <;> try cases hs
    rename_i hi; split at hs <;> cases hs
    exact key hi (by simp [weight])
  | lookupDone i =>
    simp only at hs; split at hs <;> try cases hs
    rename_i op hi hop
    split at hs <;> cases hs
    · exact key hi (by simp [weight])
    · exact key hi (by simp [weight])
  | plan i =>
    simp only at hs; split at hs <;> try cases hs
    rename_i op hi hop
    split at hs <;> cases hs
    · exact key hi (by simp [weight])
    · exact key hi (by simp [weight])
  | lockInsert i =>
    simp only at hs; split at hs <;> try cases hs
    rename_i p hi; split at hs <;> cases hs
    exact key hi (by simp [weight])
  | insertDone i now =>
    simp only at hs; split at hs <;> try cases hs
    rename_i p op hi hop
    exact key hi (by simp [weight])

end PebblesVerif.Cache.Conc
