import PebblesVerif.Model.CacheKey
/-! The printed selection together with the spreads' type conditions determines the selection. -/
namespace PebblesVerif.CacheKey

mutual
theorem conds_length_of_erase : ∀ (a b : Sel), erase a = erase b → (conds a).length = (conds b).length
  | .field _ s, .field _ s', h => by
    simp only [erase, Sel.field.injEq] at h
    simpa [conds] using condsL_length_of_eraseL s s' h.2
  | .inline _ s, .inline _ s', h => by
    simp only [erase, Sel.inline.injEq] at h
    simpa [conds] using condsL_length_of_eraseL s s' h.2
  | .spread _ _ s, .spread _ _ s', h => by
    simp only [erase, Sel.spread.injEq] at h
    simpa [conds] using condsL_length_of_eraseL s s' h.2.2
  | .field _ _, .inline _ _, h => by simp [erase] at h
  | .field _ _, .spread _ _ _, h => by simp [erase] at h
  | .inline _ _, .field _ _, h => by simp [erase] at h
  | .inline _ _, .spread _ _ _, h => by simp [erase] at h
  | .spread _ _ _, .field _ _, h => by simp [erase] at h
  | .spread _ _ _, .inline _ _, h => by simp [erase] at h
theorem condsL_length_of_eraseL : ∀ (as bs : List Sel), eraseL as = eraseL bs →
    (condsL as).length = (condsL bs).length
  | [], [], _ => rfl
  | [], _ :: _, h => by simp [eraseL] at h
  | _ :: _, [], h => by simp [eraseL] at h
  | a :: as, b :: bs, h => by
    simp only [eraseL, List.cons.injEq] at h
    simp only [condsL, List.length_append]
    rw [conds_length_of_erase a b h.1, condsL_length_of_eraseL as bs h.2]
end

mutual
theorem eq_of_erase_conds : ∀ (a b : Sel), erase a = erase b → conds a = conds b → a = b
  | .field l s, .field l' s', h, hc => by
    simp only [erase, Sel.field.injEq] at h
    simp only [conds] at hc
    rw [h.1, eqL_of_erase_conds s s' h.2 hc]
  | .inline l s, .inline l' s', h, hc => by
    simp only [erase, Sel.inline.injEq] at h
    simp only [conds] at hc
    rw [h.1, eqL_of_erase_conds s s' h.2 hc]
  | .spread l c s, .spread l' c' s', h, hc => by
    simp only [erase, Sel.spread.injEq] at h
    simp only [conds, List.cons.injEq] at hc
    rw [h.1, hc.1, eqL_of_erase_conds s s' h.2.2 hc.2]
  | .field _ _, .inline _ _, h, _ => by simp [erase] at h
  | .field _ _, .spread _ _ _, h, _ => by simp [erase] at h
  | .inline _ _, .field _ _, h, _ => by simp [erase] at h
  | .inline _ _, .spread _ _ _, h, _ => by simp [erase] at h
  | .spread _ _ _, .field _ _, h, _ => by simp [erase] at h
  | .spread _ _ _, .inline _ _, h, _ => by simp [erase] at h
theorem eqL_of_erase_conds : ∀ (as bs : List Sel), eraseL as = eraseL bs → condsL as = condsL bs → as = bs
  | [], [], _, _ => rfl
  | [], _ :: _, h, _ => by simp [eraseL] at h
  | _ :: _, [], h, _ => by simp [eraseL] at h
  | a :: as, b :: bs, h, hc => by
    simp only [eraseL, List.cons.injEq] at h
    simp only [condsL] at hc
    have hl := conds_length_of_erase a b h.1
    have := List.append_inj hc hl
    rw [eq_of_erase_conds a b h.1 this.1, eqL_of_erase_conds as bs h.2 this.2]
end

end PebblesVerif.CacheKey
