import PebblesVerif.Model.Chunk
/-! Lemmas relating the generated chunk arithmetic to the specification-level chunks. -/
namespace PebblesVerif.Chunk
open PebblesVerif.Gen.Chunk

theorem specChunks_flatten (xs : List α) (m k : Nat) :
    ((List.range k).map (specChunk xs m)).flatten = xs.take (k * m) := by
  induction k with
  | zero => simp
  | succ k ih =>
    rw [List.range_succ, List.map_append, List.flatten_append, ih]
    simp only [List.map_cons, List.map_nil, List.flatten_cons, List.flatten_nil, List.append_nil,
      specChunk]
    rw [Nat.add_mul, Nat.one_mul, List.take_add]

theorem specChunk_length_le (xs : List α) (m i : Nat) : (specChunk xs m i).length ≤ m := by
  simp [specChunk, List.length_take]; omega

/-- chunk `i` as computed by the Go expressions is the specification chunk, for every chunk index
    the map phase uses (`i ≤ N / m`), and never panics -/
theorem chunkOf?_eq (xs : List α) {m i : Nat} (hm : 0 < m) (hi : i ≤ xs.length / m) :
    chunkOf? xs m i = some (specChunk xs m i) := by
  have hdiv : i * m ≤ xs.length := (Nat.le_div_iff_mul_le hm).mp hi
  unfold chunkOf? specChunk
  simp only [mapTail, mapLoOpen, mapLo, mapHi, decide_eq_true_eq, Nat.add_mul, Nat.one_mul]
  split
  · rename_i h
    simp only [sliceFrom?, hdiv, ↓reduceIte, Option.some.injEq]
    rw [List.take_of_length_le]
    simp only [List.length_drop]; omega
  · rename_i h
    have h' : i * m + m ≤ xs.length := by omega
    simp only [slice?, h', and_true, Nat.le_add_right, ↓reduceIte, Option.some.injEq]
    rw [List.drop_take]
    congr 1; omega

/-- the last chunk index covers the end of the list -/
theorem numChunks_cover {N m : Nat} (hm : 0 < m) : N ≤ numChunks N m * m ∧ numChunks N m = N / m + 1 := by
  unfold numChunks
  refine ⟨?_, rfl⟩
  have h1 := Nat.div_add_mod N m
  have h2 := Nat.mod_lt N hm
  rw [Nat.add_mul, Nat.one_mul, Nat.mul_comm (N / m) m]
  omega

theorem specSplice_length {m : Nat} {acc r : List β} {i : Nat}
    (hr : r.length = min m (acc.length - i * m)) (hi : i * m ≤ acc.length) :
    (specSplice m acc i r).length = acc.length := by
  simp [specSplice, List.length_take, List.length_drop, hr]; omega

/-- pointwise description of a splice -/
theorem specSplice_get? {m : Nat} {acc r : List β} {i : Nat}
    (hr : r.length = min m (acc.length - i * m)) (hi : i * m ≤ acc.length) (j : Nat) :
    (specSplice m acc i r)[j]? =
      if j < i * m then acc[j]? else if j < i * m + m then r[j - i * m]? else acc[j]? := by
  unfold specSplice
  have hlt : (acc.take (i * m)).length = i * m := by simp [List.length_take]; omega
  split
  · rename_i h
    rw [List.append_assoc, List.getElem?_append_left (by omega), List.getElem?_take_of_lt h]
  · rename_i h
    have h1 : ¬ j < (acc.take (i * m) ++ r).length → True := fun _ => trivial
    split
    · rename_i h2
      by_cases hjr : j - i * m < r.length
      · rw [List.getElem?_append_left (by simp [List.length_append, hlt]; omega),
          List.getElem?_append_right (by omega), hlt]
      · -- beyond r: r is short only when the chunk reaches the end of acc
        have hrl : r.length = acc.length - i * m := by omega
        rw [List.getElem?_eq_none (by simp [List.length_append, List.length_take, List.length_drop]; omega)]
        rw [List.getElem?_eq_none (by omega)]
    · rename_i h2
      by_cases hm' : m ≤ acc.length - i * m
      · have hrl : r.length = m := by omega
        rw [List.getElem?_append_right (by simp [List.length_append, hlt]; omega)]
        simp only [List.length_append, hlt, hrl, List.getElem?_drop]
        congr 1; omega
      · have hrl : r.length = acc.length - i * m := by omega
        rw [List.getElem?_eq_none (by simp [List.length_append, List.length_take, List.length_drop]; omega)]
        rw [List.getElem?_eq_none (by omega)]

/-- the Go reducer computes the specification splice (and does not panic) when the accumulator
    has length `N` and the chunk answer has the chunk's length -/
theorem splice?_eq {N m : Nat} {acc r : List β} {i : Nat} (hacc : acc.length = N)
    (hi : i * m ≤ N) :
    splice? N m acc i r = some (specSplice m acc i r) := by
  unfold splice? specSplice
  simp only [redHasTail, redTailFrom, redHeadFrom, redHeadTo, decide_eq_true_eq, Nat.add_mul,
    Nat.one_mul]
  have hhead : slice? acc 0 (i * m) = some (acc.take (i * m)) := by
    simp [slice?, hacc, hi]
  rw [hhead]
  by_cases h : i * m + m < N
  · have : sliceFrom? acc (i * m + m) = some (acc.drop (i * m + m)) := by
      simp [sliceFrom?, hacc]; omega
    simp [h, this, List.append_assoc]
  · have : acc.drop (i * m + m) = [] := by
      apply List.drop_of_length_le; omega
    simp [h, this]

end PebblesVerif.Chunk
