import PebblesVerif.Model.ConnWrite
/-! Invariant of the writers of one connection when every frame is written under the write
mutex: the byte-level log is a concatenation of whole frames, plus at most the header of the
frame whose writer currently holds the mutex. For any number of writers and frames. -/
namespace PebblesVerif.ConnWrite

def WPc.inCrit : WPc → Bool
  | .hdr | .pay | .unlock => true
  | _ => false

theorem Whole.nil : Whole [] := ⟨[], rfl⟩

theorem Whole.snoc {log : List Part} (h : Whole log) (w f : Nat) :
    Whole (log ++ [.hdr w f] ++ [.pay w f]) := by
  obtain ⟨fs, rfl⟩ := h
  refine ⟨fs ++ [(w, f)], ?_⟩
  simp [List.flatMap_append, frame]

theorem okLog_frames (fs : List (Nat × Nat)) (tail : List Part) :
    okLog (fs.flatMap frame ++ tail) = okLog tail := by
  induction fs with
  | nil => simp
  | cons wf fs ih =>
    simp only [List.flatMap_cons, frame, List.cons_append, List.nil_append, List.append_assoc]
    rw [okLog]
    · simp [ih]

theorem okLog_whole {log : List Part} (h : Whole log) : okLog log = true := by
  obtain ⟨fs, rfl⟩ := h
  have := okLog_frames fs []
  simpa [okLog] using this

theorem okLog_whole_hdr {pre : List Part} (h : Whole pre) (w f : Nat) :
    okLog (pre ++ [.hdr w f]) = true := by
  obtain ⟨fs, rfl⟩ := h
  rw [okLog_frames]; rfl

structure Inv (s : St) : Prop where
  hold : ∀ i w, s.ws[i]? = some w → (w.pc.inCrit = true ↔ s.mutex = some i)
  open_ : ∀ i w, s.mutex = some i → s.ws[i]? = some w → w.pc = .pay →
    ∃ pre, Whole pre ∧ s.log = pre ++ [.hdr i w.f]
  closed : (∀ i w, s.mutex = some i → s.ws[i]? = some w → w.pc ≠ .pay) → Whole s.log

theorem inv_init (c : Cfg) : Inv (init c) := by
  refine ⟨?_, ?_, ?_⟩
  · intro i w h
    simp only [init, List.getElem?_map] at h
    cases hh : c.frames[i]? with
    | none => simp [hh] at h
    | some n => simp [hh] at h; subst h; simp [init, WPc.inCrit]
  · intro i w h; simp [init] at h
  · intro _; exact Whole.nil

theorem lt_of_getElem?_eq_some {α} {l : List α} {i : Nat} {a : α} (h : l[i]? = some a) :
    i < l.length := by
  rcases Nat.lt_or_ge i l.length with h' | h'
  · exact h'
  · rw [List.getElem?_eq_none h'] at h; cases h

theorem getElem?_set_of {α} {l : List α} {i j : Nat} {a b : α} (h : l[i]? = some a) :
    (l.set i b)[j]? = if i = j then some b else l[j]? := by
  rw [List.getElem?_set]
  have := lt_of_getElem?_eq_some h
  split <;> simp_all

theorem inv_step {c : Cfg} (hc : c.locked = true) {s e s'} (h : Inv s) (hs : Step c s e s') : Inv s' := by
  obtain ⟨lk, fr⟩ := c
  simp only at hc; subst hc
  unfold Step step? at hs
  cases e with
  | begin i =>
    simp only at hs
    split at hs
    · rename_i w hw
      split at hs
      · rename_i hcond
        simp only [↓reduceIte] at hs
        cases hs
        have hget := fun j => getElem?_set_of (b := ({ w with pc := WPc.wantLock } : W)) (j := j) hw
        have hni : s.mutex ≠ some i := by
          intro hm; have := (h.hold i w hw).mpr hm; simp [hcond.1, WPc.inCrit] at this
        refine ⟨?_, ?_, ?_⟩
        · intro j w' hj
          simp only [hget] at hj
          split at hj
          · rename_i hij; subst hij; cases hj; simp [WPc.inCrit, hni]
          · exact h.hold j w' hj
        · intro j w' hm hj hp
          simp only [hget] at hj
          split at hj
          · rename_i hij; subst hij; exact absurd hm hni
          · exact h.open_ j w' hm hj hp
        · intro hall
          apply h.closed
          intro j w' hm hj
          have hne : i ≠ j := by intro hij; subst hij; exact hni hm
          exact hall j w' hm (by simp only [hget, if_neg hne]; exact hj)
      · cases hs
    · cases hs
  | lock i =>
    simp only at hs
    split at hs
    · rename_i w hw
      split at hs
      · rename_i hcond
        cases hs
        have hget := fun j => getElem?_set_of (b := ({ w with pc := .hdr } : W)) (j := j) hw
        have hW : Whole s.log := h.closed (by intro j w' hm; simp [hcond.2] at hm)
        refine ⟨?_, ?_, ?_⟩
        · intro j w' hj
          simp only [hget] at hj
          split at hj
          · rename_i hij; subst hij; cases hj; simp [WPc.inCrit]
          · rename_i hij
            have := h.hold j w' hj
            simp only [hcond.2, reduceCtorEq, iff_false] at this
            constructor
            · intro h1; exact absurd h1 this
            · intro h1; simp only [Option.some.injEq] at h1; exact absurd h1 hij
        · intro j w' hm hj hp
          simp only [Option.some.injEq] at hm; subst hm
          simp only [hget, if_true] at hj; cases hj; cases hp
        · intro _; exact hW
      · cases hs
    · cases hs
  | hdr i =>
    simp only at hs
    split at hs
    · rename_i w hw
      split at hs
      · rename_i hcond
        cases hs
        have hget := fun j => getElem?_set_of (b := ({ w with pc := .pay } : W)) (j := j) hw
        have hm : s.mutex = some i := (h.hold i w hw).mp (by simp [hcond, WPc.inCrit])
        have hW : Whole s.log := h.closed (by
          intro j w' hm' hj; rw [hm] at hm'; cases hm'; rw [hw] at hj; cases hj; simp [hcond])
        refine ⟨?_, ?_, ?_⟩
        · intro j w' hj
          simp only [hget] at hj
          split at hj
          · rename_i hij; subst hij; cases hj; simp [WPc.inCrit, hm]
          · exact h.hold j w' hj
        · intro j w' hm' hj hp
          simp only [hm, Option.some.injEq] at hm'; subst hm'
          simp only [hget, if_true] at hj; cases hj
          exact ⟨s.log, hW, rfl⟩
        · intro hall
          exact absurd rfl (hall i ({ w with pc := .pay } : W) hm (by simp only [hget, if_true]))
      · cases hs
    · cases hs
  | pay i =>
    simp only at hs
    split at hs
    · rename_i w hw
      split at hs
      · rename_i hcond
        simp only [↓reduceIte] at hs
        cases hs
        have hget := fun j => getElem?_set_of (b := ({ w with pc := .unlock } : W)) (j := j) hw
        have hm : s.mutex = some i := (h.hold i w hw).mp (by simp [hcond, WPc.inCrit])
        obtain ⟨pre, hpre, hlog⟩ := h.open_ i w hm hw hcond
        refine ⟨?_, ?_, ?_⟩
        · intro j w' hj
          simp only [hget] at hj
          split at hj
          · rename_i hij; subst hij; cases hj; simp [WPc.inCrit, hm]
          · exact h.hold j w' hj
        · intro j w' hm' hj hp
          simp only [hm, Option.some.injEq] at hm'; subst hm'
          simp only [hget, if_true] at hj; cases hj; cases hp
        · intro _
          simp only [hlog]
          exact hpre.snoc i w.f
      · cases hs
    · cases hs
  | unlock i =>
    simp only at hs
    split at hs
    · rename_i w hw
      split at hs
      · rename_i hcond
        cases hs
        have hget := fun j => getElem?_set_of (b := (⟨.idle, w.f + 1, w.left - 1⟩ : W)) (j := j) hw
        have hm : s.mutex = some i := (h.hold i w hw).mp (by simp [hcond, WPc.inCrit])
        have hW : Whole s.log := h.closed (by
          intro j w' hm' hj; rw [hm] at hm'; cases hm'; rw [hw] at hj; cases hj; simp [hcond])
        refine ⟨?_, ?_, ?_⟩
        · intro j w' hj
          simp only [hget] at hj
          split at hj
          · rename_i hij; subst hij; cases hj; simp [WPc.inCrit]
          · rename_i hij
            have := h.hold j w' hj
            rw [hm] at this
            constructor
            · intro h1; have := this.mp h1; simp only [Option.some.injEq] at this; exact absurd this hij
            · intro h1; cases h1
        · intro j w' hm'; simp at hm'
        · intro _; exact hW
      · cases hs
    · cases hs

theorem reach_inv {c : Cfg} (hc : c.locked = true) {s} (h : Reach c s) : Inv s := by
  induction h with
  | init => exact inv_init c
  | step _ hs ih => exact inv_step hc ih hs

end PebblesVerif.ConnWrite
