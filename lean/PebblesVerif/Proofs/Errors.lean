import PebblesVerif.Model.Errors
import Std.Data.String.ToInt
/-! Helper lemmas about `Model/Errors.lean` (flattening, the pipeline layers, JSON round trip). -/
set_option linter.unusedSimpArgs false
namespace PebblesVerif.Errors
open PebblesVerif

/-! ### flattening -/

theorem formatErrorL_append (a b : List GoErr) :
    formatErrorL (a ++ b) = formatErrorL a ++ formatErrorL b := by
  induction a with
  | nil => simp [formatErrorL]
  | cons x xs ih => simp [formatErrorL, ih, List.append_assoc]

theorem formatErrorL_eq_flatten (ts : List GoErr) :
    formatErrorL ts = (ts.map formatError).flatten := by
  induction ts with
  | nil => simp [formatErrorL]
  | cons x xs ih => simp [formatErrorL, ih]

theorem formatErrorL_map_gql (l : List (Option Err)) : formatErrorL (l.map .gqlError) = l := by
  induction l with
  | nil => simp [formatErrorL]
  | cons x xs ih => simp [formatErrorL, formatError, ih]

theorem formatError_asErr (l : List (Option Err)) : formatError (asErr l) = l := by
  simp [asErr, formatError, formatErrorL_map_gql]

theorem mem_formatErrorL {x : Option Err} {t : GoErr} {ts : List GoErr}
    (ht : t ∈ ts) (hx : x ∈ formatError t) : x ∈ formatErrorL ts := by
  rw [formatErrorL_eq_flatten]
  exact List.mem_flatten.mpr ⟨formatError t, List.mem_map.mpr ⟨t, ht, rfl⟩, hx⟩

/-! ### the layers -/

theorem foldl_extend (es : List GoErr) (acc : List (Option Err)) :
    es.foldl extend acc = acc ++ formatErrorL es := by
  induction es generalizing acc with
  | nil => simp [formatErrorL]
  | cons e es ih => simp [List.foldl_cons, ih, extend, formatErrorL, List.append_assoc]

theorem formatError_amrErrors (es : List GoErr) : formatError (amrErrors es) = formatErrorL es := by
  unfold amrErrors
  simp only [foldl_extend, List.nil_append]
  split
  · exact formatError_asErr _
  · rename_i h
    have : formatErrorL es = [] := by
      cases hl : formatErrorL es with
      | nil => rfl
      | cons _ _ => simp [hl] at h
    simp [this, formatError]

theorem formatError_managerErrors (e : GoErr) : formatError (managerErrors e) = formatError e := by
  simp [managerErrors, formatError_asErr, extend]

/-! ### JSON round trip -/

theorem lower_length (s : String) : (lower s).length = s.length := String.length_map

theorem keyMatch_self (k : String) : keyMatch k k = true := by simp [keyMatch]

theorem keyMatch_false {field k : String} (h1 : k ≠ field) (h2 : k.length ≠ field.length) :
    keyMatch field k = false := by
  simp only [keyMatch, Bool.or_eq_false_iff, beq_eq_false_iff_ne, ne_eq]
  refine ⟨h1, fun h => h2 ?_⟩
  rw [← lower_length k, h]

theorem mapM_encode {α β : Type} (enc : α → β) (dec : β → Except String α)
    (h : ∀ x, dec (enc x) = .ok x) (xs : List α) : (xs.map enc).mapM dec = .ok xs := by
  induction xs with
  | nil => rfl
  | cons x xs ih =>
    simp only [List.map_cons, List.mapM_cons, h, ih]
    rfl

theorem decodeInt_repr (i : Int) : decodeInt (some (.num i.repr)) = .ok i := by
  simp [decodeInt, Int.toInt?_repr]

theorem decodeLoc_encodeLoc (l : Loc) : decodeLoc (encodeLoc l) = .ok l := by
  obtain ⟨ln, col⟩ := l
  have k1 : keyMatch "line" "column" = false := keyMatch_false (by decide) (by decide)
  have k2 : keyMatch "column" "line" = false := keyMatch_false (by decide) (by decide)
  have k3 : keyMatch "line" "line" = true := keyMatch_self _
  have k4 : keyMatch "column" "column" = true := keyMatch_self _
  by_cases h1 : ln = 0 <;> by_cases h2 : col = 0 <;>
    simp [encodeLoc, decodeLoc, h1, h2, lookupFold, k1, k2, k3, k4, decodeInt,
      bind, Except.bind, pure, Except.pure]

theorem decodeLocs_encode (ls : List Loc) :
    decodeLocs (some (.arr (ls.map encodeLoc))) = .ok ls := by
  simp only [decodeLocs]
  exact mapM_encode encodeLoc decodeLoc decodeLoc_encodeLoc ls


/-- the four JSON names of `Error`'s fields address pairwise different fields -/
theorem keyMatch_fields :
    keyMatch "extensions" "message" = false ∧ keyMatch "extensions" "locations" = false ∧
    keyMatch "extensions" "path" = false ∧ keyMatch "message" "extensions" = false ∧
    keyMatch "message" "locations" = false ∧ keyMatch "message" "path" = false ∧
    keyMatch "locations" "extensions" = false ∧ keyMatch "locations" "message" = false ∧
    keyMatch "locations" "path" = false ∧ keyMatch "path" "extensions" = false ∧
    keyMatch "path" "message" = false ∧ keyMatch "path" "locations" = false := by
  refine ⟨?_, ?_, ?_, ?_, ?_, ?_, ?_, ?_, ?_, ?_, ?_, ?_⟩ <;> exact keyMatch_false (by decide) (by decide)

theorem mapM_decodeLoc_comp (ls : List Loc) : List.mapM (decodeLoc ∘ encodeLoc) ls = .ok ls := by
  induction ls with
  | nil => rfl
  | cons x xs ih => simp only [List.mapM_cons, Function.comp_apply, decodeLoc_encodeLoc, ih]; rfl

theorem decodeErr_encodeErr (e : Option Err) : decodeErr (encodeErr e) = .ok e := by
  cases e with
  | none => rfl
  | some e =>
    obtain ⟨msg, ext, path, locs⟩ := e
    obtain ⟨a1, a2, a3, a4, a5, a6, a7, a8, a9, a10, a11, a12⟩ := keyMatch_fields
    cases ext <;> cases path <;> cases locs <;>
      simp [encodeErr, decodeErr, lookupFold, keyMatch_self, a1, a2, a3, a4, a5, a6, a7, a8, a9, a10, a11, a12,
        decodeExtensions, decodeMessage, decodeLocs, decodePath, bind, Except.bind, pure, Except.pure,
        decodeLoc_encodeLoc, mapM_decodeLoc_comp]

end PebblesVerif.Errors
