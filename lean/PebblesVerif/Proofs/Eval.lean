import PebblesVerif.Spec.Eval
import PebblesVerif.Model.Plan
/-!
Semantic lemmas about the reference evaluator — the "semantic core of federation"
(DESIGN §6 C01, `Eval.decompose` / `eval_at_owner`).
-/
namespace PebblesVerif.Spec
open PebblesVerif

mutual
  /-- every fragment condition is empty or a concrete type known by name only (no interface /
      union conditions), and `node` is not selected: then evaluation never consults the schema -/
  def concreteOnly (S₁ S₂ : Schema) : List Sel → Bool
    | [] => true
    | s :: rest => concreteOnlySel S₁ S₂ s && concreteOnly S₁ S₂ rest
  def concreteOnlySel (S₁ S₂ : Schema) : Sel → Bool
    | .field _ name _ _ _ _ sub => name != "node" && concreteOnly S₁ S₂ sub
    | .inline cond _ _ _ sub => (S₁.possibleOf cond == S₂.possibleOf cond) && concreteOnly S₁ S₂ sub
    | .spread _ cond _ _ _ sub => (S₁.possibleOf cond == S₂.possibleOf cond) && concreteOnly S₁ S₂ sub
end

theorem applies_congr (e₁ e₂ : Env) (o : Obj) (cond : String)
    (h : e₁.schema.possibleOf cond = e₂.schema.possibleOf cond) : applies e₁ o cond = applies e₂ o cond := by
  simp [applies, h]

theorem storedValue_congr (e₁ e₂ : Env) (hd : e₁.data = e₂.data) (o : Obj) (name : String) (args : List Arg)
    (hn : (name == "node") = false) : storedValue e₁ o name args = storedValue e₂ o name args := by
  unfold storedValue
  cases o with
  | root r => simp [hn, hd]
  | ent t i f => rfl

/-- the same environment over another schema -/
def Env.withSchema (e : Env) (S : Schema) : Env := { e with schema := S }

mutual
  theorem valueToJ_schema (e : Env) (S : Schema) : ∀ (v : Value), valueToJ (e.withSchema S) v = valueToJ e v
    | .var n _ => by simp [valueToJ, Env.withSchema]
    | .int _ => rfl
    | .float _ => rfl
    | .str _ => rfl
    | .bool _ => rfl
    | .null => rfl
    | .enum _ => rfl
    | .list vs => by simp [valueToJ, valuesToJ_schema e S vs]
    | .object fs => by simp [valueToJ, fieldsToJ_schema e S fs]
  theorem valuesToJ_schema (e : Env) (S : Schema) : ∀ (vs : List Value), valuesToJ (e.withSchema S) vs = valuesToJ e vs
    | [] => rfl
    | v :: vs => by simp [valuesToJ, valueToJ_schema e S v, valuesToJ_schema e S vs]
  theorem fieldsToJ_schema (e : Env) (S : Schema) : ∀ (fs : List (String × Value)),
      fieldsToJ (e.withSchema S) fs = fieldsToJ e fs
    | [] => rfl
    | (k, v) :: fs => by simp [fieldsToJ, valueToJ_schema e S v, fieldsToJ_schema e S fs]
end

theorem argsToJ_schema (e : Env) (S : Schema) (args : List Arg) : argsToJ (e.withSchema S) args = argsToJ e args := by
  induction args with
  | nil => rfl
  | cons a as ih => simp [argsToJ, valueToJ_schema, ih]

theorem skipped_schema (e : Env) (S : Schema) (dirs : List Dir) : skipped (e.withSchema S) dirs = skipped e dirs := by
  simp [skipped, valueToJ_schema]

theorem echoArgs_schema (e : Env) (S : Schema) (args : List Arg) (j : J) :
    echoArgs (e.withSchema S) args j = echoArgs e args j := by
  simp [echoArgs, argsToJ_schema]

theorem completeWith_congr (data : Data) (k₁ k₂ : Obj → Option (List (String × J))) (ec₁ ec₂ : J → J)
    (hk : ∀ o, k₁ o = k₂ o) (he : ∀ j, ec₁ j = ec₂ j) :
    ∀ (t : TypeRef) (v : DVal), completeWith data k₁ ec₁ t v = completeWith data k₂ ec₂ t v := by
  intro t
  induction t with
  | named n => intro v; cases v <;> simp [completeWith, hk, he]
  | list elem ih =>
    intro v
    cases v with
    | list vs => simp only [completeWith]; congr 1 <;> (try congr 1) <;> simp [ih]
    | _ => rfl
  | nonNull t' ih =>
    intro v
    cases v <;> simp [completeWith, ih]

theorem storedValue_schema (e : Env) (S : Schema) (o : Obj) (name : String) (args : List Arg)
    (hn : (name != "node") = true) : storedValue (e.withSchema S) o name args = storedValue e o name args := by
  have hn' : (name == "node") = false := by simpa using hn
  unfold storedValue
  cases o with
  | root r => simp [hn', Env.withSchema]
  | ent t i f => rfl

mutual
  /-- **Evaluation does not depend on the schema** for selections whose fragment conditions mean
      the same in both schemas and that do not go through `node`: a service evaluating the selection
      it is sent over the shared data answers what the merged-schema server answers for it. -/
  theorem evalSel_schema (e : Env) (S : Schema) : ∀ (s : Sel) (o : Obj) (acc : List (String × J)),
      concreteOnlySel (e.withSchema S).schema e.schema s = true →
      evalSel (e.withSchema S) o s acc = evalSel e o s acc
    | .field alias name args dirs type argDefs sub, o, acc, h => by
      simp only [concreteOnlySel, Bool.and_eq_true] at h
      have hk : ∀ o', evalSels (e.withSchema S) o' sub [] = evalSels e o' sub [] :=
        fun o' => evalSels_schema e S sub o' [] h.2
      have hfv : fieldValue (e.withSchema S) o name args type (fun o' => evalSels (e.withSchema S) o' sub [])
          = fieldValue e o name args type (fun o' => evalSels e o' sub []) := by
        have hc := completeWith_congr e.data (fun o' => evalSels (e.withSchema S) o' sub [])
          (fun o' => evalSels e o' sub []) (echoArgs (e.withSchema S) args) (echoArgs e args) hk
          (echoArgs_schema e S args) type
        have hd : (e.withSchema S).data = e.data := rfl
        unfold fieldValue
        simp only [storedValue_schema e S o name args h.1, hd, hc]
      rw [evalSel, evalSel]
      simp only [skipped_schema, hfv]
    | .inline cond pk pn dirs sub, o, acc, h => by
      simp only [concreteOnlySel, Bool.and_eq_true, beq_iff_eq] at h
      rw [evalSel, evalSel]
      rw [skipped_schema, applies_congr (e.withSchema S) e o cond h.1, evalSels_schema e S sub o acc h.2]
    | .spread n cond pk pn dirs sub, o, acc, h => by
      simp only [concreteOnlySel, Bool.and_eq_true, beq_iff_eq] at h
      rw [evalSel, evalSel]
      rw [skipped_schema, applies_congr (e.withSchema S) e o cond h.1, evalSels_schema e S sub o acc h.2]
  theorem evalSels_schema (e : Env) (S : Schema) : ∀ (ss : List Sel) (o : Obj) (acc : List (String × J)),
      concreteOnly (e.withSchema S).schema e.schema ss = true →
      evalSels (e.withSchema S) o ss acc = evalSels e o ss acc
    | [], _, _, _ => by rw [evalSels, evalSels]
    | s :: rest, o, acc, h => by
      simp only [concreteOnly, Bool.and_eq_true] at h
      rw [evalSels, evalSels, evalSel_schema e S s o acc h.1]
      cases evalSel e o s acc with
      | none => rfl
      | some acc' => exact evalSels_schema e S rest o acc' h.2
end

/-- **Splitting a selection set**: evaluating `a ++ b` is evaluating `a`, then `b` into the same
    response object — the decomposition the planner relies on when it hands different fields of
    one object to different services. -/
theorem evalSels_append (e : Env) (o : Obj) : ∀ (a b : List Sel) (acc : List (String × J)),
    evalSels e o (a ++ b) acc = (evalSels e o a acc).bind (fun acc' => evalSels e o b acc')
  | [], b, acc => by simp [evalSels]
  | s :: a, b, acc => by
    simp only [List.cons_append]
    rw [evalSels, evalSels]
    cases evalSel e o s acc with
    | none => rfl
    | some acc' => exact evalSels_append e o a b acc'

/-- **Lookup through `node(id: $id)`**: the planner's wrapper `node(id: $id) { ... on T { sels } }`
    evaluated at the Query root with `$id` bound to the id of an entity of type `T` (known to the
    service's schema) yields, under `node`, exactly what evaluating `sels` on that entity yields. -/
theorem eval_node_lookup (env : Env) (e : Entity) (sels : List Sel) (kvs : List (String × J))
    (he : env.data.entity? e.id = some e)
    (hid : J.lookup "id" env.vars = some (.str e.id))
    (hT : ∃ td, env.schema.type? e.type = some td ∧ td.kind = .object)
    (hk : evalSels env (.ent e.type e.id e.fields) sels [] = some kvs) :
    evalSels env (.root "Query") (convertToNodeQuery e.type sels) [] = some [("node", .obj kvs)] := by
  obtain ⟨td, htd, hkind⟩ := hT
  have hargs : argsToJ env [⟨"id", .var "id"⟩] = [("id", .str e.id)] := by
    simp [argsToJ, valueToJ, hid]
  have hstored : storedValue env (.root "Query") "node" [⟨"id", .var "id"⟩] = .ref e.id := by
    simp [storedValue, hargs, J.lookup, he, htd, hkind]
  have hinner : evalSel env (.ent e.type e.id e.fields) (.inline e.type .object "" [] sels) [] = some kvs := by
    rw [evalSel]
    simp [skipped, applies, Obj.typeName, hk]
  unfold convertToNodeQuery
  rw [evalSels, evalSel]
  simp only [skipped, List.any_nil, Bool.false_eq_true, ↓reduceIte, fieldValue, hstored]
  simp [completeWith, he, hinner, addKey, J.lookup, evalSels]

end PebblesVerif.Spec
