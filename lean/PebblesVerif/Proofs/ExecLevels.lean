import PebblesVerif.Model.ExecLevels
namespace PebblesVerif.Levels

theorem insertGroup_keys (groups : List (String × List Req)) (r : Req) :
    (insertGroup groups r).map (·.1) =
      if r.step.url ∈ groups.map (·.1) then groups.map (·.1) else groups.map (·.1) ++ [r.step.url] := by
  unfold insertGroup
  have hany : (groups.any (fun g => g.1 == r.step.url) = true) ↔ r.step.url ∈ groups.map (·.1) := by
    simp only [List.any_eq_true, beq_iff_eq, List.mem_map]
  by_cases h : r.step.url ∈ groups.map (·.1)
  · rw [if_pos (hany.mpr h), if_pos h, List.map_map]
    apply List.map_congr_left
    intro g _
    simp only [Function.comp]
    split <;> rfl
  · rw [if_neg (fun h' => h (hany.mp h')), if_neg h]
    simp

/-- keys of the partition: no service twice, exactly the services of the requests -/
theorem partition_keys (rs : List Req) (init : List (String × List Req))
    (hn : (init.map (·.1)).Nodup) :
    ((rs.foldl insertGroup init).map (·.1)).Nodup ∧
      ∀ u, u ∈ (rs.foldl insertGroup init).map (·.1) ↔ (u ∈ init.map (·.1) ∨ ∃ r ∈ rs, r.step.url = u) := by
  induction rs generalizing init with
  | nil => exact ⟨hn, by simp⟩
  | cons r rs ih =>
    have hk := insertGroup_keys init r
    have hn' : ((insertGroup init r).map (·.1)).Nodup := by
      rw [hk]; split
      · exact hn
      · rename_i hnot
        rw [List.nodup_append]
        refine ⟨hn, by simp, ?_⟩
        intro a ha b hb; simp at hb; subst hb
        intro hab; subst hab; exact hnot ha
    obtain ⟨h1, h2⟩ := ih (insertGroup init r) hn'
    refine ⟨h1, ?_⟩
    intro u
    simp only [List.foldl_cons]
    rw [h2 u, hk]
    constructor
    · rintro (h | ⟨r', hr', hu⟩)
      · split at h
        · exact Or.inl h
        · simp only [List.mem_append, List.mem_singleton] at h
          rcases h with h | h
          · exact Or.inl h
          · exact Or.inr ⟨r, List.mem_cons_self .., h.symm⟩
      · exact Or.inr ⟨r', List.mem_cons_of_mem _ hr', hu⟩
    · rintro (h | ⟨r', hr', hu⟩)
      · left; split
        · exact h
        · exact List.mem_append_left _ h
      · rcases List.mem_cons.mp hr' with heq | hin
        · subst heq; left; split
          · rename_i hm; rw [← hu]; exact hm
          · rw [← hu]; simp
        · exact Or.inr ⟨r', hin, hu⟩

theorem levelCalls_nodup (rs : List Req) : (levelCalls rs).Nodup :=
  (partition_keys rs [] (by simp)).1

theorem mem_levelCalls (rs : List Req) (u : String) :
    u ∈ levelCalls rs ↔ ∃ r ∈ rs, r.step.url = u := by
  have := (partition_keys rs [] (by simp)).2 u
  simpa [levelCalls, partitionBy] using this

theorem count_levelCalls_le (rs : List Req) (u : String) : (levelCalls rs).count u ≤ 1 :=
  List.nodup_iff_count.mp (levelCalls_nodup rs) u

theorem child_mem_stepsAt (roots : List Step) (d : Nat) (s c : Step)
    (hs : s ∈ stepsAt roots d) (hc : c ∈ s.thens) : c ∈ stepsAt roots (d + 1) := by
  simp only [stepsAt, List.mem_flatMap]
  exact ⟨s, hs, hc⟩

theorem run_bound (roots : List Step) (next : Nat → List Req → List Req)
    (hnext : ∀ d rs r', r' ∈ next d rs → ∃ r ∈ rs, r'.step ∈ r.step.thens) (u : String) :
    ∀ (fuel d : Nat) (rs : List Req), (∀ r ∈ rs, r.step ∈ stepsAt roots d) →
      (run next fuel d rs).flatten.count u ≤ ((List.range' d fuel).filter (owns roots u)).length := by
  intro fuel
  induction fuel with
  | zero => intro d rs _; simp [run]
  | succ fuel ih =>
    intro d rs hrs
    simp only [run]
    split
    · simp
    · have hnx : ∀ r' ∈ next d rs, r'.step ∈ stepsAt roots (d + 1) := by
        intro r' hr'
        obtain ⟨r, hr, hc⟩ := hnext d rs r' hr'
        exact child_mem_stepsAt roots d r.step r'.step (hrs r hr) hc
      have h1 := ih (d + 1) (next d rs) hnx
      have h2 := count_levelCalls_le rs u
      simp only [List.flatten_cons, List.count_append, List.range'_succ, List.filter_cons]
      by_cases ho : owns roots u d = true
      · simp only [ho, if_true, List.length_cons]; omega
      · have hz : (levelCalls rs).count u = 0 := by
          apply List.count_eq_zero.mpr
          intro hm
          obtain ⟨r, hr, hu⟩ := (mem_levelCalls rs u).mp hm
          apply ho
          simp only [owns, List.any_eq_true, beq_iff_eq]
          exact ⟨r.step, hrs r hr, hu⟩
        simp only [ho]
        simp only [Bool.false_eq_true, if_false]
        omega

end PebblesVerif.Levels
