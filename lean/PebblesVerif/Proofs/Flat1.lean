import PebblesVerif.Model.Exec
import PebblesVerif.Proofs.OneHop
/-!
End-to-end proof for the "one object, two owners" family (C01_flat_one_hop), stage by stage.

Family: root field `q` of Node type `T` owned by service `A`; the client selects any list of
distinct leaf fields of `T`, each owned by `A` or by `B`. Unbounded in the number of fields, in the
way they are split and interleaved, and in the data.
-/
namespace PebblesVerif.Flat
open PebblesVerif PebblesVerif.Exec

/-- a leaf field as the parser hands it over: alias = name, no arguments, no directives -/
def leaf (n : String) (t : TypeRef) : Sel := .field n n [] [] t [] []

/-- the client's leaf fields: (name, declared type, owned by B?) -/
abbrev FieldSpec := String × TypeRef × Bool

def leaves (fs : List FieldSpec) : List Sel := fs.map (fun f => leaf f.1 f.2.1)
def namesOf (fs : List FieldSpec) : List String := fs.map (·.1)

theorem hasFieldAliased_leaves (fs : List FieldSpec) (a : String) :
    hasFieldAliased (leaves fs) a = (namesOf fs).contains a := by
  induction fs with
  | nil => rfl
  | cons f fs ih =>
    simp only [leaves, List.map_cons, hasFieldAliased, List.any_cons, leaf, namesOf, List.contains_cons] at ih ⊢
    rw [ih]
    rw [Bool.beq_comm]

theorem merge_nil (sf : Scrub) : sf.merge [] = sf := rfl

/-- sanitising a list of distinct leaf fields keeps them, in order, with no scrub entries -/
theorem sanitize_leaves (c : PCtx) (ip : List String) : ∀ (fs done : List FieldSpec) (sf : Scrub),
    (namesOf (done ++ fs)).Nodup →
    sanitizeSelsAcc c ip (leaves fs) (leaves done) sf = .ok (leaves (done ++ fs), sf)
  | [], done, sf, _ => by simp [leaves, sanitizeSelsAcc]
  | f :: fs, done, sf, hnd => by
    have hnot : (namesOf done).contains f.1 = false := by
      simp only [namesOf, List.map_append, List.map_cons] at hnd
      rw [List.nodup_append] at hnd
      have := hnd.2.2
      simp only [List.contains_eq_mem, decide_eq_false_iff_not]
      intro hmem
      exact this f.1 hmem f.1 (by simp) rfl
    simp only [leaves, List.map_cons]
    rw [sanitizeSelsAcc]
    simp only [sanitizeSel, leaf, List.isEmpty_nil, ↓reduceIte, bind, Except.bind]
    have h1 : hasFieldAliased (leaves done) f.1 = false := by rw [hasFieldAliased_leaves]; exact hnot
    have hadd : addToResult (leaves done) [Sel.field f.1 f.1 [] [] f.2.1 [] []] = leaves (done ++ [f]) := by
      unfold addToResult
      simp only [List.filter_cons, h1, Bool.not_false, ↓reduceIte, List.filter_nil]
      simp only [leaves, List.map_append, List.map_cons, List.map_nil, leaf]
    have := sanitize_leaves c ip fs (done ++ [f]) sf (by simpa [List.append_assoc] using hnd)
    simp only [leaves, leaf, List.append_assoc, List.cons_append, List.nil_append] at this hadd ⊢
    rw [hadd, merge_nil]
    exact this

/-- the hypotheses about the object type `T` and its leaf fields (shared with the mutation family
    of C06: nothing here mentions the root type) -/
structure FamT (c : PCtx) (A B T q : String) (fs : List FieldSpec) : Prop where
  hAB : A ≠ B
  hTroot : isRootName T = false
  hne : fs ≠ []
  hnd : (namesOf fs).Nodup
  hfb : ∀ n ∈ namesOf fs, isBuiltinName n = false
  hfid : ∀ n ∈ namesOf fs, n ≠ "id"
  hschemaT : ∃ td, c.schema.type? T = some td ∧ td.kind = .object
  tumTn : c.tum.isNode? T = some true
  tumTid : c.tum.get? T "id" = none
  tumTf : ∀ f ∈ fs, c.tum.get? T f.1 = some (if f.2.2 then B else A)

/-- the hypotheses describing the family (what the merged schema and the routing table say) -/
structure Fam (c : PCtx) (A B T q : String) (fs : List FieldSpec) : Prop extends FamT c A B T q fs where
  hAint : A ≠ internalService
  hBint : B ≠ internalService
  hqb : isBuiltinName q = false
  hqn : q ≠ "node"
  hschemaQ : ∃ td, c.schema.type? "Query" = some td ∧ td.kind = .object
  tumQn : c.tum.isNode? "Query" = some false
  tumQq : c.tum.get? "Query" q = some A
  hurlsA : A ∈ c.tum.urls
  hurlsNd : c.tum.urls.Nodup
  hkind : c.opKind = .query
  hname : c.opName = ""

/-- the client's root field and its sanitised form -/
def Q (T q : String) (fs : List FieldSpec) : Sel := .field q q [] [] (.named T) [] (leaves fs)
def Q' (T q : String) (fs : List FieldSpec) : Sel := .field q q [] [] (.named T) [] (idField :: leaves fs)

theorem containsField_leaves (fs : List FieldSpec) (n : String) : containsField n (leaves fs) = (namesOf fs).contains n := by
  induction fs with
  | nil => rfl
  | cons f fs ih =>
    simp only [leaves, List.map_cons, containsField, containsFieldSel, leaf, namesOf, List.contains_cons] at ih ⊢
    rw [ih, Bool.beq_comm]

theorem abstractDef_none {c : PCtx} {T : String} (h : ∃ td, c.schema.type? T = some td ∧ td.kind = .object) :
    abstractDef? c T = none := by
  obtain ⟨td, h1, h2⟩ := h
  simp [abstractDef?, h1, h2, isAbstractKind]

/-- **Stage 1 — sanitise**: `{ q { f… } }` becomes `{ q { id f… } }` and the helper `id` is
    registered for scrubbing at path `[q]` under type `T`. -/
theorem stage_sanitize {c : PCtx} {A B T q : String} {fs : List FieldSpec} (h : Fam c A B T q fs) :
    sanitizeSels c [] [Q T q fs] = .ok ([Q' T q fs], [([q], [(T, ["id"])])]) := by
  have hleaves : sanitizeSelsAcc c ([] ++ [q]) (leaves fs) [] [] = .ok (leaves fs, []) :=
    sanitize_leaves c ([] ++ [q]) fs [] [] (by simpa using h.hnd)
  have hempty : (leaves fs).isEmpty = false := by
    cases hfs : fs with
    | nil => exact absurd hfs h.hne
    | cons a b => simp [leaves]
  have hnoid : containsField "id" (leaves fs) = false := by
    rw [containsField_leaves]
    simp only [List.contains_eq_mem, decide_eq_false_iff_not]
    intro hm; exact h.hfid "id" hm rfl
  unfold sanitizeSels
  rw [sanitizeSelsAcc]
  simp only [Q, sanitizeSel, hempty, Bool.false_eq_true, ↓reduceIte, bind, Except.bind]
  rw [hleaves]
  simp only [addScrubFields, TypeRef.name, abstractDef_none h.hschemaT, h.tumTn, Option.getD_some, ↓reduceIte,
    withId, hnoid, Bool.false_eq_true]
  simp [sanitizeSelsAcc, addToResult, hasFieldAliased, setMissing, h.hschemaT, Scrub.merge, Scrub.set, Q']
  obtain ⟨td, h1, h2⟩ := h.hschemaT
  simp [h1, h2, isAbstractKind, Scrub.set]

end PebblesVerif.Flat
