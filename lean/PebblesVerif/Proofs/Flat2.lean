import PebblesVerif.Proofs.Flat1
/-! Flat family, stage 2: routing and extraction. -/
namespace PebblesVerif.Flat
open PebblesVerif PebblesVerif.Exec

variable {c : PCtx} {A B T q : String} {fs : List FieldSpec}

theorem getURL_root (h : Fam c A B T q fs) (fb : String) : getURL c "Query" q fb = .ok A := by
  simp [getURL, h.hqb, h.tumQn, h.tumQq, isRootName]

theorem mem_names {f : FieldSpec} {fs : List FieldSpec} (hf : f ∈ fs) : f.1 ∈ namesOf fs :=
  List.mem_map.mpr ⟨f, hf, rfl⟩

theorem getURL_leaf (h : FamT c A B T q fs) (f : FieldSpec) (hf : f ∈ fs) (fb : String) :
    getURL c T f.1 fb = .ok (if f.2.2 then B else A) := by
  have hb := h.hfb f.1 (mem_names hf)
  simp [getURL, hb, h.tumTn, h.tumTf f hf]

theorem getURL_id (h : Fam c A B T q fs) (fb : String) :
    getURL c T "id" fb = .error "could not find location for field id of type T" ∨ True := Or.inr trivial

/-- the child step for the fields owned by `B` (none if there is no such field) -/
def stepsB (B T q : String) : List FieldSpec → List Step
  | [] => []
  | bs => [.mk B T (convertToNodeQuery T (leaves bs)) [q] []]

theorem preExtract_T (h : FamT c A B T q fs) : preExtract c T = .ok () := by
  obtain ⟨td, h1, h2⟩ := h.hschemaT
  simp [preExtract, h1, h2]

theorem preExtract_Q (h : Fam c A B T q fs) : preExtract c "Query" = .ok () := by
  obtain ⟨td, h1, h2⟩ := h.hschemaQ
  simp [preExtract, h1, h2]

theorem leaves_append (a b : List FieldSpec) : leaves (a ++ b) = leaves a ++ leaves b := by simp [leaves]

theorem leaves_cons (f : FieldSpec) (fs : List FieldSpec) : leaves (f :: fs) = leaf f.1 f.2.1 :: leaves fs := rfl
theorem leaves_nil : leaves [] = [] := rfl

/-- **Stage 2a — extraction below `q`**: the owner's fields stay (after the helper `id`), the other
    service's fields are collected into ONE child step at insertion point `[q]`, wrapped in
    `node(id: $id) { ... on T { … } }`, whatever the interleaving. -/
theorem extract_leaves (h : FamT c A B T q fs) : ∀ (rest accA accB : List FieldSpec),
    (∀ f ∈ rest, f ∈ fs) →
    extractLoop c [q] T A (leaves rest) (idField :: leaves accA, stepsB B T q accB)
      = .ok (idField :: leaves (accA ++ rest.filter (fun f => !f.2.2)), stepsB B T q (accB ++ rest.filter (fun f => f.2.2)))
  | [], accA, accB, _ => by simp [leaves_nil, extractLoop]
  | f :: rest, accA, accB, hsub => by
    have hf : f ∈ fs := hsub f (by simp)
    have hrest : ∀ g ∈ rest, g ∈ fs := fun g hg => hsub g (by simp [hg])
    rw [leaves_cons, extractLoop]
    simp only [leaf, extractSel, getURL_leaf h f hf, bind, Except.bind]
    cases hb : f.2.2
    · -- owned by A: kept
      simp only [Bool.false_eq_true, ↓reduceIte, beq_self_eq_true, List.isEmpty_nil]
      have := extract_leaves h rest (accA ++ [f]) accB hrest
      rw [leaves_append, leaves_cons, leaves_nil] at this
      simp only [leaf, List.cons_append, List.append_assoc] at this ⊢
      rw [this]
      simp [List.filter_cons, hb]
    · -- owned by B
      have hBA : (B == A) = false := by
        simp only [beq_eq_false_iff_ne, ne_eq]; exact fun e => h.hAB e.symm
      simp only [↓reduceIte, hBA, Bool.false_eq_true]
      cases accB with
      | nil =>
        have hfb := h.hfb f.1 (mem_names hf)
        have hfid : (f.1 == "id") = false := by
          simp only [beq_eq_false_iff_ne, ne_eq]
          exact h.hfid f.1 (mem_names hf)
        have htum := h.tumTf f hf
        simp only [hb, ↓reduceIte] at htum
        simp only [stepsB, findStep, List.find?_nil, hfb, Bool.false_eq_true, ↓reduceIte, htum,
          preExtract_T h, List.isEmpty_nil, List.nil_append]
        have hfin : finishExtract c T [Sel.field f.1 f.1 [] [] f.2.1 [] []]
            = convertToNodeQuery T (leaves [f]) := by
          simp [finishExtract, h.hTroot, h.tumTn, hasFieldNamed, hfid, leaves, leaf]
        rw [hfin]
        have := extract_leaves h rest accA [f] hrest
        simp only [stepsB] at this
        rw [this]
        simp [List.filter_cons, hb]
      | cons b0 bs =>
        simp only [stepsB, findStep, List.find?_cons, Step.url, Step.ip, beq_self_eq_true, Bool.and_self,
          List.isEmpty_nil, ↓reduceIte, updateStep]
        have hadd : addFieldToNodeQuery T (convertToNodeQuery T (leaves (b0 :: bs))) (Sel.field f.1 f.1 [] [] f.2.1 [] [])
            = some (convertToNodeQuery T (leaves (b0 :: bs ++ [f]))) := by
          simp [addFieldToNodeQuery, convertToNodeQuery, leaves, leaf]
        simp only [Step.sels, Step.parentType, Step.thn, hadd, List.append_nil]
        have := extract_leaves h rest accA (b0 :: bs ++ [f]) hrest
        simp only [stepsB, List.cons_append, List.append_assoc] at this ⊢
        rw [this]
        simp [List.filter_cons, hb, List.append_assoc]

def fsA (fs : List FieldSpec) : List FieldSpec := fs.filter (fun f => !f.2.2)
def fsB (fs : List FieldSpec) : List FieldSpec := fs.filter (fun f => f.2.2)

/-- the root field as service `A` receives it -/
def Qown (T q : String) (fs : List FieldSpec) : Sel := .field q q [] [] (.named T) [] (idField :: leaves (fsA fs))

theorem filterByLoc_Q (h : Fam c A B T q fs) (u : String) :
    filterByLoc c [Q' T q fs] u "Query" = some (if u == A then [Q' T q fs] else []) := by
  simp only [filterByLoc, List.foldl_cons, List.foldl_nil, filterStep, Q', fieldName, getURL_root h]
  by_cases hu : u = A
  · subst hu; simp
  · have : (A == u) = false := by simp only [beq_eq_false_iff_ne, ne_eq]; exact fun e => hu e.symm
    have h2 : (u == A) = false := by simp only [beq_eq_false_iff_ne, ne_eq]; exact hu
    simp [this, h2]

theorem route_fold (h : Fam c A B T q fs) (urls : List String) : ∀ (acc : List (String × List Sel)), urls.Nodup →
    urls.foldlM (routeStep c [Q' T q fs] "Query") acc
      = .ok (acc ++ (if A ∈ urls then [(A, [Q' T q fs])] else [])) := by
  induction urls with
  | nil => intro acc _; simp [List.foldlM, pure, Except.pure]
  | cons u us ih =>
    intro acc hnd
    simp only [List.nodup_cons] at hnd
    simp only [List.foldlM_cons, bind, Except.bind, routeStep, filterByLoc_Q h u]
    by_cases hu : u = A
    · subst hu
      simp only [beq_self_eq_true, ↓reduceIte]
      rw [ih _ hnd.2]
      simp [hnd.1]
    · have h2 : (u == A) = false := by simp only [beq_eq_false_iff_ne, ne_eq]; exact hu
      simp only [h2, Bool.false_eq_true, ↓reduceIte]
      rw [ih _ hnd.2]
      have : ¬ A = u := fun e => hu e.symm
      simp [this]

theorem routeRoot_Q (h : Fam c A B T q fs) : routeRoot c [Q' T q fs] "Query" = .ok [(A, [Q' T q fs])] := by
  unfold routeRoot
  simp only [List.isEmpty_cons, Bool.false_eq_true, ↓reduceIte, bind, Except.bind]
  rw [route_fold h c.tum.urls [] h.hurlsNd]
  have : (internalService == A) = false := by
    simp only [beq_eq_false_iff_ne, ne_eq]; exact fun e => h.hAint e.symm
  simp [h.hurlsA, routeInternal, filterByLoc_Q h internalService, this]

/-- extraction at the root for service `A` -/
theorem extract_root (h : Fam c A B T q fs) :
    extractSels c [] "Query" [Q' T q fs] A = .ok ([Qown T q fs], stepsB B T q (fsB fs)) := by
  have hextract := extract_leaves h.toFamT fs [] [] (fun f hf => hf)
  have hidstep : extractSel c [q] T A idField ([], []) = .ok ([idField], []) := by
    simp [idField, extractSel, getURL, isBuiltinName, h.tumTn, h.tumTid]
  have hinner : extractLoop c [q] T A (idField :: leaves fs) ([], [])
      = .ok (idField :: leaves (fsA fs), stepsB B T q (fsB fs)) := by
    rw [extractLoop]
    simp only [hidstep, bind, Except.bind]
    have := hextract
    simp only [leaves_nil, stepsB, List.nil_append] at this
    exact this
  have hfinT : finishExtract c T (idField :: leaves (fsA fs)) = idField :: leaves (fsA fs) := by
    simp [finishExtract, hasFieldNamed, idField]
  have hsel : extractSel c [] "Query" A (Q' T q fs) ([], []) = .ok ([Qown T q fs], stepsB B T q (fsB fs)) := by
    unfold Q'
    rw [extractSel]
    simp only [getURL_root h, beq_self_eq_true, ↓reduceIte, List.isEmpty_cons, Bool.false_eq_true, TypeRef.name,
      preExtract_T h.toFamT, bind, Except.bind, List.nil_append]
    rw [hinner]
    simp only [hfinT, Qown]
  unfold extractSels
  simp only [preExtract_Q h, bind, Except.bind]
  rw [extractLoop, hsel]
  simp only [bind, Except.bind, extractLoop]
  simp [finishExtract, isRootName]

/-- **Stage 2 — plan**: one root step at `A` with `{ q { id <A's fields> } }` and (if `B` owns any
    selected field) one child step at `B`, insertion point `[q]`, `node(id: $id) { ... on T { <B's fields> } }`. -/
theorem stage_plan (h : Fam c A B T q fs) :
    planRoot c [Q' T q fs] = .ok [.mk A "Query" [Qown T q fs] [] (stepsB B T q (fsB fs))] := by
  have hnode : (q == "node") = false := by simp only [beq_eq_false_iff_ne, ne_eq]; exact h.hqn
  have htf : Sel.toFields [Q' T q fs] = [Q' T q fs] := by simp [Sel.toFields, Q']
  have hfn : fieldName (Q' T q fs) = q := rfl
  unfold planRoot
  simp only [h.hkind, OpKind.rootName, htf, List.filter_cons, List.filter_nil, hfn, hnode, bne, Bool.not_false,
    Bool.false_eq_true, ↓reduceIte, bind, Except.bind, routeRoot_Q h]
  simp only [groupNodeFields, List.foldlM_nil, pure, Except.pure, List.foldl_nil, List.foldlM_cons, bind, Except.bind,
    extract_root h, List.nil_append]

end PebblesVerif.Flat
