import PebblesVerif.Proofs.Flat2
import PebblesVerif.Props.C01
/-! Flat family, stage 3: execution (two depths), with the downstream as a parameter. -/
namespace PebblesVerif.Flat
open PebblesVerif PebblesVerif.Exec PebblesVerif.ResultOps

variable {c : PCtx} {A B T q : String} {fs : List FieldSpec}

/-- the realised insertion point of the object under `q` with id `i` -/
def pointQ (q i : String) : String := q ++ "#" ++ i

theorem extract_pointQ (q i : String) (hq1 : '#' ∉ q.toList) (hq2 : ':' ∉ q.toList) :
    Point.extract (pointQ q i) = .ok ⟨q, none, i⟩ := by
  unfold Point.extract pointQ
  have : (q ++ "#" ++ i).toList = q.toList ++ '#' :: i.toList := by
    simp [String.toList_append]
  rw [this, C01_point_roundtrip_obj q.toList i.toList hq1 hq2]
  simp [String.ofList_toList]

theorem isListElement_pointQ (q i : String) (hq2 : ':' ∉ q.toList) (hne : q.toList ≠ []) (hq1 : '#' ∉ q.toList) :
    Point.isListElement (pointQ q i) = false := by
  unfold Point.isListElement pointQ Point.isListElementL
  have hl : (q ++ "#" ++ i).toList = q.toList ++ '#' :: i.toList := by simp [String.toList_append]
  rw [hl]
  have hidx : (q.toList ++ '#' :: i.toList).idxOf? '#' = some q.toList.length := by
    generalize q.toList = l at hq1
    induction l with
    | nil => simp [List.idxOf?_cons]
    | cons x xs ih =>
      have hx : ¬ x = '#' := fun e => hq1 (by simp [e])
      have hxs : '#' ∉ xs := fun e => hq1 (by simp [e])
      simp [List.idxOf?_cons, hx, ih hxs]
  rw [hidx]
  have hpos : 0 < q.toList.length := by
    cases hq : q.toList with
    | nil => exact absurd hq hne
    | cons _ _ => simp
  simp only [hpos, ↓reduceIte, List.take_left']
  simpa using hq2

/-- the plan of stage 2 -/
def rootStep (A B T q : String) (fs : List FieldSpec) : Step :=
  .mk A "Query" [Qown T q fs] [] (stepsB B T q (fsB fs))

def rqOf (c : PCtx) (st : Step) (vars : List (String × J)) : Request :=
  { header := header c st, sels := st.sels, vars := vars, opName := stepOpName c st, key := queryKey c st }

/-- what service `A` answers: the object under `q` with its id and `A`'s fields -/
def respA (q i : String) (a : List (String × J)) : List (String × J) := [(q, .obj (("id", .str i) :: a))]

theorem buildBatch_root (c : PCtx) (st : Step) (hroot : isRootName st.parentType = true) :
    buildBatch c {} none [⟨st, []⟩] = .ok ([rqOf c st []], [some 0]) := by
  unfold buildBatch
  rw [buildBatch.go]
  simp only [getVariables, List.getLast?_nil, bind, Except.bind, isNeedToQuery, hroot, ↓reduceIte, Bool.not_true,
    Bool.false_eq_true, dedupKey, List.idxOf?_nil]
  rw [buildBatch.go]
  simp [rqOf]

theorem findIP_q (h : Fam c A B T q fs) (i : String) (a : List (String × J)) :
    findIP [q] [Qown T q fs] (respA q i a) [] = .ok [[pointQ q i]] := by
  have hfs : findSelection q [Qown T q fs] = some (Qown T q fs) := by
    exact findSelection_head q q [] [] _ [] _ [] q (by simp)
  unfold findIP findIPW
  rw [hfs]
  simp [respA, J.lookup, selType, Qown, TypeRef.isNonNull, TypeRef.isList, extractID, bind, Except.bind, fmtID,
    pointQ, findIPW]

theorem parseOne_root (h : Fam c A B T q fs) (i : String) (a : List (String × J)) :
    parseOne ⟨rootStep A B T q fs, []⟩ (respA q i a)
      = .ok (respA q i a, (stepsB B T q (fsB fs)).map (fun d => ⟨d, [pointQ q i]⟩)) := by
  unfold parseOne
  simp only [rootStep, Step.parentType, isRootName, beq_self_eq_true, Bool.true_or, ↓reduceIte, bind, Except.bind,
    Step.thn, Step.sels, List.length_nil]
  cases hB : fsB fs with
  | nil => simp [stepsB, pure, Except.pure]
  | cons b bs =>
    simp only [stepsB, List.foldlM_cons, List.foldlM_nil, Step.ip, List.drop_zero, findIP_q h i a, bind, Except.bind,
      pure, Except.pure, List.nil_append, List.map_cons, List.map_nil]

theorem mergeResult_root (r : List (String × J)) (k : String) (v : J) :
    mergeResult [] [] [(k, v)] = .ok [(k, v)] := by
  unfold mergeResult updateAt mergeInto
  cases v <;> simp [J.lookup, J.setKey]

/-- **Depth 0**: one batched call to `A`; its answer becomes the result; one follow-up request per
    child step, at the realised insertion point `q#<id>`. -/
theorem depth0 (h : Fam c A B T q fs) (down : Downstream) (i : String) (a : List (String × J))
    (hdown : down A [rqOf c (rootStep A B T q fs) []] = .ok [respA q i a]) :
    execDepth c {} none down [⟨rootStep A B T q fs, []⟩] ⟨[], []⟩
      = .ok (⟨respA q i a, [⟨A, [rqOf c (rootStep A B T q fs) []]⟩]⟩,
             (stepsB B T q (fsB fs)).map (fun d => ⟨d, [pointQ q i]⟩)) := by
  have hroot : isRootName (rootStep A B T q fs).parentType = true := by simp [rootStep, Step.parentType, isRootName]
  have hurl : (rootStep A B T q fs).url = A := rfl
  unfold execDepth
  simp only [partitionByURL, List.foldl_cons, List.foldl_nil, List.find?_nil, List.nil_append, hurl,
    List.foldlM_cons, List.foldlM_nil, bind, Except.bind, buildBatch_root c _ hroot, hdown, List.length_cons,
    List.length_nil, bne_self_eq_false, Bool.false_eq_true, ↓reduceIte, List.zip_cons_cons, List.zip_nil_right,
    List.getElem?_cons_zero, Option.getD_some, parseOne_root h i a, pure, Except.pure]
  simp [respA, mergeResult_root []]

/-- the child step of the plan when `B` owns the fields `bs ≠ []` -/
def stepB (B T q : String) (bs : List FieldSpec) : Step := .mk B T (convertToNodeQuery T (leaves bs)) [q] []

theorem buildBatch_child (h : FamT c A B T q fs) (bs : List FieldSpec) (i : String)
    (hq1 : '#' ∉ q.toList) (hq2 : ':' ∉ q.toList) (hine : i ≠ "") :
    buildBatch c {} none [⟨stepB B T q bs, [pointQ q i]⟩]
      = .ok ([rqOf c (stepB B T q bs) [("id", .str i)]], [some 0]) := by
  have hT : isRootName (stepB B T q bs).parentType = false := by simpa [stepB, Step.parentType] using h.hTroot
  unfold buildBatch
  rw [buildBatch.go]
  have hine' : (i == "") = false := by simpa using hine
  simp only [getVariables, List.getLast?_singleton, extract_pointQ q i hq1 hq2, bind, Except.bind, hine',
    Bool.false_eq_true, ↓reduceIte, J.setKey, isNeedToQuery, hT, dedupKey, Bool.not_false, List.idxOf?_nil]
  simp [buildBatch.go, rqOf]

theorem parseOne_child (h : FamT c A B T q fs) (bs : List FieldSpec) (p : String) (b : List (String × J)) :
    parseOne ⟨stepB B T q bs, [p]⟩ [("node", .obj b)] = .ok (b, []) := by
  have hT : isRootName (stepB B T q bs).parentType = false := by simpa [stepB, Step.parentType] using h.hTroot
  unfold parseOne
  simp only [hT, Bool.false_eq_true, ↓reduceIte, J.lookup, bind, Except.bind]
  simp [stepB, Step.thn, pure, Except.pure]

theorem mergeResult_child (q i : String) (a b : List (String × J))
    (hq1 : '#' ∉ q.toList) (hq2 : ':' ∉ q.toList) (hqne : q.toList ≠ [])
    (hbnd : (J.keys b).Nodup) (hdisj : ∀ k ∈ J.keys b, k ∉ J.keys (("id", J.str i) :: a)) :
    mergeResult (respA q i a) [pointQ q i] b = .ok [(q, .obj (("id", .str i) :: a ++ b))] := by
  unfold mergeResult
  rw [updateAt]
  simp only [extract_pointQ q i hq1 hq2, bind, Except.bind, isListElement_pointQ q i hq2 hqne hq1,
    Bool.false_eq_true, ↓reduceIte, respA, J.lookup, updateAt, J.setKey]
  rw [Spec.mergeInto_disjoint b _ hbnd hdisj]

theorem stepsB_eq (B T q : String) (b0 : FieldSpec) (bs : List FieldSpec) :
    stepsB B T q (b0 :: bs) = [stepB B T q (b0 :: bs)] := rfl

/-- **Depth 1**: one batched call to `B` with `$id` bound to the id found under `q`; its `node`
    object is merged into the object under `q`. -/
theorem depth1 (h : Fam c A B T q fs) (down : Downstream) (bs : List FieldSpec) (i : String)
    (a b : List (String × J)) (calls : List Call)
    (hq1 : '#' ∉ q.toList) (hq2 : ':' ∉ q.toList) (hqne : q.toList ≠ []) (hine : i ≠ "")
    (hdown : down B [rqOf c (stepB B T q bs) [("id", .str i)]] = .ok [[("node", .obj b)]])
    (hbnd : (J.keys b).Nodup) (hdisj : ∀ k ∈ J.keys b, k ∉ J.keys (("id", J.str i) :: a)) :
    execDepth c {} none down [⟨stepB B T q bs, [pointQ q i]⟩] ⟨respA q i a, calls⟩
      = .ok (⟨[(q, .obj (("id", .str i) :: a ++ b))],
               calls ++ [⟨B, [rqOf c (stepB B T q bs) [("id", .str i)]]⟩]⟩, []) := by
  have hurl : (stepB B T q bs).url = B := rfl
  unfold execDepth
  simp only [partitionByURL, List.foldl_cons, List.foldl_nil, List.find?_nil, List.nil_append, hurl,
    List.foldlM_cons, List.foldlM_nil, bind, Except.bind, buildBatch_child h.toFamT bs i hq1 hq2 hine, hdown,
    List.length_cons, List.length_nil, bne_self_eq_false, Bool.false_eq_true, ↓reduceIte, List.zip_cons_cons,
    List.zip_nil_right, List.getElem?_cons_zero, Option.getD_some, parseOne_child h.toFamT bs (pointQ q i) b,
    mergeResult_child q i a b hq1 hq2 hqne hbnd hdisj, pure, Except.pure, List.append_nil]

/-- the calls of one request: one to `A`; one to `B` (the follow-up lookup for the entity with id
    `i`) iff `B` owns a selected field -/
def callsOf (c : PCtx) (A B T q : String) (fs : List FieldSpec) (i : String) : List Call :=
  ⟨A, [rqOf c (rootStep A B T q fs) []]⟩ ::
    (match fsB fs with
     | [] => []
     | _ :: _ => [⟨B, [rqOf c (stepB B T q (fsB fs)) [("id", .str i)]]⟩])

/-- **Stage 3 — execute**: two depths (one if `B` owns nothing); the result is the object under `q`
    with the helper id, `A`'s answers, then `B`'s answers; the calls are `callsOf`. -/
theorem stage_execute_calls (h : Fam c A B T q fs) (down : Downstream) (i : String) (a b : List (String × J))
    (hq1 : '#' ∉ q.toList) (hq2 : ':' ∉ q.toList) (hqne : q.toList ≠ []) (hine : i ≠ "")
    (hA : down A [rqOf c (rootStep A B T q fs) []] = .ok [respA q i a])
    (hB : fsB fs ≠ [] → down B [rqOf c (stepB B T q (fsB fs)) [("id", .str i)]] = .ok [[("node", .obj b)]])
    (hb0 : fsB fs = [] → b = [])
    (hbnd : (J.keys b).Nodup) (hdisj : ∀ k ∈ J.keys b, k ∉ J.keys (("id", J.str i) :: a)) :
    execute c {} none down [rootStep A B T q fs] []
      = .ok ⟨[(q, .obj (("id", .str i) :: a ++ b))], callsOf c A B T q fs i⟩ := by
  have hd0 := depth0 h down i a hA
  unfold execute
  simp only [List.map_cons, List.map_nil]
  have hip : (rootStep A B T q fs).ip = [] := rfl
  rw [hip]
  cases hfb : fsB fs with
  | nil =>
    have hdepth : stepsDepth [rootStep A B T q fs] = 1 := by
      simp [stepsDepth, stepDepth, rootStep, hfb, stepsB]
    rw [hdepth, execLoop]
    simp only [List.isEmpty_cons, Bool.false_eq_true, ↓reduceIte, bind, Except.bind, hd0, hfb, stepsB,
      List.map_nil, execLoop]
    simp [respA, hb0 hfb, callsOf, hfb]
  | cons b0 bs =>
    have hdepth : stepsDepth [rootStep A B T q fs] = 2 := by
      simp [stepsDepth, stepDepth, rootStep, hfb, stepsB]
    have hB' := hB (by rw [hfb]; simp)
    rw [hfb] at hB'
    rw [hdepth, execLoop]
    simp only [List.isEmpty_cons, Bool.false_eq_true, ↓reduceIte, bind, Except.bind, hd0, hfb, stepsB_eq,
      List.map_cons, List.map_nil]
    rw [execLoop]
    simp only [List.isEmpty_cons, Bool.false_eq_true, ↓reduceIte, bind, Except.bind,
      depth1 h down (b0 :: bs) i a b _ hq1 hq2 hqne hine hB' hbnd hdisj, execLoop]
    simp [callsOf, hfb]

/-- **Stage 3 — execute** (the calls left unnamed). -/
theorem stage_execute (h : Fam c A B T q fs) (down : Downstream) (i : String) (a b : List (String × J))
    (hq1 : '#' ∉ q.toList) (hq2 : ':' ∉ q.toList) (hqne : q.toList ≠ []) (hine : i ≠ "")
    (hA : down A [rqOf c (rootStep A B T q fs) []] = .ok [respA q i a])
    (hB : fsB fs ≠ [] → down B [rqOf c (stepB B T q (fsB fs)) [("id", .str i)]] = .ok [[("node", .obj b)]])
    (hb0 : fsB fs = [] → b = [])
    (hbnd : (J.keys b).Nodup) (hdisj : ∀ k ∈ J.keys b, k ∉ J.keys (("id", J.str i) :: a)) :
    ∃ calls, execute c {} none down [rootStep A B T q fs] []
      = .ok ⟨[(q, .obj (("id", .str i) :: a ++ b))], calls⟩ :=
  ⟨_, stage_execute_calls h down i a b hq1 hq2 hqne hine hA hB hb0 hbnd hdisj⟩

end PebblesVerif.Flat
