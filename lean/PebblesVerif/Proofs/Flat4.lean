import PebblesVerif.Proofs.Flat3
/-! Flat family, stages 4–5: scrubbing, and the whole per-request pipeline with an abstract downstream. -/
namespace PebblesVerif.Flat
open PebblesVerif PebblesVerif.Exec PebblesVerif.ResultOps PebblesVerif.ScrubClean

variable {c : PCtx} {A B T q : String} {fs : List FieldSpec}

theorem eraseKey_not_mem {k : String} {l : List (String × J)} (h : k ∉ J.keys l) : J.eraseKey k l = l := by
  induction l with
  | nil => rfl
  | cons x xs ih =>
    obtain ⟨k', v⟩ := x
    simp only [J.keys, List.map_cons, List.mem_cons, not_or] at h
    have : ¬ k = k' := h.1
    simp only [J.eraseKey, this, ↓reduceIte]
    rw [ih (by simpa [J.keys] using h.2)]

/-- **Stage 4 — scrub**: exactly the helper `id` under `q` is removed. -/
theorem stage_scrub (T q i : String) (d : List (String × J))
    (hid : "id" ∉ J.keys d) (htn : "__typename" ∉ J.keys d) (hne : d ≠ []) :
    cleanAll [([q], [(T, ["id"])])] [(q, .obj (("id", .str i) :: d))] = [(q, .obj d)] := by
  have hlk : J.lookup "__typename" (("id", J.str i) :: d) = none := by
    simp only [J.lookup]
    rw [Spec.lookup_none_of_not_mem htn]
    simp
  have hdne : d.isEmpty = false := by
    cases d with
    | nil => exact absurd rfl hne
    | cons _ _ => rfl
  have hhere : cleanHere (("id", J.str i) :: d) [(T, ["id"])] = d := by
    unfold cleanHere
    rw [hlk]
    simp [J.eraseKey, eraseKey_not_mem hid]
  have hclean0 : clean [(T, ["id"])] [] (("id", J.str i) :: d) = (d, false) := by
    rw [clean_nil, hhere, hdne]
  have hlq : J.lookup q [(q, J.obj (("id", J.str i) :: d))] = some (J.obj (("id", J.str i) :: d)) := by
    simp [J.lookup]
  simp only [cleanAll, List.foldl_cons, List.foldl_nil, unhash, List.isEmpty_cons, Bool.false_eq_true, ↓reduceIte]
  rw [clean_cons, hlq]
  simp only [hclean0, Bool.false_eq_true, ↓reduceIte, J.setKey]

/-- **Stage 5 — the pipeline**: for every member of the family and every downstream that answers
    the two sub-requests with `A`'s and `B`'s shares, the gateway model returns the object under `q`
    with `A`'s answers followed by `B`'s — helper id removed, no errors — having made exactly the
    calls `callsOf`. -/
theorem stage_gateway_calls (h : Fam c A B T q fs) (down : Downstream) (i : String) (a b : List (String × J))
    (hq1 : '#' ∉ q.toList) (hq2 : ':' ∉ q.toList) (hqne : q.toList ≠ []) (hine : i ≠ "")
    (hA : down A [rqOf c (rootStep A B T q fs) []] = .ok [respA q i a])
    (hB : fsB fs ≠ [] → down B [rqOf c (stepB B T q (fsB fs)) [("id", .str i)]] = .ok [[("node", .obj b)]])
    (hb0 : fsB fs = [] → b = [])
    (hbnd : (J.keys b).Nodup) (hdisj : ∀ k ∈ J.keys b, k ∉ J.keys (("id", J.str i) :: a))
    (hid : "id" ∉ J.keys (a ++ b)) (htn : "__typename" ∉ J.keys (a ++ b)) (hne : a ++ b ≠ []) :
    gateway c {} ⟨.query, "", [], [Q T q fs]⟩ none down
      = .ok ⟨some [(q, .obj (a ++ b))], [], callsOf c A B T q fs i⟩ := by
  have hex := stage_execute_calls h down i a b hq1 hq2 hqne hine hA hB hb0 hbnd hdisj
  rw [gateway_noVarDefs _ _ _ _ _ _ rfl]
  unfold gatewayCore gatewayCoreWith plan
  simp only [stage_sanitize h, bind, Except.bind, stage_plan h]
  have : rootStep A B T q fs = .mk A "Query" [Qown T q fs] [] (stepsB B T q (fsB fs)) := rfl
  rw [← this, hex]
  simp only [id, List.cons_append]
  rw [stage_scrub T q i (a ++ b) hid htn hne]

/-- **Stage 5 — the pipeline** (the calls left unnamed). -/
theorem stage_gateway (h : Fam c A B T q fs) (down : Downstream) (i : String) (a b : List (String × J))
    (hq1 : '#' ∉ q.toList) (hq2 : ':' ∉ q.toList) (hqne : q.toList ≠ []) (hine : i ≠ "")
    (hA : down A [rqOf c (rootStep A B T q fs) []] = .ok [respA q i a])
    (hB : fsB fs ≠ [] → down B [rqOf c (stepB B T q (fsB fs)) [("id", .str i)]] = .ok [[("node", .obj b)]])
    (hb0 : fsB fs = [] → b = [])
    (hbnd : (J.keys b).Nodup) (hdisj : ∀ k ∈ J.keys b, k ∉ J.keys (("id", J.str i) :: a))
    (hid : "id" ∉ J.keys (a ++ b)) (htn : "__typename" ∉ J.keys (a ++ b)) (hne : a ++ b ≠ []) :
    ∃ calls, gateway c {} ⟨.query, "", [], [Q T q fs]⟩ none down
      = .ok ⟨some [(q, .obj (a ++ b))], [], calls⟩ :=
  ⟨_, stage_gateway_calls h down i a b hq1 hq2 hqne hine hA hB hb0 hbnd hdisj hid htn hne⟩

end PebblesVerif.Flat
