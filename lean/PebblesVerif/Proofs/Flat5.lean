import PebblesVerif.Proofs.Flat4
/-! Flat family, final step: the downstream is the reference evaluator at each service; the
gateway model's answer equals the single-server answer (up to the order of object keys). -/
namespace PebblesVerif.Flat
open PebblesVerif PebblesVerif.Exec PebblesVerif.ResultOps PebblesVerif.Spec

theorem plainFields_leaves (fs : List FieldSpec) : plainFields (leaves fs) = true := by
  induction fs with
  | nil => rfl
  | cons f fs ih => simp [leaves_cons, leaf, plainFields, ih]

theorem respKeys_leaves (fs : List FieldSpec) (hne : ∀ n ∈ namesOf fs, n ≠ "") : respKeys (leaves fs) = namesOf fs := by
  induction fs with
  | nil => rfl
  | cons f fs ih =>
    have h1 : f.1 ≠ "" := hne f.1 (by simp [namesOf])
    have h1' : (f.1 == "") = false := by simpa using h1
    simp only [respKeys, leaves_cons, List.map_cons, leaf, respKey, h1', Bool.false_eq_true, ↓reduceIte, namesOf] at ih ⊢
    rw [ih (fun n hn => hne n (by simp [namesOf] at hn ⊢; exact Or.inr hn))]

/-- the value of a leaf field on an object -/
def fval (e : Env) (o : Obj) (f : FieldSpec) : Option (String × J) :=
  (fieldValue e o f.1 [] f.2.1 (fun o' => evalSels e o' [] [])).map (f.1, ·)

/-- evaluating distinct leaf fields is evaluating each of them -/
theorem evalSels_leaves (e : Env) (o : Obj) : ∀ (fs : List FieldSpec), (namesOf fs).Nodup →
    (∀ n ∈ namesOf fs, n ≠ "") → evalSels e o (leaves fs) [] = fs.mapM (fval e o)
  | [], _, _ => by simp [leaves_nil, evalSels]
  | f :: rest, hnd, hne => by
    have h1 : f.1 ≠ "" := hne f.1 (by simp [namesOf])
    have h1' : (f.1 == "") = false := by simpa using h1
    have hrne : ∀ n ∈ namesOf rest, n ≠ "" := fun n hn => hne n (by simp [namesOf] at hn ⊢; exact Or.inr hn)
    simp only [namesOf, List.map_cons, List.nodup_cons] at hnd
    rw [leaves_cons, evalSels]
    simp only [leaf, evalSel, skipped, List.any_nil, Bool.false_eq_true, ↓reduceIte, h1']
    simp only [List.mapM_cons, fval, bind, Option.bind, pure]
    cases hv : fieldValue e o f.1 [] f.2.1 (fun o' => evalSels e o' [] []) with
    | none => simp
    | some v =>
      simp only [Option.map_some]
      have hacc := evalSels_acc e o (leaves rest) (addKey [] f.1 v) (plainFields_leaves rest)
        (by rw [respKeys_leaves rest hrne]; exact hnd.2)
        (by
          intro k hk
          rw [respKeys_leaves rest hrne] at hk
          simp only [addKey, J.lookup, List.nil_append, J.keys, List.map_cons, List.map_nil, List.mem_singleton]
          intro heq; subst heq; exact hnd.1 hk)
      rw [hacc, evalSels_leaves e o rest hnd.2 hrne]
      cases rest.mapM (fval e o) with
      | none => rfl
      | some r => simp [addKey, J.lookup, fval]

/-- splitting the fields by owner splits the answer (up to order) -/
theorem mapM_partition {α β} (g : α → Option β) (p : α → Bool) : ∀ (l : List α) (r : List β), l.mapM g = some r →
    ∃ ra rb, (l.filter p).mapM g = some ra ∧ (l.filter (fun x => !p x)).mapM g = some rb ∧ (ra ++ rb).Perm r
  | [], r, h => by
    simp only [List.mapM_nil, pure, Option.some.injEq] at h; subst h
    exact ⟨[], [], rfl, rfl, List.Perm.refl _⟩
  | x :: l, r, h => by
    simp only [List.mapM_cons, bind, Option.bind, pure] at h
    cases hx : g x with
    | none => simp [hx] at h
    | some y =>
      simp only [hx] at h
      cases hl : l.mapM g with
      | none => simp [hl] at h
      | some r0 =>
        simp only [hl, Option.some.injEq] at h
        subst h
        obtain ⟨ra, rb, h1, h2, hp⟩ := mapM_partition g p l r0 hl
        cases hpx : p x
        · refine ⟨ra, y :: rb, ?_, ?_, ?_⟩
          · simp [List.filter_cons, hpx, h1]
          · simp [List.filter_cons, hpx, List.mapM_cons, hx, h2, bind, Option.bind, pure]
          · exact (List.perm_middle).trans (List.Perm.cons y hp)
        · refine ⟨y :: ra, rb, ?_, ?_, ?_⟩
          · simp [List.filter_cons, hpx, List.mapM_cons, hx, h1, bind, Option.bind, pure]
          · simp [List.filter_cons, hpx, h2]
          · exact List.Perm.cons y hp

/-- the environment of one evaluation: schema `S`, the shared data, variables `vars` -/
def envOf (S : Schema) (D : Data) (vars : List (String × J)) : Env := ⟨S, D, vars, []⟩

theorem fval_keys (e : Env) (o : Obj) : ∀ (fs : List FieldSpec) (r : List (String × J)),
    fs.mapM (fval e o) = some r → J.keys r = namesOf fs
  | [], r, h => by simp only [List.mapM_nil, pure, Option.some.injEq] at h; subst h; rfl
  | f :: fs, r, h => by
    simp only [List.mapM_cons, bind, Option.bind, pure] at h
    cases hx : fval e o f with
    | none => simp [hx] at h
    | some y =>
      simp only [hx] at h
      cases hl : fs.mapM (fval e o) with
      | none => simp [hl] at h
      | some r0 =>
        simp only [hl, Option.some.injEq] at h
        subst h
        have hy : y.1 = f.1 := by
          unfold fval at hx
          cases hv : fieldValue e o f.1 [] f.2.1 (fun o' => evalSels e o' [] []) with
          | none => simp [hv] at hx
          | some v => simp [hv] at hx; rw [← hx]
        have ih := fval_keys e o fs r0 hl
        simp only [J.keys, namesOf] at ih
        simp [J.keys, namesOf, hy, ih]

/-- the value of a leaf on an ENTITY does not depend on the schema of the evaluating server -/
theorem fval_ent_schema (S₁ S₂ : Schema) (D : Data) (v₁ v₂ : List (String × J)) (t i : String)
    (flds : List (String × DVal)) (f : FieldSpec) :
    fval (envOf S₁ D v₁) (.ent t i flds) f = fval (envOf S₂ D v₂) (.ent t i flds) f := by
  unfold fval fieldValue
  have hk : ∀ o', evalSels (envOf S₁ D v₁) o' [] [] = evalSels (envOf S₂ D v₂) o' [] [] := by
    intro o'; rw [evalSels, evalSels]
  have hc := completeWith_congr D (fun o' => evalSels (envOf S₁ D v₁) o' [] []) (fun o' => evalSels (envOf S₂ D v₂) o' [] [])
    (echoArgs (envOf S₁ D v₁) []) (echoArgs (envOf S₂ D v₂) []) hk (by intro j; simp [echoArgs]) f.2.1
  simp only [envOf, storedValue] at hc ⊢
  simp only [hc]

theorem mapM_congr {α β} {g₁ g₂ : α → Option β} (l : List α) (h : ∀ x, g₁ x = g₂ x) : l.mapM g₁ = l.mapM g₂ := by
  have : g₁ = g₂ := funext h
  rw [this]

/-- evaluating `{ q { sub } }` at the Query root when `q` refers to entity `e` -/
theorem eval_root_q (env : Env) (T q : String) (e : Entity) (sub : List Sel)
    (hqb : isBuiltinName q = false) (hqn : q ≠ "node") (hqne : q ≠ "")
    (hroot : dlookup q (env.data.root "Query") = some (.ref e.id)) (hent : env.data.entity? e.id = some e) :
    evalSels env (.root "Query") [.field q q [] [] (.named T) [] sub] []
      = some [(q, match evalSels env (.ent e.type e.id e.fields) sub [] with
                  | some kvs => .obj kvs
                  | none => .null)] := by
  have hq1 : (q == "__typename") = false := by
    simp only [beq_eq_false_iff_ne, ne_eq]; intro h; subst h; simp [isBuiltinName] at hqb
  have hq2 : (q == "node") = false := by simpa using hqn
  have hq3 : (q == "") = false := by simpa using hqne
  rw [evalSels, evalSel]
  simp only [skipped, List.any_nil, Bool.false_eq_true, ↓reduceIte, fieldValue, hq1, hq3]
  have hst : storedValue env (.root "Query") q [] = .ref e.id := by
    simp [storedValue, hq2, hroot]
  simp only [hst, completeWith, hent]
  cases evalSels env (.ent e.type e.id e.fields) sub [] <;> simp [addKey, J.lookup, evalSels]

theorem mapM_length {α β} (g : α → Option β) : ∀ (l : List α) (r : List β), l.mapM g = some r → r.length = l.length
  | [], r, h => by simp only [List.mapM_nil, pure, Option.some.injEq] at h; subst h; rfl
  | x :: l, r, h => by
    simp only [List.mapM_cons, bind, Option.bind, pure] at h
    cases hx : g x with
    | none => simp [hx] at h
    | some y =>
      simp only [hx] at h
      cases hl : l.mapM g with
      | none => simp [hl] at h
      | some r0 =>
        simp only [hl, Option.some.injEq] at h
        subst h
        simp [mapM_length g l r0 hl]

theorem fst_inj_of_nodup : ∀ (fs : List FieldSpec), (namesOf fs).Nodup → ∀ f1 ∈ fs, ∀ f2 ∈ fs, f1.1 = f2.1 → f1 = f2
  | [], _, f1, h1, _, _, _ => by cases h1
  | f :: fs, hnd, f1, h1, f2, h2, heq => by
    simp only [namesOf, List.map_cons, List.nodup_cons] at hnd
    simp only [List.mem_cons] at h1 h2
    rcases h1 with rfl | h1 <;> rcases h2 with rfl | h2
    · rfl
    · exact absurd (List.mem_map.mpr ⟨f2, h2, heq.symm⟩) hnd.1
    · exact absurd (List.mem_map.mpr ⟨f1, h1, heq⟩) hnd.1
    · exact fst_inj_of_nodup fs hnd.2 f1 h1 f2 h2 heq

theorem filter_not_not (fs : List FieldSpec) :
    fs.filter (fun x => !(fun f : FieldSpec => !f.2.2) x) = fs.filter (fun f => f.2.2) := by
  congr 1; funext x; simp

/-- **C01 on the flat one-hop family**, with the calls spelled out (`callsOf`). See
    `Props/C01Flat.lean` (`C01_flat_one_hop`) for the statement in words. -/
theorem flat_one_hop_calls {c : PCtx} {A B T q : String} {fs : List FieldSpec} (h : Fam c A B T q fs)
    (svcs : List Svc) (SA SB : Schema) (D : Data) (e : Entity) (r : List (String × J))
    (hq1 : '#' ∉ q.toList) (hq2 : ':' ∉ q.toList) (hqne : q ≠ "") (hine : e.id ≠ "")
    (hnne : ∀ n ∈ namesOf fs, n ≠ "")
    (hsA : svcs.find? (·.url == A) = some ⟨A, SA⟩) (hsB : svcs.find? (·.url == B) = some ⟨B, SB⟩)
    (hSB : ∃ td, SB.type? T = some td ∧ td.kind = .object)
    (hroot : dlookup q (D.root "Query") = some (.ref e.id)) (hent : D.entity? e.id = some e) (hty : e.type = T)
    (href : Spec.eval c.schema D ⟨.query, "", [], [Q T q fs]⟩ [] = some (.obj [(q, .obj r)])) :
    ∃ d, gateway c {} ⟨.query, "", [], [Q T q fs]⟩ none (specDownstream svcs D)
        = .ok ⟨some [(q, .obj d)], [], callsOf c A B T q fs e.id⟩ ∧ d.Perm r := by
  have hqne' : q.toList ≠ [] := by
    intro hnil; apply hqne; rw [← String.ofList_toList (s := q), hnil]
  -- the reference answer, field by field
  have hrefM : evalSels (envOf c.schema D []) (.ent e.type e.id e.fields) (leaves fs) [] = some r := by
    unfold Spec.eval at href
    simp only [OpKind.rootName, Q] at href
    have := eval_root_q (envOf c.schema D []) T q e (leaves fs) h.hqb h.hqn hqne hroot hent
    simp only [envOf] at this
    rw [this] at href
    cases hr : evalSels ⟨c.schema, D, [], []⟩ (.ent e.type e.id e.fields) (leaves fs) [] with
    | none => simp [hr] at href
    | some kvs => simp [hr] at href; subst href; simpa only [envOf] using hr
  rw [evalSels_leaves _ _ fs h.hnd hnne] at hrefM
  obtain ⟨ra, rb, hra, hrb, hperm⟩ := mapM_partition (fval (envOf c.schema D []) (.ent e.type e.id e.fields))
    (fun f => !f.2.2) fs r hrefM
  rw [filter_not_not] at hrb
  have hra' : (fsA fs).mapM (fval (envOf c.schema D []) (.ent e.type e.id e.fields)) = some ra := hra
  have hrb' : (fsB fs).mapM (fval (envOf c.schema D []) (.ent e.type e.id e.fields)) = some rb := hrb
  -- names of the two shares
  have hsubA : (namesOf (fsA fs)).Sublist (namesOf fs) := List.Sublist.map _ List.filter_sublist
  have hsubB : (namesOf (fsB fs)).Sublist (namesOf fs) := List.Sublist.map _ List.filter_sublist
  have hndA : (namesOf (fsA fs)).Nodup := h.hnd.sublist hsubA
  have hndB : (namesOf (fsB fs)).Nodup := h.hnd.sublist hsubB
  have hnneA : ∀ n ∈ namesOf (fsA fs), n ≠ "" := fun n hn => hnne n (hsubA.subset hn)
  have hnneB : ∀ n ∈ namesOf (fsB fs), n ≠ "" := fun n hn => hnne n (hsubB.subset hn)
  have hkA : J.keys ra = namesOf (fsA fs) := fval_keys _ _ _ _ hra'
  have hkB : J.keys rb = namesOf (fsB fs) := fval_keys _ _ _ _ hrb'
  have hAB : ∀ n, n ∈ namesOf (fsA fs) → n ∈ namesOf (fsB fs) → False := by
    intro n hnA hnB
    simp only [namesOf, fsA, fsB, List.mem_map, List.mem_filter] at hnA hnB
    obtain ⟨f1, ⟨hf1, hp1⟩, hn1⟩ := hnA
    obtain ⟨f2, ⟨hf2, hp2⟩, hn2⟩ := hnB
    have : f1 = f2 := fst_inj_of_nodup fs h.hnd f1 hf1 f2 hf2 (hn1.trans hn2.symm)
    subst this; simp_all
  -- what service A answers
  have hvalA : evalSels (envOf SA D []) (.ent e.type e.id e.fields) (leaves (fsA fs)) [] = some ra := by
    rw [evalSels_leaves _ _ _ hndA hnneA, ← hra']
    exact mapM_congr _ (fun f => fval_ent_schema SA c.schema D [] [] _ _ _ f)
  have hownA : evalSels (envOf SA D []) (.ent e.type e.id e.fields) (idField :: leaves (fsA fs)) []
      = some (("id", .str e.id) :: ra) := by
    have hid0 : evalSel (envOf SA D []) (.ent e.type e.id e.fields) idField [] = some [("id", .str e.id)] := by
      have : (e.id != "") = true := by simpa using hine
      simp [idField, evalSel, skipped, fieldValue, this, addKey, J.lookup]
    rw [evalSels, hid0]
    simp only
    rw [evalSels_acc _ _ (leaves (fsA fs)) _ (plainFields_leaves _) (by rw [respKeys_leaves _ hnneA]; exact hndA) (by
      intro k hk
      rw [respKeys_leaves _ hnneA] at hk
      simp only [J.keys, List.map_cons, List.map_nil, List.mem_singleton]
      intro heq; subst heq; exact h.hfid "id" (hsubA.subset hk) rfl), hvalA]
    simp
  have hA : specDownstream svcs D A [rqOf c (rootStep A B T q fs) []] = .ok [respA q e.id ra] := by
    have hhdr : (header c (rootStep A B T q fs)).kind = .query := by
      simp [header, rootStep, Step.ip, h.hkind]
    have hnm : (header c (rootStep A B T q fs)).name = none := by
      simp [header, rootStep, Step.ip, h.hname]
    have hev := eval_root_q (envOf SA D []) T q e (idField :: leaves (fsA fs)) h.hqb h.hqn hqne hroot hent
    rw [hownA] at hev
    have hsels : (rootStep A B T q fs).sels = [.field q q [] [] (.named T) [] (idField :: leaves (fsA fs))] := rfl
    simp only [specDownstream, hsA, rqOf, List.map_cons, List.map_nil, hhdr, hnm, Option.getD_none, Spec.eval,
      OpKind.rootName, hsels]
    simp only [envOf] at hev
    rw [hev]
    simp [respA]
  -- what service B answers
  have hvalB : evalSels (envOf SB D [("id", .str e.id)]) (.ent e.type e.id e.fields) (leaves (fsB fs)) [] = some rb := by
    rw [evalSels_leaves _ _ _ hndB hnneB, ← hrb']
    exact mapM_congr _ (fun f => fval_ent_schema SB c.schema D _ [] _ _ _ f)
  have hB : fsB fs ≠ [] → specDownstream svcs D B [rqOf c (stepB B T q (fsB fs)) [("id", .str e.id)]]
      = .ok [[("node", .obj rb)]] := by
    intro _
    have hhdr : (header c (stepB B T q (fsB fs))).kind = .query := by simp [header, stepB, Step.ip]
    have hnm : (header c (stepB B T q (fsB fs))).name = none := by simp [header, stepB, Step.ip]
    have hnl := eval_node_lookup (envOf SB D [("id", .str e.id)]) e (leaves (fsB fs)) rb hent
      (by simp [envOf, J.lookup]) (by rw [hty]; exact hSB) hvalB
    have hsels : (stepB B T q (fsB fs)).sels = convertToNodeQuery T (leaves (fsB fs)) := rfl
    simp only [specDownstream, hsB, rqOf, List.map_cons, List.map_nil, hhdr, hnm, Option.getD_none, Spec.eval,
      OpKind.rootName, hsels]
    rw [hty] at hnl
    simp only [envOf] at hnl
    rw [hnl]
    simp
  have hb0 : fsB fs = [] → rb = [] := by
    intro hnil; rw [hnil] at hrb'; simpa using hrb'.symm
  -- side conditions on keys
  have hbnd : (J.keys rb).Nodup := by rw [hkB]; exact hndB
  have hdisj : ∀ k ∈ J.keys rb, k ∉ J.keys (("id", J.str e.id) :: ra) := by
    intro k hk
    rw [hkB] at hk
    simp only [J.keys, List.map_cons, List.mem_cons, not_or]
    refine ⟨fun heq => h.hfid k (hsubB.subset hk) heq, ?_⟩
    have := hkA; simp only [J.keys] at this; rw [this]
    exact fun hkA' => hAB k hkA' hk
  have hkeysAB : ∀ k ∈ J.keys (ra ++ rb), k ∈ namesOf fs := by
    intro k hk
    rw [keys_append, hkA, hkB] at hk
    simp only [List.mem_append] at hk
    rcases hk with hk | hk
    · exact hsubA.subset hk
    · exact hsubB.subset hk
  have hid : "id" ∉ J.keys (ra ++ rb) := fun hk => h.hfid "id" (hkeysAB _ hk) rfl
  have htn : "__typename" ∉ J.keys (ra ++ rb) := by
    intro hk
    have := h.hfb "__typename" (hkeysAB _ hk)
    simp [isBuiltinName] at this
  have hne : ra ++ rb ≠ [] := by
    intro hnil
    have hlen := hperm.length_eq
    rw [hnil, mapM_length _ fs r hrefM] at hlen
    have : fs = [] := by cases hfs : fs with | nil => rfl | cons _ _ => rw [hfs] at hlen; simp at hlen
    exact h.hne this
  have hg := stage_gateway_calls h (specDownstream svcs D) e.id ra rb hq1 hq2 hqne' hine hA hB hb0 hbnd hdisj hid htn hne
  exact ⟨ra ++ rb, hg, hperm⟩

/-- **C01 on the flat one-hop family** (the calls left unnamed). -/
theorem flat_one_hop {c : PCtx} {A B T q : String} {fs : List FieldSpec} (h : Fam c A B T q fs)
    (svcs : List Svc) (SA SB : Schema) (D : Data) (e : Entity) (r : List (String × J))
    (hq1 : '#' ∉ q.toList) (hq2 : ':' ∉ q.toList) (hqne : q ≠ "") (hine : e.id ≠ "")
    (hnne : ∀ n ∈ namesOf fs, n ≠ "")
    (hsA : svcs.find? (·.url == A) = some ⟨A, SA⟩) (hsB : svcs.find? (·.url == B) = some ⟨B, SB⟩)
    (hSB : ∃ td, SB.type? T = some td ∧ td.kind = .object)
    (hroot : dlookup q (D.root "Query") = some (.ref e.id)) (hent : D.entity? e.id = some e) (hty : e.type = T)
    (href : Spec.eval c.schema D ⟨.query, "", [], [Q T q fs]⟩ [] = some (.obj [(q, .obj r)])) :
    ∃ d calls, gateway c {} ⟨.query, "", [], [Q T q fs]⟩ none (specDownstream svcs D)
        = .ok ⟨some [(q, .obj d)], [], calls⟩ ∧ d.Perm r := by
  obtain ⟨d, hg, hp⟩ := flat_one_hop_calls h svcs SA SB D e r hq1 hq2 hqne hine hnne hsA hsB hSB hroot hent hty href
  exact ⟨d, _, hg, hp⟩

end PebblesVerif.Flat
