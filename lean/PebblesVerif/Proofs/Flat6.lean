import PebblesVerif.Proofs.Flat5
/-!
Non-vacuity of `flat_one_hop`: a concrete federation (two services, one `Animal` owned jointly)
meets every hypothesis, and the reference answer is the expected one.
-/
namespace PebblesVerif.Flat.Example
open PebblesVerif PebblesVerif.Exec PebblesVerif.Spec

def tStr : TypeRef := .named "String"
def animalT : TypeDef := { name := "Animal", kind := Kind.object, fields := [⟨"id", [], .nonNull (.named "ID"), none, "", []⟩, ⟨"name", [], tStr, none, "", []⟩, ⟨"age", [], tStr, none, "", []⟩, ⟨"sound", [], tStr, none, "", []⟩] }
def queryT (fs : List FieldDef) : TypeDef := { name := "Query", kind := Kind.object, fields := fs }
def merged : Schema := { types := [animalT, queryT [⟨"animal", [], .named "Animal", none, "", []⟩]], query := some "Query" }
def schemaA : Schema := merged
def schemaB : Schema := { types := [animalT, queryT []], query := some "Query" }
def tum : Tum := [("Query", ⟨[("animal", "A")], false⟩), ("Animal", ⟨[("name", "A"), ("age", "B"), ("sound", "A")], true⟩)]
def ctx : PCtx := ⟨merged, tum, .query, ""⟩
def fs : List FieldSpec := [("age", tStr, true), ("name", tStr, false), ("sound", tStr, false)]
/-- the entity id contains `#` (the path separator) on purpose: ids are arbitrary non-empty strings -/
def ent : Entity := ⟨"QW5pbWFs#1", "Animal", [("id", .scalar (.str "QW5pbWFs#1")), ("name", .scalar (.str "rex")), ("age", .scalar (.str "7")), ("sound", .null)]⟩
def data : Data := ⟨[ent], [("Query", [("animal", .ref "QW5pbWFs#1")])]⟩
def svcs : List Svc := [⟨"A", schemaA⟩, ⟨"B", schemaB⟩]

theorem fam : Fam ctx "A" "B" "Animal" "animal" fs where
  hAB := by decide
  hAint := by decide
  hBint := by decide
  hqb := by simp [isBuiltinName]
  hqn := by decide
  hTroot := by decide
  hne := by decide
  hnd := by decide
  hfb := by simp [namesOf, fs, isBuiltinName]
  hfid := by decide
  hschemaT := ⟨animalT, by rfl, rfl⟩
  hschemaQ := ⟨_, by rfl, rfl⟩
  tumQn := by rfl
  tumQq := by rfl
  tumTn := by rfl
  tumTid := by rfl
  tumTf := by decide
  hurlsA := by decide
  hurlsNd := by decide
  hkind := rfl
  hname := rfl

def expected : List (String × J) := [("age", .str "7"), ("name", .str "rex"), ("sound", .null)]

theorem reference : Spec.eval ctx.schema data ⟨.query, "", [], [Q "Animal" "animal" fs]⟩ [] = some (.obj [("animal", .obj expected)]) := by
  rfl

/-- the theorem applied: the gateway's answer for this federation is a permutation of `expected` -/
theorem applied : ∃ d calls, gateway ctx {} ⟨.query, "", [], [Q "Animal" "animal" fs]⟩ none (specDownstream svcs data)
    = .ok ⟨some [("animal", .obj d)], [], calls⟩ ∧ d.Perm expected :=
  flat_one_hop fam svcs schemaA schemaB data ent expected (by decide) (by decide) (by decide) (by decide)
    (by decide) (by rfl) (by rfl) ⟨animalT, by rfl, rfl⟩ (by rfl) (by rfl) rfl reference

end PebblesVerif.Flat.Example
