import PebblesVerif.Proofs.Flat5
/-!
End-to-end proof for the "LIST of objects, two owners" family (C01_flat_list_one_hop), stages 1–2:
sanitise and plan. The family is `Flat.Fam` (the hypotheses do not mention the declared type of the
root field); the root field `q` is declared `[T]`. Sanitiser and planner only look at the NAMED
type (`TypeRef.name`), so the stages are those of `Flat1`/`Flat2` with the list type carried along.
-/
namespace PebblesVerif.FlatList
open PebblesVerif PebblesVerif.Exec PebblesVerif.Flat

variable {c : PCtx} {A B T q : String} {fs : List FieldSpec}

/-- the client's root field `q : [T]` and its sanitised form -/
def QL (T q : String) (fs : List FieldSpec) : Sel := .field q q [] [] (.list (.named T)) [] (leaves fs)
def QL' (T q : String) (fs : List FieldSpec) : Sel := .field q q [] [] (.list (.named T)) [] (idField :: leaves fs)
/-- the root field as service `A` receives it -/
def QLown (T q : String) (fs : List FieldSpec) : Sel :=
  .field q q [] [] (.list (.named T)) [] (idField :: leaves (fsA fs))

/-- **Stage 1 — sanitise**: `{ q { f… } }` becomes `{ q { id f… } }` and the helper `id` is
    registered for scrubbing at path `[q]` under type `T` (the element type of the list). -/
theorem stage_sanitize (h : Fam c A B T q fs) :
    sanitizeSels c [] [QL T q fs] = .ok ([QL' T q fs], [([q], [(T, ["id"])])]) := by
  have hleaves : sanitizeSelsAcc c ([] ++ [q]) (leaves fs) [] [] = .ok (leaves fs, []) :=
    sanitize_leaves c ([] ++ [q]) fs [] [] (by simpa using h.hnd)
  have hempty : (leaves fs).isEmpty = false := by
    cases hfs : fs with
    | nil => exact absurd hfs h.hne
    | cons a b => simp [leaves]
  have hnoid : containsField "id" (leaves fs) = false := by
    rw [containsField_leaves]
    simp only [List.contains_eq_mem, decide_eq_false_iff_not]
    intro hm; exact h.hfid "id" hm rfl
  unfold sanitizeSels
  rw [sanitizeSelsAcc]
  simp only [QL, sanitizeSel, hempty, Bool.false_eq_true, ↓reduceIte, bind, Except.bind]
  rw [hleaves]
  simp only [addScrubFields, TypeRef.name, abstractDef_none h.hschemaT, h.tumTn, Option.getD_some, ↓reduceIte,
    withId, hnoid, Bool.false_eq_true]
  simp [sanitizeSelsAcc, addToResult, hasFieldAliased, setMissing, Scrub.merge, Scrub.set, QL']
  obtain ⟨td, h1, h2⟩ := h.hschemaT
  simp [h1, h2, isAbstractKind]

theorem filterByLoc_Q (h : Fam c A B T q fs) (u : String) :
    filterByLoc c [QL' T q fs] u "Query" = some (if u == A then [QL' T q fs] else []) := by
  simp only [filterByLoc, List.foldl_cons, List.foldl_nil, filterStep, QL', fieldName, getURL_root h]
  by_cases hu : u = A
  · subst hu; simp
  · have : (A == u) = false := by simp only [beq_eq_false_iff_ne, ne_eq]; exact fun e => hu e.symm
    have h2 : (u == A) = false := by simp only [beq_eq_false_iff_ne, ne_eq]; exact hu
    simp [this, h2]

theorem route_fold (h : Fam c A B T q fs) (urls : List String) : ∀ (acc : List (String × List Sel)), urls.Nodup →
    urls.foldlM (routeStep c [QL' T q fs] "Query") acc
      = .ok (acc ++ (if A ∈ urls then [(A, [QL' T q fs])] else [])) := by
  induction urls with
  | nil => intro acc _; simp [List.foldlM, pure, Except.pure]
  | cons u us ih =>
    intro acc hnd
    simp only [List.nodup_cons] at hnd
    simp only [List.foldlM_cons, bind, Except.bind, routeStep, filterByLoc_Q h u]
    by_cases hu : u = A
    · subst hu
      simp only [beq_self_eq_true, ↓reduceIte]
      rw [ih _ hnd.2]
      simp [hnd.1]
    · have h2 : (u == A) = false := by simp only [beq_eq_false_iff_ne, ne_eq]; exact hu
      simp only [h2, Bool.false_eq_true, ↓reduceIte]
      rw [ih _ hnd.2]
      have : ¬ A = u := fun e => hu e.symm
      simp [this]

theorem routeRoot_Q (h : Fam c A B T q fs) : routeRoot c [QL' T q fs] "Query" = .ok [(A, [QL' T q fs])] := by
  unfold routeRoot
  simp only [List.isEmpty_cons, Bool.false_eq_true, ↓reduceIte, bind, Except.bind]
  rw [route_fold h c.tum.urls [] h.hurlsNd]
  have : (internalService == A) = false := by
    simp only [beq_eq_false_iff_ne, ne_eq]; exact fun e => h.hAint e.symm
  simp [h.hurlsA, routeInternal, filterByLoc_Q h internalService, this]

/-- extraction at the root for service `A` (below `q` it is `Flat.extract_leaves`: the planner
    descends with `type.name = T`, whatever the list wrapping) -/
theorem extract_root (h : Fam c A B T q fs) :
    extractSels c [] "Query" [QL' T q fs] A = .ok ([QLown T q fs], stepsB B T q (fsB fs)) := by
  have hextract := extract_leaves h.toFamT fs [] [] (fun f hf => hf)
  have hidstep : extractSel c [q] T A idField ([], []) = .ok ([idField], []) := by
    simp [idField, extractSel, getURL, isBuiltinName, h.tumTn, h.tumTid]
  have hinner : extractLoop c [q] T A (idField :: leaves fs) ([], [])
      = .ok (idField :: leaves (fsA fs), stepsB B T q (fsB fs)) := by
    rw [extractLoop]
    simp only [hidstep, bind, Except.bind]
    have := hextract
    simp only [leaves_nil, stepsB, List.nil_append] at this
    exact this
  have hfinT : finishExtract c T (idField :: leaves (fsA fs)) = idField :: leaves (fsA fs) := by
    simp [finishExtract, hasFieldNamed, idField]
  have hsel : extractSel c [] "Query" A (QL' T q fs) ([], []) = .ok ([QLown T q fs], stepsB B T q (fsB fs)) := by
    unfold QL'
    rw [extractSel]
    simp only [getURL_root h, beq_self_eq_true, ↓reduceIte, List.isEmpty_cons, Bool.false_eq_true, TypeRef.name,
      preExtract_T h.toFamT, bind, Except.bind, List.nil_append]
    rw [hinner]
    simp only [hfinT, QLown]
  unfold extractSels
  simp only [preExtract_Q h, bind, Except.bind]
  rw [extractLoop, hsel]
  simp only [bind, Except.bind, extractLoop]
  simp [finishExtract, isRootName]

/-- the plan: one root step at `A`, and (if `B` owns a selected field) ONE child step at `B` with
    insertion point `[q]` — the same plan as for a single object; the list only shows at run time -/
def rootStep (A B T q : String) (fs : List FieldSpec) : Step :=
  .mk A "Query" [QLown T q fs] [] (stepsB B T q (fsB fs))

/-- **Stage 2 — plan**. -/
theorem stage_plan (h : Fam c A B T q fs) : planRoot c [QL' T q fs] = .ok [rootStep A B T q fs] := by
  have hnode : (q == "node") = false := by simp only [beq_eq_false_iff_ne, ne_eq]; exact h.hqn
  have htf : Sel.toFields [QL' T q fs] = [QL' T q fs] := by simp [Sel.toFields, QL']
  have hfn : fieldName (QL' T q fs) = q := rfl
  unfold planRoot
  simp only [h.hkind, OpKind.rootName, htf, List.filter_cons, List.filter_nil, hfn, hnode, bne, Bool.not_false,
    Bool.false_eq_true, ↓reduceIte, bind, Except.bind, routeRoot_Q h]
  simp only [groupNodeFields, List.foldlM_nil, pure, Except.pure, List.foldl_nil, List.foldlM_cons, bind, Except.bind,
    extract_root h, List.nil_append, rootStep]

end PebblesVerif.FlatList
