import PebblesVerif.Proofs.FlatList1
/-! Flat list family, stage 3a: insertion points over list elements, depth 0. -/
namespace PebblesVerif.FlatList
open PebblesVerif PebblesVerif.Exec PebblesVerif.Flat PebblesVerif.ResultOps

variable {c : PCtx} {A B T q : String} {fs : List FieldSpec}

/-- the realised insertion point of the `j`-th element under `q`, with id `i`: `q:<j>#<i>` -/
def pointL (q : String) (j : Nat) (i : String) : String := Point.encodeList q j (some i)

theorem extract_pointL (q i : String) (j : Nat) (hq1 : '#' ∉ q.toList) (hq2 : ':' ∉ q.toList) :
    Point.extract (pointL q j i) = .ok ⟨q, some j, i⟩ := by
  unfold Point.extract pointL Point.encodeList
  rw [String.toList_ofList]
  simp only [Option.map_some]
  rw [C01_point_roundtrip_list q.toList i.toList j hq1 hq2]
  simp [String.ofList_toList]

theorem idxOf_hash (pre suf : List Char) (h : '#' ∉ pre) : (pre ++ '#' :: suf).idxOf? '#' = some pre.length := by
  induction pre with
  | nil => simp [List.idxOf?_cons]
  | cons x xs ih =>
    have hx : ¬ x = '#' := fun e => h (by simp [e])
    have hxs : '#' ∉ xs := fun e => h (by simp [e])
    simp [List.idxOf?_cons, hx, ih hxs]

theorem isListElement_pointL (q i : String) (j : Nat) (hq1 : '#' ∉ q.toList) :
    Point.isListElement (pointL q j i) = true := by
  unfold Point.isListElement pointL Point.encodeList Point.isListElementL
  rw [String.toList_ofList]
  simp only [Option.map_some, Point.encodeListL]
  have hpre : '#' ∉ q.toList ++ ':' :: Point.showNat j := by
    simp only [List.mem_append, List.mem_cons, not_or]
    exact ⟨hq1, by decide, Point.not_mem_showNat j '#' (by decide)⟩
  have hidx := idxOf_hash (q.toList ++ ':' :: Point.showNat j) i.toList hpre
  simp only [List.append_assoc, List.cons_append] at hidx ⊢
  rw [hidx]
  have hpos : 0 < (q.toList ++ ':' :: Point.showNat j).length := by simp; omega
  simp only [hpos, ↓reduceIte]
  have : List.take (q.toList ++ ':' :: Point.showNat j).length (q.toList ++ ':' :: (Point.showNat j ++ '#' :: i.toList))
      = q.toList ++ ':' :: Point.showNat j := by
    have := List.take_left' (l₁ := q.toList ++ ':' :: Point.showNat j) (l₂ := '#' :: i.toList) rfl
    simpa [List.append_assoc] using this
  rw [this]
  simp

/-- one list element as `A` answers it: the id, then `A`'s fields -/
def elemA (aOf : String → List (String × J)) (i : String) : J := .obj (("id", .str i) :: aOf i)

/-- what service `A` answers: the list under `q` -/
def respA (q : String) (ids : List String) (aOf : String → List (String × J)) : List (String × J) :=
  [(q, .arr (ids.map (elemA aOf)))]

/-- the realised insertion points of the elements from position `j` on -/
def pointsFrom (q : String) : Nat → List String → List (List String)
  | _, [] => []
  | j, i :: is => [pointL q j i] :: pointsFrom q (j + 1) is

theorem pointsFrom_length (q : String) : ∀ (j : Nat) (ids : List String), (pointsFrom q j ids).length = ids.length
  | _, [] => rfl
  | j, _ :: is => by simp [pointsFrom, pointsFrom_length q (j + 1) is]

/-- `findIP`'s loop over the entries of the list: one point `q:<j>#<id>` per entry, in order -/
theorem findIP_go (sk : Bool) (T q : String) (fs : List FieldSpec) (aOf : String → List (String × J)) :
    ∀ (ids : List String) (j : Nat) (acc : List (List String)),
    findIPW.go sk [] [] (QLown T q fs) true (ids.map (elemA aOf)) j acc = .ok (some (acc ++ pointsFrom q j ids))
  | [], j, acc => by simp [findIPW.go, pointsFrom]
  | i :: is, j, acc => by
    simp only [List.map_cons, elemA]
    rw [findIPW.go]
    simp only [↓reduceIte, extractID, J.lookup, fmtID, bind, Except.bind, findIPW, List.nil_append]
    have hdn : displayName (QLown T q fs) = q := by
      simp [displayName, QLown]
    rw [hdn]
    have := findIP_go sk T q fs aOf is (j + 1) (acc ++ [[pointL q j i]])
    rw [pointL] at this
    rw [this]
    simp [pointsFrom, pointL]

theorem findIP_q (T q : String) (fs : List FieldSpec) (ids : List String) (aOf : String → List (String × J)) :
    findIP [q] [QLown T q fs] (respA q ids aOf) [] = .ok (pointsFrom q 0 ids) := by
  have hfs : findSelection q [QLown T q fs] = some (QLown T q fs) := by
    exact findSelection_head q q [] [] _ [] _ [] q (by simp)
  rw [findIP, findIPW, hfs]
  have hl : J.lookup q (respA q ids aOf) = some (.arr (ids.map (elemA aOf))) := by simp [respA, J.lookup]
  rw [hl]
  have hty : (selType (QLown T q fs)).isList = true := rfl
  simp only [hty, ↓reduceIte, List.isEmpty_nil, findIP_go _ T q fs aOf ids 0 [], bind, Except.bind, List.nil_append,
    Option.getD_some]

/-- the child step of the plan when `B` owns the fields `bs ≠ []`, and the follow-up requests -/
def reqsFrom (B T q : String) (bs : List FieldSpec) (j : Nat) (ids : List String) : List ExecReq :=
  (pointsFrom q j ids).map (fun ip => ⟨stepB B T q bs, ip⟩)

/-- follow-up requests of depth 0: none if `B` owns nothing -/
def nextReqs (B T q : String) (bs : List FieldSpec) (ids : List String) : List ExecReq :=
  match bs with
  | [] => []
  | _ :: _ => reqsFrom B T q bs 0 ids

theorem parseOne_root (A B T q : String) (fs : List FieldSpec) (ids : List String) (aOf : String → List (String × J)) :
    parseOne ⟨rootStep A B T q fs, []⟩ (respA q ids aOf)
      = .ok (respA q ids aOf, nextReqs B T q (fsB fs) ids) := by
  unfold parseOne
  simp only [rootStep, Step.parentType, isRootName, beq_self_eq_true, Bool.true_or, ↓reduceIte, bind, Except.bind,
    Step.thn, Step.sels, List.length_nil]
  cases hB : fsB fs with
  | nil => simp [stepsB, pure, Except.pure, nextReqs]
  | cons b bs =>
    simp only [stepsB, List.foldlM_cons, List.foldlM_nil, Step.ip, List.drop_zero, findIP_q T q fs ids aOf, bind,
      Except.bind, pure, Except.pure, List.nil_append, nextReqs, reqsFrom, stepB]

theorem mergeResult_root (k : String) (v : J) : mergeResult [] [] [(k, v)] = .ok [(k, v)] :=
  Flat.mergeResult_root [] k v

/-- **Depth 0**: one batched call to `A`; its answer becomes the result; one follow-up request per
    LIST ELEMENT (for the one child step), at the realised insertion point `q:<j>#<id>`. -/
theorem depth0 (c : PCtx) (A B T q : String) (fs : List FieldSpec) (down : Downstream) (ids : List String) (aOf : String → List (String × J))
    (hdown : down A [rqOf c (rootStep A B T q fs) []] = .ok [respA q ids aOf]) :
    execDepth c {} none down [⟨rootStep A B T q fs, []⟩] ⟨[], []⟩
      = .ok (⟨respA q ids aOf, [⟨A, [rqOf c (rootStep A B T q fs) []]⟩]⟩, nextReqs B T q (fsB fs) ids) := by
  have hroot : isRootName (rootStep A B T q fs).parentType = true := by simp [rootStep, Step.parentType, isRootName]
  have hurl : (rootStep A B T q fs).url = A := rfl
  unfold execDepth
  simp only [partitionByURL, List.foldl_cons, List.foldl_nil, List.find?_nil, List.nil_append, hurl,
    List.foldlM_cons, List.foldlM_nil, bind, Except.bind, buildBatch_root c _ hroot, hdown, List.length_cons,
    List.length_nil, bne_self_eq_false, Bool.false_eq_true, ↓reduceIte, List.zip_cons_cons, List.zip_nil_right,
    List.getElem?_cons_zero, Option.getD_some, parseOne_root A B T q fs ids aOf, pure, Except.pure]
  simp [respA, mergeResult_root]

end PebblesVerif.FlatList
