import PebblesVerif.Proofs.FlatList2
/-! Flat list family, stage 3b: the batch of `node(id: $id)` lookups (de-duplicated), depth 1. -/
namespace PebblesVerif.FlatList
open PebblesVerif PebblesVerif.Exec PebblesVerif.Flat PebblesVerif.ResultOps

variable {c : PCtx} {A B T q : String} {fs : List FieldSpec}

/-! ### de-duplication of ids: first occurrences, in order -/

def dedupInto (seen : List String) : List String → List String
  | [] => seen
  | i :: is => if i ∈ seen then dedupInto seen is else dedupInto (seen ++ [i]) is

/-- the distinct ids of a list, in order of first occurrence -/
def dedupIds (ids : List String) : List String := dedupInto [] ids

theorem dedupInto_prefix : ∀ (ids seen : List String), ∃ t, dedupInto seen ids = seen ++ t
  | [], seen => ⟨[], by simp [dedupInto]⟩
  | i :: is, seen => by
    unfold dedupInto
    split
    · exact dedupInto_prefix is seen
    · obtain ⟨t, ht⟩ := dedupInto_prefix is (seen ++ [i])
      exact ⟨i :: t, by rw [ht]; simp⟩

theorem idxOf_dedupInto {seen : List String} {i : String} (ids : List String) (hi : i ∈ seen) :
    (dedupInto seen ids).idxOf i = seen.idxOf i := by
  obtain ⟨t, ht⟩ := dedupInto_prefix ids seen
  rw [ht, List.idxOf_append]
  simp [hi]

theorem mem_dedupInto_seen {seen : List String} {i : String} (ids : List String) (hi : i ∈ seen) :
    i ∈ dedupInto seen ids := by
  obtain ⟨t, ht⟩ := dedupInto_prefix ids seen
  rw [ht]; simp [hi]

theorem mem_dedupInto : ∀ (ids seen : List String) (i : String), i ∈ ids → i ∈ dedupInto seen ids
  | a :: is, seen, i, hi => by
    unfold dedupInto
    simp only [List.mem_cons] at hi
    split
    · rename_i ha
      rcases hi with rfl | hi
      · exact mem_dedupInto_seen is ha
      · exact mem_dedupInto is seen i hi
    · rcases hi with rfl | hi
      · exact mem_dedupInto_seen is (by simp)
      · exact mem_dedupInto is _ i hi

theorem mem_of_mem_dedupInto : ∀ (ids seen : List String) (i : String), i ∈ dedupInto seen ids → i ∈ seen ∨ i ∈ ids
  | [], seen, i, h => by simp [dedupInto] at h; exact Or.inl h
  | a :: is, seen, i, h => by
    unfold dedupInto at h
    split at h
    · rcases mem_of_mem_dedupInto is seen i h with h | h
      · exact Or.inl h
      · exact Or.inr (by simp [h])
    · rcases mem_of_mem_dedupInto is _ i h with h | h
      · simp only [List.mem_append, List.mem_singleton] at h
        rcases h with h | h
        · exact Or.inl h
        · exact Or.inr (by simp [h])
      · exact Or.inr (by simp [h])

theorem mem_of_mem_dedupIds {ids : List String} {i : String} (h : i ∈ dedupIds ids) : i ∈ ids := by
  rcases mem_of_mem_dedupInto ids [] i h with h | h
  · cases h
  · exact h

theorem dedupInto_nodup : ∀ (ids seen : List String), seen.Nodup → (dedupInto seen ids).Nodup
  | [], seen, h => by simpa [dedupInto] using h
  | i :: is, seen, h => by
    unfold dedupInto
    split
    · exact dedupInto_nodup is seen h
    · rename_i hni
      apply dedupInto_nodup is
      rw [List.nodup_append]
      refine ⟨h, by simp, ?_⟩
      intro a ha b hb
      simp only [List.mem_singleton] at hb
      subst hb
      intro e; subst e; exact hni ha

/-- nothing to de-duplicate in a duplicate-free list -/
theorem dedupInto_of_nodup : ∀ (ids seen : List String), (seen ++ ids).Nodup → dedupInto seen ids = seen ++ ids
  | [], seen, _ => by simp [dedupInto]
  | i :: is, seen, h => by
    have hni : i ∉ seen := by
      rw [List.nodup_append] at h
      intro hi; exact h.2.2 i hi i (by simp) rfl
    unfold dedupInto
    simp only [hni, ↓reduceIte]
    rw [dedupInto_of_nodup is (seen ++ [i]) (by simpa [List.append_assoc] using h)]
    simp

theorem dedupIds_of_nodup (ids : List String) (h : ids.Nodup) : dedupIds ids = ids := by
  have := dedupInto_of_nodup ids [] (by simpa using h)
  simpa [dedupIds] using this

theorem idxOf?_keys (K i : String) : ∀ seen : List String,
    (seen.map (fun s => DKey.dedup s K)).idxOf? (DKey.dedup i K) = if i ∈ seen then some (seen.idxOf i) else none
  | [] => by simp
  | a :: seen => by
    simp only [List.map_cons, List.idxOf?_cons, List.idxOf_cons, idxOf?_keys K i seen]
    by_cases ha : a = i
    · subst ha; simp
    · have h1 : (DKey.dedup a K == DKey.dedup i K) = false := by simp [ha]
      have h2 : (a == i) = false := by simpa using ha
      have h3 : ¬ i = a := fun e => ha e.symm
      simp only [h1, Bool.false_eq_true, ↓reduceIte, h2, cond_false, List.mem_cons, h3, false_or]
      split <;> simp

/-! ### `partitionByURL` on requests that all go to one service -/

/-- the loop body of `partitionByURL`, named -/
def partStep (acc : List (String × List ExecReq)) (er : ExecReq) : List (String × List ExecReq) :=
  match acc.find? (·.1 == er.step.url) with
  | some _ => acc.map (fun (u, l) => if u == er.step.url then (u, l ++ [er]) else (u, l))
  | none => acc ++ [(er.step.url, [er])]

theorem partitionByURL_eq (ers : List ExecReq) : partitionByURL ers = ers.foldl partStep [] := rfl

theorem partStep_same (u : String) (l : List ExecReq) (er : ExecReq) (hu : er.step.url = u) :
    partStep [(u, l)] er = [(u, l ++ [er])] := by
  simp [partStep, hu]

theorem partition_fold (u : String) : ∀ (rest l : List ExecReq), (∀ er ∈ rest, er.step.url = u) →
    rest.foldl partStep [(u, l)] = [(u, l ++ rest)]
  | [], l, _ => by simp
  | er :: rest, l, h => by
    rw [List.foldl_cons, partStep_same u l er (h er (by simp)),
      partition_fold u rest (l ++ [er]) (fun e he => h e (by simp [he]))]
    simp

theorem partition_same (u : String) (er : ExecReq) (rest : List ExecReq) (h : ∀ e ∈ er :: rest, e.step.url = u) :
    partitionByURL (er :: rest) = [(u, er :: rest)] := by
  have hu : er.step.url = u := h er (by simp)
  have h0 : partStep [] er = [(u, [er])] := by simp [partStep, hu]
  rw [partitionByURL_eq, List.foldl_cons, h0, partition_fold u rest [er] (fun e he => h e (by simp [he]))]
  simp

/-! ### the batch -/

/-- the lookup sent to `B` for the entity with id `i` -/
def rqB (c : PCtx) (B T q : String) (bs : List FieldSpec) (i : String) : Request :=
  rqOf c (stepB B T q bs) [("id", .str i)]

theorem reqsFrom_cons (B T q : String) (bs : List FieldSpec) (j : Nat) (i : String) (is : List String) :
    reqsFrom B T q bs j (i :: is) = ⟨stepB B T q bs, [pointL q j i]⟩ :: reqsFrom B T q bs (j + 1) is := rfl

theorem reqsFrom_nil (B T q : String) (bs : List FieldSpec) (j : Nat) : reqsFrom B T q bs j [] = [] := rfl

/-- `executeRequests`' loop on the follow-up requests of the list elements: one lookup per DISTINCT
    id (identical lookups are sent once), and every element remembers the position of its lookup -/
theorem buildBatch_go (h : Fam c A B T q fs) (bs : List FieldSpec) (hq1 : '#' ∉ q.toList) (hq2 : ':' ∉ q.toList) :
    ∀ (ids : List String) (j n : Nat) (seen : List String) (src : List (Option Nat)),
    (∀ i ∈ ids, i ≠ "") →
    buildBatch.go c {} none (reqsFrom B T q bs j ids) n
        (seen.map (fun s => DKey.dedup s (queryKey c (stepB B T q bs)))) (seen.map (rqB c B T q bs)) src
      = .ok ((dedupInto seen ids).map (rqB c B T q bs),
             src ++ ids.map (fun i => some ((dedupInto seen ids).idxOf i)))
  | [], j, n, seen, src, _ => by simp [reqsFrom_nil, buildBatch.go, dedupInto]
  | i :: is, j, n, seen, src, hids => by
    have hT : isRootName (stepB B T q bs).parentType = false := by simpa [stepB, Step.parentType] using h.hTroot
    have hine' : (i == "") = false := by simpa using hids i (by simp)
    have hrest : ∀ x ∈ is, x ≠ "" := fun x hx => hids x (by simp [hx])
    rw [reqsFrom_cons, buildBatch.go]
    simp only [getVariables, List.getLast?_singleton, extract_pointL q i j hq1 hq2, bind, Except.bind, hine',
      Bool.false_eq_true, ↓reduceIte, J.setKey, isNeedToQuery, hT, dedupKey, Bool.not_false, Bool.not_true,
      idxOf?_keys]
    by_cases hmem : i ∈ seen
    · simp only [hmem, ↓reduceIte]
      rw [buildBatch_go h bs hq1 hq2 is (j + 1) (n + 1) seen _ hrest]
      simp only [dedupInto, hmem, ↓reduceIte, List.map_cons, List.append_assoc, List.cons_append, List.nil_append,
        idxOf_dedupInto is hmem]
    · simp only [hmem, ↓reduceIte]
      have hk : seen.map (fun s => DKey.dedup s (queryKey c (stepB B T q bs))) ++ [DKey.dedup i (queryKey c (stepB B T q bs))]
          = (seen ++ [i]).map (fun s => DKey.dedup s (queryKey c (stepB B T q bs))) := by simp
      have hb : seen.map (rqB c B T q bs) ++ [rqOf c (stepB B T q bs) [("id", .str i)]]
          = (seen ++ [i]).map (rqB c B T q bs) := by simp [rqB]
      have hrq : Request.mk (header c (stepB B T q bs)) (stepB B T q bs).sels [("id", J.str i)]
          (stepOpName c (stepB B T q bs)) (queryKey c (stepB B T q bs))
          = rqOf c (stepB B T q bs) [("id", .str i)] := rfl
      rw [hrq, hk, hb, buildBatch_go h bs hq1 hq2 is (j + 1) (n + 1) (seen ++ [i]) _ hrest]
      have hidx : (dedupInto (seen ++ [i]) is).idxOf i = seen.length := by
        rw [idxOf_dedupInto is (by simp), List.idxOf_append]
        simp [hmem]
      simp only [dedupInto, hmem, ↓reduceIte, List.map_cons, List.append_assoc, List.cons_append, List.nil_append,
        hidx, List.length_map]

/-- `executeRequests` on the follow-up requests of depth 0 -/
theorem buildBatch_list (h : Fam c A B T q fs) (bs : List FieldSpec) (hq1 : '#' ∉ q.toList) (hq2 : ':' ∉ q.toList)
    (ids : List String) (hids : ∀ i ∈ ids, i ≠ "") :
    buildBatch c {} none (reqsFrom B T q bs 0 ids)
      = .ok ((dedupIds ids).map (rqB c B T q bs), ids.map (fun i => some ((dedupIds ids).idxOf i))) := by
  have := buildBatch_go h bs hq1 hq2 ids 0 0 [] [] hids
  simpa [buildBatch, dedupIds] using this

/-! ### answers stitched in, element by element -/

/-- the loop body of `execDepth` over (request, source of its answer), named -/
def pairStep (resps : List (List (String × J))) (acc : ExecState × List ExecReq) (p : ExecReq × Option Nat) :
    G (ExecState × List ExecReq) := do
  let resp : List (String × J) := match p.2 with
    | none => [("node", .null)]
    | some i => resps[i]?.getD []
  let (qr, next) ← parseOne p.1 resp
  let result' ← mergeResult acc.1.result p.1.ip qr
  .ok (⟨result', acc.1.calls⟩, acc.2 ++ next)

/-- `execDepth` when all requests of the depth go to ONE service: one batched call, then the loop -/
theorem execDepth_one_group (c : PCtx) (down : Downstream) (u : String) (er : ExecReq) (rest : List ExecReq)
    (st : ExecState) (batch : List Request) (src : List (Option Nat)) (resps : List (List (String × J)))
    (hurl : ∀ e ∈ er :: rest, e.step.url = u)
    (hbatch : buildBatch c {} none (er :: rest) = .ok (batch, src))
    (hdown : down u batch = .ok resps) (hlen : resps.length = batch.length) :
    execDepth c {} none down (er :: rest) st
      = ((er :: rest).zip src).foldlM (pairStep resps) (⟨st.result, st.calls ++ [⟨u, batch⟩]⟩, []) := by
  have hne : (resps.length != batch.length) = false := by simp [hlen]
  unfold execDepth
  rw [partition_same u er rest hurl]
  simp only [List.foldlM_cons, List.foldlM_nil, bind, Except.bind, hbatch, hdown, hne, Bool.false_eq_true, ↓reduceIte]
  have hid : ∀ (x : G (ExecState × List ExecReq)), Except.bind x (fun v => pure v) = x := by
    intro x; cases x <;> rfl
  refine Eq.trans ?_ (hid _)
  rfl

/-- `DepthExecutorManager.merge` at a list position: the answer is merged into the element at the
    index named by the insertion point (the id in the point plays no role here) -/
theorem mergeResult_elem (q i : String) (done rest : List J) (e b : List (String × J))
    (hq1 : '#' ∉ q.toList) (hq2 : ':' ∉ q.toList)
    (hbnd : (J.keys b).Nodup) (hdisj : ∀ k ∈ J.keys b, k ∉ J.keys e) :
    mergeResult [(q, .arr (done ++ .obj e :: rest))] [pointL q done.length i] b
      = .ok [(q, .arr (done ++ .obj (e ++ b) :: rest))] := by
  have hlen : ¬ (done ++ J.obj e :: rest).length ≤ done.length := by simp
  have hget : (done ++ J.obj e :: rest)[done.length]? = some (.obj e) := by simp
  have hset : (done ++ J.obj e :: rest).set done.length (.obj (e ++ b)) = done ++ .obj (e ++ b) :: rest := by simp
  unfold mergeResult
  rw [updateAt]
  simp only [extract_pointL q i done.length hq1 hq2, bind, Except.bind, isListElement_pointL q i done.length hq1,
    ↓reduceIte, J.lookup, Option.getD_some, hlen, hget, updateAt, Spec.mergeInto_disjoint b e hbnd hdisj, hset,
    J.setKey]

/-- one list element once `B`'s answer has been merged in: the id, `A`'s fields, then `B`'s -/
def elemAB (aOf bOf : String → List (String × J)) (i : String) : J := .obj (("id", .str i) :: (aOf i ++ bOf i))

/-- what must hold of the ids (arbitrary non-empty strings — `#` allowed) and of the two shares of
    every element -/
def GoodId (aOf bOf : String → List (String × J)) (i : String) : Prop :=
  i ≠ "" ∧ (J.keys (bOf i)).Nodup ∧ ∀ k ∈ J.keys (bOf i), k ∉ J.keys (("id", J.str i) :: aOf i)

theorem pairStep_elem (h : Fam c A B T q fs) (bs : List FieldSpec) (aOf bOf : String → List (String × J))
    (resps : List (List (String × J))) (hq1 : '#' ∉ q.toList) (hq2 : ':' ∉ q.toList)
    (i : String) (pos : Nat) (done rest : List J) (calls : List Call) (next : List ExecReq)
    (hresp : resps[pos]? = some [("node", .obj (bOf i))]) (hg : GoodId aOf bOf i) :
    pairStep resps (⟨[(q, .arr (done ++ elemA aOf i :: rest))], calls⟩, next)
        (⟨stepB B T q bs, [pointL q done.length i]⟩, some pos)
      = .ok (⟨[(q, .arr (done ++ elemAB aOf bOf i :: rest))], calls⟩, next) := by
  unfold pairStep
  simp only [hresp, Option.getD_some, parseOne_child h.toFamT bs (pointL q done.length i) (bOf i), bind, Except.bind, elemA,
    mergeResult_elem q i done rest _ (bOf i) hq1 hq2 hg.2.1 hg.2.2, List.append_nil, elemAB,
    List.cons_append]

/-- the loop of `execDepth` over the list elements: every element receives `B`'s answer for ITS id,
    at ITS position (the same answer at several positions when an id occurs more than once) -/
theorem fold_pairs (h : Fam c A B T q fs) (bs : List FieldSpec) (aOf bOf : String → List (String × J))
    (final : List String) (resps : List (List (String × J))) (hq1 : '#' ∉ q.toList) (hq2 : ':' ∉ q.toList)
    (hresp : ∀ i ∈ final, resps[final.idxOf i]? = some [("node", .obj (bOf i))]) :
    ∀ (ids : List String) (j : Nat) (done : List J) (calls : List Call) (next : List ExecReq), done.length = j →
    (∀ i ∈ ids, i ∈ final ∧ GoodId aOf bOf i) →
    ((reqsFrom B T q bs j ids).zip (ids.map (fun i => some (final.idxOf i)))).foldlM (pairStep resps)
        (⟨[(q, .arr (done ++ ids.map (elemA aOf)))], calls⟩, next)
      = .ok (⟨[(q, .arr (done ++ ids.map (elemAB aOf bOf)))], calls⟩, next)
  | [], j, done, calls, next, _, _ => by simp [reqsFrom_nil, pure, Except.pure]
  | i :: is, j, done, calls, next, hj, hids => by
    subst hj
    have hi := hids i (by simp)
    simp only [reqsFrom_cons, List.map_cons, List.zip_cons_cons, List.foldlM_cons]
    rw [pairStep_elem h bs aOf bOf resps hq1 hq2 i _ done _ calls next (hresp i hi.1) hi.2]
    have ih := fold_pairs h bs aOf bOf final resps hq1 hq2 hresp is (done.length + 1) (done ++ [elemAB aOf bOf i])
      calls next (by simp) (fun x hx => hids x (by simp [hx]))
    simp only [List.append_assoc, List.cons_append, List.nil_append] at ih
    simp only [bind, Except.bind]
    exact ih

theorem getElem?_idxOf {l : List String} {i : String} (h : i ∈ l) : l[l.idxOf i]? = some i := by
  have hlt := List.idxOf_lt_length_of_mem h
  rw [List.getElem?_eq_getElem hlt, List.getElem_idxOf hlt]

/-- the result once every element has received `B`'s share -/
def respAB (q : String) (ids : List String) (aOf bOf : String → List (String × J)) : List (String × J) :=
  [(q, .arr (ids.map (elemAB aOf bOf)))]

/-- the ONE batch sent to `B`: a `node(id: $id)` lookup per distinct id, in order of first occurrence -/
def batchB (c : PCtx) (B T q : String) (bs : List FieldSpec) (ids : List String) : List Request :=
  (dedupIds ids).map (rqB c B T q bs)

/-- what `B` answers to that batch -/
def answersB (bOf : String → List (String × J)) (ids : List String) : List (List (String × J)) :=
  (dedupIds ids).map (fun i => [("node", .obj (bOf i))])

theorem url_reqsFrom (B T q : String) (bs : List FieldSpec) (j : Nat) (ids : List String) :
    ∀ e ∈ reqsFrom B T q bs j ids, e.step.url = B := by
  intro e he
  simp only [reqsFrom, List.mem_map] at he
  obtain ⟨ip, _, rfl⟩ := he
  rfl

/-- **Depth 1**: ONE batched call to `B` (a lookup per distinct id); each answer is unwrapped from
    `node` and merged into the list element(s) it belongs to. -/
theorem depth1 (h : Fam c A B T q fs) (down : Downstream) (bs : List FieldSpec) (i0 : String) (is : List String)
    (aOf bOf : String → List (String × J)) (calls : List Call)
    (hq1 : '#' ∉ q.toList) (hq2 : ':' ∉ q.toList)
    (hids : ∀ i ∈ i0 :: is, GoodId aOf bOf i)
    (hdown : down B (batchB c B T q bs (i0 :: is)) = .ok (answersB bOf (i0 :: is))) :
    execDepth c {} none down (reqsFrom B T q bs 0 (i0 :: is)) ⟨respA q (i0 :: is) aOf, calls⟩
      = .ok (⟨respAB q (i0 :: is) aOf bOf, calls ++ [⟨B, batchB c B T q bs (i0 :: is)⟩]⟩, []) := by
  have hbatch := buildBatch_list h bs hq1 hq2 (i0 :: is) (fun i hi => (hids i hi).1)
  have hurl := url_reqsFrom B T q bs 0 (i0 :: is)
  rw [reqsFrom_cons] at hbatch hurl
  have hone := execDepth_one_group c down B _ _ ⟨respA q (i0 :: is) aOf, calls⟩ _ _ _ hurl hbatch hdown
    (by simp [answersB])
  rw [← reqsFrom_cons] at hone
  rw [hone]
  have hresp : ∀ i ∈ dedupIds (i0 :: is),
      (answersB bOf (i0 :: is))[(dedupIds (i0 :: is)).idxOf i]? = some [("node", .obj (bOf i))] := by
    intro i hi
    simp only [answersB, List.getElem?_map, getElem?_idxOf hi, Option.map_some]
  have := fold_pairs h bs aOf bOf (dedupIds (i0 :: is)) (answersB bOf (i0 :: is)) hq1 hq2 hresp (i0 :: is) 0 []
    (calls ++ [⟨B, batchB c B T q bs (i0 :: is)⟩]) [] rfl
    (fun i hi => ⟨mem_dedupInto (i0 :: is) [] i hi, hids i hi⟩)
  simp only [List.nil_append] at this
  exact this

end PebblesVerif.FlatList
