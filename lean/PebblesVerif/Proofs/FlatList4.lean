import PebblesVerif.Proofs.FlatList3
/-! Flat list family, stages 3–5: execution (two depths), scrubbing over the list, and the whole
per-request pipeline with an abstract downstream. -/
namespace PebblesVerif.FlatList
open PebblesVerif PebblesVerif.Exec PebblesVerif.Flat PebblesVerif.ResultOps PebblesVerif.ScrubClean

variable {c : PCtx} {A B T q : String} {fs : List FieldSpec}

theorem respAB_of_nil (q : String) (ids : List String) (aOf bOf : String → List (String × J))
    (hb : ∀ i ∈ ids, bOf i = []) : respA q ids aOf = respAB q ids aOf bOf := by
  unfold respA respAB
  congr 3
  apply List.map_congr_left
  intro i hi
  simp [elemA, elemAB, hb i hi]

/-- the calls of one request: one to `A`; one BATCH to `B` iff `B` owns a selected field and the list
    is not empty -/
def callsOf (c : PCtx) (A B T q : String) (fs : List FieldSpec) (ids : List String) : List Call :=
  ⟨A, [rqOf c (rootStep A B T q fs) []]⟩ ::
    (match fsB fs, ids with
     | _ :: _, _ :: _ => [⟨B, batchB c B T q (fsB fs) ids⟩]
     | _, _ => [])

/-- **Stage 3 — execute**: depth 0 asks `A` for the list, depth 1 (if `B` owns a selected field and
    the list is not empty) asks `B` ONCE, with one lookup per distinct id; the result is the list
    under `q`, every element with the helper id, `A`'s answers, then `B`'s answers. -/
theorem stage_execute (h : Fam c A B T q fs) (down : Downstream) (ids : List String)
    (aOf bOf : String → List (String × J)) (hq1 : '#' ∉ q.toList) (hq2 : ':' ∉ q.toList)
    (hids : ∀ i ∈ ids, GoodId aOf bOf i)
    (hA : down A [rqOf c (rootStep A B T q fs) []] = .ok [respA q ids aOf])
    (hB : fsB fs ≠ [] → ids ≠ [] → down B (batchB c B T q (fsB fs) ids) = .ok (answersB bOf ids))
    (hb0 : fsB fs = [] → ∀ i ∈ ids, bOf i = []) :
    execute c {} none down [rootStep A B T q fs] [] = .ok ⟨respAB q ids aOf bOf, callsOf c A B T q fs ids⟩ := by
  have hd0 := depth0 c A B T q fs down ids aOf hA
  unfold execute
  simp only [List.map_cons, List.map_nil]
  have hip : (rootStep A B T q fs).ip = [] := rfl
  rw [hip]
  cases hfb : fsB fs with
  | nil =>
    have hdepth : stepsDepth [rootStep A B T q fs] = 1 := by
      simp [stepsDepth, stepDepth, rootStep, hfb, stepsB]
    rw [hdepth, execLoop]
    simp only [List.isEmpty_cons, Bool.false_eq_true, ↓reduceIte, bind, Except.bind, hd0, hfb, nextReqs, execLoop]
    rw [respAB_of_nil q ids aOf bOf (hb0 hfb)]
    simp [callsOf, hfb]
  | cons b0 bs =>
    have hdepth : stepsDepth [rootStep A B T q fs] = 2 := by
      simp [stepsDepth, stepDepth, rootStep, hfb, stepsB]
    rw [hdepth, execLoop]
    simp only [List.isEmpty_cons, Bool.false_eq_true, ↓reduceIte, bind, Except.bind, hd0, hfb, nextReqs]
    cases ids with
    | nil =>
      rw [execLoop]
      simp only [reqsFrom_nil, List.isEmpty_nil, ↓reduceIte]
      simp [callsOf, hfb, respA, respAB]
    | cons i0 is =>
      have hB' := hB (by rw [hfb]; simp) (by simp)
      rw [hfb] at hB'
      rw [execLoop]
      have hne : (reqsFrom B T q (b0 :: bs) 0 (i0 :: is)).isEmpty = false := by simp [reqsFrom_cons]
      simp only [hne, Bool.false_eq_true, ↓reduceIte, bind, Except.bind,
        depth1 h down (b0 :: bs) i0 is aOf bOf _ hq1 hq2 hids hB', execLoop]
      simp [callsOf, hfb]

/-- scrubbing one list element: exactly the helper `id` is removed, and the element is not empty -/
theorem clean_elem (T i : String) (d : List (String × J))
    (hid : "id" ∉ J.keys d) (htn : "__typename" ∉ J.keys d) (hne : d ≠ []) :
    clean [(T, ["id"])] [] (("id", J.str i) :: d) = (d, false) := by
  have hlk : J.lookup "__typename" (("id", J.str i) :: d) = none := by
    simp only [J.lookup]
    rw [Spec.lookup_none_of_not_mem htn]
    simp
  have hdne : d.isEmpty = false := by
    cases d with
    | nil => exact absurd rfl hne
    | cons _ _ => rfl
  have hhere : cleanHere (("id", J.str i) :: d) [(T, ["id"])] = d := by
    unfold cleanHere
    rw [hlk]
    simp [J.eraseKey, eraseKey_not_mem hid]
  rw [clean_nil, hhere, hdne]

/-- what must hold of a scrubbed element: no `id`, no `__typename`, not empty -/
def GoodElem (d : List (String × J)) : Prop := "id" ∉ J.keys d ∧ "__typename" ∉ J.keys d ∧ d ≠ []

theorem cleanList_elems (T : String) (dOf : String → List (String × J)) : ∀ (ids : List String),
    (∀ i ∈ ids, GoodElem (dOf i)) →
    cleanList [(T, ["id"])] [] (ids.map (fun i => J.obj (("id", .str i) :: dOf i)))
      = (ids.map (fun i => J.obj (dOf i)), ids.isEmpty)
  | [], _ => by simp [cleanList_nil]
  | i :: is, hd => by
    have hi := hd i (by simp)
    rw [List.map_cons, cleanList_obj, clean_elem T i (dOf i) hi.1 hi.2.1 hi.2.2,
      cleanList_elems T dOf is (fun x hx => hd x (by simp [hx]))]
    simp

/-- **Stage 4 — scrub**: the helper `id` is removed from EVERY element of the list under `q`; the
    list itself stays (also when it is empty). -/
theorem stage_scrub (T q : String) (ids : List String) (dOf : String → List (String × J))
    (hd : ∀ i ∈ ids, GoodElem (dOf i)) :
    cleanAll [([q], [(T, ["id"])])] [(q, .arr (ids.map (fun i => J.obj (("id", .str i) :: dOf i))))]
      = [(q, .arr (ids.map (fun i => J.obj (dOf i))))] := by
  have hlq : ∀ v, J.lookup q [(q, v)] = some v := by intro v; simp [J.lookup]
  simp only [cleanAll, List.foldl_cons, List.foldl_nil, unhash, List.isEmpty_cons, Bool.false_eq_true, ↓reduceIte]
  rw [clean_cons, hlq]
  simp only [cleanList_elems T dOf ids hd]
  cases ids <;> simp [J.setKey]

/-- **Stage 5 — the pipeline**: for every member of the family and every downstream that answers
    the sub-request to `A` with the list (ids and `A`'s shares) and the ONE batch to `B` with
    `B`'s shares, the gateway model returns the list under `q`, every element with `A`'s answers
    followed by `B`'s — helper ids removed, no errors. -/
theorem stage_gateway (h : Fam c A B T q fs) (down : Downstream) (ids : List String)
    (aOf bOf : String → List (String × J)) (hq1 : '#' ∉ q.toList) (hq2 : ':' ∉ q.toList)
    (hids : ∀ i ∈ ids, GoodId aOf bOf i)
    (hA : down A [rqOf c (rootStep A B T q fs) []] = .ok [respA q ids aOf])
    (hB : fsB fs ≠ [] → ids ≠ [] → down B (batchB c B T q (fsB fs) ids) = .ok (answersB bOf ids))
    (hb0 : fsB fs = [] → ∀ i ∈ ids, bOf i = [])
    (hd : ∀ i ∈ ids, GoodElem (aOf i ++ bOf i)) :
    gateway c {} ⟨.query, "", [], [QL T q fs]⟩ none down
      = .ok ⟨some [(q, .arr (ids.map (fun i => J.obj (aOf i ++ bOf i))))], [], callsOf c A B T q fs ids⟩ := by
  have hex := stage_execute h down ids aOf bOf hq1 hq2 hids hA hB hb0
  rw [gateway_noVarDefs _ _ _ _ _ _ rfl]
  unfold gatewayCore gatewayCoreWith plan
  simp only [stage_sanitize h, bind, Except.bind, stage_plan h, hex, id]
  have := stage_scrub T q ids (fun i => aOf i ++ bOf i) hd
  have hfun : elemAB aOf bOf = fun i => J.obj (("id", .str i) :: (aOf i ++ bOf i)) := rfl
  simp only [respAB]
  rw [hfun, this]

end PebblesVerif.FlatList
