import PebblesVerif.Proofs.FlatList3
/-! Flat list family, stages 3–5: execution (two depths), scrubbing over the list, and the whole
per-request pipeline with an abstract downstream. -/
namespace PebblesVerif.FlatList
open PebblesVerif PebblesVerif.Exec PebblesVerif.Flat PebblesVerif.ResultOps PebblesVerif.ScrubClean

variable {c : PCtx} {A B T q : String} {fs : List FieldSpec}

theorem respAB_of_nil (q : String) (ids : List String) (aOf bOf : String → List (String × J))
    (hb : ∀ i ∈ ids, bOf i = []) : respA q ids aOf = respAB q ids aOf bOf := by
  unfold respA respAB
  congr 3
  apply List.map_congr_left
  intro i hi
  simp [elemA, elemAB, hb i hi]

/-- **Stage 3 — execute**: depth 0 asks `A` for the list, depth 1 (if `B` owns a selected field and
    the list is not empty) asks `B` ONCE, with one lookup per distinct id; the result is the list
    under `q`, every element with the helper id, `A`'s answers, then `B`'s answers. -/
theorem stage_execute (h : Fam c A B T q fs) (down : Downstream) (ids : List String)
    (aOf bOf : String → List (String × J)) (hq1 : '#' ∉ q.toList) (hq2 : ':' ∉ q.toList)
    (hids : ∀ i ∈ ids, GoodId aOf bOf i)
    (hA : down A [rqOf c (rootStep A B T q fs) []] = .ok [respA q ids aOf])
    (hB : fsB fs ≠ [] → ids ≠ [] → down B (batchB c B T q (fsB fs) ids) = .ok (answersB bOf ids))
    (hb0 : fsB fs = [] → ∀ i ∈ ids, bOf i = []) :
    ∃ calls, execute c {} none down [rootStep A B T q fs] [] = .ok ⟨respAB q ids aOf bOf, calls⟩ := by
  have hd0 := depth0 c A B T q fs down ids aOf hA
  unfold execute
  simp only [List.map_cons, List.map_nil]
  have hip : (rootStep A B T q fs).ip = [] := rfl
  rw [hip]
  cases hfb : fsB fs with
  | nil =>
    have hdepth : stepsDepth [rootStep A B T q fs] = 1 := by
      simp [stepsDepth, stepDepth, rootStep, hfb, stepsB]
    rw [hdepth, execLoop]
    simp only [List.isEmpty_cons, Bool.false_eq_true, ↓reduceIte, bind, Except.bind, hd0, hfb, nextReqs, execLoop]
    exact ⟨_, by rw [respAB_of_nil q ids aOf bOf (hb0 hfb)]⟩
  | cons b0 bs =>
    have hdepth : stepsDepth [rootStep A B T q fs] = 2 := by
      simp [stepsDepth, stepDepth, rootStep, hfb, stepsB]
    rw [hdepth, execLoop]
    simp only [List.isEmpty_cons, Bool.false_eq_true, ↓reduceIte, bind, Except.bind, hd0, hfb, nextReqs]
    cases ids with
    | nil =>
      rw [execLoop]
      simp only [reqsFrom_nil, List.isEmpty_nil, ↓reduceIte]
      exact ⟨_, rfl⟩
    | cons i0 is =>
      have hB' := hB (by rw [hfb]; simp) (by simp)
      rw [hfb] at hB'
      rw [execLoop]
      have hne : (reqsFrom B T q (b0 :: bs) 0 (i0 :: is)).isEmpty = false := by simp [reqsFrom_cons]
      simp only [hne, Bool.false_eq_true, ↓reduceIte, bind, Except.bind,
        depth1 h down (b0 :: bs) i0 is aOf bOf _ hq1 hq2 hids hB', execLoop]
      exact ⟨_, rfl⟩

end PebblesVerif.FlatList
