import PebblesVerif.Proofs.FlatList4
/-! Flat list family, final step: the downstream is the reference evaluator at each service; the
gateway model's answer equals the single-server answer, element by element (up to the order of
object keys inside each element). -/
namespace PebblesVerif.FlatList
open PebblesVerif PebblesVerif.Exec PebblesVerif.Flat PebblesVerif.ResultOps PebblesVerif.Spec

/-- the JSON of one list element, given the evaluation of the sub-selection on it -/
def elemJ (g : Entity → Option (List (String × J))) (e : Entity) : J :=
  match g e with
  | some kvs => .obj kvs
  | none => .null

/-- completing a stored list of references against `[T]`: element by element -/
theorem completeWith_refs (D : Data) (objK : Obj → Option (List (String × J))) (echo : J → J) (T : String)
    (es : List Entity) (hent : ∀ e ∈ es, D.entity? e.id = some e) :
    completeWith D objK echo (.list (.named T)) (.list (es.map (fun e => DVal.ref e.id)))
      = some (.arr (es.map (elemJ (fun e => objK (.ent e.type e.id e.fields))))) := by
  have hmap : (es.map (fun e => DVal.ref e.id)).map (fun x => completeWith D objK echo (.named T) x)
      = es.map (fun e => some (elemJ (fun e => objK (.ent e.type e.id e.fields)) e)) := by
    rw [List.map_map]
    apply List.map_congr_left
    intro e he
    simp only [Function.comp, completeWith, hent e he, elemJ]
    cases objK (.ent e.type e.id e.fields) <;> rfl
  rw [completeWith]
  simp only [hmap]
  have hall : (es.map (fun e => some (elemJ (fun e => objK (.ent e.type e.id e.fields)) e))).all Option.isSome = true := by
    simp
  have hfm : (es.map (fun e => some (elemJ (fun e => objK (.ent e.type e.id e.fields)) e))).filterMap id
      = es.map (elemJ (fun e => objK (.ent e.type e.id e.fields))) := by
    simp [List.filterMap_map]
  rw [hall, hfm]
  rfl

/-- evaluating `{ q { sub } }` at the Query root when `q : [T]` refers to the entities `es` -/
theorem eval_root_q (env : Env) (T q : String) (es : List Entity) (sub : List Sel)
    (hqb : isBuiltinName q = false) (hqn : q ≠ "node") (hqne : q ≠ "")
    (hroot : dlookup q (env.data.root "Query") = some (.list (es.map (fun e => DVal.ref e.id))))
    (hent : ∀ e ∈ es, env.data.entity? e.id = some e) :
    evalSels env (.root "Query") [.field q q [] [] (.list (.named T)) [] sub] []
      = some [(q, .arr (es.map (elemJ (fun e => evalSels env (.ent e.type e.id e.fields) sub []))))] := by
  have hq1 : (q == "__typename") = false := by
    simp only [beq_eq_false_iff_ne, ne_eq]; intro h; subst h; simp [isBuiltinName] at hqb
  have hq2 : (q == "node") = false := by simpa using hqn
  have hq3 : (q == "") = false := by simpa using hqne
  rw [evalSels, evalSel]
  simp only [skipped, List.any_nil, Bool.false_eq_true, ↓reduceIte, fieldValue, hq1, hq3]
  have hst : storedValue env (.root "Query") q [] = .list (es.map (fun e => DVal.ref e.id)) := by
    simp [storedValue, hq2, hroot]
  rw [hst, completeWith_refs env.data _ _ T es hent]
  simp [addKey, J.lookup, evalSels]

/-- a list of element answers that is a list of OBJECTS: every evaluation succeeded -/
theorem elems_obj_inv (g : Entity → Option (List (String × J))) : ∀ (es : List Entity) (rs : List (List (String × J))),
    es.map (elemJ g) = rs.map J.obj → (∀ e ∈ es, g e = some ((g e).getD [])) ∧ rs = es.map (fun e => (g e).getD [])
  | [], rs, h => by
    cases rs with
    | nil => simp
    | cons _ _ => simp at h
  | e :: es, rs, h => by
    cases rs with
    | nil => simp at h
    | cons r rs =>
      simp only [List.map_cons, List.cons.injEq] at h
      obtain ⟨ih1, ih2⟩ := elems_obj_inv g es rs h.2
      have he : g e = some r := by
        have := h.1
        unfold elemJ at this
        cases hg : g e with
        | none => rw [hg] at this; cases this
        | some kvs => rw [hg] at this; injection this with this; rw [this]
      refine ⟨?_, ?_⟩
      · intro x hx
        simp only [List.mem_cons] at hx
        rcases hx with rfl | hx
        · rw [he]; rfl
        · exact ih1 x hx
      · simp [he, ih2]

variable {c : PCtx} {A B T q : String} {fs : List FieldSpec}

theorem names_subA (fs : List FieldSpec) : (namesOf (fsA fs)).Sublist (namesOf fs) := List.Sublist.map _ List.filter_sublist
theorem names_subB (fs : List FieldSpec) : (namesOf (fsB fs)).Sublist (namesOf fs) := List.Sublist.map _ List.filter_sublist

theorem names_disjoint (hnd : (namesOf fs).Nodup) : ∀ n, n ∈ namesOf (fsA fs) → n ∈ namesOf (fsB fs) → False := by
  intro n hnA hnB
  simp only [namesOf, fsA, fsB, List.mem_map, List.mem_filter] at hnA hnB
  obtain ⟨f1, ⟨hf1, hp1⟩, hn1⟩ := hnA
  obtain ⟨f2, ⟨hf2, hp2⟩, hn2⟩ := hnB
  have : f1 = f2 := fst_inj_of_nodup fs hnd f1 hf1 f2 hf2 (hn1.trans hn2.symm)
  subst this; simp_all

/-- **One element, two owners**: if the single server answers `r` for the selected fields on entity
    `e`, then `A` (asked for the helper id and its own fields) and `B` (asked for its own fields,
    with `$id` bound) answer shares `ra`, `rb` with `ra ++ rb` a permutation of `r`. -/
theorem entity_sharesT (h : FamT c A B T q fs) (SA SB : Schema) (D : Data) (e : Entity) (r : List (String × J))
    (hnne : ∀ n ∈ namesOf fs, n ≠ "") (hine : e.id ≠ "")
    (hrefM : evalSels (envOf c.schema D []) (.ent e.type e.id e.fields) (leaves fs) [] = some r) :
    ∃ ra rb, (fsA fs).mapM (fval (envOf c.schema D []) (.ent e.type e.id e.fields)) = some ra
      ∧ (fsB fs).mapM (fval (envOf c.schema D []) (.ent e.type e.id e.fields)) = some rb
      ∧ (ra ++ rb).Perm r
      ∧ evalSels (envOf SA D []) (.ent e.type e.id e.fields) (idField :: leaves (fsA fs)) []
          = some (("id", .str e.id) :: ra)
      ∧ evalSels (envOf SB D [("id", .str e.id)]) (.ent e.type e.id e.fields) (leaves (fsB fs)) [] = some rb
      ∧ J.keys ra = namesOf (fsA fs) ∧ J.keys rb = namesOf (fsB fs) ∧ ra ++ rb ≠ [] := by
  rw [evalSels_leaves _ _ fs h.hnd hnne] at hrefM
  obtain ⟨ra, rb, hra, hrb, hperm⟩ := mapM_partition (fval (envOf c.schema D []) (.ent e.type e.id e.fields))
    (fun f => !f.2.2) fs r hrefM
  rw [filter_not_not] at hrb
  have hra' : (fsA fs).mapM (fval (envOf c.schema D []) (.ent e.type e.id e.fields)) = some ra := hra
  have hrb' : (fsB fs).mapM (fval (envOf c.schema D []) (.ent e.type e.id e.fields)) = some rb := hrb
  have hsubA := names_subA fs
  have hsubB := names_subB fs
  have hndA : (namesOf (fsA fs)).Nodup := h.hnd.sublist hsubA
  have hndB : (namesOf (fsB fs)).Nodup := h.hnd.sublist hsubB
  have hnneA : ∀ n ∈ namesOf (fsA fs), n ≠ "" := fun n hn => hnne n (hsubA.subset hn)
  have hnneB : ∀ n ∈ namesOf (fsB fs), n ≠ "" := fun n hn => hnne n (hsubB.subset hn)
  have hvalA : evalSels (envOf SA D []) (.ent e.type e.id e.fields) (leaves (fsA fs)) [] = some ra := by
    rw [evalSels_leaves _ _ _ hndA hnneA, ← hra']
    exact mapM_congr _ (fun f => fval_ent_schema SA c.schema D [] [] _ _ _ f)
  have hownA : evalSels (envOf SA D []) (.ent e.type e.id e.fields) (idField :: leaves (fsA fs)) []
      = some (("id", .str e.id) :: ra) := by
    have hid0 : evalSel (envOf SA D []) (.ent e.type e.id e.fields) idField [] = some [("id", .str e.id)] := by
      have : (e.id != "") = true := by simpa using hine
      simp [idField, evalSel, skipped, fieldValue, this, addKey, J.lookup]
    rw [evalSels, hid0]
    simp only
    rw [evalSels_acc _ _ (leaves (fsA fs)) _ (plainFields_leaves _) (by rw [respKeys_leaves _ hnneA]; exact hndA) (by
      intro k hk
      rw [respKeys_leaves _ hnneA] at hk
      simp only [J.keys, List.map_cons, List.map_nil, List.mem_singleton]
      intro heq; subst heq; exact h.hfid "id" (hsubA.subset hk) rfl), hvalA]
    simp
  have hvalB : evalSels (envOf SB D [("id", .str e.id)]) (.ent e.type e.id e.fields) (leaves (fsB fs)) [] = some rb := by
    rw [evalSels_leaves _ _ _ hndB hnneB, ← hrb']
    exact mapM_congr _ (fun f => fval_ent_schema SB c.schema D _ [] _ _ _ f)
  have hne : ra ++ rb ≠ [] := by
    intro hnil
    have hlen := hperm.length_eq
    rw [hnil, mapM_length _ fs r hrefM] at hlen
    have : fs = [] := by cases hfs : fs with | nil => rfl | cons _ _ => rw [hfs] at hlen; simp at hlen
    exact h.hne this
  exact ⟨ra, rb, hra', hrb', hperm, hownA, hvalB, fval_keys _ _ _ _ hra', fval_keys _ _ _ _ hrb', hne⟩

/-- `entity_sharesT` for a member of the family at the `Query` root (only the hypotheses about the
    type `T` are used: `FamT`) -/
theorem entity_shares (h : Fam c A B T q fs) (SA SB : Schema) (D : Data) (e : Entity) (r : List (String × J))
    (hnne : ∀ n ∈ namesOf fs, n ≠ "") (hine : e.id ≠ "")
    (hrefM : evalSels (envOf c.schema D []) (.ent e.type e.id e.fields) (leaves fs) [] = some r) :
    ∃ ra rb, (fsA fs).mapM (fval (envOf c.schema D []) (.ent e.type e.id e.fields)) = some ra
      ∧ (fsB fs).mapM (fval (envOf c.schema D []) (.ent e.type e.id e.fields)) = some rb
      ∧ (ra ++ rb).Perm r
      ∧ evalSels (envOf SA D []) (.ent e.type e.id e.fields) (idField :: leaves (fsA fs)) []
          = some (("id", .str e.id) :: ra)
      ∧ evalSels (envOf SB D [("id", .str e.id)]) (.ent e.type e.id e.fields) (leaves (fsB fs)) [] = some rb
      ∧ J.keys ra = namesOf (fsA fs) ∧ J.keys rb = namesOf (fsB fs) ∧ ra ++ rb ≠ [] :=
  entity_sharesT h.toFamT SA SB D e r hnne hine hrefM

/-- side conditions on the keys of the two shares of one element -/
theorem shares_goodT (h : FamT c A B T q fs) (i : String) (ra rb : List (String × J))
    (hine : i ≠ "")
    (hkA : J.keys ra = namesOf (fsA fs)) (hkB : J.keys rb = namesOf (fsB fs)) (hne : ra ++ rb ≠ []) :
    (i ≠ "" ∧ (J.keys rb).Nodup ∧ ∀ k ∈ J.keys rb, k ∉ J.keys (("id", J.str i) :: ra))
      ∧ GoodElem (ra ++ rb) := by
  have hsubA := names_subA fs
  have hsubB := names_subB fs
  have hbnd : (J.keys rb).Nodup := by rw [hkB]; exact h.hnd.sublist hsubB
  have hdisj : ∀ k ∈ J.keys rb, k ∉ J.keys (("id", J.str i) :: ra) := by
    intro k hk
    rw [hkB] at hk
    simp only [J.keys, List.map_cons, List.mem_cons, not_or]
    refine ⟨fun heq => h.hfid k (hsubB.subset hk) heq, ?_⟩
    have := hkA; simp only [J.keys] at this; rw [this]
    exact fun hkA' => names_disjoint h.hnd k hkA' hk
  have hkeysAB : ∀ k ∈ J.keys (ra ++ rb), k ∈ namesOf fs := by
    intro k hk
    rw [keys_append, hkA, hkB] at hk
    simp only [List.mem_append] at hk
    rcases hk with hk | hk
    · exact hsubA.subset hk
    · exact hsubB.subset hk
  have hid : "id" ∉ J.keys (ra ++ rb) := fun hk => h.hfid "id" (hkeysAB _ hk) rfl
  have htn : "__typename" ∉ J.keys (ra ++ rb) := by
    intro hk
    have := h.hfb "__typename" (hkeysAB _ hk)
    simp [isBuiltinName] at this
  exact ⟨⟨hine, hbnd, hdisj⟩, hid, htn, hne⟩

theorem shares_good (h : Fam c A B T q fs) (i : String) (ra rb : List (String × J))
    (hine : i ≠ "")
    (hkA : J.keys ra = namesOf (fsA fs)) (hkB : J.keys rb = namesOf (fsB fs)) (hne : ra ++ rb ≠ []) :
    (i ≠ "" ∧ (J.keys rb).Nodup ∧ ∀ k ∈ J.keys rb, k ∉ J.keys (("id", J.str i) :: ra))
      ∧ GoodElem (ra ++ rb) :=
  shares_goodT h.toFamT i ra rb hine hkA hkB hne

/-- the share of the single-server answer for the fields `sub` on the entity with id `i` -/
def shareOf (S : Schema) (D : Data) (sub : List FieldSpec) (i : String) : List (String × J) :=
  match D.entity? i with
  | some e => (sub.mapM (fval (envOf S D []) (.ent e.type e.id e.fields))).getD []
  | none => []

theorem shareOf_eq (S : Schema) (D : Data) (sub : List FieldSpec) (e : Entity) (r : List (String × J))
    (hent : D.entity? e.id = some e) (hr : sub.mapM (fval (envOf S D []) (.ent e.type e.id e.fields)) = some r) :
    shareOf S D sub e.id = r := by
  simp [shareOf, hent, hr]

/-- `flat_list_one_hop` with the calls made explicit (`callsOf`) and the SHARING made explicit: the
    element the gateway returns at a position is a function `dOf` of the ID at that position (the
    one answer of `B` for an id is stitched in wherever that id stands) -/
theorem flat_list_one_hop_shared (h : Fam c A B T q fs)
    (svcs : List Svc) (SA SB : Schema) (D : Data) (es : List Entity) (rs : List (List (String × J)))
    (hq1 : '#' ∉ q.toList) (hq2 : ':' ∉ q.toList) (hqne : q ≠ "")
    (hi : ∀ e ∈ es, e.id ≠ "")
    (hnne : ∀ n ∈ namesOf fs, n ≠ "")
    (hsA : svcs.find? (·.url == A) = some ⟨A, SA⟩) (hsB : svcs.find? (·.url == B) = some ⟨B, SB⟩)
    (hSB : ∃ td, SB.type? T = some td ∧ td.kind = .object)
    (hroot : dlookup q (D.root "Query") = some (.list (es.map (fun e => DVal.ref e.id))))
    (hent : ∀ e ∈ es, D.entity? e.id = some e ∧ e.type = T)
    (href : Spec.eval c.schema D ⟨.query, "", [], [QL T q fs]⟩ [] = some (.obj [(q, .arr (rs.map J.obj))])) :
    ∃ (dOf : String → List (String × J)),
      gateway c {} ⟨.query, "", [], [QL T q fs]⟩ none (specDownstream svcs D)
        = .ok ⟨some [(q, .arr ((es.map (fun e => dOf e.id)).map J.obj))], [],
               callsOf c A B T q fs (es.map (fun e => e.id))⟩
      ∧ rs.length = es.length
      ∧ ∀ (j : Nat) (e : Entity) (r : List (String × J)), es[j]? = some e → rs[j]? = some r → (dOf e.id).Perm r := by
  have hent1 : ∀ e ∈ es, D.entity? e.id = some e := fun e he => (hent e he).1
  -- the reference answer, element by element
  let g : Entity → Option (List (String × J)) :=
    fun e => evalSels (envOf c.schema D []) (.ent e.type e.id e.fields) (leaves fs) []
  have hrefL : es.map (elemJ g) = rs.map J.obj := by
    unfold Spec.eval at href
    simp only [OpKind.rootName, QL] at href
    have := eval_root_q (envOf c.schema D []) T q es (leaves fs) h.hqb h.hqn hqne hroot hent1
    simp only [envOf] at this
    rw [this] at href
    simp only [Option.map_some, Option.some.injEq, J.obj.injEq, List.cons.injEq, Prod.mk.injEq, J.arr.injEq, and_true,
      true_and] at href
    exact href
  obtain ⟨hsome, hrs⟩ := elems_obj_inv g es rs hrefL
  let aOf := shareOf c.schema D (fsA fs)
  let bOf := shareOf c.schema D (fsB fs)
  -- every element: the two shares and their properties
  have hper : ∀ e ∈ es, (aOf e.id ++ bOf e.id).Perm ((g e).getD [])
      ∧ evalSels (envOf SA D []) (.ent e.type e.id e.fields) (idField :: leaves (fsA fs)) []
          = some (("id", .str e.id) :: aOf e.id)
      ∧ evalSels (envOf SB D [("id", .str e.id)]) (.ent e.type e.id e.fields) (leaves (fsB fs)) [] = some (bOf e.id)
      ∧ GoodId aOf bOf e.id ∧ GoodElem (aOf e.id ++ bOf e.id) := by
    intro e he
    obtain ⟨ra, rb, hra, hrb, hperm, hownA, hvalB, hkA, hkB, hne⟩ :=
      entity_shares h SA SB D e ((g e).getD []) hnne (hi e he) (hsome e he)
    have ha : aOf e.id = ra := shareOf_eq c.schema D (fsA fs) e ra (hent1 e he) hra
    have hb : bOf e.id = rb := shareOf_eq c.schema D (fsB fs) e rb (hent1 e he) hrb
    have hgood := shares_good h e.id ra rb (hi e he) hkA hkB hne
    rw [ha, hb]
    exact ⟨hperm, hownA, hvalB, by unfold GoodId; rw [ha, hb]; exact hgood.1, hgood.2⟩
  let ids := es.map (fun e => e.id)
  have hmemids : ∀ i ∈ ids, ∃ e ∈ es, e.id = i := by
    intro i hi'
    simpa [ids] using hi'
  -- what service A answers
  have hA : specDownstream svcs D A [rqOf c (rootStep A B T q fs) []] = .ok [respA q ids aOf] := by
    have hhdr : (header c (rootStep A B T q fs)).kind = .query := by
      simp [header, rootStep, Step.ip, h.hkind]
    have hev := eval_root_q (envOf SA D []) T q es (idField :: leaves (fsA fs)) h.hqb h.hqn hqne hroot hent1
    have hels : es.map (elemJ (fun e => evalSels (envOf SA D []) (.ent e.type e.id e.fields) (idField :: leaves (fsA fs)) []))
        = ids.map (elemA aOf) := by
      simp only [ids, List.map_map]
      apply List.map_congr_left
      intro e he
      simp only [elemJ, (hper e he).2.1, Function.comp, elemA]
    rw [hels] at hev
    have hsels : (rootStep A B T q fs).sels = [.field q q [] [] (.list (.named T)) [] (idField :: leaves (fsA fs))] := rfl
    simp only [specDownstream, hsA, rqOf, List.map_cons, List.map_nil, hhdr, Spec.eval, OpKind.rootName, hsels]
    simp only [envOf] at hev
    rw [hev]
    simp [respA]
  -- what service B answers to the batch
  have hB : fsB fs ≠ [] → ids ≠ [] → specDownstream svcs D B (batchB c B T q (fsB fs) ids) = .ok (answersB bOf ids) := by
    intro _ _
    have hhdr : (header c (stepB B T q (fsB fs))).kind = .query := by simp [header, stepB, Step.ip]
    have hsels : (stepB B T q (fsB fs)).sels = convertToNodeQuery T (leaves (fsB fs)) := rfl
    simp only [specDownstream, hsB, batchB, answersB, List.map_map]
    congr 1
    apply List.map_congr_left
    intro i hi'
    obtain ⟨e, he, rfl⟩ := hmemids i (mem_of_mem_dedupIds hi')
    have hnl := eval_node_lookup (envOf SB D [("id", .str e.id)]) e (leaves (fsB fs)) (bOf e.id) (hent1 e he)
      (by simp [envOf, J.lookup]) (by rw [(hent e he).2]; exact hSB) (hper e he).2.2.1
    rw [(hent e he).2] at hnl
    simp only [envOf] at hnl
    simp only [Function.comp, rqB, rqOf, hhdr, Spec.eval, OpKind.rootName, hsels, hnl, Option.map_some]
  have hb0 : fsB fs = [] → ∀ i ∈ ids, bOf i = [] := by
    intro hnil i _
    simp only [bOf, shareOf, hnil]
    cases D.entity? i <;> simp
  have hids : ∀ i ∈ ids, GoodId aOf bOf i := by
    intro i hi'
    obtain ⟨e, he, rfl⟩ := hmemids i hi'
    exact (hper e he).2.2.2.1
  have hd : ∀ i ∈ ids, GoodElem (aOf i ++ bOf i) := by
    intro i hi'
    obtain ⟨e, he, rfl⟩ := hmemids i hi'
    exact (hper e he).2.2.2.2
  have hg := stage_gateway h (specDownstream svcs D) ids aOf bOf hq1 hq2 hids hA hB hb0 hd
  refine ⟨fun i => aOf i ++ bOf i, ?_, by simp [hrs], ?_⟩
  · rw [hg]; simp only [List.map_map, ids]; rfl
  · intro j e r hej hrj
    rw [hrs] at hrj
    simp only [List.getElem?_map, Option.map_eq_some_iff] at hrj
    obtain ⟨e', hej', rfl⟩ := hrj
    rw [hej] at hej'
    injection hej' with hee
    subst hee
    exact (hper e (List.mem_of_getElem? hej)).1

/-- `flat_list_one_hop` with the calls made explicit (`callsOf`): one call to `A`, and ONE batch to
    `B` — a lookup per distinct id — iff `B` owns a selected field and the list is not empty -/
theorem flat_list_one_hop_calls (h : Fam c A B T q fs)
    (svcs : List Svc) (SA SB : Schema) (D : Data) (es : List Entity) (rs : List (List (String × J)))
    (hq1 : '#' ∉ q.toList) (hq2 : ':' ∉ q.toList) (hqne : q ≠ "")
    (hi : ∀ e ∈ es, e.id ≠ "")
    (hnne : ∀ n ∈ namesOf fs, n ≠ "")
    (hsA : svcs.find? (·.url == A) = some ⟨A, SA⟩) (hsB : svcs.find? (·.url == B) = some ⟨B, SB⟩)
    (hSB : ∃ td, SB.type? T = some td ∧ td.kind = .object)
    (hroot : dlookup q (D.root "Query") = some (.list (es.map (fun e => DVal.ref e.id))))
    (hent : ∀ e ∈ es, D.entity? e.id = some e ∧ e.type = T)
    (href : Spec.eval c.schema D ⟨.query, "", [], [QL T q fs]⟩ [] = some (.obj [(q, .arr (rs.map J.obj))])) :
    ∃ (ds : List (List (String × J))),
      gateway c {} ⟨.query, "", [], [QL T q fs]⟩ none (specDownstream svcs D)
        = .ok ⟨some [(q, .arr (ds.map J.obj))], [], callsOf c A B T q fs (es.map (fun e => e.id))⟩
      ∧ ds.length = es.length ∧ rs.length = es.length
      ∧ ∀ (j : Nat) (d r : List (String × J)), ds[j]? = some d → rs[j]? = some r → d.Perm r := by
  obtain ⟨dOf, hg, hlen, hel⟩ :=
    flat_list_one_hop_shared h svcs SA SB D es rs hq1 hq2 hqne hi hnne hsA hsB hSB hroot hent href
  refine ⟨es.map (fun e => dOf e.id), hg, by simp, hlen, ?_⟩
  intro j d r hdj hrj
  simp only [List.getElem?_map, Option.map_eq_some_iff] at hdj
  obtain ⟨e, hej, rfl⟩ := hdj
  exact hel j e r hej hrj

/-- **C01 on the flat one-hop family with a LIST-valued root field.** See `Props/C01FlatList.lean`
    (`C01_flat_list_one_hop`) for the statement in words. -/
theorem flat_list_one_hop (h : Fam c A B T q fs)
    (svcs : List Svc) (SA SB : Schema) (D : Data) (es : List Entity) (rs : List (List (String × J)))
    (hq1 : '#' ∉ q.toList) (hq2 : ':' ∉ q.toList) (hqne : q ≠ "")
    (hi : ∀ e ∈ es, e.id ≠ "")
    (hnne : ∀ n ∈ namesOf fs, n ≠ "")
    (hsA : svcs.find? (·.url == A) = some ⟨A, SA⟩) (hsB : svcs.find? (·.url == B) = some ⟨B, SB⟩)
    (hSB : ∃ td, SB.type? T = some td ∧ td.kind = .object)
    (hroot : dlookup q (D.root "Query") = some (.list (es.map (fun e => DVal.ref e.id))))
    (hent : ∀ e ∈ es, D.entity? e.id = some e ∧ e.type = T)
    (href : Spec.eval c.schema D ⟨.query, "", [], [QL T q fs]⟩ [] = some (.obj [(q, .arr (rs.map J.obj))])) :
    ∃ (ds : List (List (String × J))) (calls : List Call),
      gateway c {} ⟨.query, "", [], [QL T q fs]⟩ none (specDownstream svcs D)
        = .ok ⟨some [(q, .arr (ds.map J.obj))], [], calls⟩
      ∧ ds.length = es.length ∧ rs.length = es.length
      ∧ ∀ (j : Nat) (d r : List (String × J)), ds[j]? = some d → rs[j]? = some r → d.Perm r := by
  obtain ⟨ds, hg, h1, h2, h3⟩ := flat_list_one_hop_calls h svcs SA SB D es rs hq1 hq2 hqne hi hnne hsA hsB hSB hroot hent href
  exact ⟨ds, _, hg, h1, h2, h3⟩

/-- the batch sent to `B`, as variables: one `{id}` per DISTINCT id, in order of first occurrence -/
theorem batchB_vars (c : PCtx) (B T q : String) (bs : List FieldSpec) (ids : List String) :
    (batchB c B T q bs ids).map (·.vars) = (dedupIds ids).map (fun i => [("id", J.str i)]) := by
  simp [batchB, rqB, rqOf, List.map_map, Function.comp]

theorem callsOf_two (c : PCtx) (A B T q : String) (fs : List FieldSpec) (ids : List String)
    (hB : fsB fs ≠ []) (hne : ids ≠ []) :
    callsOf c A B T q fs ids = [⟨A, [rqOf c (rootStep A B T q fs) []]⟩, ⟨B, batchB c B T q (fsB fs) ids⟩] := by
  unfold callsOf
  cases hfb : fsB fs with
  | nil => exact absurd hfb hB
  | cons _ _ =>
    cases ids with
    | nil => exact absurd rfl hne
    | cons _ _ => rfl

theorem callsOf_one (c : PCtx) (A B T q : String) (fs : List FieldSpec) (ids : List String)
    (h : fsB fs = [] ∨ ids = []) :
    callsOf c A B T q fs ids = [⟨A, [rqOf c (rootStep A B T q fs) []]⟩] := by
  unfold callsOf
  rcases h with h | h
  · rw [h]
  · rw [h]; cases fsB fs <;> rfl

theorem dedupIds_nodup (ids : List String) : (dedupIds ids).Nodup := dedupInto_nodup ids [] (by simp)

theorem mem_dedupIds (ids : List String) (i : String) : i ∈ dedupIds ids ↔ i ∈ ids :=
  ⟨mem_of_mem_dedupIds, mem_dedupInto ids [] i⟩

end PebblesVerif.FlatList
