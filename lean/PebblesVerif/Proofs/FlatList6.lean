import PebblesVerif.Proofs.FlatList5
/-!
Non-vacuity of `flat_list_one_hop`: a concrete federation (two services, `Animal` owned jointly,
root field `animals : [Animal]`) meets every hypothesis — with three distinct entities, with a
repeated entity, and with the empty list — and the model's answer is checked by evaluation too.
-/
namespace PebblesVerif.FlatList.Example
open PebblesVerif PebblesVerif.Exec PebblesVerif.Spec PebblesVerif.Flat

def tStr : TypeRef := .named "String"
def animalT : TypeDef := { name := "Animal", kind := Kind.object, fields := [⟨"id", [], .nonNull (.named "ID"), none, "", []⟩, ⟨"name", [], tStr, none, "", []⟩, ⟨"age", [], tStr, none, "", []⟩, ⟨"sound", [], tStr, none, "", []⟩] }
def queryT (fs : List FieldDef) : TypeDef := { name := "Query", kind := Kind.object, fields := fs }
def merged : Schema := { types := [animalT, queryT [⟨"animals", [], .list (.named "Animal"), none, "", []⟩]], query := some "Query" }
def schemaA : Schema := merged
def schemaB : Schema := { types := [animalT, queryT []], query := some "Query" }
def tum : Tum := [("Query", ⟨[("animals", "A")], false⟩), ("Animal", ⟨[("name", "A"), ("age", "B"), ("sound", "A")], true⟩)]
def ctx : PCtx := ⟨merged, tum, .query, ""⟩
def fs : List FieldSpec := [("age", tStr, true), ("name", tStr, false), ("sound", tStr, false)]
def ent (i n a : String) : Entity :=
  ⟨i, "Animal", [("id", .scalar (.str i)), ("name", .scalar (.str n)), ("age", .scalar (.str a)), ("sound", .null)]⟩
def e1 : Entity := ent "QW5pbWFsOjE=" "rex" "7"
/-- this id contains `#` (the path separator) on purpose: ids are arbitrary non-empty strings -/
def e2 : Entity := ent "QW5pbWFs#2" "tom" "3"
def e3 : Entity := ent "QW5pbWFsOjM=" "kit" "1"
/-- the shared entity graph; `animals` refers to the entities `es`, in order -/
def dataOf (es : List Entity) : Data := ⟨[e1, e2, e3], [("Query", [("animals", .list (es.map (fun e => .ref e.id)))])]⟩
def svcs : List Svc := [⟨"A", schemaA⟩, ⟨"B", schemaB⟩]
def op : Op := ⟨.query, "", [], [QL "Animal" "animals" fs]⟩

theorem fam : Fam ctx "A" "B" "Animal" "animals" fs where
  hAB := by decide
  hAint := by decide
  hBint := by decide
  hqb := by simp [isBuiltinName]
  hqn := by decide
  hTroot := by decide
  hne := by decide
  hnd := by decide
  hfb := by simp [namesOf, fs, isBuiltinName]
  hfid := by decide
  hschemaT := ⟨animalT, by rfl, rfl⟩
  hschemaQ := ⟨_, by rfl, rfl⟩
  tumQn := by rfl
  tumQq := by rfl
  tumTn := by rfl
  tumTid := by rfl
  tumTf := by decide
  hurlsA := by decide
  hurlsNd := by decide
  hkind := rfl
  hname := rfl

def exp (n a : String) : List (String × J) := [("age", .str a), ("name", .str n), ("sound", .null)]
def x1 := exp "rex" "7"
def x2 := exp "tom" "3"
def x3 := exp "kit" "1"

/-- the theorem applied to `animals = es` for any list drawn from the three entities -/
theorem appliedTo (es : List Entity) (rs : List (List (String × J)))
    (hes : ∀ e ∈ es, e = e1 ∨ e = e2 ∨ e = e3)
    (href : Spec.eval ctx.schema (dataOf es) op [] = some (.obj [("animals", .arr (rs.map J.obj))])) :
    ∃ (ds : List (List (String × J))) (calls : List Call),
      gateway ctx {} op none (specDownstream svcs (dataOf es)) = .ok ⟨some [("animals", .arr (ds.map J.obj))], [], calls⟩
      ∧ ds.length = es.length ∧ rs.length = es.length
      ∧ ∀ (j : Nat) (d r : List (String × J)), ds[j]? = some d → rs[j]? = some r → d.Perm r :=
  flat_list_one_hop fam svcs schemaA schemaB (dataOf es) es rs (by decide) (by decide) (by decide)
    (by intro e he; rcases hes e he with rfl | rfl | rfl <;> decide)
    (by decide) (by rfl) (by rfl) ⟨animalT, by rfl, rfl⟩ (by rfl)
    (by intro e he; rcases hes e he with rfl | rfl | rfl <;> exact ⟨by rfl, rfl⟩) href

theorem reference3 : Spec.eval ctx.schema (dataOf [e1, e2, e3]) op [] = some (.obj [("animals", .arr ([x1, x2, x3].map J.obj))]) := by
  rfl
/-- a repeated entity -/
theorem referenceDup : Spec.eval ctx.schema (dataOf [e1, e2, e1]) op [] = some (.obj [("animals", .arr ([x1, x2, x1].map J.obj))]) := by
  rfl
/-- the empty list -/
theorem reference0 : Spec.eval ctx.schema (dataOf []) op [] = some (.obj [("animals", .arr (([] : List (List (String × J))).map J.obj))]) := by
  rfl

/-- the conclusion of the theorem for `animals = es` with reference elements `rs` -/
def Holds (es : List Entity) (rs : List (List (String × J))) : Prop :=
  ∃ (ds : List (List (String × J))) (calls : List Call),
    gateway ctx {} op none (specDownstream svcs (dataOf es)) = .ok ⟨some [("animals", .arr (ds.map J.obj))], [], calls⟩
    ∧ ds.length = es.length ∧ rs.length = es.length
    ∧ ∀ (j : Nat) (d r : List (String × J)), ds[j]? = some d → rs[j]? = some r → d.Perm r

theorem applied3 : Holds [e1, e2, e3] [x1, x2, x3] := appliedTo [e1, e2, e3] [x1, x2, x3] (by simp) reference3
theorem appliedDup : Holds [e1, e2, e1] [x1, x2, x1] := appliedTo [e1, e2, e1] [x1, x2, x1] (by simp) referenceDup
theorem applied0 : Holds [] [] := appliedTo [] [] (by simp) reference0

/-! ### the model's answer, by evaluation (validates the statement independently of the proof) -/


/-- an element as the gateway returns it: `A`'s fields, then `B`'s -/
def y (n a : String) : J := .obj [("name", .str n), ("sound", .null), ("age", .str a)]

/-- data, errors and, per call, the URL and the variables of every request of the batch -/
def outcome (es : List Entity) :
    Option (Option (List (String × J)) × List String × List (String × List (List (String × J)))) :=
  match gateway ctx {} op none (specDownstream svcs (dataOf es)) with
  | .ok g => some (g.data, g.errors, g.calls.map (fun cl => (cl.url, cl.batch.map (·.vars))))
  | .error _ => none

-- (kernel evaluation of the whole pipeline gets stuck on `String.startsWith`; these run in the
-- evaluator at every build and fail the build if the model's answer changes)

#guard outcome [e1, e2, e3] == some (some [("animals", .arr [y "rex" "7", y "tom" "3", y "kit" "1"])], [],
    [("A", [[]]), ("B", [[("id", .str e1.id)], [("id", .str e2.id)], [("id", .str e3.id)]])])

-- a repeated entity: the batch to `B` carries TWO lookups for three elements, and the one answer
-- for `e1` is stitched in at positions 0 and 2
#guard outcome [e1, e2, e1] == some (some [("animals", .arr [y "rex" "7", y "tom" "3", y "rex" "7"])], [],
    [("A", [[]]), ("B", [[("id", .str e1.id)], [("id", .str e2.id)]])])

-- the empty list: no call to `B` at all, `animals: []`
#guard outcome [] == some (some [("animals", .arr [])], [], [("A", [[]])])

-- a dangling reference: the single server answers `[{…}, null]`. Before the repair of
-- `FindInsertionPoints` the gateway failed the whole request ("entry in result wasn't a map": every
-- element of a list on a stitch path had to be an object — defect `C01-null-in-object-list`); with
-- the guard `if iEntry == nil { continue }` (regenerated fact `Gen.Nulls.findIPSkipsNullElements`)
-- the null keeps its place, ONE lookup goes to `B`, and the answer is the single server's.
-- `C01_flat_list_nulls_one_hop` is the theorem for every such list.
def ghost : Entity := ⟨"QW5pbWFsOjk=", "Animal", []⟩
#guard outcome [e1, ghost] ==
  (if Gen.Nulls.findIPSkipsNullElements then
    some (some [("animals", .arr [y "rex" "7", .null])], [], [("A", [[]]), ("B", [[("id", .str e1.id)]])])
   else some (none, ["entry in result wasn't a map"], []))
#guard Spec.eval ctx.schema (dataOf [e1, ghost]) op [] == some (.obj [("animals", .arr [.obj x1, .null])])
-- nothing but dangling references: no call to `B`; the list of nulls stays in the response (the
-- scrubber deleted it before the repair: `Gen.Nulls.cleanKeepsListWithNonMapElement`)
#guard outcome [ghost, ghost] ==
  (if Gen.Nulls.findIPSkipsNullElements then
    some (some (if Gen.Nulls.cleanKeepsListWithNonMapElement then [("animals", .arr [.null, .null])] else []), [],
      [("A", [[]])])
   else some (none, ["entry in result wasn't a map"], []))

end PebblesVerif.FlatList.Example
