import PebblesVerif.Proofs.FlatList5
import PebblesVerif.Proofs.Nulls
/-!
The "LIST of objects, two owners" family (`Proofs/FlatList1 … 5`) with `null` ELEMENTS in the list:
the root field `q : [T]` is answered by `A` with a list whose elements are entities (`{id, …}`) or
`null`. Stages 3–5 again (execute, scrub, pipeline) — sanitise and plan (`FlatList.stage_sanitize`,
`FlatList.stage_plan`) do not look at data. A list is given as `xs : List (Option String)`:
`some i` = the entity with id `i`, `none` = a `null` element.

`FindInsertionPoints` passes over the `null`s (regenerated fact `Gen.Nulls.findIPSkipsNullElements`);
the entity at position `j` gets the point `q:<j>#<id>` — `j` counts the `null`s before it — and the
answer of `B` is merged into the element at index `j`; the scrubber leaves the `null`s where they are
and keeps the list also when it holds nothing but `null`s
(`Gen.Nulls.cleanKeepsListWithNonMapElement`).
-/
namespace PebblesVerif.FlatListN
open PebblesVerif PebblesVerif.Exec PebblesVerif.Flat PebblesVerif.ResultOps PebblesVerif.ScrubClean
open PebblesVerif.FlatList

variable {c : PCtx} {A B T q : String} {fs : List FieldSpec}

/-- one list element as `A` answers it: an entity (the id, then `A`'s fields) or `null` -/
def elemAo (aOf : String → List (String × J)) : Option String → J
  | some i => elemA aOf i
  | none => .null

/-- what service `A` answers: the list under `q`, `null`s included -/
def respAo (q : String) (xs : List (Option String)) (aOf : String → List (String × J)) : List (String × J) :=
  [(q, .arr (xs.map (elemAo aOf)))]

/-- the ids of the entity elements, in order -/
def idsOf (xs : List (Option String)) : List String := xs.filterMap id

/-- the entity elements with their POSITIONS in the list (counting from `j`) -/
def indexed : Nat → List (Option String) → List (Nat × String)
  | _, [] => []
  | j, none :: xs => indexed (j + 1) xs
  | j, some i :: xs => (j, i) :: indexed (j + 1) xs

theorem indexed_ids : ∀ (j : Nat) (xs : List (Option String)), (indexed j xs).map (·.2) = idsOf xs
  | _, [] => rfl
  | j, none :: xs => by simpa [indexed, idsOf] using indexed_ids (j + 1) xs
  | j, some i :: xs => by simpa [indexed, idsOf] using indexed_ids (j + 1) xs

/-- the positions are positions of the list: `xs[j] = some i` for every `(j, i)` -/
theorem indexed_spec : ∀ (j : Nat) (xs : List (Option String)) (p : Nat × String),
    p ∈ indexed j xs → j ≤ p.1 ∧ xs[p.1 - j]? = some (some p.2)
  | _, [], p, h => by simp [indexed] at h
  | j, none :: xs, p, h => by
    obtain ⟨h1, h2⟩ := indexed_spec (j + 1) xs p (by simpa [indexed] using h)
    refine ⟨by omega, ?_⟩
    have : p.1 - j = (p.1 - (j + 1)) + 1 := by omega
    rw [this]; simpa using h2
  | j, some i :: xs, p, h => by
    simp only [indexed, List.mem_cons] at h
    rcases h with rfl | h
    · simp
    · obtain ⟨h1, h2⟩ := indexed_spec (j + 1) xs p h
      refine ⟨by omega, ?_⟩
      have : p.1 - j = (p.1 - (j + 1)) + 1 := by omega
      rw [this]; simpa using h2

/-- the realised insertion points: one per ENTITY element, `q:<position>#<id>` -/
def pointsAt (q : String) (ps : List (Nat × String)) : List (List String) := ps.map (fun p => [pointL q p.1 p.2])

/-- `findIP`'s loop over the entries: `null`s are passed over, the index still advances -/
theorem findIP_go (T q : String) (fs : List FieldSpec) (aOf : String → List (String × J)) :
    ∀ (xs : List (Option String)) (j : Nat) (acc : List (List String)),
    findIPW.go true [] [] (QLown T q fs) true (xs.map (elemAo aOf)) j acc
      = .ok (some (acc ++ pointsAt q (indexed j xs)))
  | [], j, acc => by simp [findIPW.go, pointsAt, indexed]
  | none :: xs, j, acc => by
    simp only [List.map_cons, elemAo]
    rw [findIPW.go]
    simp only [↓reduceIte, indexed]
    exact findIP_go T q fs aOf xs (j + 1) acc
  | some i :: xs, j, acc => by
    simp only [List.map_cons, elemAo, elemA]
    rw [findIPW.go]
    simp only [↓reduceIte, extractID, J.lookup, fmtID, bind, Except.bind, findIPW, List.nil_append]
    have hdn : displayName (QLown T q fs) = q := by
      simp [displayName, QLown]
    rw [hdn]
    have := findIP_go T q fs aOf xs (j + 1) (acc ++ [[pointL q j i]])
    rw [pointL] at this
    rw [this]
    simp [pointsAt, indexed, pointL]

theorem findIP_q (T q : String) (fs : List FieldSpec) (xs : List (Option String)) (aOf : String → List (String × J)) :
    findIP [q] [QLown T q fs] (respAo q xs aOf) [] = .ok (pointsAt q (indexed 0 xs)) := by
  have hfs : findSelection q [QLown T q fs] = some (QLown T q fs) := by
    exact findSelection_head q q [] [] _ [] _ [] q (by simp)
  rw [findIP, Nulls.skips_current, findIPW, hfs]
  have hl : J.lookup q (respAo q xs aOf) = some (.arr (xs.map (elemAo aOf))) := by simp [respAo, J.lookup]
  rw [hl]
  have hty : (selType (QLown T q fs)).isList = true := rfl
  simp only [hty, ↓reduceIte, List.isEmpty_nil, findIP_go T q fs aOf xs 0 [], bind, Except.bind, List.nil_append,
    Option.getD_some]

/-- the follow-up requests: one per entity element, at its realised insertion point -/
def reqsAt (B T q : String) (bs : List FieldSpec) (ps : List (Nat × String)) : List ExecReq :=
  ps.map (fun p => ⟨stepB B T q bs, [pointL q p.1 p.2]⟩)

def nextReqs (B T q : String) (bs : List FieldSpec) (xs : List (Option String)) : List ExecReq :=
  match bs with
  | [] => []
  | _ :: _ => reqsAt B T q bs (indexed 0 xs)

theorem parseOne_root (A B T q : String) (fs : List FieldSpec) (xs : List (Option String)) (aOf : String → List (String × J)) :
    parseOne ⟨FlatList.rootStep A B T q fs, []⟩ (respAo q xs aOf)
      = .ok (respAo q xs aOf, nextReqs B T q (fsB fs) xs) := by
  unfold parseOne
  simp only [FlatList.rootStep, Step.parentType, isRootName, beq_self_eq_true, Bool.true_or, ↓reduceIte, bind, Except.bind,
    Step.thn, Step.sels, List.length_nil]
  cases hB : fsB fs with
  | nil => simp [stepsB, pure, Except.pure, nextReqs]
  | cons b bs =>
    simp only [stepsB, List.foldlM_cons, List.foldlM_nil, Step.ip, List.drop_zero, findIP_q T q fs xs aOf, bind,
      Except.bind, pure, Except.pure, List.nil_append, nextReqs, reqsAt, stepB, pointsAt, List.map_map]
    rfl

/-- **Depth 0**: one batched call to `A`; one follow-up request per ENTITY element -/
theorem depth0 (c : PCtx) (A B T q : String) (fs : List FieldSpec) (down : Downstream) (xs : List (Option String))
    (aOf : String → List (String × J))
    (hdown : down A [rqOf c (FlatList.rootStep A B T q fs) []] = .ok [respAo q xs aOf]) :
    execDepth c {} none down [⟨FlatList.rootStep A B T q fs, []⟩] ⟨[], []⟩
      = .ok (⟨respAo q xs aOf, [⟨A, [rqOf c (FlatList.rootStep A B T q fs) []]⟩]⟩, nextReqs B T q (fsB fs) xs) := by
  have hroot : isRootName (FlatList.rootStep A B T q fs).parentType = true := by simp [FlatList.rootStep, Step.parentType, isRootName]
  have hurl : (FlatList.rootStep A B T q fs).url = A := rfl
  unfold execDepth
  simp only [partitionByURL, List.foldl_cons, List.foldl_nil, List.find?_nil, List.nil_append, hurl,
    List.foldlM_cons, List.foldlM_nil, bind, Except.bind, buildBatch_root c _ hroot, hdown, List.length_cons,
    List.length_nil, bne_self_eq_false, Bool.false_eq_true, ↓reduceIte, List.zip_cons_cons, List.zip_nil_right,
    List.getElem?_cons_zero, Option.getD_some, parseOne_root A B T q fs xs aOf, pure, Except.pure]
  simp [respAo, FlatList.mergeResult_root]

/-! ### the batch: one lookup per DISTINCT id, whatever the positions -/

theorem reqsAt_cons (B T q : String) (bs : List FieldSpec) (p : Nat × String) (ps : List (Nat × String)) :
    reqsAt B T q bs (p :: ps) = ⟨stepB B T q bs, [pointL q p.1 p.2]⟩ :: reqsAt B T q bs ps := rfl

theorem buildBatch_go (h : Fam c A B T q fs) (bs : List FieldSpec) (hq1 : '#' ∉ q.toList) (hq2 : ':' ∉ q.toList) :
    ∀ (ps : List (Nat × String)) (n : Nat) (seen : List String) (src : List (Option Nat)),
    (∀ p ∈ ps, p.2 ≠ "") →
    buildBatch.go c {} none (reqsAt B T q bs ps) n
        (seen.map (fun s => DKey.dedup s (queryKey c (stepB B T q bs)))) (seen.map (rqB c B T q bs)) src
      = .ok ((dedupInto seen (ps.map (·.2))).map (rqB c B T q bs),
             src ++ (ps.map (·.2)).map (fun i => some ((dedupInto seen (ps.map (·.2))).idxOf i)))
  | [], n, seen, src, _ => by simp [reqsAt, buildBatch.go, dedupInto]
  | (j, i) :: ps, n, seen, src, hids => by
    have hT : isRootName (stepB B T q bs).parentType = false := by simpa [stepB, Step.parentType] using h.hTroot
    have hine' : (i == "") = false := by simpa using hids (j, i) (by simp)
    have hrest : ∀ x ∈ ps, x.2 ≠ "" := fun x hx => hids x (by simp [hx])
    rw [reqsAt_cons, buildBatch.go]
    simp only [getVariables, List.getLast?_singleton, extract_pointL q i j hq1 hq2, bind, Except.bind, hine',
      Bool.false_eq_true, ↓reduceIte, J.setKey, isNeedToQuery, hT, dedupKey, Bool.not_false, Bool.not_true,
      idxOf?_keys]
    by_cases hmem : i ∈ seen
    · simp only [hmem, ↓reduceIte]
      rw [buildBatch_go h bs hq1 hq2 ps (n + 1) seen _ hrest]
      simp only [dedupInto, hmem, ↓reduceIte, List.map_cons, List.append_assoc, List.cons_append, List.nil_append,
        idxOf_dedupInto (ps.map (·.2)) hmem]
    · simp only [hmem, ↓reduceIte]
      have hk : seen.map (fun s => DKey.dedup s (queryKey c (stepB B T q bs))) ++ [DKey.dedup i (queryKey c (stepB B T q bs))]
          = (seen ++ [i]).map (fun s => DKey.dedup s (queryKey c (stepB B T q bs))) := by simp
      have hb : seen.map (rqB c B T q bs) ++ [rqOf c (stepB B T q bs) [("id", .str i)]]
          = (seen ++ [i]).map (rqB c B T q bs) := by simp [rqB]
      have hrq : Request.mk (header c (stepB B T q bs)) (stepB B T q bs).sels [("id", J.str i)]
          (stepOpName c (stepB B T q bs)) (queryKey c (stepB B T q bs))
          = rqOf c (stepB B T q bs) [("id", .str i)] := rfl
      rw [hrq, hk, hb, buildBatch_go h bs hq1 hq2 ps (n + 1) (seen ++ [i]) _ hrest]
      have hidx : (dedupInto (seen ++ [i]) (ps.map (·.2))).idxOf i = seen.length := by
        rw [idxOf_dedupInto (ps.map (·.2)) (by simp), List.idxOf_append]
        simp [hmem]
      simp only [dedupInto, hmem, ↓reduceIte, List.map_cons, List.append_assoc, List.cons_append, List.nil_append,
        hidx, List.length_map]

theorem buildBatch_list (h : Fam c A B T q fs) (bs : List FieldSpec) (hq1 : '#' ∉ q.toList) (hq2 : ':' ∉ q.toList)
    (xs : List (Option String)) (hids : ∀ i ∈ idsOf xs, i ≠ "") :
    buildBatch c {} none (reqsAt B T q bs (indexed 0 xs))
      = .ok ((dedupIds (idsOf xs)).map (rqB c B T q bs), (idsOf xs).map (fun i => some ((dedupIds (idsOf xs)).idxOf i))) := by
  have := buildBatch_go h bs hq1 hq2 (indexed 0 xs) 0 [] [] (by
    intro p hp
    exact hids p.2 (by rw [← indexed_ids 0 xs]; exact List.mem_map_of_mem hp))
  simpa [buildBatch, dedupIds, indexed_ids] using this

/-! ### answers stitched in at the POSITION of the element -/

/-- one list element once `B`'s answer has been merged in; a `null` stays `null` -/
def elemABo (aOf bOf : String → List (String × J)) : Option String → J
  | some i => elemAB aOf bOf i
  | none => .null

theorem fold_pairs (h : Fam c A B T q fs) (bs : List FieldSpec) (aOf bOf : String → List (String × J))
    (final : List String) (resps : List (List (String × J))) (hq1 : '#' ∉ q.toList) (hq2 : ':' ∉ q.toList)
    (hresp : ∀ i ∈ final, resps[final.idxOf i]? = some [("node", .obj (bOf i))]) :
    ∀ (xs : List (Option String)) (j : Nat) (done : List J) (calls : List Call) (next : List ExecReq), done.length = j →
    (∀ i ∈ idsOf xs, i ∈ final ∧ GoodId aOf bOf i) →
    ((reqsAt B T q bs (indexed j xs)).zip ((idsOf xs).map (fun i => some (final.idxOf i)))).foldlM (pairStep resps)
        (⟨[(q, .arr (done ++ xs.map (elemAo aOf)))], calls⟩, next)
      = .ok (⟨[(q, .arr (done ++ xs.map (elemABo aOf bOf)))], calls⟩, next)
  | [], j, done, calls, next, _, _ => by simp [reqsAt, indexed, idsOf, pure, Except.pure]
  | none :: xs, j, done, calls, next, hj, hids => by
    have ih := fold_pairs h bs aOf bOf final resps hq1 hq2 hresp xs (j + 1) (done ++ [.null]) calls next
      (by simp [hj]) (fun x hx => hids x (by simpa [idsOf] using hx))
    simp only [List.append_assoc, List.cons_append, List.nil_append] at ih
    simpa [indexed, idsOf, elemAo, elemABo] using ih
  | some i :: xs, j, done, calls, next, hj, hids => by
    subst hj
    have hi := hids i (by simp [idsOf])
    have hids' : idsOf (some i :: xs) = i :: idsOf xs := by simp [idsOf]
    simp only [indexed, reqsAt_cons, hids', List.map_cons, List.zip_cons_cons, List.foldlM_cons, elemAo]
    rw [pairStep_elem h bs aOf bOf resps hq1 hq2 i _ done _ calls next (hresp i hi.1) hi.2]
    have ih := fold_pairs h bs aOf bOf final resps hq1 hq2 hresp xs (done.length + 1) (done ++ [elemAB aOf bOf i])
      calls next (by simp) (fun x hx => hids x (by simp [idsOf] at hx ⊢; exact .inr hx))
    simp only [List.append_assoc, List.cons_append, List.nil_append] at ih
    simp only [bind, Except.bind, elemABo]
    exact ih

/-- the result once every entity element has received `B`'s share -/
def respABo (q : String) (xs : List (Option String)) (aOf bOf : String → List (String × J)) : List (String × J) :=
  [(q, .arr (xs.map (elemABo aOf bOf)))]

theorem url_reqsAt (B T q : String) (bs : List FieldSpec) (ps : List (Nat × String)) :
    ∀ e ∈ reqsAt B T q bs ps, e.step.url = B := by
  intro e he
  simp only [reqsAt, List.mem_map] at he
  obtain ⟨p, _, rfl⟩ := he
  rfl

/-- **Depth 1**: ONE batched call to `B` (a lookup per distinct id of the ENTITY elements); each
    answer is merged into the element(s) it belongs to, at their positions; `null`s untouched. -/
theorem depth1 (h : Fam c A B T q fs) (down : Downstream) (bs : List FieldSpec) (xs : List (Option String))
    (aOf bOf : String → List (String × J)) (calls : List Call)
    (hq1 : '#' ∉ q.toList) (hq2 : ':' ∉ q.toList)
    (hne : idsOf xs ≠ [])
    (hids : ∀ i ∈ idsOf xs, GoodId aOf bOf i)
    (hdown : down B (batchB c B T q bs (idsOf xs)) = .ok (answersB bOf (idsOf xs))) :
    execDepth c {} none down (reqsAt B T q bs (indexed 0 xs)) ⟨respAo q xs aOf, calls⟩
      = .ok (⟨respABo q xs aOf bOf, calls ++ [⟨B, batchB c B T q bs (idsOf xs)⟩]⟩, []) := by
  have hbatch := buildBatch_list h bs hq1 hq2 xs (fun i hi => (hids i hi).1)
  have hurl := url_reqsAt B T q bs (indexed 0 xs)
  cases hps : indexed 0 xs with
  | nil =>
    have := indexed_ids 0 xs
    rw [hps] at this
    exact absurd this.symm hne
  | cons p ps =>
    rw [hps, reqsAt_cons] at hbatch hurl
    have hone := execDepth_one_group c down B _ _ ⟨respAo q xs aOf, calls⟩ _ _ _ hurl hbatch hdown
      (by simp [answersB])
    rw [← reqsAt_cons, ← hps] at hone
    rw [← hps, hone]
    have hresp : ∀ i ∈ dedupIds (idsOf xs),
        (answersB bOf (idsOf xs))[(dedupIds (idsOf xs)).idxOf i]? = some [("node", .obj (bOf i))] := by
      intro i hi
      simp only [answersB, List.getElem?_map, getElem?_idxOf hi, Option.map_some]
    have := fold_pairs h bs aOf bOf (dedupIds (idsOf xs)) (answersB bOf (idsOf xs)) hq1 hq2 hresp xs 0 []
      (calls ++ [⟨B, batchB c B T q bs (idsOf xs)⟩]) [] rfl
      (fun i hi => ⟨mem_dedupInto (idsOf xs) [] i hi, hids i hi⟩)
    simp only [List.nil_append] at this
    exact this

theorem respABo_of_nil (q : String) (xs : List (Option String)) (aOf bOf : String → List (String × J))
    (hb : ∀ i ∈ idsOf xs, bOf i = []) : respAo q xs aOf = respABo q xs aOf bOf := by
  unfold respAo respABo
  congr 3
  apply List.map_congr_left
  intro x hx
  cases x with
  | none => rfl
  | some i =>
    have : i ∈ idsOf xs := by simp [idsOf, hx]
    simp [elemAo, elemABo, elemA, elemAB, hb i this]

theorem indexed_nil_of_ids (xs : List (Option String)) (h : idsOf xs = []) : indexed 0 xs = [] := by
  have := indexed_ids 0 xs
  rw [h] at this
  exact List.map_eq_nil_iff.mp this

/-- **Stage 3 — execute**: depth 0 asks `A` for the list; depth 1 (if `B` owns a selected field and
    the list holds at least one entity) asks `B` ONCE, one lookup per distinct id; the result is the
    list under `q`: every entity element with the helper id, `A`'s answers, then `B`'s — every `null`
    where it was. The calls are those of the list of entity ids (`FlatList.callsOf`). -/
theorem stage_execute (h : Fam c A B T q fs) (down : Downstream) (xs : List (Option String))
    (aOf bOf : String → List (String × J)) (hq1 : '#' ∉ q.toList) (hq2 : ':' ∉ q.toList)
    (hids : ∀ i ∈ idsOf xs, GoodId aOf bOf i)
    (hA : down A [rqOf c (FlatList.rootStep A B T q fs) []] = .ok [respAo q xs aOf])
    (hB : fsB fs ≠ [] → idsOf xs ≠ [] → down B (batchB c B T q (fsB fs) (idsOf xs)) = .ok (answersB bOf (idsOf xs)))
    (hb0 : fsB fs = [] → ∀ i ∈ idsOf xs, bOf i = []) :
    execute c {} none down [FlatList.rootStep A B T q fs] []
      = .ok ⟨respABo q xs aOf bOf, FlatList.callsOf c A B T q fs (idsOf xs)⟩ := by
  have hd0 := depth0 c A B T q fs down xs aOf hA
  unfold execute
  simp only [List.map_cons, List.map_nil]
  have hip : (FlatList.rootStep A B T q fs).ip = [] := rfl
  rw [hip]
  cases hfb : fsB fs with
  | nil =>
    have hdepth : stepsDepth [FlatList.rootStep A B T q fs] = 1 := by
      simp [stepsDepth, stepDepth, FlatList.rootStep, hfb, stepsB]
    rw [hdepth, execLoop]
    simp only [List.isEmpty_cons, Bool.false_eq_true, ↓reduceIte, bind, Except.bind, hd0, hfb, nextReqs, execLoop]
    rw [respABo_of_nil q xs aOf bOf (hb0 hfb)]
    simp [FlatList.callsOf, hfb]
  | cons b0 bs =>
    have hdepth : stepsDepth [FlatList.rootStep A B T q fs] = 2 := by
      simp [stepsDepth, stepDepth, FlatList.rootStep, hfb, stepsB]
    rw [hdepth, execLoop]
    simp only [List.isEmpty_cons, Bool.false_eq_true, ↓reduceIte, bind, Except.bind, hd0, hfb, nextReqs]
    by_cases hne : idsOf xs = []
    · rw [execLoop]
      simp only [indexed_nil_of_ids xs hne, reqsAt, List.map_nil, List.isEmpty_nil, ↓reduceIte]
      rw [respABo_of_nil q xs aOf bOf (by rw [hne]; intro i hi; cases hi)]
      simp [FlatList.callsOf, hfb, hne]
    · have hB' := hB (by rw [hfb]; simp) hne
      rw [hfb] at hB'
      rw [execLoop]
      have hnz : (reqsAt B T q (b0 :: bs) (indexed 0 xs)).isEmpty = false := by
        cases hps : indexed 0 xs with
        | nil =>
          have := indexed_ids 0 xs
          rw [hps] at this
          exact absurd this.symm hne
        | cons _ _ => simp [reqsAt]
      simp only [hnz, Bool.false_eq_true, ↓reduceIte, bind, Except.bind,
        depth1 h down (b0 :: bs) xs aOf bOf _ hq1 hq2 hne hids hB', execLoop]
      cases hi : idsOf xs with
      | nil => exact absurd hi hne
      | cons _ _ => simp [FlatList.callsOf, hfb]

/-! ### scrubbing a list with `null` elements -/

/-- an element before / after scrubbing -/
def withId (dOf : String → List (String × J)) : Option String → J
  | some i => .obj (("id", .str i) :: dOf i)
  | none => .null
def scrubbed (dOf : String → List (String × J)) : Option String → J
  | some i => .obj (dOf i)
  | none => .null

theorem cleanList_elems (T : String) (dOf : String → List (String × J)) : ∀ (xs : List (Option String)),
    (∀ i ∈ idsOf xs, GoodElem (dOf i)) →
    cleanList [(T, ["id"])] [] (xs.map (withId dOf)) = (xs.map (scrubbed dOf), xs.isEmpty)
  | [], _ => by simp [cleanList_nil]
  | none :: xs, hd => by
    rw [List.map_cons, withId, cleanList_nonMap _ _ _ _ (fun _ => J.noConfusion),
      cleanList_elems T dOf xs (fun x hx => hd x (by simpa [idsOf] using hx))]
    simp [scrubbed, Nulls.keeps_current]
  | some i :: xs, hd => by
    have hi := hd i (by simp [idsOf])
    rw [List.map_cons, withId, cleanList_obj, clean_elem T i (dOf i) hi.1 hi.2.1 hi.2.2,
      cleanList_elems T dOf xs (fun x hx => hd x (by simp [idsOf] at hx ⊢; exact .inr hx))]
    simp [scrubbed]

/-- **Stage 4 — scrub**: the helper `id` is removed from every ENTITY element; every `null` stays
    where it is; the list itself stays — also when it is empty, also when it holds only `null`s. -/
theorem stage_scrub (T q : String) (xs : List (Option String)) (dOf : String → List (String × J))
    (hd : ∀ i ∈ idsOf xs, GoodElem (dOf i)) :
    cleanAll [([q], [(T, ["id"])])] [(q, .arr (xs.map (withId dOf)))] = [(q, .arr (xs.map (scrubbed dOf)))] := by
  have hlq : ∀ v, J.lookup q [(q, v)] = some v := by intro v; simp [J.lookup]
  simp only [cleanAll, List.foldl_cons, List.foldl_nil, unhash, List.isEmpty_cons, Bool.false_eq_true, ↓reduceIte]
  rw [clean_cons, hlq]
  simp only [cleanList_elems T dOf xs hd]
  cases xs <;> simp [J.setKey]

/-- **Stage 5 — the pipeline** with an abstract downstream. -/
theorem stage_gateway (h : Fam c A B T q fs) (down : Downstream) (xs : List (Option String))
    (aOf bOf : String → List (String × J)) (hq1 : '#' ∉ q.toList) (hq2 : ':' ∉ q.toList)
    (hids : ∀ i ∈ idsOf xs, GoodId aOf bOf i)
    (hA : down A [rqOf c (FlatList.rootStep A B T q fs) []] = .ok [respAo q xs aOf])
    (hB : fsB fs ≠ [] → idsOf xs ≠ [] → down B (batchB c B T q (fsB fs) (idsOf xs)) = .ok (answersB bOf (idsOf xs)))
    (hb0 : fsB fs = [] → ∀ i ∈ idsOf xs, bOf i = [])
    (hd : ∀ i ∈ idsOf xs, GoodElem (aOf i ++ bOf i)) :
    gateway c {} ⟨.query, "", [], [QL T q fs]⟩ none down
      = .ok ⟨some [(q, .arr (xs.map (scrubbed (fun i => aOf i ++ bOf i))))], [], FlatList.callsOf c A B T q fs (idsOf xs)⟩ := by
  have hex := stage_execute h down xs aOf bOf hq1 hq2 hids hA hB hb0
  rw [gateway_noVarDefs _ _ _ _ _ _ rfl]
  unfold gatewayCore gatewayCoreWith plan
  simp only [FlatList.stage_sanitize h, bind, Except.bind, FlatList.stage_plan h, hex, id]
  have := stage_scrub T q xs (fun i => aOf i ++ bOf i) hd
  have hfun : elemABo aOf bOf = withId (fun i => aOf i ++ bOf i) := by
    funext x; cases x <;> rfl
  simp only [respABo]
  rw [hfun, this]

end PebblesVerif.FlatListN
