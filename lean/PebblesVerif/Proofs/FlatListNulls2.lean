import PebblesVerif.Proofs.FlatListNulls1
/-!
Flat list family with `null` elements, final step: the downstream is the reference evaluator at
each service; the root value of `q` is a list of references to entities and `null`s; the gateway
model's answer equals the single-server answer position by position — `null` where the data has
`null`, the entity's fields (up to key order) elsewhere.
-/
namespace PebblesVerif.FlatListN
open PebblesVerif PebblesVerif.Exec PebblesVerif.Flat PebblesVerif.ResultOps PebblesVerif.Spec
open PebblesVerif.FlatList

/-- a stored list element: a reference to an entity, or `null` -/
def dvalOf : Option Entity → DVal
  | some e => .ref e.id
  | none => .null

/-- the JSON of one list element, given the evaluation of the sub-selection on an entity -/
def elemJo (g : Entity → Option (List (String × J))) : Option Entity → J
  | some e => elemJ g e
  | none => .null

/-- an element of an answer: an object or `null` -/
def optJ : Option (List (String × J)) → J
  | some kvs => .obj kvs
  | none => .null

/-- completing a stored list of references and `null`s against `[T]`: element by element -/
theorem completeWith_refs (D : Data) (objK : Obj → Option (List (String × J))) (echo : J → J) (T : String)
    (vs : List (Option Entity)) (hent : ∀ e, some e ∈ vs → D.entity? e.id = some e) :
    completeWith D objK echo (.list (.named T)) (.list (vs.map dvalOf))
      = some (.arr (vs.map (elemJo (fun e => objK (.ent e.type e.id e.fields))))) := by
  have hmap : (vs.map dvalOf).map (fun x => completeWith D objK echo (.named T) x)
      = vs.map (fun v => some (elemJo (fun e => objK (.ent e.type e.id e.fields)) v)) := by
    rw [List.map_map]
    apply List.map_congr_left
    intro v hv
    cases v with
    | none => simp [Function.comp, dvalOf, completeWith, elemJo]
    | some e =>
      simp only [Function.comp, dvalOf, completeWith, hent e hv, elemJo, elemJ]
      cases objK (.ent e.type e.id e.fields) <;> rfl
  rw [completeWith]
  simp only [hmap]
  have hall : (vs.map (fun v => some (elemJo (fun e => objK (.ent e.type e.id e.fields)) v))).all Option.isSome = true := by
    simp
  have hfm : (vs.map (fun v => some (elemJo (fun e => objK (.ent e.type e.id e.fields)) v))).filterMap id
      = vs.map (elemJo (fun e => objK (.ent e.type e.id e.fields))) := by
    simp [List.filterMap_map]
  rw [hall, hfm]
  rfl

/-- evaluating `{ q { sub } }` at the Query root when `q : [T]` holds references and `null`s -/
theorem eval_root_q (env : Env) (T q : String) (vs : List (Option Entity)) (sub : List Sel)
    (hqb : isBuiltinName q = false) (hqn : q ≠ "node") (hqne : q ≠ "")
    (hroot : dlookup q (env.data.root "Query") = some (.list (vs.map dvalOf)))
    (hent : ∀ e, some e ∈ vs → env.data.entity? e.id = some e) :
    evalSels env (.root "Query") [.field q q [] [] (.list (.named T)) [] sub] []
      = some [(q, .arr (vs.map (elemJo (fun e => evalSels env (.ent e.type e.id e.fields) sub []))))] := by
  have hq1 : (q == "__typename") = false := by
    simp only [beq_eq_false_iff_ne, ne_eq]; intro h; subst h; simp [isBuiltinName] at hqb
  have hq2 : (q == "node") = false := by simpa using hqn
  have hq3 : (q == "") = false := by simpa using hqne
  rw [evalSels, evalSel]
  simp only [skipped, List.any_nil, Bool.false_eq_true, ↓reduceIte, fieldValue, hq1, hq3]
  have hst : storedValue env (.root "Query") q [] = .list (vs.map dvalOf) := by
    simp [storedValue, hq2, hroot]
  rw [hst, completeWith_refs env.data _ _ T vs hent]
  simp [addKey, J.lookup, evalSels]

/-- reading the reference answer position by position: same length; an entity position whose
    reference element is not `null` carries the entity's evaluation; a `null` position is `null` -/
theorem elems_inv (g : Entity → Option (List (String × J))) (vs : List (Option Entity))
    (rs : List (Option (List (String × J)))) (h : vs.map (elemJo g) = rs.map optJ)
    (hnull : ∀ j : Nat, rs[j]? = some none → vs[j]? = some none) :
    rs.length = vs.length
    ∧ (∀ (j : Nat) e, vs[j]? = some (some e) → ∃ r, rs[j]? = some (some r) ∧ g e = some r)
    ∧ (∀ j : Nat, vs[j]? = some none → rs[j]? = some none) := by
  have hlen : rs.length = vs.length := by
    have := congrArg List.length h
    simpa using this.symm
  have hget : ∀ j : Nat, (vs[j]?).map (elemJo g) = (rs[j]?).map optJ := by
    intro j
    have := congrArg (fun l => l[j]?) h
    simpa using this
  refine ⟨hlen, ?_, ?_⟩
  · intro j e hj
    have hg := hget j
    rw [hj] at hg
    cases hr : rs[j]? with
    | none => rw [hr] at hg; cases hg
    | some r' =>
      rw [hr] at hg
      cases r' with
      | none =>
        have := hnull j hr
        rw [hj] at this
        cases this
      | some r =>
        refine ⟨r, rfl, ?_⟩
        simp only [Option.map_some, elemJo, optJ, Option.some.injEq] at hg
        unfold elemJ at hg
        cases hge : g e with
        | none => rw [hge] at hg; cases hg
        | some kvs => rw [hge] at hg; injection hg with hg; rw [hg]
  · intro j hj
    have hg := hget j
    rw [hj] at hg
    cases hr : rs[j]? with
    | none => rw [hr] at hg; cases hg
    | some r' =>
      rw [hr] at hg
      cases r' with
      | none => rfl
      | some r => simp [elemJo, optJ] at hg

variable {c : PCtx} {A B T q : String} {fs : List FieldSpec}

/-- the list as the executor sees it: ids of the entities, `none` for `null` -/
def idsO (vs : List (Option Entity)) : List (Option String) := vs.map (Option.map (·.id))

theorem mem_idsOf_idsO (vs : List (Option Entity)) (i : String) :
    i ∈ idsOf (idsO vs) ↔ ∃ e, some e ∈ vs ∧ e.id = i := by
  simp only [idsOf, idsO, List.mem_filterMap, List.mem_map, id]
  constructor
  · rintro ⟨x, ⟨v, hv, rfl⟩, hx⟩
    cases v with
    | none => cases hx
    | some e => exact ⟨e, hv, by simpa using hx⟩
  · rintro ⟨e, he, rfl⟩
    exact ⟨some e.id, ⟨some e, he, rfl⟩, rfl⟩

/-- `flat_list_nulls_one_hop` with the calls made explicit: one call to `A`, and ONE batch to `B` —
    a lookup per distinct id of the ENTITY elements — iff `B` owns a selected field and the list
    holds at least one entity -/
theorem flat_list_nulls_one_hop_calls (h : Fam c A B T q fs)
    (svcs : List Svc) (SA SB : Schema) (D : Data) (vs : List (Option Entity)) (rs : List (Option (List (String × J))))
    (hq1 : '#' ∉ q.toList) (hq2 : ':' ∉ q.toList) (hqne : q ≠ "")
    (hi : ∀ e, some e ∈ vs → e.id ≠ "")
    (hnne : ∀ n ∈ namesOf fs, n ≠ "")
    (hsA : svcs.find? (·.url == A) = some ⟨A, SA⟩) (hsB : svcs.find? (·.url == B) = some ⟨B, SB⟩)
    (hSB : ∃ td, SB.type? T = some td ∧ td.kind = .object)
    (hroot : dlookup q (D.root "Query") = some (.list (vs.map dvalOf)))
    (hent : ∀ e, some e ∈ vs → D.entity? e.id = some e ∧ e.type = T)
    (href : Spec.eval c.schema D ⟨.query, "", [], [QL T q fs]⟩ [] = some (.obj [(q, .arr (rs.map optJ))]))
    (hnull : ∀ j : Nat, rs[j]? = some none → vs[j]? = some none) :
    ∃ (ds : List (Option (List (String × J)))),
      gateway c {} ⟨.query, "", [], [QL T q fs]⟩ none (specDownstream svcs D)
        = .ok ⟨some [(q, .arr (ds.map optJ))], [], FlatList.callsOf c A B T q fs (idsOf (idsO vs))⟩
      ∧ ds.length = vs.length ∧ rs.length = vs.length
      ∧ (∀ j : Nat, vs[j]? = some none → ds[j]? = some none ∧ rs[j]? = some none)
      ∧ (∀ (j : Nat) e, vs[j]? = some (some e) → ∃ d r, ds[j]? = some (some d) ∧ rs[j]? = some (some r) ∧ d.Perm r) := by
  have hent1 : ∀ e, some e ∈ vs → D.entity? e.id = some e := fun e he => (hent e he).1
  -- the reference answer, position by position
  let g : Entity → Option (List (String × J)) :=
    fun e => evalSels (envOf c.schema D []) (.ent e.type e.id e.fields) (leaves fs) []
  have hrefL : vs.map (elemJo g) = rs.map optJ := by
    unfold Spec.eval at href
    simp only [OpKind.rootName, QL] at href
    have := eval_root_q (envOf c.schema D []) T q vs (leaves fs) h.hqb h.hqn hqne hroot hent1
    simp only [envOf] at this
    rw [this] at href
    simp only [Option.map_some, Option.some.injEq, J.obj.injEq, List.cons.injEq, Prod.mk.injEq, J.arr.injEq, and_true,
      true_and] at href
    exact href
  obtain ⟨hlen, hobjs, hnulls⟩ := elems_inv g vs rs hrefL hnull
  have hsome : ∀ e, some e ∈ vs → g e = some ((g e).getD []) := by
    intro e he
    obtain ⟨j, hj⟩ := List.getElem?_of_mem he
    obtain ⟨r, _, hr⟩ := hobjs j e hj
    rw [hr]; rfl
  let aOf := shareOf c.schema D (fsA fs)
  let bOf := shareOf c.schema D (fsB fs)
  -- every entity element: the two shares and their properties
  have hper : ∀ e, some e ∈ vs → (aOf e.id ++ bOf e.id).Perm ((g e).getD [])
      ∧ evalSels (envOf SA D []) (.ent e.type e.id e.fields) (idField :: leaves (fsA fs)) []
          = some (("id", .str e.id) :: aOf e.id)
      ∧ evalSels (envOf SB D [("id", .str e.id)]) (.ent e.type e.id e.fields) (leaves (fsB fs)) [] = some (bOf e.id)
      ∧ GoodId aOf bOf e.id ∧ GoodElem (aOf e.id ++ bOf e.id) := by
    intro e he
    obtain ⟨ra, rb, hra, hrb, hperm, hownA, hvalB, hkA, hkB, hne⟩ :=
      entity_shares h SA SB D e ((g e).getD []) hnne (hi e he) (hsome e he)
    have ha : aOf e.id = ra := shareOf_eq c.schema D (fsA fs) e ra (hent1 e he) hra
    have hb : bOf e.id = rb := shareOf_eq c.schema D (fsB fs) e rb (hent1 e he) hrb
    have hgood := shares_good h e.id ra rb (hi e he) hkA hkB hne
    rw [ha, hb]
    exact ⟨hperm, hownA, hvalB, by unfold GoodId; rw [ha, hb]; exact hgood.1, hgood.2⟩
  let xs := idsO vs
  have hmemids : ∀ i ∈ idsOf xs, ∃ e, some e ∈ vs ∧ e.id = i := fun i hi' => (mem_idsOf_idsO vs i).mp hi'
  -- what service A answers
  have hA : specDownstream svcs D A [rqOf c (FlatList.rootStep A B T q fs) []] = .ok [respAo q xs aOf] := by
    have hhdr : (header c (FlatList.rootStep A B T q fs)).kind = .query := by
      simp [header, FlatList.rootStep, Step.ip, h.hkind]
    have hev := eval_root_q (envOf SA D []) T q vs (idField :: leaves (fsA fs)) h.hqb h.hqn hqne hroot hent1
    have hels : vs.map (elemJo (fun e => evalSels (envOf SA D []) (.ent e.type e.id e.fields) (idField :: leaves (fsA fs)) []))
        = xs.map (elemAo aOf) := by
      simp only [xs, idsO, List.map_map]
      apply List.map_congr_left
      intro v hv
      cases v with
      | none => rfl
      | some e => simp only [elemJo, elemJ, (hper e hv).2.1, Function.comp, Option.map_some, elemAo, elemA]
    rw [hels] at hev
    have hsels : (FlatList.rootStep A B T q fs).sels = [.field q q [] [] (.list (.named T)) [] (idField :: leaves (fsA fs))] := rfl
    simp only [specDownstream, hsA, rqOf, List.map_cons, List.map_nil, hhdr, Spec.eval, OpKind.rootName, hsels]
    simp only [envOf] at hev
    rw [hev]
    simp [respAo]
  -- what service B answers to the batch
  have hB : fsB fs ≠ [] → idsOf xs ≠ [] →
      specDownstream svcs D B (batchB c B T q (fsB fs) (idsOf xs)) = .ok (answersB bOf (idsOf xs)) := by
    intro _ _
    have hhdr : (header c (stepB B T q (fsB fs))).kind = .query := by simp [header, stepB, Step.ip]
    have hsels : (stepB B T q (fsB fs)).sels = convertToNodeQuery T (leaves (fsB fs)) := rfl
    simp only [specDownstream, hsB, batchB, answersB, List.map_map]
    congr 1
    apply List.map_congr_left
    intro i hi'
    obtain ⟨e, he, rfl⟩ := hmemids i (mem_of_mem_dedupIds hi')
    have hnl := eval_node_lookup (envOf SB D [("id", .str e.id)]) e (leaves (fsB fs)) (bOf e.id) (hent1 e he)
      (by simp [envOf, J.lookup]) (by rw [(hent e he).2]; exact hSB) (hper e he).2.2.1
    rw [(hent e he).2] at hnl
    simp only [envOf] at hnl
    simp only [Function.comp, rqB, rqOf, hhdr, Spec.eval, OpKind.rootName, hsels, hnl, Option.map_some]
  have hb0 : fsB fs = [] → ∀ i ∈ idsOf xs, bOf i = [] := by
    intro hnil i _
    simp only [bOf, shareOf, hnil]
    cases D.entity? i <;> simp
  have hids : ∀ i ∈ idsOf xs, GoodId aOf bOf i := by
    intro i hi'
    obtain ⟨e, he, rfl⟩ := hmemids i hi'
    exact (hper e he).2.2.2.1
  have hd : ∀ i ∈ idsOf xs, GoodElem (aOf i ++ bOf i) := by
    intro i hi'
    obtain ⟨e, he, rfl⟩ := hmemids i hi'
    exact (hper e he).2.2.2.2
  have hg := stage_gateway h (specDownstream svcs D) xs aOf bOf hq1 hq2 hids hA hB hb0 hd
  have hout : xs.map (scrubbed (fun i => aOf i ++ bOf i))
      = (xs.map (Option.map (fun i => aOf i ++ bOf i))).map optJ := by
    rw [List.map_map]
    apply List.map_congr_left
    intro x _
    cases x <;> rfl
  refine ⟨xs.map (Option.map (fun i => aOf i ++ bOf i)), ?_, by simp [xs, idsO], hlen, ?_, ?_⟩
  · rw [hg, hout]
  · intro j hj
    refine ⟨?_, hnulls j hj⟩
    simp [xs, idsO, List.getElem?_map, hj]
  · intro j e hj
    obtain ⟨r, hr, hge⟩ := hobjs j e hj
    refine ⟨aOf e.id ++ bOf e.id, r, ?_, hr, ?_⟩
    · simp [xs, idsO, List.getElem?_map, hj]
    · have := (hper e (List.mem_of_getElem? hj)).1
      rw [hge] at this
      exact this

end PebblesVerif.FlatListN
