import PebblesVerif.Proofs.Flat5
/-!
End-to-end proof for the TWO-LEVEL family (C01_flat_nested_one_hop), stage by stage.

Family: client operation `{ q { f₁ … fₙ  g { h₁ … hₘ } } }`. The root field `q : T` (Node type) is
owned by service `A`; the leaf fields `fᵢ` of `T` are owned by `A` or `B` (any interleaving, as in
`Flat.Fam`); `g` is a field of `T` owned by `A` whose type is a second Node type `U ≠ T`; the leaf
fields `hⱼ` of `U` are owned by `A` or `B` (any interleaving). `g` stands LAST in the selection set
of `q`. Unbounded in n, m, the two splits and the data.

This file: the family, and stage 1 (sanitise).
-/
namespace PebblesVerif.FlatNested
open PebblesVerif PebblesVerif.Exec PebblesVerif.Flat

/-- the nested object field as the client writes it: `g { h… }` -/
def Gc (U g : String) (hs : List FieldSpec) : Sel := .field g g [] [] (.named U) [] (leaves hs)
/-- … as the sanitiser leaves it: `g { id h… }` -/
def Gs (U g : String) (hs : List FieldSpec) : Sel := .field g g [] [] (.named U) [] (idField :: leaves hs)
/-- … as service `A` receives it: `g { id <A's h…> }` -/
def Gown (U g : String) (hs : List FieldSpec) : Sel := .field g g [] [] (.named U) [] (idField :: leaves (fsA hs))

/-- the client's root field `q { f… g { h… } }` -/
def QN (T U q g : String) (fs hs : List FieldSpec) : Sel :=
  .field q q [] [] (.named T) [] (leaves fs ++ [Gc U g hs])
/-- its sanitised form `q { id f… g { id h… } }` -/
def QN' (T U q g : String) (fs hs : List FieldSpec) : Sel :=
  .field q q [] [] (.named T) [] (idField :: (leaves fs ++ [Gs U g hs]))
/-- the root field as service `A` receives it: `q { id <A's f…> g { id <A's h…> } }` -/
def QNown (T U q g : String) (fs hs : List FieldSpec) : Sel :=
  .field q q [] [] (.named T) [] (idField :: (leaves (fsA fs) ++ [Gown U g hs]))

/-- the hypotheses describing the two-level family: `Flat.Fam` for the outer level (`q : T`, leaf
    fields `fs`), `Flat.FamT` for the inner type (`U`, leaf fields `hs`), and what the routing table
    says about `g` -/
structure Fam (c : PCtx) (A B T U q g : String) (fs hs : List FieldSpec) : Prop
    extends Flat.Fam c A B T q fs where
  famU : Flat.FamT c A B U g hs
  hTU : T ≠ U
  hgb : isBuiltinName g = false
  hgid : g ≠ "id"
  hgnew : g ∉ namesOf fs
  tumTg : c.tum.get? T g = some A

/-- the scrub table of the family: the helper `id` under `g` (registered first: the inner selection
    set is finished first), then the helper `id` under `q` -/
def scrubN (T U q g : String) : Scrub := [([q, g], [(U, ["id"])]), ([q], [(T, ["id"])])]

end PebblesVerif.FlatNested
