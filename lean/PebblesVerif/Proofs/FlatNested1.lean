import PebblesVerif.Proofs.Flat5
/-!
End-to-end proof for the TWO-LEVEL family (C01_flat_nested_one_hop), stage by stage.

Family: client operation `{ q { f₁ … fₙ  g { h₁ … hₘ } } }`. The root field `q : T` (Node type) is
owned by service `A`; the leaf fields `fᵢ` of `T` are owned by `A` or `B` (any interleaving, as in
`Flat.Fam`); `g` is a field of `T` owned by `A` whose type is a second Node type `U ≠ T`; the leaf
fields `hⱼ` of `U` are owned by `A` or `B` (any interleaving). `g` stands LAST in the selection set
of `q`. Unbounded in n, m, the two splits and the data.

This file: the family, and stage 1 (sanitise).
-/
namespace PebblesVerif.FlatNested
open PebblesVerif PebblesVerif.Exec PebblesVerif.Flat

/-- the nested object field as the client writes it: `g { h… }` -/
def Gc (U g : String) (hs : List FieldSpec) : Sel := .field g g [] [] (.named U) [] (leaves hs)
/-- … as the sanitiser leaves it: `g { id h… }` -/
def Gs (U g : String) (hs : List FieldSpec) : Sel := .field g g [] [] (.named U) [] (idField :: leaves hs)
/-- … as service `A` receives it: `g { id <A's h…> }` -/
def Gown (U g : String) (hs : List FieldSpec) : Sel := .field g g [] [] (.named U) [] (idField :: leaves (fsA hs))

/-- the client's root field `q { f… g { h… } }` -/
def QN (T U q g : String) (fs hs : List FieldSpec) : Sel :=
  .field q q [] [] (.named T) [] (leaves fs ++ [Gc U g hs])
/-- its sanitised form `q { id f… g { id h… } }` -/
def QN' (T U q g : String) (fs hs : List FieldSpec) : Sel :=
  .field q q [] [] (.named T) [] (idField :: (leaves fs ++ [Gs U g hs]))
/-- the root field as service `A` receives it: `q { id <A's f…> g { id <A's h…> } }` -/
def QNown (T U q g : String) (fs hs : List FieldSpec) : Sel :=
  .field q q [] [] (.named T) [] (idField :: (leaves (fsA fs) ++ [Gown U g hs]))

/-- the hypotheses describing the two-level family: `Flat.Fam` for the outer level (`q : T`, leaf
    fields `fs`), `Flat.FamT` for the inner type (`U`, leaf fields `hs`), and what the routing table
    says about `g` -/
structure Fam (c : PCtx) (A B T U q g : String) (fs hs : List FieldSpec) : Prop
    extends Flat.Fam c A B T q fs where
  famU : Flat.FamT c A B U g hs
  hTU : T ≠ U
  hgb : isBuiltinName g = false
  hgid : g ≠ "id"
  hgnew : g ∉ namesOf fs
  tumTg : c.tum.get? T g = some A

/-- the scrub table of the family: the helper `id` under `g` (registered first: the inner selection
    set is finished first), then the helper `id` under `q` -/
def scrubN (T U q g : String) : Scrub := [([q, g], [(U, ["id"])]), ([q], [(T, ["id"])])]

theorem sanitizeSelsAcc_append (c : PCtx) (ip : List String) : ∀ (a b acc : List Sel) (sf : Scrub),
    sanitizeSelsAcc c ip (a ++ b) acc sf
      = (sanitizeSelsAcc c ip a acc sf).bind (fun r => sanitizeSelsAcc c ip b r.1 r.2)
  | [], b, acc, sf => by simp [sanitizeSelsAcc, Except.bind]
  | s :: a, b, acc, sf => by
    simp only [List.cons_append]
    rw [sanitizeSelsAcc, sanitizeSelsAcc]
    simp only [bind]
    cases sanitizeSel c ip s with
    | error f => rfl
    | ok r =>
      simp only [Except.bind]
      exact sanitizeSelsAcc_append c ip a b _ _

variable {c : PCtx} {A B T U q g : String} {fs hs : List FieldSpec}

theorem leaves_isEmpty (h : FamT c A B T q fs) : (leaves fs).isEmpty = false := by
  cases hfs : fs with
  | nil => exact absurd hfs h.hne
  | cons a b => simp [leaves]

theorem noid_leaves (h : FamT c A B T q fs) : containsField "id" (leaves fs) = false := by
  rw [containsField_leaves]
  simp only [List.contains_eq_mem, decide_eq_false_iff_not]
  intro hm; exact h.hfid "id" hm rfl

/-- sanitising the nested field at insertion point `[q]`: the helper `id` is added below `g` and
    registered at path `[q, g]` under type `U` -/
theorem sanitize_G (h : Fam c A B T U q g fs hs) :
    sanitizeSel c [q] (Gc U g hs) = .ok ([Gs U g hs], [([q, g], [(U, ["id"])])]) := by
  have hleaves : sanitizeSelsAcc c ([q] ++ [g]) (leaves hs) [] [] = .ok (leaves hs, []) :=
    sanitize_leaves c ([q] ++ [g]) hs [] [] (by simpa using h.famU.hnd)
  unfold Gc
  rw [sanitizeSel]
  simp only [leaves_isEmpty h.famU, Bool.false_eq_true, ↓reduceIte, bind, Except.bind, hleaves]
  simp only [addScrubFields, TypeRef.name, abstractDef_none h.famU.hschemaT, h.famU.tumTn, Option.getD_some, ↓reduceIte,
    withId, noid_leaves h.famU, Bool.false_eq_true]
  obtain ⟨td, h1, h2⟩ := h.famU.hschemaT
  simp [setMissing, h1, h2, isAbstractKind, Scrub.set, Gs]

/-- **Stage 1 — sanitise**: `{ q { f… g { h… } } }` becomes `{ q { id f… g { id h… } } }`; the two
    helper ids are registered for scrubbing at paths `[q, g]` (type `U`) and `[q]` (type `T`). -/
theorem stage_sanitize (h : Fam c A B T U q g fs hs) :
    sanitizeSels c [] [QN T U q g fs hs] = .ok ([QN' T U q g fs hs], scrubN T U q g) := by
  have hleaves : sanitizeSelsAcc c ([] ++ [q]) (leaves fs) [] [] = .ok (leaves fs, []) :=
    sanitize_leaves c ([] ++ [q]) fs [] [] (by simpa using h.hnd)
  have hgal : hasFieldAliased (leaves fs) g = false := by
    rw [hasFieldAliased_leaves]
    simpa using h.hgnew
  have hinner : sanitizeSelsAcc c ([] ++ [q]) (leaves fs ++ [Gc U g hs]) [] []
      = .ok (leaves fs ++ [Gs U g hs], [([q, g], [(U, ["id"])])]) := by
    rw [sanitizeSelsAcc_append, hleaves]
    simp only [Except.bind, List.nil_append]
    rw [sanitizeSelsAcc]
    simp only [sanitize_G h, bind, Except.bind, sanitizeSelsAcc]
    have : addToResult (leaves fs) [Gs U g hs] = leaves fs ++ [Gs U g hs] := by
      simp [addToResult, Gs, hgal]
    rw [this]
    simp [Scrub.merge, Scrub.set]
  have hempty : (leaves fs ++ [Gc U g hs]).isEmpty = false := by simp
  have hgid' : (g == "id") = false := by simpa using h.hgid
  have hnoid : containsField "id" (leaves fs ++ [Gs U g hs]) = false := by
    have happ : ∀ (a b : List Sel), containsField "id" (a ++ b) = (containsField "id" a || containsField "id" b) := by
      intro a b
      induction a with
      | nil => simp [containsField]
      | cons x xs ih => simp [containsField, ih, Bool.or_assoc]
    rw [happ, noid_leaves h.toFamT]
    simp [containsField, containsFieldSel, Gs, hgid']
  unfold sanitizeSels
  rw [sanitizeSelsAcc]
  simp only [QN, sanitizeSel, hempty, Bool.false_eq_true, ↓reduceIte, bind, Except.bind]
  rw [hinner]
  simp only [addScrubFields, TypeRef.name, abstractDef_none h.hschemaT, h.tumTn, Option.getD_some, ↓reduceIte,
    withId, hnoid, Bool.false_eq_true]
  obtain ⟨td, h1, h2⟩ := h.hschemaT
  have hne : ([q, g] == [q]) = false := by simp
  simp [sanitizeSelsAcc, addToResult, hasFieldAliased, setMissing, Scrub.merge, Scrub.set, QN', scrubN, h1, h2,
    isAbstractKind]

end PebblesVerif.FlatNested
