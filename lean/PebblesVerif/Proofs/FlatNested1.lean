import PebblesVerif.Proofs.Flat5
/-!
End-to-end proof for the TWO-LEVEL family (C01_flat_nested_one_hop), stage by stage.

Family: client operation `{ q { f₁ … fₙ  g { h₁ … hₘ } } }`. The root field `q : T` (Node type) is
owned by service `A`; the leaf fields `fᵢ` of `T` are owned by `A` or `B` (any interleaving, as in
`Flat.Fam`); `g` is a field of `T` owned by `A` whose type is a second Node type `U ≠ T`; the leaf
fields `hⱼ` of `U` are owned by `A` or `B` (any interleaving). `g` stands ANYWHERE in the selection
set of `q`: the leaf fields of `T` come as `fs1` (before `g`) and `fs2` (after `g`), either may be
empty. Unbounded in n, m, the position of `g`, the two splits and the data.

This file: the family, and stage 1 (sanitise).
-/
namespace PebblesVerif.FlatNested
open PebblesVerif PebblesVerif.Exec PebblesVerif.Flat

/-- the nested object field as the client writes it: `g { h… }` -/
def Gc (U g : String) (hs : List FieldSpec) : Sel := .field g g [] [] (.named U) [] (leaves hs)
/-- … as the sanitiser leaves it: `g { id h… }` -/
def Gs (U g : String) (hs : List FieldSpec) : Sel := .field g g [] [] (.named U) [] (idField :: leaves hs)
/-- … as service `A` receives it: `g { id <A's h…> }` -/
def Gown (U g : String) (hs : List FieldSpec) : Sel := .field g g [] [] (.named U) [] (idField :: leaves (fsA hs))

/-- the client's root field `q { f1… g { h… } f2… }` -/
def QN (T U q g : String) (fs1 fs2 hs : List FieldSpec) : Sel :=
  .field q q [] [] (.named T) [] (leaves fs1 ++ Gc U g hs :: leaves fs2)
/-- its sanitised form `q { id f1… g { id h… } f2… }` -/
def QN' (T U q g : String) (fs1 fs2 hs : List FieldSpec) : Sel :=
  .field q q [] [] (.named T) [] (idField :: (leaves fs1 ++ Gs U g hs :: leaves fs2))
/-- the root field as service `A` receives it: `q { id <A's f1…> g { id <A's h…> } <A's f2…> }` -/
def QNown (T U q g : String) (fs1 fs2 hs : List FieldSpec) : Sel :=
  .field q q [] [] (.named T) [] (idField :: (leaves (fsA fs1) ++ Gown U g hs :: leaves (fsA fs2)))

/-- the hypotheses describing the two-level family: `Flat.Fam` for the outer level (`q : T`, leaf
    fields `fs1 ++ fs2`: those written before and after `g`), `Flat.FamT` for the inner type (`U`,
    leaf fields `hs`), and what the routing table says about `g` -/
structure Fam (c : PCtx) (A B T U q g : String) (fs1 fs2 hs : List FieldSpec) : Prop
    extends Flat.Fam c A B T q (fs1 ++ fs2) where
  famU : Flat.FamT c A B U g hs
  hTU : T ≠ U
  hgb : isBuiltinName g = false
  hgid : g ≠ "id"
  hgnew : g ∉ namesOf (fs1 ++ fs2)
  tumTg : c.tum.get? T g = some A

/-- the scrub table of the family: the helper `id` under `g` (registered first: the inner selection
    set is finished first), then the helper `id` under `q` -/
def scrubN (T U q g : String) : Scrub := [([q, g], [(U, ["id"])]), ([q], [(T, ["id"])])]

theorem sanitizeSelsAcc_append (c : PCtx) (ip : List String) : ∀ (a b acc : List Sel) (sf : Scrub),
    sanitizeSelsAcc c ip (a ++ b) acc sf
      = (sanitizeSelsAcc c ip a acc sf).bind (fun r => sanitizeSelsAcc c ip b r.1 r.2)
  | [], b, acc, sf => by simp [sanitizeSelsAcc, Except.bind]
  | s :: a, b, acc, sf => by
    simp only [List.cons_append]
    rw [sanitizeSelsAcc, sanitizeSelsAcc]
    simp only [bind]
    cases sanitizeSel c ip s with
    | error f => rfl
    | ok r =>
      simp only [Except.bind]
      exact sanitizeSelsAcc_append c ip a b _ _

variable {c : PCtx} {A B T U q g : String} {fs fs1 fs2 hs : List FieldSpec}

theorem leaves_isEmpty (h : FamT c A B T q fs) : (leaves fs).isEmpty = false := by
  cases hfs : fs with
  | nil => exact absurd hfs h.hne
  | cons a b => simp [leaves]

theorem noid_leaves (h : FamT c A B T q fs) : containsField "id" (leaves fs) = false := by
  rw [containsField_leaves]
  simp only [List.contains_eq_mem, decide_eq_false_iff_not]
  intro hm; exact h.hfid "id" hm rfl

theorem hasFieldAliased_append (a b : List Sel) (n : String) :
    hasFieldAliased (a ++ b) n = (hasFieldAliased a n || hasFieldAliased b n) := by
  simp [hasFieldAliased, List.any_append]

/-- sanitising distinct leaf fields whose names are new to the result so far appends them, in
    order, with no scrub entries (`Flat.sanitize_leaves` is the case of a result made of leaves) -/
theorem sanitize_leaves_acc (c : PCtx) (ip : List String) : ∀ (fs : List FieldSpec) (acc : List Sel) (sf : Scrub),
    (namesOf fs).Nodup → (∀ n ∈ namesOf fs, hasFieldAliased acc n = false) →
    sanitizeSelsAcc c ip (leaves fs) acc sf = .ok (acc ++ leaves fs, sf)
  | [], acc, sf, _, _ => by simp [leaves, sanitizeSelsAcc]
  | f :: fs, acc, sf, hnd, hacc => by
    simp only [namesOf, List.map_cons, List.nodup_cons] at hnd
    have h1 : hasFieldAliased acc f.1 = false := hacc f.1 (by simp [namesOf])
    have hadd : addToResult acc [Sel.field f.1 f.1 [] [] f.2.1 [] []] = acc ++ [leaf f.1 f.2.1] := by
      unfold addToResult
      simp only [List.filter_cons, h1, Bool.not_false, ↓reduceIte, List.filter_nil, leaf]
    rw [leaves_cons, sanitizeSelsAcc]
    simp only [sanitizeSel, leaf, List.isEmpty_nil, ↓reduceIte, bind, Except.bind]
    rw [hadd, merge_nil]
    have := sanitize_leaves_acc c ip fs (acc ++ [leaf f.1 f.2.1]) sf hnd.2 (by
      intro n hn
      rw [hasFieldAliased_append, hacc n (by simp only [namesOf, List.map_cons, List.mem_cons]; exact Or.inr hn)]
      have : ¬ f.1 = n := by
        intro e; subst e; exact hnd.1 hn
      simp [hasFieldAliased, leaf, this])
    rw [this]
    simp [leaf]

theorem names_append (a b : List FieldSpec) : namesOf (a ++ b) = namesOf a ++ namesOf b := by simp [namesOf]

/-- sanitising the nested field at insertion point `[q]`: the helper `id` is added below `g` and
    registered at path `[q, g]` under type `U` -/
theorem sanitize_G (h : Fam c A B T U q g fs1 fs2 hs) :
    sanitizeSel c [q] (Gc U g hs) = .ok ([Gs U g hs], [([q, g], [(U, ["id"])])]) := by
  have hleaves : sanitizeSelsAcc c ([q] ++ [g]) (leaves hs) [] [] = .ok (leaves hs, []) :=
    sanitize_leaves c ([q] ++ [g]) hs [] [] (by simpa using h.famU.hnd)
  unfold Gc
  rw [sanitizeSel]
  simp only [leaves_isEmpty h.famU, Bool.false_eq_true, ↓reduceIte, bind, Except.bind, hleaves]
  simp only [addScrubFields, TypeRef.name, abstractDef_none h.famU.hschemaT, h.famU.tumTn, Option.getD_some, ↓reduceIte,
    withId, noid_leaves h.famU, Bool.false_eq_true]
  obtain ⟨td, h1, h2⟩ := h.famU.hschemaT
  simp [setMissing, h1, h2, isAbstractKind, Scrub.set, Gs]

theorem containsField_append (n : String) (a b : List Sel) :
    containsField n (a ++ b) = (containsField n a || containsField n b) := by
  induction a with
  | nil => simp [containsField]
  | cons x xs ih => simp [containsField, ih, Bool.or_assoc]

/-- **Stage 1 — sanitise**: `{ q { f1… g { h… } f2… } }` becomes `{ q { id f1… g { id h… } f2… } }`;
    the two helper ids are registered for scrubbing at paths `[q, g]` (type `U`) and `[q]` (type `T`). -/
theorem stage_sanitize (h : Fam c A B T U q g fs1 fs2 hs) :
    sanitizeSels c [] [QN T U q g fs1 fs2 hs] = .ok ([QN' T U q g fs1 fs2 hs], scrubN T U q g) := by
  have hnd := h.hnd
  rw [names_append, List.nodup_append] at hnd
  have hgnew := h.hgnew
  rw [names_append, List.mem_append, not_or] at hgnew
  have hleaves : sanitizeSelsAcc c ([] ++ [q]) (leaves fs1) [] [] = .ok (leaves fs1, []) :=
    sanitize_leaves c ([] ++ [q]) fs1 [] [] (by simpa using hnd.1)
  have hgal : hasFieldAliased (leaves fs1) g = false := by
    rw [hasFieldAliased_leaves]
    simpa using hgnew.1
  have hrest : sanitizeSelsAcc c ([] ++ [q]) (leaves fs2) (leaves fs1 ++ [Gs U g hs]) [([q, g], [(U, ["id"])])]
      = .ok ((leaves fs1 ++ [Gs U g hs]) ++ leaves fs2, [([q, g], [(U, ["id"])])]) := by
    apply sanitize_leaves_acc c _ fs2 _ _ hnd.2.1
    intro n hn
    rw [hasFieldAliased_append, hasFieldAliased_leaves]
    have h1 : n ∉ namesOf fs1 := fun hm => hnd.2.2 n hm n hn rfl
    have h2 : ¬ g = n := fun e => hgnew.2 (e ▸ hn)
    simp [h1, hasFieldAliased, Gs, h2]
  have hinner : sanitizeSelsAcc c ([] ++ [q]) (leaves fs1 ++ Gc U g hs :: leaves fs2) [] []
      = .ok (leaves fs1 ++ Gs U g hs :: leaves fs2, [([q, g], [(U, ["id"])])]) := by
    rw [sanitizeSelsAcc_append, hleaves]
    simp only [Except.bind, List.nil_append]
    rw [sanitizeSelsAcc]
    simp only [sanitize_G h, bind, Except.bind]
    have : addToResult (leaves fs1) [Gs U g hs] = leaves fs1 ++ [Gs U g hs] := by
      simp [addToResult, Gs, hgal]
    rw [this]
    have hm : Scrub.merge [] [([q, g], [(U, ["id"])])] = [([q, g], [(U, ["id"])])] := by
      simp [Scrub.merge, Scrub.set]
    rw [hm]
    simp only [List.nil_append] at hrest
    rw [hrest]
    simp
  have hempty : (leaves fs1 ++ Gc U g hs :: leaves fs2).isEmpty = false := by simp
  have hgid' : (g == "id") = false := by simpa using h.hgid
  have hnoid12 := noid_leaves h.toFamT
  rw [leaves_append, containsField_append, Bool.or_eq_false_iff] at hnoid12
  have hnoid : containsField "id" (leaves fs1 ++ Gs U g hs :: leaves fs2) = false := by
    rw [containsField_append, hnoid12.1]
    simp [containsField, containsFieldSel, Gs, hgid', hnoid12.2]
  unfold sanitizeSels
  rw [sanitizeSelsAcc]
  simp only [QN, sanitizeSel, hempty, Bool.false_eq_true, ↓reduceIte, bind, Except.bind]
  rw [hinner]
  simp only [addScrubFields, TypeRef.name, abstractDef_none h.hschemaT, h.tumTn, Option.getD_some, ↓reduceIte,
    withId, hnoid, Bool.false_eq_true]
  obtain ⟨td, h1, h2⟩ := h.hschemaT
  have hne : ([q, g] == [q]) = false := by simp
  simp [sanitizeSelsAcc, addToResult, hasFieldAliased, setMissing, Scrub.merge, Scrub.set, QN', scrubN, h1, h2,
    isAbstractKind]

end PebblesVerif.FlatNested
