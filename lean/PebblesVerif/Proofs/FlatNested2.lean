import PebblesVerif.Proofs.FlatNested1
/-! Two-level family, stage 2: routing and extraction (two child steps at the same depth, for the
same service, with insertion points `[q]` and `[q, g]`; their ORDER depends on whether a `B`-owned
field of `T` is written before `g`). -/
namespace PebblesVerif.FlatNested
open PebblesVerif PebblesVerif.Exec PebblesVerif.Flat

/-- the child step for the fields `bs ≠ []` of type `T` owned by `B`, at insertion point `ip` -/
def stepAt (B T : String) (ip : List String) (bs : List FieldSpec) : Step :=
  .mk B T (convertToNodeQuery T (leaves bs)) ip []

/-- … none if there is no such field -/
def stepsAt (B T : String) (ip : List String) : List FieldSpec → List Step
  | [] => []
  | bs => [stepAt B T ip bs]

theorem stepsAt_cons (B T : String) (ip : List String) (b0 : FieldSpec) (bs : List FieldSpec) :
    stepsAt B T ip (b0 :: bs) = [stepAt B T ip (b0 :: bs)] := rfl

theorem stepsAt_nil (B T : String) (ip : List String) : stepsAt B T ip [] = [] := rfl

theorem stepsAt_q (B T q : String) (bs : List FieldSpec) : stepsAt B T [q] bs = stepsB B T q bs := by
  cases bs <;> rfl

theorem stepAt_q (B T q : String) (bs : List FieldSpec) : stepAt B T [q] bs = stepB B T q bs := rfl

theorem extractLoop_append (c : PCtx) (ip : List String) (P loc : String) : ∀ (a b : List Sel) (acc : List Sel × List Step),
    extractLoop c ip P loc (a ++ b) acc = (extractLoop c ip P loc a acc).bind (fun acc' => extractLoop c ip P loc b acc')
  | [], b, acc => by simp [extractLoop, Except.bind]
  | s :: a, b, acc => by
    simp only [List.cons_append]
    rw [extractLoop, extractLoop]
    simp only [bind]
    cases extractSel c ip P loc s acc with
    | error f => rfl
    | ok r =>
      simp only [Except.bind]
      exact extractLoop_append c ip P loc a b r

variable {c : PCtx} {A B T U q g : String} {fs fs1 fs2 hs : List FieldSpec}

/-- no child step for `(url, ip)` among `pre` -/
def NoStep (pre : List Step) (url : String) (ip : List String) : Prop :=
  ∀ s ∈ pre, (s.url == url && s.ip == ip) = false

theorem findStep_skip (pre rest : List Step) (url : String) (ip : List String) (h : NoStep pre url ip) :
    findStep (pre ++ rest) url ip = findStep rest url ip := by
  induction pre with
  | nil => rfl
  | cons s pre ih =>
    have hs := h s (by simp)
    have hpre : NoStep pre url ip := fun x hx => h x (by simp [hx])
    simp only [findStep, List.cons_append, List.find?_cons, hs] at ih ⊢
    exact ih hpre

theorem updateStep_skip (pre rest : List Step) (url : String) (ip : List String) (f : Step → Step)
    (h : NoStep pre url ip) : updateStep (pre ++ rest) url ip f = pre ++ updateStep rest url ip f := by
  induction pre with
  | nil => rfl
  | cons s pre ih =>
    have hs := h s (by simp)
    have hpre : NoStep pre url ip := fun x hx => h x (by simp [hx])
    simp only [List.cons_append, updateStep, hs, Bool.false_eq_true, ↓reduceIte, ih hpre]

/-- **Extraction of leaf fields when the child step for `B` at `ip` already exists** (anywhere among
    the child steps collected so far): the owner's fields are appended to the selection, the other
    service's fields are added INTO that step, which keeps its place. -/
theorem extract_leaves_upd (h : FamT c A B T q fs) (ip : List String) (pre post : List Step) (hpre : NoStep pre B ip) :
    ∀ (rest : List FieldSpec) (res : List Sel) (b0 : FieldSpec) (accB : List FieldSpec),
    (∀ f ∈ rest, f ∈ fs) →
    extractLoop c ip T A (leaves rest) (res, pre ++ stepAt B T ip (b0 :: accB) :: post)
      = .ok (res ++ leaves (rest.filter (fun f => !f.2.2)),
             pre ++ stepAt B T ip (b0 :: accB ++ rest.filter (fun f => f.2.2)) :: post)
  | [], res, b0, accB, _ => by simp [leaves_nil, extractLoop]
  | f :: rest, res, b0, accB, hsub => by
    have hf : f ∈ fs := hsub f (by simp)
    have hrest : ∀ g ∈ rest, g ∈ fs := fun g hg => hsub g (by simp [hg])
    rw [leaves_cons, extractLoop]
    simp only [leaf, extractSel, getURL_leaf h f hf, bind, Except.bind]
    cases hb : f.2.2
    · -- owned by A: kept
      simp only [Bool.false_eq_true, ↓reduceIte, beq_self_eq_true, List.isEmpty_nil]
      have := extract_leaves_upd h ip pre post hpre rest (res ++ [leaf f.1 f.2.1]) b0 accB hrest
      simp only [leaf] at this
      rw [this]
      simp [hb, leaves_cons, leaf]
    · -- owned by B: merged into the existing step
      have hBA : (B == A) = false := by
        simp only [beq_eq_false_iff_ne, ne_eq]; exact fun e => h.hAB e.symm
      have hfind : findStep (pre ++ stepAt B T ip (b0 :: accB) :: post) B ip = some (stepAt B T ip (b0 :: accB)) := by
        rw [findStep_skip _ _ _ _ hpre]
        simp [findStep, stepAt, Step.url, Step.ip]
      have hupd : ∀ F : Step → Step, updateStep (pre ++ stepAt B T ip (b0 :: accB) :: post) B ip F
          = pre ++ F (stepAt B T ip (b0 :: accB)) :: post := by
        intro F
        rw [updateStep_skip _ _ _ _ _ hpre]
        simp [updateStep, stepAt, Step.url, Step.ip]
      simp only [↓reduceIte, hBA, Bool.false_eq_true, hfind, List.isEmpty_nil, hupd]
      have hadd : addFieldToNodeQuery T (convertToNodeQuery T (leaves (b0 :: accB))) (Sel.field f.1 f.1 [] [] f.2.1 [] [])
          = some (convertToNodeQuery T (leaves (b0 :: accB ++ [f]))) := by
        simp [addFieldToNodeQuery, convertToNodeQuery, leaves, leaf]
      simp only [stepAt, Step.sels, Step.parentType, Step.thn, Step.url, Step.ip, hadd, List.append_nil]
      have := extract_leaves_upd h ip pre post hpre rest res b0 (accB ++ [f]) hrest
      simp only [stepAt, List.cons_append, List.append_assoc] at this ⊢
      rw [this]
      simp [hb]

/-- **Extraction of leaf fields when there is no child step for `B` at `ip` yet**: the owner's fields
    are appended to the selection; the first field of the other service opens a NEW child step, put
    AFTER the child steps collected so far, and the following ones are added into it. -/
theorem extract_leaves_new (h : FamT c A B T q fs) (ip : List String) (pre : List Step) (hpre : NoStep pre B ip) :
    ∀ (rest : List FieldSpec) (res : List Sel), (∀ f ∈ rest, f ∈ fs) →
    extractLoop c ip T A (leaves rest) (res, pre)
      = .ok (res ++ leaves (rest.filter (fun f => !f.2.2)), pre ++ stepsAt B T ip (rest.filter (fun f => f.2.2)))
  | [], res, _ => by simp [leaves_nil, extractLoop, stepsAt]
  | f :: rest, res, hsub => by
    have hf : f ∈ fs := hsub f (by simp)
    have hrest : ∀ g ∈ rest, g ∈ fs := fun g hg => hsub g (by simp [hg])
    cases hb : f.2.2
    · rw [leaves_cons, extractLoop]
      simp only [leaf, extractSel, getURL_leaf h f hf, bind, Except.bind, hb, Bool.false_eq_true, ↓reduceIte,
        beq_self_eq_true, List.isEmpty_nil]
      have := extract_leaves_new h ip pre hpre rest (res ++ [leaf f.1 f.2.1]) hrest
      simp only [leaf] at this
      rw [this]
      simp [hb, leaves_cons, leaf]
    · have hBA : (B == A) = false := by
        simp only [beq_eq_false_iff_ne, ne_eq]; exact fun e => h.hAB e.symm
      have hfb := h.hfb f.1 (mem_names hf)
      have hfid : (f.1 == "id") = false := by
        simp only [beq_eq_false_iff_ne, ne_eq]
        exact h.hfid f.1 (mem_names hf)
      have htum := h.tumTf f hf
      simp only [hb, ↓reduceIte] at htum
      have hfind : findStep pre B ip = none := by
        have := findStep_skip pre [] B ip hpre
        simpa [findStep] using this
      have hfin : finishExtract c T [Sel.field f.1 f.1 [] [] f.2.1 [] []]
          = convertToNodeQuery T (leaves [f]) := by
        simp [finishExtract, h.hTroot, h.tumTn, hasFieldNamed, hfid, leaves, leaf]
      rw [leaves_cons, extractLoop]
      simp only [leaf, extractSel, getURL_leaf h f hf, bind, Except.bind, hb, ↓reduceIte, hBA, Bool.false_eq_true,
        hfind, hfb, htum, preExtract_T h, List.isEmpty_nil, hfin]
      have := extract_leaves_upd h ip pre [] hpre rest res f [] hrest
      simp only [stepAt] at this
      rw [this]
      simp [hb, stepsAt, stepAt]

theorem noStep_nil (url : String) (ip : List String) : NoStep [] url ip := fun _ hs => by cases hs

/-- the extraction loop over `id f…` of a Node type at its owner `A`, at any insertion point -/
theorem extract_id_leaves (h : FamT c A B T q fs) (ip : List String) :
    extractLoop c ip T A (idField :: leaves fs) ([], [])
      = .ok (idField :: leaves (fsA fs), stepsAt B T ip (fsB fs)) := by
  have hidstep : extractSel c ip T A idField ([], []) = .ok ([idField], []) := by
    simp [idField, extractSel, getURL, isBuiltinName, h.tumTn, h.tumTid]
  rw [extractLoop]
  simp only [hidstep, bind, Except.bind]
  have := extract_leaves_new h ip [] (noStep_nil B ip) fs [idField] (fun f hf => hf)
  simpa [fsA, fsB] using this

theorem getURL_g (h : Fam c A B T U q g fs1 fs2 hs) (fb : String) : getURL c T g fb = .ok A := by
  simp [getURL, h.hgb, h.tumTn, h.tumTg]

/-- extraction of the nested field `g { id h… }` below `q` at `A` (the owner of `g`): `A` keeps `g`
    with `A`'s share of `h…`; `B`'s share becomes a child step at insertion point `[q, g]`, appended
    to the child steps collected so far -/
theorem extract_G (h : Fam c A B T U q g fs1 fs2 hs) (res : List Sel) (steps : List Step) :
    extractSel c [q] T A (Gs U g hs) (res, steps)
      = .ok (res ++ [Gown U g hs], steps ++ stepsAt B U [q, g] (fsB hs)) := by
  have hfinU : finishExtract c U (idField :: leaves (fsA hs)) = idField :: leaves (fsA hs) := by
    simp [finishExtract, hasFieldNamed, idField]
  unfold Gs
  rw [extractSel]
  simp only [getURL_g h, beq_self_eq_true, ↓reduceIte, List.isEmpty_cons, Bool.false_eq_true, TypeRef.name,
    preExtract_T h.famU, bind, Except.bind, List.cons_append, List.nil_append]
  rw [extract_id_leaves h.famU [q, g]]
  simp only [hfinU, Gown]

theorem fsB_append (a b : List FieldSpec) : fsB (a ++ b) = fsB a ++ fsB b := by simp [fsB]
theorem fsA_append (a b : List FieldSpec) : fsA (a ++ b) = fsA a ++ fsA b := by simp [fsA]

/-- the child steps of the plan. If `B` owns a field of `T` written BEFORE `g`, the step at `[q]`
    (with all of `B`'s fields of `T`) comes first, then the step at `[q, g]`; otherwise the step at
    `[q, g]` comes first (a step is created when the first field for it is met) -/
def childSteps (B T U q g : String) (fs1 fs2 hs : List FieldSpec) : List Step :=
  match fsB fs1 with
  | [] => stepsAt B U [q, g] (fsB hs) ++ stepsAt B T [q] (fsB (fs1 ++ fs2))
  | _ :: _ => stepAt B T [q] (fsB (fs1 ++ fs2)) :: stepsAt B U [q, g] (fsB hs)

theorem noStep_U (B U q g : String) (bs : List FieldSpec) : NoStep (stepsAt B U [q, g] bs) B [q] := by
  intro s hs
  cases bs with
  | nil => cases hs
  | cons b0 bs =>
    simp only [stepsAt, List.mem_singleton] at hs
    subst hs
    simp [stepAt, Step.ip]

/-- the extraction loop below `q` -/
theorem extract_inner (h : Fam c A B T U q g fs1 fs2 hs) :
    extractLoop c [q] T A (idField :: (leaves fs1 ++ Gs U g hs :: leaves fs2)) ([], [])
      = .ok (idField :: (leaves (fsA fs1) ++ Gown U g hs :: leaves (fsA fs2)), childSteps B T U q g fs1 fs2 hs) := by
  have hidstep : extractSel c [q] T A idField ([], []) = .ok ([idField], []) := by
    simp [idField, extractSel, getURL, isBuiltinName, h.tumTn, h.tumTid]
  have hsub1 : ∀ f ∈ fs1, f ∈ fs1 ++ fs2 := fun f hf => List.mem_append_left _ hf
  have hsub2 : ∀ f ∈ fs2, f ∈ fs1 ++ fs2 := fun f hf => List.mem_append_right _ hf
  have h1 := extract_leaves_new h.toFamT [q] [] (noStep_nil B [q]) fs1 [idField] hsub1
  rw [extractLoop]
  simp only [hidstep, bind, Except.bind]
  rw [extractLoop_append, h1]
  simp only [Except.bind, List.nil_append]
  rw [extractLoop, extract_G h]
  simp only [bind, Except.bind]
  unfold childSteps
  cases hb1 : fsB fs1 with
  | nil =>
    have hb1' : List.filter (fun f : FieldSpec => f.2.2) fs1 = [] := hb1
    rw [hb1']
    simp only [stepsAt_nil, List.nil_append]
    rw [extract_leaves_new h.toFamT [q] _ (noStep_U B U q g (fsB hs)) fs2 _ hsub2]
    simp [fsA, fsB, hb1']
  | cons b0 bs =>
    have hb1' : List.filter (fun f : FieldSpec => f.2.2) fs1 = b0 :: bs := hb1
    rw [hb1']
    simp only [stepsAt_cons]
    have := extract_leaves_upd h.toFamT [q] [] (stepsAt B U [q, g] (fsB hs)) (noStep_nil B [q]) fs2
      (idField :: leaves (fsA fs1) ++ [Gown U g hs]) b0 bs hsub2
    simp only [List.nil_append, List.cons_append] at this
    simp only [fsA, List.cons_append, List.nil_append] at this ⊢
    rw [this]
    simp [fsB, hb1']

theorem filterByLoc_X (h : Flat.Fam c A B T q fs) (X : Sel) (hX : fieldName X = q) (u : String) :
    filterByLoc c [X] u "Query" = some (if u == A then [X] else []) := by
  simp only [filterByLoc, List.foldl_cons, List.foldl_nil, filterStep, hX, getURL_root h]
  by_cases hu : u = A
  · subst hu; simp
  · have : (A == u) = false := by simp only [beq_eq_false_iff_ne, ne_eq]; exact fun e => hu e.symm
    have h2 : (u == A) = false := by simp only [beq_eq_false_iff_ne, ne_eq]; exact hu
    simp [this, h2]

theorem route_fold_X (h : Flat.Fam c A B T q fs) (X : Sel) (hX : fieldName X = q) (urls : List String) :
    ∀ (acc : List (String × List Sel)), urls.Nodup →
    urls.foldlM (routeStep c [X] "Query") acc = .ok (acc ++ (if A ∈ urls then [(A, [X])] else [])) := by
  induction urls with
  | nil => intro acc _; simp [List.foldlM, pure, Except.pure]
  | cons u us ih =>
    intro acc hnd
    simp only [List.nodup_cons] at hnd
    simp only [List.foldlM_cons, bind, Except.bind, routeStep, filterByLoc_X h X hX u]
    by_cases hu : u = A
    · subst hu
      simp only [beq_self_eq_true, ↓reduceIte]
      rw [ih _ hnd.2]
      simp [hnd.1]
    · have h2 : (u == A) = false := by simp only [beq_eq_false_iff_ne, ne_eq]; exact hu
      simp only [h2, Bool.false_eq_true, ↓reduceIte]
      rw [ih _ hnd.2]
      have : ¬ A = u := fun e => hu e.symm
      simp [this]

/-- routing at the root: a single root field named `q` goes to `A` (whatever lies below it) -/
theorem routeRoot_X (h : Flat.Fam c A B T q fs) (X : Sel) (hX : fieldName X = q) :
    routeRoot c [X] "Query" = .ok [(A, [X])] := by
  unfold routeRoot
  simp only [List.isEmpty_cons, Bool.false_eq_true, ↓reduceIte, bind, Except.bind]
  rw [route_fold_X h X hX c.tum.urls [] h.hurlsNd]
  have : (internalService == A) = false := by
    simp only [beq_eq_false_iff_ne, ne_eq]; exact fun e => h.hAint e.symm
  simp [h.hurlsA, routeInternal, filterByLoc_X h X hX internalService, this]

/-- extraction at the root for service `A` -/
theorem extract_root (h : Fam c A B T U q g fs1 fs2 hs) :
    extractSels c [] "Query" [QN' T U q g fs1 fs2 hs] A
      = .ok ([QNown T U q g fs1 fs2 hs], childSteps B T U q g fs1 fs2 hs) := by
  have hfinT : finishExtract c T (idField :: (leaves (fsA fs1) ++ Gown U g hs :: leaves (fsA fs2)))
      = idField :: (leaves (fsA fs1) ++ Gown U g hs :: leaves (fsA fs2)) := by
    simp [finishExtract, hasFieldNamed, idField]
  have hsel : extractSel c [] "Query" A (QN' T U q g fs1 fs2 hs) ([], [])
      = .ok ([QNown T U q g fs1 fs2 hs], childSteps B T U q g fs1 fs2 hs) := by
    unfold QN'
    rw [extractSel]
    simp only [getURL_root h.toFam, beq_self_eq_true, ↓reduceIte, List.isEmpty_cons, Bool.false_eq_true, TypeRef.name,
      preExtract_T h.toFamT, bind, Except.bind, List.nil_append]
    rw [extract_inner h]
    simp only [hfinT, QNown]
  unfold extractSels
  simp only [preExtract_Q h.toFam, bind, Except.bind]
  rw [extractLoop, hsel]
  simp only [bind, Except.bind, extractLoop]
  simp [finishExtract, isRootName]

/-- the plan of the family -/
def rootStepN (A B T U q g : String) (fs1 fs2 hs : List FieldSpec) : Step :=
  .mk A "Query" [QNown T U q g fs1 fs2 hs] [] (childSteps B T U q g fs1 fs2 hs)

/-- **Stage 2 — plan**: one root step at `A` with `{ q { id <A's f1…> g { id <A's h…> } <A's f2…> } }`
    and up to TWO child steps at `B`, both at depth 1: `node(id: $id) { ... on T { <B's f…> } }` at
    insertion point `[q]` (if `B` owns some `f`) and `node(id: $id) { ... on U { <B's h…> } }` at
    insertion point `[q, g]` (if `B` owns some `h`), in the order `childSteps`. -/
theorem stage_plan (h : Fam c A B T U q g fs1 fs2 hs) :
    planRoot c [QN' T U q g fs1 fs2 hs] = .ok [rootStepN A B T U q g fs1 fs2 hs] := by
  have hnode : (q == "node") = false := by simp only [beq_eq_false_iff_ne, ne_eq]; exact h.hqn
  have htf : Sel.toFields [QN' T U q g fs1 fs2 hs] = [QN' T U q g fs1 fs2 hs] := by simp [Sel.toFields, QN']
  have hfn : fieldName (QN' T U q g fs1 fs2 hs) = q := rfl
  unfold planRoot
  simp only [h.hkind, OpKind.rootName, htf, List.filter_cons, List.filter_nil, hfn, hnode, bne, Bool.not_false,
    Bool.false_eq_true, ↓reduceIte, bind, Except.bind, routeRoot_X h.toFam _ hfn]
  simp only [groupNodeFields, List.foldlM_nil, pure, Except.pure, List.foldl_nil, List.foldlM_cons, bind, Except.bind,
    extract_root h, List.nil_append, rootStepN]

end PebblesVerif.FlatNested
