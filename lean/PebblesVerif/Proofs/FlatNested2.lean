import PebblesVerif.Proofs.FlatNested1
/-! Two-level family, stage 2: routing and extraction (two child steps at the same depth, for the
same service, with insertion points `[q]` and `[q, g]`). -/
namespace PebblesVerif.FlatNested
open PebblesVerif PebblesVerif.Exec PebblesVerif.Flat

/-- the child step for the fields `bs ≠ []` of type `T` owned by `B`, at insertion point `ip` -/
def stepAt (B T : String) (ip : List String) (bs : List FieldSpec) : Step :=
  .mk B T (convertToNodeQuery T (leaves bs)) ip []

/-- … none if there is no such field -/
def stepsAt (B T : String) (ip : List String) : List FieldSpec → List Step
  | [] => []
  | bs => [stepAt B T ip bs]

theorem stepsAt_cons (B T : String) (ip : List String) (b0 : FieldSpec) (bs : List FieldSpec) :
    stepsAt B T ip (b0 :: bs) = [stepAt B T ip (b0 :: bs)] := rfl

theorem stepsAt_q (B T q : String) (bs : List FieldSpec) : stepsAt B T [q] bs = stepsB B T q bs := by
  cases bs <;> rfl

theorem stepAt_q (B T q : String) (bs : List FieldSpec) : stepAt B T [q] bs = stepB B T q bs := rfl

theorem extractLoop_append (c : PCtx) (ip : List String) (P loc : String) : ∀ (a b : List Sel) (acc : List Sel × List Step),
    extractLoop c ip P loc (a ++ b) acc = (extractLoop c ip P loc a acc).bind (fun acc' => extractLoop c ip P loc b acc')
  | [], b, acc => by simp [extractLoop, Except.bind]
  | s :: a, b, acc => by
    simp only [List.cons_append]
    rw [extractLoop, extractLoop]
    simp only [bind]
    cases extractSel c ip P loc s acc with
    | error f => rfl
    | ok r =>
      simp only [Except.bind]
      exact extractLoop_append c ip P loc a b r

variable {c : PCtx} {A B T U q g : String} {fs hs : List FieldSpec}

/-- **Extraction of leaf fields at ANY insertion point** (`Flat.extract_leaves` is the case
    `ip = [q]`): the owner's fields stay, the other service's fields are collected into ONE child
    step at `ip`, wrapped in `node(id: $id) { ... on T { … } }`, whatever the interleaving. -/
theorem extract_leaves_at (h : FamT c A B T q fs) (ip : List String) : ∀ (rest accA accB : List FieldSpec),
    (∀ f ∈ rest, f ∈ fs) →
    extractLoop c ip T A (leaves rest) (idField :: leaves accA, stepsAt B T ip accB)
      = .ok (idField :: leaves (accA ++ rest.filter (fun f => !f.2.2)), stepsAt B T ip (accB ++ rest.filter (fun f => f.2.2)))
  | [], accA, accB, _ => by simp [leaves_nil, extractLoop]
  | f :: rest, accA, accB, hsub => by
    have hf : f ∈ fs := hsub f (by simp)
    have hrest : ∀ g ∈ rest, g ∈ fs := fun g hg => hsub g (by simp [hg])
    rw [leaves_cons, extractLoop]
    simp only [leaf, extractSel, getURL_leaf h f hf, bind, Except.bind]
    cases hb : f.2.2
    · -- owned by A: kept
      simp only [Bool.false_eq_true, ↓reduceIte, beq_self_eq_true, List.isEmpty_nil]
      have := extract_leaves_at h ip rest (accA ++ [f]) accB hrest
      rw [leaves_append, leaves_cons, leaves_nil] at this
      simp only [leaf, List.cons_append, List.append_assoc] at this ⊢
      rw [this]
      simp [hb]
    · -- owned by B
      have hBA : (B == A) = false := by
        simp only [beq_eq_false_iff_ne, ne_eq]; exact fun e => h.hAB e.symm
      simp only [↓reduceIte, hBA, Bool.false_eq_true]
      cases accB with
      | nil =>
        have hfb := h.hfb f.1 (mem_names hf)
        have hfid : (f.1 == "id") = false := by
          simp only [beq_eq_false_iff_ne, ne_eq]
          exact h.hfid f.1 (mem_names hf)
        have htum := h.tumTf f hf
        simp only [hb, ↓reduceIte] at htum
        simp only [stepsAt, findStep, List.find?_nil, hfb, Bool.false_eq_true, ↓reduceIte, htum,
          preExtract_T h, List.isEmpty_nil, List.nil_append]
        have hfin : finishExtract c T [Sel.field f.1 f.1 [] [] f.2.1 [] []]
            = convertToNodeQuery T (leaves [f]) := by
          simp [finishExtract, h.hTroot, h.tumTn, hasFieldNamed, hfid, leaves, leaf]
        rw [hfin]
        have := extract_leaves_at h ip rest accA [f] hrest
        simp only [stepsAt, stepAt] at this
        rw [this]
        simp [hb, stepAt]
      | cons b0 bs =>
        simp only [stepsAt, stepAt, findStep, List.find?_cons, Step.url, Step.ip, beq_self_eq_true, Bool.and_self,
          List.isEmpty_nil, ↓reduceIte, updateStep]
        have hadd : addFieldToNodeQuery T (convertToNodeQuery T (leaves (b0 :: bs))) (Sel.field f.1 f.1 [] [] f.2.1 [] [])
            = some (convertToNodeQuery T (leaves (b0 :: bs ++ [f]))) := by
          simp [addFieldToNodeQuery, convertToNodeQuery, leaves, leaf]
        simp only [Step.sels, Step.parentType, Step.thn, hadd, List.append_nil]
        have := extract_leaves_at h ip rest accA (b0 :: bs ++ [f]) hrest
        simp only [stepsAt, stepAt, List.cons_append, List.append_assoc] at this ⊢
        rw [this]
        simp [hb]

/-- the extraction loop over `id f…` of a Node type at its owner `A`, at any insertion point -/
theorem extract_id_leaves (h : FamT c A B T q fs) (ip : List String) :
    extractLoop c ip T A (idField :: leaves fs) ([], [])
      = .ok (idField :: leaves (fsA fs), stepsAt B T ip (fsB fs)) := by
  have hidstep : extractSel c ip T A idField ([], []) = .ok ([idField], []) := by
    simp [idField, extractSel, getURL, isBuiltinName, h.tumTn, h.tumTid]
  rw [extractLoop]
  simp only [hidstep, bind, Except.bind]
  have := extract_leaves_at h ip fs [] [] (fun f hf => hf)
  simp only [leaves_nil, stepsAt, List.nil_append] at this
  exact this

theorem getURL_g (h : Fam c A B T U q g fs hs) (fb : String) : getURL c T g fb = .ok A := by
  simp [getURL, h.hgb, h.tumTn, h.tumTg]

/-- extraction of the nested field `g { id h… }` below `q` at `A` (the owner of `g`): `A` keeps `g`
    with `A`'s share of `h…`; `B`'s share becomes a child step at insertion point `[q, g]`, appended
    to the child steps collected so far -/
theorem extract_G (h : Fam c A B T U q g fs hs) (res : List Sel) (steps : List Step) :
    extractSel c [q] T A (Gs U g hs) (res, steps)
      = .ok (res ++ [Gown U g hs], steps ++ stepsAt B U [q, g] (fsB hs)) := by
  have hfinU : finishExtract c U (idField :: leaves (fsA hs)) = idField :: leaves (fsA hs) := by
    simp [finishExtract, hasFieldNamed, idField]
  unfold Gs
  rw [extractSel]
  simp only [getURL_g h, beq_self_eq_true, ↓reduceIte, List.isEmpty_cons, Bool.false_eq_true, TypeRef.name,
    preExtract_T h.famU, bind, Except.bind, List.cons_append, List.nil_append]
  rw [extract_id_leaves h.famU [q, g]]
  simp only [hfinU, Gown]

/-- the child steps of the plan: `B`'s share of `f…` at `[q]`, then `B`'s share of `h…` at `[q, g]` -/
def childSteps (B T U q g : String) (fs hs : List FieldSpec) : List Step :=
  stepsAt B T [q] (fsB fs) ++ stepsAt B U [q, g] (fsB hs)

/-- the extraction loop below `q` -/
theorem extract_inner (h : Fam c A B T U q g fs hs) :
    extractLoop c [q] T A (idField :: (leaves fs ++ [Gs U g hs])) ([], [])
      = .ok (idField :: (leaves (fsA fs) ++ [Gown U g hs]), childSteps B T U q g fs hs) := by
  rw [← List.cons_append, extractLoop_append, extract_id_leaves h.toFamT [q]]
  simp only [Except.bind]
  rw [extractLoop, extract_G h]
  simp only [bind, Except.bind, extractLoop, List.cons_append, childSteps]

theorem filterByLoc_X (h : Flat.Fam c A B T q fs) (X : Sel) (hX : fieldName X = q) (u : String) :
    filterByLoc c [X] u "Query" = some (if u == A then [X] else []) := by
  simp only [filterByLoc, List.foldl_cons, List.foldl_nil, filterStep, hX, getURL_root h]
  by_cases hu : u = A
  · subst hu; simp
  · have : (A == u) = false := by simp only [beq_eq_false_iff_ne, ne_eq]; exact fun e => hu e.symm
    have h2 : (u == A) = false := by simp only [beq_eq_false_iff_ne, ne_eq]; exact hu
    simp [this, h2]

theorem route_fold_X (h : Flat.Fam c A B T q fs) (X : Sel) (hX : fieldName X = q) (urls : List String) :
    ∀ (acc : List (String × List Sel)), urls.Nodup →
    urls.foldlM (routeStep c [X] "Query") acc = .ok (acc ++ (if A ∈ urls then [(A, [X])] else [])) := by
  induction urls with
  | nil => intro acc _; simp [List.foldlM, pure, Except.pure]
  | cons u us ih =>
    intro acc hnd
    simp only [List.nodup_cons] at hnd
    simp only [List.foldlM_cons, bind, Except.bind, routeStep, filterByLoc_X h X hX u]
    by_cases hu : u = A
    · subst hu
      simp only [beq_self_eq_true, ↓reduceIte]
      rw [ih _ hnd.2]
      simp [hnd.1]
    · have h2 : (u == A) = false := by simp only [beq_eq_false_iff_ne, ne_eq]; exact hu
      simp only [h2, Bool.false_eq_true, ↓reduceIte]
      rw [ih _ hnd.2]
      have : ¬ A = u := fun e => hu e.symm
      simp [this]

/-- routing at the root: a single root field named `q` goes to `A` (whatever lies below it) -/
theorem routeRoot_X (h : Flat.Fam c A B T q fs) (X : Sel) (hX : fieldName X = q) :
    routeRoot c [X] "Query" = .ok [(A, [X])] := by
  unfold routeRoot
  simp only [List.isEmpty_cons, Bool.false_eq_true, ↓reduceIte, bind, Except.bind]
  rw [route_fold_X h X hX c.tum.urls [] h.hurlsNd]
  have : (internalService == A) = false := by
    simp only [beq_eq_false_iff_ne, ne_eq]; exact fun e => h.hAint e.symm
  simp [h.hurlsA, routeInternal, filterByLoc_X h X hX internalService, this]

/-- extraction at the root for service `A` -/
theorem extract_root (h : Fam c A B T U q g fs hs) :
    extractSels c [] "Query" [QN' T U q g fs hs] A = .ok ([QNown T U q g fs hs], childSteps B T U q g fs hs) := by
  have hfinT : finishExtract c T (idField :: (leaves (fsA fs) ++ [Gown U g hs]))
      = idField :: (leaves (fsA fs) ++ [Gown U g hs]) := by
    simp [finishExtract, hasFieldNamed, idField]
  have hsel : extractSel c [] "Query" A (QN' T U q g fs hs) ([], [])
      = .ok ([QNown T U q g fs hs], childSteps B T U q g fs hs) := by
    unfold QN'
    rw [extractSel]
    simp only [getURL_root h.toFam, beq_self_eq_true, ↓reduceIte, List.isEmpty_cons, Bool.false_eq_true, TypeRef.name,
      preExtract_T h.toFamT, bind, Except.bind, List.nil_append]
    rw [extract_inner h]
    simp only [hfinT, QNown]
  unfold extractSels
  simp only [preExtract_Q h.toFam, bind, Except.bind]
  rw [extractLoop, hsel]
  simp only [bind, Except.bind, extractLoop]
  simp [finishExtract, isRootName]

/-- the plan of the family -/
def rootStepN (A B T U q g : String) (fs hs : List FieldSpec) : Step :=
  .mk A "Query" [QNown T U q g fs hs] [] (childSteps B T U q g fs hs)

/-- **Stage 2 — plan**: one root step at `A` with `{ q { id <A's f…> g { id <A's h…> } } }` and up
    to TWO child steps at `B`, both at depth 1: `node(id: $id) { ... on T { <B's f…> } }` at
    insertion point `[q]` (if `B` owns some `f`), then `node(id: $id) { ... on U { <B's h…> } }` at
    insertion point `[q, g]` (if `B` owns some `h`). -/
theorem stage_plan (h : Fam c A B T U q g fs hs) :
    planRoot c [QN' T U q g fs hs] = .ok [rootStepN A B T U q g fs hs] := by
  have hnode : (q == "node") = false := by simp only [beq_eq_false_iff_ne, ne_eq]; exact h.hqn
  have htf : Sel.toFields [QN' T U q g fs hs] = [QN' T U q g fs hs] := by simp [Sel.toFields, QN']
  have hfn : fieldName (QN' T U q g fs hs) = q := rfl
  unfold planRoot
  simp only [h.hkind, OpKind.rootName, htf, List.filter_cons, List.filter_nil, hfn, hnode, bne, Bool.not_false,
    Bool.false_eq_true, ↓reduceIte, bind, Except.bind, routeRoot_X h.toFam _ hfn]
  simp only [groupNodeFields, List.foldlM_nil, pure, Except.pure, List.foldl_nil, List.foldlM_cons, bind, Except.bind,
    extract_root h, List.nil_append, rootStepN]

end PebblesVerif.FlatNested
