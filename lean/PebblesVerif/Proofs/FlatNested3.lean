import PebblesVerif.Proofs.FlatNested2
/-! Two-level family, stage 3a: depth 0 of the execution — the root request, and the realisation of
the TWO insertion points (`[q#<id>]` and `[q, g#<id'>]`) from `A`'s answer. -/
namespace PebblesVerif.FlatNested
open PebblesVerif PebblesVerif.Exec PebblesVerif.Flat PebblesVerif.ResultOps

/-! ### plain points (no id, no index) -/

theorem extract_plain (q : String) (hq1 : '#' ∉ q.toList) (hq2 : ':' ∉ q.toList) :
    Point.extract q = .ok ⟨q, none, ""⟩ := by
  have h1 : q.toList.contains '#' = false := by simpa using hq1
  have h2 : q.toList.contains ':' = false := by simpa using hq2
  unfold Point.extract Point.extractL
  simp only [h1, Bool.false_eq_true, ↓reduceIte, h2, String.ofList_toList]

theorem isListElement_plain (q : String) (hq1 : '#' ∉ q.toList) (hq2 : ':' ∉ q.toList) :
    Point.isListElement q = false := by
  have h2 : q.toList.contains ':' = false := by simpa using hq2
  have hidx : q.toList.idxOf? '#' = none := by
    generalize q.toList = l at hq1
    induction l with
    | nil => rfl
    | cons x xs ih =>
      have hx : ¬ x = '#' := fun e => hq1 (by simp [e])
      have hxs : '#' ∉ xs := fun e => hq1 (by simp [e])
      simp [List.idxOf?_cons, hx, ih hxs]
  unfold Point.isListElement Point.isListElementL
  simp only [hidx, h2]

/-! ### association lists with a distinguished key in the middle -/

theorem lookup_mid (k : String) (v : J) : ∀ (pre post : List (String × J)), k ∉ J.keys pre →
    J.lookup k (pre ++ (k, v) :: post) = some v
  | [], post, _ => by simp [J.lookup]
  | (k', v') :: pre, post, h => by
    simp only [J.keys, List.map_cons, List.mem_cons, not_or] at h
    have : ¬ k = k' := h.1
    simp only [List.cons_append, J.lookup, this, ↓reduceIte]
    exact lookup_mid k v pre post (by simpa [J.keys] using h.2)

theorem setKey_mid (k : String) (v w : J) : ∀ (pre post : List (String × J)), k ∉ J.keys pre →
    J.setKey k w (pre ++ (k, v) :: post) = pre ++ (k, w) :: post
  | [], post, _ => by simp [J.setKey]
  | (k', v') :: pre, post, h => by
    simp only [J.keys, List.map_cons, List.mem_cons, not_or] at h
    have : ¬ k = k' := h.1
    simp only [List.cons_append, J.setKey, this, ↓reduceIte]
    rw [setKey_mid k v w pre post (by simpa [J.keys] using h.2)]

/-! ### the answer of `A` and the search for the stitch points -/

/-- what `A` answers below `q` after the helper id: `A`'s share `a1` of `f1…`, the object under `g`
    with its id and `A`'s share `a'` of `h…`, then `A`'s share `a2` of `f2…` -/
def aG (g i' : String) (a1 a2 a' : List (String × J)) : List (String × J) :=
  a1 ++ (g, .obj (("id", .str i') :: a')) :: a2

variable {c : PCtx} {A B T U q g : String} {fs1 fs2 hs : List FieldSpec}

theorem findSelection_leaves (g : String) (tail : List Sel) : ∀ (xs : List FieldSpec), g ∉ namesOf xs →
    findSelection g (leaves xs ++ tail) = findSelection g tail
  | [], _ => by simp [leaves_nil]
  | f :: xs, hg => by
    simp only [namesOf, List.map_cons, List.mem_cons, not_or] at hg
    have hne : ((if f.1 != "" then f.1 else f.1) == g) = false := by
      have : ¬ f.1 = g := fun e => hg.1 e.symm
      simp [this]
    rw [leaves_cons, List.cons_append]
    unfold leaf
    rw [findSelection_skip_leaf _ _ _ _ _ _ _ _ hne]
    exact findSelection_leaves g tail xs (by simpa [namesOf] using hg.2)

theorem names_subA (fs : List FieldSpec) : (namesOf (fsA fs)).Sublist (namesOf fs) :=
  List.Sublist.map _ List.filter_sublist
theorem names_subB (fs : List FieldSpec) : (namesOf (fsB fs)).Sublist (namesOf fs) :=
  List.Sublist.map _ List.filter_sublist

theorem g_not_fs1 (h : Fam c A B T U q g fs1 fs2 hs) : g ∉ namesOf fs1 := fun hm =>
  h.hgnew (by rw [names_append]; exact List.mem_append_left _ hm)
theorem g_not_fs2 (h : Fam c A B T U q g fs1 fs2 hs) : g ∉ namesOf fs2 := fun hm =>
  h.hgnew (by rw [names_append]; exact List.mem_append_right _ hm)

/-- below `q`, the name `g` resolves to the nested field (the helper id and `A`'s leaf fields before it
    are passed over; what follows it is not looked at) -/
theorem findSelection_g (h : Fam c A B T U q g fs1 fs2 hs) :
    findSelection g (idField :: (leaves (fsA fs1) ++ Gown U g hs :: leaves (fsA fs2))) = some (Gown U g hs) := by
  have hid : ((if ("" : String) != "" then "" else "id") == g) = false := by
    have : ¬ "id" = g := fun e => h.hgid e.symm
    simp [this]
  have hsub : g ∉ namesOf (fsA fs1) := fun hm => g_not_fs1 h ((names_subA fs1).subset hm)
  unfold idField
  rw [findSelection_skip_leaf _ _ _ _ _ _ _ _ hid, findSelection_leaves g _ _ hsub]
  exact findSelection_head g g [] [] _ [] _ _ g (by simp)

theorem findSelection_q (q : String) (X : List Sel) (T : String) :
    findSelection q [.field q q [] [] (.named T) [] X] = some (.field q q [] [] (.named T) [] X) :=
  findSelection_head q q [] [] _ [] _ [] q (by simp)

/-- the insertion point of the child step at `[q]`: `q#<id>` -/
theorem findIP_q (T U q g : String) (fs1 fs2 hs : List FieldSpec) (i : String) (x : List (String × J)) :
    findIP [q] [QNown T U q g fs1 fs2 hs] (respA q i x) [] = .ok [[pointQ q i]] := by
  unfold findIP findIPW QNown
  rw [findSelection_q]
  simp [respA, J.lookup, selType, TypeRef.isList, extractID, bind, Except.bind, fmtID, pointQ]

/-- the insertion point of the child step at `[q, g]`: `q`, then `g#<id'>` — the intermediate
    point carries NO id (only the last point of a path does) -/
theorem findIP_qg (h : Fam c A B T U q g fs1 fs2 hs) (i i' : String) (a1 a2 a' : List (String × J))
    (hga : g ∉ J.keys a1) :
    findIP [q, g] [QNown T U q g fs1 fs2 hs] (respA q i (aG g i' a1 a2 a')) [] = .ok [[q, pointQ g i']] := by
  have hlk : J.lookup g (("id", J.str i) :: aG g i' a1 a2 a') = some (.obj (("id", .str i') :: a')) := by
    have : ¬ g = "id" := h.hgid
    simp only [J.lookup, this, ↓reduceIte, aG]
    exact lookup_mid g _ a1 a2 hga
  unfold findIP findIPW QNown
  rw [findSelection_q]
  simp only [respA, J.lookup, ↓reduceIte, selType, Bool.false_eq_true, TypeRef.isList,
    List.isEmpty_cons, selSub, List.nil_append]
  unfold findIPW
  rw [findSelection_g h, hlk]
  simp [selType, Gown, TypeRef.isList, extractID, bind, Except.bind, fmtID, pointQ, J.lookup]

/-- the follow-up requests of the two kinds -/
def erT (B T q : String) (bs : List FieldSpec) (i : String) : ExecReq := ⟨stepAt B T [q] bs, [pointQ q i]⟩
def erU (B U q g : String) (bs : List FieldSpec) (i' : String) : ExecReq := ⟨stepAt B U [q, g] bs, [q, pointQ g i']⟩

/-- the follow-up requests after depth 0, in the order of the child steps -/
def nextN (B T U q g : String) (fs1 fs2 hs : List FieldSpec) (i i' : String) : List ExecReq :=
  match fsB fs1 with
  | [] => (stepsAt B U [q, g] (fsB hs)).map (fun d => ⟨d, [q, pointQ g i']⟩) ++
          (stepsAt B T [q] (fsB (fs1 ++ fs2))).map (fun d => ⟨d, [pointQ q i]⟩)
  | _ :: _ => erT B T q (fsB (fs1 ++ fs2)) i :: (stepsAt B U [q, g] (fsB hs)).map (fun d => ⟨d, [q, pointQ g i']⟩)

theorem parseOne_root (h : Fam c A B T U q g fs1 fs2 hs) (i i' : String) (a1 a2 a' : List (String × J))
    (hga : g ∉ J.keys a1) :
    parseOne ⟨rootStepN A B T U q g fs1 fs2 hs, []⟩ (respA q i (aG g i' a1 a2 a'))
      = .ok (respA q i (aG g i' a1 a2 a'), nextN B T U q g fs1 fs2 hs i i') := by
  have hU := findIP_qg h i i' a1 a2 a' hga
  unfold parseOne
  simp only [rootStepN, Step.parentType, isRootName, beq_self_eq_true, Bool.true_or, ↓reduceIte, bind, Except.bind,
    Step.thn, Step.sels, List.length_nil, childSteps, nextN]
  cases hB1 : fsB fs1 with
  | nil =>
    simp only []
    cases hB' : fsB hs with
    | nil =>
      cases hB : fsB (fs1 ++ fs2) with
      | nil => simp [stepsAt, pure, Except.pure]
      | cons b bs =>
        simp only [stepsAt, stepAt, List.nil_append, List.foldlM_cons, List.foldlM_nil, Step.ip, List.drop_zero,
          findIP_q, bind, Except.bind, pure, Except.pure, List.map_cons, List.map_nil]
    | cons b' bs' =>
      cases hB : fsB (fs1 ++ fs2) with
      | nil =>
        simp only [stepsAt, stepAt, List.append_nil, List.foldlM_cons, List.foldlM_nil, Step.ip, List.drop_zero,
          hU, bind, Except.bind, pure, Except.pure, List.map_cons, List.map_nil, List.nil_append]
      | cons b bs =>
        simp only [stepsAt, stepAt, List.cons_append, List.nil_append, List.foldlM_cons, List.foldlM_nil, Step.ip,
          List.drop_zero, findIP_q, hU, bind, Except.bind, pure, Except.pure, List.map_cons, List.map_nil]
  | cons b1 bs1 =>
    simp only []
    cases hB' : fsB hs with
    | nil =>
      simp only [stepsAt, stepAt, erT, List.foldlM_cons, List.foldlM_nil, Step.ip, List.drop_zero,
        findIP_q, bind, Except.bind, pure, Except.pure, List.map_cons, List.map_nil, List.nil_append]
    | cons b' bs' =>
      simp only [stepsAt, stepAt, erT, List.foldlM_cons, List.foldlM_nil, Step.ip,
        List.drop_zero, findIP_q, hU, bind, Except.bind, pure, Except.pure, List.map_cons,
        List.map_nil, List.nil_append, List.cons_append]

/-- **Depth 0**: one batched call to `A`; its answer becomes the result; one follow-up request per
    child step — at `[q#<id>]` for the fields of `T`, at `[q, g#<id'>]` for the fields of `U`. -/
theorem depth0 (h : Fam c A B T U q g fs1 fs2 hs) (down : Downstream) (i i' : String) (a1 a2 a' : List (String × J))
    (hga : g ∉ J.keys a1)
    (hdown : down A [rqOf c (rootStepN A B T U q g fs1 fs2 hs) []] = .ok [respA q i (aG g i' a1 a2 a')]) :
    execDepth c {} none down [⟨rootStepN A B T U q g fs1 fs2 hs, []⟩] ⟨[], []⟩
      = .ok (⟨respA q i (aG g i' a1 a2 a'), [⟨A, [rqOf c (rootStepN A B T U q g fs1 fs2 hs) []]⟩]⟩,
             nextN B T U q g fs1 fs2 hs i i') := by
  have hroot : isRootName (rootStepN A B T U q g fs1 fs2 hs).parentType = true := by
    simp [rootStepN, Step.parentType, isRootName]
  have hurl : (rootStepN A B T U q g fs1 fs2 hs).url = A := rfl
  unfold execDepth
  simp only [partitionByURL, List.foldl_cons, List.foldl_nil, List.find?_nil, List.nil_append, hurl,
    List.foldlM_cons, List.foldlM_nil, bind, Except.bind, buildBatch_root c _ hroot, hdown, List.length_cons,
    List.length_nil, bne_self_eq_false, Bool.false_eq_true, ↓reduceIte, List.zip_cons_cons, List.zip_nil_right,
    List.getElem?_cons_zero, Option.getD_some, parseOne_root h i i' a1 a2 a' hga, pure, Except.pure]
  simp [respA, mergeResult_root []]

end PebblesVerif.FlatNested
