import PebblesVerif.Proofs.FlatNested3
/-! Two-level family, stage 3b: depth 1 of the execution — ONE call to `B` carrying up to TWO
lookups (different types, different insertion points), merged at `[q#<id>]` and at the two-element
path `[q, g#<id'>]` — and the whole execution. -/
namespace PebblesVerif.FlatNested
open PebblesVerif PebblesVerif.Exec PebblesVerif.Flat PebblesVerif.ResultOps

variable {c : PCtx} {A B T U q g : String} {fs fs1 fs2 hs : List FieldSpec}

/-- the lookup for `B`'s share `bs` of the fields of type `T`, for the entity with id `i` -/
def lookupRq (c : PCtx) (B T : String) (ip : List String) (bs : List FieldSpec) (i : String) : Request :=
  rqOf c (stepAt B T ip bs) [("id", .str i)]

theorem getVariables_point (c : PCtx) (st : Step) (pre : List String) (p i : String)
    (hp1 : '#' ∉ p.toList) (hp2 : ':' ∉ p.toList) (hine : i ≠ "") :
    getVariables none c ⟨st, pre ++ [pointQ p i]⟩ = .ok [("id", .str i)] := by
  have hine' : (i == "") = false := by simpa using hine
  simp only [getVariables, List.getLast?_append, List.getLast?_singleton, Option.some_or, bind, Except.bind]
  rw [extract_pointQ p i hp1 hp2]
  simp [hine', J.setKey]

/-- the batch of the single lookup at `[q, g#<id'>]` -/
theorem buildBatch_U (h : FamT c A B U g hs) (q : String) (bs : List FieldSpec) (i' : String)
    (hg1 : '#' ∉ g.toList) (hg2 : ':' ∉ g.toList) (hine : i' ≠ "") :
    buildBatch c {} none [⟨stepAt B U [q, g] bs, [q, pointQ g i']⟩]
      = .ok ([lookupRq c B U [q, g] bs i'], [some 0]) := by
  have hU : isRootName (stepAt B U [q, g] bs).parentType = false := by simpa [stepAt, Step.parentType] using h.hTroot
  have hv := getVariables_point c (stepAt B U [q, g] bs) [q] g i' hg1 hg2 hine
  simp only [List.cons_append, List.nil_append] at hv
  unfold buildBatch
  rw [buildBatch.go]
  simp only [hv, bind, Except.bind, isNeedToQuery, hU, dedupKey, Bool.not_false, List.idxOf?_nil, Bool.false_eq_true,
    ↓reduceIte]
  simp [buildBatch.go, lookupRq, rqOf]

/-- **the batch of TWO lookups**: the ids differ, so the de-duplication keys differ and both
    requests are sent, in the order of the child steps -/
theorem buildBatch_TU (hT : FamT c A B T q fs) (hUf : FamT c A B U g hs) (bs bs' : List FieldSpec) (i i' : String)
    (hq1 : '#' ∉ q.toList) (hq2 : ':' ∉ q.toList) (hg1 : '#' ∉ g.toList) (hg2 : ':' ∉ g.toList)
    (hine : i ≠ "") (hine' : i' ≠ "") (hii : i ≠ i') :
    buildBatch c {} none [⟨stepAt B T [q] bs, [pointQ q i]⟩, ⟨stepAt B U [q, g] bs', [q, pointQ g i']⟩]
      = .ok ([lookupRq c B T [q] bs i, lookupRq c B U [q, g] bs' i'], [some 0, some 1]) := by
  have hTr : isRootName (stepAt B T [q] bs).parentType = false := by simpa [stepAt, Step.parentType] using hT.hTroot
  have hUr : isRootName (stepAt B U [q, g] bs').parentType = false := by
    simpa [stepAt, Step.parentType] using hUf.hTroot
  have hv := getVariables_point c (stepAt B T [q] bs) [] q i hq1 hq2 hine
  have hv' := getVariables_point c (stepAt B U [q, g] bs') [q] g i' hg1 hg2 hine'
  simp only [List.cons_append, List.nil_append] at hv hv'
  have hkey : ([DKey.dedup i (queryKey c (stepAt B T [q] bs))] : List DKey).idxOf?
      (DKey.dedup i' (queryKey c (stepAt B U [q, g] bs'))) = none := by
    have : ¬ (DKey.dedup i (queryKey c (stepAt B T [q] bs)) = DKey.dedup i' (queryKey c (stepAt B U [q, g] bs'))) := by
      intro e; injection e with e1 _; exact hii e1
    simp [List.idxOf?_cons, this]
  unfold buildBatch
  rw [buildBatch.go]
  simp only [hv, bind, Except.bind, isNeedToQuery, hTr, dedupKey, Bool.not_false, Bool.not_true, List.idxOf?_nil,
    Bool.false_eq_true, ↓reduceIte, List.nil_append, List.length_nil]
  rw [buildBatch.go]
  simp only [hv', bind, Except.bind, isNeedToQuery, hUr, dedupKey, Bool.not_false, Bool.not_true, Bool.false_eq_true,
    ↓reduceIte, hkey]
  simp [buildBatch.go, lookupRq, rqOf]

/-- the same batch when the step at `[q, g]` comes first -/
theorem buildBatch_UT (hT : FamT c A B T q fs) (hUf : FamT c A B U g hs) (bs bs' : List FieldSpec) (i i' : String)
    (hq1 : '#' ∉ q.toList) (hq2 : ':' ∉ q.toList) (hg1 : '#' ∉ g.toList) (hg2 : ':' ∉ g.toList)
    (hine : i ≠ "") (hine' : i' ≠ "") (hii : i ≠ i') :
    buildBatch c {} none [⟨stepAt B U [q, g] bs', [q, pointQ g i']⟩, ⟨stepAt B T [q] bs, [pointQ q i]⟩]
      = .ok ([lookupRq c B U [q, g] bs' i', lookupRq c B T [q] bs i], [some 0, some 1]) := by
  have hTr : isRootName (stepAt B T [q] bs).parentType = false := by simpa [stepAt, Step.parentType] using hT.hTroot
  have hUr : isRootName (stepAt B U [q, g] bs').parentType = false := by
    simpa [stepAt, Step.parentType] using hUf.hTroot
  have hv := getVariables_point c (stepAt B T [q] bs) [] q i hq1 hq2 hine
  have hv' := getVariables_point c (stepAt B U [q, g] bs') [q] g i' hg1 hg2 hine'
  simp only [List.cons_append, List.nil_append] at hv hv'
  have hkey : ([DKey.dedup i' (queryKey c (stepAt B U [q, g] bs'))] : List DKey).idxOf?
      (DKey.dedup i (queryKey c (stepAt B T [q] bs))) = none := by
    have : ¬ (DKey.dedup i' (queryKey c (stepAt B U [q, g] bs')) = DKey.dedup i (queryKey c (stepAt B T [q] bs))) := by
      intro e; injection e with e1 _; exact hii e1.symm
    simp [List.idxOf?_cons, this]
  unfold buildBatch
  rw [buildBatch.go]
  simp only [hv', bind, Except.bind, isNeedToQuery, hUr, dedupKey, Bool.not_false, Bool.not_true, List.idxOf?_nil,
    Bool.false_eq_true, ↓reduceIte, List.nil_append, List.length_nil]
  rw [buildBatch.go]
  simp only [hv, bind, Except.bind, isNeedToQuery, hTr, dedupKey, Bool.not_false, Bool.not_true, Bool.false_eq_true,
    ↓reduceIte, hkey]
  simp [buildBatch.go, lookupRq, rqOf]

theorem parseOne_lookup (h : FamT c A B T q fs) (ip : List String) (bs : List FieldSpec) (p : List String)
    (b : List (String × J)) :
    parseOne ⟨stepAt B T ip bs, p⟩ [("node", .obj b)] = .ok (b, []) := by
  have hT : isRootName (stepAt B T ip bs).parentType = false := by simpa [stepAt, Step.parentType] using h.hTroot
  unfold parseOne
  simp only [hT, Bool.false_eq_true, ↓reduceIte, J.lookup, bind, Except.bind]
  simp [stepAt, Step.thn, pure, Except.pure]

/-- **merge at a two-element path**: `[q, g#<id'>]` descends through the object under `q` (plain
    point, no id) to the object under `g` and appends the answer there; everything around stays -/
theorem mergeResult_nested (q g i' : String) (pre post og b' : List (String × J))
    (hq1 : '#' ∉ q.toList) (hq2 : ':' ∉ q.toList)
    (hg1 : '#' ∉ g.toList) (hg2 : ':' ∉ g.toList) (hgne : g.toList ≠ [])
    (hgpre : g ∉ J.keys pre)
    (hbnd : (J.keys b').Nodup) (hdisj : ∀ k ∈ J.keys b', k ∉ J.keys og) :
    mergeResult [(q, .obj (pre ++ (g, .obj og) :: post))] [q, pointQ g i'] b'
      = .ok [(q, .obj (pre ++ (g, .obj (og ++ b')) :: post))] := by
  unfold mergeResult
  rw [updateAt]
  simp only [extract_plain q hq1 hq2, bind, Except.bind, isListElement_plain q hq1 hq2, Bool.false_eq_true, ↓reduceIte,
    J.lookup]
  rw [updateAt]
  simp only [extract_pointQ g i' hg1 hg2, bind, Except.bind, isListElement_pointQ g i' hg2 hgne hg1,
    Bool.false_eq_true, ↓reduceIte, lookup_mid g _ pre post hgpre, updateAt, J.setKey]
  rw [Spec.mergeInto_disjoint b' _ hbnd hdisj, setKey_mid g _ _ pre post hgpre]

/-- the result tree: under `q` the helper id, `A`'s share `a1`, the object under `g` (helper id, `A`'s
    share `a'`, `B`'s share `b'`), `A`'s share `a2`, then `B`'s share `b` -/
def resN (q g i i' : String) (a1 a2 a' b b' : List (String × J)) : List (String × J) :=
  [(q, .obj ((("id", .str i) :: a1) ++ (g, .obj ((("id", .str i') :: a') ++ b')) :: (a2 ++ b)))]

theorem respA_aG (q g i i' : String) (a1 a2 a' : List (String × J)) :
    respA q i (aG g i' a1 a2 a') = resN q g i i' a1 a2 a' [] [] := by
  simp [respA, aG, resN]

/-- side conditions on the answers (keys distinct where they are merged) -/
structure GoodAns (g i i' : String) (a1 a2 a' b b' : List (String × J)) : Prop where
  hga : g ∉ J.keys a1
  hbnd : (J.keys b).Nodup
  hdisj : ∀ k ∈ J.keys b, k ∉ "id" :: (J.keys a1 ++ g :: J.keys a2)
  hbnd' : (J.keys b').Nodup
  hdisj' : ∀ k ∈ J.keys b', k ∉ J.keys (("id", J.str i') :: a')

/-- the syntactic side conditions on the two field names used as path points -/
structure GoodNames (q g : String) : Prop where
  hq1 : '#' ∉ q.toList
  hq2 : ':' ∉ q.toList
  hqne : q.toList ≠ []
  hg1 : '#' ∉ g.toList
  hg2 : ':' ∉ g.toList
  hgne : g.toList ≠ []

/-- merging `B`'s share of `T` at `[q#<id>]` (whether or not `B`'s share of `U` is in yet) -/
theorem merge_T (q g i i' : String) (a1 a2 a' b b' : List (String × J)) (hn : GoodNames q g)
    (hbnd : (J.keys b).Nodup) (hdisj : ∀ k ∈ J.keys b, k ∉ "id" :: (J.keys a1 ++ g :: J.keys a2)) :
    mergeResult (resN q g i i' a1 a2 a' [] b') [pointQ q i] b = .ok (resN q g i i' a1 a2 a' b b') := by
  have hshape : resN q g i i' a1 a2 a' [] b'
      = respA q i (a1 ++ (g, .obj ((("id", .str i') :: a') ++ b')) :: a2) := by simp [resN, respA]
  rw [hshape, mergeResult_child q i _ b hn.hq1 hn.hq2 hn.hqne hbnd (by
    intro k hk
    have := hdisj k hk
    simpa [J.keys] using this)]
  simp [resN]

/-- merging `B`'s share of `U` at `[q, g#<id'>]` (whether or not `B`'s share of `T` is in yet) -/
theorem merge_U (q g i i' : String) (a1 a2 a' b b' : List (String × J)) (hn : GoodNames q g) (hga : g ∉ J.keys a1)
    (hgid : g ≠ "id")
    (hbnd' : (J.keys b').Nodup) (hdisj' : ∀ k ∈ J.keys b', k ∉ J.keys (("id", J.str i') :: a')) :
    mergeResult (resN q g i i' a1 a2 a' b []) [q, pointQ g i'] b' = .ok (resN q g i i' a1 a2 a' b b') := by
  have hpre : g ∉ J.keys (("id", J.str i) :: a1) := by
    simp only [J.keys, List.map_cons, List.mem_cons, not_or]
    exact ⟨hgid, by simpa [J.keys] using hga⟩
  unfold resN
  rw [List.append_nil]
  exact mergeResult_nested q g i' _ _ _ b' hn.hq1 hn.hq2 hn.hg1 hn.hg2 hn.hgne hpre hbnd' hdisj'

/-- **Depth 1, only `T` has a `B`-owned field**: one call to `B` with one lookup, merged at `[q#<id>]`. -/
theorem depth1_T (h : Fam c A B T U q g fs1 fs2 hs) (down : Downstream) (bs : List FieldSpec) (i i' : String)
    (a1 a2 a' b : List (String × J)) (calls : List Call) (hn : GoodNames q g) (hine : i ≠ "")
    (hbnd : (J.keys b).Nodup) (hdisj : ∀ k ∈ J.keys b, k ∉ "id" :: (J.keys a1 ++ g :: J.keys a2))
    (hdown : down B [lookupRq c B T [q] bs i] = .ok [[("node", .obj b)]]) :
    execDepth c {} none down [erT B T q bs i] ⟨respA q i (aG g i' a1 a2 a'), calls⟩
      = .ok (⟨resN q g i i' a1 a2 a' b [], calls ++ [⟨B, [lookupRq c B T [q] bs i]⟩]⟩, []) := by
  have hm := merge_T q g i i' a1 a2 a' b [] hn hbnd hdisj
  rw [← respA_aG] at hm
  have hm' : mergeResult (respA q i (aG g i' a1 a2 a')) [pointQ q i] b
      = .ok [(q, .obj (("id", .str i) :: aG g i' a1 a2 a' ++ b))] :=
    mergeResult_child q i _ b hn.hq1 hn.hq2 hn.hqne hbnd (by
      intro k hk
      have := hdisj k hk
      simpa [J.keys, aG] using this)
  have hres : [(q, J.obj (("id", J.str i) :: aG g i' a1 a2 a' ++ b))] = resN q g i i' a1 a2 a' b [] := by
    rw [hm] at hm'; exact (Except.ok.inj hm').symm
  have := Flat.depth1 h.toFam down bs i (aG g i' a1 a2 a') b calls hn.hq1 hn.hq2 hn.hqne hine hdown hbnd (by
    intro k hk
    have := hdisj k hk
    simpa [J.keys, aG] using this)
  rw [hres] at this
  exact this

/-- **Depth 1, only `U` has a `B`-owned field**: one call to `B` with one lookup, merged at the
    two-element path `[q, g#<id'>]`. -/
theorem depth1_U (h : Fam c A B T U q g fs1 fs2 hs) (down : Downstream) (bs' : List FieldSpec) (i i' : String)
    (a1 a2 a' b' : List (String × J)) (calls : List Call) (hn : GoodNames q g) (hine' : i' ≠ "")
    (hga : g ∉ J.keys a1)
    (hbnd' : (J.keys b').Nodup) (hdisj' : ∀ k ∈ J.keys b', k ∉ J.keys (("id", J.str i') :: a'))
    (hdown : down B [lookupRq c B U [q, g] bs' i'] = .ok [[("node", .obj b')]]) :
    execDepth c {} none down [erU B U q g bs' i'] ⟨respA q i (aG g i' a1 a2 a'), calls⟩
      = .ok (⟨resN q g i i' a1 a2 a' [] b', calls ++ [⟨B, [lookupRq c B U [q, g] bs' i']⟩]⟩, []) := by
  have hurl : (stepAt B U [q, g] bs').url = B := rfl
  have hm := merge_U q g i i' a1 a2 a' [] b' hn hga h.hgid hbnd' hdisj'
  rw [← respA_aG] at hm
  unfold execDepth erU
  simp only [partitionByURL, List.foldl_cons, List.foldl_nil, List.find?_nil, List.nil_append, hurl,
    List.foldlM_cons, List.foldlM_nil, bind, Except.bind, buildBatch_U h.famU q bs' i' hn.hg1 hn.hg2 hine', hdown,
    List.length_cons, List.length_nil, bne_self_eq_false, Bool.false_eq_true, ↓reduceIte, List.zip_cons_cons,
    List.zip_nil_right, List.getElem?_cons_zero, Option.getD_some, parseOne_lookup h.famU [q, g] bs' _ b',
    hm, pure, Except.pure, List.append_nil]

/-- **Depth 1, both levels have a `B`-owned field, the step at `[q]` first**: ONE call to `B` with TWO
    lookups; the first answer is merged at `[q#<id>]`, the second at `[q, g#<id'>]`. -/
theorem depth1_TU (h : Fam c A B T U q g fs1 fs2 hs) (down : Downstream) (bs bs' : List FieldSpec) (i i' : String)
    (a1 a2 a' b b' : List (String × J)) (calls : List Call) (hn : GoodNames q g) (hine : i ≠ "") (hine' : i' ≠ "")
    (hii : i ≠ i') (hg : GoodAns g i i' a1 a2 a' b b')
    (hdown : down B [lookupRq c B T [q] bs i, lookupRq c B U [q, g] bs' i']
      = .ok [[("node", .obj b)], [("node", .obj b')]]) :
    execDepth c {} none down [erT B T q bs i, erU B U q g bs' i'] ⟨respA q i (aG g i' a1 a2 a'), calls⟩
      = .ok (⟨resN q g i i' a1 a2 a' b b',
              calls ++ [⟨B, [lookupRq c B T [q] bs i, lookupRq c B U [q, g] bs' i']⟩]⟩, []) := by
  have hurl : (stepAt B T [q] bs).url = B := rfl
  have hurl' : (stepAt B U [q, g] bs').url = B := rfl
  have hm1 := merge_T q g i i' a1 a2 a' b [] hn hg.hbnd hg.hdisj
  rw [← respA_aG] at hm1
  have hm2 := merge_U q g i i' a1 a2 a' b b' hn hg.hga h.hgid hg.hbnd' hg.hdisj'
  unfold execDepth erT erU
  simp only [partitionByURL, List.foldl_cons, List.foldl_nil, List.find?_nil, List.nil_append, hurl, hurl',
    List.find?_cons, beq_self_eq_true, List.map_cons, List.map_nil, ↓reduceIte, List.cons_append,
    List.foldlM_cons, List.foldlM_nil, bind, Except.bind,
    buildBatch_TU h.toFamT h.famU bs bs' i i' hn.hq1 hn.hq2 hn.hg1 hn.hg2 hine hine' hii, hdown,
    List.length_cons, List.length_nil, bne_self_eq_false, Bool.false_eq_true, List.zip_cons_cons,
    List.zip_nil_right, List.getElem?_cons_zero, List.getElem?_cons_succ, Option.getD_some,
    parseOne_lookup h.toFamT [q] bs _ b, parseOne_lookup h.famU [q, g] bs' _ b',
    hm1, hm2, pure, Except.pure, List.append_nil]

/-- **Depth 1, both levels have a `B`-owned field, the step at `[q, g]` first**: ONE call to `B` with
    TWO lookups in the OTHER order; the first answer is merged at `[q, g#<id'>]`, the second at
    `[q#<id>]`; the result is the same. -/
theorem depth1_UT (h : Fam c A B T U q g fs1 fs2 hs) (down : Downstream) (bs bs' : List FieldSpec) (i i' : String)
    (a1 a2 a' b b' : List (String × J)) (calls : List Call) (hn : GoodNames q g) (hine : i ≠ "") (hine' : i' ≠ "")
    (hii : i ≠ i') (hg : GoodAns g i i' a1 a2 a' b b')
    (hdown : down B [lookupRq c B U [q, g] bs' i', lookupRq c B T [q] bs i]
      = .ok [[("node", .obj b')], [("node", .obj b)]]) :
    execDepth c {} none down [erU B U q g bs' i', erT B T q bs i] ⟨respA q i (aG g i' a1 a2 a'), calls⟩
      = .ok (⟨resN q g i i' a1 a2 a' b b',
              calls ++ [⟨B, [lookupRq c B U [q, g] bs' i', lookupRq c B T [q] bs i]⟩]⟩, []) := by
  have hurl : (stepAt B T [q] bs).url = B := rfl
  have hurl' : (stepAt B U [q, g] bs').url = B := rfl
  have hm1 := merge_U q g i i' a1 a2 a' [] b' hn hg.hga h.hgid hg.hbnd' hg.hdisj'
  rw [← respA_aG] at hm1
  have hm2 := merge_T q g i i' a1 a2 a' b b' hn hg.hbnd hg.hdisj
  unfold execDepth erT erU
  simp only [partitionByURL, List.foldl_cons, List.foldl_nil, List.find?_nil, List.nil_append, hurl, hurl',
    List.find?_cons, beq_self_eq_true, List.map_cons, List.map_nil, ↓reduceIte, List.cons_append,
    List.foldlM_cons, List.foldlM_nil, bind, Except.bind,
    buildBatch_UT h.toFamT h.famU bs bs' i i' hn.hq1 hn.hq2 hn.hg1 hn.hg2 hine hine' hii, hdown,
    List.length_cons, List.length_nil, bne_self_eq_false, Bool.false_eq_true, List.zip_cons_cons,
    List.zip_nil_right, List.getElem?_cons_zero, List.getElem?_cons_succ, Option.getD_some,
    parseOne_lookup h.toFamT [q] bs _ b, parseOne_lookup h.famU [q, g] bs' _ b',
    hm1, hm2, pure, Except.pure, List.append_nil]

/-- the lookups for the fields of `U` / of `T` (none if `B` owns no such field) -/
def lookupsU (c : PCtx) (B U q g : String) (hs : List FieldSpec) (i' : String) : List Request :=
  match fsB hs with | [] => [] | bs => [lookupRq c B U [q, g] bs i']
def lookupsT (c : PCtx) (B T q : String) (fs : List FieldSpec) (i : String) : List Request :=
  match fsB fs with | [] => [] | bs => [lookupRq c B T [q] bs i]

/-- the batch sent to `B`, in the order of the child steps: the lookup for the fields of `T` first
    iff `B` owns a field of `T` written before `g` -/
def batchN (c : PCtx) (B T U q g : String) (fs1 fs2 hs : List FieldSpec) (i i' : String) : List Request :=
  match fsB fs1 with
  | [] => lookupsU c B U q g hs i' ++ lookupsT c B T q (fs1 ++ fs2) i
  | _ :: _ => lookupRq c B T [q] (fsB (fs1 ++ fs2)) i :: lookupsU c B U q g hs i'

def answersU (hs : List FieldSpec) (b' : List (String × J)) : List (List (String × J)) :=
  match fsB hs with | [] => [] | _ => [[("node", .obj b')]]
def answersT (fs : List FieldSpec) (b : List (String × J)) : List (List (String × J)) :=
  match fsB fs with | [] => [] | _ => [[("node", .obj b)]]

/-- what `B` answers to `batchN`, request by request -/
def answersN (fs1 fs2 hs : List FieldSpec) (b b' : List (String × J)) : List (List (String × J)) :=
  match fsB fs1 with
  | [] => answersU hs b' ++ answersT (fs1 ++ fs2) b
  | _ :: _ => [("node", .obj b)] :: answersU hs b'

/-- the calls of one request: one to `A`, then ONE to `B` iff `B` owns a selected field at either level -/
def callsN (c : PCtx) (A B T U q g : String) (fs1 fs2 hs : List FieldSpec) (i i' : String) : List Call :=
  ⟨A, [rqOf c (rootStepN A B T U q g fs1 fs2 hs) []]⟩ ::
    (match batchN c B T U q g fs1 fs2 hs i i' with
     | [] => []
     | batch => [⟨B, batch⟩])

/-- **Stage 3 — execute**: depth 0 asks `A`; depth 1 (if `B` owns a selected field at either level)
    asks `B` ONCE, with one lookup per level that has a `B`-owned field, in the order of the child
    steps; the answers are merged at `[q#<id>]` and at `[q, g#<id'>]`; the result does not depend on
    that order. -/
theorem stage_execute (h : Fam c A B T U q g fs1 fs2 hs) (down : Downstream) (i i' : String)
    (a1 a2 a' b b' : List (String × J)) (hn : GoodNames q g) (hine : i ≠ "") (hine' : i' ≠ "") (hii : i ≠ i')
    (hg : GoodAns g i i' a1 a2 a' b b')
    (hA : down A [rqOf c (rootStepN A B T U q g fs1 fs2 hs) []] = .ok [respA q i (aG g i' a1 a2 a')])
    (hB : batchN c B T U q g fs1 fs2 hs i i' ≠ [] →
      down B (batchN c B T U q g fs1 fs2 hs i i') = .ok (answersN fs1 fs2 hs b b'))
    (hb0 : fsB (fs1 ++ fs2) = [] → b = []) (hb0' : fsB hs = [] → b' = []) :
    execute c {} none down [rootStepN A B T U q g fs1 fs2 hs] []
      = .ok ⟨resN q g i i' a1 a2 a' b b', callsN c A B T U q g fs1 fs2 hs i i'⟩ := by
  have hd0 := depth0 h down i i' a1 a2 a' hg.hga hA
  unfold execute
  simp only [List.map_cons, List.map_nil]
  have hip : (rootStepN A B T U q g fs1 fs2 hs).ip = [] := rfl
  rw [hip]
  cases hfb1 : fsB fs1 with
  | nil =>
    cases hfb' : fsB hs with
    | nil =>
      cases hfb : fsB (fs1 ++ fs2) with
      | nil =>
        -- `A` owns everything
        have hdepth : stepsDepth [rootStepN A B T U q g fs1 fs2 hs] = 1 := by
          simp [stepsDepth, stepDepth, rootStepN, childSteps, hfb1, hfb, hfb', stepsAt]
        rw [hdepth, execLoop]
        simp only [List.isEmpty_cons, Bool.false_eq_true, ↓reduceIte, bind, Except.bind, hd0, nextN, hfb1, hfb, hfb',
          stepsAt, List.map_nil, List.append_nil, execLoop]
        simp [respA_aG, hb0 hfb, hb0' hfb', callsN, batchN, lookupsU, lookupsT, hfb1, hfb, hfb']
      | cons b0 bs =>
        -- only `T`
        have hdepth : stepsDepth [rootStepN A B T U q g fs1 fs2 hs] = 2 := by
          simp [stepsDepth, stepDepth, rootStepN, childSteps, hfb1, hfb, hfb', stepsAt, stepAt]
        have hbatch : batchN c B T U q g fs1 fs2 hs i i' = [lookupRq c B T [q] (b0 :: bs) i] := by
          simp [batchN, lookupsU, lookupsT, hfb1, hfb, hfb']
        have hB' := hB (by rw [hbatch]; simp)
        rw [hbatch] at hB'
        simp only [answersN, answersU, answersT, hfb1, hfb, hfb', List.nil_append] at hB'
        have hd1 := depth1_T h down (b0 :: bs) i i' a1 a2 a' b [⟨A, [rqOf c (rootStepN A B T U q g fs1 fs2 hs) []]⟩]
          hn hine hg.hbnd hg.hdisj hB'
        simp only [erT] at hd1
        rw [hdepth, execLoop]
        simp only [List.isEmpty_cons, Bool.false_eq_true, ↓reduceIte, bind, Except.bind, hd0, nextN, hfb1, hfb, hfb',
          stepsAt, List.map_cons, List.map_nil, List.nil_append]
        rw [execLoop]
        simp only [List.isEmpty_cons, Bool.false_eq_true, ↓reduceIte, bind, Except.bind, hd1, execLoop]
        simp [hb0' hfb', callsN, hbatch]
    | cons b0' bs' =>
      cases hfb : fsB (fs1 ++ fs2) with
      | nil =>
        -- only `U`
        have hdepth : stepsDepth [rootStepN A B T U q g fs1 fs2 hs] = 2 := by
          simp [stepsDepth, stepDepth, rootStepN, childSteps, hfb1, hfb, hfb', stepsAt, stepAt]
        have hbatch : batchN c B T U q g fs1 fs2 hs i i' = [lookupRq c B U [q, g] (b0' :: bs') i'] := by
          simp [batchN, lookupsU, lookupsT, hfb1, hfb, hfb']
        have hB' := hB (by rw [hbatch]; simp)
        rw [hbatch] at hB'
        simp only [answersN, answersU, answersT, hfb1, hfb, hfb', List.append_nil] at hB'
        have hd1 := depth1_U h down (b0' :: bs') i i' a1 a2 a' b' [⟨A, [rqOf c (rootStepN A B T U q g fs1 fs2 hs) []]⟩]
          hn hine' hg.hga hg.hbnd' hg.hdisj' hB'
        simp only [erU] at hd1
        rw [hdepth, execLoop]
        simp only [List.isEmpty_cons, Bool.false_eq_true, ↓reduceIte, bind, Except.bind, hd0, nextN, hfb1, hfb, hfb',
          stepsAt, List.map_cons, List.map_nil, List.append_nil]
        rw [execLoop]
        simp only [List.isEmpty_cons, Bool.false_eq_true, ↓reduceIte, bind, Except.bind, hd1, execLoop]
        simp [hb0 hfb, callsN, hbatch]
      | cons b0 bs =>
        -- both, the step at `[q, g]` first
        have hdepth : stepsDepth [rootStepN A B T U q g fs1 fs2 hs] = 2 := by
          simp [stepsDepth, stepDepth, rootStepN, childSteps, hfb1, hfb, hfb', stepsAt, stepAt]
        have hbatch : batchN c B T U q g fs1 fs2 hs i i'
            = [lookupRq c B U [q, g] (b0' :: bs') i', lookupRq c B T [q] (b0 :: bs) i] := by
          simp [batchN, lookupsU, lookupsT, hfb1, hfb, hfb']
        have hB' := hB (by rw [hbatch]; simp)
        rw [hbatch] at hB'
        simp only [answersN, answersU, answersT, hfb1, hfb, hfb', List.cons_append, List.nil_append] at hB'
        have hd1 := depth1_UT h down (b0 :: bs) (b0' :: bs') i i' a1 a2 a' b b'
          [⟨A, [rqOf c (rootStepN A B T U q g fs1 fs2 hs) []]⟩] hn hine hine' hii hg hB'
        simp only [erT, erU] at hd1
        rw [hdepth, execLoop]
        simp only [List.isEmpty_cons, Bool.false_eq_true, ↓reduceIte, bind, Except.bind, hd0, nextN, hfb1, hfb, hfb',
          stepsAt, List.map_cons, List.map_nil, List.cons_append, List.nil_append]
        rw [execLoop]
        simp only [List.isEmpty_cons, Bool.false_eq_true, ↓reduceIte, bind, Except.bind, hd1, execLoop]
        simp [callsN, hbatch]
  | cons b1 bs1 =>
    cases hfb' : fsB hs with
    | nil =>
      -- only `T` (a `B`-owned field before `g`)
      have hdepth : stepsDepth [rootStepN A B T U q g fs1 fs2 hs] = 2 := by
        simp [stepsDepth, stepDepth, rootStepN, childSteps, hfb1, hfb', stepsAt, stepAt]
      have hbatch : batchN c B T U q g fs1 fs2 hs i i' = [lookupRq c B T [q] (fsB (fs1 ++ fs2)) i] := by
        simp [batchN, lookupsU, hfb1, hfb']
      have hB' := hB (by rw [hbatch]; simp)
      rw [hbatch] at hB'
      simp only [answersN, answersU, hfb1, hfb'] at hB'
      have hd1 := depth1_T h down (fsB (fs1 ++ fs2)) i i' a1 a2 a' b [⟨A, [rqOf c (rootStepN A B T U q g fs1 fs2 hs) []]⟩]
        hn hine hg.hbnd hg.hdisj hB'
      rw [hdepth, execLoop]
      simp only [List.isEmpty_cons, Bool.false_eq_true, ↓reduceIte, bind, Except.bind, hd0, nextN, hfb1, hfb',
        stepsAt, List.map_nil]
      rw [execLoop]
      simp only [List.isEmpty_cons, Bool.false_eq_true, ↓reduceIte, bind, Except.bind, hd1, execLoop]
      simp [hb0' hfb', callsN, hbatch]
    | cons b0' bs' =>
      -- both, the step at `[q]` first
      have hdepth : stepsDepth [rootStepN A B T U q g fs1 fs2 hs] = 2 := by
        simp [stepsDepth, stepDepth, rootStepN, childSteps, hfb1, hfb', stepsAt, stepAt]
      have hbatch : batchN c B T U q g fs1 fs2 hs i i'
          = [lookupRq c B T [q] (fsB (fs1 ++ fs2)) i, lookupRq c B U [q, g] (b0' :: bs') i'] := by
        simp [batchN, lookupsU, hfb1, hfb']
      have hB' := hB (by rw [hbatch]; simp)
      rw [hbatch] at hB'
      simp only [answersN, answersU, hfb1, hfb'] at hB'
      have hd1 := depth1_TU h down (fsB (fs1 ++ fs2)) (b0' :: bs') i i' a1 a2 a' b b'
        [⟨A, [rqOf c (rootStepN A B T U q g fs1 fs2 hs) []]⟩] hn hine hine' hii hg hB'
      simp only [erU] at hd1
      rw [hdepth, execLoop]
      simp only [List.isEmpty_cons, Bool.false_eq_true, ↓reduceIte, bind, Except.bind, hd0, nextN, hfb1, hfb',
        stepsAt, List.map_cons, List.map_nil]
      rw [execLoop]
      simp only [List.isEmpty_cons, Bool.false_eq_true, ↓reduceIte, bind, Except.bind, hd1, execLoop]
      simp [callsN, hbatch]

end PebblesVerif.FlatNested
