import PebblesVerif.Proofs.FlatNested4
import PebblesVerif.Proofs.FlatList4
/-! Two-level family, stages 4–5: scrubbing with a table of TWO paths (`[q, g]`, then `[q]`), and the
whole per-request pipeline with an abstract downstream. -/
namespace PebblesVerif.FlatNested
open PebblesVerif PebblesVerif.Exec PebblesVerif.Flat PebblesVerif.ResultOps PebblesVerif.ScrubClean

variable {c : PCtx} {A B T U q g : String} {fs1 fs2 hs : List FieldSpec}

/-- the answer as the client gets it below `q`: `A`'s share of `f1…`, the object under `g` (`A`'s
    share of it, then `B`'s), `A`'s share of `f2…`, then `B`'s share of `f1… f2…` -/
def outN (g : String) (a1 a2 a' b b' : List (String × J)) : List (String × J) :=
  a1 ++ (g, .obj (a' ++ b')) :: (a2 ++ b)

/-- what the scrubber must find: no client field is called `id` or `__typename`, and the object
    under `g` has at least one client field -/
structure GoodOut (g : String) (a1 a2 a' b b' : List (String × J)) : Prop where
  hid : "id" ∉ J.keys (outN g a1 a2 a' b b')
  htn : "__typename" ∉ J.keys (outN g a1 a2 a' b b')
  hid' : "id" ∉ J.keys (a' ++ b')
  htn' : "__typename" ∉ J.keys (a' ++ b')
  hne' : a' ++ b' ≠ []

/-- scrubbing at the two-element path `[q, g]`: exactly the helper `id` under `g` is removed -/
theorem scrub_inner (U q g i i' : String) (a1 a2 a' b b' : List (String × J)) (hga : g ∉ J.keys a1) (hgid : g ≠ "id")
    (hid' : "id" ∉ J.keys (a' ++ b')) (htn' : "__typename" ∉ J.keys (a' ++ b')) (hne' : a' ++ b' ≠ []) :
    cleanAll [([q, g], [(U, ["id"])])] (resN q g i i' a1 a2 a' b b')
      = [(q, .obj (("id", .str i) :: outN g a1 a2 a' b b'))] := by
  have hpre : g ∉ J.keys (("id", J.str i) :: a1) := by
    simp only [J.keys, List.map_cons, List.mem_cons, not_or]
    exact ⟨hgid, by simpa [J.keys] using hga⟩
  have hclean0 := FlatList.clean_elem U i' (a' ++ b') hid' htn' hne'
  have hlg := lookup_mid g (.obj ((("id", .str i') :: a') ++ b')) _ (a2 ++ b) hpre
  have hclean1 : clean [(U, ["id"])] [g]
        ((("id", .str i) :: a1) ++ (g, .obj ((("id", .str i') :: a') ++ b')) :: (a2 ++ b))
      = ((("id", .str i) :: a1) ++ (g, .obj (a' ++ b')) :: (a2 ++ b), false) := by
    rw [clean_cons, hlg]
    simp only [List.cons_append] at hclean0 ⊢
    simp only [hclean0, Bool.false_eq_true, ↓reduceIte]
    have := setKey_mid g (.obj (("id", .str i') :: (a' ++ b'))) (.obj (a' ++ b')) (("id", .str i) :: a1) (a2 ++ b) hpre
    simp only [List.cons_append] at this
    rw [this]
    simp
  simp only [cleanAll, List.foldl_cons, List.foldl_nil, unhash, List.isEmpty_cons, Bool.false_eq_true, ↓reduceIte, resN]
  rw [clean_cons]
  simp only [List.cons_append] at hclean1
  simp only [J.lookup, ↓reduceIte, List.cons_append, hclean1, Bool.false_eq_true, J.setKey, outN]

/-- **Stage 4 — scrub**: the table has two paths; the helper `id` under `g` goes first, then the
    helper `id` under `q`; nothing else changes. -/
theorem stage_scrub (T U q g i i' : String) (a1 a2 a' b b' : List (String × J)) (hga : g ∉ J.keys a1)
    (hgid : g ≠ "id") (ho : GoodOut g a1 a2 a' b b') :
    cleanAll (scrubN T U q g) (resN q g i i' a1 a2 a' b b') = [(q, .obj (outN g a1 a2 a' b b'))] := by
  have hsplit : cleanAll (scrubN T U q g) (resN q g i i' a1 a2 a' b b')
      = cleanAll [([q], [(T, ["id"])])] (cleanAll [([q, g], [(U, ["id"])])] (resN q g i i' a1 a2 a' b b')) := by
    simp [cleanAll, scrubN]
  rw [hsplit, scrub_inner U q g i i' a1 a2 a' b b' hga hgid ho.hid' ho.htn' ho.hne']
  exact Flat.stage_scrub T q i _ ho.hid ho.htn (by simp [outN])

/-- **Stage 5 — the pipeline**: for every member of the family and every downstream that answers
    the root request with `A`'s shares and the batch of lookups with `B`'s shares, the gateway model
    returns — no errors — the object under `q` with `A`'s answers (the object under `g` among them,
    where the client put it: `A`'s answers then `B`'s) and then `B`'s answers; helper ids removed at
    both levels; calls `callsN`. -/
theorem stage_gateway (h : Fam c A B T U q g fs1 fs2 hs) (down : Downstream) (i i' : String)
    (a1 a2 a' b b' : List (String × J)) (hn : GoodNames q g) (hine : i ≠ "") (hine' : i' ≠ "") (hii : i ≠ i')
    (hg : GoodAns g i i' a1 a2 a' b b') (ho : GoodOut g a1 a2 a' b b')
    (hA : down A [rqOf c (rootStepN A B T U q g fs1 fs2 hs) []] = .ok [respA q i (aG g i' a1 a2 a')])
    (hB : batchN c B T U q g fs1 fs2 hs i i' ≠ [] →
      down B (batchN c B T U q g fs1 fs2 hs i i') = .ok (answersN fs1 fs2 hs b b'))
    (hb0 : fsB (fs1 ++ fs2) = [] → b = []) (hb0' : fsB hs = [] → b' = []) :
    gateway c {} ⟨.query, "", [], [QN T U q g fs1 fs2 hs]⟩ none down
      = .ok ⟨some [(q, .obj (outN g a1 a2 a' b b'))], [], callsN c A B T U q g fs1 fs2 hs i i'⟩ := by
  have hex := stage_execute h down i i' a1 a2 a' b b' hn hine hine' hii hg hA hB hb0 hb0'
  rw [gateway_noVarDefs _ _ _ _ _ _ rfl]
  unfold gatewayCore gatewayCoreWith plan
  simp only [stage_sanitize h, bind, Except.bind, stage_plan h]
  rw [hex]
  simp only [id]
  rw [stage_scrub T U q g i i' a1 a2 a' b b' hg.hga h.hgid ho]

end PebblesVerif.FlatNested
