import PebblesVerif.Proofs.FlatNested5
/-! Two-level family, final step: the downstream is the reference evaluator at each service; the
gateway model's answer equals the single-server answer (up to the order of object keys, at both
levels). -/
namespace PebblesVerif.FlatNested
open PebblesVerif PebblesVerif.Exec PebblesVerif.Flat PebblesVerif.ResultOps PebblesVerif.Spec

/-! ### the reference evaluator on the selections of the family -/

/-- the value of an object-typed field `g : U` whose stored value refers to entity `e'`: the
    sub-selection evaluated on `e'` (`null` if a non-null violation reaches it) -/
theorem fieldValue_ref (env : Env) (t i : String) (flds : List (String × DVal)) (g U : String) (e' : Entity)
    (K : Obj → Option (List (String × J)))
    (hgb : isBuiltinName g = false) (hgid : g ≠ "id")
    (hg : dlookup g flds = some (.ref e'.id)) (hent' : env.data.entity? e'.id = some e') :
    fieldValue env (.ent t i flds) g [] (.named U) K
      = some (match K (.ent e'.type e'.id e'.fields) with | some kvs => .obj kvs | none => .null) := by
  have h1 : (g == "__typename") = false := by
    simp only [beq_eq_false_iff_ne, ne_eq]; intro h; subst h; simp [isBuiltinName] at hgb
  unfold fieldValue
  simp only [h1, Bool.false_eq_true, ↓reduceIte]
  split
  · rename_i heq; exact absurd rfl hgid
  · simp only [storedValue, hg, Option.getD_some, completeWith, hent']
    cases K (.ent e'.type e'.id e'.fields) <;> rfl

/-- evaluating `g { sub }` on an entity, into an accumulator that does not have the key `g` yet -/
theorem evalSels_G (env : Env) (t i : String) (flds : List (String × DVal)) (g U : String) (e' : Entity)
    (sub : List Sel) (acc : List (String × J))
    (hgb : isBuiltinName g = false) (hgid : g ≠ "id") (hgne : g ≠ "")
    (hg : dlookup g flds = some (.ref e'.id)) (hent' : env.data.entity? e'.id = some e')
    (hacc : g ∉ J.keys acc) :
    evalSels env (.ent t i flds) [.field g g [] [] (.named U) [] sub] acc
      = some (acc ++ [(g, match evalSels env (.ent e'.type e'.id e'.fields) sub [] with
                          | some kvs => .obj kvs | none => .null)]) := by
  have h3 : (g == "") = false := by simpa using hgne
  rw [evalSels, evalSel]
  simp only [skipped, List.any_nil, Bool.false_eq_true, ↓reduceIte, h3,
    fieldValue_ref env t i flds g U e' _ hgb hgid hg hent']
  rw [addKey_new hacc, evalSels]

/-- the helper `id` evaluates to the entity's id -/
theorem evalSels_id (env : Env) (t i : String) (flds : List (String × DVal)) (rest : List Sel) (hi : i ≠ "") :
    evalSels env (.ent t i flds) (idField :: rest) [] = evalSels env (.ent t i flds) rest [("id", .str i)] := by
  have : (i != "") = true := by simpa using hi
  have hid0 : evalSel env (.ent t i flds) idField [] = some [("id", .str i)] := by
    simp [idField, evalSel, skipped, fieldValue, this, addKey, J.lookup]
  rw [evalSels, hid0]

/-- distinct leaf fields, evaluated into an accumulator with other keys -/
theorem evalSels_leaves_acc (env : Env) (o : Obj) (xs : List FieldSpec) (rx acc : List (String × J))
    (hnd : (namesOf xs).Nodup) (hnne : ∀ n ∈ namesOf xs, n ≠ "")
    (hM : xs.mapM (fval env o) = some rx) (hacc : ∀ k ∈ namesOf xs, k ∉ J.keys acc) :
    evalSels env o (leaves xs) acc = some (acc ++ rx) := by
  rw [evalSels_acc env o (leaves xs) acc (plainFields_leaves xs) (by rw [respKeys_leaves xs hnne]; exact hnd)
    (by rw [respKeys_leaves xs hnne]; exact hacc), evalSels_leaves env o xs hnd hnne, hM]
  rfl

theorem names_subA (fs : List FieldSpec) : (namesOf (fsA fs)).Sublist (namesOf fs) :=
  List.Sublist.map _ List.filter_sublist
theorem names_subB (fs : List FieldSpec) : (namesOf (fsB fs)).Sublist (namesOf fs) :=
  List.Sublist.map _ List.filter_sublist

theorem names_disjAB (fs : List FieldSpec) (hnd : (namesOf fs).Nodup) :
    ∀ n, n ∈ namesOf (fsA fs) → n ∈ namesOf (fsB fs) → False := by
  intro n hnA hnB
  simp only [namesOf, fsA, fsB, List.mem_map, List.mem_filter] at hnA hnB
  obtain ⟨f1, ⟨hf1, hp1⟩, hn1⟩ := hnA
  obtain ⟨f2, ⟨hf2, hp2⟩, hn2⟩ := hnB
  have : f1 = f2 := fst_inj_of_nodup fs hnd f1 hf1 f2 hf2 (hn1.trans hn2.symm)
  subst this; simp_all

/-- splitting the answer for the leaf fields by owner -/
theorem shares (env : Env) (o : Obj) (fs : List FieldSpec) (r : List (String × J))
    (hM : fs.mapM (fval env o) = some r) :
    ∃ ra rb, (fsA fs).mapM (fval env o) = some ra ∧ (fsB fs).mapM (fval env o) = some rb ∧ (ra ++ rb).Perm r
      ∧ J.keys ra = namesOf (fsA fs) ∧ J.keys rb = namesOf (fsB fs) := by
  obtain ⟨ra, rb, hra, hrb, hperm⟩ := mapM_partition (fval env o) (fun f => !f.2.2) fs r hM
  rw [filter_not_not] at hrb
  exact ⟨ra, rb, hra, hrb, hperm, fval_keys _ _ _ _ hra, fval_keys _ _ _ _ hrb⟩

/-- the leaf values of an entity are the same at every service (whatever its schema and variables) -/
theorem leaves_at_service (S₁ S₂ : Schema) (D : Data) (v₁ v₂ : List (String × J)) (t i : String)
    (flds : List (String × DVal)) (xs : List FieldSpec) :
    xs.mapM (fval (envOf S₁ D v₁) (.ent t i flds)) = xs.mapM (fval (envOf S₂ D v₂) (.ent t i flds)) :=
  mapM_congr _ (fun f => fval_ent_schema S₁ S₂ D v₁ v₂ t i flds f)

theorem toList_ne_nil {s : String} (h : s ≠ "") : s.toList ≠ [] := by
  intro hnil; apply h; rw [← String.ofList_toList (s := s), hnil]

/-- what a service with schema `S` answers to one request (a named copy of the function inside
    `specDownstream`) -/
def answerOf (S : Schema) (D : Data) (rq : Request) : List (String × J) :=
  match Spec.eval S D ⟨rq.header.kind, rq.header.name.getD "", [], rq.sels⟩ rq.vars with
  | some (.obj kvs) => kvs
  | _ => []

theorem specDownstream_found (svcs : List Svc) (D : Data) (url : String) (S : Schema) (batch : List Request)
    (h : svcs.find? (·.url == url) = some ⟨url, S⟩) :
    specDownstream svcs D url batch = .ok (batch.map (answerOf S D)) := by
  unfold specDownstream
  rw [h]
  rfl

/-- the hypotheses on the federation and the data shared by the theorems below -/
structure Setting (c : PCtx) (A B T U q g : String) (fs hs : List FieldSpec) (svcs : List Svc) (SA SB : Schema)
    (D : Data) (e e' : Entity) : Prop where
  hq1 : '#' ∉ q.toList
  hq2 : ':' ∉ q.toList
  hqne : q ≠ ""
  hg1 : '#' ∉ g.toList
  hg2 : ':' ∉ g.toList
  hgne : g ≠ ""
  hine : e.id ≠ ""
  hine' : e'.id ≠ ""
  hnne : ∀ n ∈ namesOf fs, n ≠ ""
  hnne' : ∀ n ∈ namesOf hs, n ≠ ""
  hsA : svcs.find? (·.url == A) = some ⟨A, SA⟩
  hsB : svcs.find? (·.url == B) = some ⟨B, SB⟩
  hSBT : ∃ td, SB.type? T = some td ∧ td.kind = .object
  hSBU : ∃ td, SB.type? U = some td ∧ td.kind = .object
  hroot : dlookup q (D.root "Query") = some (.ref e.id)
  hent : D.entity? e.id = some e
  hty : e.type = T
  hgref : dlookup g e.fields = some (.ref e'.id)
  hent' : D.entity? e'.id = some e'
  hty' : e'.type = U

/-- **C01 on the two-level family, with the calls made explicit.** See `Props/C01FlatNested.lean`
    for the statement in words. -/
theorem flat_nested_calls {c : PCtx} {A B T U q g : String} {fs hs : List FieldSpec} (h : Fam c A B T U q g fs hs)
    {svcs : List Svc} {SA SB : Schema} {D : Data} {e e' : Entity} (s : Setting c A B T U q g fs hs svcs SA SB D e e')
    (r₀ rg : List (String × J))
    (href : Spec.eval c.schema D ⟨.query, "", [], [QN T U q g fs hs]⟩ [] = some (.obj [(q, .obj (r₀ ++ [(g, .obj rg)]))])) :
    ∃ d dg, gateway c {} ⟨.query, "", [], [QN T U q g fs hs]⟩ none (specDownstream svcs D)
        = .ok ⟨some [(q, .obj d)], [], callsN c A B T U q g fs hs e.id e'.id⟩
      ∧ d.Perm (r₀ ++ [(g, .obj dg)]) ∧ dg.Perm rg := by
  have hn : GoodNames q g := ⟨s.hq1, s.hq2, toList_ne_nil s.hqne, s.hg1, s.hg2, toList_ne_nil s.hgne⟩
  have hii : e.id ≠ e'.id := by
    intro heq
    have h1 := s.hent; rw [heq, s.hent'] at h1
    have : e' = e := Option.some.inj h1
    apply h.hTU; rw [← s.hty, ← s.hty', this]
  -- the reference answer: the leaf fields of `e`, then the object under `g`
  have hrefM : evalSels (envOf c.schema D []) (.ent e.type e.id e.fields) (leaves fs ++ [Gc U g hs]) []
      = some (r₀ ++ [(g, .obj rg)]) := by
    unfold Spec.eval at href
    simp only [OpKind.rootName, QN] at href
    have := eval_root_q (envOf c.schema D []) T q e (leaves fs ++ [Gc U g hs]) h.hqb h.hqn s.hqne s.hroot s.hent
    simp only [envOf] at this
    rw [this] at href
    cases hr : evalSels ⟨c.schema, D, [], []⟩ (.ent e.type e.id e.fields) (leaves fs ++ [Gc U g hs]) [] with
    | none => simp [hr] at href
    | some kvs => simp [hr] at href; subst href; simpa only [envOf] using hr
  rw [evalSels_append, evalSels_leaves _ _ fs h.hnd s.hnne] at hrefM
  cases hM : fs.mapM (fval (envOf c.schema D []) (.ent e.type e.id e.fields)) with
  | none => simp [hM] at hrefM
  | some r0' =>
  have hk0 : J.keys r0' = namesOf fs := fval_keys _ _ _ _ hM
  rw [hM, Option.bind_some] at hrefM
  unfold Gc at hrefM
  rw [evalSels_G _ _ _ _ g U e' _ _ h.hgb h.hgid s.hgne s.hgref s.hent' (by rw [hk0]; exact h.hgnew)] at hrefM
  have hinj := List.append_inj' (Option.some.inj hrefM) rfl
  have hr0 : r0' = r₀ := hinj.1
  subst hr0
  cases hM' : evalSels (envOf c.schema D []) (.ent e'.type e'.id e'.fields) (leaves hs) [] with
  | none => rw [hM'] at hinj; simp at hinj
  | some kvs =>
  have hkvs : kvs = rg := by rw [hM'] at hinj; simpa using hinj.2
  subst hkvs
  rw [evalSels_leaves _ _ hs h.famU.hnd s.hnne'] at hM'
  -- the shares of the two services at both levels
  obtain ⟨ra, rb, hra, hrb, hperm, hkA, hkB⟩ := shares _ _ fs r0' hM
  obtain ⟨ra', rb', hra', hrb', hperm', hkA', hkB'⟩ := shares _ _ hs kvs hM'
  have hndA := h.hnd.sublist (names_subA fs)
  have hndB := h.hnd.sublist (names_subB fs)
  have hndA' := h.famU.hnd.sublist (names_subA hs)
  have hndB' := h.famU.hnd.sublist (names_subB hs)
  have hnneA : ∀ n ∈ namesOf (fsA fs), n ≠ "" := fun n hn => s.hnne n ((names_subA fs).subset hn)
  have hnneB : ∀ n ∈ namesOf (fsB fs), n ≠ "" := fun n hn => s.hnne n ((names_subB fs).subset hn)
  have hnneA' : ∀ n ∈ namesOf (fsA hs), n ≠ "" := fun n hn => s.hnne' n ((names_subA hs).subset hn)
  have hnneB' : ∀ n ∈ namesOf (fsB hs), n ≠ "" := fun n hn => s.hnne' n ((names_subB hs).subset hn)
  have hgA : g ∉ namesOf (fsA fs) := fun hm => h.hgnew ((names_subA fs).subset hm)
  -- what service A answers
  have hinnerA : evalSels (envOf SA D []) (.ent e'.type e'.id e'.fields) (idField :: leaves (fsA hs)) []
      = some (("id", .str e'.id) :: ra') := by
    rw [evalSels_id _ _ _ _ _ s.hine', evalSels_leaves_acc _ _ (fsA hs) ra' _ hndA' hnneA'
      (by rw [leaves_at_service SA c.schema D [] []]; exact hra')
      (by
        intro k hk
        simp only [J.keys, List.map_cons, List.map_nil, List.mem_singleton]
        intro heq; subst heq; exact h.famU.hfid "id" ((names_subA hs).subset hk) rfl)]
    rfl
  have houterA : evalSels (envOf SA D []) (.ent e.type e.id e.fields)
      (idField :: (leaves (fsA fs) ++ [Gown U g hs])) [] = some (("id", .str e.id) :: aG g e'.id ra ra') := by
    rw [evalSels_id _ _ _ _ _ s.hine, evalSels_append, evalSels_leaves_acc _ _ (fsA fs) ra _ hndA hnneA
      (by rw [leaves_at_service SA c.schema D [] []]; exact hra)
      (by
        intro k hk
        simp only [J.keys, List.map_cons, List.map_nil, List.mem_singleton]
        intro heq; subst heq; exact h.hfid "id" ((names_subA fs).subset hk) rfl)]
    rw [Option.bind_some]
    unfold Gown
    rw [evalSels_G _ _ _ _ g U e' _ _ h.hgb h.hgid s.hgne s.hgref s.hent' (by
      simp only [J.keys, List.cons_append, List.nil_append, List.map_cons, List.mem_cons, not_or]
      refine ⟨h.hgid, ?_⟩
      have := hkA; simp only [J.keys] at this; rw [this]; exact hgA), hinnerA]
    simp [aG]
  have hA : specDownstream svcs D A [rqOf c (rootStepN A B T U q g fs hs) []]
      = .ok [respA q e.id (aG g e'.id ra ra')] := by
    have hhdr : (header c (rootStepN A B T U q g fs hs)).kind = .query := by
      simp [header, rootStepN, Step.ip, h.hkind]
    have hev := eval_root_q (envOf SA D []) T q e (idField :: (leaves (fsA fs) ++ [Gown U g hs]))
      h.hqb h.hqn s.hqne s.hroot s.hent
    rw [houterA] at hev
    have hsels : (rootStepN A B T U q g fs hs).sels
        = [.field q q [] [] (.named T) [] (idField :: (leaves (fsA fs) ++ [Gown U g hs]))] := rfl
    simp only [specDownstream, s.hsA, rqOf, List.map_cons, List.map_nil, hhdr, Spec.eval, OpKind.rootName, hsels]
    simp only [envOf] at hev
    rw [hev]
    simp [respA]
  -- what service B answers to each of the two lookups
  have hlookup : ∀ (X : String) (ip : List String) (xs : List FieldSpec) (ex : Entity) (rx : List (String × J)),
      ip ≠ [] → D.entity? ex.id = some ex → ex.type = X → (∃ td, SB.type? X = some td ∧ td.kind = .object) →
      (namesOf xs).Nodup → (∀ n ∈ namesOf xs, n ≠ "") →
      xs.mapM (fval (envOf c.schema D []) (.ent ex.type ex.id ex.fields)) = some rx →
      answerOf SB D (lookupRq c B X ip xs ex.id) = [("node", .obj rx)] := by
    intro X ip xs ex rx hip hentx htyx hSX hndx hnnex hMx
    have hipe : ip.isEmpty = false := by cases ip with | nil => exact absurd rfl hip | cons _ _ => rfl
    have hhdr : (header c (stepAt B X ip xs)).kind = .query := by simp [header, stepAt, Step.ip, hipe]
    have hval : evalSels (envOf SB D [("id", .str ex.id)]) (.ent ex.type ex.id ex.fields) (leaves xs) [] = some rx := by
      rw [evalSels_leaves _ _ _ hndx hnnex, leaves_at_service SB c.schema D _ []]; exact hMx
    have hnl := eval_node_lookup (envOf SB D [("id", .str ex.id)]) ex (leaves xs) rx hentx
      (by simp [envOf, J.lookup]) (by rw [htyx]; exact hSX) hval
    have hsels : (stepAt B X ip xs).sels = convertToNodeQuery X (leaves xs) := rfl
    simp only [answerOf, lookupRq, rqOf, hhdr, Spec.eval, OpKind.rootName, hsels]
    rw [htyx] at hnl
    simp only [envOf] at hnl
    rw [hnl]
    simp
  have hBT := hlookup T [q] (fsB fs) e rb (by simp) s.hent s.hty s.hSBT hndB hnneB hrb
  have hBU := hlookup U [q, g] (fsB hs) e' rb' (by simp) s.hent' s.hty' s.hSBU hndB' hnneB' hrb'
  have hB : batchN c B T U q g fs hs e.id e'.id ≠ [] →
      specDownstream svcs D B (batchN c B T U q g fs hs e.id e'.id) = .ok (answersN fs hs rb rb') := by
    intro _
    rw [specDownstream_found svcs D B SB _ s.hsB]
    simp only [batchN, answersN]
    cases hfb : fsB fs with
    | nil =>
      cases hfb' : fsB hs with
      | nil => simp
      | cons b0' bs' =>
        rw [hfb'] at hBU
        simp only [List.nil_append, List.map_cons, List.map_nil, hBU]
    | cons b0 bs =>
      rw [hfb] at hBT
      cases hfb' : fsB hs with
      | nil => simp only [List.append_nil, List.map_cons, List.map_nil, hBT]
      | cons b0' bs' =>
        rw [hfb'] at hBU
        simp only [List.cons_append, List.nil_append, List.map_cons, List.map_nil, hBT, hBU]
  have hb0 : fsB fs = [] → rb = [] := by
    intro hnil; rw [hnil] at hrb; simpa using hrb.symm
  have hb0' : fsB hs = [] → rb' = [] := by
    intro hnil; rw [hnil] at hrb'; simpa using hrb'.symm
  -- side conditions on keys
  have hkaG : J.keys (aG g e'.id ra ra') = namesOf (fsA fs) ++ [g] := by
    unfold aG
    rw [keys_append, hkA]
    rfl
  have hga : g ∉ J.keys ra := by rw [hkA]; exact hgA
  have hgood : GoodAns g e.id e'.id ra ra' rb rb' := by
    refine ⟨hga, by rw [hkB]; exact hndB, ?_, by rw [hkB']; exact hndB', ?_⟩
    · intro k hk
      rw [hkB] at hk
      have hkfs := (names_subB fs).subset hk
      have hcons : J.keys (("id", J.str e.id) :: aG g e'.id ra ra') = "id" :: J.keys (aG g e'.id ra ra') := rfl
      rw [hcons, hkaG]
      simp only [List.mem_cons, List.mem_append, List.not_mem_nil, or_false, not_or]
      exact ⟨fun heq => h.hfid k hkfs heq, fun hkA' => names_disjAB fs h.hnd k hkA' hk,
        fun heq => h.hgnew (heq ▸ hkfs)⟩
    · intro k hk
      rw [hkB'] at hk
      have hcons : J.keys (("id", J.str e'.id) :: ra') = "id" :: J.keys ra' := rfl
      rw [hcons, hkA']
      simp only [List.mem_cons, not_or]
      exact ⟨fun heq => h.famU.hfid k ((names_subB hs).subset hk) heq, fun hkA'' => names_disjAB hs h.famU.hnd k hkA'' hk⟩
  have hkeysIn : ∀ k ∈ J.keys (ra' ++ rb'), k ∈ namesOf hs := by
    intro k hk
    rw [keys_append, hkA', hkB'] at hk
    rcases List.mem_append.mp hk with hk | hk
    · exact (names_subA hs).subset hk
    · exact (names_subB hs).subset hk
  have hkeysOut : ∀ k ∈ J.keys (outN g ra ra' rb rb'), k ∈ namesOf fs ∨ k = g := by
    intro k hk
    have : J.keys (outN g ra ra' rb rb') = J.keys ra ++ g :: J.keys rb := by simp [outN, J.keys]
    rw [this, hkA, hkB] at hk
    simp only [List.mem_append, List.mem_cons] at hk
    rcases hk with hk | hk | hk
    · exact Or.inl ((names_subA fs).subset hk)
    · exact Or.inr hk
    · exact Or.inl ((names_subB fs).subset hk)
  have hnotb : ∀ n, isBuiltinName n = false → n ≠ "__typename" := by
    intro n hb heq; subst heq; simp [isBuiltinName] at hb
  have hout : GoodOut g ra ra' rb rb' := by
    refine ⟨?_, ?_, ?_, ?_, ?_⟩
    · intro hk
      rcases hkeysOut _ hk with hk | hk
      · exact h.hfid "id" hk rfl
      · exact h.hgid hk.symm
    · intro hk
      rcases hkeysOut _ hk with hk | hk
      · exact hnotb _ (h.hfb _ hk) rfl
      · exact hnotb _ h.hgb hk.symm
    · intro hk; exact h.famU.hfid "id" (hkeysIn _ hk) rfl
    · intro hk; exact hnotb _ (h.famU.hfb _ (hkeysIn _ hk)) rfl
    · intro hnil
      have hlen := hperm'.length_eq
      rw [hnil, mapM_length _ hs kvs hM'] at hlen
      have : hs = [] := by cases hhs : hs with | nil => rfl | cons _ _ => rw [hhs] at hlen; simp at hlen
      exact h.famU.hne this
  have hgw := stage_gateway h (specDownstream svcs D) e.id e'.id ra ra' rb rb' hn s.hine s.hine' hii hgood hout hA hB hb0 hb0'
  refine ⟨outN g ra ra' rb rb', ra' ++ rb', hgw, ?_, hperm'⟩
  unfold outN
  exact (List.perm_middle).trans ((List.Perm.cons _ hperm).trans (List.perm_append_singleton _ _).symm)

/-! ### the shape of the calls -/

theorem fsB_ne_nil {fs : List FieldSpec} (h : ∃ f ∈ fs, f.2.2 = true) : fsB fs ≠ [] := by
  obtain ⟨f, hf, hb⟩ := h
  intro hnil
  have : f ∈ fsB fs := by simp [fsB, hf, hb]
  rw [hnil] at this; cases this

theorem fsB_eq_nil {fs : List FieldSpec} (h : ∀ f ∈ fs, f.2.2 = false) : fsB fs = [] := by
  simp only [fsB, List.filter_eq_nil_iff]
  intro f hf; simp [h f hf]

/-- both levels have a `B`-owned field: two calls, the second with TWO lookups -/
theorem callsN_two (c : PCtx) (A B T U q g : String) (fs hs : List FieldSpec) (i i' : String)
    (hT : fsB fs ≠ []) (hU : fsB hs ≠ []) :
    callsN c A B T U q g fs hs i i' = [⟨A, [rqOf c (rootStepN A B T U q g fs hs) []]⟩,
      ⟨B, [lookupRq c B T [q] (fsB fs) i, lookupRq c B U [q, g] (fsB hs) i']⟩] := by
  unfold callsN batchN
  cases hfb : fsB fs with
  | nil => exact absurd hfb hT
  | cons _ _ =>
    cases hfb' : fsB hs with
    | nil => exact absurd hfb' hU
    | cons _ _ => rfl

/-- only the outer level has a `B`-owned field: one lookup, for the entity under `q` -/
theorem callsN_onlyT (c : PCtx) (A B T U q g : String) (fs hs : List FieldSpec) (i i' : String)
    (hT : fsB fs ≠ []) (hU : fsB hs = []) :
    callsN c A B T U q g fs hs i i' = [⟨A, [rqOf c (rootStepN A B T U q g fs hs) []]⟩,
      ⟨B, [lookupRq c B T [q] (fsB fs) i]⟩] := by
  unfold callsN batchN
  rw [hU]
  cases hfb : fsB fs with
  | nil => exact absurd hfb hT
  | cons _ _ => rfl

/-- only the inner level has a `B`-owned field: one lookup, for the entity under `g` -/
theorem callsN_onlyU (c : PCtx) (A B T U q g : String) (fs hs : List FieldSpec) (i i' : String)
    (hT : fsB fs = []) (hU : fsB hs ≠ []) :
    callsN c A B T U q g fs hs i i' = [⟨A, [rqOf c (rootStepN A B T U q g fs hs) []]⟩,
      ⟨B, [lookupRq c B U [q, g] (fsB hs) i']⟩] := by
  unfold callsN batchN
  rw [hT]
  cases hfb' : fsB hs with
  | nil => exact absurd hfb' hU
  | cons _ _ => rfl

/-- `A` owns everything selected: one call -/
theorem callsN_none (c : PCtx) (A B T U q g : String) (fs hs : List FieldSpec) (i i' : String)
    (hT : fsB fs = []) (hU : fsB hs = []) :
    callsN c A B T U q g fs hs i i' = [⟨A, [rqOf c (rootStepN A B T U q g fs hs) []]⟩] := by
  unfold callsN batchN
  rw [hT, hU]
  rfl

theorem lookupRq_vars (c : PCtx) (B T : String) (ip : List String) (bs : List FieldSpec) (i : String) :
    (lookupRq c B T ip bs i).vars = [("id", .str i)] := rfl
theorem lookupRq_sels (c : PCtx) (B T : String) (ip : List String) (bs : List FieldSpec) (i : String) :
    (lookupRq c B T ip bs i).sels = convertToNodeQuery T (leaves bs) := rfl
theorem rootRq_sels (c : PCtx) (A B T U q g : String) (fs hs : List FieldSpec) :
    (rqOf c (rootStepN A B T U q g fs hs) []).sels = [QNown T U q g fs hs] := rfl

end PebblesVerif.FlatNested
