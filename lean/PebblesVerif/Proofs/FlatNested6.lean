import PebblesVerif.Proofs.FlatNested5
/-! Two-level family, final step: the downstream is the reference evaluator at each service; the
gateway model's answer equals the single-server answer (up to the order of object keys, at both
levels). -/
namespace PebblesVerif.FlatNested
open PebblesVerif PebblesVerif.Exec PebblesVerif.Flat PebblesVerif.ResultOps PebblesVerif.Spec

/-! ### the reference evaluator on the selections of the family -/

/-- the value of an object-typed field `g : U` whose stored value refers to entity `e'`: the
    sub-selection evaluated on `e'` (`null` if a non-null violation reaches it) -/
theorem fieldValue_ref (env : Env) (t i : String) (flds : List (String × DVal)) (g U : String) (e' : Entity)
    (K : Obj → Option (List (String × J)))
    (hgb : isBuiltinName g = false) (hgid : g ≠ "id")
    (hg : dlookup g flds = some (.ref e'.id)) (hent' : env.data.entity? e'.id = some e') :
    fieldValue env (.ent t i flds) g [] (.named U) K
      = some (match K (.ent e'.type e'.id e'.fields) with | some kvs => .obj kvs | none => .null) := by
  have h1 : (g == "__typename") = false := by
    simp only [beq_eq_false_iff_ne, ne_eq]; intro h; subst h; simp [isBuiltinName] at hgb
  unfold fieldValue
  simp only [h1, Bool.false_eq_true, ↓reduceIte]
  split
  · rename_i heq; exact absurd rfl hgid
  · simp only [storedValue, hg, Option.getD_some, completeWith, hent']
    cases K (.ent e'.type e'.id e'.fields) <;> rfl

/-- evaluating `g { sub }` (followed by `rest`) on an entity, into an accumulator that does not have
    the key `g` yet -/
theorem evalSels_G (env : Env) (t i : String) (flds : List (String × DVal)) (g U : String) (e' : Entity)
    (sub rest : List Sel) (acc : List (String × J))
    (hgb : isBuiltinName g = false) (hgid : g ≠ "id") (hgne : g ≠ "")
    (hg : dlookup g flds = some (.ref e'.id)) (hent' : env.data.entity? e'.id = some e')
    (hacc : g ∉ J.keys acc) :
    evalSels env (.ent t i flds) (.field g g [] [] (.named U) [] sub :: rest) acc
      = evalSels env (.ent t i flds) rest
          (acc ++ [(g, match evalSels env (.ent e'.type e'.id e'.fields) sub [] with
                       | some kvs => .obj kvs | none => .null)]) := by
  have h3 : (g == "") = false := by simpa using hgne
  rw [evalSels, evalSel]
  simp only [skipped, List.any_nil, Bool.false_eq_true, ↓reduceIte, h3,
    fieldValue_ref env t i flds g U e' _ hgb hgid hg hent']
  rw [addKey_new hacc]

/-- the helper `id` evaluates to the entity's id -/
theorem evalSels_id (env : Env) (t i : String) (flds : List (String × DVal)) (rest : List Sel) (hi : i ≠ "") :
    evalSels env (.ent t i flds) (idField :: rest) [] = evalSels env (.ent t i flds) rest [("id", .str i)] := by
  have : (i != "") = true := by simpa using hi
  have hid0 : evalSel env (.ent t i flds) idField [] = some [("id", .str i)] := by
    simp [idField, evalSel, skipped, fieldValue, this, addKey, J.lookup]
  rw [evalSels, hid0]

/-- distinct leaf fields, evaluated into an accumulator with other keys -/
theorem evalSels_leaves_map (env : Env) (o : Obj) (xs : List FieldSpec) (acc : List (String × J))
    (hnd : (namesOf xs).Nodup) (hnne : ∀ n ∈ namesOf xs, n ≠ "") (hacc : ∀ k ∈ namesOf xs, k ∉ J.keys acc) :
    evalSels env o (leaves xs) acc = (xs.mapM (fval env o)).map (acc ++ ·) := by
  rw [evalSels_acc env o (leaves xs) acc (plainFields_leaves xs) (by rw [respKeys_leaves xs hnne]; exact hnd)
    (by rw [respKeys_leaves xs hnne]; exact hacc), evalSels_leaves env o xs hnd hnne]

theorem evalSels_leaves_acc (env : Env) (o : Obj) (xs : List FieldSpec) (rx acc : List (String × J))
    (hnd : (namesOf xs).Nodup) (hnne : ∀ n ∈ namesOf xs, n ≠ "")
    (hM : xs.mapM (fval env o) = some rx) (hacc : ∀ k ∈ namesOf xs, k ∉ J.keys acc) :
    evalSels env o (leaves xs) acc = some (acc ++ rx) := by
  rw [evalSels_leaves_map env o xs acc hnd hnne hacc, hM]
  rfl

theorem names_disjAB (fs : List FieldSpec) (hnd : (namesOf fs).Nodup) :
    ∀ n, n ∈ namesOf (fsA fs) → n ∈ namesOf (fsB fs) → False := by
  intro n hnA hnB
  simp only [namesOf, fsA, fsB, List.mem_map, List.mem_filter] at hnA hnB
  obtain ⟨f1, ⟨hf1, hp1⟩, hn1⟩ := hnA
  obtain ⟨f2, ⟨hf2, hp2⟩, hn2⟩ := hnB
  have : f1 = f2 := fst_inj_of_nodup fs hnd f1 hf1 f2 hf2 (hn1.trans hn2.symm)
  subst this; simp_all

/-- splitting the answer for the leaf fields by owner -/
theorem shares (env : Env) (o : Obj) (fs : List FieldSpec) (r : List (String × J))
    (hM : fs.mapM (fval env o) = some r) :
    ∃ ra rb, (fsA fs).mapM (fval env o) = some ra ∧ (fsB fs).mapM (fval env o) = some rb ∧ (ra ++ rb).Perm r
      ∧ J.keys ra = namesOf (fsA fs) ∧ J.keys rb = namesOf (fsB fs) := by
  obtain ⟨ra, rb, hra, hrb, hperm⟩ := mapM_partition (fval env o) (fun f => !f.2.2) fs r hM
  rw [filter_not_not] at hrb
  exact ⟨ra, rb, hra, hrb, hperm, fval_keys _ _ _ _ hra, fval_keys _ _ _ _ hrb⟩

/-- the leaf values of an entity are the same at every service (whatever its schema and variables) -/
theorem leaves_at_service (S₁ S₂ : Schema) (D : Data) (v₁ v₂ : List (String × J)) (t i : String)
    (flds : List (String × DVal)) (xs : List FieldSpec) :
    xs.mapM (fval (envOf S₁ D v₁) (.ent t i flds)) = xs.mapM (fval (envOf S₂ D v₂) (.ent t i flds)) :=
  mapM_congr _ (fun f => fval_ent_schema S₁ S₂ D v₁ v₂ t i flds f)

theorem toList_ne_nil {s : String} (h : s ≠ "") : s.toList ≠ [] := by
  intro hnil; apply h; rw [← String.ofList_toList (s := s), hnil]

/-- what a service with schema `S` answers to one request (a named copy of the function inside
    `specDownstream`) -/
def answerOf (S : Schema) (D : Data) (rq : Request) : List (String × J) :=
  match Spec.eval S D ⟨rq.header.kind, rq.header.name.getD "", [], rq.sels⟩ rq.vars with
  | some (.obj kvs) => kvs
  | _ => []

theorem specDownstream_found (svcs : List Svc) (D : Data) (url : String) (S : Schema) (batch : List Request)
    (h : svcs.find? (·.url == url) = some ⟨url, S⟩) :
    specDownstream svcs D url batch = .ok (batch.map (answerOf S D)) := by
  unfold specDownstream
  rw [h]
  rfl

theorem mapM_append' {α β} (f : α → Option β) (a b : List α) (x y : List β) (h1 : a.mapM f = some x)
    (h2 : b.mapM f = some y) : (a ++ b).mapM f = some (x ++ y) := by
  rw [List.mapM_append, h1, h2]; rfl

/-- the hypotheses on the names, the federation and the data shared by the theorems below -/
structure Setting (c : PCtx) (A B T U q g : String) (fs1 fs2 hs : List FieldSpec) (svcs : List Svc) (SA SB : Schema)
    (D : Data) (e e' : Entity) : Prop where
  hq1 : '#' ∉ q.toList
  hq2 : ':' ∉ q.toList
  hqne : q ≠ ""
  hg1 : '#' ∉ g.toList
  hg2 : ':' ∉ g.toList
  hgne : g ≠ ""
  hine : e.id ≠ ""
  hine' : e'.id ≠ ""
  hnne : ∀ n ∈ namesOf (fs1 ++ fs2), n ≠ ""
  hnne' : ∀ n ∈ namesOf hs, n ≠ ""
  hsA : svcs.find? (·.url == A) = some ⟨A, SA⟩
  hsB : svcs.find? (·.url == B) = some ⟨B, SB⟩
  hSBT : ∃ td, SB.type? T = some td ∧ td.kind = .object
  hSBU : ∃ td, SB.type? U = some td ∧ td.kind = .object
  hroot : dlookup q (D.root "Query") = some (.ref e.id)
  hent : D.entity? e.id = some e
  hty : e.type = T
  hgref : dlookup g e.fields = some (.ref e'.id)
  hent' : D.entity? e'.id = some e'
  hty' : e'.type = U

/-- **C01 on the two-level family, with the calls made explicit.** See `Props/C01FlatNested.lean`
    for the statement in words. -/
theorem flat_nested_calls {c : PCtx} {A B T U q g : String} {fs1 fs2 hs : List FieldSpec}
    (h : Fam c A B T U q g fs1 fs2 hs)
    {svcs : List Svc} {SA SB : Schema} {D : Data} {e e' : Entity}
    (s : Setting c A B T U q g fs1 fs2 hs svcs SA SB D e e')
    (r₁ r₂ rg : List (String × J)) (hlen : r₁.length = fs1.length)
    (href : Spec.eval c.schema D ⟨.query, "", [], [QN T U q g fs1 fs2 hs]⟩ []
      = some (.obj [(q, .obj (r₁ ++ (g, .obj rg) :: r₂))])) :
    ∃ d dg, gateway c {} ⟨.query, "", [], [QN T U q g fs1 fs2 hs]⟩ none (specDownstream svcs D)
        = .ok ⟨some [(q, .obj d)], [], callsN c A B T U q g fs1 fs2 hs e.id e'.id⟩
      ∧ d.Perm (r₁ ++ (g, .obj dg) :: r₂) ∧ dg.Perm rg := by
  have hn : GoodNames q g := ⟨s.hq1, s.hq2, toList_ne_nil s.hqne, s.hg1, s.hg2, toList_ne_nil s.hgne⟩
  have hii : e.id ≠ e'.id := by
    intro heq
    have h1 := s.hent; rw [heq, s.hent'] at h1
    have : e' = e := Option.some.inj h1
    apply h.hTU; rw [← s.hty, ← s.hty', this]
  -- names
  have hnd := h.hnd
  rw [names_append, List.nodup_append] at hnd
  obtain ⟨hnd1, hnd2, hnd12⟩ := hnd
  have hin1 : ∀ n ∈ namesOf fs1, n ∈ namesOf (fs1 ++ fs2) := fun n hn => by
    rw [names_append]; exact List.mem_append_left _ hn
  have hin2 : ∀ n ∈ namesOf fs2, n ∈ namesOf (fs1 ++ fs2) := fun n hn => by
    rw [names_append]; exact List.mem_append_right _ hn
  have hnne1 : ∀ n ∈ namesOf fs1, n ≠ "" := fun n hn => s.hnne n (hin1 n hn)
  have hnne2 : ∀ n ∈ namesOf fs2, n ≠ "" := fun n hn => s.hnne n (hin2 n hn)
  have hg1 := g_not_fs1 h
  have hg2 := g_not_fs2 h
  -- the reference answer: the leaf fields before `g`, the object under `g`, the leaf fields after `g`
  have hrefM : evalSels (envOf c.schema D []) (.ent e.type e.id e.fields) (leaves fs1 ++ Gc U g hs :: leaves fs2) []
      = some (r₁ ++ (g, .obj rg) :: r₂) := by
    unfold Spec.eval at href
    simp only [OpKind.rootName, QN] at href
    have := eval_root_q (envOf c.schema D []) T q e (leaves fs1 ++ Gc U g hs :: leaves fs2) h.hqb h.hqn s.hqne
      s.hroot s.hent
    simp only [envOf] at this
    rw [this] at href
    cases hr : evalSels ⟨c.schema, D, [], []⟩ (.ent e.type e.id e.fields) (leaves fs1 ++ Gc U g hs :: leaves fs2) [] with
    | none => simp [hr] at href
    | some kvs => simp [hr] at href; subst href; simpa only [envOf] using hr
  rw [evalSels_append, evalSels_leaves _ _ fs1 hnd1 hnne1] at hrefM
  cases hM1 : fs1.mapM (fval (envOf c.schema D []) (.ent e.type e.id e.fields)) with
  | none => simp [hM1] at hrefM
  | some r1' =>
  have hk1 : J.keys r1' = namesOf fs1 := fval_keys _ _ _ _ hM1
  rw [hM1, Option.bind_some] at hrefM
  unfold Gc at hrefM
  rw [evalSels_G _ _ _ _ g U e' _ _ _ h.hgb h.hgid s.hgne s.hgref s.hent' (by rw [hk1]; exact hg1),
    evalSels_leaves_map _ _ fs2 _ hnd2 hnne2 (by
      intro k hk
      rw [keys_append, hk1]
      simp only [J.keys, List.map_cons, List.map_nil, List.mem_append, List.mem_singleton, not_or]
      exact ⟨fun hk1' => hnd12 k hk1' k hk rfl, fun heq => hg2 (heq ▸ hk)⟩)] at hrefM
  cases hM2 : fs2.mapM (fval (envOf c.schema D []) (.ent e.type e.id e.fields)) with
  | none => simp [hM2] at hrefM
  | some r2' =>
  rw [hM2, Option.map_some, List.append_assoc] at hrefM
  have hinj := List.append_inj (Option.some.inj hrefM) (by rw [mapM_length _ fs1 r1' hM1, hlen])
  have hr1 : r1' = r₁ := hinj.1
  subst hr1
  have hinj2 := hinj.2
  simp only [List.cons_append, List.nil_append, List.cons.injEq, Prod.mk.injEq, true_and] at hinj2
  have hr2 : r2' = r₂ := hinj2.2
  subst hr2
  cases hM' : evalSels (envOf c.schema D []) (.ent e'.type e'.id e'.fields) (leaves hs) [] with
  | none => rw [hM'] at hinj2; simp at hinj2
  | some kvs =>
  have hkvs : kvs = rg := by rw [hM'] at hinj2; simpa using hinj2.1
  subst hkvs
  rw [evalSels_leaves _ _ hs h.famU.hnd s.hnne'] at hM'
  -- the shares of the two services at both levels
  obtain ⟨ra1, rb1, hra1, hrb1, hperm1, hkA1, hkB1⟩ := shares _ _ fs1 r1' hM1
  obtain ⟨ra2, rb2, hra2, hrb2, hperm2, hkA2, hkB2⟩ := shares _ _ fs2 r2' hM2
  obtain ⟨ra', rb', hra', hrb', hperm', hkA', hkB'⟩ := shares _ _ hs kvs hM'
  have hrb : (fsB (fs1 ++ fs2)).mapM (fval (envOf c.schema D []) (.ent e.type e.id e.fields)) = some (rb1 ++ rb2) := by
    rw [fsB_append]; exact mapM_append' _ _ _ _ _ hrb1 hrb2
  have hkB : J.keys (rb1 ++ rb2) = namesOf (fsB (fs1 ++ fs2)) := fval_keys _ _ _ _ hrb
  have hndA1 := hnd1.sublist (names_subA fs1)
  have hndA2 := hnd2.sublist (names_subA fs2)
  have hndB := h.hnd.sublist (names_subB (fs1 ++ fs2))
  have hndA' := h.famU.hnd.sublist (names_subA hs)
  have hndB' := h.famU.hnd.sublist (names_subB hs)
  have hnneA1 : ∀ n ∈ namesOf (fsA fs1), n ≠ "" := fun n hn => hnne1 n ((names_subA fs1).subset hn)
  have hnneA2 : ∀ n ∈ namesOf (fsA fs2), n ≠ "" := fun n hn => hnne2 n ((names_subA fs2).subset hn)
  have hnneB : ∀ n ∈ namesOf (fsB (fs1 ++ fs2)), n ≠ "" := fun n hn => s.hnne n ((names_subB _).subset hn)
  have hnneA' : ∀ n ∈ namesOf (fsA hs), n ≠ "" := fun n hn => s.hnne' n ((names_subA hs).subset hn)
  have hnneB' : ∀ n ∈ namesOf (fsB hs), n ≠ "" := fun n hn => s.hnne' n ((names_subB hs).subset hn)
  have hgA1 : g ∉ namesOf (fsA fs1) := fun hm => hg1 ((names_subA fs1).subset hm)
  have hgA2 : g ∉ namesOf (fsA fs2) := fun hm => hg2 ((names_subA fs2).subset hm)
  have hidA1 : "id" ∉ namesOf (fsA fs1) := fun hm => h.hfid "id" (hin1 _ ((names_subA fs1).subset hm)) rfl
  have hidA2 : "id" ∉ namesOf (fsA fs2) := fun hm => h.hfid "id" (hin2 _ ((names_subA fs2).subset hm)) rfl
  -- what service A answers
  have hinnerA : evalSels (envOf SA D []) (.ent e'.type e'.id e'.fields) (idField :: leaves (fsA hs)) []
      = some (("id", .str e'.id) :: ra') := by
    rw [evalSels_id _ _ _ _ _ s.hine', evalSels_leaves_acc _ _ (fsA hs) ra' _ hndA' hnneA'
      (by rw [leaves_at_service SA c.schema D [] []]; exact hra')
      (by
        intro k hk
        simp only [J.keys, List.map_cons, List.map_nil, List.mem_singleton]
        intro heq; subst heq; exact h.famU.hfid "id" ((names_subA hs).subset hk) rfl)]
    rfl
  have houterA : evalSels (envOf SA D []) (.ent e.type e.id e.fields)
      (idField :: (leaves (fsA fs1) ++ Gown U g hs :: leaves (fsA fs2))) []
      = some (("id", .str e.id) :: aG g e'.id ra1 ra2 ra') := by
    rw [evalSels_id _ _ _ _ _ s.hine, evalSels_append, evalSels_leaves_acc _ _ (fsA fs1) ra1 _ hndA1 hnneA1
      (by rw [leaves_at_service SA c.schema D [] []]; exact hra1)
      (by
        intro k hk
        simp only [J.keys, List.map_cons, List.map_nil, List.mem_singleton]
        intro heq; subst heq; exact hidA1 hk)]
    rw [Option.bind_some]
    unfold Gown
    have hkacc : J.keys ([("id", J.str e.id)] ++ ra1) = "id" :: namesOf (fsA fs1) := by
      rw [keys_append, hkA1]; rfl
    rw [evalSels_G _ _ _ _ g U e' _ _ _ h.hgb h.hgid s.hgne s.hgref s.hent' (by
      rw [hkacc]
      simp only [List.mem_cons, not_or]
      exact ⟨h.hgid, hgA1⟩), hinnerA]
    rw [evalSels_leaves_acc _ _ (fsA fs2) ra2 _ hndA2 hnneA2
      (by rw [leaves_at_service SA c.schema D [] []]; exact hra2)
      (by
        intro k hk
        rw [keys_append, hkacc]
        simp only [J.keys, List.map_cons, List.map_nil, List.mem_append, List.mem_cons,
          List.not_mem_nil, or_false, not_or]
        refine ⟨⟨fun heq => hidA2 (heq ▸ hk), fun hk1' => ?_⟩, fun heq => hgA2 (heq ▸ hk)⟩
        exact hnd12 k ((names_subA fs1).subset hk1') k ((names_subA fs2).subset hk) rfl)]
    simp [aG]
  have hA : specDownstream svcs D A [rqOf c (rootStepN A B T U q g fs1 fs2 hs) []]
      = .ok [respA q e.id (aG g e'.id ra1 ra2 ra')] := by
    have hhdr : (header c (rootStepN A B T U q g fs1 fs2 hs)).kind = .query := by
      simp [header, rootStepN, Step.ip, h.hkind]
    have hev := eval_root_q (envOf SA D []) T q e (idField :: (leaves (fsA fs1) ++ Gown U g hs :: leaves (fsA fs2)))
      h.hqb h.hqn s.hqne s.hroot s.hent
    rw [houterA] at hev
    have hsels : (rootStepN A B T U q g fs1 fs2 hs).sels
        = [.field q q [] [] (.named T) [] (idField :: (leaves (fsA fs1) ++ Gown U g hs :: leaves (fsA fs2)))] := rfl
    simp only [specDownstream, s.hsA, rqOf, List.map_cons, List.map_nil, hhdr, Spec.eval, OpKind.rootName, hsels]
    simp only [envOf] at hev
    rw [hev]
    simp [respA]
  -- what service B answers to each of the two lookups
  have hlookup : ∀ (X : String) (ip : List String) (xs : List FieldSpec) (ex : Entity) (rx : List (String × J)),
      ip ≠ [] → D.entity? ex.id = some ex → ex.type = X → (∃ td, SB.type? X = some td ∧ td.kind = .object) →
      (namesOf xs).Nodup → (∀ n ∈ namesOf xs, n ≠ "") →
      xs.mapM (fval (envOf c.schema D []) (.ent ex.type ex.id ex.fields)) = some rx →
      answerOf SB D (lookupRq c B X ip xs ex.id) = [("node", .obj rx)] := by
    intro X ip xs ex rx hip hentx htyx hSX hndx hnnex hMx
    have hipe : ip.isEmpty = false := by cases ip with | nil => exact absurd rfl hip | cons _ _ => rfl
    have hhdr : (header c (stepAt B X ip xs)).kind = .query := by simp [header, stepAt, Step.ip, hipe]
    have hval : evalSels (envOf SB D [("id", .str ex.id)]) (.ent ex.type ex.id ex.fields) (leaves xs) [] = some rx := by
      rw [evalSels_leaves _ _ _ hndx hnnex, leaves_at_service SB c.schema D _ []]; exact hMx
    have hnl := eval_node_lookup (envOf SB D [("id", .str ex.id)]) ex (leaves xs) rx hentx
      (by simp [envOf, J.lookup]) (by rw [htyx]; exact hSX) hval
    have hsels : (stepAt B X ip xs).sels = convertToNodeQuery X (leaves xs) := rfl
    simp only [answerOf, lookupRq, rqOf, hhdr, Spec.eval, OpKind.rootName, hsels]
    rw [htyx] at hnl
    simp only [envOf] at hnl
    rw [hnl]
    simp
  have hBT := hlookup T [q] (fsB (fs1 ++ fs2)) e (rb1 ++ rb2) (by simp) s.hent s.hty s.hSBT hndB hnneB hrb
  have hBU := hlookup U [q, g] (fsB hs) e' rb' (by simp) s.hent' s.hty' s.hSBU hndB' hnneB' hrb'
  have hansU : (lookupsU c B U q g hs e'.id).map (answerOf SB D) = answersU hs rb' := by
    unfold lookupsU answersU
    cases hfb' : fsB hs with
    | nil => rfl
    | cons b0' bs' => rw [hfb'] at hBU; simp only [List.map_cons, List.map_nil, hBU]
  have hansT : (lookupsT c B T q (fs1 ++ fs2) e.id).map (answerOf SB D) = answersT (fs1 ++ fs2) (rb1 ++ rb2) := by
    unfold lookupsT answersT
    cases hfb : fsB (fs1 ++ fs2) with
    | nil => rfl
    | cons b0 bs => rw [hfb] at hBT; simp only [List.map_cons, List.map_nil, hBT]
  have hB : batchN c B T U q g fs1 fs2 hs e.id e'.id ≠ [] →
      specDownstream svcs D B (batchN c B T U q g fs1 fs2 hs e.id e'.id) = .ok (answersN fs1 fs2 hs (rb1 ++ rb2) rb') := by
    intro _
    rw [specDownstream_found svcs D B SB _ s.hsB]
    unfold batchN answersN
    cases hfb1 : fsB fs1 with
    | nil => simp only [List.map_append, hansU, hansT]
    | cons b1 bs1 => simp only [List.map_cons, hansU, hBT]
  have hb0 : fsB (fs1 ++ fs2) = [] → rb1 ++ rb2 = [] := by
    intro hnil; rw [hnil] at hrb; simpa using hrb.symm
  have hb0' : fsB hs = [] → rb' = [] := by
    intro hnil; rw [hnil] at hrb'; simpa using hrb'.symm
  -- side conditions on keys
  have hkA12 : J.keys ra1 ++ J.keys ra2 = namesOf (fsA (fs1 ++ fs2)) := by
    rw [hkA1, hkA2, fsA_append, names_append]
  have hga : g ∉ J.keys ra1 := by rw [hkA1]; exact hgA1
  have hgood : GoodAns g e.id e'.id ra1 ra2 ra' (rb1 ++ rb2) rb' := by
    refine ⟨hga, by rw [hkB]; exact hndB, ?_, by rw [hkB']; exact hndB', ?_⟩
    · intro k hk
      rw [hkB] at hk
      have hkfs := (names_subB (fs1 ++ fs2)).subset hk
      simp only [List.mem_cons, List.mem_append, not_or]
      refine ⟨fun heq => h.hfid k hkfs heq, fun hm => ?_, fun hm => ?_, fun hm => ?_⟩
      · exact names_disjAB (fs1 ++ fs2) h.hnd k (by rw [← hkA12]; exact List.mem_append_left _ hm) hk
      · exact h.hgnew (hm ▸ hkfs)
      · exact names_disjAB (fs1 ++ fs2) h.hnd k (by rw [← hkA12]; exact List.mem_append_right _ hm) hk
    · intro k hk
      rw [hkB'] at hk
      have hcons : J.keys (("id", J.str e'.id) :: ra') = "id" :: J.keys ra' := rfl
      rw [hcons, hkA']
      simp only [List.mem_cons, not_or]
      exact ⟨fun heq => h.famU.hfid k ((names_subB hs).subset hk) heq, fun hkA'' => names_disjAB hs h.famU.hnd k hkA'' hk⟩
  have hkeysIn : ∀ k ∈ J.keys (ra' ++ rb'), k ∈ namesOf hs := by
    intro k hk
    rw [keys_append, hkA', hkB'] at hk
    rcases List.mem_append.mp hk with hk | hk
    · exact (names_subA hs).subset hk
    · exact (names_subB hs).subset hk
  have hkeysOut : ∀ k ∈ J.keys (outN g ra1 ra2 ra' (rb1 ++ rb2) rb'), k ∈ namesOf (fs1 ++ fs2) ∨ k = g := by
    intro k hk
    have : J.keys (outN g ra1 ra2 ra' (rb1 ++ rb2) rb') = J.keys ra1 ++ g :: (J.keys ra2 ++ J.keys (rb1 ++ rb2)) := by
      simp [outN, J.keys]
    rw [this, hkA1, hkA2, hkB] at hk
    simp only [List.mem_append, List.mem_cons] at hk
    rcases hk with hk | hk | hk | hk
    · exact Or.inl (hin1 _ ((names_subA fs1).subset hk))
    · exact Or.inr hk
    · exact Or.inl (hin2 _ ((names_subA fs2).subset hk))
    · exact Or.inl ((names_subB _).subset hk)
  have hnotb : ∀ n, isBuiltinName n = false → n ≠ "__typename" := by
    intro n hb heq; subst heq; simp [isBuiltinName] at hb
  have hout : GoodOut g ra1 ra2 ra' (rb1 ++ rb2) rb' := by
    refine ⟨?_, ?_, ?_, ?_, ?_⟩
    · intro hk
      rcases hkeysOut _ hk with hk | hk
      · exact h.hfid "id" hk rfl
      · exact h.hgid hk.symm
    · intro hk
      rcases hkeysOut _ hk with hk | hk
      · exact hnotb _ (h.hfb _ hk) rfl
      · exact hnotb _ h.hgb hk.symm
    · intro hk; exact h.famU.hfid "id" (hkeysIn _ hk) rfl
    · intro hk; exact hnotb _ (h.famU.hfb _ (hkeysIn _ hk)) rfl
    · intro hnil
      have hlen' := hperm'.length_eq
      rw [hnil, mapM_length _ hs kvs hM'] at hlen'
      have : hs = [] := by cases hhs : hs with | nil => rfl | cons _ _ => rw [hhs] at hlen'; simp at hlen'
      exact h.famU.hne this
  have hgw := stage_gateway h (specDownstream svcs D) e.id e'.id ra1 ra2 ra' (rb1 ++ rb2) rb' hn s.hine s.hine' hii
    hgood hout hA hB hb0 hb0'
  refine ⟨outN g ra1 ra2 ra' (rb1 ++ rb2) rb', ra' ++ rb', hgw, ?_, hperm'⟩
  unfold outN
  have hp : (ra1 ++ (ra2 ++ (rb1 ++ rb2))).Perm (r1' ++ r2') := by
    have h1 : (ra1 ++ (ra2 ++ (rb1 ++ rb2))).Perm (ra1 ++ (rb1 ++ (ra2 ++ rb2))) :=
      List.Perm.append_left ra1 (List.perm_append_comm_assoc ra2 rb1 rb2)
    rw [← List.append_assoc ra1 rb1] at h1
    exact h1.trans (List.Perm.append hperm1 hperm2)
  exact (List.perm_middle).trans ((List.Perm.cons _ hp).trans (List.perm_middle).symm)

/-! ### the shape of the calls -/

theorem fsB_ne_nil {fs : List FieldSpec} (h : ∃ f ∈ fs, f.2.2 = true) : fsB fs ≠ [] := by
  obtain ⟨f, hf, hb⟩ := h
  intro hnil
  have : f ∈ fsB fs := by simp [fsB, hf, hb]
  rw [hnil] at this; cases this

theorem fsB_eq_nil {fs : List FieldSpec} (h : ∀ f ∈ fs, f.2.2 = false) : fsB fs = [] := by
  simp only [fsB, List.filter_eq_nil_iff]
  intro f hf; simp [h f hf]

/-- both levels have a `B`-owned field, one of `T`'s written BEFORE `g`: two calls, the second with
    TWO lookups — for `T`, then for `U` -/
theorem callsN_TU (c : PCtx) (A B T U q g : String) (fs1 fs2 hs : List FieldSpec) (i i' : String)
    (hT : fsB fs1 ≠ []) (hU : fsB hs ≠ []) :
    callsN c A B T U q g fs1 fs2 hs i i' = [⟨A, [rqOf c (rootStepN A B T U q g fs1 fs2 hs) []]⟩,
      ⟨B, [lookupRq c B T [q] (fsB (fs1 ++ fs2)) i, lookupRq c B U [q, g] (fsB hs) i']⟩] := by
  unfold callsN batchN lookupsU
  cases hfb : fsB fs1 with
  | nil => exact absurd hfb hT
  | cons _ _ =>
    cases hfb' : fsB hs with
    | nil => exact absurd hfb' hU
    | cons _ _ => rfl

/-- both levels have a `B`-owned field, all of `T`'s written AFTER `g`: two calls, the second with
    TWO lookups in the other order — for `U`, then for `T` -/
theorem callsN_UT (c : PCtx) (A B T U q g : String) (fs1 fs2 hs : List FieldSpec) (i i' : String)
    (hT1 : fsB fs1 = []) (hT : fsB (fs1 ++ fs2) ≠ []) (hU : fsB hs ≠ []) :
    callsN c A B T U q g fs1 fs2 hs i i' = [⟨A, [rqOf c (rootStepN A B T U q g fs1 fs2 hs) []]⟩,
      ⟨B, [lookupRq c B U [q, g] (fsB hs) i', lookupRq c B T [q] (fsB (fs1 ++ fs2)) i]⟩] := by
  unfold callsN batchN lookupsU lookupsT
  rw [hT1]
  cases hfb : fsB (fs1 ++ fs2) with
  | nil => exact absurd hfb hT
  | cons _ _ =>
    cases hfb' : fsB hs with
    | nil => exact absurd hfb' hU
    | cons _ _ => rfl

/-- only the outer level has a `B`-owned field: one lookup, for the entity under `q` -/
theorem callsN_onlyT (c : PCtx) (A B T U q g : String) (fs1 fs2 hs : List FieldSpec) (i i' : String)
    (hT : fsB (fs1 ++ fs2) ≠ []) (hU : fsB hs = []) :
    callsN c A B T U q g fs1 fs2 hs i i' = [⟨A, [rqOf c (rootStepN A B T U q g fs1 fs2 hs) []]⟩,
      ⟨B, [lookupRq c B T [q] (fsB (fs1 ++ fs2)) i]⟩] := by
  unfold callsN batchN lookupsU lookupsT
  rw [hU]
  cases hfb1 : fsB fs1 with
  | nil =>
    cases hfb : fsB (fs1 ++ fs2) with
    | nil => exact absurd hfb hT
    | cons _ _ => rfl
  | cons _ _ => rfl

/-- only the inner level has a `B`-owned field: one lookup, for the entity under `g` -/
theorem callsN_onlyU (c : PCtx) (A B T U q g : String) (fs1 fs2 hs : List FieldSpec) (i i' : String)
    (hT : fsB (fs1 ++ fs2) = []) (hU : fsB hs ≠ []) :
    callsN c A B T U q g fs1 fs2 hs i i' = [⟨A, [rqOf c (rootStepN A B T U q g fs1 fs2 hs) []]⟩,
      ⟨B, [lookupRq c B U [q, g] (fsB hs) i']⟩] := by
  have hT1 : fsB fs1 = [] := by
    rw [fsB_append] at hT; exact (List.append_eq_nil_iff.mp hT).1
  unfold callsN batchN lookupsU lookupsT
  rw [hT1, hT]
  cases hfb' : fsB hs with
  | nil => exact absurd hfb' hU
  | cons _ _ => rfl

/-- `A` owns everything selected: one call -/
theorem callsN_none (c : PCtx) (A B T U q g : String) (fs1 fs2 hs : List FieldSpec) (i i' : String)
    (hT : fsB (fs1 ++ fs2) = []) (hU : fsB hs = []) :
    callsN c A B T U q g fs1 fs2 hs i i' = [⟨A, [rqOf c (rootStepN A B T U q g fs1 fs2 hs) []]⟩] := by
  have hT1 : fsB fs1 = [] := by
    rw [fsB_append] at hT; exact (List.append_eq_nil_iff.mp hT).1
  unfold callsN batchN lookupsU lookupsT
  rw [hT1, hT, hU]
  rfl

end PebblesVerif.FlatNested
