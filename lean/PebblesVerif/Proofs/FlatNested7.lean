import PebblesVerif.Proofs.FlatNested6
/-!
Non-vacuity of `flat_nested_calls`: a concrete member of the two-level family — `Animal` with
`owner : Person`, the leaf fields of both types split between services `A` and `B` — meets every
hypothesis. The model's answer, its calls and its plan are also checked by evaluation (`#guard`:
tests that fail the build if the model's behaviour changes — not obligations).
-/
namespace PebblesVerif.FlatNested.Example
open PebblesVerif PebblesVerif.Exec PebblesVerif.Spec PebblesVerif.Flat

def tStr : TypeRef := .named "String"
def fd (n : String) (t : TypeRef) : FieldDef := ⟨n, [], t, none, "", []⟩
def animalT : TypeDef := { name := "Animal", kind := Kind.object, fields :=
  [fd "id" (.nonNull (.named "ID")), fd "name" tStr, fd "age" tStr, fd "sound" tStr, fd "owner" (.named "Person")] }
def personT : TypeDef := { name := "Person", kind := Kind.object, fields :=
  [fd "id" (.nonNull (.named "ID")), fd "name" tStr, fd "email" tStr, fd "city" tStr] }
def queryT (fs : List FieldDef) : TypeDef := { name := "Query", kind := Kind.object, fields := fs }
def merged : Schema := { types := [animalT, personT, queryT [fd "animal" (.named "Animal")]], query := some "Query" }
def schemaA : Schema := merged
def schemaB : Schema := { types := [animalT, personT, queryT []], query := some "Query" }
def tum : Tum := [("Query", ⟨[("animal", "A")], false⟩),
  ("Animal", ⟨[("name", "A"), ("age", "B"), ("sound", "A"), ("owner", "A")], true⟩),
  ("Person", ⟨[("name", "B"), ("email", "A"), ("city", "B")], true⟩)]
def ctx : PCtx := ⟨merged, tum, .query, ""⟩
/-- the leaf fields of `Animal`: B, A, A -/
def fs : List FieldSpec := [("age", tStr, true), ("name", tStr, false), ("sound", tStr, false)]
/-- the leaf fields of `Person`: B, A, B -/
def hs : List FieldSpec := [("name", tStr, true), ("email", tStr, false), ("city", tStr, true)]
/-- the entity ids contain `#` (the path separator) on purpose -/
def entP : Entity := ⟨"UGVyc29u#7", "Person", [("id", .scalar (.str "UGVyc29u#7")), ("name", .scalar (.str "ann")),
  ("email", .scalar (.str "ann@x")), ("city", .null)]⟩
def entA : Entity := ⟨"QW5pbWFs#1", "Animal", [("id", .scalar (.str "QW5pbWFs#1")), ("name", .scalar (.str "rex")),
  ("age", .scalar (.str "7")), ("sound", .null), ("owner", .ref "UGVyc29u#7")]⟩
def data : Data := ⟨[entA, entP], [("Query", [("animal", .ref "QW5pbWFs#1")])]⟩
def svcs : List Svc := [⟨"A", schemaA⟩, ⟨"B", schemaB⟩]
/-- `owner` written LAST / FIRST / in the MIDDLE (after `A`'s `name`, before `B`'s `age`) -/
def op : Op := ⟨.query, "", [], [QN "Animal" "Person" "animal" "owner" fs [] hs]⟩
def opFirst : Op := ⟨.query, "", [], [QN "Animal" "Person" "animal" "owner" [] fs hs]⟩
def fsM1 : List FieldSpec := [("name", tStr, false)]
def fsM2 : List FieldSpec := [("age", tStr, true), ("sound", tStr, false)]
def opMid : Op := ⟨.query, "", [], [QN "Animal" "Person" "animal" "owner" fsM1 fsM2 hs]⟩

/-- the single-server answer -/
def expectedOwner : List (String × J) := [("name", .str "ann"), ("email", .str "ann@x"), ("city", .null)]
def expected0 : List (String × J) := [("age", .str "7"), ("name", .str "rex"), ("sound", .null)]

theorem reference : Spec.eval ctx.schema data op [] =
    some (.obj [("animal", .obj (expected0 ++ ("owner", .obj expectedOwner) :: []))]) := by
  rfl
theorem referenceFirst : Spec.eval ctx.schema data opFirst [] =
    some (.obj [("animal", .obj ([] ++ ("owner", .obj expectedOwner) :: expected0))]) := by
  rfl
theorem referenceMid : Spec.eval ctx.schema data opMid [] =
    some (.obj [("animal", .obj ([("name", .str "rex")] ++ ("owner", .obj expectedOwner) ::
      [("age", .str "7"), ("sound", .null)]))]) := by
  rfl

theorem famU : FamT ctx "A" "B" "Person" "owner" hs where
  hAB := by decide
  hTroot := by decide
  hne := by decide
  hnd := by decide
  hfb := by simp [namesOf, hs, isBuiltinName]
  hfid := by decide
  hschemaT := ⟨personT, by rfl, rfl⟩
  tumTn := by rfl
  tumTid := by rfl
  tumTf := by decide

/-- the family hypotheses for any split `fs1 ++ fs2` of a duplicate-free selection of `name`, `age`, `sound` -/
theorem famOf (fs1 fs2 : List FieldSpec) (hne : fs1 ++ fs2 ≠ []) (hnd : (namesOf (fs1 ++ fs2)).Nodup)
    (hmem : ∀ f ∈ fs1 ++ fs2, f = ("age", tStr, true) ∨ f = ("name", tStr, false) ∨ f = ("sound", tStr, false)) :
    Fam ctx "A" "B" "Animal" "Person" "animal" "owner" fs1 fs2 hs where
  hAB := by decide
  hAint := by decide
  hBint := by decide
  hqb := by simp [isBuiltinName]
  hqn := by decide
  hTroot := by decide
  hne := hne
  hnd := hnd
  hfb := by
    intro n hn
    obtain ⟨f, hf, rfl⟩ := List.mem_map.mp hn
    rcases hmem f hf with rfl | rfl | rfl <;> simp [isBuiltinName]
  hfid := by
    intro n hn
    obtain ⟨f, hf, rfl⟩ := List.mem_map.mp hn
    rcases hmem f hf with rfl | rfl | rfl <;> decide
  hschemaT := ⟨animalT, by rfl, rfl⟩
  hschemaQ := ⟨_, by rfl, rfl⟩
  tumQn := by rfl
  tumQq := by rfl
  tumTn := by rfl
  tumTid := by rfl
  tumTf := by
    intro f hf
    rcases hmem f hf with rfl | rfl | rfl <;> rfl
  hurlsA := by decide
  hurlsNd := by decide
  hkind := rfl
  hname := rfl
  famU := famU
  hTU := by decide
  hgb := by simp [isBuiltinName]
  hgid := by decide
  hgnew := by
    intro hn
    obtain ⟨f, hf, hfn⟩ := List.mem_map.mp hn
    rcases hmem f hf with rfl | rfl | rfl <;> simp at hfn
  tumTg := by rfl

theorem fam : Fam ctx "A" "B" "Animal" "Person" "animal" "owner" fs [] hs :=
  famOf fs [] (by decide) (by decide) (by decide)
theorem famFirst : Fam ctx "A" "B" "Animal" "Person" "animal" "owner" [] fs hs :=
  famOf [] fs (by decide) (by decide) (by decide)
theorem famMid : Fam ctx "A" "B" "Animal" "Person" "animal" "owner" fsM1 fsM2 hs :=
  famOf fsM1 fsM2 (by decide) (by decide) (by decide)

theorem settingOf (fs1 fs2 : List FieldSpec) (hnne : ∀ n ∈ namesOf (fs1 ++ fs2), n ≠ "") :
    Setting ctx "A" "B" "Animal" "Person" "animal" "owner" fs1 fs2 hs svcs schemaA schemaB data entA entP where
  hq1 := by decide
  hq2 := by decide
  hqne := by decide
  hg1 := by decide
  hg2 := by decide
  hgne := by decide
  hine := by decide
  hine' := by decide
  hnne := hnne
  hnne' := by decide
  hsA := by rfl
  hsB := by rfl
  hSBT := ⟨animalT, by rfl, rfl⟩
  hSBU := ⟨personT, by rfl, rfl⟩
  hroot := by rfl
  hent := by rfl
  hty := rfl
  hgref := by rfl
  hent' := by rfl
  hty' := rfl

/-- the conclusion of the theorem for the selection `fs1 … owner … fs2` with reference answer `r₁ … owner: rg … r₂` -/
def Holds (fs1 fs2 : List FieldSpec) (r₁ r₂ rg : List (String × J)) : Prop :=
  ∃ d dg, gateway ctx {} ⟨.query, "", [], [QN "Animal" "Person" "animal" "owner" fs1 fs2 hs]⟩ none (specDownstream svcs data)
      = .ok ⟨some [("animal", .obj d)], [],
             callsN ctx "A" "B" "Animal" "Person" "animal" "owner" fs1 fs2 hs entA.id entP.id⟩
    ∧ d.Perm (r₁ ++ ("owner", .obj dg) :: r₂) ∧ dg.Perm rg

/-- the theorem applied, `owner` last: the gateway's answer for this federation is the single-server
    answer up to the order of keys under `animal` and under `owner` -/
theorem applied : Holds fs [] expected0 [] expectedOwner :=
  flat_nested_calls fam (settingOf fs [] (by decide)) expected0 [] expectedOwner rfl reference
/-- `owner` first -/
theorem appliedFirst : Holds [] fs [] expected0 expectedOwner :=
  flat_nested_calls famFirst (settingOf [] fs (by decide)) [] expected0 expectedOwner rfl referenceFirst
/-- `owner` in the middle -/
theorem appliedMid : Holds fsM1 fsM2 [("name", .str "rex")] [("age", .str "7"), ("sound", .null)] expectedOwner :=
  flat_nested_calls famMid (settingOf fsM1 fsM2 (by decide)) _ _ expectedOwner rfl referenceMid

/-! ### the model's answer, by evaluation -/

/-- data, errors and, per call, the URL and (rendering of the selection set, variables) of every request -/
def outcomeOf (fs1 fs2 hs : List FieldSpec) :
    Option (Option (List (String × J)) × List String × List (String × List (String × List (String × J)))) :=
  match gateway ctx {} ⟨.query, "", [], [QN "Animal" "Person" "animal" "owner" fs1 fs2 hs]⟩ none (specDownstream svcs data) with
  | .ok g => some (g.data, g.errors, g.calls.map (fun cl => (cl.url, cl.batch.map (fun rq => (renderSels rq.sels, rq.vars)))))
  | .error _ => none

/-- the answer as the gateway returns it: under each object `A`'s fields (the nested object among
    them, where the client put it), then `B`'s -/
def got (a1 a2 b : List (String × J)) (oa ob : List (String × J)) : Option (List (String × J)) :=
  some [("animal", .obj (a1 ++ ("owner", .obj (oa ++ ob)) :: (a2 ++ b)))]

def lookupAnimal : String × List (String × J) := ("node(id:$id){...on Animal{age } } ", [("id", .str "QW5pbWFs#1")])
def lookupPerson : String × List (String × J) := ("node(id:$id){...on Person{name city } } ", [("id", .str "UGVyc29u#7")])

-- both levels have a `B`-owned field, `age` (B's) written BEFORE `owner`: TWO calls, the second ONE
-- batch with TWO lookups (different types, different insertion points `[animal#…]` and `[animal, owner#…]`)
#guard outcomeOf fs [] hs == some (
    got [("name", .str "rex"), ("sound", .null)] [] [("age", .str "7")] [("email", .str "ann@x")] [("name", .str "ann"), ("city", .null)],
    [],
    [("A", [("animal{id name sound owner{id email } } ", [])]), ("B", [lookupAnimal, lookupPerson])])

-- `owner` written FIRST: the same answer up to key order — and the two lookups in the OTHER order
#guard outcomeOf [] fs hs == some (
    got [] [("name", .str "rex"), ("sound", .null)] [("age", .str "7")] [("email", .str "ann@x")] [("name", .str "ann"), ("city", .null)],
    [],
    [("A", [("animal{id owner{id email } name sound } ", [])]), ("B", [lookupPerson, lookupAnimal])])

-- `owner` in the middle, `B`'s `age` after it: again the lookup for the owner first
#guard outcomeOf fsM1 fsM2 hs == some (
    got [("name", .str "rex")] [("sound", .null)] [("age", .str "7")] [("email", .str "ann@x")] [("name", .str "ann"), ("city", .null)],
    [],
    [("A", [("animal{id name owner{id email } sound } ", [])]), ("B", [lookupPerson, lookupAnimal])])

-- no `B`-owned field on `Animal`: one lookup (for the owner)
#guard outcomeOf [("name", tStr, false), ("sound", tStr, false)] [] hs == some (
    got [("name", .str "rex"), ("sound", .null)] [] [] [("email", .str "ann@x")] [("name", .str "ann"), ("city", .null)],
    [],
    [("A", [("animal{id name sound owner{id email } } ", [])]), ("B", [lookupPerson])])

-- no `B`-owned field on `Person`: one lookup (for the animal)
#guard outcomeOf fs [] [("email", tStr, false)] == some (
    got [("name", .str "rex"), ("sound", .null)] [] [("age", .str "7")] [("email", .str "ann@x")] [],
    [],
    [("A", [("animal{id name sound owner{id email } } ", [])]), ("B", [lookupAnimal])])

-- `A` owns everything selected: one call
#guard outcomeOf [("name", tStr, false)] [] [("email", tStr, false)] == some (
    got [("name", .str "rex")] [] [] [("email", .str "ann@x")] [],
    [],
    [("A", [("animal{id name owner{id email } } ", [])])])

-- the plan: one root step, TWO child steps at the same depth for the same service
#guard (match plan ctx op with
  | .ok ([.mk "A" "Query" _ [] [.mk "B" "Animal" _ ["animal"] [], .mk "B" "Person" _ ["animal", "owner"] []]],
         [(["animal", "owner"], [("Person", ["id"])]), (["animal"], [("Animal", ["id"])])]) => true
  | _ => false)
-- … in the other order when `owner` is written first
#guard (match plan ctx opFirst with
  | .ok ([.mk "A" "Query" _ [] [.mk "B" "Person" _ ["animal", "owner"] [], .mk "B" "Animal" _ ["animal"] []]],
         [(["animal", "owner"], [("Person", ["id"])]), (["animal"], [("Animal", ["id"])])]) => true
  | _ => false)

end PebblesVerif.FlatNested.Example
