import PebblesVerif.Model.IndexMap
/-! The rendered map key (`strconv.Itoa(index)` / `fmt.Sprintf("!%v%v", id, hash)`) determines
the key: decimal rendering is injective, `[1 2 … 32]` is injective and contains exactly one `[`,
so the id — whatever characters it contains, `[`, `]`, `!`, digits, spaces — is recovered as
everything before the LAST `[`. -/
namespace PebblesVerif.IndexMap

/-- characters that a decimal digit is not -/
def Plain (c : Char) : Prop := c ≠ ' ' ∧ c ≠ '[' ∧ c ≠ ']' ∧ c ≠ '!'

theorem digitChar_plain (d : Nat) : Plain (digitChar d) := by
  unfold digitChar Plain
  split <;> decide

theorem digitChar_inj {a b : Nat} (ha : a < 10) (hb : b < 10) (h : digitChar a = digitChar b) : a = b := by
  have key : ∀ x y : Fin 10, digitChar x.val = digitChar y.val → x = y := by decide
  have := key ⟨a, ha⟩ ⟨b, hb⟩ h
  exact Fin.mk.inj this

theorem natDigits_lt (n : Nat) (h : n < 10) : natDigits n = [digitChar n] := by
  rw [natDigits]; simp [h]

theorem natDigits_ge (n : Nat) (h : ¬ n < 10) : natDigits n = natDigits (n / 10) ++ [digitChar (n % 10)] := by
  rw [natDigits]; simp [h]

theorem natDigits_ne_nil (n : Nat) : natDigits n ≠ [] := by
  by_cases h : n < 10
  · rw [natDigits_lt n h]; simp
  · rw [natDigits_ge n h]; simp

theorem natDigits_plain (n : Nat) : ∀ c ∈ natDigits n, Plain c := by
  induction n using Nat.strongRecOn with
  | _ n ih =>
    by_cases h : n < 10
    · rw [natDigits_lt n h]; intro c hc; simp at hc; subst hc; exact digitChar_plain n
    · rw [natDigits_ge n h]
      intro c hc
      simp only [List.mem_append, List.mem_singleton] at hc
      rcases hc with hc | hc
      · exact ih (n / 10) (by omega) c hc
      · subst hc; exact digitChar_plain _

theorem natDigits_inj : ∀ (n m : Nat), natDigits n = natDigits m → n = m := by
  intro n
  induction n using Nat.strongRecOn with
  | _ n ih =>
    intro m h
    by_cases hn : n < 10 <;> by_cases hm : m < 10
    · rw [natDigits_lt n hn, natDigits_lt m hm] at h
      exact digitChar_inj hn hm (by simpa using h)
    · rw [natDigits_lt n hn, natDigits_ge m hm] at h
      have hl := congrArg List.length h
      simp only [List.length_append, List.length_cons, List.length_nil] at hl
      have hz : natDigits (m / 10) = [] := List.length_eq_zero_iff.mp (by omega)
      exact absurd hz (natDigits_ne_nil _)
    · rw [natDigits_ge n hn, natDigits_lt m hm] at h
      have hl := congrArg List.length h
      simp only [List.length_append, List.length_cons, List.length_nil] at hl
      have hz : natDigits (n / 10) = [] := List.length_eq_zero_iff.mp (by omega)
      exact absurd hz (natDigits_ne_nil _)
    · rw [natDigits_ge n hn, natDigits_ge m hm] at h
      have h' := List.append_inj' h rfl
      have h1 := ih (n / 10) (by omega) (m / 10) h'.1
      have h2 := digitChar_inj (Nat.mod_lt _ (by omega)) (Nat.mod_lt _ (by omega)) (by simpa using h'.2)
      omega

/-- splitting at the FIRST occurrence of a separator -/
theorem split_first {α} (sep : α) : ∀ (a a' r r' : List α), sep ∉ a → sep ∉ a' →
    a ++ sep :: r = a' ++ sep :: r' → a = a' ∧ r = r'
  | [], [], _, _, _, _, h => by simp at h; exact ⟨rfl, h⟩
  | [], y :: ys, _, _, _, h2, h => by
    simp at h; exact absurd (by rw [← h.1]; exact List.mem_cons_self ..) h2
  | x :: xs, [], _, _, h1, _, h => by
    simp at h; exact absurd (by rw [h.1]; exact List.mem_cons_self ..) h1
  | x :: xs, y :: ys, r, r', h1, h2, h => by
    simp only [List.cons_append, List.cons.injEq] at h
    have := split_first sep xs ys r r' (fun hm => h1 (List.mem_cons_of_mem _ hm))
      (fun hm => h2 (List.mem_cons_of_mem _ hm)) h.2
    exact ⟨by rw [h.1, this.1], this.2⟩

/-- splitting at the LAST occurrence of a separator -/
theorem split_last {α} (sep : α) : ∀ (a a' r r' : List α), sep ∉ r → sep ∉ r' →
    a ++ sep :: r = a' ++ sep :: r' → a = a' ∧ r = r'
  | [], [], _, _, _, _, h => by simp at h; exact ⟨rfl, h⟩
  | [], y :: ys, r, r', h1, _, h => by
    simp only [List.nil_append, List.cons_append, List.cons.injEq] at h
    exact absurd (by rw [h.2]; simp) h1
  | x :: xs, [], r, r', _, h2, h => by
    simp only [List.nil_append, List.cons_append, List.cons.injEq] at h
    exact absurd (by rw [← h.2]; simp) h2
  | x :: xs, y :: ys, r, r', h1, h2, h => by
    simp only [List.cons_append, List.cons.injEq] at h
    have := split_last sep xs ys r r' h1 h2 h.2
    exact ⟨by rw [h.1, this.1], this.2⟩

theorem spaceSep_plain : ∀ (xs : List (List Char)), (∀ x ∈ xs, ∀ c ∈ x, Plain c) →
    ∀ c ∈ spaceSep xs, c ≠ '[' ∧ c ≠ ']' ∧ c ≠ '!'
  | [], _, c, hc => by simp [spaceSep] at hc
  | [a], h, c, hc => by
    simp only [spaceSep] at hc
    have := h a (by simp) c hc
    exact ⟨this.2.1, this.2.2.1, this.2.2.2⟩
  | a :: b :: rest, h, c, hc => by
    simp only [spaceSep, List.mem_append, List.mem_cons] at hc
    rcases hc with hc | hc | hc
    · have := h a (by simp) c hc
      exact ⟨this.2.1, this.2.2.1, this.2.2.2⟩
    · subst hc; decide
    · exact spaceSep_plain (b :: rest) (fun x hx => h x (List.mem_cons_of_mem _ hx)) c hc

theorem spaceSep_inj : ∀ (xs ys : List (List Char)),
    (∀ x ∈ xs, x ≠ [] ∧ ' ' ∉ x) → (∀ y ∈ ys, y ≠ [] ∧ ' ' ∉ y) → spaceSep xs = spaceSep ys → xs = ys
  | [], [], _, _, _ => rfl
  | [], [b], _, hy, h => by simp [spaceSep] at h; exact absurd h (hy b (by simp)).1
  | [], b :: c :: rest, _, hy, h => by
    simp [spaceSep] at h
  | [a], [], hx, _, h => by simp [spaceSep] at h; exact absurd h (hx a (by simp)).1
  | a :: b :: rest, [], _, _, h => by simp [spaceSep] at h
  | [a], [b], _, _, h => by simp [spaceSep] at h; rw [h]
  | [a], b :: c :: rest, hx, _, h => by
    simp only [spaceSep] at h
    exact absurd (by rw [h]; simp) (hx a (by simp)).2
  | a :: b :: rest, [c], _, hy, h => by
    simp only [spaceSep] at h
    exact absurd (by rw [← h]; simp) (hy c (by simp)).2
  | a :: b :: rest, a' :: b' :: rest', hx, hy, h => by
    simp only [spaceSep] at h
    have := split_first ' ' a a' _ _ (hx a (by simp)).2 (hy a' (by simp)).2 h
    have ih := spaceSep_inj (b :: rest) (b' :: rest') (fun x hm => hx x (List.mem_cons_of_mem _ hm))
      (fun y hm => hy y (List.mem_cons_of_mem _ hm)) this.2
    rw [this.1, ih]

theorem digits_ok (h : List Nat) : ∀ x ∈ h.map natDigits, x ≠ [] ∧ ' ' ∉ x := by
  intro x hx
  obtain ⟨n, _, rfl⟩ := List.mem_map.mp hx
  exact ⟨natDigits_ne_nil n, fun hm => (natDigits_plain n _ hm).1 rfl⟩

/-- `%v` of the hash is injective … -/
theorem showHash_inj (h h' : List Nat) (heq : showHash h = showHash h') : h = h' := by
  simp only [showHash, List.cons.injEq, true_and] at heq
  have h1 := List.append_cancel_right heq
  have h2 := spaceSep_inj _ _ (digits_ok h) (digits_ok h') h1
  exact (List.map_inj_right (fun a b hab => natDigits_inj a b hab)).mp h2

/-- … starts with `[` and contains no other `[`. -/
theorem showHash_tail (h : List Nat) : ∃ r, showHash h = '[' :: r ∧ '[' ∉ r := by
  refine ⟨spaceSep (h.map natDigits) ++ [']'], rfl, ?_⟩
  intro hm
  simp only [List.mem_append, List.mem_singleton] at hm
  rcases hm with hm | hm
  · have := spaceSep_plain (h.map natDigits) (by
      intro x hx c hc
      obtain ⟨n, _, rfl⟩ := List.mem_map.mp hx
      exact natDigits_plain n c hc) '[' hm
    exact this.1 rfl
  · exact absurd hm (by decide)

theorem render_inj (a b : Key) (h : a.render = b.render) : a = b := by
  cases a with
  | idx i =>
    cases b with
    | idx j => simp only [Key.render] at h; rw [natDigits_inj i j h]
    | node s hs =>
      simp only [Key.render] at h
      cases hd : natDigits i with
      | nil => exact absurd hd (natDigits_ne_nil i)
      | cons c cs =>
        rw [hd] at h
        simp only [List.cons.injEq] at h
        have := natDigits_plain i c (by rw [hd]; simp)
        exact absurd h.1 this.2.2.2
  | node s hs =>
    cases b with
    | idx j =>
      simp only [Key.render] at h
      cases hd : natDigits j with
      | nil => exact absurd hd (natDigits_ne_nil j)
      | cons c cs =>
        rw [hd] at h
        simp only [List.cons.injEq] at h
        have := natDigits_plain j c (by rw [hd]; simp)
        exact absurd h.1.symm this.2.2.2
    | node s' hs' =>
      simp only [Key.render, List.cons.injEq, true_and] at h
      obtain ⟨r, hr, hnr⟩ := showHash_tail hs
      obtain ⟨r', hr', hnr'⟩ := showHash_tail hs'
      rw [hr, hr'] at h
      have := split_last '[' _ _ _ _ hnr hnr' h
      have hs1 : s = s' := String.toList_inj.mp this.1
      have hs2 : hs = hs' := showHash_inj hs hs' (by rw [hr, hr', this.2])
      rw [hs1, hs2]

end PebblesVerif.IndexMap
