import PebblesVerif.Model.IndexMap
/-! Loop invariant of the de-duplication loop of `executeRequests`, and the fan-out. -/
namespace PebblesVerif.IndexMap

variable {K : Type} [DecidableEq K]

theorem lt_of_getElem?_eq_some {α} {l : List α} {i : Nat} {a : α} (h : l[i]? = some a) :
    i < l.length := by
  rcases Nat.lt_or_ge i l.length with h' | h'
  · exact h'
  · rw [List.getElem?_eq_none h'] at h; cases h

theorem get_snoc_eq_some {α} (pre : List α) (x y : α) (i : Nat) :
    (pre ++ [x])[i]? = some y ↔ pre[i]? = some y ∨ (i = pre.length ∧ x = y) := by
  rcases Nat.lt_trichotomy i pre.length with h | h | h
  · rw [List.getElem?_append_left h]
    constructor
    · exact Or.inl
    · rintro (h' | ⟨h', _⟩)
      · exact h'
      · omega
  · subst h
    rw [List.getElem?_append_right (Nat.le_refl _)]
    simp
  · rw [List.getElem?_append_right (Nat.le_of_lt h)]
    have h1 : pre[i]? = none := List.getElem?_eq_none (Nat.le_of_lt h)
    have h2 : ([x] : List α)[i - pre.length]? = none := by
      apply List.getElem?_eq_none; simp; omega
    rw [h1, h2]
    constructor
    · intro h'; cases h'
    · rintro (h' | ⟨h', _⟩)
      · cases h'
      · omega

/-- request `i` is not skipped and is the first one with its key -/
def IsFirst (ks : List (Option K)) (i : Nat) : Prop :=
  ∃ k, ks[i]? = some (some k) ∧ ∀ j, j < i → ks[j]? ≠ some (some k)

omit [DecidableEq K] in
theorem IsFirst.lt {ks : List (Option K)} {i : Nat} (h : IsFirst ks i) : i < ks.length := by
  obtain ⟨k, hk, _⟩ := h; exact lt_of_getElem?_eq_some hk

omit [DecidableEq K] in
theorem isFirst_snoc (pre : List (Option K)) (x : Option K) (i : Nat) :
    IsFirst (pre ++ [x]) i ↔ IsFirst pre i ∨ (i = pre.length ∧ ∃ k, x = some k ∧ some k ∉ pre) := by
  constructor
  · rintro ⟨k, hk, hmin⟩
    rw [get_snoc_eq_some] at hk
    rcases hk with hk | ⟨hi, hx⟩
    · left
      refine ⟨k, hk, ?_⟩
      intro j hj hj'
      exact hmin j hj ((get_snoc_eq_some ..).mpr (Or.inl hj'))
    · right
      refine ⟨hi, k, hx, ?_⟩
      intro hmem
      obtain ⟨j, hj⟩ := List.mem_iff_getElem?.mp hmem
      have hlt := lt_of_getElem?_eq_some hj
      exact hmin j (by omega) ((get_snoc_eq_some ..).mpr (Or.inl hj))
  · rintro (⟨k, hk, hmin⟩ | ⟨hi, k, hx, hnot⟩)
    · refine ⟨k, (get_snoc_eq_some ..).mpr (Or.inl hk), ?_⟩
      intro j hj hj'
      rw [get_snoc_eq_some] at hj'
      rcases hj' with hj' | ⟨hj', _⟩
      · exact hmin j hj hj'
      · have := lt_of_getElem?_eq_some hk; omega
    · refine ⟨k, (get_snoc_eq_some ..).mpr (Or.inr ⟨hi, hx⟩), ?_⟩
      intro j hj hj'
      rw [get_snoc_eq_some] at hj'
      rcases hj' with hj' | ⟨hj', _⟩
      · exact hnot (List.mem_iff_getElem?.mpr ⟨j, hj'⟩)
      · omega

structure LInv (pre : List (Option K)) (st : LoopSt K) : Prop where
  batchMem : ∀ i, i ∈ st.batch ↔ IsFirst pre i
  batchSorted : st.batch.Pairwise (· < ·)
  len : st.imap.length = st.batch.length
  tie : ∀ (t : Nat) (e : Entry K) (i : Nat), st.imap[t]? = some e → st.batch[t]? = some i →
    pre[i]? = some (some e.key)
  target : ∀ (t : Nat) (e : Entry K), st.imap[t]? = some e → e.target = t
  keysNodup : (st.imap.map (·.key)).Nodup
  keysMem : ∀ k, k ∈ st.imap.map (·.key) ↔ some k ∈ pre
  idxs : ∀ e ∈ st.imap, ∀ i, i ∈ e.idxs ↔ pre[i]? = some (some e.key)
  skipped : ∀ i, i ∈ st.skipped ↔ pre[i]? = some none

omit [DecidableEq K] in
theorem linv_init : LInv ([] : List (Option K)) ⟨[], [], []⟩ := by
  refine ⟨?_, by simp, rfl, by simp, by simp, by simp, by simp, by simp, by simp⟩
  intro i
  simp only [List.not_mem_nil, false_iff]
  rintro ⟨k, hk, _⟩
  simp at hk

theorem any_key_iff (m : List (Entry K)) (k : K) :
    m.any (fun e => decide (e.key = k)) = true ↔ k ∈ m.map (·.key) := by
  simp only [List.any_eq_true, decide_eq_true_eq, List.mem_map]

/-- the in-place update of `Set` for an existing value -/
def bump (k : K) (index : Nat) (e : Entry K) : Entry K :=
  if e.key = k then { e with idxs := e.idxs ++ [index] } else e

theorem bump_key (k : K) (index : Nat) (e : Entry K) : (bump k index e).key = e.key := by
  unfold bump; split <;> rfl

theorem bump_target (k : K) (index : Nat) (e : Entry K) : (bump k index e).target = e.target := by
  unfold bump; split <;> rfl

theorem map_bump_keys (k : K) (index : Nat) (m : List (Entry K)) :
    (m.map (bump k index)).map (·.key) = m.map (·.key) := by
  rw [List.map_map]; apply List.map_congr_left; intro e _; exact bump_key k index e

theorem linv_step {pre : List (Option K)} {st : LoopSt K} (h : LInv pre st) (x : Option K) :
    LInv (pre ++ [x]) (loopStep st pre.length x) := by
  have hbl : ∀ i ∈ st.batch, i < pre.length := fun i hi => ((h.batchMem i).mp hi).lt
  cases x with
  | none =>
    refine ⟨?_, h.batchSorted, h.len, ?_, h.target, h.keysNodup, ?_, ?_, ?_⟩
    · intro i
      simp only [loopStep]
      rw [h.batchMem, isFirst_snoc]
      constructor
      · exact Or.inl
      · rintro (h' | ⟨_, k, hk, _⟩)
        · exact h'
        · cases hk
    · intro t e i he hi
      rw [get_snoc_eq_some]; exact Or.inl (h.tie t e i he hi)
    · intro k
      simp only [loopStep]
      rw [h.keysMem k]; simp
    · intro e he i
      simp only [loopStep] at he
      rw [h.idxs e he i, get_snoc_eq_some]
      constructor
      · exact Or.inl
      · rintro (h' | ⟨_, h'⟩)
        · exact h'
        · cases h'
    · intro i
      simp only [loopStep, List.mem_append, List.mem_singleton]
      rw [h.skipped i, get_snoc_eq_some]
      constructor
      · rintro (h' | h')
        · exact Or.inl h'
        · exact Or.inr ⟨h', rfl⟩
      · rintro (h' | ⟨h', _⟩)
        · exact Or.inl h'
        · exact Or.inr h'
  | some k =>
    by_cases hany : st.imap.any (fun e => decide (e.key = k)) = true
    · -- a value already in the map: only its index list grows
      have hk : k ∈ st.imap.map (·.key) := (any_key_iff _ _).mp hany
      have hpre : some k ∈ pre := (h.keysMem k).mp hk
      have hst : loopStep st pre.length (some k) = { st with imap := st.imap.map (bump k pre.length) } := by
        simp only [loopStep, setKey, hany, if_true]
        rfl
      rw [hst]
      refine ⟨?_, h.batchSorted, by simpa using h.len, ?_, ?_, ?_, ?_, ?_, ?_⟩
      · intro i
        rw [h.batchMem, isFirst_snoc]
        constructor
        · exact Or.inl
        · rintro (h' | ⟨_, k', hk', hnot⟩)
          · exact h'
          · cases hk'; exact absurd hpre hnot
      · intro t e i he hi
        simp only [List.getElem?_map] at he
        cases he' : st.imap[t]? with
        | none => simp [he'] at he
        | some e0 =>
          simp [he'] at he; subst he
          rw [bump_key, get_snoc_eq_some]; exact Or.inl (h.tie t e0 i he' hi)
      · intro t e he
        simp only [List.getElem?_map] at he
        cases he' : st.imap[t]? with
        | none => simp [he'] at he
        | some e0 =>
          simp [he'] at he; subst he
          rw [bump_target]; exact h.target t e0 he'
      · simp only; rw [map_bump_keys]; exact h.keysNodup
      · intro k'
        simp only; rw [map_bump_keys, h.keysMem k']
        simp only [List.mem_append, List.mem_singleton, Option.some.injEq]
        constructor
        · exact Or.inl
        · rintro (h' | h')
          · exact h'
          · subst h'; exact hpre
      · intro e he i
        simp only [List.mem_map] at he
        obtain ⟨e0, he0, rfl⟩ := he
        rw [bump_key, get_snoc_eq_some]
        unfold bump
        by_cases hk0 : e0.key = k
        · simp only [hk0, if_true, List.mem_append, List.mem_singleton]
          have := h.idxs e0 he0 i
          rw [hk0] at this
          rw [this]
          constructor
          · rintro (h' | h')
            · exact Or.inl h'
            · exact Or.inr ⟨h', trivial⟩
          · rintro (h' | ⟨h', _⟩)
            · exact Or.inl h'
            · exact Or.inr h'
        · simp only [hk0, if_false]
          rw [h.idxs e0 he0 i]
          constructor
          · exact Or.inl
          · rintro (h' | ⟨_, h'⟩)
            · exact h'
            · exact absurd (Option.some.inj h').symm hk0
      · intro i
        rw [h.skipped i, get_snoc_eq_some]
        constructor
        · exact Or.inl
        · rintro (h' | ⟨_, h'⟩)
          · exact h'
          · cases h'
    · -- a new value: new entry with targetIndex = len(iMap), request appended to the batch
      have hk : k ∉ st.imap.map (·.key) := fun hk => hany ((any_key_iff _ _).mpr hk)
      have hpre : some k ∉ pre := fun hp => hk ((h.keysMem k).mpr hp)
      have hst : loopStep st pre.length (some k) =
          { st with imap := st.imap ++ [⟨k, st.imap.length, [pre.length]⟩], batch := st.batch ++ [pre.length] } := by
        simp only [loopStep, setKey, hany]
        rfl
      rw [hst]
      refine ⟨?_, ?_, by simp [h.len], ?_, ?_, ?_, ?_, ?_, ?_⟩
      · intro i
        simp only [List.mem_append, List.mem_singleton]
        rw [h.batchMem, isFirst_snoc]
        constructor
        · rintro (h' | h')
          · exact Or.inl h'
          · exact Or.inr ⟨h', k, rfl, hpre⟩
        · rintro (h' | ⟨h', _⟩)
          · exact Or.inl h'
          · exact Or.inr h'
      · simp only
        rw [List.pairwise_append]
        refine ⟨h.batchSorted, by simp, ?_⟩
        intro a ha b hb
        simp at hb; subst hb
        exact hbl a ha
      · intro t e i he hi
        simp only at he hi
        rw [get_snoc_eq_some] at he hi
        rw [get_snoc_eq_some]
        rcases he with he | ⟨ht, he⟩
        · rcases hi with hi | ⟨ht', _⟩
          · exact Or.inl (h.tie t e i he hi)
          · have := lt_of_getElem?_eq_some he; rw [h.len] at this; omega
        · rcases hi with hi | ⟨_, hi⟩
          · have := lt_of_getElem?_eq_some hi; rw [h.len] at ht; omega
          · subst he; subst hi; exact Or.inr ⟨rfl, rfl⟩
      · intro t e he
        simp only at he
        rw [get_snoc_eq_some] at he
        rcases he with he | ⟨ht, he⟩
        · exact h.target t e he
        · subst he; exact ht.symm
      · simp only [List.map_append, List.map_cons, List.map_nil]
        rw [List.nodup_append]
        refine ⟨h.keysNodup, by simp, ?_⟩
        intro a ha b hb
        simp at hb; subst hb
        intro hab; subst hab; exact hk ha
      · intro k'
        simp only [List.map_append, List.map_cons, List.map_nil, List.mem_append, List.mem_singleton,
          Option.some.injEq]
        rw [h.keysMem k']
      · intro e he i
        simp only [List.mem_append, List.mem_singleton] at he
        rw [get_snoc_eq_some]
        rcases he with he | he
        · rw [h.idxs e he i]
          constructor
          · exact Or.inl
          · rintro (h' | ⟨_, h'⟩)
            · exact h'
            · exfalso; apply hk
              rw [Option.some.inj h']
              exact List.mem_map.mpr ⟨e, he, rfl⟩
        · subst he
          simp only [List.mem_singleton]
          constructor
          · intro h'; exact Or.inr ⟨h', trivial⟩
          · rintro (h' | ⟨h', _⟩)
            · exact absurd (List.mem_iff_getElem?.mpr ⟨i, h'⟩) hpre
            · exact h'
      · intro i
        rw [h.skipped i, get_snoc_eq_some]
        constructor
        · exact Or.inl
        · rintro (h' | ⟨_, h'⟩)
          · exact h'
          · cases h'

theorem linv_loop (rest : List (Option K)) (pre : List (Option K)) (st : LoopSt K) (h : LInv pre st) :
    LInv (pre ++ rest) (loop rest pre.length st) := by
  induction rest generalizing pre st with
  | nil => simpa [loop] using h
  | cons x xs ih =>
    have h1 := linv_step h x
    have h2 := ih (pre ++ [x]) _ h1
    simp only [List.length_append, List.length_cons, List.length_nil, List.append_assoc,
      List.singleton_append] at h2
    simpa [loop] using h2

theorem linv_build (ks : List (Option K)) : LInv ks (build ks) := by
  have := linv_loop ks [] ⟨[], [], []⟩ linv_init
  simpa [build] using this

end PebblesVerif.IndexMap

namespace PebblesVerif.IndexMap

variable {K : Type} [DecidableEq K]

/-! ## Fan-out -/

theorem setAll_spec {α} (v : α) (idxs : List Nat) (acc : List (Option α))
    (hb : ∀ i ∈ idxs, i < acc.length) :
    ∃ out, setAll acc v idxs = .ok out ∧ out.length = acc.length ∧
      ∀ i, out[i]? = if i ∈ idxs then some (some v) else acc[i]? := by
  induction idxs generalizing acc with
  | nil => exact ⟨acc, rfl, rfl, by simp⟩
  | cons ind rest ih =>
    have hlt : ind < acc.length := hb ind (List.mem_cons_self ..)
    obtain ⟨out, ho, hl, hg⟩ := ih (acc.set ind (some v)) (by
      intro i hi; rw [List.length_set]; exact hb i (List.mem_cons_of_mem _ hi))
    refine ⟨out, ?_, by rw [hl, List.length_set], ?_⟩
    · simp only [setAll, setChecked, hlt, if_true]
      exact ho
    · intro i
      rw [hg i]
      by_cases hir : i ∈ rest
      · simp [hir]
      · simp only [hir, if_false, List.mem_cons, or_false]
        rw [List.getElem?_set]
        by_cases hii : ind = i
        · subst hii; simp [hlt]
        · have : ¬ i = ind := fun h => hii h.symm
          simp [hii, this]

omit [DecidableEq K] in
theorem find_target (l : List (Entry K)) (off t : Nat)
    (h : ∀ (t : Nat) (e : Entry K), l[t]? = some e → e.target = off + t) :
    l.find? (fun e => e.target == off + t) = l[t]? := by
  induction l generalizing off t with
  | nil => rfl
  | cons x xs ih =>
    have hx : x.target = off + 0 := h 0 x (by simp)
    cases t with
    | zero => simp [List.find?, hx]
    | succ t =>
      have hne : (x.target == off + (t + 1)) = false := by
        simp only [beq_eq_false_iff_ne, ne_eq]; omega
      simp only [List.find?, hne, List.getElem?_cons_succ]
      have := ih (off + 1) t (by
        intro t' e he
        have := h (t' + 1) e (by simpa using he)
        omega)
      rw [← this]
      congr 1
      funext e
      congr 1
      omega

omit [DecidableEq K] in
theorem getSame_spec (m : List (Entry K)) (htarget : ∀ (t : Nat) (e : Entry K), m[t]? = some e → e.target = t)
    (t : Nat) : getSame m t = (m[t]?).map (·.idxs) := by
  unfold getSame
  have := find_target m 0 t (by intro t e he; simpa using htarget t e he)
  simp only [Nat.zero_add] at this
  rw [this]

omit [DecidableEq K] in
theorem fanout_spec {α} (m : List (Entry K)) (n : Nat)
    (hdisj : ∀ (t t' : Nat) (e e' : Entry K) (i : Nat), m[t]? = some e → m[t']? = some e' →
      i ∈ e.idxs → i ∈ e'.idxs → t = t')
    (hbound : ∀ e ∈ m, ∀ i ∈ e.idxs, i < n)
    (hne : ∀ e ∈ m, e.idxs ≠ [])
    (htarget : ∀ (t : Nat) (e : Entry K), m[t]? = some e → e.target = t) :
    ∀ (rs : List α) (t : Nat) (acc : List (Option α)), t + rs.length = m.length → acc.length = n →
      ∃ out, fanout m t rs acc = .ok out ∧ out.length = n ∧
        (∀ (t' : Nat) (e : Entry K) (i : Nat), t ≤ t' → m[t']? = some e → i ∈ e.idxs →
          out[i]? = some (rs[t' - t]?)) ∧
        (∀ i, (∀ (t' : Nat) (e : Entry K), t ≤ t' → m[t']? = some e → i ∉ e.idxs) → out[i]? = acc[i]?) := by
  intro rs
  induction rs with
  | nil =>
    intro t acc ht hacc
    refine ⟨acc, rfl, hacc, ?_, fun _ _ => rfl⟩
    intro t' e i hle he _
    have := lt_of_getElem?_eq_some he
    simp at ht; omega
  | cons r rs ih =>
    intro t acc ht hacc
    have htlt : t < m.length := by simp at ht; omega
    have het : m[t]? = some m[t] := List.getElem?_eq_getElem htlt
    have hmem : m[t] ∈ m := List.getElem_mem htlt
    have hgs : getSame m t = some m[t].idxs := by rw [getSame_spec m htarget, het]; rfl
    obtain ⟨acc', ha, hal, hag⟩ := setAll_spec r m[t].idxs acc (by
      intro i hi; rw [hacc]; exact hbound _ hmem i hi)
    obtain ⟨out, ho, hol, h1, h2⟩ := ih (t + 1) acc' (by simp at ht ⊢; omega) (by rw [hal, hacc])
    have hfan : fanout m t (r :: rs) acc = .ok out := by
      cases hid : m[t].idxs with
      | nil => exact absurd hid (hne _ hmem)
      | cons a l =>
        simp only [fanout, hgs, hid]
        rw [hid] at ha
        simp only [ha]
        exact ho
    refine ⟨out, hfan, hol, ?_, ?_⟩
    · intro t' e i hle he hi
      rcases Nat.eq_or_lt_of_le hle with heq | hlt
      · subst heq
        rw [het] at he; cases he
        have hnot : ∀ (t'' : Nat) (e' : Entry K), t + 1 ≤ t'' → m[t'']? = some e' → i ∉ e'.idxs := by
          intro t'' e' hle' he' hi'
          have := hdisj t t'' _ e' i het he' hi hi'
          omega
        rw [h2 i hnot, hag i]
        simp [hi]
      · rw [h1 t' e i (by omega) he hi]
        have : t' - t = (t' - (t + 1)) + 1 := by omega
        rw [this, List.getElem?_cons_succ]
    · intro i hno
      rw [h2 i (fun t' e hle he => hno t' e (by omega) he), hag i]
      have : i ∉ m[t].idxs := hno t _ (Nat.le_refl _) het
      simp [this]

/-- **Specification of `execute`** (the de-duplicating batch + fan-out), for every list of
    per-request keys: if the downstream answers the batch with a list of the batch's length,
    then every request slot is filled: a skipped request with the synthetic `{node: nil}`, any
    other request with the answer at the batch position of the FIRST request carrying its key. -/
theorem execute_spec {α} (ks : List (Option K)) (query : List Nat → Except String (List α)) (nullNode : α)
    (resps : List α) (hq : query (build ks).batch = .ok resps) (hlen : resps.length = (build ks).batch.length) :
    ∃ out, execute ks query nullNode = .ok out ∧ out.length = ks.length ∧
      (∀ (i : Nat), ks[i]? = some none → out[i]? = some (some nullNode)) ∧
      (∀ (i : Nat) (k : K), ks[i]? = some (some k) →
        ∃ (t j : Nat), (build ks).batch[t]? = some j ∧ ks[j]? = some (some k) ∧ IsFirst ks j ∧ t < resps.length
          ∧ out[i]? = some (resps[t]?)) := by
  have hinv := linv_build ks
  generalize hst : build ks = st at *
  have hdisj : ∀ (t t' : Nat) (e e' : Entry K) (i : Nat), st.imap[t]? = some e → st.imap[t']? = some e' →
      i ∈ e.idxs → i ∈ e'.idxs → t = t' := by
    intro t t' e e' i he he' hi hi'
    have h1 := (hinv.idxs e (List.mem_of_getElem? he) i).mp hi
    have h2 := (hinv.idxs e' (List.mem_of_getElem? he') i).mp hi'
    rw [h1] at h2
    have hkey : e.key = e'.key := Option.some.inj (Option.some.inj h2)
    have hn := hinv.keysNodup
    have hlt := lt_of_getElem?_eq_some he
    have hlt' := lt_of_getElem?_eq_some he'
    have g1 : (st.imap.map (·.key))[t]? = some e.key := by simp [he]
    have g2 : (st.imap.map (·.key))[t']? = some e.key := by simp [he', hkey]
    exact (List.getElem?_inj (by simpa using hlt) hn).mp (g1.trans g2.symm)
  have hbound : ∀ e ∈ st.imap, ∀ i ∈ e.idxs, i < ks.length := by
    intro e he i hi
    exact lt_of_getElem?_eq_some ((hinv.idxs e he i).mp hi)
  have hne : ∀ e ∈ st.imap, e.idxs ≠ [] := by
    intro e he hnil
    have hk : e.key ∈ st.imap.map (·.key) := List.mem_map.mpr ⟨e, he, rfl⟩
    obtain ⟨i, hi⟩ := List.mem_iff_getElem?.mp ((hinv.keysMem e.key).mp hk)
    have := (hinv.idxs e he i).mpr hi
    rw [hnil] at this; cases this
  obtain ⟨out1, ho1, hl1, hA, hB⟩ := fanout_spec st.imap ks.length hdisj hbound hne hinv.target resps 0
    (List.replicate ks.length none) (by rw [hinv.len, hlen]; omega) (by simp)
  obtain ⟨out, ho, hl, hg⟩ := setAll_spec nullNode st.skipped out1 (by
    intro i hi; rw [hl1]; exact lt_of_getElem?_eq_some ((hinv.skipped i).mp hi))
  refine ⟨out, ?_, by rw [hl, hl1], ?_, ?_⟩
  · unfold execute
    simp only [hst, hq]
    rw [if_neg (by rw [hlen]; simp)]
    simp only [ho1]
    exact ho
  · intro i hi
    rw [hg i]
    simp [(hinv.skipped i).mpr hi]
  · intro i k hi
    have hns : i ∉ st.skipped := fun h => by
      have := (hinv.skipped i).mp h; rw [hi] at this; cases this
    -- the entry with key k
    have hk : k ∈ st.imap.map (·.key) := (hinv.keysMem k).mpr (List.mem_iff_getElem?.mpr ⟨i, hi⟩)
    obtain ⟨e, he, hek⟩ := List.mem_map.mp hk
    obtain ⟨t, ht⟩ := List.mem_iff_getElem?.mp he
    have htlt := lt_of_getElem?_eq_some ht
    have hbt : t < st.batch.length := by rw [← hinv.len]; exact htlt
    have hj : st.batch[t]? = some st.batch[t] := List.getElem?_eq_getElem hbt
    have hjk := hinv.tie t e _ ht hj
    rw [hek] at hjk
    refine ⟨t, st.batch[t], hj, hjk, (hinv.batchMem _).mp (List.getElem_mem hbt), by omega, ?_⟩
    rw [hg i]
    simp only [hns, if_false]
    have hie : i ∈ e.idxs := (hinv.idxs e he i).mpr (by rw [hek]; exact hi)
    have := hA t e i (Nat.zero_le _) ht hie
    simpa using this

end PebblesVerif.IndexMap
