import PebblesVerif.Model.InsertionPoints
/-! `FindInsertionPoints` (as modelled) does not panic once the bounds guard is present. -/
namespace PebblesVerif.IP
open PebblesVerif PebblesVerif.QB PebblesVerif.Errors
open PebblesVerif.Gen.QueryBatchFacts (Facts)

theorem extractID_no_panic (o : Obj) (w : String) : extractID o ≠ .error (.panic w) := by
  unfold extractID
  split
  · simp
  · split <;> simp [ferr]

theorem entryGo_no_panic (rec : Obj → List String → G (List (List String))) (w : String)
    (hrec : ∀ o b, rec o b ≠ .error (.panic w)) (pts : List (List String)) (o : Obj) (b : List String) :
    entryGo rec pts o b ≠ .error (some (.panic w)) := by
  unfold entryGo
  split
  · rename_i flt h
    intro h'
    cases h'
    exact hrec _ _ h
  · simp

theorem entryStep_no_panic (sk : Bool) (point : String) (last : Bool) (branch : List String)
    (rec : Obj → List String → G (List (List String))) (w : String)
    (hrec : ∀ o b, rec o b ≠ .error (.panic w)) (acc : R) (xi : J × Nat)
    (hacc : acc ≠ .error (some (.panic w))) :
    entryStep sk point last branch rec acc xi ≠ .error (some (.panic w)) := by
  unfold entryStep
  cases acc with
  | error e => simpa using hacc
  | ok pts =>
    simp only
    cases hx : xi.1 with
    | obj o =>
      simp only
      cases last
      · simpa using entryGo_no_panic rec w hrec pts o _
      · simp only [↓reduceIte]
        cases hid : extractID o with
        | error flt =>
          simp only
          intro h'; cases h'
          exact extractID_no_panic o w hid
        | ok oid =>
          cases oid with
          | none => simp
          | some id => cases id <;> first | (simp; done) | exact entryGo_no_panic rec w hrec pts o _
    | null => simp only; split <;> simp [ferr]
    | bool b => simp [ferr]
    | num n => simp [ferr]
    | str s => simp [ferr]
    | arr xs => simp [ferr]

theorem foldl_entryStep_no_panic (sk : Bool) (point : String) (last : Bool) (branch : List String)
    (rec : Obj → List String → G (List (List String))) (w : String)
    (hrec : ∀ o b, rec o b ≠ .error (.panic w)) :
    ∀ (xs : List (J × Nat)) (acc : R), acc ≠ .error (some (.panic w)) →
      xs.foldl (entryStep sk point last branch rec) acc ≠ .error (some (.panic w)) := by
  intro xs
  induction xs with
  | nil => intro acc h; simpa using h
  | cons x xs ih =>
    intro acc h
    simp only [List.foldl_cons]
    exact ih _ (entryStep_no_panic sk point last branch rec w hrec acc x h)

theorem finish_no_panic (r : R) (w : String) (h : r ≠ .error (some (.panic w))) : finish r ≠ .error (.panic w) := by
  cases r with
  | ok p => simp [finish]
  | error e =>
    cases e with
    | none => simp [finish]
    | some flt => simp only [finish]; intro h'; cases h'; exact h rfl

theorem lastNonList_no_panic (f : Facts) (hg : f.rootListGuard = true) (point : String) (branch : List String) (v : J)
    (w : String) : lastNonList f point branch v ≠ .error (.panic w) := by
  unfold lastNonList
  cases v with
  | arr xs =>
    simp only
    split
    · simp [hg, ferr]
    · rename_i o _
      cases hid : extractID o with
      | error flt => simp only; intro h'; cases h'; exact extractID_no_panic o w hid
      | ok oid => cases oid with
        | none => simp
        | some id => cases id <;> simp
    · simp [ferr]
  | obj o =>
    simp only
    cases hid : extractID o with
    | error flt => simp only; intro h'; cases h'; exact extractID_no_panic o w hid
    | ok oid => cases oid with
      | none => simp
      | some id => cases id <;> simp
  | null => simp [ferr]
  | bool b => simp [ferr]
  | num n => simp [ferr]
  | str s => simp [ferr]

theorem fip_no_panic (f : Facts) (hg : f.rootListGuard = true) (w : String) :
    ∀ (rest : List String) (sel : List Sel) (chunk : Obj) (branch : List String),
      fip f rest sel chunk branch ≠ .error (.panic w) := by
  intro rest
  induction rest with
  | nil => intro sel chunk branch; simp [fip]
  | cons point rest ih =>
    intro sel chunk branch
    unfold fip
    split
    · simp
    · rename_i fd _
      split
      · simp
      · split <;> simp [ferr]
      · split
        · split
          · apply finish_no_panic
            apply foldl_entryStep_no_panic
            · intro o b; exact ih _ _ _
            · simp
          · simp [ferr]
        · split
          · exact lastNonList_no_panic f hg point branch _ w
          · exact ih _ _ _

end PebblesVerif.IP
