import PebblesVerif.Proofs.IntrospectBasic
import PebblesVerif.Proofs.IntrospectSort
import PebblesVerif.Spec.IntrospectSupported
/-!
Helper lemmas for C16 (2): the resolver model against the specification, by mutual induction on
the selection set.
-/
namespace PebblesVerif
open PebblesVerif.Spec PebblesVerif.Model.Introspect

/-! ### the specification's projection -/

mutual
  theorem keys_sel1 (doc : J) (vars : List (String × J)) (v : J) : (s : ISel) → keysOf (sel1 doc vars v s) = ISel.keys1 s
    | .inline sub => by simp only [sel1, ISel.keys1]; exact keys_selL doc vars v sub
    | .field a n args sub => by simp [sel1, ISel.keys1, keysOf]
  theorem keys_selL (doc : J) (vars : List (String × J)) (v : J) : (sels : List ISel) → keysOf (selL doc vars v sels) = ISel.keys sels
    | [] => rfl
    | s :: rest => by simp only [selL, ISel.keys, keysOf_append, keys_sel1 doc vars v s, keys_selL doc vars v rest]
end

theorem docTypes_introspect (S : Schema) : docTypes (introspect S) = S.types.map (fullType S) := by
  simp [docTypes, introspect, schemaJ, J.get?, J.lookup, tn]

theorem nameIs_fullType (S : Schema) (n : String) (td : TypeDef) : nameIs n (fullType S td) = (td.name == n) := by
  simp [nameIs, fullType, J.get?, J.lookup, tn]

theorem findType_introspect (S : Schema) (n : String) :
    findType (introspect S) n = match S.type? n with | some td => fullType S td | none => .null := by
  unfold findType Schema.type?
  rw [docTypes_introspect]
  induction S.types with
  | nil => rfl
  | cons td rest ih =>
    simp only [List.map_cons, List.find?_cons, nameIs_fullType]
    cases h : td.name == n
    · simpa using ih
    · simp

/-! ### which names `child` supports in each context -/

theorem child_root {n : String} {r : Option Ctx} (h : child .root n = some r) :
    (n = "__schema" ∧ r = some .schema) ∨ (n = "__type" ∧ r = some .type) := by
  unfold child at h
  split at h <;> simp_all

theorem child_schema {n : String} {r : Option Ctx} (h : child .schema n = some r) :
    (n = "types" ∧ r = some .type) ∨ (n = "queryType" ∧ r = some .type) ∨ (n = "mutationType" ∧ r = some .type) ∨ (n = "subscriptionType" ∧ r = some .type) ∨ (n = "directives" ∧ r = some .directive) := by
  unfold child at h
  split at h <;> simp_all

theorem child_type {n : String} {r : Option Ctx} (h : child .type n = some r) :
    (n = "kind" ∧ r = none) ∨ (n = "name" ∧ r = none) ∨ (n = "description" ∧ r = none) ∨ (n = "fields" ∧ r = some .field) ∨ (n = "interfaces" ∧ r = some .type) ∨ (n = "possibleTypes" ∧ r = some .type) ∨ (n = "enumValues" ∧ r = some .enum) ∨ (n = "inputFields" ∧ r = some .input) ∨ (n = "ofType" ∧ r = some .type) := by
  unfold child at h
  split at h <;> simp_all

theorem child_field {n : String} {r : Option Ctx} (h : child .field n = some r) :
    (n = "name" ∧ r = none) ∨ (n = "description" ∧ r = none) ∨ (n = "args" ∧ r = some .input) ∨ (n = "type" ∧ r = some .type) ∨ (n = "isDeprecated" ∧ r = none) ∨ (n = "deprecationReason" ∧ r = none) := by
  unfold child at h
  split at h <;> simp_all

theorem child_input {n : String} {r : Option Ctx} (h : child .input n = some r) :
    (n = "name" ∧ r = none) ∨ (n = "description" ∧ r = none) ∨ (n = "type" ∧ r = some .type) ∨ (n = "defaultValue" ∧ r = none) := by
  unfold child at h
  split at h <;> simp_all

theorem child_enum {n : String} {r : Option Ctx} (h : child .enum n = some r) :
    (n = "name" ∧ r = none) ∨ (n = "description" ∧ r = none) ∨ (n = "isDeprecated" ∧ r = none) ∨ (n = "deprecationReason" ∧ r = none) := by
  unfold child at h
  split at h <;> simp_all

theorem child_directive {n : String} {r : Option Ctx} (h : child .directive n = some r) :
    (n = "name" ∧ r = none) ∨ (n = "description" ∧ r = none) ∨ (n = "locations" ∧ r = none) ∨ (n = "args" ∧ r = some .input) := by
  unfold child at h
  split at h <;> simp_all

/-! ### deprecation: the resolver against the specification -/

theorem hasDeprecated_fst (ds : List DirUse) : (hasDeprecated ds).1 = (deprecation ds).isSome := by
  unfold hasDeprecated deprecation
  cases hd : ds.find? (fun d => d.name == "deprecated") with
  | none => simp
  | some d => cases ha : d.args.find? (fun a => a.1 == "reason") <;> simp [ha]

theorem hasDeprecated_snd {ds : List DirUse} (h : reasonOK ds = true) : (hasDeprecated ds).2 = Spec.optStr (deprecation ds) := by
  unfold hasDeprecated deprecation
  unfold reasonOK at h
  cases hd : ds.find? (fun d => d.name == "deprecated") with
  | none => simp [Spec.optStr]
  | some d =>
    rw [hd] at h
    cases ha : d.args.find? (fun a => a.1 == "reason") with
    | none => simp [ha] at h
    | some a => simp [Spec.optStr, ha]

theorem ok1_leaf {c : Ctx} {a n : String} {args : List (String × IVal)} {sub : List ISel}
    (h : ok1 c (.field a n args sub) = true) (hc : child c n = some none) : sub = [] := by
  unfold ok1 at h
  rw [hc] at h
  simpa using h

theorem ok1_comp {c c' : Ctx} {a n : String} {args : List (String × IVal)} {sub : List ISel}
    (h : ok1 c (.field a n args sub) = true) (hc : child c n = some (some c')) :
    sub ≠ [] ∧ okL c' sub = true ∧ (ISel.keys sub).Nodup ∧ (isMapList c n = true → hasName sub = true) := by
  unfold ok1 at h
  rw [hc] at h
  simp only [Bool.and_eq_true, Bool.not_eq_true', List.isEmpty_eq_false_iff, decide_eq_true_eq, Bool.or_eq_true] at h
  refine ⟨h.1.1.1, h.1.1.2, h.1.2, ?_⟩
  intro hm
  rcases h.2 with h2 | h2
  · rw [hm] at h2; cases h2
  · exact h2

/-! ### enum values -/

mutual
  theorem enumP1_eq (doc : J) (vars : List (String × J)) (e : EnumVal) (hr : reasonOK e.directives = true) :
      (s : ISel) → ok1 .enum s = true → enumP1 e s = sel1 doc vars (enumJ e) s
    | .inline sub, h => by
      simp only [enumP1, sel1]
      exact enumP_eq doc vars e hr sub (by simpa [ok1] using h)
    | .field a n args sub, h => by
      have hc : ∃ r, child .enum n = some r := by
        unfold ok1 at h; split at h <;> simp_all
      obtain ⟨r, hc⟩ := hc
      rcases child_enum hc with ⟨rfl, rfl⟩ | ⟨rfl, rfl⟩ | ⟨rfl, rfl⟩ | ⟨rfl, rfl⟩ <;>
        (have hs := ok1_leaf h hc; subst hs
         simp [enumP1, sel1, ifieldValue, getKey, enumJ, J.get?, J.lookup, tn, hasDeprecated_fst, hasDeprecated_snd hr])
  theorem enumP_eq (doc : J) (vars : List (String × J)) (e : EnumVal) (hr : reasonOK e.directives = true) :
      (sels : List ISel) → okL .enum sels = true → enumP e sels = selL doc vars (enumJ e) sels
    | [], _ => rfl
    | s :: rest, h => by
      simp only [okL, Bool.and_eq_true] at h
      simp only [enumP, selL, enumP1_eq doc vars e hr s h.1, enumP_eq doc vars e hr rest h.2]
end

/-! ### the shape of `sel1` on a field -/

/-- what `sel1` does with the value of a composite field -/
def projV (doc : J) (vars : List (String × J)) (x : J) (sub : List ISel) : J :=
  projWith (fun y => selL doc vars y sub) x

theorem sel1_leaf (doc : J) (vars : List (String × J)) (v : J) (a n : String) (args : List (String × IVal)) :
    sel1 doc vars v (.field a n args []) = [(a, ifieldValue doc vars v n args)] := by
  simp [sel1]

theorem sel1_comp (doc : J) (vars : List (String × J)) (v : J) (a n : String) (args : List (String × IVal))
    {sub : List ISel} (h : sub ≠ []) :
    sel1 doc vars v (.field a n args sub) = [(a, projV doc vars (ifieldValue doc vars v n args) sub)] := by
  cases sub with
  | nil => exact absurd rfl h
  | cons s rest => simp only [sel1, projV]

theorem projV_obj (doc : J) (vars : List (String × J)) (kvs : List (String × J)) (sub : List ISel) :
    projV doc vars (.obj kvs) sub = .obj (mergePairs [] (selL doc vars (.obj kvs) sub)) := rfl

@[simp] theorem projV_null (doc : J) (vars : List (String × J)) (sub : List ISel) : projV doc vars .null sub = .null := rfl

theorem projV_arr (doc : J) (vars : List (String × J)) (xs : List J) (sub : List ISel) :
    projV doc vars (.arr xs) sub = .arr (xs.map (fun y => projV doc vars y sub |> fun r =>
      match y with
      | .arr _ => projElem (fun y => selL doc vars y sub) y
      | _ => r)) := by
  simp only [projV, projWith]
  congr 1
  apply List.map_congr_left
  intro y _
  cases y <;> rfl

/-- an object assembled by the resolver from the assignments the specification's projection lists -/
theorem obj_assign_eq (doc : J) (vars : List (String × J)) (kvs : List (String × J)) {sub : List ISel}
    {ps : List (String × J)} (h : ps = selL doc vars (.obj kvs) sub) (hn : (ISel.keys sub).Nodup) :
    J.obj (J.assignAll [] ps) = projV doc vars (.obj kvs) sub := by
  subst h
  rw [projV_obj, assignAll_eq_mergePairs]
  rw [keys_selL]; exact hn

/-- a list of objects: element-wise -/
theorem arr_assign_eq {α : Type} (doc : J) (vars : List (String × J)) (xs : List α) (g : α → J) (m : α → J) (sub : List ISel)
    (h : ∀ x ∈ xs, m x = projV doc vars (g x) sub) (hg : ∀ x ∈ xs, ∀ l, g x ≠ .arr l) :
    J.arr (xs.map m) = projV doc vars (.arr (xs.map g)) sub := by
  rw [projV_arr, List.map_map]
  congr 1
  apply List.map_congr_left
  intro x hx
  rw [h x hx]
  simp only [Function.comp]
  cases hgx : g x <;> simp_all

/-! ### value level: `resolveType`'s result against the projection of a type reference -/

theorem typeV_eq (S : Schema) (vars : List (String × J)) (t : TypeRef) (sub : List ISel) (hn : (ISel.keys sub).Nodup)
    (h : typeRef S t ≠ .null → typeP S vars t sub = selL (introspect S) vars (typeRef S t) sub) :
    typeV S t (typeP S vars t sub) = projV (introspect S) vars (typeRef S t) sub := by
  cases t with
  | named n =>
    cases hty : S.type? n with
    | none => simp [typeV, typeRef, namedRef, hty]
    | some td =>
      have hr : typeRef S (.named n) = .obj [tn "__Type", ("kind", .str td.kind.toString), ("name", .str n), ("ofType", .null)] := by
        simp [typeRef, namedRef, hty]
      rw [hr] at h ⊢
      simp only [typeV, hty, Option.isSome_some, if_true]
      exact obj_assign_eq _ _ _ (h (by simp)) hn
  | list t' =>
    simp only [typeV, typeRef] at h ⊢
    exact obj_assign_eq _ _ _ (h (by simp)) hn
  | nonNull t' =>
    simp only [typeV, typeRef] at h ⊢
    exact obj_assign_eq _ _ _ (h (by simp)) hn

/-! ### input values (arguments, input fields) -/

theorem inputP1_step (S : Schema) (vars : List (String × J)) (name desc : String) (ty : TypeRef) (dflt : Option String)
    (a n : String) (args : List (String × IVal)) (sub : List ISel)
    (h : ok1 .input (.field a n args sub) = true)
    (IHT : okL .type sub = true → (ISel.keys sub).Nodup →
      typeV S ty (typeP S vars ty sub) = projV (introspect S) vars (typeRef S ty) sub) :
    inputP1 S vars name desc ty dflt (.field a n args sub)
      = sel1 (introspect S) vars (inputValue S name desc ty dflt) (.field a n args sub) := by
  have hc : ∃ r, child .input n = some r := by
    unfold ok1 at h; split at h <;> simp_all
  obtain ⟨r, hc⟩ := hc
  rcases child_input hc with ⟨rfl, rfl⟩ | ⟨rfl, rfl⟩ | ⟨rfl, rfl⟩ | ⟨rfl, rfl⟩
  · have hs := ok1_leaf h hc; subst hs
    simp [inputP1, sel1_leaf, ifieldValue, getKey, inputValue, J.get?, J.lookup, tn]
  · have hs := ok1_leaf h hc; subst hs
    simp [inputP1, sel1_leaf, ifieldValue, getKey, inputValue, J.get?, J.lookup, tn]
  · obtain ⟨hne, hk, hnd, _⟩ := ok1_comp h hc
    rw [sel1_comp _ _ _ _ _ _ hne]
    simp only [inputP1]
    rw [IHT hk hnd]
    simp [ifieldValue, getKey, inputValue, J.get?, J.lookup, tn]
  · have hs := ok1_leaf h hc; subst hs
    simp [inputP1, sel1_leaf, ifieldValue, getKey, inputValue, J.get?, J.lookup, tn, Model.Introspect.optStr, Spec.optStr]
    cases dflt <;> rfl

theorem args_eq (S : Schema) (vars : List (String × J)) (as : List ArgDef) (sub : List ISel) (hnd : (ISel.keys sub).Nodup)
    (IHI : ∀ (name desc : String) (ty : TypeRef) (dflt : Option String),
      inputP S vars name desc ty dflt sub = selL (introspect S) vars (inputValue S name desc ty dflt) sub) :
    J.arr (as.map (fun x => .obj (J.assignAll [] (inputP S vars x.name x.desc x.type x.default sub))))
      = projV (introspect S) vars (.arr (as.map (argJ S))) sub := by
  apply arr_assign_eq
  · intro x _
    exact obj_assign_eq _ _ _ (by simpa [argJ, inputValue] using IHI x.name x.desc x.type x.default) hnd
  · intro x _ l; simp [argJ, inputValue]

/-! ### fields -/

theorem fieldP1_step (S : Schema) (vars : List (String × J)) (f : FieldDef) (hr : reasonOK f.directives = true)
    (a n : String) (args : List (String × IVal)) (sub : List ISel)
    (h : ok1 .field (.field a n args sub) = true)
    (IHT : okL .type sub = true → (ISel.keys sub).Nodup →
      typeV S f.type (typeP S vars f.type sub) = projV (introspect S) vars (typeRef S f.type) sub)
    (IHI : okL .input sub = true → ∀ (name desc : String) (ty : TypeRef) (dflt : Option String),
      inputP S vars name desc ty dflt sub = selL (introspect S) vars (inputValue S name desc ty dflt) sub) :
    fieldP1 S vars f (.field a n args sub) = sel1 (introspect S) vars (fieldJ S f) (.field a n args sub) := by
  have hc : ∃ r, child .field n = some r := by
    unfold ok1 at h; split at h <;> simp_all
  obtain ⟨r, hc⟩ := hc
  rcases child_field hc with ⟨rfl, rfl⟩ | ⟨rfl, rfl⟩ | ⟨rfl, rfl⟩ | ⟨rfl, rfl⟩ | ⟨rfl, rfl⟩ | ⟨rfl, rfl⟩
  · have hs := ok1_leaf h hc; subst hs
    simp [fieldP1, sel1_leaf, ifieldValue, getKey, fieldJ, J.get?, J.lookup, tn]
  · have hs := ok1_leaf h hc; subst hs
    simp [fieldP1, sel1_leaf, ifieldValue, getKey, fieldJ, J.get?, J.lookup, tn]
  · obtain ⟨hne, hk, hnd, _⟩ := ok1_comp h hc
    rw [sel1_comp _ _ _ _ _ _ hne]
    simp only [fieldP1]
    rw [args_eq S vars f.args sub hnd (IHI hk)]
    simp [ifieldValue, getKey, fieldJ, J.get?, J.lookup, tn]
  · obtain ⟨hne, hk, hnd, _⟩ := ok1_comp h hc
    rw [sel1_comp _ _ _ _ _ _ hne]
    simp only [fieldP1]
    rw [IHT hk hnd]
    simp [ifieldValue, getKey, fieldJ, J.get?, J.lookup, tn]
  · have hs := ok1_leaf h hc; subst hs
    simp [fieldP1, sel1_leaf, ifieldValue, getKey, fieldJ, J.get?, J.lookup, tn, hasDeprecated_fst]
  · have hs := ok1_leaf h hc; subst hs
    simp [fieldP1, sel1_leaf, ifieldValue, getKey, fieldJ, J.get?, J.lookup, tn, hasDeprecated_snd hr]

/-! ### directives -/

theorem dirP1_step (S : Schema) (vars : List (String × J)) (d : DirDef) (hl : d.locations ≠ [])
    (a n : String) (args : List (String × IVal)) (sub : List ISel)
    (h : ok1 .directive (.field a n args sub) = true)
    (IHI : okL .input sub = true → ∀ (name desc : String) (ty : TypeRef) (dflt : Option String),
      inputP S vars name desc ty dflt sub = selL (introspect S) vars (inputValue S name desc ty dflt) sub) :
    dirP1 S vars d (.field a n args sub) = sel1 (introspect S) vars (directiveJ S d) (.field a n args sub) := by
  have hc : ∃ r, child .directive n = some r := by
    unfold ok1 at h; split at h <;> simp_all
  obtain ⟨r, hc⟩ := hc
  rcases child_directive hc with ⟨rfl, rfl⟩ | ⟨rfl, rfl⟩ | ⟨rfl, rfl⟩ | ⟨rfl, rfl⟩
  · have hs := ok1_leaf h hc; subst hs
    simp [dirP1, sel1_leaf, ifieldValue, getKey, directiveJ, J.get?, J.lookup, tn]
  · have hs := ok1_leaf h hc; subst hs
    simp [dirP1, sel1_leaf, ifieldValue, getKey, directiveJ, J.get?, J.lookup, tn]
  · have hs := ok1_leaf h hc; subst hs
    simp [dirP1, sel1_leaf, ifieldValue, getKey, directiveJ, J.get?, J.lookup, tn, hl]
  · obtain ⟨hne, hk, hnd, _⟩ := ok1_comp h hc
    rw [sel1_comp _ _ _ _ _ _ hne]
    simp only [dirP1]
    rw [args_eq S vars d.args sub hnd (IHI hk)]
    simp [ifieldValue, getKey, directiveJ, J.get?, J.lookup, tn]

/-! ### types: the wrappers -/

theorem typeP1_wrap_step (S : Schema) (vars : List (String × J)) (t t' : TypeRef) (k : String)
    (ht : (t = .list t' ∧ k = "LIST") ∨ (t = .nonNull t' ∧ k = "NON_NULL"))
    (a n : String) (args : List (String × IVal)) (sub : List ISel)
    (h : ok1 .type (.field a n args sub) = true)
    (IHT : okL .type sub = true → (ISel.keys sub).Nodup →
      typeV S t' (typeP S vars t' sub) = projV (introspect S) vars (typeRef S t') sub) :
    typeP1 S vars t (.field a n args sub)
      = sel1 (introspect S) vars (.obj [tn "__Type", ("kind", .str k), ("name", .null), ("ofType", typeRef S t')])
          (.field a n args sub) := by
  have hc : ∃ r, child .type n = some r := by
    unfold ok1 at h; split at h <;> simp_all
  obtain ⟨r, hc⟩ := hc
  rcases child_type hc with ⟨rfl, rfl⟩ | ⟨rfl, rfl⟩ | ⟨rfl, rfl⟩ | ⟨rfl, rfl⟩ | ⟨rfl, rfl⟩ | ⟨rfl, rfl⟩ | ⟨rfl, rfl⟩ | ⟨rfl, rfl⟩ | ⟨rfl, rfl⟩
  · have hs := ok1_leaf h hc; subst hs
    rcases ht with ⟨rfl, rfl⟩ | ⟨rfl, rfl⟩ <;> simp [typeP1, sel1_leaf, ifieldValue, getKey, J.get?, J.lookup, tn]
  · have hs := ok1_leaf h hc; subst hs
    rcases ht with ⟨rfl, rfl⟩ | ⟨rfl, rfl⟩ <;> simp [typeP1, sel1_leaf, ifieldValue, getKey, J.get?, J.lookup, tn]
  · have hs := ok1_leaf h hc; subst hs
    rcases ht with ⟨rfl, rfl⟩ | ⟨rfl, rfl⟩ <;> simp [typeP1, sel1_leaf, ifieldValue, getKey, J.get?, J.lookup, tn]
  · obtain ⟨hne, _, _, _⟩ := ok1_comp h hc
    rw [sel1_comp _ _ _ _ _ _ hne]
    rcases ht with ⟨rfl, rfl⟩ | ⟨rfl, rfl⟩ <;> simp [typeP1, ifieldValue, getKey, J.get?, J.lookup, tn, dropDeprecated]
  · obtain ⟨hne, _, _, _⟩ := ok1_comp h hc
    rw [sel1_comp _ _ _ _ _ _ hne]
    rcases ht with ⟨rfl, rfl⟩ | ⟨rfl, rfl⟩ <;> simp [typeP1, ifieldValue, getKey, J.get?, J.lookup, tn]
  · obtain ⟨hne, _, _, _⟩ := ok1_comp h hc
    rw [sel1_comp _ _ _ _ _ _ hne]
    rcases ht with ⟨rfl, rfl⟩ | ⟨rfl, rfl⟩ <;> simp [typeP1, ifieldValue, getKey, J.get?, J.lookup, tn]
  · obtain ⟨hne, _, _, _⟩ := ok1_comp h hc
    rw [sel1_comp _ _ _ _ _ _ hne]
    rcases ht with ⟨rfl, rfl⟩ | ⟨rfl, rfl⟩ <;> simp [typeP1, ifieldValue, getKey, J.get?, J.lookup, tn, dropDeprecated]
  · obtain ⟨hne, _, _, _⟩ := ok1_comp h hc
    rw [sel1_comp _ _ _ _ _ _ hne]
    rcases ht with ⟨rfl, rfl⟩ | ⟨rfl, rfl⟩ <;> simp [typeP1, ifieldValue, getKey, J.get?, J.lookup, tn]
  · obtain ⟨hne, hk, hnd, _⟩ := ok1_comp h hc
    rw [sel1_comp _ _ _ _ _ _ hne]
    rcases ht with ⟨rfl, rfl⟩ | ⟨rfl, rfl⟩ <;>
      (simp only [typeP1]; rw [IHT hk hnd]; simp [ifieldValue, getKey, J.get?, J.lookup, tn])

/-! ### types: a named type -/

theorem isDeprecatedJ_fieldJ (S : Schema) (f : FieldDef) : isDeprecatedJ (fieldJ S f) = (deprecation f.directives).isSome := by
  simp [isDeprecatedJ, fieldJ, J.get?, J.lookup, tn]
  cases (deprecation f.directives).isSome <;> rfl

theorem isDeprecatedJ_enumJ (e : EnumVal) : isDeprecatedJ (enumJ e) = (deprecation e.directives).isSome := by
  simp [isDeprecatedJ, enumJ, J.get?, J.lookup, tn]
  cases (deprecation e.directives).isSome <;> rfl

theorem dropDeprecated_arr_map {α : Type} (xs : List α) (g : α → J) (dep : α → Bool) (h : ∀ x, isDeprecatedJ (g x) = dep x) :
    dropDeprecated (.arr (xs.map g)) = .arr ((xs.filter (fun x => !dep x)).map g) := by
  simp only [dropDeprecated, List.filter_map]
  congr 2
  apply List.filter_congr
  intro x _
  simp [Function.comp, h]

/-- the `fields` list before projection: the specification's two-step filter is the resolver's one -/
theorem fields_value (S : Schema) (td : TypeDef) (incl : Bool) :
    (if incl = true then J.arr ((td.fields.filter (fun f => !isBuiltinNameI f.name)).map (fieldJ S))
      else dropDeprecated (J.arr ((td.fields.filter (fun f => !isBuiltinNameI f.name)).map (fieldJ S))))
    = J.arr ((td.fields.filter (fun f =>
        !isBuiltinNameI f.name && (incl || !(hasDeprecated f.directives).1))).map (fieldJ S)) := by
  cases incl with
  | true => simp
  | false =>
    rw [dropDeprecated_arr_map _ _ (fun f => (deprecation f.directives).isSome) (isDeprecatedJ_fieldJ S), List.filter_filter]
    simp [hasDeprecated_fst, Bool.and_comm]

theorem enums_value (td : TypeDef) (incl : Bool) :
    (if incl = true then J.arr (td.enumValues.map enumJ) else dropDeprecated (J.arr (td.enumValues.map enumJ)))
    = J.arr ((td.enumValues.filter (fun e => incl || !(hasDeprecated e.directives).1)).map enumJ) := by
  cases incl with
  | true =>
    have : td.enumValues.filter (fun _ => true) = td.enumValues := List.filter_eq_self.mpr (by simp)
    simp [this]
  | false =>
    rw [dropDeprecated_arr_map _ _ (fun e => (deprecation e.directives).isSome) isDeprecatedJ_enumJ]
    simp [hasDeprecated_fst]

theorem namedRef_not_arr (S : Schema) (i : String) (l : List J) : namedRef S i ≠ .arr l := by
  unfold namedRef; split <;> simp

theorem isObjectType_eq (S : Schema) : Model.Introspect.isObjectType S = Spec.isObjectType S := by
  funext n; rfl

theorem getKey_ref (S : Schema) {n : String} {td : TypeDef} (hty : S.type? n = some td) (k : String)
    (h1 : k ≠ "__typename") (h2 : k ≠ "kind") (h3 : k ≠ "name") (h4 : k ≠ "ofType") :
    getKey (introspect S) (.obj [tn "__Type", ("kind", .str td.kind.toString), ("name", .str n), ("ofType", .null)]) k
      = ((fullType S td).get? k).getD .null := by
  simp [getKey, J.get?, J.lookup, tn, h1, h2, h3, h4, findType_introspect, hty]

theorem typeP1_named_step (S : Schema) (vars : List (String × J)) (n : String) (td : TypeDef) (hty : S.type? n = some td)
    (hrs : ∀ f ∈ td.fields, reasonOK f.directives = true) (hre : ∀ e ∈ td.enumValues, reasonOK e.directives = true)
    (a fn : String) (args : List (String × IVal)) (sub : List ISel)
    (h : ok1 .type (.field a fn args sub) = true)
    (IHT : okL .type sub = true → (ISel.keys sub).Nodup →
      ∀ t, typeV S t (typeP S vars t sub) = projV (introspect S) vars (typeRef S t) sub)
    (IHF : okL .field sub = true → ∀ f : FieldDef, reasonOK f.directives = true →
      fieldP S vars f sub = selL (introspect S) vars (fieldJ S f) sub)
    (IHI : okL .input sub = true → ∀ (name desc : String) (ty : TypeRef) (dflt : Option String),
      inputP S vars name desc ty dflt sub = selL (introspect S) vars (inputValue S name desc ty dflt) sub) :
    typeP1 S vars (.named n) (.field a fn args sub)
      = sel1 (introspect S) vars (.obj [tn "__Type", ("kind", .str td.kind.toString), ("name", .str n), ("ofType", .null)])
          (.field a fn args sub) := by
  have hc : ∃ r, child .type fn = some r := by
    unfold ok1 at h; split at h <;> simp_all
  obtain ⟨r, hc⟩ := hc
  have hname := type?_name hty
  rcases child_type hc with ⟨rfl, rfl⟩ | ⟨rfl, rfl⟩ | ⟨rfl, rfl⟩ | ⟨rfl, rfl⟩ | ⟨rfl, rfl⟩ | ⟨rfl, rfl⟩ | ⟨rfl, rfl⟩ | ⟨rfl, rfl⟩ | ⟨rfl, rfl⟩
  · -- kind
    have hs := ok1_leaf h hc; subst hs
    simp [typeP1, hty, sel1_leaf, ifieldValue, getKey, J.get?, J.lookup, tn]
  · -- name
    have hs := ok1_leaf h hc; subst hs
    simp [typeP1, hty, sel1_leaf, ifieldValue, getKey, J.get?, J.lookup, tn, hname]
  · -- description
    have hs := ok1_leaf h hc; subst hs
    simp only [typeP1, hty, sel1_leaf, ifieldValue]
    rw [getKey_ref S hty "description" (by decide) (by decide) (by decide) (by decide)]
    simp [fullType, J.get?, J.lookup, tn]
  · -- fields
    obtain ⟨hne, hk, hnd, _⟩ := ok1_comp h hc
    rw [sel1_comp _ _ _ _ _ _ hne]
    simp only [typeP1, hty, ifieldValue]
    rw [getKey_ref S hty "fields" (by decide) (by decide) (by decide) (by decide)]
    have hv : ((fullType S td).get? "fields").getD .null = onKinds td.kind [.object, .interface]
        (.arr ((td.fields.filter (fun f => !isBuiltinNameI f.name)).map (fieldJ S))) := by
      simp [fullType, J.get?, J.lookup, tn]
    rw [hv]
    by_cases hkind : td.kind = .object ∨ td.kind = .interface
    · have hg : (td.kind != Kind.object && td.kind != Kind.interface) = false := by
        rcases hkind with hk' | hk' <;> simp [hk']
      have ho : onKinds td.kind [.object, .interface]
          (.arr ((td.fields.filter (fun f => !isBuiltinNameI f.name)).map (fieldJ S)))
          = .arr ((td.fields.filter (fun f => !isBuiltinNameI f.name)).map (fieldJ S)) := by
        rcases hkind with hk' | hk' <;> simp [onKinds, hk']
      rw [ho, fields_value S td (ISel.boolArg vars args "includeDeprecated")]
      simp only [hg, Bool.false_eq_true, if_false]
      congr 2
      apply arr_assign_eq
      · intro f hf
        have hfm : f ∈ td.fields := (List.mem_filter.mp hf).1
        exact obj_assign_eq _ _ _ (by simpa [fieldJ] using IHF hk f (hrs f hfm)) hnd
      · intro f _ l; simp [fieldJ]
    · have hg : (td.kind != Kind.object && td.kind != Kind.interface) = true := by
        cases hk' : td.kind <;> simp_all
      have ho : onKinds td.kind [.object, .interface]
          (.arr ((td.fields.filter (fun f => !isBuiltinNameI f.name)).map (fieldJ S))) = .null := by
        cases hk' : td.kind <;> simp_all [onKinds]
      rw [ho]
      simp [hg, dropDeprecated]
  · -- interfaces
    obtain ⟨hne, hk, hnd, _⟩ := ok1_comp h hc
    rw [sel1_comp _ _ _ _ _ _ hne]
    simp only [typeP1, hty, ifieldValue]
    rw [getKey_ref S hty "interfaces" (by decide) (by decide) (by decide) (by decide)]
    have hv : ((fullType S td).get? "interfaces").getD .null = onKinds td.kind [.object, .interface]
        (.arr (td.interfaces.map (namedRef S))) := by
      simp [fullType, J.get?, J.lookup, tn]
    rw [hv]
    by_cases hkind : td.kind = .object ∨ td.kind = .interface
    · have hg : (td.kind != Kind.object && td.kind != Kind.interface) = false := by
        rcases hkind with hk' | hk' <;> simp [hk']
      have ho : onKinds td.kind [.object, .interface] (.arr (td.interfaces.map (namedRef S)))
          = .arr (td.interfaces.map (namedRef S)) := by
        rcases hkind with hk' | hk' <;> simp [onKinds, hk']
      rw [ho]
      simp only [hg, Bool.false_eq_true, if_false]
      congr 2
      apply arr_assign_eq
      · intro i _
        exact IHT hk hnd (.named i)
      · intro i _ l; exact namedRef_not_arr S i l
    · have hg : (td.kind != Kind.object && td.kind != Kind.interface) = true := by
        cases hk' : td.kind <;> simp_all
      have ho : onKinds td.kind [.object, .interface] (.arr (td.interfaces.map (namedRef S))) = .null := by
        cases hk' : td.kind <;> simp_all [onKinds]
      rw [ho]
      simp [hg]
  · -- possibleTypes
    obtain ⟨hne, hk, hnd, _⟩ := ok1_comp h hc
    rw [sel1_comp _ _ _ _ _ _ hne]
    simp only [typeP1, hty, ifieldValue]
    rw [getKey_ref S hty "possibleTypes" (by decide) (by decide) (by decide) (by decide)]
    have hv : ((fullType S td).get? "possibleTypes").getD .null = onKinds td.kind [.interface, .union]
        (.arr (((S.possibleOf td.name).filter (Spec.isObjectType S)).map (namedRef S))) := by
      simp [fullType, J.get?, J.lookup, tn]
    rw [hv]
    by_cases hkind : td.kind = .interface ∨ td.kind = .union
    · have hg : (td.kind != Kind.interface && td.kind != Kind.union) = false := by
        rcases hkind with hk' | hk' <;> simp [hk']
      have ho : onKinds td.kind [.interface, .union]
          (.arr (((S.possibleOf td.name).filter (Spec.isObjectType S)).map (namedRef S)))
          = .arr (((S.possibleOf td.name).filter (Spec.isObjectType S)).map (namedRef S)) := by
        rcases hkind with hk' | hk' <;> simp [onKinds, hk']
      rw [ho]
      simp only [hg, Bool.false_eq_true, if_false, isObjectType_eq]
      congr 2
      apply arr_assign_eq
      · intro i _
        exact IHT hk hnd (.named i)
      · intro i _ l; exact namedRef_not_arr S i l
    · have hg : (td.kind != Kind.interface && td.kind != Kind.union) = true := by
        cases hk' : td.kind <;> simp_all
      have ho : onKinds td.kind [.interface, .union]
          (.arr (((S.possibleOf td.name).filter (Spec.isObjectType S)).map (namedRef S))) = .null := by
        cases hk' : td.kind <;> simp_all [onKinds]
      rw [ho]
      simp [hg]
  · -- enumValues
    obtain ⟨hne, hk, hnd, _⟩ := ok1_comp h hc
    rw [sel1_comp _ _ _ _ _ _ hne]
    simp only [typeP1, hty, ifieldValue]
    rw [getKey_ref S hty "enumValues" (by decide) (by decide) (by decide) (by decide)]
    have hv : ((fullType S td).get? "enumValues").getD .null = onKinds td.kind [.enum] (.arr (td.enumValues.map enumJ)) := by
      simp [fullType, J.get?, J.lookup, tn]
    rw [hv]
    by_cases hkind : td.kind = .enum
    · have hg : (td.kind != Kind.enum) = false := by simp [hkind]
      have ho : onKinds td.kind [.enum] (.arr (td.enumValues.map enumJ)) = .arr (td.enumValues.map enumJ) := by
        simp [onKinds, hkind]
      rw [ho, enums_value td (ISel.boolArg vars args "includeDeprecated")]
      simp only [hg, Bool.false_eq_true, if_false]
      congr 2
      apply arr_assign_eq
      · intro e he
        have hem : e ∈ td.enumValues := (List.mem_filter.mp he).1
        exact obj_assign_eq _ _ _ (by simpa [enumJ] using enumP_eq (introspect S) vars e (hre e hem) sub hk) hnd
      · intro e _ l; simp [enumJ]
    · have hg : (td.kind != Kind.enum) = true := by simp [hkind]
      have ho : onKinds td.kind [.enum] (.arr (td.enumValues.map enumJ)) = .null := by
        cases hk' : td.kind <;> simp_all [onKinds]
      rw [ho]
      simp [hg, dropDeprecated]
  · -- inputFields
    obtain ⟨hne, hk, hnd, _⟩ := ok1_comp h hc
    rw [sel1_comp _ _ _ _ _ _ hne]
    simp only [typeP1, hty, ifieldValue]
    rw [getKey_ref S hty "inputFields" (by decide) (by decide) (by decide) (by decide)]
    have hv : ((fullType S td).get? "inputFields").getD .null = onKinds td.kind [.inputObject] (.arr (td.fields.map (inputFieldJ S))) := by
      simp [fullType, J.get?, J.lookup, tn]
    rw [hv]
    by_cases hkind : td.kind = .inputObject
    · have hg : (td.kind != Kind.inputObject) = false := by simp [hkind]
      have ho : onKinds td.kind [.inputObject] (.arr (td.fields.map (inputFieldJ S))) = .arr (td.fields.map (inputFieldJ S)) := by
        simp [onKinds, hkind]
      rw [ho]
      simp only [hg, Bool.false_eq_true, if_false]
      congr 2
      apply arr_assign_eq
      · intro f _
        exact obj_assign_eq _ _ _ (by simpa [inputFieldJ, inputValue] using IHI hk f.name f.desc f.type f.default) hnd
      · intro f _ l; simp [inputFieldJ, inputValue]
    · have hg : (td.kind != Kind.inputObject) = true := by simp [hkind]
      have ho : onKinds td.kind [.inputObject] (.arr (td.fields.map (inputFieldJ S))) = .null := by
        cases hk' : td.kind <;> simp_all [onKinds]
      rw [ho]
      simp [hg]
  · -- ofType
    obtain ⟨hne, _, _, _⟩ := ok1_comp h hc
    rw [sel1_comp _ _ _ _ _ _ hne]
    simp [typeP1, hty, ifieldValue, getKey, J.get?, J.lookup, tn]

/-! ### the mutual induction over the selection set -/

theorem reasons_of_type {S : Schema} (hR : reasonsGiven S = true) {n : String} {td : TypeDef} (hty : S.type? n = some td) :
    (∀ f ∈ td.fields, reasonOK f.directives = true) ∧ (∀ e ∈ td.enumValues, reasonOK e.directives = true) := by
  have hm : td ∈ S.types := List.mem_of_find?_eq_some hty
  unfold reasonsGiven at hR
  have := List.all_eq_true.mp hR td hm
  simp only [Bool.and_eq_true, List.all_eq_true] at this
  exact this

theorem typeRef_named_ne_null {S : Schema} {n : String} (h : typeRef S (.named n) ≠ .null) :
    ∃ td, S.type? n = some td ∧
      typeRef S (.named n) = .obj [tn "__Type", ("kind", .str td.kind.toString), ("name", .str n), ("ofType", .null)] := by
  cases hty : S.type? n with
  | none => simp [typeRef, namedRef, hty] at h
  | some td => exact ⟨td, rfl, by simp [typeRef, namedRef, hty]⟩

mutual
  theorem typeP1_eq (S : Schema) (vars : List (String × J)) (hR : reasonsGiven S = true) (t : TypeRef)
      (hne : typeRef S t ≠ .null) :
      (s : ISel) → ok1 .type s = true → typeP1 S vars t s = sel1 (introspect S) vars (typeRef S t) s
    | .inline sub, h => by
      simp only [typeP1, sel1]
      exact typeP_eq S vars hR t hne sub (by simpa [ok1] using h)
    | .field a n args sub, h => by
      cases t with
      | list t' =>
        simp only [typeRef]
        exact typeP1_wrap_step S vars (.list t') t' "LIST" (Or.inl ⟨rfl, rfl⟩) a n args sub h
          (fun hk hnd => typeV_eq S vars t' sub hnd (fun hne' => typeP_eq S vars hR t' hne' sub hk))
      | nonNull t' =>
        simp only [typeRef]
        exact typeP1_wrap_step S vars (.nonNull t') t' "NON_NULL" (Or.inr ⟨rfl, rfl⟩) a n args sub h
          (fun hk hnd => typeV_eq S vars t' sub hnd (fun hne' => typeP_eq S vars hR t' hne' sub hk))
      | named tn' =>
        obtain ⟨td, hty, href⟩ := typeRef_named_ne_null hne
        rw [href]
        exact typeP1_named_step S vars tn' td hty (reasons_of_type hR hty).1 (reasons_of_type hR hty).2 a n args sub h
          (fun hk hnd t'' => typeV_eq S vars t'' sub hnd (fun hne' => typeP_eq S vars hR t'' hne' sub hk))
          (fun hk f hr => fieldP_eq S vars hR f hr sub hk)
          (fun hk name desc ty dflt => inputP_eq S vars hR name desc ty dflt sub hk)
  theorem typeP_eq (S : Schema) (vars : List (String × J)) (hR : reasonsGiven S = true) (t : TypeRef)
      (hne : typeRef S t ≠ .null) :
      (sels : List ISel) → okL .type sels = true → typeP S vars t sels = selL (introspect S) vars (typeRef S t) sels
    | [], _ => rfl
    | s :: rest, h => by
      simp only [okL, Bool.and_eq_true] at h
      simp only [typeP, selL, typeP1_eq S vars hR t hne s h.1, typeP_eq S vars hR t hne rest h.2]
  theorem fieldP1_eq (S : Schema) (vars : List (String × J)) (hR : reasonsGiven S = true) (f : FieldDef)
      (hr : reasonOK f.directives = true) :
      (s : ISel) → ok1 .field s = true → fieldP1 S vars f s = sel1 (introspect S) vars (fieldJ S f) s
    | .inline sub, h => by
      simp only [fieldP1, sel1]
      exact fieldP_eq S vars hR f hr sub (by simpa [ok1] using h)
    | .field a n args sub, h =>
      fieldP1_step S vars f hr a n args sub h
        (fun hk hnd => typeV_eq S vars f.type sub hnd (fun hne' => typeP_eq S vars hR f.type hne' sub hk))
        (fun hk name desc ty dflt => inputP_eq S vars hR name desc ty dflt sub hk)
  theorem fieldP_eq (S : Schema) (vars : List (String × J)) (hR : reasonsGiven S = true) (f : FieldDef)
      (hr : reasonOK f.directives = true) :
      (sels : List ISel) → okL .field sels = true → fieldP S vars f sels = selL (introspect S) vars (fieldJ S f) sels
    | [], _ => rfl
    | s :: rest, h => by
      simp only [okL, Bool.and_eq_true] at h
      simp only [fieldP, selL, fieldP1_eq S vars hR f hr s h.1, fieldP_eq S vars hR f hr rest h.2]
  theorem inputP1_eq (S : Schema) (vars : List (String × J)) (hR : reasonsGiven S = true)
      (name desc : String) (ty : TypeRef) (dflt : Option String) :
      (s : ISel) → ok1 .input s = true →
        inputP1 S vars name desc ty dflt s = sel1 (introspect S) vars (inputValue S name desc ty dflt) s
    | .inline sub, h => by
      simp only [inputP1, sel1]
      exact inputP_eq S vars hR name desc ty dflt sub (by simpa [ok1] using h)
    | .field a n args sub, h =>
      inputP1_step S vars name desc ty dflt a n args sub h
        (fun hk hnd => typeV_eq S vars ty sub hnd (fun hne' => typeP_eq S vars hR ty hne' sub hk))
  theorem inputP_eq (S : Schema) (vars : List (String × J)) (hR : reasonsGiven S = true)
      (name desc : String) (ty : TypeRef) (dflt : Option String) :
      (sels : List ISel) → okL .input sels = true →
        inputP S vars name desc ty dflt sels = selL (introspect S) vars (inputValue S name desc ty dflt) sels
    | [], _ => rfl
    | s :: rest, h => by
      simp only [okL, Bool.and_eq_true] at h
      simp only [inputP, selL, inputP1_eq S vars hR name desc ty dflt s h.1, inputP_eq S vars hR name desc ty dflt rest h.2]
end

/-- `resolveType` answers as the specification prescribes, for every type reference -/
theorem typeV_spec (S : Schema) (vars : List (String × J)) (hR : reasonsGiven S = true) (t : TypeRef) (sub : List ISel)
    (hk : okL .type sub = true) (hnd : (ISel.keys sub).Nodup) :
    typeV S t (typeP S vars t sub) = projV (introspect S) vars (typeRef S t) sub :=
  typeV_eq S vars t sub hnd (fun hne => typeP_eq S vars hR t hne sub hk)

/-! ### directives -/

mutual
  theorem dirP1_eq (S : Schema) (vars : List (String × J)) (hR : reasonsGiven S = true) (d : DirDef) (hl : d.locations ≠ []) :
      (s : ISel) → ok1 .directive s = true → dirP1 S vars d s = sel1 (introspect S) vars (directiveJ S d) s
    | .inline sub, h => by
      simp only [dirP1, sel1]
      exact dirP_eq S vars hR d hl sub (by simpa [ok1] using h)
    | .field a n args sub, h =>
      dirP1_step S vars d hl a n args sub h (fun hk name desc ty dflt => inputP_eq S vars hR name desc ty dflt sub hk)
  theorem dirP_eq (S : Schema) (vars : List (String × J)) (hR : reasonsGiven S = true) (d : DirDef) (hl : d.locations ≠ []) :
      (sels : List ISel) → okL .directive sels = true → dirP S vars d sels = selL (introspect S) vars (directiveJ S d) sels
    | [], _ => rfl
    | s :: rest, h => by
      simp only [okL, Bool.and_eq_true] at h
      simp only [dirP, selL, dirP1_eq S vars hR d hl s h.1, dirP_eq S vars hR d hl rest h.2]
end

/-! ### `name` selected un-aliased: the sort key -/

mutual
  theorem mem_keys1_of_hasName1 : (s : ISel) → hasName1 s = true → "name" ∈ ISel.keys1 s
    | .inline sub, h => by simp only [hasName1] at h; simp only [ISel.keys1]; exact mem_keys_of_hasName sub h
    | .field a n _ _, h => by simp [hasName1] at h; simp [ISel.keys1, h.1]
  theorem mem_keys_of_hasName : (sels : List ISel) → hasName sels = true → "name" ∈ ISel.keys sels
    | [], h => by simp [hasName] at h
    | s :: rest, h => by
      simp only [hasName, Bool.or_eq_true] at h
      simp only [ISel.keys, List.mem_append]
      rcases h with h | h
      · exact Or.inl (mem_keys1_of_hasName1 s h)
      · exact Or.inr (mem_keys_of_hasName rest h)
end

mutual
  theorem nameKeyField1_not_mem : (s : ISel) → (acc : Option String) → "name" ∉ ISel.keys1 s → nameKeyField1 acc s = acc
    | .inline sub, acc, h => by simp only [nameKeyField1]; exact nameKeyField_not_mem sub acc (by simpa [ISel.keys1] using h)
    | .field a n _ _, acc, h => by
      simp [ISel.keys1] at h
      have : (a == "name") = false := by simp; exact fun e => h e.symm
      simp [nameKeyField1, this]
  theorem nameKeyField_not_mem : (sels : List ISel) → (acc : Option String) → "name" ∉ ISel.keys sels → nameKeyField acc sels = acc
    | [], _, _ => rfl
    | s :: rest, acc, h => by
      simp only [ISel.keys, List.mem_append, not_or] at h
      simp only [nameKeyField, nameKeyField1_not_mem s acc h.1, nameKeyField_not_mem rest acc h.2]
end

mutual
  theorem nameKeyField1_of_hasName1 : (s : ISel) → (acc : Option String) → (ISel.keys1 s).Nodup → hasName1 s = true →
      nameKeyField1 acc s = some "name"
    | .inline sub, acc, hn, h => by
      simp only [nameKeyField1]; exact nameKeyField_of_hasName sub acc (by simpa [ISel.keys1] using hn) (by simpa [hasName1] using h)
    | .field a n _ _, acc, _, h => by
      simp [hasName1] at h
      simp [nameKeyField1, h.1, h.2]
  theorem nameKeyField_of_hasName : (sels : List ISel) → (acc : Option String) → (ISel.keys sels).Nodup → hasName sels = true →
      nameKeyField acc sels = some "name"
    | [], _, _, h => by simp [hasName] at h
    | s :: rest, acc, hn, h => by
      simp only [hasName, Bool.or_eq_true] at h
      simp only [ISel.keys] at hn
      have hnd := List.nodup_append.mp hn
      simp only [nameKeyField]
      rcases h with h | h
      · rw [nameKeyField1_of_hasName1 s acc hnd.1 h]
        apply nameKeyField_not_mem
        intro hm
        exact hnd.2.2 "name" (mem_keys1_of_hasName1 s h) "name" hm rfl
      · exact nameKeyField_of_hasName rest _ hnd.2.1 h
end

theorem sortable_of_hasName {sub : List ISel} (hn : (ISel.keys sub).Nodup) (h : hasName sub = true) : sortable sub = true := by
  simp [sortable, nameKeyField_of_hasName sub none hn h]

-- the `name` entry of the specification's projection, when `name` is selected un-aliased as a leaf
mutual
  theorem mem_sel1_name (doc : J) (vars : List (String × J)) (v : J) (c : Ctx) (hc : child c "name" = some none) :
      (s : ISel) → ok1 c s = true → hasName1 s = true → ("name", getKey doc v "name") ∈ sel1 doc vars v s
    | .inline sub, hok, hh => by
      simp only [sel1]
      exact mem_selL_name doc vars v c hc sub (by simpa [ok1] using hok) (by simpa [hasName1] using hh)
    | .field a n args sub, hok, hh => by
      simp [hasName1] at hh
      obtain ⟨rfl, rfl⟩ := hh
      have hs := ok1_leaf hok hc; subst hs
      simp [sel1_leaf, ifieldValue]
  theorem mem_selL_name (doc : J) (vars : List (String × J)) (v : J) (c : Ctx) (hc : child c "name" = some none) :
      (sels : List ISel) → okL c sels = true → hasName sels = true → ("name", getKey doc v "name") ∈ selL doc vars v sels
    | [], _, hh => by simp [hasName] at hh
    | s :: rest, hok, hh => by
      simp only [okL, Bool.and_eq_true] at hok
      simp only [hasName, Bool.or_eq_true] at hh
      simp only [selL, List.mem_append]
      rcases hh with hh | hh
      · exact Or.inl (mem_sel1_name doc vars v c hc s hok.1 hh)
      · exact Or.inr (mem_selL_name doc vars v c hc rest hok.2 hh)
end

/-! ### `__schema` -/

/-- projecting the full `__Type` object of `types` is projecting a reference to it -/
theorem getKey_full (S : Schema) {td : TypeDef} (hty : S.type? td.name = some td) (k : String) :
    getKey (introspect S) (fullType S td) k = ((fullType S td).get? k).getD .null := by
  unfold getKey
  cases e : (fullType S td).get? k with
  | some x => rfl
  | none =>
    have h1 : (fullType S td).get? "__typename" = some (.str "__Type") := by simp [fullType, J.get?, J.lookup, tn]
    have h2 : (fullType S td).get? "name" = some (.str td.name) := by simp [fullType, J.get?, J.lookup, tn]
    simp [h1, h2, findType_introspect, hty, e]

theorem getKey_full_eq_ref (S : Schema) {td : TypeDef} (hty : S.type? td.name = some td) (k : String) :
    getKey (introspect S) (fullType S td) k
      = getKey (introspect S) (.obj [tn "__Type", ("kind", .str td.kind.toString), ("name", .str td.name), ("ofType", .null)]) k := by
  rw [getKey_full S hty]
  by_cases h1 : k = "__typename"
  · subst h1; simp [getKey, fullType, J.get?, J.lookup, tn]
  by_cases h2 : k = "kind"
  · subst h2; simp [getKey, fullType, J.get?, J.lookup, tn]
  by_cases h3 : k = "name"
  · subst h3; simp [getKey, fullType, J.get?, J.lookup, tn]
  by_cases h4 : k = "ofType"
  · subst h4; simp [getKey, fullType, J.get?, J.lookup, tn]
  rw [getKey_ref S hty k h1 h2 h3 h4]

theorem fieldValue_congr (doc : J) (vars : List (String × J)) (v v' : J) (h : ∀ k, getKey doc v k = getKey doc v' k)
    (n : String) (args : List (String × IVal)) : ifieldValue doc vars v n args = ifieldValue doc vars v' n args := by
  unfold ifieldValue
  split <;> simp [h]

mutual
  theorem sel1_congr (doc : J) (vars : List (String × J)) (v v' : J) (h : ∀ k, getKey doc v k = getKey doc v' k) :
      (s : ISel) → sel1 doc vars v s = sel1 doc vars v' s
    | .inline sub => by simp only [sel1]; exact selL_congr doc vars v v' h sub
    | .field a n args sub => by simp only [sel1, fieldValue_congr doc vars v v' h]
  theorem selL_congr (doc : J) (vars : List (String × J)) (v v' : J) (h : ∀ k, getKey doc v k = getKey doc v' k) :
      (sels : List ISel) → selL doc vars v sels = selL doc vars v' sels
    | [] => rfl
    | s :: rest => by simp only [selL, sel1_congr doc vars v v' h s, selL_congr doc vars v v' h rest]
end

/-- one entry of `types`: `resolveType` on the definition's name is the projection of its full object -/
theorem types_elem (S : Schema) (vars : List (String × J)) (hR : reasonsGiven S = true)
    (hs : (S.types.map (·.name)).Pairwise (· < ·)) (sub : List ISel) (hk : okL .type sub = true) (hnd : (ISel.keys sub).Nodup)
    (td : TypeDef) (hm : td ∈ S.types) :
    typeV S (.named td.name) (typeP S vars (.named td.name) sub) = projV (introspect S) vars (fullType S td) sub := by
  have hty := type?_of_mem hs hm
  rw [typeV_spec S vars hR (.named td.name) sub hk hnd]
  have hr : typeRef S (.named td.name) = .obj [tn "__Type", ("kind", .str td.kind.toString), ("name", .str td.name), ("ofType", .null)] := by
    simp [typeRef, namedRef, hty]
  rw [hr, projV_obj]
  have hf : fullType S td = .obj (match fullType S td with | .obj kvs => kvs | _ => []) := by simp [fullType]
  rw [hf, projV_obj, ← hf]
  rw [selL_congr _ _ _ _ (fun k => (getKey_full_eq_ref S hty k).symm)]

theorem types_elem_name (S : Schema) (vars : List (String × J)) (hR : reasonsGiven S = true)
    (hs : (S.types.map (·.name)).Pairwise (· < ·)) (sub : List ISel) (hk : okL .type sub = true) (hnd : (ISel.keys sub).Nodup)
    (hh : hasName sub = true) (td : TypeDef) (hm : td ∈ S.types) :
    nameOf (typeV S (.named td.name) (typeP S vars (.named td.name) sub)) = td.name := by
  rw [types_elem S vars hR hs sub hk hnd td hm]
  have hf : fullType S td = .obj (match fullType S td with | .obj kvs => kvs | _ => []) := by simp [fullType]
  rw [hf, projV_obj, ← hf]
  have hkeys : (keysOf (selL (introspect S) vars (fullType S td) sub)).Nodup := by rw [keys_selL]; exact hnd
  rw [mergePairs_of_nodup [] _ (by simpa using hkeys)]
  have hmem := mem_selL_name (introspect S) vars (fullType S td) .type rfl sub hk hh
  have hgk : getKey (introspect S) (fullType S td) "name" = .str td.name := by
    simp [getKey, fullType, J.get?, J.lookup, tn]
  rw [hgk] at hmem
  simp [nameOf, J.get?, lookup_of_mem_nodup hkeys hmem]

theorem dirs_elem (S : Schema) (vars : List (String × J)) (hR : reasonsGiven S = true) (sub : List ISel)
    (hk : okL .directive sub = true) (hnd : (ISel.keys sub).Nodup) (d : DirDef) (hl : d.locations ≠ []) :
    J.obj (J.assignAll [] (dirP S vars d sub)) = projV (introspect S) vars (directiveJ S d) sub :=
  obj_assign_eq _ _ _ (by simpa [directiveJ] using dirP_eq S vars hR d hl sub hk) hnd

theorem dirs_elem_name (S : Schema) (vars : List (String × J)) (hR : reasonsGiven S = true) (sub : List ISel)
    (hk : okL .directive sub = true) (hnd : (ISel.keys sub).Nodup) (hh : hasName sub = true) (d : DirDef) (hl : d.locations ≠ []) :
    nameOf (J.obj (J.assignAll [] (dirP S vars d sub))) = d.name := by
  rw [dirs_elem S vars hR sub hk hnd d hl]
  have hf : directiveJ S d = .obj (match directiveJ S d with | .obj kvs => kvs | _ => []) := by simp [directiveJ]
  rw [hf, projV_obj, ← hf]
  have hkeys : (keysOf (selL (introspect S) vars (directiveJ S d) sub)).Nodup := by rw [keys_selL]; exact hnd
  rw [mergePairs_of_nodup [] _ (by simpa using hkeys)]
  have hmem := mem_selL_name (introspect S) vars (directiveJ S d) .directive rfl sub hk hh
  have hgk : getKey (introspect S) (directiveJ S d) "name" = .str d.name := by
    simp [getKey, directiveJ, J.get?, J.lookup, tn]
  rw [hgk] at hmem
  simp [nameOf, J.get?, lookup_of_mem_nodup hkeys hmem]

theorem rootRef_default {S : Schema} {r : Option String} {c : String} (h : rootIsDefault S r c = true) :
    rootRef S r = namedRef S c := by
  unfold rootIsDefault at h
  have hr : r = (if (S.type? c).isSome then some c else none) := by simpa using h
  cases hty : S.type? c with
  | none => simp [hr, hty, rootRef, namedRef]
  | some td => simp [hr, hty, rootRef]

structure SchemaOK (S : Schema) : Prop where
  typesSorted : (S.types.map (·.name)).Pairwise (· < ·)
  dirsSorted : (S.directives.map (·.name)).Pairwise (· < ·)
  reasons : reasonsGiven S = true
  roots : defaultRoots S = true
  locations : ∀ d ∈ S.directives, d.locations ≠ []

theorem schemaP1_step (S : Schema) (hS : SchemaOK S) (tyOrd : List TypeDef) (dirOrd : List DirDef)
    (hty : tyOrd.Perm S.types) (hdir : dirOrd.Perm S.directives) (vars : List (String × J))
    (a n : String) (args : List (String × IVal)) (sub : List ISel)
    (h : ok1 .schema (.field a n args sub) = true) :
    schemaP1 S tyOrd dirOrd vars (.field a n args sub) = sel1 (introspect S) vars (schemaJ S) (.field a n args sub) := by
  have hc : ∃ r, child .schema n = some r := by
    unfold ok1 at h; split at h <;> simp_all
  obtain ⟨r, hc⟩ := hc
  have hroots := hS.roots
  simp only [defaultRoots, Bool.and_eq_true] at hroots
  rcases child_schema hc with ⟨rfl, rfl⟩ | ⟨rfl, rfl⟩ | ⟨rfl, rfl⟩ | ⟨rfl, rfl⟩ | ⟨rfl, rfl⟩
  · -- types
    obtain ⟨hne, hk, hnd, hmap⟩ := ok1_comp h hc
    have hh : hasName sub = true := hmap (by decide)
    rw [sel1_comp _ _ _ _ _ _ hne]
    simp only [schemaP1, sortPayload, sortable_of_hasName hnd hh, if_true]
    rw [sortByName_of_perm (·.name) _ tyOrd S.types hty
      (fun td hm => types_elem_name S vars hS.reasons hS.typesSorted sub hk hnd hh td hm) hS.typesSorted]
    have hv : ifieldValue (introspect S) vars (schemaJ S) "types" args = .arr (S.types.map (fullType S)) := by
      simp [ifieldValue, getKey, schemaJ, J.get?, J.lookup, tn]
    rw [hv]
    congr 2
    apply arr_assign_eq
    · intro td hm
      exact types_elem S vars hS.reasons hS.typesSorted sub hk hnd td hm
    · intro td _ l; simp [fullType]
  · -- queryType
    obtain ⟨hne, hk, hnd, _⟩ := ok1_comp h hc
    rw [sel1_comp _ _ _ _ _ _ hne]
    simp only [schemaP1]
    rw [typeV_spec S vars hS.reasons _ sub hk hnd]
    have hv : ifieldValue (introspect S) vars (schemaJ S) "queryType" args = typeRef S (.named "Query") := by
      simp [ifieldValue, getKey, schemaJ, J.get?, J.lookup, tn, rootRef_default hroots.1.1, typeRef]
    rw [hv]
  · -- mutationType
    obtain ⟨hne, hk, hnd, _⟩ := ok1_comp h hc
    rw [sel1_comp _ _ _ _ _ _ hne]
    simp only [schemaP1]
    rw [typeV_spec S vars hS.reasons _ sub hk hnd]
    have hv : ifieldValue (introspect S) vars (schemaJ S) "mutationType" args = typeRef S (.named "Mutation") := by
      simp [ifieldValue, getKey, schemaJ, J.get?, J.lookup, tn, rootRef_default hroots.1.2, typeRef]
    rw [hv]
  · -- subscriptionType
    obtain ⟨hne, hk, hnd, _⟩ := ok1_comp h hc
    rw [sel1_comp _ _ _ _ _ _ hne]
    simp only [schemaP1]
    rw [typeV_spec S vars hS.reasons _ sub hk hnd]
    have hv : ifieldValue (introspect S) vars (schemaJ S) "subscriptionType" args = typeRef S (.named "Subscription") := by
      simp [ifieldValue, getKey, schemaJ, J.get?, J.lookup, tn, rootRef_default hroots.2, typeRef]
    rw [hv]
  · -- directives
    obtain ⟨hne, hk, hnd, hmap⟩ := ok1_comp h hc
    have hh : hasName sub = true := hmap (by decide)
    rw [sel1_comp _ _ _ _ _ _ hne]
    simp only [schemaP1, sortPayload, sortable_of_hasName hnd hh, if_true]
    rw [sortByName_of_perm (·.name) _ dirOrd S.directives hdir
      (fun d hm => dirs_elem_name S vars hS.reasons sub hk hnd hh d (hS.locations d hm)) hS.dirsSorted]
    have hv : ifieldValue (introspect S) vars (schemaJ S) "directives" args = .arr (S.directives.map (directiveJ S)) := by
      simp [ifieldValue, getKey, schemaJ, J.get?, J.lookup, tn]
    rw [hv]
    congr 2
    apply arr_assign_eq
    · intro d hm
      exact dirs_elem S vars hS.reasons sub hk hnd d (hS.locations d hm)
    · intro d _ l; simp [directiveJ]

mutual
  theorem schemaP1_eq (S : Schema) (hS : SchemaOK S) (tyOrd : List TypeDef) (dirOrd : List DirDef)
      (hty : tyOrd.Perm S.types) (hdir : dirOrd.Perm S.directives) (vars : List (String × J)) :
      (s : ISel) → ok1 .schema s = true → schemaP1 S tyOrd dirOrd vars s = sel1 (introspect S) vars (schemaJ S) s
    | .inline sub, h => by
      simp only [schemaP1, sel1]
      exact schemaP_eq S hS tyOrd dirOrd hty hdir vars sub (by simpa [ok1] using h)
    | .field a n args sub, h => schemaP1_step S hS tyOrd dirOrd hty hdir vars a n args sub h
  theorem schemaP_eq (S : Schema) (hS : SchemaOK S) (tyOrd : List TypeDef) (dirOrd : List DirDef)
      (hty : tyOrd.Perm S.types) (hdir : dirOrd.Perm S.directives) (vars : List (String × J)) :
      (sels : List ISel) → okL .schema sels = true → schemaP S tyOrd dirOrd vars sels = selL (introspect S) vars (schemaJ S) sels
    | [], _ => rfl
    | s :: rest, h => by
      simp only [okL, Bool.and_eq_true] at h
      simp only [schemaP, selL, schemaP1_eq S hS tyOrd dirOrd hty hdir vars s h.1, schemaP_eq S hS tyOrd dirOrd hty hdir vars rest h.2]
end

/-! ### the root selection set -/

theorem rootP1_step (S : Schema) (hS : SchemaOK S) (hG : Gen.Introspect.typeNameReadsVariables = true)
    (tyOrd : List TypeDef) (dirOrd : List DirDef)
    (hty : tyOrd.Perm S.types) (hdir : dirOrd.Perm S.directives) (vars : List (String × J))
    (a n : String) (args : List (String × IVal)) (sub : List ISel)
    (h : ok1 .root (.field a n args sub) = true) :
    rootP1 S tyOrd dirOrd vars (.field a n args sub) = sel1 (introspect S) vars (introspect S) (.field a n args sub) := by
  have hc : ∃ r, child .root n = some r := by
    unfold ok1 at h; split at h <;> simp_all
  obtain ⟨r, hc⟩ := hc
  rcases child_root hc with ⟨rfl, rfl⟩ | ⟨rfl, rfl⟩
  · -- __schema
    obtain ⟨hne, hk, hnd, _⟩ := ok1_comp h hc
    rw [sel1_comp _ _ _ _ _ _ hne]
    simp only [rootP1]
    have hv : ifieldValue (introspect S) vars (introspect S) "__schema" args = schemaJ S := by
      simp [ifieldValue, getKey, introspect, J.get?, J.lookup]
    rw [hv]
    congr 2
    exact obj_assign_eq _ _ _ (by simpa [schemaJ] using schemaP_eq S hS tyOrd dirOrd hty hdir vars sub hk) hnd
  · -- __type
    obtain ⟨hne, hk, hnd, _⟩ := ok1_comp h hc
    rw [sel1_comp _ _ _ _ _ _ hne]
    simp only [rootP1, hG, if_true]
    rw [typeV_spec S vars hS.reasons _ sub hk hnd]
    have hv : ifieldValue (introspect S) vars (introspect S) "__type" args = findType (introspect S) (ISel.strArg vars args "name") := by
      simp [ifieldValue]
    rw [hv, findType_introspect]
    cases hty' : S.type? (ISel.strArg vars args "name") with
    | none => simp [typeRef, namedRef, hty']
    | some td =>
      have hname := type?_name hty'
      have hty2 : S.type? td.name = some td := by rw [hname]; exact hty'
      have hr : typeRef S (.named (ISel.strArg vars args "name"))
          = .obj [tn "__Type", ("kind", .str td.kind.toString), ("name", .str td.name), ("ofType", .null)] := by
        simp [typeRef, namedRef, hty', hname]
      simp only [hr]
      have hf : fullType S td = .obj (match fullType S td with | .obj kvs => kvs | _ => []) := by simp [fullType]
      rw [projV_obj, hf, projV_obj, ← hf]
      rw [selL_congr _ _ _ _ (fun k => (getKey_full_eq_ref S hty2 k).symm)]

mutual
  theorem rootP1_eq (S : Schema) (hS : SchemaOK S) (hG : Gen.Introspect.typeNameReadsVariables = true)
      (tyOrd : List TypeDef) (dirOrd : List DirDef)
      (hty : tyOrd.Perm S.types) (hdir : dirOrd.Perm S.directives) (vars : List (String × J)) :
      (s : ISel) → ok1 .root s = true → rootP1 S tyOrd dirOrd vars s = sel1 (introspect S) vars (introspect S) s
    | .inline sub, h => by
      simp only [rootP1, sel1]
      exact rootP_eq S hS hG tyOrd dirOrd hty hdir vars sub (by simpa [ok1] using h)
    | .field a n args sub, h => rootP1_step S hS hG tyOrd dirOrd hty hdir vars a n args sub h
  theorem rootP_eq (S : Schema) (hS : SchemaOK S) (hG : Gen.Introspect.typeNameReadsVariables = true)
      (tyOrd : List TypeDef) (dirOrd : List DirDef)
      (hty : tyOrd.Perm S.types) (hdir : dirOrd.Perm S.directives) (vars : List (String × J)) :
      (sels : List ISel) → okL .root sels = true → rootP S tyOrd dirOrd vars sels = selL (introspect S) vars (introspect S) sels
    | [], _ => rfl
    | s :: rest, h => by
      simp only [okL, Bool.and_eq_true] at h
      simp only [rootP, selL, rootP1_eq S hS hG tyOrd dirOrd hty hdir vars s h.1, rootP_eq S hS hG tyOrd dirOrd hty hdir vars rest h.2]
end

theorem supportedSchema_ok {S : Schema} (h : supportedSchema S = true) : SchemaOK S := by
  simp only [supportedSchema, strictlySorted, Bool.and_eq_true, decide_eq_true_eq, List.all_eq_true, Bool.not_eq_true',
    List.isEmpty_eq_false_iff] at h
  exact ⟨h.1.1.1.1, h.1.1.1.2, h.1.1.2, h.1.2, h.2⟩

theorem resolve_eq_select (S : Schema) (hS : SchemaOK S) (hG : Gen.Introspect.typeNameReadsVariables = true)
    (tyOrd : List TypeDef) (dirOrd : List DirDef) (hty : tyOrd.Perm S.types) (hdir : dirOrd.Perm S.directives)
    (vars : List (String × J)) (sels : List ISel) (hsel : supportedSel sels = true) (hi : isIntro sels = true) :
    resolve S tyOrd dirOrd vars sels = some (Spec.select vars sels (introspect S)) := by
  simp only [supportedSel, Bool.and_eq_true, decide_eq_true_eq] at hsel
  simp only [resolve, hi, if_true, Spec.select]
  rw [rootP_eq S hS hG tyOrd dirOrd hty hdir vars sels hsel.1]
  congr 2
  apply assignAll_eq_mergePairs
  rw [keys_selL]; exact hsel.2

/-! ### evaluation helpers for the witnesses -/

namespace C16Witness

def agree (S : Schema) (tyOrd : List TypeDef) (vars : List (String × J)) (q : List ISel) : Bool :=
  resolve S tyOrd S.directives vars q == some (Spec.select vars q (Spec.introspect S))

theorem ne_of_agree_false {S : Schema} {tyOrd : List TypeDef} {vars : List (String × J)} {q : List ISel}
    (h : agree S tyOrd vars q = false) : resolve S tyOrd S.directives vars q ≠ some (Spec.select vars q (Spec.introspect S)) := by
  intro e
  unfold agree at h
  rw [e] at h
  have : (some (Spec.select vars q (Spec.introspect S)) == some (Spec.select vars q (Spec.introspect S))) = true := by
    show J.beq _ _ = true
    exact J.beq_refl _
  rw [this] at h; cases h


end C16Witness

end PebblesVerif
