import PebblesVerif.Model.Introspect
import PebblesVerif.Spec.IntrospectSpec
/-!
Helper lemmas for C16 (1): association lists (`J.assignAll`, `Spec.mergePairs`, `J.lookup`),
`J.beq` is equality, response keys of the specification's projection, the stable insertion sort.
-/
namespace PebblesVerif
open PebblesVerif.Spec PebblesVerif.Model.Introspect

/-! ### `J.beq` decides equality (used by the evaluated witnesses) -/

mutual
  theorem J.beq_eq : (a b : J) → J.beq a b = true → a = b
    | .null, .null, _ => rfl
    | .bool a, .bool b, h => by simp [J.beq] at h; simp [h]
    | .num a, .num b, h => by simp [J.beq] at h; simp [h]
    | .str a, .str b, h => by simp [J.beq] at h; simp [h]
    | .arr a, .arr b, h => by simp [J.beq] at h; rw [J.beqL_eq a b h]
    | .obj a, .obj b, h => by simp [J.beq] at h; rw [J.beqO_eq a b h]
    | .null, .bool _, h | .null, .num _, h | .null, .str _, h | .null, .arr _, h | .null, .obj _, h
    | .bool _, .null, h | .bool _, .num _, h | .bool _, .str _, h | .bool _, .arr _, h | .bool _, .obj _, h
    | .num _, .null, h | .num _, .bool _, h | .num _, .str _, h | .num _, .arr _, h | .num _, .obj _, h
    | .str _, .null, h | .str _, .bool _, h | .str _, .num _, h | .str _, .arr _, h | .str _, .obj _, h
    | .arr _, .null, h | .arr _, .bool _, h | .arr _, .num _, h | .arr _, .str _, h | .arr _, .obj _, h
    | .obj _, .null, h | .obj _, .bool _, h | .obj _, .num _, h | .obj _, .str _, h | .obj _, .arr _, h => by
      simp [J.beq] at h
  theorem J.beqL_eq : (a b : List J) → J.beqL a b = true → a = b
    | [], [], _ => rfl
    | x :: xs, y :: ys, h => by
      simp [J.beqL] at h; rw [J.beq_eq x y h.1, J.beqL_eq xs ys h.2]
    | [], _ :: _, h | _ :: _, [], h => by simp [J.beqL] at h
  theorem J.beqO_eq : (a b : List (String × J)) → J.beqO a b = true → a = b
    | [], [], _ => rfl
    | (k, x) :: xs, (l, y) :: ys, h => by
      simp [J.beqO] at h; rw [h.1.1, J.beq_eq x y h.1.2, J.beqO_eq xs ys h.2]
    | [], _ :: _, h | _ :: _, [], h => by simp [J.beqO] at h
end

mutual
  theorem J.beq_refl : (a : J) → J.beq a a = true
    | .null => rfl
    | .bool _ | .num _ | .str _ => by simp [J.beq]
    | .arr a => by simp [J.beq, J.beqL_refl a]
    | .obj a => by simp [J.beq, J.beqO_refl a]
  theorem J.beqL_refl : (a : List J) → J.beqL a a = true
    | [] => rfl
    | x :: xs => by simp [J.beqL, J.beq_refl x, J.beqL_refl xs]
  theorem J.beqO_refl : (a : List (String × J)) → J.beqO a a = true
    | [] => rfl
    | (k, x) :: xs => by simp [J.beqO, J.beq_refl x, J.beqO_refl xs]
end

theorem J.ne_of_beq_false {a b : J} (h : J.beq a b = false) : a ≠ b := by
  intro e; subst e; rw [J.beq_refl] at h; cases h

theorem J.eq_of_beq {a b : J} (h : (a == b) = true) : a = b := J.beq_eq a b h

/-! ### association lists -/

def keysOf (ps : List (String × J)) : List String := ps.map (·.1)

@[simp] theorem keysOf_nil : keysOf [] = [] := rfl
@[simp] theorem keysOf_cons (p : String × J) (ps) : keysOf (p :: ps) = p.1 :: keysOf ps := rfl
@[simp] theorem keysOf_append (a b : List (String × J)) : keysOf (a ++ b) = keysOf a ++ keysOf b := by
  simp [keysOf]

theorem lookup_none_of_not_mem {k : String} : {ps : List (String × J)} → k ∉ keysOf ps → J.lookup k ps = none
  | [], _ => rfl
  | (k', v) :: rest, h => by
    simp [keysOf] at h
    have : ¬ k = k' := h.1
    simp only [J.lookup, this, if_false]
    exact lookup_none_of_not_mem (by simp [keysOf]; exact h.2)

theorem setKey_of_not_mem {k : String} {v : J} : {ps : List (String × J)} → k ∉ keysOf ps → J.setKey k v ps = ps ++ [(k, v)]
  | [], _ => rfl
  | (k', v') :: rest, h => by
    simp [keysOf] at h
    have : ¬ k = k' := h.1
    simp only [J.setKey, this, if_false, List.cons_append]
    rw [setKey_of_not_mem (by simp [keysOf]; exact h.2)]

theorem assignAll_of_nodup : (acc ps : List (String × J)) → (keysOf acc ++ keysOf ps).Nodup → J.assignAll acc ps = acc ++ ps
  | acc, [], _ => by simp [J.assignAll]
  | acc, (k, v) :: rest, h => by
    have hk : k ∉ keysOf acc := by
      intro hm
      have := List.nodup_append.mp h
      exact this.2.2 k hm k (by simp) rfl
    rw [J.assignAll, setKey_of_not_mem hk, assignAll_of_nodup (acc ++ [(k, v)]) rest (by simpa [List.append_assoc] using h)]
    simp

theorem mergePairs_of_nodup : (acc ps : List (String × J)) → (keysOf acc ++ keysOf ps).Nodup → mergePairs acc ps = acc ++ ps
  | acc, [], _ => by simp [mergePairs]
  | acc, (k, v) :: rest, h => by
    have hk : k ∉ keysOf acc := by
      intro hm
      have := List.nodup_append.mp h
      exact this.2.2 k hm k (by simp) rfl
    rw [mergePairs, lookup_none_of_not_mem hk]
    simp only
    rw [mergePairs_of_nodup (acc ++ [(k, v)]) rest (by simpa [List.append_assoc] using h)]
    simp

theorem assignAll_eq_mergePairs {ps : List (String × J)} (h : (keysOf ps).Nodup) :
    J.assignAll [] ps = mergePairs [] ps := by
  rw [assignAll_of_nodup [] ps (by simpa using h), mergePairs_of_nodup [] ps (by simpa using h)]

theorem lookup_of_mem_nodup {k : String} {v : J} : {ps : List (String × J)} → (keysOf ps).Nodup → (k, v) ∈ ps → J.lookup k ps = some v
  | [], _, h => by cases h
  | (k', v') :: rest, hn, h => by
    simp [keysOf] at hn
    rcases List.mem_cons.mp h with h1 | h2
    · cases h1; simp [J.lookup]
    · have : k ≠ k' := by
        intro e; subst e
        exact hn.1 v h2
      simp only [J.lookup, this, if_false]
      exact lookup_of_mem_nodup (by simp [keysOf]; exact hn.2) h2

end PebblesVerif
