import PebblesVerif.Proofs.IntrospectBasic
/-!
Helper lemmas for C16 (3): `sortPayload`. The stable insertion sort of any permutation of a
list whose `name`s are strictly increasing is that list — so the order in which Go's map
iteration visits `schema.Types` / `schema.Directives` cannot be observed once `name` is selected.
-/
namespace PebblesVerif
open PebblesVerif.Model.Introspect

def nameLE (a b : J) : Prop := nameOf a ≤ nameOf b

theorem String.le_of_lt' {a b : String} (h : a < b) : a ≤ b := by
  rcases String.le_total a b with h' | h'
  · exact h'
  · exact absurd h (String.not_lt.mpr h')

theorem mem_insertBy (x y : J) : (l : List J) → (y ∈ insertBy x l ↔ y = x ∨ y ∈ l)
  | [] => by simp [insertBy]
  | z :: zs => by
    unfold insertBy
    split
    · simp only [List.mem_cons, mem_insertBy x y zs]
      constructor
      · rintro (h | h | h) <;> simp [h]
      · rintro (h | h | h) <;> simp [h]
    · simp [List.mem_cons]

theorem insertBy_perm (x : J) : (l : List J) → (insertBy x l).Perm (x :: l)
  | [] => by simp [insertBy]
  | z :: zs => by
    unfold insertBy
    split
    · exact ((insertBy_perm x zs).cons z).trans (List.Perm.swap x z zs)
    · exact List.Perm.refl _

theorem sortByName_perm : (l : List J) → (sortByName l).Perm l
  | [] => by simp [sortByName]
  | x :: xs => by
    simp only [sortByName]
    exact (insertBy_perm x (sortByName xs)).trans ((sortByName_perm xs).cons x)

theorem insertBy_sorted (x : J) : (l : List J) → l.Pairwise nameLE → (insertBy x l).Pairwise nameLE
  | [], _ => by simp [insertBy]
  | z :: zs, h => by
    have hz := List.pairwise_cons.mp h
    unfold insertBy
    split
    · rename_i hlt
      refine List.pairwise_cons.mpr ⟨?_, insertBy_sorted x zs hz.2⟩
      intro y hy
      rcases (mem_insertBy x y zs).mp hy with rfl | hy'
      · exact String.le_of_lt' hlt
      · exact hz.1 y hy'
    · rename_i hnlt
      have hxz : nameOf x ≤ nameOf z := String.not_lt.mp hnlt
      refine List.pairwise_cons.mpr ⟨?_, h⟩
      intro y hy
      rcases List.mem_cons.mp hy with rfl | hy'
      · exact hxz
      · exact String.le_trans hxz (hz.1 y hy')

theorem sortByName_sorted : (l : List J) → (sortByName l).Pairwise nameLE
  | [] => by simp [sortByName]
  | x :: xs => by
    simp only [sortByName]
    exact insertBy_sorted x _ (sortByName_sorted xs)

theorem mem_sortByName (y : J) (l : List J) : y ∈ sortByName l ↔ y ∈ l :=
  (sortByName_perm l).mem_iff

/-- keys strictly increasing along a list: the key determines the element -/
theorem eq_of_key_eq {α : Type} (key : α → String) : (ys : List α) → (ys.map key).Pairwise (· < ·) →
    ∀ x ∈ ys, ∀ y ∈ ys, key x = key y → x = y
  | [], _, x, hx, _, _, _ => by cases hx
  | z :: zs, h, x, hx, y, hy, hk => by
    simp only [List.map_cons, List.pairwise_cons, List.mem_map, forall_exists_index, and_imp, forall_apply_eq_imp_iff₂] at h
    rcases List.mem_cons.mp hx with rfl | hx' <;> rcases List.mem_cons.mp hy with rfl | hy'
    · rfl
    · exact absurd hk (String.ne_of_lt (h.1 y hy'))
    · exact absurd hk.symm (String.ne_of_lt (h.1 x hx'))
    · exact eq_of_key_eq key zs h.2 x hx' y hy' hk

theorem map_sorted_of_keys {α : Type} (key : α → String) (m : α → J) : (ys : List α) →
    (∀ x ∈ ys, nameOf (m x) = key x) → (ys.map key).Pairwise (· < ·) → (ys.map m).Pairwise nameLE
  | [], _, _ => by simp
  | z :: zs, hk, h => by
    simp only [List.map_cons, List.pairwise_cons, List.mem_map, forall_exists_index, and_imp, forall_apply_eq_imp_iff₂] at h ⊢
    refine ⟨?_, map_sorted_of_keys key m zs (fun x hx => hk x (List.mem_cons_of_mem _ hx)) h.2⟩
    intro y hy
    unfold nameLE
    rw [hk z (List.mem_cons_self), hk y (List.mem_cons_of_mem _ hy)]
    exact String.le_of_lt' (h.1 y hy)

/-- `sortPayload` erases the iteration order -/
theorem sortByName_of_perm {α : Type} (key : α → String) (m : α → J) (xs ys : List α) (hp : xs.Perm ys)
    (hk : ∀ x ∈ ys, nameOf (m x) = key x) (hs : (ys.map key).Pairwise (· < ·)) :
    sortByName (xs.map m) = ys.map m := by
  apply List.Perm.eq_of_pairwise (le := nameLE)
  · intro a b ha hb hab hba
    rw [mem_sortByName] at ha
    obtain ⟨x, hx, rfl⟩ := List.mem_map.mp ha
    obtain ⟨y, hy, rfl⟩ := List.mem_map.mp hb
    have hx' : x ∈ ys := hp.mem_iff.mp hx
    unfold nameLE at hab hba
    rw [hk x hx', hk y hy] at hab hba
    rw [eq_of_key_eq key ys hs x hx' y hy (String.le_antisymm hab hba)]
  · exact sortByName_sorted _
  · exact map_sorted_of_keys key m ys hk hs
  · exact (sortByName_perm _).trans (hp.map m)

theorem type?_name {S : Schema} {n : String} {td : TypeDef} (h : S.type? n = some td) : td.name = n := by
  have := List.find?_some h
  simpa using this


theorem type?_of_mem {S : Schema} (hs : (S.types.map (·.name)).Pairwise (· < ·)) {td : TypeDef} (hm : td ∈ S.types) :
    S.type? td.name = some td := by
  unfold Schema.type?
  cases hf : S.types.find? (fun t => t.name == td.name) with
  | none =>
    have := List.find?_eq_none.mp hf td hm
    simp at this
  | some td' =>
    have hm' : td' ∈ S.types := List.mem_of_find?_eq_some hf
    have hn : td'.name = td.name := by simpa using List.find?_some hf
    rw [eq_of_key_eq (·.name) S.types hs td' hm' td hm hn]


end PebblesVerif
