import PebblesVerif.Spec.SchemaUnion
/-!
Helper lemmas about `Model/Merge.lean` for C03, C04, C05 (core Lean only).
`E` is the repaired tree (`Gen.Merge.expected`).
-/
namespace PebblesVerif.Merge
open PebblesVerif PebblesVerif.SchemaUnion
open PebblesVerif.Gen.Merge (Facts expected idFieldName nodeFieldName nodeInterfaceName queryName)

abbrev E : Facts := expected

/-! ## lists -/

theorem mem_uniqBy_sub {key : α → String} : ∀ {l : List α} {x : α}, x ∈ uniqBy key l → x ∈ l
  | [], _, h => by simp [uniqBy] at h
  | y :: ys, x, h => by
    simp only [uniqBy, List.mem_cons, List.mem_filter] at h
    rcases h with h | ⟨h, _⟩
    · exact h ▸ List.mem_cons_self
    · exact List.mem_cons_of_mem _ (mem_uniqBy_sub h)

/-- every key of the list survives `uniqBy` -/
theorem uniqBy_key {key : α → String} : ∀ {l : List α} {x : α}, x ∈ l → ∃ y ∈ uniqBy key l, key y = key x
  | y :: ys, x, h => by
    by_cases hk : key x = key y
    · exact ⟨y, by simp [uniqBy], hk.symm⟩
    · rcases List.mem_cons.mp h with h | h
      · exact absurd (h ▸ rfl) hk
      · obtain ⟨z, hz, hzk⟩ := uniqBy_key (key := key) h
        refine ⟨z, ?_, hzk⟩
        simp only [uniqBy, List.mem_cons, List.mem_filter]
        right
        refine ⟨hz, ?_⟩
        simp [hzk, hk]

theorem mem_uniq {l : List String} {x : String} : x ∈ uniq l ↔ x ∈ l := by
  constructor
  · exact mem_uniqBy_sub
  · intro h
    obtain ⟨y, hy, hk⟩ := uniqBy_key (key := id) h
    simp at hk; exact hk ▸ hy

theorem sameMembers_self (l : List String) : sameMembers l l = true := by
  simp [sameMembers]

theorem sameMembers_comm (a b : List String) : sameMembers a b = sameMembers b a := by
  simp [sameMembers, Bool.and_comm]

theorem sameMembers_sub {a b : List String} (h : sameMembers a b = true) : (∀ x ∈ a, x ∈ b) ∧ (∀ x ∈ b, x ∈ a) := by
  simpa [sameMembers] using h

/-! ## the type map -/

theorem lookup_some {ts : List TypeDef} {k : String} {d : TypeDef} (h : lookup ts k = some d) :
    d ∈ ts ∧ d.name = k := by
  unfold lookup at h
  exact ⟨List.mem_of_find?_eq_some h, by simpa using List.find?_some h⟩

theorem lookup_none {ts : List TypeDef} {k : String} (h : lookup ts k = none) : ∀ d ∈ ts, d.name ≠ k := by
  unfold lookup at h
  intro d hd
  simpa using (List.find?_eq_none.mp h) d hd

theorem lookup_of_nodup {ts : List TypeDef} (hn : (ts.map (·.name)).Nodup) {d : TypeDef} (hd : d ∈ ts) :
    lookup ts d.name = some d := by
  induction ts with
  | nil => cases hd
  | cons t ts ih =>
    simp only [List.map_cons, List.nodup_cons] at hn
    unfold lookup
    rw [List.find?_cons]
    rcases List.mem_cons.mp hd with h | h
    · subst h; simp
    · have hne : t.name ≠ d.name := by
        intro he; exact hn.1 (he ▸ List.mem_map_of_mem h)
      have hb : (t.name == d.name) = false := by simpa using hne
      rw [hb]
      exact ih hn.2 h

theorem mem_setType {d : TypeDef} : ∀ {ts : List TypeDef} {x : TypeDef}, x ∈ setType d ts → x = d ∨ x ∈ ts
  | [], x, h => by simp [setType] at h; exact Or.inl h
  | t :: ts, x, h => by
    unfold setType at h
    split at h
    · rcases List.mem_cons.mp h with h | h
      · exact Or.inl h
      · exact Or.inr (List.mem_cons_of_mem _ h)
    · rcases List.mem_cons.mp h with h | h
      · exact Or.inr (h ▸ List.mem_cons_self)
      · rcases mem_setType h with h | h
        · exact Or.inl h
        · exact Or.inr (List.mem_cons_of_mem _ h)

/-- after `result[k] = d` for the entry `va` that `lookup` found: `d` is in, and everything but
    (at most) `va` stays -/
theorem setType_spec {d va : TypeDef} : ∀ {ts : List TypeDef}, lookup ts d.name = some va →
    d ∈ setType d ts ∧ ∀ x ∈ ts, x = va ∨ x ∈ setType d ts
  | [], h => by simp [lookup] at h
  | t :: ts, h => by
    unfold lookup at h
    rw [List.find?_cons] at h
    unfold setType
    by_cases ht : t.name == d.name
    · simp only [ht, ↓reduceIte] at h ⊢
      cases h
      refine ⟨List.mem_cons_self, ?_⟩
      intro x hx
      rcases List.mem_cons.mp hx with hx | hx
      · exact Or.inl hx
      · exact Or.inr (List.mem_cons_of_mem _ hx)
    · simp only [ht, Bool.false_eq_true, ↓reduceIte] at h ⊢
      obtain ⟨h1, h2⟩ := setType_spec (ts := ts) (by unfold lookup; exact h)
      refine ⟨List.mem_cons_of_mem _ h1, ?_⟩
      intro x hx
      rcases List.mem_cons.mp hx with hx | hx
      · exact Or.inr (hx ▸ List.mem_cons_self)
      · rcases h2 x hx with h | h
        · exact Or.inl h
        · exact Or.inr (List.mem_cons_of_mem _ h)

theorem setType_names {d : TypeDef} : ∀ {ts : List TypeDef}, (lookup ts d.name).isSome →
    (setType d ts).map (·.name) = ts.map (·.name)
  | [], h => by simp [lookup] at h
  | t :: ts, h => by
    unfold lookup at h
    rw [List.find?_cons] at h
    unfold setType
    by_cases ht : t.name == d.name
    · simp only [ht, ↓reduceIte, List.map_cons]
      congr 1
      exact (by simpa using ht : t.name = d.name).symm
    · simp only [ht, Bool.false_eq_true, ↓reduceIte, List.map_cons] at h ⊢
      congr 1
      exact setType_names (by unfold lookup; exact h)

theorem lookup_setType_ne {d : TypeDef} {k : String} (hk : d.name ≠ k) : ∀ {ts : List TypeDef},
    (lookup ts d.name).isSome → lookup (setType d ts) k = lookup ts k
  | [], h => by simp [lookup] at h
  | t :: ts, h => by
    unfold lookup at h ⊢
    rw [List.find?_cons] at h
    unfold setType
    by_cases ht : t.name == d.name
    · have ht' : t.name = d.name := by simpa using ht
      simp only [ht, ↓reduceIte, List.find?_cons]
      have h1 : (d.name == k) = false := by simpa using hk
      have h2 : (t.name == k) = false := by rw [ht']; exact h1
      simp [h1, h2]
    · simp only [ht, Bool.false_eq_true, ↓reduceIte, List.find?_cons] at h ⊢
      have ih := lookup_setType_ne hk (ts := ts) (by unfold lookup; exact h)
      unfold lookup at ih
      rw [ih]

theorem lookup_append_ne {ts : List TypeDef} {v : TypeDef} {k : String} (hk : v.name ≠ k) :
    lookup (ts ++ [v]) k = lookup ts k := by
  unfold lookup
  rw [List.find?_append]
  cases h : List.find? (fun x => x.name == k) ts with
  | some x => simp
  | none => simp [hk]

/-! ## fields and items -/

/-- `g` has every item of `f` -/
def FieldLe (f g : FieldDef) : Prop :=
  g.name = f.name ∧ g.type = f.type ∧ g.default = f.default ∧
  ∀ a ∈ f.args, ∃ a' ∈ g.args, a'.name = a.name ∧ a'.type = a.type ∧ a'.default = a.default

theorem FieldLe.refl (f : FieldDef) : FieldLe f f := ⟨rfl, rfl, rfl, fun a ha => ⟨a, ha, rfl, rfl, rfl⟩⟩

theorem FieldLe.trans {f g h : FieldDef} (h1 : FieldLe f g) (h2 : FieldLe g h) : FieldLe f h := by
  obtain ⟨n1, t1, d1, a1⟩ := h1
  obtain ⟨n2, t2, d2, a2⟩ := h2
  refine ⟨n2.trans n1, t2.trans t1, d2.trans d1, ?_⟩
  intro a ha
  obtain ⟨a', ha', e1, e2, e3⟩ := a1 a ha
  obtain ⟨a'', ha'', f1, f2, f3⟩ := a2 a' ha'
  exact ⟨a'', ha'', f1.trans e1, f2.trans e2, f3.trans e3⟩

theorem fieldItems_sub {T : String} {f g : FieldDef} (h : FieldLe f g) : ∀ it ∈ fieldItems T f, it ∈ fieldItems T g := by
  obtain ⟨hn, ht, hd, ha⟩ := h
  intro it hit
  simp only [fieldItems, List.mem_cons, List.mem_map] at hit ⊢
  rcases hit with rfl | ⟨a, haa, rfl⟩
  · left; rw [hn, ht, hd]
  · right
    obtain ⟨a', ha', e1, e2, e3⟩ := ha a haa
    exact ⟨a', ha', by rw [hn, e1, e2, e3]⟩

theorem isSubArguments_spec {a b : List ArgDef} (h : isSubArguments a b = true) :
    ∀ aa ∈ a, ∃ ba ∈ b, ba.name = aa.name ∧ ba.type = aa.type ∧ ba.default = aa.default := by
  intro aa haa
  unfold isSubArguments at h
  have := (List.all_eq_true.mp h) aa haa
  split at this
  · rename_i ba hfind
    have hm := List.mem_of_find?_eq_some hfind
    have hn := List.find?_some hfind
    simp only [Bool.and_eq_true, beq_iff_eq] at this hn
    exact ⟨ba, hm, hn, this.1.symm, this.2.symm⟩
  · cases this

theorem sameSig_le {r f : FieldDef} (h : isSameSignature r f = true) (hn : r.name = f.name) :
    FieldLe f r ∧ FieldLe r f := by
  unfold isSameSignature at h
  simp only [Bool.and_eq_true, beq_iff_eq] at h
  obtain ⟨⟨⟨ht, hd⟩, h1⟩, h2⟩ := h
  exact ⟨⟨hn, ht, hd, isSubArguments_spec h2⟩, ⟨hn.symm, ht.symm, hd.symm, isSubArguments_spec h1⟩⟩

theorem isSameSignature_comm (a b : FieldDef) : isSameSignature a b = isSameSignature b a := by
  unfold isSameSignature
  rw [show (a.type == b.type) = (b.type == a.type) from Bool.beq_comm ..]
  rw [show (a.default == b.default) = (b.default == a.default) from Bool.beq_comm ..]
  simp only [Bool.and_assoc]
  congr 2
  exact Bool.and_comm ..

/-- `gs` has (an item-equal copy of) every field of `fs` not named `__…` -/
def FieldsCover (fs gs : List FieldDef) : Prop :=
  ∀ f ∈ fs, isBuiltinName f.name = false → ∃ g ∈ gs, FieldLe f g

theorem covers_of {d r : TypeDef} (hn : r.name = d.name) (hk : r.kind = d.kind)
    (hf : hasFields d.kind = true → FieldsCover d.fields r.fields)
    (he : d.kind = .enum → ∀ e ∈ d.enumValues, ∃ e' ∈ r.enumValues, e'.name = e.name)
    (hm : d.kind = .union → ∀ m ∈ d.members, m ∈ r.members)
    (hi : hasInterfaces d.kind = true → ∀ i ∈ d.interfaces, i ∈ r.interfaces) : Covers d r := by
  intro it hit
  simp only [defItems, List.mem_cons, List.mem_append] at hit ⊢
  rw [hn, hk]
  rcases hit with rfl | ((((hit | hit) | hit)) | hit)
  · left; rfl
  · right; left; left; left
    split at hit
    · rename_i hh
      simp only [hh, ↓reduceIte]
      simp only [List.mem_flatMap, List.mem_filter, Bool.not_eq_true', ] at hit ⊢
      obtain ⟨f, ⟨hf1, hf2⟩, hf3⟩ := hit
      obtain ⟨g, hg, hle⟩ := hf hh f hf1 hf2
      exact ⟨g, ⟨hg, by rw [hle.1]; exact hf2⟩, fieldItems_sub hle it hf3⟩
    · cases hit
  · right; left; left; right
    split at hit
    · rename_i hh
      simp only [hh, ↓reduceIte]
      simp only [List.mem_map] at hit ⊢
      obtain ⟨e, he1, rfl⟩ := hit
      obtain ⟨e', he', hen⟩ := he (by simpa using hh) e he1
      exact ⟨e', he', by rw [hen]⟩
    · cases hit
  · right; left; right
    split at hit
    · rename_i hh
      simp only [hh, ↓reduceIte]
      simp only [List.mem_map] at hit ⊢
      obtain ⟨m, hm1, rfl⟩ := hit
      exact ⟨m, hm (by simpa using hh) m hm1, rfl⟩
    · cases hit
  · right; right
    split at hit
    · rename_i hh
      simp only [hh, ↓reduceIte]
      simp only [List.mem_map] at hit ⊢
      obtain ⟨i, hi1, rfl⟩ := hit
      exact ⟨i, hi hh i hi1, rfl⟩
    · cases hit

theorem Covers.refl (d : TypeDef) : Covers d d := fun _ h => h
theorem Covers.trans {a b c : TypeDef} (h1 : Covers a b) (h2 : Covers b c) : Covers a c := fun it h => h2 it (h1 it h)

/-! ## the loop of `mergeCustomObjectFields` (repaired tree) -/

theorem fieldNamed_some {fs : List FieldDef} {n : String} {r : FieldDef} (h : fieldNamed fs n = some r) :
    r ∈ fs ∧ r.name = n := by
  unfold fieldNamed at h
  exact ⟨List.mem_of_find?_eq_some h, by simpa using List.find?_some h⟩

theorem fieldNamed_none {fs : List FieldDef} {n : String} (h : fieldNamed fs n = none) : ∀ r ∈ fs, r.name ≠ n := by
  unfold fieldNamed at h
  intro r hr
  simpa using (List.find?_eq_none.mp h) r hr

theorem fieldStep_cases {n : String} {st st' : FieldLoop} {f : FieldDef} (h : fieldStep E n st f = .ok st') :
    (st' = st ∧ ∃ r ∈ st.result, r.name = f.name ∧ isSameSignature r f = true ∧ isIDField f = true) ∨
    (st' = ⟨st.result ++ [f], st.flags ++ [true]⟩ ∧ ∃ r ∈ st.result, r.name = f.name ∧ isSameSignature r f = true ∧ isIDField f = false) ∨
    (st' = ⟨st.result ++ [f], st.flags ++ [false]⟩ ∧ fieldNamed st.result f.name = none) := by
  unfold fieldStep at h
  simp only [E, expected, Bool.not_true, Bool.false_and, Bool.true_and, Bool.false_eq_true, ↓reduceIte] at h
  cases hrf : fieldNamed st.result f.name with
  | none =>
    simp only [hrf, Bool.false_eq_true, ↓reduceIte, Option.isSome_none, Bool.and_false] at h
    right; right
    exact ⟨by cases h; rfl, rfl⟩
  | some r =>
    obtain ⟨hr, hrn⟩ := fieldNamed_some hrf
    simp only [hrf, Option.isSome_some, Bool.and_true] at h
    cases hs : isSameSignature r f with
    | false => simp [hs] at h
    | true =>
      simp only [hs, Bool.not_true, Bool.false_eq_true, ↓reduceIte] at h
      cases hid : isIDField f with
      | true =>
        simp only [hid, ↓reduceIte] at h
        left
        exact ⟨by cases h; rfl, r, hr, hrn, hs, rfl⟩
      | false =>
        simp only [hid, Bool.false_eq_true, ↓reduceIte] at h
        right; left
        exact ⟨by cases h; rfl, r, hr, hrn, hs, rfl⟩

theorem foldlM_cons_ok {α β ε} {f : β → α → Except ε β} {a : α} {l : List α} {s s' : β}
    (h : (a :: l).foldlM f s = .ok s') : ∃ s1, f s a = .ok s1 ∧ l.foldlM f s1 = .ok s' := by
  rw [List.foldlM_cons] at h
  cases hf : f s a with
  | error e => rw [hf] at h; cases h
  | ok s1 => rw [hf] at h; exact ⟨s1, rfl, h⟩

/-- the result only grows, by fields of the list -/
theorem fieldLoop_result {n : String} : ∀ (l : List FieldDef) (st st' : FieldLoop),
    l.foldlM (fieldStep E n) st = .ok st' → ∃ ext, st'.result = st.result ++ ext ∧ ∀ x ∈ ext, x ∈ l
  | [], st, st', h => by
    simp only [List.foldlM_nil] at h; cases h; exact ⟨[], by simp, by simp⟩
  | f :: l, st, st', h => by
    obtain ⟨s1, h1, h2⟩ := foldlM_cons_ok h
    obtain ⟨ext, he, hm⟩ := fieldLoop_result l s1 st' h2
    rcases fieldStep_cases h1 with ⟨rfl, _⟩ | ⟨rfl, _⟩ | ⟨rfl, _⟩
    · exact ⟨ext, he, fun x hx => List.mem_cons_of_mem _ (hm x hx)⟩
    · refine ⟨f :: ext, by simp [he], ?_⟩
      intro x hx
      rcases List.mem_cons.mp hx with rfl | hx
      · exact List.mem_cons_self
      · exact List.mem_cons_of_mem _ (hm x hx)
    · refine ⟨f :: ext, by simp [he], ?_⟩
      intro x hx
      rcases List.mem_cons.mp hx with rfl | hx
      · exact List.mem_cons_self
      · exact List.mem_cons_of_mem _ (hm x hx)

/-- every field of the list has an item-equal copy in the growing result -/
theorem fieldLoop_covered {n : String} : ∀ (l : List FieldDef) (st st' : FieldLoop),
    l.foldlM (fieldStep E n) st = .ok st' → ∀ g ∈ l, ∃ r ∈ st'.result, FieldLe g r
  | [], _, _, _ => by simp
  | f :: l, st, st', h => by
    obtain ⟨s1, h1, h2⟩ := foldlM_cons_ok h
    obtain ⟨ext, he, _⟩ := fieldLoop_result l s1 st' h2
    intro g hg
    rcases List.mem_cons.mp hg with rfl | hg
    · have : ∃ r ∈ s1.result, FieldLe g r := by
        rcases fieldStep_cases h1 with ⟨rfl, r, hr, hrn, hs, _⟩ | ⟨rfl, _⟩ | ⟨rfl, _⟩
        · exact ⟨r, hr, (sameSig_le hs hrn).1⟩
        · exact ⟨g, by simp, FieldLe.refl g⟩
        · exact ⟨g, by simp, FieldLe.refl g⟩
      obtain ⟨r, hr, hle⟩ := this
      exact ⟨r, by rw [he]; exact List.mem_append_left _ hr, hle⟩
    · exact fieldLoop_covered l s1 st' h2 g hg

/-- as long as every stored flag is `true`, everything in the growing result has an item-equal
    copy in the base -/
def Back (r0 : List FieldDef) (st : FieldLoop) : Prop :=
  st.flags.all id = true → ∀ r ∈ st.result, ∃ r' ∈ r0, FieldLe r r'

theorem fieldLoop_back {n : String} {r0 : List FieldDef} : ∀ (l : List FieldDef) (st st' : FieldLoop),
    Back r0 st → l.foldlM (fieldStep E n) st = .ok st' → Back r0 st'
  | [], st, st', hb, h => by simp only [List.foldlM_nil] at h; cases h; exact hb
  | f :: l, st, st', hb, h => by
    obtain ⟨s1, h1, h2⟩ := foldlM_cons_ok h
    refine fieldLoop_back l s1 st' ?_ h2
    rcases fieldStep_cases h1 with ⟨rfl, _⟩ | ⟨rfl, r, hr, hrn, hs, _⟩ | ⟨rfl, _⟩
    · exact hb
    · intro hall x hx
      simp only [List.all_append, List.all_cons, List.all_nil, Bool.and_true, Bool.and_eq_true] at hall
      rcases List.mem_append.mp hx with hx | hx
      · exact hb hall.1 x hx
      · simp only [List.mem_singleton] at hx
        subst hx
        obtain ⟨r', hr', hle⟩ := hb hall.1 r hr
        exact ⟨r', hr', (sameSig_le hs hrn).1.trans hle⟩
    · intro hall
      simp at hall

/-- flags only grow -/
theorem fieldLoop_flags {n : String} : ∀ (l : List FieldDef) (st st' : FieldLoop),
    l.foldlM (fieldStep E n) st = .ok st' → ∃ fl, st'.flags = st.flags ++ fl
  | [], st, st', h => by simp only [List.foldlM_nil] at h; cases h; exact ⟨[], by simp⟩
  | f :: l, st, st', h => by
    obtain ⟨s1, h1, h2⟩ := foldlM_cons_ok h
    obtain ⟨fl, hfl⟩ := fieldLoop_flags l s1 st' h2
    rcases fieldStep_cases h1 with ⟨rfl, _⟩ | ⟨rfl, _⟩ | ⟨rfl, _⟩
    · exact ⟨fl, hfl⟩
    · exact ⟨true :: fl, by simp [hfl]⟩
    · exact ⟨false :: fl, by simp [hfl]⟩

/-- what a successful `mergeCustomObjectFields(a, b)` returns, item-wise -/
theorem customFields_spec {a b : TypeDef} {fs : List FieldDef} (hq : (a.name == queryName) = false)
    (h : mergeCustomObjectFields E a b = .ok fs) :
    (∀ f ∈ a.fields, f ∈ fs) ∧
    (∀ g ∈ b.fields, isBuiltinName g.name = false → ∃ r ∈ fs, FieldLe g r) ∧
    (∀ r ∈ fs, r ∈ a.fields ∨ r ∈ b.fields) := by
  unfold mergeCustomObjectFields at h
  have hr0 : a.fields.filter (fun f => !(a.name == queryName && isNodeField E f)) = a.fields := by
    simp [hq]
  simp only [hr0, bind, Except.bind] at h
  split at h
  · cases h
  · rename_i st hst
    have hres := fieldLoop_result _ _ _ hst
    have hcov := fieldLoop_covered _ _ _ hst
    have hback : Back a.fields st := fieldLoop_back (r0 := a.fields) _ _ _ (by
      intro _ r hr; exact ⟨r, hr, FieldLe.refl r⟩) hst
    obtain ⟨ext, hext, hextm⟩ := hres
    simp only at hext
    have hmf : ∀ g ∈ b.fields, isBuiltinName g.name = false → g ∈ mergeableFields b := by
      intro g hg hb; simp [mergeableFields, hg, hb]
    split at h
    · cases h
    · split at h
      · cases h
      · split at h
        · rename_i hall
          cases h
          refine ⟨fun f hf => hf, ?_, fun r hr => Or.inl hr⟩
          intro g hg hb
          obtain ⟨r, hr, hle⟩ := hcov g (hmf g hg hb)
          obtain ⟨r', hr', hle'⟩ := hback hall r hr
          exact ⟨r', hr', hle.trans hle'⟩
        · cases h
          refine ⟨fun f hf => by rw [hext]; exact List.mem_append_left _ hf, ?_, ?_⟩
          · intro g hg hb
            exact hcov g (hmf g hg hb)
          · intro r hr
            rw [hext] at hr
            rcases List.mem_append.mp hr with hr | hr
            · exact Or.inl hr
            · have := hextm r hr
              simp only [mergeableFields, List.mem_filter] at this
              exact Or.inr this.1

/-! ## the loop of `mergeRootObjects` (repaired tree) -/

theorem rootStep_cases {n : String} {fields fields' : List FieldDef} {f : FieldDef}
    (h : rootStep E n fields f = .ok fields') :
    (fields' = fields ∧ isBuiltinName f.name = true) ∨
    (fields' = fields ∧ isBuiltinName f.name = false ∧ ∃ rf ∈ fields, rf.name = f.name ∧
        isNodeField E f = true ∧ isNodeField E rf = true ∧ isSameSignature rf f = true) ∨
    (fields' = fields ++ [f] ∧ isBuiltinName f.name = false ∧ fieldNamed fields f.name = none) := by
  unfold rootStep at h
  simp only [show E.rootKeepsNodeField = true from rfl, ↓reduceIte] at h
  cases hb : isBuiltinName f.name with
  | true => simp only [hb, ↓reduceIte] at h; left; exact ⟨by cases h; rfl, rfl⟩
  | false =>
    simp only [hb, Bool.false_eq_true, ↓reduceIte] at h
    cases hrf : fieldNamed fields f.name with
    | none => simp only [hrf] at h; right; right; exact ⟨by cases h; rfl, rfl, rfl⟩
    | some rf =>
      obtain ⟨hr, hrn⟩ := fieldNamed_some hrf
      simp only [hrf] at h
      by_cases hc : (isNodeField E f && isNodeField E rf && isSameSignature rf f) = true
      · rw [if_pos hc] at h
        simp only [Bool.and_eq_true] at hc
        right; left
        exact ⟨by cases h; rfl, rfl, rf, hr, hrn, hc.1.1, hc.1.2, hc.2⟩
      · rw [if_neg hc] at h; cases h

theorem rootFold_spec {n : String} : ∀ (l : List FieldDef) (fs0 fs : List FieldDef),
    l.foldlM (rootStep E n) fs0 = .ok fs →
    (∃ ext, fs = fs0 ++ ext ∧ ∀ x ∈ ext, x ∈ l) ∧
    (∀ g ∈ l, isBuiltinName g.name = false → ∃ r ∈ fs, FieldLe g r) ∧
    (∀ g ∈ l, isBuiltinName g.name = false → (∃ f ∈ fs0, f.name = g.name) → isNodeField E g = true)
  | [], fs0, fs, h => by
    simp only [List.foldlM_nil] at h; cases h
    exact ⟨⟨[], by simp, by simp⟩, by simp, by simp⟩
  | f :: l, fs0, fs, h => by
    obtain ⟨s1, h1, h2⟩ := foldlM_cons_ok h
    obtain ⟨⟨ext, he, hm⟩, hcov, hdis⟩ := rootFold_spec l s1 fs h2
    have hs1 : ∃ e1, s1 = fs0 ++ e1 ∧ ∀ x ∈ e1, x = f := by
      rcases rootStep_cases h1 with ⟨rfl, _⟩ | ⟨rfl, _⟩ | ⟨rfl, _⟩
      · exact ⟨[], by simp, by simp⟩
      · exact ⟨[], by simp, by simp⟩
      · exact ⟨[f], rfl, by simp⟩
    obtain ⟨e1, hs1e, he1⟩ := hs1
    refine ⟨⟨e1 ++ ext, by rw [he, hs1e, List.append_assoc], ?_⟩, ?_, ?_⟩
    · intro x hx
      rcases List.mem_append.mp hx with hx | hx
      · rw [he1 x hx]; exact List.mem_cons_self
      · exact List.mem_cons_of_mem _ (hm x hx)
    · intro g hg hb
      rcases List.mem_cons.mp hg with rfl | hg
      · have : ∃ r ∈ s1, FieldLe g r := by
          rcases rootStep_cases h1 with ⟨_, hbt⟩ | ⟨rfl, _, rf, hr, hrn, _, _, hs⟩ | ⟨rfl, _, _⟩
          · rw [hb] at hbt; cases hbt
          · exact ⟨rf, hr, (sameSig_le hs hrn).1⟩
          · exact ⟨g, by simp, FieldLe.refl g⟩
        obtain ⟨r, hr, hle⟩ := this
        exact ⟨r, by rw [he]; exact List.mem_append_left _ hr, hle⟩
      · exact hcov g hg hb
    · intro g hg hb hex
      rcases List.mem_cons.mp hg with rfl | hg
      · rcases rootStep_cases h1 with ⟨_, hbt⟩ | ⟨_, _, _, _, _, hnf, _, _⟩ | ⟨_, _, hnone⟩
        · rw [hb] at hbt; cases hbt
        · exact hnf
        · obtain ⟨f', hf', hfn⟩ := hex
          exact absurd hfn (fieldNamed_none hnone f' hf')
      · obtain ⟨f', hf', hfn⟩ := hex
        exact hdis g hg hb ⟨f', by rw [hs1e]; exact List.mem_append_left _ hf', hfn⟩

theorem mergeRootObjects_spec {a b d : TypeDef} (h : mergeRootObjects E a b = .ok d) :
    d.name = a.name ∧ d.kind = .object ∧ d.interfaces = uniq (a.interfaces ++ b.interfaces) ∧
    d.members = [] ∧ d.enumValues = [] ∧ b.fields.foldlM (rootStep E a.name) a.fields = .ok d.fields := by
  unfold mergeRootObjects at h
  simp only [bind, Except.bind, pure, Except.pure] at h
  split at h
  · cases h
  · rename_i fs hfs
    cases h
    exact ⟨rfl, rfl, rfl, rfl, rfl, hfs⟩

theorem mergeCustomObjects_spec {a b d : TypeDef} (h : mergeCustomObjects E a b = .ok d) :
    d.name = a.name ∧ d.kind = a.kind ∧ d.interfaces = uniq (a.interfaces ++ b.interfaces) ∧
    d.members = uniq (a.members ++ b.members) ∧
    d.enumValues = uniqBy (·.name) (a.enumValues ++ b.enumValues) ∧
    mergeCustomObjectFields E a b = .ok d.fields ∧ (∃ fs, mergeCustomObjectFields E b a = .ok fs) := by
  unfold mergeCustomObjects at h
  simp only [bind, Except.bind, pure, Except.pure] at h
  split at h
  · cases h
  · rename_i fs hfs
    split at h
    · cases h
    · rename_i fs2 hfs2
      cases h
      exact ⟨rfl, rfl, rfl, rfl, rfl, hfs, fs2, hfs2⟩

/-- a merged definition has nothing but what its two sources have -/
theorem items_from {d a b : TypeDef} (hna : a.name = d.name) (hnb : b.name = d.name)
    (hka : a.kind = d.kind) (hkb : b.kind = d.kind)
    (hf : ∀ r ∈ d.fields, r ∈ a.fields ∨ r ∈ b.fields)
    (he : ∀ e ∈ d.enumValues, e ∈ a.enumValues ∨ e ∈ b.enumValues)
    (hm : ∀ m ∈ d.members, m ∈ a.members ∨ m ∈ b.members)
    (hi : ∀ i ∈ d.interfaces, i ∈ a.interfaces ∨ i ∈ b.interfaces) :
    ∀ it ∈ defItems d, it ∈ defItems a ∨ it ∈ defItems b := by
  intro it hit
  simp only [defItems, List.mem_cons, List.mem_append, hna, hnb, hka, hkb] at hit ⊢
  rcases hit with rfl | ((((hit | hit) | hit)) | hit)
  · left; left; rfl
  · split at hit
    · rename_i hh
      simp only [List.mem_flatMap, List.mem_filter] at hit
      obtain ⟨f, ⟨hf1, hf2⟩, hf3⟩ := hit
      rcases hf f hf1 with h | h
      · left; right; left; left; left
        simp only [hh, ↓reduceIte, List.mem_flatMap, List.mem_filter]; exact ⟨f, ⟨h, hf2⟩, hf3⟩
      · right; right; left; left; left
        simp only [hh, ↓reduceIte, List.mem_flatMap, List.mem_filter]; exact ⟨f, ⟨h, hf2⟩, hf3⟩
    · cases hit
  · split at hit
    · rename_i hh
      simp only [List.mem_map] at hit
      obtain ⟨e, he1, rfl⟩ := hit
      rcases he e he1 with h | h
      · left; right; left; left; right
        simp only [hh, ↓reduceIte, List.mem_map]; exact ⟨e, h, rfl⟩
      · right; right; left; left; right
        simp only [hh, ↓reduceIte, List.mem_map]; exact ⟨e, h, rfl⟩
    · cases hit
  · split at hit
    · rename_i hh
      simp only [List.mem_map] at hit
      obtain ⟨m, hm1, rfl⟩ := hit
      rcases hm m hm1 with h | h
      · left; right; left; right
        simp only [hh, ↓reduceIte, List.mem_map]; exact ⟨m, h, rfl⟩
      · right; right; left; right
        simp only [hh, ↓reduceIte, List.mem_map]; exact ⟨m, h, rfl⟩
    · cases hit
  · split at hit
    · rename_i hh
      simp only [List.mem_map] at hit
      obtain ⟨i, hi1, rfl⟩ := hit
      rcases hi i hi1 with h | h
      · left; right; right
        simp only [hh, ↓reduceIte, List.mem_map]; exact ⟨i, h, rfl⟩
      · right; right; right
        simp only [hh, ↓reduceIte, List.mem_map]; exact ⟨i, h, rfl⟩
    · cases hit

/-! ## `mergeDef` (repaired tree) -/

theorem except_map_some_ok {x : Except MergeErr TypeDef} {od : Option TypeDef} (h : x.map some = .ok od) :
    ∃ d, od = some d ∧ x = .ok d := by
  cases x with
  | error e => cases h
  | ok d => cases h; exact ⟨d, rfl, rfl⟩

theorem mergeDef_spec {as bs : Schema} {va vb : TypeDef} {od : Option TypeDef}
    (h : mergeDef E as bs va vb = .ok od) (hn : va.name = vb.name) :
    (od = none ∧ vb.name = nodeInterfaceName) ∨
    (vb.name ≠ nodeInterfaceName ∧ vb.kind = va.kind ∧ (
      (vb.kind = .scalar ∧ od = some vb) ∨
      (vb.kind = .union ∧ od = none ∧ sameMembers va.members vb.members = true) ∨
      (vb.kind ≠ .scalar ∧ vb.kind ≠ .union ∧ implementsNode vb = implementsNode va ∧
        ((isRootName vb.name = true ∧ ∃ d, od = some d ∧ mergeRootObjects E vb va = .ok d) ∨
         (isRootName vb.name = false ∧ ∃ d, od = some d ∧ mergeCustomObjects E vb va = .ok d))))) := by
  unfold mergeDef at h
  by_cases h1 : (vb.name == nodeInterfaceName) = true
  · rw [if_pos h1] at h; cases h; left; exact ⟨rfl, by simpa using h1⟩
  · rw [if_neg h1] at h
    right
    refine ⟨by simpa using h1, ?_⟩
    by_cases h2 : (vb.kind != va.kind) = true
    · rw [if_pos h2] at h; cases h
    · rw [if_neg h2] at h
      have hk : vb.kind = va.kind := by simpa using h2
      refine ⟨hk, ?_⟩
      by_cases h3 : (vb.kind == Kind.scalar) = true
      · rw [if_pos h3] at h; cases h; left; exact ⟨by simpa using h3, rfl⟩
      · rw [if_neg h3] at h
        by_cases h4 : (vb.kind == Kind.union) = true
        · rw [if_pos h4] at h
          right; left
          by_cases h5 : sameMembers va.members vb.members = true
          · rw [if_pos h5] at h; cases h; exact ⟨by simpa using h4, rfl, h5⟩
          · rw [if_neg h5] at h; cases h
        · rw [if_neg h4] at h
          right; right
          have hself : sameMembers (possibleNames as va.name) (possibleNames (if E.ifaceSelfCompare = true then as else bs) vb.name) = true := by
            simp only [show E.ifaceSelfCompare = true from rfl, ↓reduceIte, hn]
            exact sameMembers_self _
          rw [hself] at h
          simp only [Bool.not_true, Bool.and_false, Bool.false_eq_true, ↓reduceIte] at h
          by_cases h6 : (implementsNode vb != implementsNode va) = true
          · rw [if_pos h6] at h; cases h
          · rw [if_neg h6] at h
            refine ⟨by simpa using h3, by simpa using h4, by simpa using h6, ?_⟩
            simp only [show E.newSideFirst = true from rfl, ↓reduceIte] at h
            by_cases h7 : isRootName vb.name = true
            · rw [if_pos h7] at h; left; exact ⟨h7, except_map_some_ok h⟩
            · rw [if_neg h7] at h; right; exact ⟨by simpa using h7, except_map_some_ok h⟩

theorem notQuery_of_notRoot {n : String} (h : isRootName n = false) : (n == queryName) = false := by
  unfold isRootName at h
  simp only [Bool.or_eq_false_iff] at h
  exact h.1.1

/-- `mergeCustomObjects(vb, va)`: the merged definition covers both, and has nothing else -/
theorem custom_covers {va vb d : TypeDef} (h : mergeCustomObjects E vb va = .ok d) (hn : va.name = vb.name)
    (hk : vb.kind = va.kind) (hr : isRootName vb.name = false) :
    Covers va d ∧ Covers vb d ∧ (∀ it ∈ defItems d, it ∈ defItems va ∨ it ∈ defItems vb) ∧ d.name = vb.name := by
  obtain ⟨dn, dk, di, dm, de, df, _⟩ := mergeCustomObjects_spec h
  obtain ⟨fa, fb, fn⟩ := customFields_spec (notQuery_of_notRoot hr) df
  refine ⟨?_, ?_, ?_, dn⟩
  · apply covers_of (by rw [dn, hn]) (by rw [dk, hk])
    · intro _ f hf hb; exact fb f hf hb
    · intro _ e he
      obtain ⟨y, hy, hyk⟩ := uniqBy_key (key := fun (e : EnumVal) => e.name) (l := vb.enumValues ++ va.enumValues) (List.mem_append_right _ he)
      exact ⟨y, by rw [de]; exact hy, hyk⟩
    · intro _ m hm; rw [dm, mem_uniq]; exact List.mem_append_right _ hm
    · intro _ i hi; rw [di, mem_uniq]; exact List.mem_append_right _ hi
  · apply covers_of dn dk
    · intro _ f hf _; exact ⟨f, fa f hf, FieldLe.refl f⟩
    · intro _ e he
      obtain ⟨y, hy, hyk⟩ := uniqBy_key (key := fun (e : EnumVal) => e.name) (l := vb.enumValues ++ va.enumValues) (List.mem_append_left _ he)
      exact ⟨y, by rw [de]; exact hy, hyk⟩
    · intro _ m hm; rw [dm, mem_uniq]; exact List.mem_append_left _ hm
    · intro _ i hi; rw [di, mem_uniq]; exact List.mem_append_left _ hi
  · apply items_from (by rw [dn, hn]) dn.symm (by rw [dk, hk]) dk.symm
    · intro r hr'; exact (fn r hr').symm
    · intro e he; rw [de] at he; exact (List.mem_append.mp (mem_uniqBy_sub he)).symm
    · intro m hm; rw [dm, mem_uniq] at hm; exact (List.mem_append.mp hm).symm
    · intro i hi; rw [di, mem_uniq] at hi; exact (List.mem_append.mp hi).symm

/-- `mergeRootObjects(vb, va)` for object definitions -/
theorem root_covers {va vb d : TypeDef} (h : mergeRootObjects E vb va = .ok d) (hn : va.name = vb.name)
    (hk : vb.kind = va.kind) (hobj : vb.kind = .object) :
    Covers va d ∧ Covers vb d ∧ (∀ it ∈ defItems d, it ∈ defItems va ∨ it ∈ defItems vb) ∧ d.name = vb.name := by
  obtain ⟨dn, dk, di, dm, de, df⟩ := mergeRootObjects_spec h
  obtain ⟨⟨ext, hext, hextm⟩, hcov, _⟩ := rootFold_spec _ _ _ df
  have hka : va.kind = .object := hk ▸ hobj
  refine ⟨?_, ?_, ?_, dn⟩
  · apply covers_of (by rw [dn, hn]) (by rw [dk, hka])
    · intro _ f hf hb; exact hcov f hf hb
    · intro he; rw [hka] at he; cases he
    · intro hu; rw [hka] at hu; cases hu
    · intro _ i hi; rw [di, mem_uniq]; exact List.mem_append_right _ hi
  · apply covers_of dn (by rw [dk, hobj])
    · intro _ f hf _; exact ⟨f, by rw [hext]; exact List.mem_append_left _ hf, FieldLe.refl f⟩
    · intro he; rw [hobj] at he; cases he
    · intro hu; rw [hobj] at hu; cases hu
    · intro _ i hi; rw [di, mem_uniq]; exact List.mem_append_left _ hi
  · apply items_from (by rw [dn, hn]) dn.symm (by rw [dk, hka]) (by rw [dk, hobj])
    · intro r hr
      rw [hext] at hr
      rcases List.mem_append.mp hr with hr | hr
      · exact Or.inr hr
      · exact Or.inl (hextm r hr)
    · intro e he; rw [de] at he; cases he
    · intro m hm; rw [dm] at hm; cases hm
    · intro i hi; rw [di, mem_uniq] at hi; exact (List.mem_append.mp hi).symm

/-- a union kept as it is covers an equal-membered one -/
theorem union_covers {va vb : TypeDef} (hn : va.name = vb.name) (hk : vb.kind = va.kind) (hu : vb.kind = .union)
    (hs : sameMembers va.members vb.members = true) : Covers vb va := by
  apply covers_of hn hk.symm
  · intro hf; rw [hu] at hf; cases hf
  · intro he; rw [hu] at he; cases he
  · intro _ m hm; exact (sameMembers_sub hs).2 m hm
  · intro hi; rw [hu] at hi; cases hi

theorem scalar_covers {va vb : TypeDef} (hn : va.name = vb.name) (hk : vb.kind = va.kind) (hs : vb.kind = .scalar) :
    Covers va vb := by
  apply covers_of hn.symm hk
  · intro hf; rw [← hk, hs] at hf; cases hf
  · intro he; rw [← hk, hs] at he; cases he
  · intro hu; rw [← hk, hs] at hu; cases hu
  · intro hi; rw [← hk, hs] at hi; cases hi

/-! ## one iteration of `mergeTypes` -/

theorem mergeOne_cases {as bs : Schema} {res res' : List TypeDef} {vb : TypeDef}
    (h : mergeOne E as bs res vb = .ok res') :
    (isBuiltinName vb.name = true ∧ res' = res) ∨
    (isBuiltinName vb.name = false ∧ lookup res vb.name = none ∧ res' = res ++ [vb]) ∨
    (isBuiltinName vb.name = false ∧ ∃ va, lookup res vb.name = some va ∧
      ((mergeDef E as bs va vb = .ok none ∧ res' = res) ∨
       (∃ d, mergeDef E as bs va vb = .ok (some d) ∧ res' = setType d res))) := by
  unfold mergeOne at h
  cases hb : isBuiltinName vb.name with
  | true => simp only [hb, ↓reduceIte] at h; cases h; left; exact ⟨rfl, rfl⟩
  | false =>
    simp only [hb, Bool.false_eq_true, ↓reduceIte] at h
    right
    cases hl : lookup res vb.name with
    | none => simp only [hl] at h; cases h; left; exact ⟨rfl, rfl, rfl⟩
    | some va =>
      simp only [hl] at h
      right
      refine ⟨rfl, va, rfl, ?_⟩
      cases hm : mergeDef E as bs va vb with
      | error e => simp only [hm] at h; cases h
      | ok od =>
        cases od with
        | none => simp only [hm] at h; cases h; left; exact ⟨rfl, rfl⟩
        | some d => simp only [hm] at h; cases h; right; exact ⟨d, rfl, rfl⟩

/-- the facts about one iteration that the fold needs -/
structure StepFacts (res res' : List TypeDef) (vb : TypeDef) : Prop where
  /-- everything the map had is still covered -/
  keeps : ∀ d ∈ res, ∃ r ∈ res', Covers d r
  /-- the new definition is covered (types named `__…` aside; `Node` if the kept one covers it) -/
  adds : isBuiltinName vb.name = false →
    (vb.name ≠ nodeInterfaceName ∨ ∀ va, lookup res vb.name = some va → Covers vb va) → ∃ r ∈ res', Covers vb r
  /-- nothing else comes in -/
  noInv : ∀ r ∈ res', ∀ it ∈ defItems r, (∃ d ∈ res, it ∈ defItems d) ∨ it ∈ defItems vb
  /-- a definition named `Node` is never rebuilt -/
  node : ∀ r ∈ res', r.name = nodeInterfaceName → r ∈ res ∨ r = vb
  /-- keys stay distinct -/
  nodup : (res.map (·.name)).Nodup → (res'.map (·.name)).Nodup

theorem mergeOne_spec {as bs : Schema} {res res' : List TypeDef} {vb : TypeDef}
    (h : mergeOne E as bs res vb = .ok res') (hroot : isRootName vb.name = true → vb.kind = .object) :
    StepFacts res res' vb := by
  rcases mergeOne_cases h with ⟨_, rfl⟩ | ⟨hb, hl, rfl⟩ | ⟨hb, va, hl, hcase⟩
  · exact ⟨fun d hd => ⟨d, hd, Covers.refl d⟩, fun hb' => by simp_all,
      fun r hr it hit => Or.inl ⟨r, hr, hit⟩, fun r hr _ => Or.inl hr, fun hn => hn⟩
  · refine ⟨fun d hd => ⟨d, List.mem_append_left _ hd, Covers.refl d⟩,
      fun _ _ => ⟨vb, by simp, Covers.refl vb⟩, ?_, ?_, ?_⟩
    · intro r hr it hit
      rcases List.mem_append.mp hr with hr | hr
      · exact Or.inl ⟨r, hr, hit⟩
      · simp only [List.mem_singleton] at hr; subst hr; exact Or.inr hit
    · intro r hr _
      rcases List.mem_append.mp hr with hr | hr
      · exact Or.inl hr
      · simp only [List.mem_singleton] at hr; exact Or.inr hr
    · intro hn
      rw [List.map_append, List.nodup_append]
      refine ⟨hn, by simp, ?_⟩
      intro a ha b hb'
      simp only [List.map_cons, List.map_nil, List.mem_singleton] at hb'
      subst hb'
      obtain ⟨x, hx, hxa⟩ := List.mem_map.mp ha
      exact hxa ▸ lookup_none hl x hx
  · obtain ⟨hva, hvan⟩ := lookup_some hl
    rcases hcase with ⟨hm, rfl⟩ | ⟨d, hm, rfl⟩
    · -- the entry stays: `Node`, or a union with the same members
      refine ⟨fun d hd => ⟨d, hd, Covers.refl d⟩, ?_, fun r hr it hit => Or.inl ⟨r, hr, hit⟩,
        fun r hr _ => Or.inl hr, fun hn => hn⟩
      intro _ hnode
      rcases mergeDef_spec hm hvan with ⟨_, hN⟩ | ⟨hN, hk, hrest⟩
      · rcases hnode with hne | hcov
        · exact absurd hN hne
        · exact ⟨va, hva, hcov va hl⟩
      · rcases hrest with ⟨_, ho⟩ | ⟨hu, _, hs⟩ | ⟨_, _, _, hrc⟩
        · cases ho
        · exact ⟨va, hva, union_covers hvan hk hu hs⟩
        · rcases hrc with ⟨_, d, ho, _⟩ | ⟨_, d, ho, _⟩ <;> cases ho
    · -- the entry is replaced by `d`
      have hsome : (lookup res d.name).isSome → True := fun _ => trivial
      rcases mergeDef_spec hm hvan with ⟨ho, _⟩ | ⟨hN, hk, hrest⟩
      · cases ho
      · have key : Covers va d ∧ Covers vb d ∧ (∀ it ∈ defItems d, it ∈ defItems va ∨ it ∈ defItems vb) ∧ d.name = vb.name := by
          rcases hrest with ⟨hs, ho⟩ | ⟨_, ho, _⟩ | ⟨_, _, _, hrc⟩
          · cases ho
            exact ⟨scalar_covers hvan hk hs, Covers.refl _, fun it hit => Or.inr hit, rfl⟩
          · cases ho
          · rcases hrc with ⟨hr, d', ho, hmr⟩ | ⟨hr, d', ho, hmc⟩
            · cases ho; exact root_covers hmr hvan hk (hroot hr)
            · cases ho; exact custom_covers hmc hvan hk hr
        obtain ⟨cva, cvb, cno, dn⟩ := key
        have hld : lookup res d.name = some va := by rw [dn]; exact hl
        obtain ⟨hdin, hothers⟩ := setType_spec hld
        refine ⟨?_, fun _ _ => ⟨d, hdin, cvb⟩, ?_, ?_, ?_⟩
        · intro x hx
          rcases hothers x hx with rfl | hx'
          · exact ⟨d, hdin, cva⟩
          · exact ⟨x, hx', Covers.refl x⟩
        · intro r hr it hit
          rcases mem_setType hr with rfl | hr
          · rcases cno it hit with h | h
            · exact Or.inl ⟨va, hva, h⟩
            · exact Or.inr h
          · exact Or.inl ⟨r, hr, hit⟩
        · intro r hr hrn
          rcases mem_setType hr with rfl | hr
          · exact absurd (dn ▸ hrn) hN
          · exact Or.inl hr
        · intro hn
          rw [setType_names (by rw [hld]; rfl)]; exact hn

/-! ## `mergeTypes`: the fold over `b` -/

structure FoldFacts (a b r : List TypeDef) : Prop where
  keeps : ∀ d ∈ a, ∃ r' ∈ r, Covers d r'
  adds : ∀ vb ∈ b, isBuiltinName vb.name = false →
    (vb.name = nodeInterfaceName → ∀ x, (x ∈ a ∨ x ∈ b) → x.name = nodeInterfaceName → Covers vb x) →
    ∃ r' ∈ r, Covers vb r'
  noInv : ∀ r' ∈ r, ∀ it ∈ defItems r', (∃ d ∈ a, it ∈ defItems d) ∨ (∃ vb ∈ b, it ∈ defItems vb)
  node : ∀ r' ∈ r, r'.name = nodeInterfaceName → r' ∈ a ∨ r' ∈ b
  nodup : (a.map (·.name)).Nodup → (r.map (·.name)).Nodup

theorem mergeTypes_spec {as bs : Schema} : ∀ (b a r : List TypeDef),
    mergeTypes E a b as bs = .ok r → (∀ vb ∈ b, isRootName vb.name = true → vb.kind = .object) → FoldFacts a b r
  | [], a, r, h, _ => by
    simp only [mergeTypes, List.foldlM_nil] at h; cases h
    exact ⟨fun d hd => ⟨d, hd, Covers.refl d⟩, by simp, fun r' hr it hit => Or.inl ⟨r', hr, hit⟩,
      fun r' hr _ => Or.inl hr, fun hn => hn⟩
  | vb :: b, a, r, h, hroot => by
    obtain ⟨res1, h1, h2⟩ := foldlM_cons_ok (f := mergeOne E as bs) h
    have S := mergeOne_spec h1 (hroot vb List.mem_cons_self)
    have IH := mergeTypes_spec b res1 r h2 (fun x hx => hroot x (List.mem_cons_of_mem _ hx))
    refine ⟨?_, ?_, ?_, ?_, fun hn => IH.nodup (S.nodup hn)⟩
    · intro d hd
      obtain ⟨r1, hr1, c1⟩ := S.keeps d hd
      obtain ⟨r2, hr2, c2⟩ := IH.keeps r1 hr1
      exact ⟨r2, hr2, Covers.trans c1 c2⟩
    · intro x hx hb hnode
      rcases List.mem_cons.mp hx with rfl | hx
      · have : ∃ r1 ∈ res1, Covers x r1 := by
          apply S.adds hb
          by_cases hN : x.name = nodeInterfaceName
          · right
            intro va hl
            obtain ⟨hva, hvan⟩ := lookup_some hl
            exact hnode hN va (Or.inl hva) (hvan.trans hN)
          · exact Or.inl hN
        obtain ⟨r1, hr1, c1⟩ := this
        obtain ⟨r2, hr2, c2⟩ := IH.keeps r1 hr1
        exact ⟨r2, hr2, Covers.trans c1 c2⟩
      · apply IH.adds x hx hb
        intro hN y hy hyN
        apply hnode hN y _ hyN
        rcases hy with hy | hy
        · rcases S.node y hy hyN with h | h
          · exact Or.inl h
          · exact Or.inr (h ▸ List.mem_cons_self)
        · exact Or.inr (List.mem_cons_of_mem _ hy)
    · intro r' hr it hit
      rcases IH.noInv r' hr it hit with ⟨d, hd, hdi⟩ | ⟨x, hx, hxi⟩
      · rcases S.noInv d hd it hdi with ⟨d0, hd0, hd0i⟩ | hv
        · exact Or.inl ⟨d0, hd0, hd0i⟩
        · exact Or.inr ⟨vb, List.mem_cons_self, hv⟩
      · exact Or.inr ⟨x, List.mem_cons_of_mem _ hx, hxi⟩
    · intro r' hr hN
      rcases IH.node r' hr hN with h | h
      · rcases S.node r' h hN with h | h
        · exact Or.inl h
        · exact Or.inr (h ▸ List.mem_cons_self)
      · exact Or.inr (List.mem_cons_of_mem _ h)

/-! ## `foldInputs`: the fold over the service list -/

/-- a definition of one of the inputs of the list -/
def InInputs (rest : List MergeInput) (x : TypeDef) : Prop := ∃ i ∈ rest, x ∈ i.schema.types

structure InputsFacts (acc : List TypeDef) (rest : List MergeInput) (R : List TypeDef) : Prop where
  keeps : ∀ d ∈ acc, ∃ r ∈ R, Covers d r
  adds : ∀ i ∈ rest, ∀ d ∈ i.schema.types, isBuiltinName d.name = false →
    (d.name = nodeInterfaceName → ∀ x, (x ∈ acc ∨ InInputs rest x) → x.name = nodeInterfaceName → Covers d x) →
    ∃ r ∈ R, Covers d r
  noInv : ∀ r ∈ R, ∀ it ∈ defItems r, (∃ d ∈ acc, it ∈ defItems d) ∨ (∃ d, InInputs rest d ∧ it ∈ defItems d)
  node : ∀ r ∈ R, r.name = nodeInterfaceName → r ∈ acc ∨ InInputs rest r
  nodup : (acc.map (·.name)).Nodup → (R.map (·.name)).Nodup

theorem foldInputs_spec : ∀ (rest : List MergeInput) (acc : List TypeDef) (accS prev : Schema) (R : List TypeDef),
    foldInputs E acc accS prev rest = .ok R → (∀ i ∈ rest, RootsAreObjects i.schema) → InputsFacts acc rest R
  | [], acc, _, _, R, h, _ => by
    simp only [foldInputs] at h; cases h
    exact ⟨fun d hd => ⟨d, hd, Covers.refl d⟩, by simp, fun r hr it hit => Or.inl ⟨r, hr, hit⟩,
      fun r hr _ => Or.inl hr, fun hn => hn⟩
  | i :: rest, acc, accS, prev, R, h, hroot => by
    simp only [foldInputs, bind, Except.bind] at h
    split at h
    · cases h
    · rename_i acc' hacc
      have S := mergeTypes_spec _ _ _ hacc (fun vb hvb => hroot i List.mem_cons_self vb hvb)
      have IH := foldInputs_spec rest acc' _ _ R h (fun j hj => hroot j (List.mem_cons_of_mem _ hj))
      refine ⟨?_, ?_, ?_, ?_, fun hn => IH.nodup (S.nodup hn)⟩
      · intro d hd
        obtain ⟨r1, hr1, c1⟩ := S.keeps d hd
        obtain ⟨r2, hr2, c2⟩ := IH.keeps r1 hr1
        exact ⟨r2, hr2, Covers.trans c1 c2⟩
      · intro j hj d hd hb hnode
        rcases List.mem_cons.mp hj with rfl | hj
        · have : ∃ r1 ∈ acc', Covers d r1 := by
            apply S.adds d hd hb
            intro hN x hx hxN
            apply hnode hN x _ hxN
            rcases hx with hx | hx
            · exact Or.inl hx
            · exact Or.inr ⟨j, List.mem_cons_self, hx⟩
          obtain ⟨r1, hr1, c1⟩ := this
          obtain ⟨r2, hr2, c2⟩ := IH.keeps r1 hr1
          exact ⟨r2, hr2, Covers.trans c1 c2⟩
        · apply IH.adds j hj d hd hb
          intro hN x hx hxN
          apply hnode hN x _ hxN
          rcases hx with hx | ⟨k, hk, hxk⟩
          · rcases S.node x hx hxN with h' | h'
            · exact Or.inl h'
            · exact Or.inr ⟨i, List.mem_cons_self, h'⟩
          · exact Or.inr ⟨k, List.mem_cons_of_mem _ hk, hxk⟩
      · intro r hr it hit
        rcases IH.noInv r hr it hit with ⟨d, hd, hdi⟩ | ⟨d, ⟨k, hk, hdk⟩, hdi⟩
        · rcases S.noInv d hd it hdi with ⟨d0, hd0, hd0i⟩ | ⟨x, hx, hxi⟩
          · exact Or.inl ⟨d0, hd0, hd0i⟩
          · exact Or.inr ⟨x, ⟨i, List.mem_cons_self, hx⟩, hxi⟩
        · exact Or.inr ⟨d, ⟨k, List.mem_cons_of_mem _ hk, hdk⟩, hdi⟩
      · intro r hr hN
        rcases IH.node r hr hN with h' | ⟨k, hk, hrk⟩
        · rcases S.node r h' hN with h'' | h''
          · exact Or.inl h''
          · exact Or.inr ⟨i, List.mem_cons_self, h''⟩
        · exact Or.inr ⟨k, List.mem_cons_of_mem _ hk, hrk⟩

/-! ## possible types, refill, directives -/

theorem assocGet_assocAppend {m : String} {k k' : String} {vs : List String} {dd : Bool} :
    ∀ {acc : List (String × List String)}, m ∈ assocGet (assocAppend acc k' vs dd) k →
      m ∈ assocGet acc k ∨ (k' = k ∧ m ∈ vs)
  | [], h => by
    simp only [assocAppend, assocGet, List.find?_cons] at h
    by_cases hk : (k' == k) = true
    · simp only [hk] at h
      right
      refine ⟨by simpa using hk, ?_⟩
      cases dd
      · simpa using h
      · simp only [↓reduceIte] at h; exact mem_uniq.mp h
    · simp [hk] at h
  | (k0, l) :: rest, h => by
    simp only [assocAppend] at h
    by_cases h0 : (k0 == k') = true
    · simp only [h0, ↓reduceIte, assocGet, List.find?_cons] at h ⊢
      by_cases hk : (k0 == k) = true
      · simp only [hk] at h ⊢
        have hkk : k' = k := by
          have a : k0 = k' := by simpa using h0
          have b : k0 = k := by simpa using hk
          rw [← a, b]
        have : m ∈ l ++ vs := by
          cases dd
          · simpa using h
          · simp only [↓reduceIte] at h; exact mem_uniq.mp h
        rcases List.mem_append.mp this with h' | h'
        · exact Or.inl h'
        · exact Or.inr ⟨hkk, h'⟩
      · simp only [hk] at h ⊢
        exact Or.inl h
    · simp only [h0, Bool.false_eq_true, ↓reduceIte, assocGet, List.find?_cons] at h ⊢
      by_cases hk : (k0 == k) = true
      · simp only [hk] at h ⊢; exact Or.inl h
      · simp only [hk] at h ⊢
        exact assocGet_assocAppend (acc := rest) (by simpa [assocGet] using h)

theorem possibleFold_inner {merged : List TypeDef} {m k : String} :
    ∀ (es : List (String × List String)) (acc : List (String × List String)),
    m ∈ assocGet (es.foldl (fun acc (e : String × List String) =>
      if (lookup merged e.1).isSome then assocAppend acc e.1 e.2 true else acc) acc) k →
    m ∈ assocGet acc k ∨ ∃ e ∈ es, e.1 = k ∧ m ∈ e.2
  | [], acc, h => Or.inl h
  | e :: es, acc, h => by
    simp only [List.foldl_cons] at h
    rcases possibleFold_inner es _ h with h' | ⟨e', he', h1, h2⟩
    · split at h'
      · rcases assocGet_assocAppend h' with h'' | ⟨hk, hm⟩
        · exact Or.inl h''
        · exact Or.inr ⟨e, List.mem_cons_self, hk, hm⟩
      · exact Or.inl h'
    · exact Or.inr ⟨e', List.mem_cons_of_mem _ he', h1, h2⟩

theorem mergePossibleTypes_sub {merged : List TypeDef} {m k : String} :
    ∀ (srcs : List Schema) (acc : List (String × List String)),
    m ∈ assocGet (srcs.foldl (fun acc s => s.possible.foldl (fun acc (e : String × List String) =>
      if (lookup merged e.1).isSome then assocAppend acc e.1 e.2 true else acc) acc) acc) k →
    m ∈ assocGet acc k ∨ ∃ S ∈ srcs, possibleDeclares S k m
  | [], acc, h => Or.inl h
  | s :: srcs, acc, h => by
    simp only [List.foldl_cons] at h
    rcases mergePossibleTypes_sub srcs _ h with h' | ⟨S, hS, hd⟩
    · rcases possibleFold_inner _ _ h' with h'' | ⟨e, he, h1, h2⟩
      · exact Or.inl h''
      · exact Or.inr ⟨s, List.mem_cons_self, e, he, h1, h2⟩
    · exact Or.inr ⟨S, List.mem_cons_of_mem _ hS, hd⟩

theorem mem_mergePossibleTypes {srcs : List Schema} {merged : List TypeDef} {m k : String}
    (h : m ∈ assocGet (mergePossibleTypes srcs merged) k) : ∃ S ∈ srcs, possibleDeclares S k m := by
  unfold mergePossibleTypes at h
  rcases mergePossibleTypes_sub srcs [] h with h' | h'
  · simp [assocGet] at h'
  · exact h'

/-- refilling an empty union adds members only -/
theorem refill_covers (p : List (String × List String)) (d : TypeDef) :
    Covers d (if d.kind == .union && d.members.isEmpty then { d with members := assocGet p d.name } else d) := by
  split
  · rename_i hc
    simp only [Bool.and_eq_true, beq_iff_eq, List.isEmpty_iff] at hc
    apply covers_of (d := d) (r := { d with members := assocGet p d.name }) rfl rfl
    · intro _ f hf _; exact ⟨f, hf, FieldLe.refl f⟩
    · intro _ e he; exact ⟨e, he, rfl⟩
    · intro _ m hm; rw [hc.2] at hm; cases hm
    · intro _ i hi; exact hi
  · exact Covers.refl d

theorem refill_items (p : List (String × List String)) (d : TypeDef) :
    ∀ it ∈ defItems (if d.kind == .union && d.members.isEmpty then { d with members := assocGet p d.name } else d),
      it ∈ defItems d ∨ ∃ m, it = .member d.name m ∧ m ∈ assocGet p d.name := by
  intro it hit
  split at hit
  · rename_i hc
    simp only [Bool.and_eq_true, beq_iff_eq, List.isEmpty_iff] at hc
    simp only [defItems, hc.1, List.mem_cons, List.mem_append] at hit ⊢
    rcases hit with rfl | ((((hit | hit) | hit)) | hit)
    · left; left; rfl
    · simp [hasFields] at hit
    · simp at hit
    · simp only [beq_self_eq_true, ↓reduceIte, List.mem_map] at hit
      obtain ⟨m, hm, rfl⟩ := hit
      exact Or.inr ⟨m, rfl, hm⟩
    · simp [hasInterfaces] at hit
  · exact Or.inl hit

theorem mem_refillUnions {p : List (String × List String)} {types : List TypeDef} {r : TypeDef}
    (h : r ∈ refillUnions p types) :
    ∃ d ∈ types, r = (if d.kind == .union && d.members.isEmpty then { d with members := assocGet p d.name } else d) := by
  unfold refillUnions at h
  obtain ⟨d, hd, rfl⟩ := List.mem_map.mp h
  exact ⟨d, hd, rfl⟩

/-! directives: last writer wins per name -/

theorem mem_setDirective {d : DirDef} : ∀ {acc : List DirDef} {x : DirDef}, x ∈ setDirective d acc → x = d ∨ x ∈ acc
  | [], x, h => by simp [setDirective] at h; exact Or.inl h
  | y :: ys, x, h => by
    unfold setDirective at h
    split at h
    · rcases List.mem_cons.mp h with h | h
      · exact Or.inl h
      · exact Or.inr (List.mem_cons_of_mem _ h)
    · rcases List.mem_cons.mp h with h | h
      · exact Or.inr (h ▸ List.mem_cons_self)
      · rcases mem_setDirective h with h | h
        · exact Or.inl h
        · exact Or.inr (List.mem_cons_of_mem _ h)

theorem setDirective_self (d : DirDef) : ∀ (acc : List DirDef), d ∈ setDirective d acc
  | [] => by simp [setDirective]
  | y :: ys => by
    unfold setDirective
    split
    · exact List.mem_cons_self
    · exact List.mem_cons_of_mem _ (setDirective_self d ys)

theorem setDirective_keeps {d x : DirDef} (hx : d.name = x.name → d = x) :
    ∀ {acc : List DirDef}, x ∈ acc → x ∈ setDirective d acc
  | y :: ys, h => by
    unfold setDirective
    by_cases hy : (y.name == d.name) = true
    · simp only [hy, ↓reduceIte]
      rcases List.mem_cons.mp h with rfl | h
      · have hyn : x.name = d.name := by simpa using hy
        have : d = x := hx hyn.symm
        rw [this]; exact List.mem_cons_self
      · exact List.mem_cons_of_mem _ h
    · simp only [hy, Bool.false_eq_true, ↓reduceIte]
      rcases List.mem_cons.mp h with rfl | h
      · exact List.mem_cons_self
      · exact List.mem_cons_of_mem _ (setDirective_keeps hx h)

/-- same-named directive definitions are the same definition, across (and inside) the inputs -/
def DirectivesAgree (srcs : List Schema) : Prop :=
  ∀ S ∈ srcs, ∀ S' ∈ srcs, ∀ d ∈ S.directives, ∀ d' ∈ S'.directives, d.name = d'.name → d = d'

theorem dirInner_noInv : ∀ (ds acc : List DirDef) (x : DirDef),
    x ∈ ds.foldl (fun acc d => setDirective d acc) acc → x ∈ acc ∨ x ∈ ds
  | [], _, _, h => Or.inl h
  | d :: ds, acc, x, h => by
    simp only [List.foldl_cons] at h
    rcases dirInner_noInv ds _ x h with h' | h'
    · rcases mem_setDirective h' with rfl | h''
      · exact Or.inr List.mem_cons_self
      · exact Or.inl h''
    · exact Or.inr (List.mem_cons_of_mem _ h')

theorem mergeDirectives_noInv : ∀ (srcs : List Schema) (acc : List DirDef) (x : DirDef),
    x ∈ srcs.foldl (fun acc s => s.directives.foldl (fun acc d => setDirective d acc) acc) acc →
    x ∈ acc ∨ ∃ S ∈ srcs, x ∈ S.directives
  | [], _, _, h => Or.inl h
  | s :: srcs, acc, x, h => by
    simp only [List.foldl_cons] at h
    rcases mergeDirectives_noInv srcs _ x h with h' | ⟨S, hS, hx⟩
    · rcases dirInner_noInv _ _ x h' with h'' | h''
      · exact Or.inl h''
      · exact Or.inr ⟨s, List.mem_cons_self, h''⟩
    · exact Or.inr ⟨S, List.mem_cons_of_mem _ hS, hx⟩

theorem dirInner_keeps {x : DirDef} : ∀ (ds acc : List DirDef), (∀ d ∈ ds, d.name = x.name → d = x) →
    (x ∈ acc ∨ x ∈ ds) → x ∈ ds.foldl (fun acc d => setDirective d acc) acc
  | [], acc, _, h => by rcases h with h | h; exact h; cases h
  | d :: ds, acc, hag, h => by
    simp only [List.foldl_cons]
    apply dirInner_keeps ds _ (fun d' hd' => hag d' (List.mem_cons_of_mem _ hd'))
    rcases h with h | h
    · exact Or.inl (setDirective_keeps (hag d List.mem_cons_self) h)
    · rcases List.mem_cons.mp h with rfl | h
      · exact Or.inl (setDirective_self _ _)
      · exact Or.inr h

theorem mergeDirectives_keeps {x : DirDef} : ∀ (srcs : List Schema) (acc : List DirDef),
    (∀ S ∈ srcs, ∀ d ∈ S.directives, d.name = x.name → d = x) →
    (x ∈ acc ∨ ∃ S ∈ srcs, x ∈ S.directives) →
    x ∈ srcs.foldl (fun acc s => s.directives.foldl (fun acc d => setDirective d acc) acc) acc
  | [], acc, _, h => by
    rcases h with h | ⟨S, hS, _⟩
    · exact h
    · cases hS
  | s :: srcs, acc, hag, h => by
    simp only [List.foldl_cons]
    apply mergeDirectives_keeps srcs _ (fun S hS => hag S (List.mem_cons_of_mem _ hS))
    rcases h with h | ⟨S, hS, hx⟩
    · exact Or.inl (dirInner_keeps _ _ (hag s List.mem_cons_self) (Or.inl h))
    · rcases List.mem_cons.mp hS with rfl | hS
      · exact Or.inl (dirInner_keeps _ _ (hag S List.mem_cons_self) (Or.inr hx))
      · exact Or.inr ⟨S, hS, hx⟩

/-! ## reading items back -/

theorem type_item_mem {n : String} {k : Kind} {r : TypeDef} : Item.type n k ∈ defItems r ↔ r.name = n ∧ r.kind = k := by
  simp only [defItems, List.mem_cons, List.mem_append, Item.type.injEq]
  constructor
  · rintro (⟨rfl, rfl⟩ | h)
    · exact ⟨rfl, rfl⟩
    · exfalso
      rcases h with ((h | h) | h) | h <;> split at h <;> simp [fieldItems] at h
  · rintro ⟨rfl, rfl⟩; exact Or.inl ⟨rfl, rfl⟩

theorem field_item_mem {T f : String} {ty : TypeRef} {df : Option String} {r : TypeDef} :
    Item.field T f ty df ∈ defItems r ↔ r.name = T ∧ hasFields r.kind = true ∧
      ∃ g ∈ r.fields, isBuiltinName g.name = false ∧ g.name = f ∧ g.type = ty ∧ g.default = df := by
  simp only [defItems, List.mem_cons, List.mem_append, reduceCtorEq, false_or]
  constructor
  · intro h
    rcases h with ((h | h) | h) | h
    · split at h
      · rename_i hh
        simp only [List.mem_flatMap, List.mem_filter, fieldItems, List.mem_cons, Item.field.injEq, List.mem_map,
          reduceCtorEq, and_false, exists_false, or_false, Bool.not_eq_true'] at h
        obtain ⟨g, ⟨hg, hb⟩, h1, h2, h3, h4⟩ := h
        exact ⟨h1.symm, hh, g, hg, hb, h2.symm, h3.symm, h4.symm⟩
      · cases h
    all_goals (split at h <;> simp at h)
  · rintro ⟨rfl, hh, g, hg, hb, rfl, rfl, rfl⟩
    left; left; left
    simp only [hh, ↓reduceIte, List.mem_flatMap, List.mem_filter, fieldItems, List.mem_cons, Bool.not_eq_true']
    exact ⟨g, ⟨hg, hb⟩, Or.inl rfl⟩

theorem iface_item_mem {T I : String} {r : TypeDef} :
    Item.iface T I ∈ defItems r ↔ r.name = T ∧ hasInterfaces r.kind = true ∧ I ∈ r.interfaces := by
  simp only [defItems, List.mem_cons, List.mem_append, reduceCtorEq, false_or]
  constructor
  · intro h
    rcases h with ((h | h) | h) | h
    · split at h
      · simp [fieldItems] at h
      · cases h
    · split at h <;> simp at h
    · split at h <;> simp at h
    · split at h
      · rename_i hh
        simp only [List.mem_map, Item.iface.injEq] at h
        obtain ⟨i, hi, rfl, rfl⟩ := h
        exact ⟨rfl, hh, hi⟩
      · cases h
  · rintro ⟨rfl, hh, hi⟩
    right
    simp only [hh, ↓reduceIte, List.mem_map]
    exact ⟨I, hi, rfl⟩

theorem eq_of_nodup_name {ts : List TypeDef} (hn : (ts.map (·.name)).Nodup) {x y : TypeDef}
    (hx : x ∈ ts) (hy : y ∈ ts) (h : x.name = y.name) : x = y := by
  have h1 := lookup_of_nodup hn hx
  have h2 := lookup_of_nodup hn hy
  rw [h] at h1
  rw [h1] at h2
  exact Option.some.inj h2

theorem refillUnions_names (p : List (String × List String)) (ts : List TypeDef) :
    (refillUnions p ts).map (·.name) = ts.map (·.name) := by
  unfold refillUnions
  rw [List.map_map]
  apply List.map_congr_left
  intro d _
  simp only [Function.comp]
  split <;> rfl

/-! ## fields of the result are fields of the inputs, verbatim -/

/-- every field of every definition of `res'` is (literally) a field of a same-named, same-kind
    definition of `res` or of `extra` -/
def Verb (res extra res' : List TypeDef) : Prop :=
  ∀ r ∈ res', ∀ g ∈ r.fields, ∃ d, (d ∈ res ∨ d ∈ extra) ∧ d.name = r.name ∧ d.kind = r.kind ∧ g ∈ d.fields

theorem mergeOne_verb {as bs : Schema} {res res' : List TypeDef} {vb : TypeDef}
    (h : mergeOne E as bs res vb = .ok res') (hroot : isRootName vb.name = true → vb.kind = .object) :
    Verb res [vb] res' := by
  intro r hr g hg
  rcases mergeOne_cases h with ⟨_, rfl⟩ | ⟨_, _, rfl⟩ | ⟨_, va, hl, hcase⟩
  · exact ⟨r, Or.inl hr, rfl, rfl, hg⟩
  · rcases List.mem_append.mp hr with hr | hr
    · exact ⟨r, Or.inl hr, rfl, rfl, hg⟩
    · exact ⟨r, Or.inr hr, rfl, rfl, hg⟩
  · obtain ⟨hva, hvan⟩ := lookup_some hl
    rcases hcase with ⟨_, rfl⟩ | ⟨d, hm, rfl⟩
    · exact ⟨r, Or.inl hr, rfl, rfl, hg⟩
    · rcases mem_setType hr with rfl | hr
      · rcases mergeDef_spec hm hvan with ⟨ho, _⟩ | ⟨_, hk, hrest⟩
        · cases ho
        · rcases hrest with ⟨_, ho⟩ | ⟨_, ho, _⟩ | ⟨_, _, _, hrc⟩
          · cases ho; exact ⟨vb, Or.inr (by simp), rfl, rfl, hg⟩
          · cases ho
          · rcases hrc with ⟨hr', d', ho, hmr⟩ | ⟨hr', d', ho, hmc⟩
            · cases ho
              obtain ⟨dn, dk, _, _, _, df⟩ := mergeRootObjects_spec hmr
              obtain ⟨⟨ext, hext, hextm⟩, _, _⟩ := rootFold_spec _ _ _ df
              have hobj := hroot hr'
              rw [hext] at hg
              rcases List.mem_append.mp hg with hg | hg
              · exact ⟨vb, Or.inr (by simp), dn.symm, by rw [dk, hobj], hg⟩
              · exact ⟨va, Or.inl hva, by rw [dn, hvan], by rw [dk, ← hk, hobj], hextm g hg⟩
            · cases ho
              obtain ⟨dn, dk, _, _, _, df, _⟩ := mergeCustomObjects_spec hmc
              obtain ⟨_, _, fn⟩ := customFields_spec (notQuery_of_notRoot hr') df
              rcases fn g hg with hg | hg
              · exact ⟨vb, Or.inr (by simp), dn.symm, dk.symm, hg⟩
              · exact ⟨va, Or.inl hva, by rw [dn, hvan], by rw [dk, hk], hg⟩
      · exact ⟨r, Or.inl hr, rfl, rfl, hg⟩

theorem mergeTypes_verb {as bs : Schema} : ∀ (b a r : List TypeDef),
    mergeTypes E a b as bs = .ok r → (∀ vb ∈ b, isRootName vb.name = true → vb.kind = .object) → Verb a b r
  | [], a, r, h, _ => by
    simp only [mergeTypes, List.foldlM_nil] at h; cases h
    intro r hr g hg; exact ⟨r, Or.inl hr, rfl, rfl, hg⟩
  | vb :: b, a, r, h, hroot => by
    obtain ⟨res1, h1, h2⟩ := foldlM_cons_ok (f := mergeOne E as bs) h
    have S := mergeOne_verb h1 (hroot vb List.mem_cons_self)
    have IH := mergeTypes_verb b res1 r h2 (fun x hx => hroot x (List.mem_cons_of_mem _ hx))
    intro r' hr g hg
    obtain ⟨d, hd, hn, hk, hgd⟩ := IH r' hr g hg
    rcases hd with hd | hd
    · obtain ⟨d0, hd0, hn0, hk0, hg0⟩ := S d hd g hgd
      refine ⟨d0, ?_, hn0.trans hn, hk0.trans hk, hg0⟩
      rcases hd0 with h' | h'
      · exact Or.inl h'
      · simp only [List.mem_singleton] at h'; exact Or.inr (h' ▸ List.mem_cons_self)
    · exact ⟨d, Or.inr (List.mem_cons_of_mem _ hd), hn, hk, hgd⟩

theorem foldInputs_verb : ∀ (rest : List MergeInput) (acc : List TypeDef) (accS prev : Schema) (R : List TypeDef),
    foldInputs E acc accS prev rest = .ok R → (∀ i ∈ rest, RootsAreObjects i.schema) →
    ∀ r ∈ R, ∀ g ∈ r.fields, ∃ d, (d ∈ acc ∨ InInputs rest d) ∧ d.name = r.name ∧ d.kind = r.kind ∧ g ∈ d.fields
  | [], acc, _, _, R, h, _ => by
    simp only [foldInputs] at h; cases h
    intro r hr g hg; exact ⟨r, Or.inl hr, rfl, rfl, hg⟩
  | i :: rest, acc, accS, prev, R, h, hroot => by
    simp only [foldInputs, bind, Except.bind] at h
    split at h
    · cases h
    · rename_i acc' hacc
      have S := mergeTypes_verb _ _ _ hacc (fun vb hvb => hroot i List.mem_cons_self vb hvb)
      have IH := foldInputs_verb rest acc' _ _ R h (fun j hj => hroot j (List.mem_cons_of_mem _ hj))
      intro r hr g hg
      obtain ⟨d, hd, hn, hk, hgd⟩ := IH r hr g hg
      rcases hd with hd | ⟨j, hj, hdj⟩
      · obtain ⟨d0, hd0, hn0, hk0, hg0⟩ := S d hd g hgd
        refine ⟨d0, ?_, hn0.trans hn, hk0.trans hk, hg0⟩
        rcases hd0 with h' | h'
        · exact Or.inl h'
        · exact Or.inr ⟨i, List.mem_cons_self, h'⟩
      · exact ⟨d, Or.inr ⟨j, List.mem_cons_of_mem _ hj, hdj⟩, hn, hk, hgd⟩

/-! ## a root field has one declarer -/

theorem isNodeField_name {g : FieldDef} (h : isNodeField E g = true) : g.name = nodeFieldName := by
  unfold isNodeField at h
  simp only [show E.nodeFieldByName = true from rfl, ↓reduceIte, Bool.and_eq_true, beq_iff_eq] at h
  exact h.1

theorem root_ne_node {n : String} (h : isRootName n = true) : n ≠ nodeInterfaceName := by
  intro he; subst he; revert h; decide

/-- the type map has an object named `T` with a field named `f` -/
def HasField (ts : List TypeDef) (T f : String) : Prop :=
  ∃ d ∈ ts, d.name = T ∧ d.kind = .object ∧ ∃ g ∈ d.fields, g.name = f

theorem hasField_of_covers {d r : TypeDef} (hc : Covers d r) (hk : d.kind = .object) {g : FieldDef}
    (hg : g ∈ d.fields) (hb : isBuiltinName g.name = false) :
    r.name = d.name ∧ r.kind = .object ∧ ∃ g' ∈ r.fields, g'.name = g.name := by
  have hty := type_item_mem.mp (hc _ (type_item_mem.mpr ⟨rfl, rfl⟩))
  have := field_item_mem.mp (hc _ (field_item_mem.mpr ⟨rfl, by rw [hk]; rfl, g, hg, hb, rfl, rfl, rfl⟩))
  obtain ⟨_, _, g', hg', _, hn, _, _⟩ := this
  exact ⟨hty.1, hty.2.trans hk, g', hg', hn⟩

/-- one iteration: a root field of the map and the same-named field of the new definition clash,
    unless it is the relay `node` field -/
theorem mergeOne_clash {as bs : Schema} {res res' : List TypeDef} {vb : TypeDef}
    (h : mergeOne E as bs res vb = .ok res') (hn : (res.map (·.name)).Nodup)
    (hr : isRootName vb.name = true) {f : String} (hb : isBuiltinName f = false)
    (hf : HasField res vb.name f) (hg : ∃ g ∈ vb.fields, g.name = f) : f = nodeFieldName := by
  obtain ⟨d, hd, hdn, hdk, g0, hg0, hg0n⟩ := hf
  have hl : lookup res vb.name = some d := hdn ▸ lookup_of_nodup hn hd
  rcases mergeOne_cases h with ⟨hbt, _⟩ | ⟨_, hl', _⟩ | ⟨_, va, hl', hcase⟩
  · have : isBuiltinName vb.name = false := by
      revert hr; unfold isRootName isBuiltinName
      intro hr
      simp only [Bool.or_eq_true, beq_iff_eq] at hr
      rcases hr with (h | h) | h <;> rw [h] <;> decide
    rw [this] at hbt; cases hbt
  · rw [hl] at hl'; cases hl'
  · rw [hl] at hl'; cases hl'
    have hmd : ∃ od, mergeDef E as bs d vb = .ok od := by
      rcases hcase with ⟨hm, _⟩ | ⟨d', hm, _⟩
      · exact ⟨_, hm⟩
      · exact ⟨_, hm⟩
    obtain ⟨od, hm⟩ := hmd
    rcases mergeDef_spec hm hdn with ⟨_, hN⟩ | ⟨_, hk, hrest⟩
    · exact absurd hN (root_ne_node hr)
    · rcases hrest with ⟨hs, _⟩ | ⟨hu, _, _⟩ | ⟨_, _, _, hrc⟩
      · rw [hk, hdk] at hs; cases hs
      · rw [hk, hdk] at hu; cases hu
      · rcases hrc with ⟨_, d', _, hmr⟩ | ⟨hr', _⟩
        · obtain ⟨_, _, _, _, _, df⟩ := mergeRootObjects_spec hmr
          obtain ⟨_, _, hdis⟩ := rootFold_spec _ _ _ df
          obtain ⟨g, hg, hgn⟩ := hg
          have := hdis g0 hg0 (by rw [hg0n]; exact hb) ⟨g, hg, hgn.trans hg0n.symm⟩
          exact hg0n ▸ isNodeField_name this
        · rw [hr] at hr'; cases hr'

theorem hasField_keeps {res res' : List TypeDef} (hk : ∀ d ∈ res, ∃ r ∈ res', Covers d r) {T f : String}
    (hb : isBuiltinName f = false) (h : HasField res T f) : HasField res' T f := by
  obtain ⟨d, hd, hdn, hdk, g, hg, hgn⟩ := h
  obtain ⟨r, hr, hc⟩ := hk d hd
  obtain ⟨h1, h2, g', hg', h3⟩ := hasField_of_covers hc hdk hg (by rw [hgn]; exact hb)
  exact ⟨r, hr, h1.trans hdn, h2, g', hg', h3.trans hgn⟩

/-- `mergeTypes`: no root field of `a` is declared again by `b` (`node` aside) -/
theorem mergeTypes_clash {as bs : Schema} : ∀ (b a r : List TypeDef),
    mergeTypes E a b as bs = .ok r → (a.map (·.name)).Nodup →
    (∀ vb ∈ b, isRootName vb.name = true → vb.kind = .object) →
    ∀ vb ∈ b, isRootName vb.name = true → ∀ f, isBuiltinName f = false → HasField a vb.name f →
      (∃ g ∈ vb.fields, g.name = f) → f = nodeFieldName
  | [], _, _, _, _, _ => by simp
  | v :: b, a, r, h, hn, hroot => by
    obtain ⟨res1, h1, h2⟩ := foldlM_cons_ok (f := mergeOne E as bs) h
    have S := mergeOne_spec h1 (hroot v List.mem_cons_self)
    intro vb hvb hr f hb hf hg
    rcases List.mem_cons.mp hvb with rfl | hvb
    · exact mergeOne_clash h1 hn hr hb hf hg
    · exact mergeTypes_clash b res1 r h2 (S.nodup hn) (fun x hx => hroot x (List.mem_cons_of_mem _ hx))
        vb hvb hr f hb (hasField_keeps S.keeps hb hf) hg

/-- `i` declares field `f` on a type named `T` -/
def Declares (i : MergeInput) (T f : String) : Prop := ∃ d ∈ i.schema.types, d.name = T ∧ ∃ g ∈ d.fields, g.name = f

/-- two services do not declare the same root field (the relay `node` field aside) -/
def NoRootClash (i j : MergeInput) : Prop :=
  ∀ T f, isRootName T = true → isBuiltinName f = false → Declares i T f → Declares j T f → f = nodeFieldName

theorem foldInputs_clash : ∀ (rest : List MergeInput) (acc : List TypeDef) (accS prev : Schema) (R : List TypeDef),
    foldInputs E acc accS prev rest = .ok R → (acc.map (·.name)).Nodup → (∀ i ∈ rest, RootsAreObjects i.schema) →
    (∀ i ∈ rest, ∀ T f, isRootName T = true → isBuiltinName f = false → HasField acc T f → Declares i T f →
      f = nodeFieldName) ∧ rest.Pairwise NoRootClash
  | [], _, _, _, _, _, _, _ => by simp
  | i :: rest, acc, accS, prev, R, h, hn, hroot => by
    simp only [foldInputs, bind, Except.bind] at h
    split at h
    · cases h
    · rename_i acc' hacc
      have hri : ∀ vb ∈ i.schema.types, isRootName vb.name = true → vb.kind = .object :=
        fun vb hvb => hroot i List.mem_cons_self vb hvb
      have S := mergeTypes_spec _ _ _ hacc hri
      obtain ⟨IHA, IHB⟩ := foldInputs_clash rest acc' _ _ R h (S.nodup hn)
        (fun j hj => hroot j (List.mem_cons_of_mem _ hj))
      constructor
      · intro j hj T f hT hb hf hd
        rcases List.mem_cons.mp hj with rfl | hj
        · obtain ⟨d, hd, hdn, g, hg, hgn⟩ := hd
          exact mergeTypes_clash _ _ _ hacc hn hri d hd (hdn ▸ hT) f hb (hdn ▸ hf) ⟨g, hg, hgn⟩
        · exact IHA j hj T f hT hb (hasField_keeps S.keeps hb hf) hd
      · rw [List.pairwise_cons]
        refine ⟨?_, IHB⟩
        intro j hj T f hT hb hdi hdj
        apply IHA j hj T f hT hb _ hdj
        obtain ⟨d, hd, hdn, g, hg, hgn⟩ := hdi
        have hdk : d.kind = .object := hri d hd (hdn ▸ hT)
        obtain ⟨r, hr, hc⟩ := S.adds d hd (by
            revert hT; rw [← hdn]; unfold isRootName isBuiltinName
            intro hr
            simp only [Bool.or_eq_true, beq_iff_eq] at hr
            rcases hr with (h | h) | h <;> rw [h] <;> decide)
          (fun hN => absurd hN (root_ne_node (hdn ▸ hT)))
        obtain ⟨h1, h2, g', hg', h3⟩ := hasField_of_covers hc hdk hg (by rw [hgn]; exact hb)
        exact ⟨r, hr, h1.trans hdn, h2, g', hg', h3.trans hgn⟩

/-! ## when the loops must fail (two-service conflicts) -/

theorem fieldNamed_append_left {fs ext : List FieldDef} {n : String} {r : FieldDef} (h : fieldNamed fs n = some r) :
    fieldNamed (fs ++ ext) n = some r := by
  unfold fieldNamed at h ⊢
  rw [List.find?_append, h]; rfl

theorem fieldNamed_of_nodup {fs : List FieldDef} (hn : (fs.map (·.name)).Nodup) {r : FieldDef} (hr : r ∈ fs) :
    fieldNamed fs r.name = some r := by
  induction fs with
  | nil => cases hr
  | cons t ts ih =>
    simp only [List.map_cons, List.nodup_cons] at hn
    unfold fieldNamed
    rw [List.find?_cons]
    rcases List.mem_cons.mp hr with h | h
    · subst h; simp
    · have hne : t.name ≠ r.name := fun he => hn.1 (he ▸ List.mem_map_of_mem h)
      have hb : (t.name == r.name) = false := by simpa using hne
      rw [hb]
      exact ih hn.2 h

theorem fieldNamed_isSome_of_mem {fs : List FieldDef} {r : FieldDef} (hr : r ∈ fs) : ∃ r', fieldNamed fs r.name = some r' := by
  cases h : fieldNamed fs r.name with
  | some r' => exact ⟨r', rfl⟩
  | none => exact absurd rfl (fieldNamed_none h r hr)

/-- an overlapping non-id field puts a `true` into the flags -/
theorem fieldLoop_any {n : String} : ∀ (l : List FieldDef) (st st' : FieldLoop),
    l.foldlM (fieldStep E n) st = .ok st' → ∀ f ∈ l, (∃ r ∈ st.result, r.name = f.name) → isIDField f = false →
    st'.flags.any id = true
  | [], _, _, _, _, hf, _, _ => by cases hf
  | x :: l, st, st', h, f, hf, hex, hid => by
    obtain ⟨s1, h1, h2⟩ := foldlM_cons_ok h
    rcases List.mem_cons.mp hf with rfl | hf
    · obtain ⟨fl, hfl⟩ := fieldLoop_flags l s1 st' h2
      rcases fieldStep_cases h1 with ⟨_, _, _, _, _, hidt⟩ | ⟨rfl, _⟩ | ⟨_, hnone⟩
      · rw [hid] at hidt; cases hidt
      · rw [hfl]; simp
      · obtain ⟨r, hr, hrn⟩ := hex
        exact absurd hrn (fieldNamed_none hnone r hr)
    · apply fieldLoop_any l s1 st' h2 f hf _ hid
      obtain ⟨r, hr, hrn⟩ := hex
      refine ⟨r, ?_, hrn⟩
      rcases fieldStep_cases h1 with ⟨rfl, _⟩ | ⟨rfl, _⟩ | ⟨rfl, _⟩
      · exact hr
      · exact List.mem_append_left _ hr
      · exact List.mem_append_left _ hr

/-- a field the base does not have puts a `false` into the flags (names of the list distinct) -/
theorem fieldLoop_notall {n : String} : ∀ (l : List FieldDef) (st st' : FieldLoop),
    l.foldlM (fieldStep E n) st = .ok st' → (l.map (·.name)).Nodup → ∀ g ∈ l, (∀ r ∈ st.result, r.name ≠ g.name) →
    st'.flags.all id = false
  | [], _, _, _, _, _, hg, _ => by cases hg
  | x :: l, st, st', h, hn, g, hg, hno => by
    obtain ⟨s1, h1, h2⟩ := foldlM_cons_ok h
    simp only [List.map_cons, List.nodup_cons] at hn
    rcases List.mem_cons.mp hg with rfl | hg
    · obtain ⟨fl, hfl⟩ := fieldLoop_flags l s1 st' h2
      rcases fieldStep_cases h1 with ⟨_, r, hr, hrn, _⟩ | ⟨_, r, hr, hrn, _⟩ | ⟨rfl, _⟩
      · exact absurd hrn (hno r hr)
      · exact absurd hrn (hno r hr)
      · rw [hfl]; simp
    · apply fieldLoop_notall l s1 st' h2 hn.2 g hg
      have hxg : x.name ≠ g.name := fun he => hn.1 (he ▸ List.mem_map_of_mem hg)
      rcases fieldStep_cases h1 with ⟨rfl, _⟩ | ⟨rfl, _⟩ | ⟨rfl, _⟩
      · exact hno
      · intro r hr
        rcases List.mem_append.mp hr with hr | hr
        · exact hno r hr
        · simp only [List.mem_singleton] at hr; exact hr ▸ hxg
      · intro r hr
        rcases List.mem_append.mp hr with hr | hr
        · exact hno r hr
        · simp only [List.mem_singleton] at hr; exact hr ▸ hxg

/-- an overlapping field with another signature stops the loop -/
theorem fieldLoop_sig {n : String} : ∀ (l : List FieldDef) (st : FieldLoop) (f r : FieldDef),
    f ∈ l → fieldNamed st.result f.name = some r → isSameSignature r f = false →
    ∃ e, l.foldlM (fieldStep E n) st = .error e
  | [], _, _, _, hf, _, _ => by cases hf
  | x :: l, st, f, r, hf, hr, hs => by
    rw [List.foldlM_cons]
    cases h1 : fieldStep E n st x with
    | error e => exact ⟨e, rfl⟩
    | ok s1 =>
      rcases List.mem_cons.mp hf with rfl | hf
      · exfalso
        rcases fieldStep_cases h1 with ⟨_, r', _, _, hs', _⟩ | ⟨_, r', _, _, hs', _⟩ | ⟨_, hnone⟩
        · unfold fieldStep at h1
          simp only [show E.idSkipOnlyIfPresent = true from rfl, show E.fieldSignatureChecked = true from rfl, hr, hs,
            Bool.not_true, Bool.not_false, Bool.false_and, Bool.true_and, Bool.false_eq_true, ↓reduceIte] at h1
          cases h1
        · unfold fieldStep at h1
          simp only [show E.idSkipOnlyIfPresent = true from rfl, show E.fieldSignatureChecked = true from rfl, hr, hs,
            Bool.not_true, Bool.not_false, Bool.false_and, Bool.true_and, Bool.false_eq_true, ↓reduceIte] at h1
          cases h1
        · rw [hr] at hnone; cases hnone
      · apply fieldLoop_sig l s1 f r hf _ hs
        rcases fieldStep_cases h1 with ⟨rfl, _⟩ | ⟨rfl, _⟩ | ⟨rfl, _⟩
        · exact hr
        · exact fieldNamed_append_left hr
        · exact fieldNamed_append_left hr

theorem isIDField_of_sameSig {r f : FieldDef} (hs : isSameSignature r f = true) (hn : r.name = f.name) :
    isIDField f = isIDField r := by
  unfold isSameSignature at hs
  simp only [Bool.and_eq_true, beq_iff_eq] at hs
  obtain ⟨⟨⟨ht, _⟩, h1⟩, h2⟩ := hs
  unfold isIDField
  rw [hn, ht]
  congr 2
  cases hr : r.args with
  | nil =>
    cases hf : f.args with
    | nil => rfl
    | cons a as =>
      rw [hr, hf] at h2
      simp [isSubArguments] at h2
  | cons a as =>
    cases hf : f.args with
    | nil =>
      rw [hr, hf] at h1
      simp [isSubArguments] at h1
    | cons b bs => rfl

theorem mergeable_nodup {b : TypeDef} (h : (b.fields.map (·.name)).Nodup) : ((mergeableFields b).map (·.name)).Nodup := by
  unfold mergeableFields
  exact List.Nodup.sublist (List.Sublist.map _ List.filter_sublist) h

theorem mem_mergeable {b : TypeDef} {g : FieldDef} (hg : g ∈ b.fields) (hb : isBuiltinName g.name = false) :
    g ∈ mergeableFields b := by simp [mergeableFields, hg, hb]

/-- `mergeCustomObjectFields(a, b)` unfolded (the name is not `Query`) -/
theorem customFields_unfold {a b : TypeDef} (hq : (a.name == queryName) = false) :
    mergeCustomObjectFields E a b =
      (match (mergeableFields b).foldlM (fieldStep E a.name) { result := a.fields, flags := [] } with
       | .error e => .error e
       | .ok st =>
         if implementsNode a && st.flags.any id then .error (.overlappingFields a.name)
         else if st.flags.any id && !st.flags.all id then .error (.notCompleteCopy a.name)
         else if st.flags.all id then .ok a.fields
         else .ok st.result) := by
  unfold mergeCustomObjectFields
  have hr0 : a.fields.filter (fun f => !(a.name == queryName && isNodeField E f)) = a.fields := by simp [hq]
  simp only [hr0, bind, Except.bind]
  cases (mergeableFields b).foldlM (fieldStep E a.name) { result := a.fields, flags := [] } <;> rfl

theorem customFields_err_sig {a b : TypeDef} (hq : (a.name == queryName) = false) (hna : (a.fields.map (·.name)).Nodup)
    {f r : FieldDef} (hf : f ∈ b.fields) (hb : isBuiltinName f.name = false) (hr : r ∈ a.fields) (hn : r.name = f.name)
    (hs : isSameSignature r f = false) : ∃ e, mergeCustomObjectFields E a b = .error e := by
  rw [customFields_unfold hq]
  obtain ⟨e, he⟩ := fieldLoop_sig (n := a.name) (mergeableFields b) { result := a.fields, flags := [] } f r
    (mem_mergeable hf hb) (hn ▸ fieldNamed_of_nodup hna hr) hs
  rw [he]; exact ⟨e, rfl⟩

theorem customFields_err_node {a b : TypeDef} (hq : (a.name == queryName) = false) (hN : implementsNode a = true)
    {f : FieldDef} (hf : f ∈ b.fields) (hb : isBuiltinName f.name = false) (hid : isIDField f = false)
    (hex : ∃ r ∈ a.fields, r.name = f.name) : ∃ e, mergeCustomObjectFields E a b = .error e := by
  rw [customFields_unfold hq]
  cases hl : (mergeableFields b).foldlM (fieldStep E a.name) { result := a.fields, flags := [] } with
  | error e => exact ⟨e, rfl⟩
  | ok st =>
    have := fieldLoop_any _ _ _ hl f (mem_mergeable hf hb) hex hid
    simp only [hN, this, Bool.and_self, ↓reduceIte]
    exact ⟨_, rfl⟩

theorem customFields_err_partial {a b : TypeDef} (hq : (a.name == queryName) = false)
    (hnb : (b.fields.map (·.name)).Nodup)
    {f : FieldDef} (hf : f ∈ b.fields) (hb : isBuiltinName f.name = false) (hid : isIDField f = false)
    (hex : ∃ r ∈ a.fields, r.name = f.name)
    {g : FieldDef} (hg : g ∈ b.fields) (hgb : isBuiltinName g.name = false) (hno : ∀ r ∈ a.fields, r.name ≠ g.name) :
    ∃ e, mergeCustomObjectFields E a b = .error e := by
  rw [customFields_unfold hq]
  cases hl : (mergeableFields b).foldlM (fieldStep E a.name) { result := a.fields, flags := [] } with
  | error e => exact ⟨e, rfl⟩
  | ok st =>
    have h1 := fieldLoop_any _ _ _ hl f (mem_mergeable hf hb) hex hid
    have h2 := fieldLoop_notall _ _ _ hl (mergeable_nodup hnb) g (mem_mergeable hg hgb) hno
    simp only [h1, h2, Bool.and_true, Bool.not_false, Bool.and_self, ↓reduceIte]
    split <;> exact ⟨_, rfl⟩

theorem mergeCustomObjects_err_left {a b : TypeDef} (h : ∃ e, mergeCustomObjectFields E a b = .error e) :
    ∃ e, mergeCustomObjects E a b = .error e := by
  obtain ⟨e, he⟩ := h
  unfold mergeCustomObjects
  simp only [he, bind, Except.bind]
  exact ⟨e, rfl⟩

theorem mergeCustomObjects_err_right {a b : TypeDef} (h : ∃ e, mergeCustomObjectFields E b a = .error e) :
    ∃ e, mergeCustomObjects E a b = .error e := by
  obtain ⟨e, he⟩ := h
  unfold mergeCustomObjects
  simp only [he, bind, Except.bind]
  cases mergeCustomObjectFields E a b with
  | error e' => exact ⟨e', rfl⟩
  | ok fs => exact ⟨e, rfl⟩

/-- a root field the base already has, and the two are not the same relay `node` field -/
theorem rootFold_err {n : String} : ∀ (l : List FieldDef) (fs0 : List FieldDef) (g0 rf : FieldDef),
    g0 ∈ l → isBuiltinName g0.name = false → fieldNamed fs0 g0.name = some rf →
    (isNodeField E g0 && isNodeField E rf && isSameSignature rf g0) = false →
    ∃ e, l.foldlM (rootStep E n) fs0 = .error e
  | [], _, _, _, hg, _, _, _ => by cases hg
  | x :: l, fs0, g0, rf, hg, hb, hrf, hc => by
    rw [List.foldlM_cons]
    cases h1 : rootStep E n fs0 x with
    | error e => exact ⟨e, rfl⟩
    | ok s1 =>
      rcases List.mem_cons.mp hg with rfl | hg
      · exfalso
        rcases rootStep_cases h1 with ⟨_, hbt⟩ | ⟨_, _, rf', hr', _, c1, c2, c3⟩ | ⟨_, _, hnone⟩
        · rw [hb] at hbt; cases hbt
        · unfold rootStep at h1
          simp only [show E.rootKeepsNodeField = true from rfl, ↓reduceIte, hb, Bool.false_eq_true, hrf, hc] at h1
          cases h1
        · rw [hrf] at hnone; cases hnone
      · apply rootFold_err l s1 g0 rf hg hb _ hc
        rcases rootStep_cases h1 with ⟨rfl, _⟩ | ⟨rfl, _⟩ | ⟨rfl, _⟩
        · exact hrf
        · exact hrf
        · exact fieldNamed_append_left hrf

theorem mergeRootObjects_err {a b : TypeDef} (h : ∃ e, b.fields.foldlM (rootStep E a.name) a.fields = .error e) :
    ∃ e, mergeRootObjects E a b = .error e := by
  obtain ⟨e, he⟩ := h
  unfold mergeRootObjects
  simp only [he, bind, Except.bind]
  exact ⟨e, rfl⟩

/-! `mergeDef` fails -/

theorem mergeDef_err_kind {as bs : Schema} {va vb : TypeDef} (hN : vb.name ≠ nodeInterfaceName) (hk : vb.kind ≠ va.kind) :
    ∃ e, mergeDef E as bs va vb = .error e := by
  unfold mergeDef
  have h1 : (vb.name == nodeInterfaceName) = false := by simpa using hN
  have h2 : (vb.kind != va.kind) = true := by simpa using hk
  simp only [h1, Bool.false_eq_true, ↓reduceIte, h2]
  exact ⟨_, rfl⟩

theorem mergeDef_err_union {as bs : Schema} {va vb : TypeDef} (hN : vb.name ≠ nodeInterfaceName)
    (hka : va.kind = .union) (hkb : vb.kind = .union) (hs : sameMembers va.members vb.members = false) :
    ∃ e, mergeDef E as bs va vb = .error e := by
  unfold mergeDef
  have h1 : (vb.name == nodeInterfaceName) = false := by simpa using hN
  simp only [h1, Bool.false_eq_true, ↓reduceIte, hka, hkb, bne_self_eq_false, hs]
  exact ⟨_, rfl⟩

/-- past the kind, scalar and union tests: Node agreement, then the root or the custom merge -/
theorem mergeDef_err_of {as bs : Schema} {va vb : TypeDef} (hn : va.name = vb.name) (hN : vb.name ≠ nodeInterfaceName)
    (hk : vb.kind = va.kind) (hs : vb.kind ≠ .scalar) (hu : vb.kind ≠ .union)
    (hroot : isRootName vb.name = true → implementsNode vb = implementsNode va → ∃ e, mergeRootObjects E vb va = .error e)
    (hcust : isRootName vb.name = false → implementsNode vb = implementsNode va → ∃ e, mergeCustomObjects E vb va = .error e) :
    ∃ e, mergeDef E as bs va vb = .error e := by
  unfold mergeDef
  have h1 : (vb.name == nodeInterfaceName) = false := by simpa using hN
  have h2 : (vb.kind != va.kind) = false := by simpa using hk
  have h3 : (vb.kind == Kind.scalar) = false := by simpa using hs
  have h4 : (vb.kind == Kind.union) = false := by simpa using hu
  have hself : sameMembers (possibleNames as va.name) (possibleNames (if E.ifaceSelfCompare = true then as else bs) vb.name) = true := by
    simp only [show E.ifaceSelfCompare = true from rfl, ↓reduceIte, hn]
    exact sameMembers_self _
  simp only [h1, h2, h3, h4, Bool.false_eq_true, ↓reduceIte, hself, Bool.not_true, Bool.and_false,
    show E.newSideFirst = true from rfl]
  by_cases h6 : (implementsNode vb != implementsNode va) = true
  · rw [if_pos h6]; exact ⟨_, rfl⟩
  · rw [if_neg h6]
    have h6' : implementsNode vb = implementsNode va := by simpa using h6
    by_cases h7 : isRootName vb.name = true
    · rw [if_pos h7]
      obtain ⟨e, he⟩ := hroot h7 h6'
      rw [he]; exact ⟨e, rfl⟩
    · rw [if_neg h7]
      obtain ⟨e, he⟩ := hcust (by simpa using h7) h6'
      rw [he]; exact ⟨e, rfl⟩

/-! ## when `mergeTypes` succeeds: every entry of `b` on its own (keys of `b` distinct) -/

/-- the entry `vb` of `b` can be merged into the map `a` -/
def PairOK (as bs : Schema) (a : List TypeDef) (vb : TypeDef) : Prop :=
  isBuiltinName vb.name = false → ∀ va, lookup a vb.name = some va → ∃ od, mergeDef E as bs va vb = .ok od

theorem mergeOne_ok_iff {as bs : Schema} {res : List TypeDef} {vb : TypeDef} :
    (∃ res', mergeOne E as bs res vb = .ok res') ↔ PairOK as bs res vb := by
  constructor
  · rintro ⟨res', h⟩ hb va hl
    rcases mergeOne_cases h with ⟨hbt, _⟩ | ⟨_, hl', _⟩ | ⟨_, va', hl', hcase⟩
    · rw [hb] at hbt; cases hbt
    · rw [hl] at hl'; cases hl'
    · rw [hl] at hl'; cases hl'
      rcases hcase with ⟨hm, _⟩ | ⟨d, hm, _⟩
      · exact ⟨_, hm⟩
      · exact ⟨_, hm⟩
  · intro h
    unfold mergeOne
    cases hb : isBuiltinName vb.name with
    | true => exact ⟨res, by simp⟩
    | false =>
      simp only [Bool.false_eq_true, ↓reduceIte]
      cases hl : lookup res vb.name with
      | none => exact ⟨_, rfl⟩
      | some va =>
        obtain ⟨od, hm⟩ := h hb va hl
        simp only [hm]
        cases od <;> exact ⟨_, rfl⟩

theorem mergeOne_lookup_ne {as bs : Schema} {res res' : List TypeDef} {vb : TypeDef} {k : String}
    (h : mergeOne E as bs res vb = .ok res') (hk : vb.name ≠ k) : lookup res' k = lookup res k := by
  rcases mergeOne_cases h with ⟨_, rfl⟩ | ⟨_, _, rfl⟩ | ⟨_, va, hl, hcase⟩
  · rfl
  · exact lookup_append_ne hk
  · rcases hcase with ⟨_, rfl⟩ | ⟨d, hm, rfl⟩
    · rfl
    · obtain ⟨_, hvan⟩ := lookup_some hl
      have hdn : d.name = vb.name := by
        rcases mergeDef_spec hm hvan with ⟨ho, _⟩ | ⟨_, _, hrest⟩
        · cases ho
        · rcases hrest with ⟨_, ho⟩ | ⟨_, ho, _⟩ | ⟨_, _, _, hrc⟩
          · cases ho; rfl
          · cases ho
          · rcases hrc with ⟨_, d', ho, hmr⟩ | ⟨_, d', ho, hmc⟩
            · cases ho; exact (mergeRootObjects_spec hmr).1
            · cases ho; exact (mergeCustomObjects_spec hmc).1
      exact lookup_setType_ne (hdn ▸ hk) (by rw [hdn, hl]; rfl)

theorem mergeTypes_ok_iff {as bs : Schema} : ∀ (b a : List TypeDef), (b.map (·.name)).Nodup →
    ((∃ r, mergeTypes E a b as bs = .ok r) ↔ ∀ vb ∈ b, PairOK as bs a vb)
  | [], a, _ => by
    simp only [mergeTypes, List.foldlM_nil, List.not_mem_nil, false_imp_iff, implies_true, iff_true]
    exact ⟨a, rfl⟩
  | v :: b, a, hn => by
    simp only [List.map_cons, List.nodup_cons] at hn
    have hstable : ∀ {res1}, mergeOne E as bs a v = .ok res1 → ∀ vb ∈ b, (PairOK as bs res1 vb ↔ PairOK as bs a vb) := by
      intro res1 h1 vb hvb
      have : v.name ≠ vb.name := fun he => hn.1 (he ▸ List.mem_map_of_mem hvb)
      unfold PairOK
      rw [mergeOne_lookup_ne h1 this]
    constructor
    · rintro ⟨r, h⟩
      obtain ⟨res1, h1, h2⟩ := foldlM_cons_ok (f := mergeOne E as bs) h
      have ih := (mergeTypes_ok_iff b res1 hn.2).mp ⟨r, h2⟩
      intro vb hvb
      rcases List.mem_cons.mp hvb with rfl | hvb
      · exact mergeOne_ok_iff.mp ⟨res1, h1⟩
      · exact (hstable h1 vb hvb).mp (ih vb hvb)
    · intro h
      obtain ⟨res1, h1⟩ := mergeOne_ok_iff.mpr (h v List.mem_cons_self)
      obtain ⟨r, h2⟩ := (mergeTypes_ok_iff b res1 hn.2).mpr (fun vb hvb =>
        (hstable h1 vb hvb).mpr (h vb (List.mem_cons_of_mem _ hvb)))
      refine ⟨r, ?_⟩
      unfold mergeTypes at h2 ⊢
      rw [List.foldlM_cons, h1]
      exact h2

/-- two services -/
theorem mergeSchema_two_ok_iff (A B : MergeInput) :
    (∃ R, mergeSchema E [A, B] = .ok R) ↔ ∃ r, mergeTypes E A.schema.types B.schema.types A.schema B.schema = .ok r := by
  simp only [mergeSchema, foldInputs, show E.asIsPrevInput = true from rfl, ↓reduceIte, bind, Except.bind, pure, Except.pure]
  cases mergeTypes E A.schema.types B.schema.types A.schema B.schema with
  | error e => simp
  | ok r => simp

theorem rejected_iff {ins : List MergeInput} : (∃ e, mergeSchema E ins = .error e) ↔ ¬ ∃ R, mergeSchema E ins = .ok R := by
  cases mergeSchema E ins with
  | error e => simp
  | ok R => simp

/-- two services that share a type name on which `mergeDef` fails are rejected -/
theorem reject_pair {A B : MergeInput} (hA : TypesNodup A.schema) (hB : TypesNodup B.schema) {a b : TypeDef}
    (ha : a ∈ A.schema.types) (hb : b ∈ B.schema.types) (hn : a.name = b.name) (hbn : isBuiltinName b.name = false)
    (herr : ∃ e, mergeDef E A.schema B.schema a b = .error e) : ∃ e, mergeSchema E [A, B] = .error e := by
  rw [rejected_iff, mergeSchema_two_ok_iff, mergeTypes_ok_iff _ _ hB]
  intro h
  obtain ⟨od, hod⟩ := h b hb hbn a (hn ▸ lookup_of_nodup hA ha)
  obtain ⟨e, he⟩ := herr
  rw [he] at hod; cases hod

/-! ## acceptance is symmetric for two definitions -/

/-- the two root fields may coexist: they are the same relay `node` field -/
def rootCond (g0 rf : FieldDef) : Bool := isNodeField E g0 && isNodeField E rf && isSameSignature rf g0

theorem rootCond_comm (g0 rf : FieldDef) : rootCond g0 rf = rootCond rf g0 := by
  unfold rootCond
  rw [isSameSignature_comm, Bool.and_comm (isNodeField E g0)]

theorem rootFold_ok_iff {n : String} : ∀ (l fs0 : List FieldDef), (l.map (·.name)).Nodup →
    ((∃ fs, l.foldlM (rootStep E n) fs0 = .ok fs) ↔
      ∀ g0 ∈ l, isBuiltinName g0.name = false → ∀ rf, fieldNamed fs0 g0.name = some rf → rootCond g0 rf = true)
  | [], fs0, _ => by
    simp only [List.foldlM_nil, List.not_mem_nil, false_imp_iff, implies_true, iff_true]
    exact ⟨fs0, rfl⟩
  | x :: l, fs0, hn => by
    simp only [List.map_cons, List.nodup_cons] at hn
    constructor
    · rintro ⟨fs, h⟩ g0 hg hb rf hrf
      cases hc : rootCond g0 rf with
      | true => rfl
      | false =>
        obtain ⟨e, he⟩ := rootFold_err (n := n) (x :: l) fs0 g0 rf hg hb hrf hc
        rw [he] at h; cases h
    · intro h
      have hstep : ∃ s1, rootStep E n fs0 x = .ok s1 ∧ (s1 = fs0 ∨ (s1 = fs0 ++ [x] ∧ fieldNamed fs0 x.name = none)) := by
        unfold rootStep
        simp only [show E.rootKeepsNodeField = true from rfl, ↓reduceIte]
        cases hb : isBuiltinName x.name with
        | true => exact ⟨fs0, by simp, Or.inl rfl⟩
        | false =>
          simp only [Bool.false_eq_true, ↓reduceIte]
          cases hrf : fieldNamed fs0 x.name with
          | none => exact ⟨fs0 ++ [x], rfl, Or.inr ⟨rfl, rfl⟩⟩
          | some rf =>
            have := h x List.mem_cons_self hb rf hrf
            unfold rootCond at this
            simp only [this, ↓reduceIte]
            exact ⟨fs0, rfl, Or.inl rfl⟩
      obtain ⟨s1, h1, hs1⟩ := hstep
      have ih := (rootFold_ok_iff (n := n) l s1 hn.2).mpr (by
        intro g0 hg hb rf hrf
        apply h g0 (List.mem_cons_of_mem _ hg) hb rf
        rcases hs1 with rfl | ⟨rfl, _⟩
        · exact hrf
        · unfold fieldNamed at hrf ⊢
          rw [List.find?_append] at hrf
          cases hf : List.find? (fun x => x.name == g0.name) fs0 with
          | some r => rw [hf] at hrf; simpa using hrf
          | none =>
            rw [hf] at hrf
            have hxg : x.name ≠ g0.name := fun he => hn.1 (he ▸ List.mem_map_of_mem hg)
            simp [hxg] at hrf)
      obtain ⟨fs, hfs⟩ := ih
      exact ⟨fs, by rw [List.foldlM_cons, h1]; exact hfs⟩

/-- `mergeRootObjects(a, b)` succeeds iff no field of `b` meets a same-named field of `a`, the
    relay `node` field aside -/
def RootOK (a b : TypeDef) : Prop :=
  ∀ g0 ∈ b.fields, isBuiltinName g0.name = false → ∀ rf ∈ a.fields, rf.name = g0.name → rootCond g0 rf = true

theorem mergeRootObjects_ok_iff {a b : TypeDef} (ha : (a.fields.map (·.name)).Nodup) (hb : (b.fields.map (·.name)).Nodup) :
    (∃ d, mergeRootObjects E a b = .ok d) ↔ RootOK a b := by
  have key : (∃ d, mergeRootObjects E a b = .ok d) ↔ ∃ fs, b.fields.foldlM (rootStep E a.name) a.fields = .ok fs := by
    unfold mergeRootObjects
    simp only [bind, Except.bind, pure, Except.pure]
    cases b.fields.foldlM (rootStep E a.name) a.fields with
    | error e => simp
    | ok fs => simp
  rw [key, rootFold_ok_iff _ _ hb]
  unfold RootOK
  constructor
  · intro h g0 hg hbn rf hrf hrn
    exact h g0 hg hbn rf (hrn ▸ fieldNamed_of_nodup ha hrf)
  · intro h g0 hg hbn rf hrf
    obtain ⟨h1, h2⟩ := fieldNamed_some hrf
    exact h g0 hg hbn rf h1 h2

theorem rootOK_symm {a b : TypeDef} (h : RootOK a b) : RootOK b a := by
  intro g0 hg hb rf hrf hn
  rw [rootCond_comm]
  exact h rf hrf (hn ▸ hb) g0 hg hn.symm

theorem mergeCustomObjects_ok_iff {a b : TypeDef} :
    (∃ d, mergeCustomObjects E a b = .ok d) ↔
      (∃ fs, mergeCustomObjectFields E a b = .ok fs) ∧ (∃ fs, mergeCustomObjectFields E b a = .ok fs) := by
  unfold mergeCustomObjects
  simp only [bind, Except.bind, pure, Except.pure]
  cases mergeCustomObjectFields E a b with
  | error e => simp
  | ok fs =>
    cases mergeCustomObjectFields E b a with
    | error e => simp
    | ok fs' => simp

/-- `mergeDef` succeeds iff … (the converse of `mergeDef_spec`) -/
theorem mergeDef_ok_iff {as bs : Schema} {va vb : TypeDef} (hn : va.name = vb.name) :
    (∃ od, mergeDef E as bs va vb = .ok od) ↔
    (vb.name = nodeInterfaceName ∨ (vb.kind = va.kind ∧ (vb.kind = .scalar ∨ (vb.kind = .union ∧ sameMembers va.members vb.members = true) ∨
      (vb.kind ≠ .scalar ∧ vb.kind ≠ .union ∧ implementsNode vb = implementsNode va ∧
        (isRootName vb.name = true → ∃ d, mergeRootObjects E vb va = .ok d) ∧
        (isRootName vb.name = false → ∃ d, mergeCustomObjects E vb va = .ok d))))) := by
  constructor
  · rintro ⟨od, h⟩
    rcases mergeDef_spec h hn with ⟨_, hN⟩ | ⟨_, hk, hrest⟩
    · exact Or.inl hN
    · right
      refine ⟨hk, ?_⟩
      rcases hrest with ⟨hs, _⟩ | ⟨hu, _, hsm⟩ | ⟨hs, hu, hi, hrc⟩
      · exact Or.inl hs
      · exact Or.inr (Or.inl ⟨hu, hsm⟩)
      · refine Or.inr (Or.inr ⟨hs, hu, hi, ?_, ?_⟩)
        · intro hr
          rcases hrc with ⟨_, d, _, hm⟩ | ⟨hr', _⟩
          · exact ⟨d, hm⟩
          · rw [hr] at hr'; cases hr'
        · intro hr
          rcases hrc with ⟨hr', _⟩ | ⟨_, d, _, hm⟩
          · rw [hr] at hr'; cases hr'
          · exact ⟨d, hm⟩
  · intro h
    unfold mergeDef
    by_cases h1 : (vb.name == nodeInterfaceName) = true
    · rw [if_pos h1]; exact ⟨_, rfl⟩
    · rw [if_neg h1]
      rcases h with hN | ⟨hk, hrest⟩
      · exact absurd (by simpa using hN) h1
      · have h2 : (vb.kind != va.kind) = false := by simpa using hk
        simp only [h2, Bool.false_eq_true, ↓reduceIte]
        rcases hrest with hs | ⟨hu, hsm⟩ | ⟨hs, hu, hi, hroot, hcust⟩
        · simp only [hs, beq_self_eq_true, ↓reduceIte]; exact ⟨_, rfl⟩
        · simp only [↓reduceIte, hu, beq_self_eq_true, hsm]; exact ⟨_, rfl⟩
        · have h3 : (vb.kind == Kind.scalar) = false := by simpa using hs
          have h4 : (vb.kind == Kind.union) = false := by simpa using hu
          have hself : sameMembers (possibleNames as va.name) (possibleNames (if E.ifaceSelfCompare = true then as else bs) vb.name) = true := by
            simp only [show E.ifaceSelfCompare = true from rfl, ↓reduceIte, hn]
            exact sameMembers_self _
          have h6 : (implementsNode vb != implementsNode va) = false := by simpa using hi
          simp only [h3, h4, Bool.false_eq_true, ↓reduceIte, hself, Bool.not_true, Bool.and_false, h6,
            show E.newSideFirst = true from rfl]
          by_cases h7 : isRootName vb.name = true
          · rw [if_pos h7]
            obtain ⟨d, hd⟩ := hroot h7
            rw [hd]; exact ⟨_, rfl⟩
          · rw [if_neg h7]
            obtain ⟨d, hd⟩ := hcust (by simpa using h7)
            rw [hd]; exact ⟨_, rfl⟩

/-- whether two same-named definitions can be merged does not depend on which is the new one -/
theorem mergeDef_ok_symm {as bs as' bs' : Schema} {va vb : TypeDef} (hn : va.name = vb.name)
    (ha : (va.fields.map (·.name)).Nodup) (hb : (vb.fields.map (·.name)).Nodup)
    (h : ∃ od, mergeDef E as bs va vb = .ok od) : ∃ od, mergeDef E as' bs' vb va = .ok od := by
  rw [mergeDef_ok_iff hn] at h
  rw [mergeDef_ok_iff hn.symm]
  rcases h with hN | ⟨hk, hrest⟩
  · exact Or.inl (hn ▸ hN)
  · right
    refine ⟨hk.symm, ?_⟩
    rcases hrest with hs | ⟨hu, hsm⟩ | ⟨hs, hu, hi, hroot, hcust⟩
    · exact Or.inl (hk ▸ hs)
    · exact Or.inr (Or.inl ⟨hk ▸ hu, by rw [sameMembers_comm]; exact hsm⟩)
    · refine Or.inr (Or.inr ⟨hk ▸ hs, hk ▸ hu, hi.symm, ?_, ?_⟩)
      · intro hr
        rw [mergeRootObjects_ok_iff ha hb]
        exact rootOK_symm ((mergeRootObjects_ok_iff hb ha).mp (hroot (hn ▸ hr)))
      · intro hr
        rw [mergeCustomObjects_ok_iff]
        exact (mergeCustomObjects_ok_iff.mp (hcust (hn ▸ hr))).symm

end PebblesVerif.Merge
