import PebblesVerif.Proofs.MergeTop
/-!
n services: a sufficient condition for acceptance that does not depend on the order of the list
(C05_perm_partial): every two services are accepted on their own, no composite non-root type is
declared by three or more services, root types implement no interface. Core Lean only.
-/
namespace PebblesVerif.Merge
open PebblesVerif PebblesVerif.SchemaUnion
open PebblesVerif.Gen.Merge (Facts expected idFieldName nodeFieldName nodeInterfaceName queryName)

/-- service `i` declares a composite type (object, interface, input, enum) named `T` -/
def declC (T : String) (i : MergeInput) : Bool := i.schema.types.any (fun d => d.name == T && composite d.kind)

/-- no composite non-root type is declared by three or more services -/
def AtMostTwo (l : List MergeInput) : Prop :=
  ∀ T, isBuiltinName T = false → isRootName T = false → (l.filter (declC T)).length ≤ 2

/-- root types implement no interface -/
def RootsPlain (S : Schema) : Prop := ∀ d ∈ S.types, isRootName d.name = true → d.interfaces = []

instance (S : Schema) : Decidable (RootsPlain S) := by unfold RootsPlain; infer_instance

/-- where an entry of the accumulated map comes from -/
inductive Origin (seen : List MergeInput) (d : TypeDef) : Prop where
  | lit (i : MergeInput) (hi : i ∈ seen) (hd : d ∈ i.schema.types)
  | root (hr : isRootName d.name = true) (hk : d.kind = .object) (hi : d.interfaces = [])
      (hn : (d.fields.map (·.name)).Nodup)
      (hf : ∀ g ∈ d.fields, ∃ i ∈ seen, ∃ d' ∈ i.schema.types, d'.name = d.name ∧ g ∈ d'.fields)
  | two (hr : isRootName d.name = false) (hc : composite d.kind = true)
      (h2 : 2 ≤ (seen.filter (declC d.name)).length)

theorem Origin.mono {seen : List MergeInput} {j : MergeInput} {d : TypeDef} (h : Origin seen d) : Origin (seen ++ [j]) d := by
  cases h with
  | lit i hi hd => exact .lit i (List.mem_append_left _ hi) hd
  | root hr hk hi hn hf =>
    refine .root hr hk hi hn ?_
    intro g hg
    obtain ⟨i, hi', rest⟩ := hf g hg
    exact ⟨i, List.mem_append_left _ hi', rest⟩
  | two hr hc h2 =>
    refine .two hr hc ?_
    rw [List.filter_append, List.length_append]
    omega

theorem composite_of_not {k : Kind} (h1 : k ≠ .scalar) (h2 : k ≠ .union) : composite k = true := by
  cases k <;> simp [composite] at h1 h2 ⊢

theorem declC_of {T : String} {i : MergeInput} {d : TypeDef} (hd : d ∈ i.schema.types) (hn : d.name = T)
    (hc : composite d.kind = true) : declC T i = true := by
  unfold declC
  rw [List.any_eq_true]
  exact ⟨d, hd, by simp [hn, hc]⟩

theorem declC_elim {T : String} {i : MergeInput} (h : declC T i = true) :
    ∃ d ∈ i.schema.types, d.name = T ∧ composite d.kind = true := by
  unfold declC at h
  rw [List.any_eq_true] at h
  obtain ⟨d, hd, hc⟩ := h
  simp only [Bool.and_eq_true, beq_iff_eq] at hc
  exact ⟨d, hd, hc.1, hc.2⟩

/-- a pair accepted on its own: its same-named definitions can be merged -/
theorem pair_def_ok {i j : MergeInput} (hacc : Accepted E [i, j]) (hi : Loaded i.schema) (hj : Loaded j.schema)
    {va vb : TypeDef} (hva : va ∈ i.schema.types) (hvb : vb ∈ j.schema.types) (hn : va.name = vb.name)
    (hb : isBuiltinName vb.name = false) (as bs : Schema) : ∃ od, mergeDef E as bs va vb = .ok od := by
  unfold Accepted at hacc
  rw [mergeSchema_two_ok_iff, mergeTypes_ok_iff _ _ hj.types] at hacc
  exact mergeDef_schemas_irrelevant hn (hacc vb hvb hb va (hn ▸ lookup_of_nodup hi.types hva))

theorem not_implementsNode_of_nil {d : TypeDef} (h : d.interfaces = []) : implementsNode d = false := by
  simp [implementsNode, h]

/-- one more service -/
theorem step_ok {seen : List MergeInput} {j : MergeInput} {acc : List TypeDef} (as bs : Schema)
    (hinv : ∀ d ∈ acc, Origin seen d) (hnd : (acc.map (·.name)).Nodup)
    (hL : ∀ i ∈ seen, Loaded i.schema) (hP : ∀ i ∈ seen, RootsPlain i.schema)
    (hLj : Loaded j.schema) (hPj : RootsPlain j.schema)
    (hpair : ∀ i ∈ seen, Accepted E [i, j])
    (h2 : ∀ T, isBuiltinName T = false → isRootName T = false →
      (seen.filter (declC T)).length + (if declC T j then 1 else 0) ≤ 2) :
    ∃ acc', mergeTypes E acc j.schema.types as bs = .ok acc' ∧ (∀ d ∈ acc', Origin (seen ++ [j]) d) ∧
      (acc'.map (·.name)).Nodup := by
  have hok : ∃ acc', mergeTypes E acc j.schema.types as bs = .ok acc' := by
    rw [mergeTypes_ok_iff _ _ hLj.types]
    intro vb hvb hb va hl
    obtain ⟨hva, hvan⟩ := lookup_some hl
    cases hinv va hva with
    | lit i hi hd => exact pair_def_ok (hpair i hi) (hL i hi) hLj hd hvb hvan hb as bs
    | root hr hk hi hn hf =>
      have hrb : isRootName vb.name = true := hvan ▸ hr
      have hkb : vb.kind = .object := hLj.roots vb hvb hrb
      rw [mergeDef_ok_iff hvan]
      right
      refine ⟨hkb.trans hk.symm, Or.inr (Or.inr ⟨by rw [hkb]; decide, by rw [hkb]; decide, ?_, ?_, ?_⟩)⟩
      · rw [not_implementsNode_of_nil hi, not_implementsNode_of_nil (hPj vb hvb hrb)]
      · intro _
        rw [mergeRootObjects_ok_iff (hLj.fields vb hvb) hn]
        intro g0 hg0 hgb rf hrf hrn
        obtain ⟨i, hi', d', hd', hd'n, hgd'⟩ := hf g0 hg0
        have := pair_def_ok (hpair i hi') (hL i hi') hLj hd' hvb (hd'n.trans hvan) hb as bs
        rw [mergeDef_ok_iff (hd'n.trans hvan)] at this
        rcases this with hN | ⟨_, hrest⟩
        · exact absurd hN (root_ne_node hrb)
        · rcases hrest with hs | ⟨hu, _⟩ | ⟨_, _, _, hroot, _⟩
          · rw [hkb] at hs; cases hs
          · rw [hkb] at hu; cases hu
          · have := (mergeRootObjects_ok_iff (hLj.fields vb hvb) ((hL i hi').fields d' hd')).mp (hroot hrb)
            exact this g0 hgd' hgb rf hrf hrn
      · intro h; rw [hrb] at h; cases h
    | two hr hc h2' =>
      by_cases hN : vb.name = nodeInterfaceName
      · rw [mergeDef_ok_iff hvan]; exact Or.inl hN
      · exfalso
        -- some earlier service declares the name as a composite type
        have hne : seen.filter (declC va.name) ≠ [] := by
          intro he; rw [he] at h2'; simp at h2'
        obtain ⟨i, hifl⟩ := List.exists_mem_of_ne_nil _ hne
        obtain ⟨hi', hdi⟩ := List.mem_filter.mp hifl
        obtain ⟨d', hd', hd'n, hd'c⟩ := declC_elim hdi
        have := pair_def_ok (hpair i hi') (hL i hi') hLj hd' hvb (hd'n.trans hvan) hb as bs
        rw [mergeDef_ok_iff (hd'n.trans hvan)] at this
        rcases this with hN' | ⟨hkk, _⟩
        · exact hN hN'
        · have hdj : declC va.name j = true := declC_of hvb hvan.symm (hkk ▸ hd'c)
          have := h2 va.name (hvan ▸ hb) hr
          rw [hdj] at this
          simp only [↓reduceIte] at this
          omega
  obtain ⟨acc', hacc'⟩ := hok
  have hrootj : ∀ vb ∈ j.schema.types, isRootName vb.name = true → vb.kind = .object := fun vb hvb => hLj.roots vb hvb
  refine ⟨acc', hacc', ?_, (mergeTypes_spec _ _ _ hacc' hrootj).nodup hnd⟩
  intro d hd
  rcases mergeTypes_provenance _ _ _ hacc' hLj.types d hd with hda | hdb | ⟨vb, hvb, va, hl, hm⟩
  · exact (hinv d hda).mono
  · exact .lit j (by simp) hdb
  · obtain ⟨hva, hvan⟩ := lookup_some hl
    rcases mergeDef_spec hm hvan with ⟨ho, _⟩ | ⟨_, hk, hrest⟩
    · cases ho
    · rcases hrest with ⟨_, ho⟩ | ⟨_, ho, _⟩ | ⟨hs, hu, _, hrc⟩
      · cases ho; exact .lit j (by simp) hvb
      · cases ho
      · rcases hrc with ⟨hr, d', ho, hmr⟩ | ⟨hr, d', ho, hmc⟩
        · cases ho
          obtain ⟨dn, dk, di, _, _, df⟩ := mergeRootObjects_spec hmr
          obtain ⟨⟨ext, hext, hextm⟩, _, _⟩ := rootFold_spec _ _ _ df
          have hvai : va.interfaces = [] := by
            cases hinv va hva with
            | lit i hi hd' => exact hP i hi va hd' (hvan ▸ hr)
            | root _ _ hi _ _ => exact hi
            | two hr' _ _ => rw [hvan, hr] at hr'; cases hr'
          refine .root (dn ▸ hr) dk ?_ (rootFold_nodup _ _ _ df (hLj.fields vb hvb)) ?_
          · rw [di, hPj vb hvb hr, hvai]; rfl
          · intro g hg
            rw [hext] at hg
            rcases List.mem_append.mp hg with hg | hg
            · exact ⟨j, by simp, vb, hvb, dn.symm, hg⟩
            · have hgva := hextm g hg
              cases hinv va hva with
              | lit i hi hd' => exact ⟨i, List.mem_append_left _ hi, va, hd', by rw [dn, hvan], hgva⟩
              | root _ _ _ _ hf =>
                obtain ⟨i, hi, d'', hd'', hd''n, hgd''⟩ := hf g hgva
                exact ⟨i, List.mem_append_left _ hi, d'', hd'', by rw [hd''n, dn, hvan], hgd''⟩
              | two hr' _ _ => rw [hvan, hr] at hr'; cases hr'
        · cases ho
          obtain ⟨dn, dk, _⟩ := mergeCustomObjects_spec hmc
          have hcb : composite vb.kind = true := composite_of_not hs hu
          refine .two (dn ▸ hr) (dk ▸ hcb) ?_
          rw [dn, List.filter_append, List.length_append]
          have hj1 : ([j].filter (declC vb.name)).length = 1 := by
            simp [declC_of hvb rfl hcb]
          rw [hj1]
          cases hinv va hva with
          | lit i hi hd' =>
            have : i ∈ seen.filter (declC vb.name) :=
              List.mem_filter.mpr ⟨hi, declC_of hd' hvan (hk ▸ hcb)⟩
            have : 0 < (seen.filter (declC vb.name)).length := List.length_pos_of_mem this
            omega
          | root hr' _ _ _ _ => rw [hvan, hr] at hr'; cases hr'
          | two _ _ h2' => rw [hvan] at h2'; omega

/-- the fold succeeds -/
theorem foldInputs_ok : ∀ (rest seen : List MergeInput) (acc : List TypeDef) (accS prev : Schema),
    (∀ d ∈ acc, Origin seen d) → (acc.map (·.name)).Nodup →
    (∀ i ∈ seen ++ rest, Loaded i.schema ∧ RootsPlain i.schema) →
    (∀ i ∈ seen, ∀ j ∈ rest, Accepted E [i, j]) → rest.Pairwise (fun i j => Accepted E [i, j]) →
    AtMostTwo (seen ++ rest) → ∃ R, foldInputs E acc accS prev rest = .ok R
  | [], _, acc, _, _, _, _, _, _, _, _ => ⟨acc, rfl⟩
  | j :: rest, seen, acc, accS, prev, hinv, hnd, hL, hcross, hpw, h2 => by
    rw [List.pairwise_cons] at hpw
    have hLj := hL j (by simp)
    obtain ⟨acc', hacc', hinv', hnd'⟩ := step_ok (seen := seen) (j := j) (acc := acc)
      (if E.asIsPrevInput = true then prev else accS) j.schema hinv hnd
      (fun i hi => (hL i (List.mem_append_left _ hi)).1) (fun i hi => (hL i (List.mem_append_left _ hi)).2)
      hLj.1 hLj.2 (fun i hi => hcross i hi j List.mem_cons_self)
      (by
        intro T hb hr
        have := h2 T hb hr
        rw [List.filter_append, List.length_append, List.filter_cons] at this
        split at this
        · rename_i hd; simp only [hd, ↓reduceIte]; simp only [List.length_cons] at this; omega
        · rename_i hd; simp only [hd, Bool.false_eq_true, ↓reduceIte]; omega)
    have heq : (seen ++ [j]) ++ rest = seen ++ j :: rest := by simp
    obtain ⟨R, hR⟩ := foldInputs_ok rest (seen ++ [j]) acc' { accS with types := acc' } j.schema hinv' hnd'
      (by rw [heq]; exact hL)
      (by
        intro i hi k hk
        rcases List.mem_append.mp hi with hi | hi
        · exact hcross i hi k (List.mem_cons_of_mem _ hk)
        · simp only [List.mem_singleton] at hi; subst hi; exact hpw.1 k hk)
      hpw.2 (by rw [heq]; exact h2)
    refine ⟨R, ?_⟩
    simp only [foldInputs, bind, Except.bind, hacc']
    exact hR

/-- pairwise accepted + no composite non-root type declared three times + plain roots ⇒ accepted -/
theorem accepted_of_pairwise (l : List MergeInput) (hne : l ≠ []) (hL : ∀ i ∈ l, Loaded i.schema ∧ RootsPlain i.schema)
    (hpw : l.Pairwise (fun i j => Accepted E [i, j])) (h2 : AtMostTwo l) : Accepted E l := by
  cases l with
  | nil => exact absurd rfl hne
  | cons i0 rest =>
    rw [List.pairwise_cons] at hpw
    obtain ⟨R, hR⟩ := foldInputs_ok rest [i0] i0.schema.types i0.schema i0.schema
      (fun d hd => .lit i0 (by simp) hd) (hL i0 (by simp)).1.types (by simpa using hL)
      (by intro i hi j hj; simp only [List.mem_singleton] at hi; subst hi; exact hpw.1 j hj) hpw.2 (by simpa using h2)
    unfold Accepted
    simp only [mergeSchema, bind, Except.bind, hR, pure, Except.pure]
    exact ⟨_, rfl⟩

end PebblesVerif.Merge
