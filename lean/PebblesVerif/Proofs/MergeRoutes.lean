import PebblesVerif.Proofs.MergeOrder
/-! A non-`id` field of a Node type has one declarer, so its route does not depend on the order of the service list (C04, C05). Core Lean only. -/
namespace PebblesVerif.Merge
open PebblesVerif PebblesVerif.SchemaUnion PebblesVerif.TUM
open PebblesVerif.Gen.Merge (Facts expected idFieldName nodeFieldName nodeInterfaceName queryName)

/-! ## a non-`id` field of a Node type has one declarer -/

theorem isIDField_name {g : FieldDef} (h : isIDField g = true) : g.name = idFieldName := by
  unfold isIDField at h
  simp only [Bool.and_eq_true, beq_iff_eq] at h
  exact h.1.1

/-- the map has an object named `T` with a field named `f` (implementing `Node` if `b`) -/
def HasFieldB (ts : List TypeDef) (T f : String) (b : Bool) : Prop :=
  ∃ d ∈ ts, d.name = T ∧ d.kind = .object ∧ (b = true → implementsNode d = true) ∧ ∃ g ∈ d.fields, g.name = f

theorem hasFieldB_keeps {res res' : List TypeDef} (hk : ∀ d ∈ res, ∃ r ∈ res', Covers d r) {T f : String} {b : Bool}
    (hb : isBuiltinName f = false) (h : HasFieldB res T f b) : HasFieldB res' T f b := by
  obtain ⟨d, hd, hdn, hdk, hdN, g, hg, hgn⟩ := h
  obtain ⟨r, hr, hc⟩ := hk d hd
  obtain ⟨h1, h2, g', hg', h3⟩ := hasField_of_covers hc hdk hg (by rw [hgn]; exact hb)
  refine ⟨r, hr, h1.trans hdn, h2, ?_, g', hg', h3.trans hgn⟩
  intro hbt
  have : Item.iface d.name nodeInterfaceName ∈ defItems d :=
    iface_item_mem.mpr ⟨rfl, by rw [hdk]; rfl, by simpa [implementsNode] using hdN hbt⟩
  have := iface_item_mem.mp (hc _ this)
  simpa [implementsNode] using this.2.2

theorem mergeOne_nodeClash {as bs : Schema} {res res' : List TypeDef} {vb : TypeDef}
    (h : mergeOne E as bs res vb = .ok res') (hn : (res.map (·.name)).Nodup)
    (hbn : isBuiltinName vb.name = false) (hr : isRootName vb.name = false) (hN : vb.name ≠ nodeInterfaceName)
    {f : String} {b : Bool} (hb : isBuiltinName f = false)
    (hf : HasFieldB res vb.name f b) (hg : ∃ g ∈ vb.fields, g.name = f)
    (hnode : b = true ∨ implementsNode vb = true) : f = idFieldName := by
  obtain ⟨d, hd, hdn, hdk, hdN, g0, hg0, hg0n⟩ := hf
  have hl : lookup res vb.name = some d := hdn ▸ lookup_of_nodup hn hd
  rcases mergeOne_cases h with ⟨hbt, _⟩ | ⟨_, hl', _⟩ | ⟨_, va, hl', hcase⟩
  · rw [hbn] at hbt; cases hbt
  · rw [hl] at hl'; cases hl'
  · rw [hl] at hl'; cases hl'
    have hmd : ∃ od, mergeDef E as bs d vb = .ok od := by
      rcases hcase with ⟨hm, _⟩ | ⟨d', hm, _⟩
      · exact ⟨_, hm⟩
      · exact ⟨_, hm⟩
    obtain ⟨od, hm⟩ := hmd
    rcases mergeDef_spec hm hdn with ⟨_, hN'⟩ | ⟨_, hk, hrest⟩
    · exact absurd hN' hN
    · rcases hrest with ⟨hs, _⟩ | ⟨hu, _, _⟩ | ⟨_, _, hi, hrc⟩
      · rw [hk, hdk] at hs; cases hs
      · rw [hk, hdk] at hu; cases hu
      · rcases hrc with ⟨hr', _⟩ | ⟨_, d', _, hmc⟩
        · rw [hr] at hr'; cases hr'
        · have hvbN : implementsNode vb = true := by
            rcases hnode with hb' | hv
            · rw [hi]; exact hdN hb'
            · exact hv
          obtain ⟨_, _, _, _, _, df, _⟩ := mergeCustomObjects_spec hmc
          obtain ⟨g, hg, hgn⟩ := hg
          cases hid : isIDField g0 with
          | true => rw [← hg0n]; exact isIDField_name hid
          | false =>
            obtain ⟨e, he⟩ := customFields_err_node (a := vb) (b := d) (notQuery_of_notRoot hr) hvbN hg0
              (by rw [hg0n]; exact hb) hid ⟨g, hg, hgn.trans hg0n.symm⟩
            rw [he] at df; cases df

/-- `i` declares the object type `T` with a field named `f` -/
def DeclObj (i : MergeInput) (T f : String) : Prop :=
  ∃ d ∈ i.schema.types, d.name = T ∧ d.kind = .object ∧ ∃ g ∈ d.fields, g.name = f
/-- `i` declares the object type `T` implementing `Node` -/
def NodeObj (i : MergeInput) (T : String) : Prop :=
  ∃ d ∈ i.schema.types, d.name = T ∧ d.kind = .object ∧ implementsNode d = true

/-- two services do not both declare a non-`id` field of a type that one of them declares as a Node type -/
def NoNodeClash (i j : MergeInput) : Prop :=
  ∀ T f, isBuiltinName T = false → isRootName T = false → T ≠ nodeInterfaceName → isBuiltinName f = false →
    DeclObj i T f → DeclObj j T f → (NodeObj i T ∨ NodeObj j T) → f = idFieldName

theorem mergeTypes_nodeClash {as bs : Schema} : ∀ (b a r : List TypeDef),
    mergeTypes E a b as bs = .ok r → (a.map (·.name)).Nodup →
    (∀ vb ∈ b, isRootName vb.name = true → vb.kind = .object) →
    ∀ vb ∈ b, isBuiltinName vb.name = false → isRootName vb.name = false → vb.name ≠ nodeInterfaceName →
      ∀ f bb, isBuiltinName f = false → HasFieldB a vb.name f bb → (∃ g ∈ vb.fields, g.name = f) →
      (bb = true ∨ implementsNode vb = true) → f = idFieldName
  | [], _, _, _, _, _ => by simp
  | v :: b, a, r, h, hn, hroot => by
    obtain ⟨res1, h1, h2⟩ := foldlM_cons_ok (f := mergeOne E as bs) h
    have S := mergeOne_spec h1 (hroot v List.mem_cons_self)
    intro vb hvb hbn hr hN f bb hb hf hg hnode
    rcases List.mem_cons.mp hvb with rfl | hvb
    · exact mergeOne_nodeClash h1 hn hbn hr hN hb hf hg hnode
    · exact mergeTypes_nodeClash b res1 r h2 (S.nodup hn) (fun x hx => hroot x (List.mem_cons_of_mem _ hx))
        vb hvb hbn hr hN f bb hb (hasFieldB_keeps S.keeps hb hf) hg hnode

theorem foldInputs_nodeClash : ∀ (rest : List MergeInput) (acc : List TypeDef) (accS prev : Schema) (R : List TypeDef),
    foldInputs E acc accS prev rest = .ok R → (acc.map (·.name)).Nodup →
    (∀ i ∈ rest, RootsAreObjects i.schema ∧ TypesNodup i.schema) →
    (∀ j ∈ rest, ∀ T f bb, isBuiltinName T = false → isRootName T = false → T ≠ nodeInterfaceName →
      isBuiltinName f = false → HasFieldB acc T f bb → DeclObj j T f → (bb = true ∨ NodeObj j T) → f = idFieldName) ∧
    rest.Pairwise NoNodeClash
  | [], _, _, _, _, _, _, _ => by simp
  | i :: rest, acc, accS, prev, R, h, hn, hroot => by
    simp only [foldInputs, bind, Except.bind] at h
    split at h
    · cases h
    · rename_i acc' hacc
      have hri : ∀ vb ∈ i.schema.types, isRootName vb.name = true → vb.kind = .object :=
        fun vb hvb => (hroot i List.mem_cons_self).1 vb hvb
      have hni := (hroot i List.mem_cons_self).2
      have S := mergeTypes_spec _ _ _ hacc hri
      obtain ⟨IHA, IHB⟩ := foldInputs_nodeClash rest acc' _ _ R h (S.nodup hn)
        (fun j hj => hroot j (List.mem_cons_of_mem _ hj))
      constructor
      · intro j hj T f bb hbT hrT hNT hb hf hd hnode
        rcases List.mem_cons.mp hj with rfl | hj
        · obtain ⟨d, hd, hdn, hdk, g, hg, hgn⟩ := hd
          refine mergeTypes_nodeClash _ _ _ hacc hn hri d hd (hdn ▸ hbT) (hdn ▸ hrT) (hdn ▸ hNT) f bb hb (hdn ▸ hf)
            ⟨g, hg, hgn⟩ ?_
          rcases hnode with h' | ⟨d', hd', hd'n, _, hd'N⟩
          · exact Or.inl h'
          · have : d' = d := eq_of_nodup_name hni hd' hd (hd'n.trans hdn.symm)
            exact Or.inr (this ▸ hd'N)
        · exact IHA j hj T f bb hbT hrT hNT hb (hasFieldB_keeps S.keeps hb hf) hd hnode
      · rw [List.pairwise_cons]
        refine ⟨?_, IHB⟩
        intro j hj T f hbT hrT hNT hb hdi hdj hnode
        obtain ⟨d, hd, hdn, hdk, g, hg, hgn⟩ := hdi
        obtain ⟨r, hr, hc⟩ := S.adds d hd (hdn ▸ hbT) (fun hN' => absurd (hdn ▸ hN') hNT)
        -- the accumulated map has `T` with `f`, implementing `Node` if `i` declares it so
        by_cases hdN : implementsNode d = true
        · have hf : HasFieldB acc' T f true := by
            obtain ⟨h1, h2, g', hg', h3⟩ := hasField_of_covers hc hdk hg (by rw [hgn]; exact hb)
            refine ⟨r, hr, h1.trans hdn, h2, ?_, g', hg', h3.trans hgn⟩
            intro _
            have : Item.iface d.name nodeInterfaceName ∈ defItems d :=
              iface_item_mem.mpr ⟨rfl, by rw [hdk]; rfl, by simpa [implementsNode] using hdN⟩
            have := iface_item_mem.mp (hc _ this)
            simpa [implementsNode] using this.2.2
          exact IHA j hj T f true hbT hrT hNT hb hf hdj (Or.inl rfl)
        · have hf : HasFieldB acc' T f false := by
            obtain ⟨h1, h2, g', hg', h3⟩ := hasField_of_covers hc hdk hg (by rw [hgn]; exact hb)
            exact ⟨r, hr, h1.trans hdn, h2, (fun h => Bool.noConfusion h), g', hg', h3.trans hgn⟩
          have hj' : NodeObj j T := by
            rcases hnode with ⟨d', hd', hd'n, _, hd'N⟩ | hjn
            · have : d' = d := eq_of_nodup_name hni hd' hd (hd'n.trans hdn.symm)
              exact absurd (this ▸ hd'N) hdN
            · exact hjn
          exact IHA j hj T f false hbT hrT hNT hb hf hdj (Or.inr hj')

theorem node_fields_disjoint {ins : List MergeInput} {R : Schema} (h : mergeSchema E ins = .ok R)
    (hroot : ∀ i ∈ ins, RootsAreObjects i.schema) (hnd : ∀ i ∈ ins, TypesNodup i.schema) : ins.Pairwise NoNodeClash := by
  cases ins with
  | nil => exact List.Pairwise.nil
  | cons i0 rest =>
    obtain ⟨types, ht, _, _⟩ := mergeSchema_ok h
    obtain ⟨hA, hB⟩ := foldInputs_nodeClash rest _ _ _ _ ht (hnd i0 List.mem_cons_self)
      (fun i hi => ⟨hroot i (List.mem_cons_of_mem _ hi), hnd i (List.mem_cons_of_mem _ hi)⟩)
    rw [List.pairwise_cons]
    refine ⟨?_, hB⟩
    intro j hj T f hbT hrT hNT hb hdi hdj hnode
    obtain ⟨d, hd, hdn, hdk, g, hg, hgn⟩ := hdi
    by_cases hdN : implementsNode d = true
    · exact hA j hj T f true hbT hrT hNT hb ⟨d, hd, hdn, hdk, fun _ => hdN, g, hg, hgn⟩ hdj (Or.inl rfl)
    · have hj' : NodeObj j T := by
        rcases hnode with ⟨d', hd', hd'n, _, hd'N⟩ | hjn
        · have : d' = d := eq_of_nodup_name (hnd i0 List.mem_cons_self) hd' hd (hd'n.trans hdn.symm)
          exact absurd (this ▸ hd'N) hdN
        · exact hjn
      exact hA j hj T f false hbT hrT hNT hb ⟨d, hd, hdn, hdk, (fun h => Bool.noConfusion h), g, hg, hgn⟩ hdj (Or.inr hj')

theorem noNodeClash_symm {i j : MergeInput} (h : NoNodeClash i j) : NoNodeClash j i :=
  fun T f a b c d hj hi hn => h T f a b c d hi hj hn.symm

theorem pairwise_mem_node {l : List MergeInput} (h : l.Pairwise NoNodeClash) {i j : MergeInput} (hi : i ∈ l) (hj : j ∈ l)
    (hne : i ≠ j) : NoNodeClash i j := by
  induction l with
  | nil => cases hi
  | cons x xs ih =>
    rw [List.pairwise_cons] at h
    rcases List.mem_cons.mp hi with hix | hi'
    · rcases List.mem_cons.mp hj with hjx | hj'
      · exact absurd (hix.trans hjx.symm) hne
      · exact hix ▸ h.1 j hj'
    · rcases List.mem_cons.mp hj with hjx | hj'
      · exact hjx ▸ noNodeClash_symm (h.1 i hi')
      · exact ih h.2 hi' hj'

/-- a non-`id` field of a Node type declaration is routed to its declarer, whatever the order -/
theorem node_route_E {l : List MergeInput} {R : Schema} (h : mergeSchema E l = .ok R)
    (hroot : ∀ i ∈ l, RootsAreObjects i.schema) (hnd : ∀ i ∈ l, TypesNodup i.schema)
    {i : MergeInput} (hi : i ∈ l) {T f : String} (hs : Stores E i.schema.types T f) (hN : NodeObj i T)
    (hrT : isRootName T = false) (hNT : T ≠ nodeInterfaceName) (hb : isBuiltinName f = false) :
    Tum.get? (build E l) T f = some i.url := by
  obtain ⟨u, hu⟩ := build_total (F := E) hi hs
  obtain ⟨j, hj, hju, hsj⟩ := build_get hu
  by_cases hij : i = j
  · rw [hu, ← hju, hij]
  · exfalso
    obtain ⟨v, hv, hvn, hvk, hvb, fd, hfd, hfn, _, hid⟩ := hs
    obtain ⟨v', hv', hv'n, hv'k, _, fd', hfd', hfn', _, _⟩ := hsj
    exact hid (pairwise_mem_node (node_fields_disjoint h hroot hnd) hi hj hij T f (hvn ▸ hvb) hrT hNT hb
      ⟨v, hv, hvn, hvk, fd, hfd, hfn⟩ ⟨v', hv', hv'n, hv'k, fd', hfd', hfn'⟩ (Or.inl hN))

end PebblesVerif.Merge
